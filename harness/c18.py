"""C18 - VRU clustering state machine stays consistent and never silences a VRU for good."""
from __future__ import annotations

import datetime
import itertools
import json

from . import common
from . import c18_impl as ci
from .c18_impl import Impl, Oracle, encode_events, parse_trace, diff_states, LEAVE_REASONS, BREAKUP_REASONS, CPM

PROP = "C18"
COQ_TARGETS = ["Properties/C18", "Extract/ExC18"]
MODEL_ML = "c18_model.ml"
MODEL_NAME = "c18"
GENS = ["gen_c18"]
TRUSTED_BASE = [
    "Coq 8.16.1 kernel (coqc); vm_compute only in the concrete witnesses / examples; no native_compute",
    "extraction (ExtrOcamlBasic only; Z/positive stay Coq datatypes) + ocaml/driver_body.ml + OCaml 4.13.1",
    "hand-written model coq/theories/Model/Cluster.v, tied to VBSClusteringManager by differential execution "
    "(this harness), not by proof",
    "tools/gen_c18.py (timing constants of vam_constants.py -> Gen/C18Consts.v in ticks of 1/1024 s)",
    "Python harness harness/c18.py, harness/c18_impl.py; asn1tools UPER codec (third party, used as is in the closed loops)",
]
ASSUMPTIONS = [
    "the model is tied to the code by execution on the same event sequences (state compared after every event), "
    "not by proof",
    "time is injected through time_fn as k/1024 s, so the float arithmetic of the code is exact; clock steps are "
    "whole ticks (50 ms is generated as 51 or 52 ticks)",
    "positions enter the model as the boolean near (distance to the own position <= MAX_CLUSTER_DISTANCE); the "
    "harness uses positions 1.1 m or 111 m away, never within 1 m of the 5 m boundary",
    "random.randint(1, 255) is replaced by scripted draws that are also given to the model; theorems assume draws "
    "in 1..255 (the contract of randint)",
    "malformed VAM dicts (missing keys) are exercised on the implementation only (no exception may escape, state "
    "stays consistent); they are outside the model",
    "thread interleavings of the manager's RLock are not part of this property (single-threaded calls)",
]
EXPLANATION = ("invariants proved by induction over all event sequences from the initial state (cluster_inv, "
               "transmit_gate, no assert can fail) and step / phase theorems for leader-lost and break-up recovery, "
               "join / leave / break-up notification durations and join completion; correspondence of the extracted "
               "model with the real manager after every event on exhaustive bounded and random event sequences, and "
               "two- / three-station closed loops through the real VAMCoder, VAMTransmissionManagement and "
               "VAMReceptionManagement")

T0_DEFAULT = 1_700_000_000 * ci.TPS


# ---------------------------------------------------------------------------
# does what the manager offers for the next VAM pass through the real coder?

class _FakeBTP:
    def __init__(self):
        self.sent = []

    def btp_data_request(self, req):
        self.sent.append(bytes(req.data))

    def register_indication_callback_btp(self, port, callback):
        self.cb = callback


class _Only:
    """view of a manager that offers only one of the two cluster containers"""

    def __init__(self, mgr, which):
        self.mgr, self.which = mgr, which

    def should_transmit_vam(self):
        return True

    def get_cluster_information_container(self):
        return self.mgr.get_cluster_information_container() if self.which == "info" else None

    def get_cluster_operation_container(self):
        return self.mgr.get_cluster_operation_container() if self.which == "op" else None


_WIRE_SEEN = {}


def wire_check(mgr, obs):
    """the containers offered by `mgr` are attached by the real send_next_vam, encoded, decoded and compared;
    returns [(class, detail)]"""
    key = (tuple(obs["info"] or ()), tuple(obs["op"]))
    if key in _WIRE_SEEN:
        return _WIRE_SEEN[key]
    from flexstack.facilities.vru_awareness_service.vam_transmission_management import (
        VAMTransmissionManagement, DeviceDataProvider, VAMMessage)
    bad = []
    for which in ("info", "op"):
        if (which == "info" and obs["info"] is None) or (which == "op" and obs["op"][0] == 0):
            continue
        btp = _FakeBTP()
        tx = VAMTransmissionManagement(btp, ci.coder(), DeviceDataProvider(station_id=77, station_type=1), None,
                                       _Only(mgr, which))
        msg = VAMMessage()
        cls = "cluster_info_not_encodable" if which == "info" else "cluster_op_not_encodable"
        try:
            tx.send_next_vam(msg)
            dec = ci.coder().decode(btp.sent[0])["vam"]["vamParameters"]
        except Exception as e:  # noqa: BLE001 - any failure of the real send path is the finding
            bad.append((cls, f"send_next_vam/VAMCoder failed on the manager's container: {type(e).__name__}: "
                             f"{str(e)[:160]}"))
            continue
        if which == "info":
            vci = (dec.get("vruClusterInformationContainer") or {}).get("vruClusterInformation") or {}
            shape = vci.get("clusterBoundingBoxShape")
            got = [vci.get("clusterId"), shape[1].get("radius") if isinstance(shape, tuple) else None,
                   vci.get("clusterCardinalitySize"),
                   vci["clusterProfiles"][0][0] if vci.get("clusterProfiles") else None]
            if got != obs["info"]:
                bad.append((cls, f"decoded cluster information {got} differs from the manager's {obs['info']}"))
        else:
            opd = dec.get("vruClusterOperationContainer") or {}
            o = obs["op"]
            want = {1: {"clusterJoinInfo": {"clusterId": o[1], "joinTime": o[2]}},
                    2: {"clusterLeaveInfo": {"clusterId": o[1], "clusterLeaveReason": LEAVE_REASONS[o[2]]
                                             if 0 <= o[2] < 9 else None}},
                    3: {"clusterBreakupInfo": {"clusterBreakupReason": BREAKUP_REASONS[o[1]] if 0 <= o[1] < 6 else None,
                                               "breakupTime": o[2]}}}.get(o[0])
            if opd != want:
                bad.append((cls, f"decoded cluster operation container {opd} differs from the manager's {want}"))
    if len(_WIRE_SEEN) < 100000:
        _WIRE_SEEN[key] = bad
    return bad


# ---------------------------------------------------------------------------
# one sequence on the implementation (+ oracle)

def run_impl(seq, wire=True, gen=None, depth=None):
    """seq: {"own","profile","t0","events","mode"}; mode: "decoded" | "dict" | "coder".
    gen: optional callable(impl, obs, rng-state) -> next event, for adaptive random generation (the
    events produced are appended to seq["events"]).
    Returns (trace [(ret, obs)], failures [(index, class, detail)])."""
    impl = Impl(seq["own"], seq["profile"], seq["t0"], via_coder=seq["mode"] == "coder",
                dict_form=seq["mode"] == "dict")
    oracle = Oracle(impl.K, seq["t0"])
    fails = []
    obs = impl.dump()
    for cls, detail in oracle.start(obs):
        fails.append((-1, cls, detail))
    trace = []
    i = 0
    while True:
        if gen is not None:
            if i >= depth:
                break
            ev = gen(impl, obs)
            seq["events"].append(ev)
        else:
            if i >= len(seq["events"]):
                break
            ev = seq["events"][i]
        try:
            ret = impl.apply(ev)
            obs = impl.dump()
        except Exception as e:  # noqa: BLE001
            fails.append((i, "exception", f"{ev[0]} raised {type(e).__name__}: {str(e)[:200]}"))
            break
        trace.append((ret, obs))
        for cls, detail in oracle.step(ev, ret, obs):
            fails.append((i, cls, detail))
        if ci.RANDOM.bad_args is not None:
            fails.append((i, "state_inconsistent", f"cluster id drawn with randint{ci.RANDOM.bad_args}"))
            ci.RANDOM.bad_args = None
        if wire and (obs["info"] is not None or obs["op"][0] != 0):
            for cls, detail in wire_check(impl.mgr, obs):
                fails.append((i, cls, detail))
        i += 1
    return trace, fails


def seq_input(seq, upto=None):
    evs = seq["events"] if upto is None else seq["events"][:upto + 1]
    return {"op": "sequence", "own": seq["own"], "profile": seq["profile"], "t0": seq["t0"], "mode": seq["mode"],
            "events": evs}


def shrink(seq, cls, budget=400):
    """greedy removal of events while the same failure class is still reported"""
    evs = list(seq["events"])
    tries = 0
    i = len(evs) - 1
    while i >= 0 and tries < budget:
        cand = evs[:i] + evs[i + 1:]
        tries += 1
        s2 = dict(seq, events=cand)
        try:
            _, fails = run_impl(s2)
        except Exception:  # noqa: BLE001
            fails = []
        if any(f[1] == cls for f in fails):
            evs = cand
        i -= 1
    # cut after the first failing event
    s2 = dict(seq, events=evs)
    _, fails = run_impl(s2)
    idx = [f[0] for f in fails if f[1] == cls]
    if idx:
        evs = evs[:idx[0] + 1]
    return dict(seq, events=evs)


def report_failures(ctx, seq, fails, do_shrink=True):
    seen = set()
    per_class = ctx.__dict__.setdefault("_c18_per_class", {})
    for (i, cls, detail) in fails:
        if cls in seen:
            continue
        seen.add(cls)
        # keep room in the (capped) failure list for other failure classes
        per_class[cls] = per_class.get(cls, 0) + 1
        if per_class[cls] > 3:
            continue
        known = any(k.get("class") == cls for k in ctx.known)
        s2 = seq
        if do_shrink and not known and len(ctx.failures) < 3 and len(seq["events"]) > 6:
            s2 = shrink(seq, cls)
            i = None
        ctx.property_failure(cls, seq_input(s2, i), detail,
                             "property C18 clause holds", f"violated at event index {i if i is not None else 'last'}")


def check_batch(ctx, seqs, kind, traces=None):
    """implementation + oracle + model correspondence for a list of fixed sequences"""
    if traces is None:
        traces = []
        for seq in seqs:
            trace, fails = run_impl(seq)
            traces.append(trace)
            if fails:
                report_failures(ctx, seq, fails)
    nev = sum(len(s["events"]) for s in seqs)
    ctx.count(nev, kind)
    for seq, trace in zip(seqs, traces):
        # non-trivial: the run left the initial control state (state name / join / leave sub-state / op container)
        phases = {(o["vst"], o["js"], o["ls"], o["op"][0]) for _, o in trace}
        if len(phases) >= 2:
            ctx.nontriv(json.dumps([seq["t0"], seq["own"], seq["events"]]))
    if not ctx.model.available:
        return
    reqs = [(1, [s["own"], s["profile"], s["t0"]] + encode_events(s["events"])) for s in seqs]
    res = ctx.model.batch(reqs)
    for seq, trace, out in zip(seqs, traces, res):
        mtrace = parse_trace(out)
        for i, (ret, obs) in enumerate(trace):
            if i >= len(mtrace):
                ctx.mismatch("VBSClusteringManager = Cluster.step", seq_input(seq, i), "model trace too short", None)
                break
            mret, mobs = mtrace[i]
            if mret != ret or mobs != obs:
                keys = diff_states(mobs, obs)
                ctx.mismatch("VBSClusteringManager = Cluster.step (state after every event)", seq_input(seq, i),
                             {"ret": mret, **{k: mobs.get(k) for k in keys}},
                             {"ret": ret, **{k: obs.get(k) for k in keys}},
                             f"differs in {keys} after event {i} {seq['events'][i]}")
                break


# ---------------------------------------------------------------------------
# generators

TICK_CHOICES = [51, 52, 102, 103, 205, 256, 255, 257, 511, 512, 513, 1023, 1024, 1025, 2047, 2048, 2049,
                3071, 3072, 3073, 5119, 5120, 5121, 6144]


def rx(sender, near=True, info=None, join=None, leave=None, breakup=None):
    return ["rx", {"sender": sender, "near": near, "info": info, "join": join, "leave": leave, "breakup": breakup}]


def neighbours(n=3, base=100):
    return [rx(base + i) for i in range(n)]


def make_passive(cid=7, ldr=50):
    return [["join", cid], ["tick", 3072], ["update"], rx(ldr, info=[cid, 2])]


def alphabet(full):
    a = [
        [["role_off"]], [["role_on"]], [["try_create", [7, 9]]], [["join", 7]], [["cancel"]], [["leave", 8]],
        [["breakup", 1]], [["update"]], [["tick", 1024], ["update"]], [["tick", 3072], ["update"]],
        [rx(50, info=[7, 2])], [rx(50, breakup=1)],
    ]
    if full:
        a += [
            [["tick", 511], ["update"]], [["tick", 2048], ["update"]], [rx(50)], [rx(50, breakup=CPM)],
            [rx(60, join=7)], [rx(60, leave=7)], [rx(60, info=[9, 3])], [["fail"]],
            [rx(50, info=[7, 2], breakup=2)],
        ]
    return a


def roots():
    return {
        "fresh": [],
        "neighbours": neighbours(),
        "leader": neighbours() + [["try_create", [7]]],
        "passive": make_passive(),
        "joining": [["join", 7]],
    }


def exhaustive(ctx, depth, full, root_names, t0=T0_DEFAULT):
    alpha = alphabet(full)
    rts = roots()
    modes = ["decoded", "dict"]
    for rn in root_names:
        batch = []
        for n, combo in enumerate(itertools.product(range(len(alpha)), repeat=depth)):
            evs = list(rts[rn])
            for j in combo:
                evs += alpha[j]
            batch.append({"own": 1, "profile": 0, "t0": t0, "events": evs, "mode": modes[n % 2]})
            if len(batch) >= 4000:
                check_batch(ctx, batch, f"exhaustive_depth{depth}_{'full' if full else 'reduced'}_{rn}")
                batch = []
        if batch:
            check_batch(ctx, batch, f"exhaustive_depth{depth}_{'full' if full else 'reduced'}_{rn}")


def random_gen(rng):
    """adaptive generator: looks at the implementation's current observation to aim at live branches"""

    def gen(impl, obs):
        r = rng.random()
        own_cluster = obs["cluster"]["id"] if obs["cluster"] else None
        ids = [7, 9, 0, 255]
        if own_cluster is not None:
            ids += [own_cluster] * 3
        if obs["j_target"] is not None:
            ids += [obs["j_target"]] * 3
        if obs["joined"] is not None:
            ids += [obs["joined"]] * 2
        senders = [50, 60, 61, 62, 63, 64, impl.mgr._own_station_id, rng.randrange(0, 2 ** 32)]
        if obs["leader"] is not None:
            senders += [obs["leader"]] * 5
        if r < 0.22:
            return ["tick", rng.choice(TICK_CHOICES) if rng.random() < 0.85 else rng.randrange(1, 40000)]
        if r < 0.45:
            return ["update"]
        if r < 0.75:
            info = None
            if rng.random() < 0.45:
                info = [rng.choice(ids) if rng.random() < 0.9 else None, rng.choice([0, 1, 2, 3, 20, 255])]
            return rx(rng.choice(senders), near=rng.random() < 0.8, info=info,
                      join=rng.choice(ids) if rng.random() < 0.2 else None,
                      leave=rng.choice(ids) if rng.random() < 0.15 else None,
                      breakup=rng.randrange(0, 6) if rng.random() < 0.15 else None)
        if r < 0.80:
            return ["try_create", [rng.choice([7, 9, rng.randrange(1, 256)]) for _ in range(rng.randrange(1, 4))]]
        if r < 0.86:
            return ["join", rng.choice(ids + [rng.randrange(0, 256)])]
        if r < 0.89:
            return ["cancel"]
        if r < 0.93:
            return ["leave", rng.randrange(0, 9)]
        if r < 0.96:
            return ["breakup", rng.randrange(0, 6)]
        if r < 0.97:
            return ["fail"]
        if r < 0.985:
            return ["role_off"]
        return ["role_on"]

    return gen


def random_sequences(ctx, n, depth, gen_factory=None, kind=None):
    rng = ctx.rng
    gen_factory = gen_factory or random_gen
    seqs, traces = [], []
    for k in range(n):
        seq = {"own": rng.choice([1, 50, 4_000_000_000]), "profile": rng.randrange(0, 5),
               "t0": rng.choice([T0_DEFAULT, T0_DEFAULT + rng.randrange(0, 10 ** 6), 0, 1024]),
               "mode": ("coder", "decoded", "dict")[k % 3], "events": []}
        trace, fails = run_impl(seq, gen=gen_factory(rng), depth=depth)
        seqs.append(seq)
        traces.append(trace)
        if fails:
            report_failures(ctx, seq, fails)
        if k == 0:
            ctx.sample({"random_sequence_prefix": seq["events"][:12], "final_state": trace[-1][1]["vst"] if trace else None})
    check_batch(ctx, seqs, kind or f"random_depth{depth}", traces=traces)


def scenario_sequences():
    """hand-written sequences around the boundaries the property names (threshold - 1 tick, threshold, + 1)"""
    out = []
    for d in (-1, 0, 1):
        out.append(("join_notify_boundary", [["join", 7], ["tick", 3072 + d], ["update"], ["tick", 512 + d], ["update"],
                                             ["tick", 1024 + d], ["update"]]))
        out.append(("leader_lost_boundary", make_passive() + [["tick", 2048 + d], ["update"], ["tick", 1024 + d],
                                                              ["update"]]))
        out.append(("breakup_boundary", neighbours() + [["try_create", [7]], ["breakup", 1], ["tick", 3072 + d],
                                                        ["update"], ["update"]]))
        out.append(("leave_boundary", make_passive() + [["leave", 3], ["tick", 1024 + d], ["update"]]))
        out.append(("expiry_boundary", neighbours() + [["tick", 5120 + d], ["try_create", [7]], ["update"],
                                                       ["try_create", [7]]]))
        out.append(("uniqueness_boundary", [rx(60, info=[7, 1])] + [["tick", 30720 + d - 10]] + neighbours()
                    + [["tick", 10], ["try_create", [7, 7, 9]]]))
    for r in range(6):
        out.append((f"breakup_reason_{r}", make_passive() + [rx(50, breakup=r), ["tick", 103], ["update"],
                                                            ["tick", 2048], ["update"]]))
        out.append((f"own_breakup_reason_{r}", neighbours() + [["try_create", [7]], ["breakup", r], ["tick", 1024],
                                                              ["update"], ["tick", 2048], ["update"]]))
    for r in range(9):
        out.append((f"leave_reason_{r}", make_passive() + [["leave", r], ["tick", 512], ["update"], ["tick", 512],
                                                          ["update"]]))
    out.append(("join_time_steps", [["join", 7]] + [x for _ in range(14) for x in (["tick", 255], ["update"])]))
    out.append(("breakup_by_leader", make_passive() + [rx(50, breakup=1), ["update"]]))
    out.append(("breakup_by_other", make_passive() + [rx(60, breakup=1), ["update"]]))
    out.append(("breakup_joined_zero", make_passive(cid=0) + [rx(60, breakup=1), ["update"]]))
    out.append(("heartbeat", make_passive() + [["tick", 2000], rx(50), ["tick", 2000], ["update"], rx(60),
                                               ["tick", 48], ["update"]]))
    out.append(("members", neighbours() + [["try_create", [7]], rx(60, join=7), rx(61, join=7), rx(60, join=7),
                                           rx(60, leave=7), rx(61, leave=9), rx(61, leave=7)]))
    out.append(("all_ids_seen", [rx(60, info=[7, 1])] + neighbours() + [["try_create", [7] * 3]]))
    out.append(("create_then_rejoin", neighbours() + [["try_create", [7]], ["breakup", 0], ["tick", 3072], ["update"],
                                                      ["join", 9], ["tick", 3072], ["update"], rx(70, info=[9, 4])]))
    out.append(("join_and_breakup_same_vam", [["join", 7], ["tick", 3072], ["update"], rx(50, info=[7, 2], breakup=1),
                                              ["update"]]))
    out.append(("time_zero", [["join", 7], ["tick", 2900], ["update"], ["tick", 200], ["update"]]))
    return out


# ---------------------------------------------------------------------------
# malformed VAMs: implementation only

def malformed_stream(ctx, n):
    rng = ctx.rng
    vc, K = ci.modules()
    cases = [{}, {"header": {}, "vam": {}}, {"header": {"stationId": 5}}, {"header": {"stationId": 5}, "vam": {}},
             {"header": {"stationId": 5}, "vam": {"vamParameters": {}}},
             {"header": {"stationId": 5}, "vam": {"vamParameters": {"basicContainer": {}}}},
             {"header": {"stationId": 5}, "vam": {"vamParameters": {"basicContainer": {"referencePosition": {}}}}}]
    for _ in range(n):
        d = ci.vam_dict({"sender": 5, "near": True, "info": [7, 2], "join": 7, "leave": 7, "breakup": 1},
                        rng.random() < 0.5)
        # delete a random key somewhere
        node, path = d, []
        for _ in range(rng.randrange(1, 6)):
            if isinstance(node, dict) and node:
                k = rng.choice(sorted(node))
                path.append(k)
                if rng.random() < 0.35 or not isinstance(node[k], dict):
                    # only what a decoder can deliver short of a well-formed VAM: an absent component or an
                    # empty constructed value (type confusion such as a string for a container is C04's
                    # subject, not this property's)
                    if rng.random() < 0.6 or not isinstance(node[k], dict):
                        del node[k]
                    else:
                        node[k] = {}
                    break
                node = node[k]
        cases.append(d)
    for n_, d in enumerate(cases):
        seq = {"own": 1, "profile": 0, "t0": T0_DEFAULT, "mode": "decoded", "events": []}
        impl = Impl(1, 0, T0_DEFAULT)
        oracle = Oracle(impl.K, T0_DEFAULT)
        oracle.start(impl.dump())
        for ev in make_passive():
            impl.apply(ev)
        before = impl.dump()
        ctx.count(1, "malformed_vam")
        try:
            impl.mgr.on_received_vam(d)
            impl.mgr.update(ci.OWN_LAT, ci.OWN_LON, 1.0, 90.0)
            after = None
        except Exception as e:  # noqa: BLE001
            ctx.property_failure("malformed_vam_exception", {"op": "malformed_vam", "vam": repr(d)[:600]},
                                 f"on_received_vam raised {type(e).__name__}: {str(e)[:200]}")
            continue
        after = impl.dump(tables=False)   # table keys of a malformed VAM may be of any type
        bad = Oracle(impl.K, T0_DEFAULT)._consistency(after)
        if bad:
            ctx.property_failure(bad[0][0], {"op": "malformed_vam", "vam": repr(d)[:600]}, bad[0][1])


# ---------------------------------------------------------------------------
# closed loops: real managers, real transmission / reception management, real coder

class Station:
    def __init__(self, sid, clock, pos_index):
        from flexstack.facilities.vru_awareness_service.vam_transmission_management import (
            VAMTransmissionManagement, DeviceDataProvider)
        from flexstack.facilities.vru_awareness_service.vam_reception_management import VAMReceptionManagement
        vc, K = ci.modules()
        self.sid = sid
        self.impl = Impl.__new__(Impl)
        self.impl.vc, self.impl.K = vc, K
        self.impl.clock = clock
        self.impl.profile = "pedestrian"
        self.impl.mgr = vc.VBSClusteringManager(sid, "pedestrian", time_fn=clock)
        self.impl.via_coder = False
        self.impl.dict_form = False
        self.mgr = self.impl.mgr
        self.btp = _FakeBTP()
        self.tx = VAMTransmissionManagement(self.btp, ci.coder(), DeviceDataProvider(station_id=sid, station_type=1),
                                            None, self.mgr)
        self.rx = VAMReceptionManagement(ci.coder(), self.btp, None, self.mgr)
        # all stations within 1 m of the reference position (the own position used by the model's `near`)
        self.lat = ci.OWN_LAT + 0.000001 * pos_index
        self.lon = ci.OWN_LON
        self.events = []          # model events of this station
        self.trace = []           # (ret, obs) after each
        self.oracle = Oracle(K, clock.ticks)
        self.oracle.start(self.impl.dump())
        self.fails = []
        self.silent = False
        self.last_sent_round = 0
        self.last_sent_ticks = None

    def record(self, ev, ret):
        obs = self.impl.dump()
        self.events.append(ev)
        self.trace.append((ret, obs))
        for cls, detail in self.oracle.step(ev, ret, obs):
            self.fails.append((len(self.events) - 1, cls, detail))
        return obs

    def command(self, ev):
        ret = self.impl.apply(ev)
        return ret, self.record(ev, ret)

    def tpv(self, clock):
        t = datetime.datetime.fromtimestamp(clock(), datetime.timezone.utc)
        return {"time": t.strftime("%Y-%m-%dT%H:%M:%S.%f") + "Z", "lat": self.lat, "lon": self.lon, "speed": 1.0,
                "track": 90.0, "altHAE": 10.0, "epx": 1.0, "epy": 1.0}


def vam_to_event(dec):
    """model event of a decoded VAM (independent reading of the decoded structure)"""
    p = dec["vam"]["vamParameters"]
    pos = p["basicContainer"]["referencePosition"]
    near = ci.is_near(pos["latitude"] / 1e7, pos["longitude"] / 1e7)
    info = None
    ic = p.get("vruClusterInformationContainer")
    if ic:
        vci = ic["vruClusterInformation"]
        info = [vci.get("clusterId"), vci.get("clusterCardinalitySize")]
    opc = p.get("vruClusterOperationContainer") or {}
    bk = opc.get("clusterBreakupInfo")
    return rx(dec["header"]["stationId"], near=near, info=info,
              join=(opc.get("clusterJoinInfo") or {}).get("clusterId"),
              leave=(opc.get("clusterLeaveInfo") or {}).get("clusterId"),
              breakup=None if bk is None else BREAKUP_REASONS.index(bk["clusterBreakupReason"]))


AUDIT_ORACLES = True     # audit round: operation container on the air, no suppression outside passive / idle


def op_on_air(dec):
    """the cluster operation container of a decoded VAM in the shape of Impl.dump()["op"] (own reading of the message)"""
    opc = dec["vam"]["vamParameters"].get("vruClusterOperationContainer")
    if not opc:
        return [0, 0, 0]
    keys = sorted(opc)
    if keys == ["clusterJoinInfo"]:
        return [1, opc["clusterJoinInfo"].get("clusterId"), opc["clusterJoinInfo"].get("joinTime")]
    if keys == ["clusterLeaveInfo"]:
        return [2, opc["clusterLeaveInfo"].get("clusterId"),
                LEAVE_REASONS.index(opc["clusterLeaveInfo"]["clusterLeaveReason"])]
    if keys == ["clusterBreakupInfo"]:
        return [3, BREAKUP_REASONS.index(opc["clusterBreakupInfo"]["clusterBreakupReason"]),
                opc["clusterBreakupInfo"].get("breakupTime")]
    return [9, 0, 0]


def closed_loop(ctx, params):
    """params: {"joiners": 1|2, "ending": "breakup"|"silent"|"leave"|"cpm" | (audit round) "idle_member"|"idle_leader"|
                "cancel"|"failed", "reason": int, "dts": [...], "draws": [...], "join_offsets": [...],
                "second": bool (audit round: afterwards the first joiner creates a cluster and the former leader joins it)}"""
    from flexstack.btp.service_access_point import BTPDataIndication
    from flexstack.utils import time_service
    inp = dict(params, op="closed_loop")
    clock = ci.Clock(T0_DEFAULT + params.get("t_off", 0))
    saved_time = time_service.TimeService.time
    time_service.TimeService.time = staticmethod(clock)
    try:
        nj = params["joiners"]
        st = [Station(1 + i, clock, i) for i in range(1 + nj)] + [Station(100 + i, clock, 3 + i) for i in range(3)]
        if params.get("layout"):
            # audit round: stations east / west / south / diagonal of the reference position, up to 3.9 m away (every
            # manager is asked with the reference position as its own, as in the manager-level sequences)
            for s_, pidx in zip(st, params["layout"]):
                if not ci.pos_near(pidx):
                    raise AssertionError("closed-loop layout uses positions within range only")
                lat_w, lon_w = ci.pos_latlon(pidx)
                s_.lat, s_.lon = lat_w / 1e7, lon_w / 1e7
        lead, joiners = st[0], st[1:1 + nj]
        dts = params["dts"]
        rounds = [0]
        fails = []          # (class, detail)
        advertised = {}     # station -> cluster id it has seen advertised on the air (from decoded bytes)

        def round_():
            dt = dts[rounds[0] % len(dts)]
            rounds[0] += 1
            clock.ticks += dt
            for s in st:
                s.record(["tick", dt], 2)
            for s in st:
                s.command(["update"])
            for s in st:
                if s.silent:
                    continue
                s.btp.sent.clear()
                o_before = s.trace[-1][1]
                try:
                    s.tx.location_service_callback(s.tpv(clock))
                except Exception as e:  # noqa: BLE001
                    o = s.impl.dump()
                    found = wire_check(s.mgr, o)   # which of the two containers does not pass the coder?
                    for cls in sorted({c for c, _ in found}) or ["exception"]:
                        fails.append((cls, f"station {s.sid} (state {ci.STATE_NAMES[o['vst']]}) could not generate "
                                           f"its VAM: {type(e).__name__}: {str(e)[:160]}"))
                    continue
                o = s.trace[-1][1]
                if AUDIT_ORACLES and o_before["tx"] == 1 and not s.btp.sent:
                    # position, speed and heading are constant: the one trigger is T_GenVam (constant T_GenVamMin here)
                    since = None if s.last_sent_ticks is None else (clock.ticks - s.last_sent_ticks) * 1000 / ci.TPS
                    if since is None or since >= ci.modules()[1].T_GENVAMMIN + 3:
                        fails.append(("transmit_suppressed_wrongly",
                                      f"station {s.sid} ({ci.STATE_NAMES[o['vst']]}, join sub-state {ci.JSUB[o['js']]}) is "
                                      f"neither passive nor idle, its last VAM is "
                                      f"{'none' if since is None else round(since)} ms old, and it generated no VAM"))
                if s.btp.sent:
                    s.last_sent_round = rounds[0]
                    s.last_sent_ticks = clock.ticks
                if o["tx"] == 0 and s.btp.sent:
                    fails.append(("transmit_gate", f"station {s.sid} sent a VAM while suppressed"))
                for data in list(s.btp.sent):
                    try:
                        dec = ci.coder().decode(data)
                        ev = vam_to_event(dec)
                    except Exception as e:  # noqa: BLE001 - octets on the air that no receiver can read (seed C18-6)
                        found = wire_check(s.mgr, o)
                        for cls in sorted({c for c, _ in found}) or ["cluster_info_not_encodable"]:
                            fails.append((cls, f"station {s.sid} (state {ci.STATE_NAMES[o['vst']]}, cluster {o['cluster']}) "
                                               f"put a VAM on the air that cannot be decoded: {type(e).__name__}: "
                                               f"{str(e)[:120]}"))
                        continue
                    # what is on the air is what the manager offered
                    want_info = None if o["info"] is None else [o["info"][0], o["info"][2]]
                    if ev[1]["info"] != want_info:
                        fails.append(("cluster_info_not_encodable", f"station {s.sid}: cluster information on the "
                                      f"air {ev[1]['info']} differs from the manager's {want_info}"))
                    if AUDIT_ORACLES and op_on_air(dec) != o["op"]:
                        # a notification lasts its duration on the air, not only in the manager
                        fails.append(("cluster_op_not_on_air", f"station {s.sid}: cluster operation container on the air "
                                      f"{op_on_air(dec)} differs from what the manager offers {o['op']} "
                                      "([kind 1 join / 2 leave / 3 break-up, id or reason, time or reason])"))
                    if ev[1]["info"] is not None:
                        for r in st:
                            if r is not s:
                                advertised[r.sid] = ev[1]["info"][0]
                    for r in st:
                        if r is s:
                            continue
                        try:
                            r.rx.reception_callback(BTPDataIndication(data=data, length=len(data)))
                        except Exception as e:  # noqa: BLE001
                            fails.append(("exception", f"station {r.sid} reception failed: {type(e).__name__}: {e}"))
                        r.record(ev, 2)

        for _ in range(3):
            round_()
        ret, o = lead.command(["try_create", params["draws"]])
        if ret != 1 or o["vst"] != 2:
            fails.append(("closed_loop_no_cluster", f"station with {o['counts'][0]} neighbours within range could "
                                                    "not create a cluster"))
        for _ in range(2):
            round_()
        cid = None
        ending = params["ending"]
        for k, j in enumerate(joiners):
            cid = advertised.get(j.sid)
            if cid is None:
                fails.append(("closed_loop_cluster_not_advertised", f"station {j.sid} has not received any cluster "
                                                                    "VAM from the leader"))
                continue
            for _ in range(params["join_offsets"][k % len(params["join_offsets"])]):
                round_()
            # audit round, ending "failed": the join goes towards an identifier nobody advertises
            target = cid if ending != "failed" else cid % 255 + 1
            ret, o = j.command(["join", target])
            if ret != 1:
                fails.append(("closed_loop_join_refused", f"initiate_join({target}) refused in state {o['vst']}"))
        if ending == "cancel":
            # audit round: part of the join notification goes on the air, then the join is cancelled (clusterLeaveInfo with
            # reason cancelledJoin for timeClusterLeaveNotification); the station keeps transmitting throughout
            t_end = clock.ticks + params.get("cancel_after", 1024)
            while clock.ticks < t_end:
                round_()
            for j in joiners:
                j.command(["cancel"])
            for _ in range(3):
                round_()
            o = lead.trace[-1][1]
            if o["cluster"] is not None and o["cluster"]["card"] != 1:
                fails.append(("closed_loop_leave_not_counted", f"leader still counts {o['cluster']['card']} members "
                                                               "after all joining stations announced the cancelled join"))
            t_end = clock.ticks + lead.oracle.TLN + 2 * max(dts)
            while clock.ticks < t_end:
                round_()
        elif ending == "failed":
            # audit round: nobody answers; failed join -> clusterLeaveInfo (failedJoin) -> plain individual VAMs again
            t_end = clock.ticks + lead.oracle.TJN + lead.oracle.TJS + lead.oracle.TLN + 4 * max(dts)
            while clock.ticks < t_end:
                round_()
        else:
            # notification + success window, plus two rounds
            t_end = clock.ticks + lead.oracle.TJN + lead.oracle.TJS + 2 * max(dts)
            while clock.ticks < t_end:
                round_()
            for j in joiners:
                o = j.trace[-1][1]
                if not (o["vst"] == 3 and o["cid"] == cid and o["leader"] == lead.sid and o["tx"] == 0):
                    fails.append(("closed_loop_join_never_completes",
                                  f"station {j.sid} initiated a join towards the advertised cluster {cid} but is "
                                  f"{ci.STATE_NAMES[o['vst']]} (cluster {o['cid']}) after notification + success time"))
        lo = lead.trace[-1][1]
        if ending in ("cancel", "failed"):
            for j in joiners:
                o = j.trace[-1][1]
                if not (o["vst"] == 1 and o["tx"] == 1 and o["op"] == [0, 0, 0]):
                    fails.append(("closed_loop_join_abandon_no_recovery",
                                  f"station {j.sid} is {ci.STATE_NAMES[o['vst']]} with operation container {o['op']} after "
                                  f"a {ending} join and its leave notification"))
        elif ending in ("idle_member", "idle_leader"):
            # audit round: VRU_ROLE_OFF in the closed loop: the idle station is silent on the air, the others carry on
            # (members of an idle leader recover through the leader-lost timer), VRU_ROLE_ON brings it back on the air
            who = joiners[0] if ending == "idle_member" else lead
            who.command(["role_off"])
            t_end = clock.ticks + (1536 if ending == "idle_member" else lead.oracle.TCC + 2 * max(dts))
            while clock.ticks < t_end:
                round_()
            o = who.trace[-1][1]
            if not (o["vst"] == 0 and o["tx"] == 0):
                fails.append(("transmit_gate", f"station {who.sid} after VRU_ROLE_OFF: {ci.STATE_NAMES[o['vst']]}, "
                                               f"should_transmit {o['tx']}"))
            if ending == "idle_leader":
                for j in joiners:
                    o = j.trace[-1][1]
                    if not (o["vst"] == 1 and o["tx"] == 1):
                        fails.append(("leader_lost_no_recovery", f"station {j.sid} still {ci.STATE_NAMES[o['vst']]} "
                                                                 "although the leader went idle and silent"))
            who.command(["role_on"])
            for _ in range(3):
                round_()
            o = who.trace[-1][1]
            if not (o["vst"] == 1 and o["tx"] == 1) or rounds[0] - who.last_sent_round > 2:
                fails.append(("closed_loop_member_stays_silent", f"station {who.sid} is {ci.STATE_NAMES[o['vst']]} and has "
                                                                 f"not sent a VAM in the last {rounds[0] - who.last_sent_round} "
                                                                 "rounds after VRU_ROLE_ON"))
        elif ending in ("breakup", "cpm"):
            reason = CPM if ending == "cpm" else params["reason"]
            ret, o = lead.command(["breakup", reason])
            if ret != 1:
                fails.append(("breakup_warning_duration", "leader could not start the break-up"))
            for _ in range(3):
                round_()
            # members heard the break-up and had an update since
            for j in joiners:
                o = j.trace[-1][1]
                if ending == "breakup" and not (o["vst"] == 1 and o["tx"] == 1):
                    fails.append(("breakup_no_recovery", f"station {j.sid} still {ci.STATE_NAMES[o['vst']]} after the "
                                                         "leader's break-up VAMs"))
            t_end = clock.ticks + lead.oracle.TBW + lead.oracle.TCC + 3 * max(dts)
            while clock.ticks < t_end:
                round_()
        elif ending == "silent":
            lead.silent = True
            t_end = clock.ticks + lead.oracle.TCC + 2 * max(dts)
            while clock.ticks < t_end:
                round_()
            for j in joiners:
                o = j.trace[-1][1]
                if not (o["vst"] == 1 and o["tx"] == 1):
                    fails.append(("leader_lost_no_recovery", f"station {j.sid} still {ci.STATE_NAMES[o['vst']]} "
                                                             "although the leader has been silent"))
        elif ending == "leave":
            for j in joiners:
                j.command(["leave", params["reason"] % 9])
            for _ in range(3):
                round_()
            o = lead.trace[-1][1]
            if o["cluster"] is not None and o["cluster"]["card"] != 1:
                fails.append(("closed_loop_leave_not_counted", f"leader still counts {o['cluster']['card']} members "
                                                               "after all members announced leaving"))
            t_end = clock.ticks + lead.oracle.TLN + 2 * max(dts)
            while clock.ticks < t_end:
                round_()
        if params.get("second") and ending == "breakup":
            # audit round: a second cluster with the roles swapped - the first joiner creates it (its first draw is the
            # identifier of the first cluster, heard within timeClusterUniquenessThreshold: it must not be reused), the
            # former leader and the other joiner join what they see advertised, the new leader breaks up
            lead2, members2 = joiners[0], [lead] + joiners[1:]
            ret, o = lead2.command(["try_create", [cid if cid is not None else 1] + list(params["draws2"])])
            cid2 = o["cluster"]["id"] if o["cluster"] else None
            if ret != 1 or o["vst"] != 2:
                fails.append(("closed_loop_no_cluster", f"station {lead2.sid} with {o['counts'][0]} neighbours within range "
                                                        "could not create the second cluster"))
            elif cid2 == cid:
                fails.append(("state_inconsistent", f"second cluster reuses identifier {cid}, heard "
                                                    "less than timeClusterUniquenessThreshold ago"))
            for _ in range(2):
                round_()
            if cid2 is None:
                members2 = []       # nothing to join; the failure is recorded above
            for m in members2:
                seen_id = advertised.get(m.sid)
                if seen_id != cid2:
                    fails.append(("closed_loop_cluster_not_advertised", f"station {m.sid} sees cluster {seen_id} "
                                                                        f"advertised, the new leader leads {cid2}"))
                    continue
                ret, o = m.command(["join", cid2])
                if ret != 1:
                    fails.append(("closed_loop_join_refused", f"second cycle: initiate_join({cid2}) refused in state "
                                                              f"{ci.STATE_NAMES[o['vst']]} (operation container {o['op']})"))
            t_end = clock.ticks + lead.oracle.TJN + lead.oracle.TJS + 2 * max(dts)
            while clock.ticks < t_end:
                round_()
            for m in members2:
                o = m.trace[-1][1]
                if not (o["vst"] == 3 and o["cid"] == cid2 and o["leader"] == lead2.sid and o["tx"] == 0):
                    fails.append(("closed_loop_join_never_completes",
                                  f"second cycle: station {m.sid} initiated a join towards the advertised cluster {cid2} "
                                  f"but is {ci.STATE_NAMES[o['vst']]} (cluster {o['cid']}) after notification + success time"))
            if cid2 is not None:
                lead2.command(["breakup", params["reason"]])
            for _ in range(3):
                round_()
            for m in members2:
                o = m.trace[-1][1]
                if not (o["vst"] == 1 and o["tx"] == 1):
                    fails.append(("breakup_no_recovery", f"second cycle: station {m.sid} still "
                                                         f"{ci.STATE_NAMES[o['vst']]} after the leader's break-up VAMs"))
            t_end = clock.ticks + lead.oracle.TBW + 3 * max(dts)
            while clock.ticks < t_end:
                round_()
            for m in members2 + [lead2]:
                if rounds[0] - m.last_sent_round > 2:
                    fails.append(("closed_loop_member_stays_silent", f"second cycle: station {m.sid} has not sent a VAM in "
                                                                     f"the last {rounds[0] - m.last_sent_round} rounds"))
        # a recovered member is really on the air again
        if ending in ("breakup", "silent", "leave", "cancel", "failed", "idle_leader"):
            for j in joiners:
                if rounds[0] - j.last_sent_round > 2:
                    fails.append(("closed_loop_member_stays_silent", f"station {j.sid} has not sent a VAM in the last "
                                                                     f"{rounds[0] - j.last_sent_round} rounds"))
        for s in st:
            for (i, cls, detail) in s.fails:
                fails.append((cls, f"station {s.sid}, event {i}: {detail}"))
        nev = sum(len(s.events) for s in st)
        ctx.count(nev, f"closed_loop_{1 + nj}_stations_{ending}" + ("_second_cycle" if params.get("second") else "")
                  + ("_spread_layout" if params.get("layout") else "")
                  + ("_varied_rounds" if max(dts) > 130 or min(dts) < 100 else ""))
        ctx.nontriv(("loop", nj, ending, params.get("reason"), tuple(params["dts"]), tuple(params["join_offsets"]),
                     bool(params.get("second"))))
        seen = set()
        for cls, detail in fails:
            if cls not in seen:
                seen.add(cls)
                ctx.property_failure(cls, inp, detail, "closed loop through the real coder behaves as C18 states")
        # correspondence per station
        if ctx.model.available:
            reqs = [(1, [s.sid, 0, T0_DEFAULT + params.get("t_off", 0)] + encode_events(s.events)) for s in st]
            for s, out in zip(st, ctx.model.batch(reqs)):
                mtrace = parse_trace(out)
                for i, (ret, obs) in enumerate(s.trace):
                    mret, mobs = mtrace[i] if i < len(mtrace) else (None, {})
                    if mret != ret or mobs != obs:
                        keys = diff_states(mobs, obs)
                        ctx.mismatch("closed loop: VBSClusteringManager = Cluster.step", dict(inp, station=s.sid),
                                     {k: mobs.get(k) for k in keys}, {k: obs.get(k) for k in keys},
                                     f"station {s.sid} differs in {keys} after event {i} {s.events[i]}")
                        break
        return {"stations": len(st), "events": nev, "final": [ci.STATE_NAMES[s.trace[-1][1]["vst"]] for s in st],
                "leader_cardinality_after_join": lo["cluster"]["card"] if lo["cluster"] else None}
    finally:
        time_service.TimeService.time = saved_time


def loop_params(rng, joiners, ending):
    return {"joiners": joiners, "ending": ending, "reason": rng.choice([0, 1, 2, 3, 4]),
            "dts": [rng.choice([103, 104, 110, 120]) for _ in range(4)],
            "draws": [rng.randrange(1, 256)], "join_offsets": [rng.randrange(0, 4), rng.randrange(0, 6)],
            "t_off": rng.randrange(0, 100000)}



# ---------------------------------------------------------------------------
# audit round: inputs the first generators never produced (design/C18.md "Audit round: gaps closed")

ROUND_CHOICES = [52, 60, 103, 110, 205, 256, 400, 512, 700, 1024, 1300]


def loop_params2(rng, joiners, ending, varied=True, second=False):
    p = loop_params(rng, joiners, ending)
    if varied:
        # rounds from 50 ms to well over a second (below timeClusterContinuity, or every member would lose its leader)
        k = rng.choice((1, 1, 2, 3))
        p["dts"] = [rng.choice(ROUND_CHOICES) for _ in range(k)]
    if ending == "cancel":
        # the cancel must fall into the join notification of every joiner: joins start together and the last round before
        # the cancel ends at most 1500 + 700 ticks after them (timeClusterJoinNotification = 3072 ticks)
        p["cancel_after"] = rng.choice((103, 512, 1024, 1500))
        p["join_offsets"] = [0]
    if ending in ("cancel", "leave"):
        # these two endings expect the leader to HEAR the leave indication: the station must have a VAM generation event
        # within timeClusterLeaveNotification (1024 ticks) of the command, i.e. a round shorter than that (a station that
        # generates VAMs every 1.3 s never puts a 1 s notification on the air - that is not a clause of C18)
        p["dts"] = [min(d, 700) for d in p["dts"]]
    if second:
        p["second"] = True
        p["draws2"] = [rng.choice([d for d in range(1, 256) if d != p["draws"][0]])]
    return p


def audit_loops(ctx, n):
    """closed loops with (a) the endings cancel / failed join / VRU_ROLE_OFF of a member / of the leader, (b) rounds of
    50 ms .. 1.3 s instead of 100 ms only, (c) a second cluster after the first with the roles swapped"""
    rng = ctx.rng
    plan = []
    for e in ("cancel", "failed", "idle_member", "idle_leader"):
        plan += [(1, e, False, False), (2, e, True, False)]
    for e in ("breakup", "silent", "leave", "cpm"):
        plan += [(rng.choice((1, 2)), e, True, False)]
    plan += [(1, "breakup", False, True), (2, "breakup", True, True)]
    near_pos = [i for i in range(len(ci.POSITIONS)) if ci.pos_near(i) and ci.POSITIONS[i] != (0.0, 0.0)]
    for k in range(n):
        for nj, e, varied, second in plan:
            res = closed_loop(ctx, loop_params2(rng, nj, e, varied=varied, second=second))
            if k == 0:
                ctx.sample({"closed_loop": {"joiners": nj, "ending": e, "second_cycle": second}, "result": res}, cap=14)
        # the same with the stations spread around the reference position instead of in a row to the north of it
        for nj, e, varied, second in ((1, "breakup", False, True), (2, "leave", False, False), (2, "silent", True, False)):
            p = loop_params2(rng, nj, e, varied=varied, second=second)
            p["layout"] = [17] + [i for i in near_pos if ci.POSITIONS[i][1] != 0.0][:5]
            rng.shuffle(p["layout"])
            res = closed_loop(ctx, p)
            if k == 0:
                ctx.sample({"closed_loop": {"joiners": nj, "ending": e, "second_cycle": second}, "result": res}, cap=14)


def random_gen_positions(rng):
    """the adaptive generator of random_gen, with senders placed in every direction (east / west / south / diagonal, at
    3.8-3.9 m and 6.3-6.5 m as well as 1 m and 111 m) and leave indications carrying every ClusterLeaveReason"""
    inner = random_gen(rng)
    near_pos = [i for i in range(len(ci.POSITIONS)) if ci.pos_near(i)]
    far_pos = [i for i in range(len(ci.POSITIONS)) if not ci.pos_near(i)]

    def gen(impl, obs):
        ev = inner(impl, obs)
        if ev[0] == "rx":
            v = ev[1]
            if rng.random() < 0.8:
                v["pos"] = rng.choice(near_pos if v["near"] else far_pos)
            if v.get("leave") is not None:
                v["leave_reason"] = rng.randrange(0, 9)
        return ev

    return gen


def audit_sequences(ctx, n_random):
    """manager-level sequences: cluster creation with the neighbours in every direction around the 5 m limit, received
    leave indications with every reason, random sequences with such senders"""
    near_pos = [i for i in range(len(ci.POSITIONS)) if ci.pos_near(i)]
    far_pos = [i for i in range(len(ci.POSITIONS)) if not ci.pos_near(i)]

    def at(sender, pos, **kw):
        ev = rx(sender, near=ci.pos_near(pos), **kw)
        ev[1]["pos"] = pos
        return ev

    sc = []
    # exactly NUM_CREATE_CLUSTER neighbours within range, each triple of near positions, all far ones present too
    fars = [at(200 + k, p) for k, p in enumerate(far_pos)]
    for a, b, c in itertools.combinations(near_pos, 3):
        sc.append(("create_3_near", fars + [at(100, a), at(101, b), at(102, c), ["try_create", [7]], ["update"]]))
    for a, b in itertools.combinations(near_pos, 2):
        sc.append(("create_2_near", fars + [at(100, a), at(101, b), ["try_create", [7]], ["update"]]))
    for p in far_pos:
        # a station that moves out of range is no longer counted; one that moves in is
        sc.append(("create_moved", [at(100, near_pos[0]), at(101, near_pos[2]), at(102, near_pos[3]), at(102, p),
                                    ["try_create", [7]], at(102, near_pos[4]), ["try_create", [9]]]))
    # the leader's member bookkeeping with every leave reason, repeated indications, and a leave without a join
    for r in range(9):
        lv = rx(60, leave=7)
        lv[1]["leave_reason"] = r
        lv2 = rx(61, leave=7)
        lv2[1]["leave_reason"] = r
        sc.append((f"member_leave_reason_{r}", neighbours() + [["try_create", [7]], rx(60, join=7), rx(61, join=7), lv, lv,
                                                               ["update"], lv2, rx(62, leave=7), ["update"]]))
    batch = []
    for name, evs in sc:
        for mode in ("decoded", "coder"):
            batch.append({"own": 1, "profile": 0, "t0": T0_DEFAULT, "events": evs, "mode": mode})
    check_batch(ctx, batch, "audit_geometry_and_reasons")
    random_sequences(ctx, n_random, 200, gen_factory=random_gen_positions, kind="random_positions_depth200")

# ---------------------------------------------------------------------------

def run_witness(ctx, w):
    if w.get("op") == "sequence":
        seq = {"own": w["own"], "profile": w["profile"], "t0": w["t0"], "mode": w.get("mode", "decoded"),
               "events": w["events"]}
        # known-finding witnesses: the model reproduces the defect, so the correspondence is checked too
        check_batch(ctx, [seq], "witness")
    elif w.get("op") == "closed_loop":
        closed_loop(ctx, {k: v for k, v in w.items() if k != "op"})
    elif w.get("op") == "malformed_vam":
        malformed_stream(ctx, 0)
    elif w.get("op") == "constants":
        for cls, detail in ci.spec_constant_failures(ci.modules()[1]):
            ctx.property_failure(cls, {"op": "constants"}, detail, "value of TS 103 300-3 Table 15")


def run(ctx):
    ctx.rule = ("event sequences over {role on/off, try-create(draws), initiate-join(id), cancel-join, "
                "confirm-join-failed, leave(reason), break-up(reason), receive VAM(sender, near, cluster info, join, "
                "leave, break-up), update, clock step in ticks of 1/1024 s}: exhaustive to a depth bound over a "
                "reduced alphabet from five start states, hand-written threshold-boundary scenarios, adaptive random "
                "sequences of depth 200 (VAMs as unit-test dicts, as decoded structures, and through the real "
                "coder), malformed VAM dicts, and 2-/3-station closed loops (plus three by-standers) through "
                "VAMTransmissionManagement, VAMCoder and VAMReceptionManagement; audit round: senders in every direction "
                "at 1 / 3.8 / 6.3 / 111 m, received leave indications with every reason, closed loops ending in a "
                "cancelled join, a failed join, VRU_ROLE_OFF of a member / of the leader, rounds of 50 ms .. 1.3 s, and a "
                "second cluster with the roles swapped; every executed event is counted as one "
                "evaluation; a sequence is non-trivial when it visits at least two different control states (state "
                "name, join / leave sub-state, kind of operation container), distinct by (start time, station, events)")
    vc, K = ci.modules()
    import os
    for cls, detail in ci.spec_constant_failures(K):
        ctx.property_failure(cls, {"op": "constants"}, detail, "value of TS 103 300-3 Table 15")
    ctx.count(len(ci.SPEC_SECONDS), "timing_constants")
    corpus = os.path.join(common.VERIF, "corpus", "C18")
    for k in ctx.known:
        run_witness(ctx, k["witness"])
    if os.path.isdir(corpus):
        for f in sorted(os.listdir(corpus)):
            if f.endswith(".json"):
                run_witness(ctx, json.load(open(os.path.join(corpus, f))))
    # boundary scenarios
    sc = scenario_sequences()
    batch = []
    for name, evs in sc:
        for mode in ("decoded", "coder"):
            t0 = 0 if name == "time_zero" else T0_DEFAULT
            batch.append({"own": 1, "profile": 0, "t0": t0, "events": evs, "mode": mode})
    check_batch(ctx, batch, "boundary_scenarios")
    ctx.sample({"scenario": sc[1][0], "events": sc[1][1]})
    malformed_stream(ctx, 150 if ctx.tier == "quick" else 1500)
    # closed loops
    endings = ["breakup", "silent", "leave", "cpm"]
    loops = [(1, e) for e in endings] + [(2, e) for e in endings]
    if ctx.tier != "quick":
        loops = loops * 6
    for nj, e in loops:
        res = closed_loop(ctx, loop_params(ctx.rng, nj, e))
        ctx.sample({"closed_loop": {"joiners": nj, "ending": e}, "result": res}, cap=10)
    if ctx.tier == "quick":
        exhaustive(ctx, 4, False, ["fresh", "neighbours"])
        exhaustive(ctx, 3, True, ["leader", "passive", "joining"])
        random_sequences(ctx, 120, 200)
        # audit round (kept after the first-generation cases: a failure reported from here was missed by them)
        audit_sequences(ctx, 40)
        audit_loops(ctx, 1)
        ctx.exhaustive = False
    else:
        exhaustive(ctx, 5, False, ["fresh", "neighbours"])
        exhaustive(ctx, 4, True, ["fresh", "neighbours", "leader", "passive", "joining"])
        exhaustive(ctx, 4, False, ["fresh"], t0=0)
        random_sequences(ctx, 2500, 200)
        audit_sequences(ctx, 800)
        audit_loops(ctx, 8)
        ctx.exhaustive = False


def replay(ctx, data):
    common.use_repo_sources()
    f = data.get("failure") or (data.get("broken") or [{}])[-1].get("first")
    if f is None:
        print(json.dumps(data)[:2000])
        print("NOT REPRODUCED (the replay names a proof that no longer checks; run ./check C18)")
        return 0
    print(json.dumps(f, default=str)[:3000])
    ctx.model = common.Model(MODEL_NAME)
    ctx.known = []
    run_witness(ctx, f["input"])
    bad = ctx.failures or ctx.mismatches
    print("REPRODUCED" if bad else "NOT REPRODUCED")
    for r in (ctx.failures + ctx.mismatches)[:3]:
        print(json.dumps(r, default=str)[:2000])
    return 1 if bad else 0
