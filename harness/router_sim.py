"""Single-station router histories: the same event list is run on a real Router (virtual clock,
fake timers, capturing link layer) and on the extracted model coq/theories/Model/Router.v.

Event dicts (all integers are wire units):
  {"ev":"rx",  "now": its_ms, "pkt": bytes, "area": (lat,lon,a,b,angle,shape)|None, "dest": (lat,lon)|None}
  {"ev":"shb", "r": [req_ms, nh, scf, off, tcid], "payload": bytes}
  {"ev":"geo", "r": [req_ms, req_hl, nh, ht, hst, scf, off, tcid, lat, lon, a, b, angle], "payload": bytes}
  {"ev":"guc", "dest": (m,st,mid), "r": [req_ms, req_hl, nh, scf, off, tcid], "payload": bytes}
  {"ev":"cbf", "key": (m,st,mid,sn)}      fire the CBF timer of that key (if any)
  {"ev":"ls",  "sought": (m,st,mid)}      fire the LS retransmit timer
  {"ev":"ego", "pv": [9 fields]}
  {"ev":"tick","ms": n}                   advance the virtual clock (no model event)
Geometry tables for the model are computed here, independently of the implementation.
"""
from __future__ import annotations

import math

from . import stack
from .stack import VCLOCK, FakeTimer, CaptureLL, make_router, gn_addr

R_EARTH = 6371000.0


# ------------------------------------------------------------------ independent geometry (EN 302 931)
def offsets_m(clat, clon, lat, lon):
    """(north, east) offset in metres of (lat, lon) from the centre, equirectangular projection"""
    la1, lo1, la2, lo2 = (math.radians(v / 1e7) for v in (clat, clon, lat, lon))
    north = R_EARTH * (la2 - la1)
    east = R_EARTH * (lo2 - lo1) * math.cos((la1 + la2) / 2)
    return north, east


def f_value(area, lat, lon):
    """EN 302 931 clause 5: F >= 0 inside or on the border. area = (lat, lon, a, b, angle, shape 0/1/2)"""
    clat, clon, a, b, angle, shape = area
    north, east = offsets_m(clat, clon, lat, lon)
    th = math.radians(angle)
    x = north * math.cos(th) + east * math.sin(th)      # along the azimuth (long side / semi-major axis)
    y = -north * math.sin(th) + east * math.cos(th)
    if shape == 0:
        return 1 - (x / a) ** 2 - (y / a) ** 2
    if shape == 2:
        return 1 - (x / a) ** 2 - (y / b) ** 2
    return min(1 - (x / a) ** 2, 1 - (y / b) ** 2)


def dist_mm(lat1, lon1, lat2, lon2):
    n, e = offsets_m(lat1, lon1, lat2, lon2)
    return int(round(math.hypot(n, e) * 1000))


def dist_um(lat1, lon1, lat2, lon2):
    n, e = offsets_m(lat1, lon1, lat2, lon2)
    return int(round(math.hypot(n, e) * 1_000_000))


def area_size_m2(area):
    _, _, a, b, _, shape = area
    if shape == 0:
        return math.pi * a * a
    if shape == 2:
        return math.pi * a * b
    return 4.0 * a * b


# ------------------------------------------------------------------ the station under test
class Station:
    def __init__(self, mid=0x0A0B0C0D0E01, st=5, ego=(413800000, 21100000), mobile=True, default_hl=10,
                 default_s=60, dpl_len=8, life_s=20, area_alg="CBF", ls_max=10, max_area_km2=10, ego_pai=True):
        from flexstack.geonet.mib import GnIsMobile, AreaForwardingAlgorithm
        self.mid, self.st = mid, st
        self.params = dict(mobile=int(mobile), default_s=default_s, default_hl=default_hl, dpl_len=dpl_len,
                           life_ms=life_s * 1000, area_alg={"UNSPECIFIED": 0, "SIMPLE": 1, "CBF": 2}[area_alg],
                           ls_max=ls_max)
        self.max_area_km2 = max_area_km2
        FakeTimer.reset()
        self.ll = CaptureLL()
        self.router = make_router(self.ll, local_mid=mid, default_hop_limit=default_hl, st=st, mib_kw=dict(
            itsGnIsMobile=GnIsMobile.MOBILE if mobile else GnIsMobile.STATIONARY,
            itsGnDefaultPacketLifetime=default_s, itsGnDPLLength=dpl_len, itsGnLifetimeLocTE=life_s,
            itsGnAreaForwardingAlgorithm=getattr(AreaForwardingAlgorithm, area_alg),
            itsGnLocationServiceMaxRetrans=ls_max, itsGnMaxGeoAreaSize=max_area_km2))
        self.ego = [0, st, mid, VCLOCK.its_ms() % 2 ** 32, ego[0], ego[1], int(ego_pai), 0, 0]
        stack.set_ego(self.router, ego[0], ego[1], pai=ego_pai, tst=self.ego[3])
        self.ego0 = list(self.ego)
        self.inds = []
        self.btp = None
        self.btp_deliveries = []           # (port, BTPDataIndication) handed to registered handlers
        self.router.register_indication_callback(self._on_indication)
        self.positions = {(ego[0], ego[1])}
        self.rec_events, self.rec_obs, self.rec_geos, self.rec_nears = [], [], [], []

    def _on_indication(self, ind):
        self.inds.append(ind)
        if self.btp is not None:
            self.btp.btp_data_indication(ind)

    def attach_btp(self, ports):
        """a real BTP router on top, with recording handlers on the given ports"""
        from flexstack.btp.router import Router as BTPRouter
        self.btp = BTPRouter(self.router)
        for p in ports:
            self.btp.register_indication_callback_btp(port=p, callback=(lambda i, p=p: self.btp_deliveries.append((p, i))))
        self.btp.freeze_callbacks()
        # BTPRouter registers nothing on the GN router by itself here; indications are routed by _on_indication

    def record(self, ctx, ev):
        """run one event on the implementation and remember it (with its geometry tables) for the model"""
        g, near = None, (False, False)
        if ev["ev"] == "cbf" and ev.get("key") is None:
            keys = [list(stack.addr_tuple(kk[0])) + [kk[1]] for kk in self.router._cbf_buffer.keys()]
            ev["key"] = ctx.rng.choice(keys) if keys else [0, 0, 0, 0]
        if ev["ev"] == "ls" and ev.get("sought") is None:
            keys = [list(stack.addr_tuple(kk)) for kk in self.router._ls_timers.keys()]
            ev["sought"] = ctx.rng.choice(keys) if keys else [0, 0, 0]
        if ev["ev"] in ("rx", "geo", "guc") or (ev["ev"] == "btp" and ev["gn"] in ("geo", "guc")):
            dests = list(ev.get("dests") or [])
            # a forwarded unicast packet may be re-addressed to the position stored for its destination: provide
            # distance rows towards every position currently in the location table as well
            for e in self.router.location_table.loc_t.values():
                pvv = e.position_vector
                dests.append((pvv.latitude, pvv.longitude))
                self.positions.add((pvv.latitude, pvv.longitude))
            big, ins, dst, near_f, near_d = self.geo_tables(ev.get("area"), dests)
            near = (near_f, near_d)
            g = (big, ins, dst)
        obs = self.run_event(ev)
        self.rec_events.append(ev)
        self.rec_obs.append(obs)
        self.rec_geos.append(g)
        self.rec_nears.append(near)
        return obs

    # -- snapshot of observable state ---------------------------------------------------------
    def snapshot(self):
        r = self.router
        ents = []
        for addr, e in r.location_table.loc_t.items():
            pv = e.position_vector
            ents.append({"addr": list(stack.addr_tuple(addr)),
                         "pv": list(stack.addr_tuple(pv.gn_addr)) + [pv.tst.msec, pv.latitude, pv.longitude,
                                                                      int(pv.pai), pv.s, pv.h],
                         "set": int(getattr(e, "position_vector_received",
                                            pv.tst.msec != 0 or pv.latitude != 0 or pv.longitude != 0)),
                         "nb": int(e.is_neighbour), "ls": int(e.ls_pending),
                         "dpl": list(e.dpl_deque)})
        cbf = [list(stack.addr_tuple(k[0])) + [k[1]] for k in r._cbf_buffer.keys()]
        ls = [list(stack.addr_tuple(k)) + [r._ls_retransmit_counters.get(k, 0), len(v)]
              for k, v in r._ls_packet_buffers.items()]
        return {"sn": r.sequence_number, "loct": ents, "cbf": cbf, "ls": ls}

    # -- run one event on the implementation ---------------------------------------------------
    def run_event(self, ev):
        from flexstack.geonet.service_access_point import (GNDataRequest, PacketTransportType, HeaderType,
                                                           TopoBroadcastHST, GeoBroadcastHST, GeoAnycastHST, Area,
                                                           CommonNH, TrafficClass)
        r = self.router
        self.ll.sent.clear()
        self.inds.clear()
        self.last_confirm = None
        err = None
        k = ev["ev"]
        try:
            if k == "rx":
                VCLOCK.set_ms(ev["now"] + stack.ITS_EPOCH_MS - stack.LEAP_MS)
                r.gn_data_indicate(ev["pkt"])
            elif k == "tick":
                VCLOCK.advance(ev["ms"])
            elif k == "ego":
                pv = ev["pv"]
                stack.set_ego(r, pv[4], pv[5], pai=bool(pv[6]), s=pv[7], h=pv[8], tst=pv[3])
                self.ego = list(pv)
                self.positions.add((pv[4], pv[5]))
            elif k in ("shb", "geo", "guc"):
                q = ev["r"]
                if k == "shb":
                    req_ms, nh, scf, off, tcid = q
                    req = GNDataRequest(upper_protocol_entity=CommonNH(nh),
                                        packet_transport_type=PacketTransportType(HeaderType.TSB, TopoBroadcastHST.SINGLE_HOP),
                                        traffic_class=TrafficClass(bool(scf), bool(off), tcid), data=ev["payload"],
                                        length=len(ev["payload"]), max_packet_lifetime=None if req_ms < 0 else req_ms / 1000)
                elif k == "geo":
                    req_ms, req_hl, nh, ht, hst, scf, off, tcid, lat, lon, a, b, angle = q
                    HST = GeoBroadcastHST if ht == 4 else GeoAnycastHST
                    req = GNDataRequest(upper_protocol_entity=CommonNH(nh),
                                        packet_transport_type=PacketTransportType(stack.header_type_by_name(ht), stack.shape_hst_by_name(ht, hst)),
                                        traffic_class=TrafficClass(bool(scf), bool(off), tcid), data=ev["payload"],
                                        length=len(ev["payload"]), max_hop_limit=req_hl,
                                        max_packet_lifetime=None if req_ms < 0 else req_ms / 1000,
                                        area=Area(latitude=lat, longitude=lon, a=a, b=b, angle=angle))
                else:
                    req_ms, req_hl, nh, scf, off, tcid = q
                    d = ev["dest"]
                    req = GNDataRequest(upper_protocol_entity=CommonNH(nh),
                                        packet_transport_type=PacketTransportType(HeaderType.GEOUNICAST),
                                        traffic_class=TrafficClass(bool(scf), bool(off), tcid), data=ev["payload"],
                                        length=len(ev["payload"]), max_hop_limit=req_hl,
                                        max_packet_lifetime=None if req_ms < 0 else req_ms / 1000,
                                        destination=gn_addr(d[2], d[1], d[0]))
                conf = r.gn_data_request(req)
                self.last_confirm = getattr(getattr(conf, 'result_code', None), 'value', None)
            elif k == "btp":
                from flexstack.btp.service_access_point import BTPDataRequest
                q = ev["r"]
                gk = ev["gn"]
                tcls = TrafficClass(bool(q["scf"]), bool(q["off"]), q["tcid"])
                if gk == "shb":
                    ptt = PacketTransportType(HeaderType.TSB, TopoBroadcastHST.SINGLE_HOP)
                elif gk == "geo":
                    HST = GeoBroadcastHST if q["ht"] == 4 else GeoAnycastHST
                    ptt = PacketTransportType(HeaderType(q["ht"]), HST(q["hst"]))
                else:
                    ptt = PacketTransportType(HeaderType.GEOUNICAST)
                d = ev.get("dest") or (0, 0, 0)
                ar = q.get("area") or (0, 0, 0, 0, 0)
                self.btp.btp_data_request(BTPDataRequest(
                    btp_type=CommonNH(ev["btp_type"]), source_port=ev["p2"], destination_port=ev["p1"],
                    destination_port_info=ev["p2"], gn_packet_transport_type=ptt,
                    gn_destination_address=gn_addr(d[2], d[1], d[0]),
                    gn_area=Area(latitude=ar[0], longitude=ar[1], a=ar[2], b=ar[3], angle=ar[4]),
                    gn_max_hop_limit=q["req_hl"], gn_max_packet_lifetime=None if q["req_ms"] < 0 else q["req_ms"] / 1000,
                    traffic_class=tcls, data=ev["payload"], length=len(ev["payload"])))
            elif k == "cbf":
                key = ev["key"]
                for kk, t in list(r._cbf_buffer.items()):
                    if list(stack.addr_tuple(kk[0])) + [kk[1]] == list(key):
                        t.fire()
            elif k == "ls":
                s = ev["sought"]
                for kk, t in list(r._ls_timers.items()):
                    if list(stack.addr_tuple(kk)) == list(s):
                        t.fire()
        except Exception as e:  # noqa: BLE001 - an exception out of the stack is an observation
            err = f"{type(e).__name__}: {e}"
        inds = []
        for i in self.inds:
            pv = i.source_position_vector
            hdr = [i.upper_protocol_entity.value, i.packet_transport_type.header_type.value,
                   getattr(i.packet_transport_type.header_subtype, "value", 0) if i.packet_transport_type.header_type.value != 2 else 0]
            hdr += list(stack.addr_tuple(pv.gn_addr)) + [pv.tst.msec, pv.latitude, pv.longitude, int(pv.pai), pv.s, pv.h]
            hdr += [int(i.traffic_class.scf), int(i.traffic_class.channel_offload), i.traffic_class.tc_id,
                    int(i.remaining_packet_lifetime), i.remaining_hop_limit]
            if i.destination_area is not None:
                ar = i.destination_area
                hdr += [ar.latitude, ar.longitude, ar.a, ar.b, ar.angle]
            inds.append({"hdr": hdr, "data": bytes(i.data)})
        return {"sent": list(self.ll.sent), "inds": inds, "err": err, "state": self.snapshot(), "confirm": self.last_confirm}

    # -- geometry tables for the model ------------------------------------------------------------
    def geo_tables(self, area, dests):
        """area: (lat,lon,a,b,angle,shape) or None; dests: iterable of (lat,lon).
        Returns (big, ins, dst, near_f, near_d): near_f = some position is within 1e-6 of the border (F) or the area
        size is within 1 m2 of the limit; near_d = two candidate distances differ by less than 5 micrometres"""
        pts = sorted(self.positions)
        ins, dst, near_f, near_d = [], [], False, False
        big = False
        if area is not None and area[2] > 0 and (area[5] == 0 or area[3] > 0) and area[5] in (0, 1, 2):
            size = area_size_m2(area)
            big = size > self.max_area_km2 * 1_000_000
            if abs(size - self.max_area_km2 * 1_000_000) < 1.0:
                near_f = True
            for (la, lo) in pts:
                f = f_value(area, la, lo)
                if abs(f) < 1e-6:
                    near_f = True
                ins.append([la, lo, 1 if f >= 0 else 0])
        for (dla, dlo) in sorted(set(dests)):
            ds = [(la, lo, dist_um(dla, dlo, la, lo)) for (la, lo) in pts]
            vals = sorted(d for _, _, d in ds)
            if any(0 < abs(vals[i + 1] - vals[i]) <= 5 for i in range(len(vals) - 1)):
                near_d = True
            dst += [[dla, dlo, la, lo, d] for (la, lo, d) in ds]
        return big, ins, dst, near_f, near_d


def rx_event_from_octets(station, pkt: bytes, now: int, extra_dests=()):
    """an rx event for arbitrary octets, with geometry rows for whatever the frame may address"""
    ev = {"ev": "rx", "kind": "raw", "src": (0, 0, 0), "tst": 0, "pos": (0, 0), "rhl": pkt[3] if len(pkt) > 3 else 0,
          "mhl": pkt[10] if len(pkt) > 10 else 0, "pai": 0, "scf": 0, "pkt": pkt, "now": now, "raw": True}
    area, dests = None, {(0, 0)}
    dests.update(extra_dests)
    ht = pkt[5] >> 4 if len(pkt) > 5 else 0
    if len(pkt) >= 56 and ht in (3, 4):
        lat = int.from_bytes(pkt[40:44], "big", signed=True)
        lon = int.from_bytes(pkt[44:48], "big", signed=True)
        a, b, ang = (int.from_bytes(pkt[48 + 2 * i:50 + 2 * i], "big") for i in range(3))
        area = (lat, lon, a, b, ang, pkt[5] & 15)
        dests.add((lat, lon))
    if len(pkt) >= 60 and ht in (2, 6):
        dests.add((int.from_bytes(pkt[52:56], "big", signed=True), int.from_bytes(pkt[56:60], "big", signed=True)))
    for off in (12, 16):
        if len(pkt) >= off + 20:
            station.positions.add((int.from_bytes(pkt[off + 12:off + 16], "big", signed=True),
                                   int.from_bytes(pkt[off + 16:off + 20], "big", signed=True)))
    if area is not None and (area[2] == 0 or area[5] > 2 or (area[5] != 0 and area[3] == 0)):
        area = None
    ev["area"] = area
    ev["dests"] = sorted(dests)
    if len(pkt) >= 24:
        off = 12 if ht == 1 or (ht == 5 and (pkt[5] & 15) == 0) else 16
        if len(pkt) >= off + 8:
            ev["src"] = ((pkt[off] >> 7) & 1, (pkt[off] >> 2) & 31, int.from_bytes(pkt[off + 2:off + 8], "big"))
    return ev


def put_list(l):
    return [len(l)] + list(l)


def put_geo(big, ins, dst):
    out = [int(big), len(ins)]
    for r in ins:
        out += r
    out.append(len(dst))
    for r in dst:
        out += r
    return out


def encode_history(station: Station, events, geos):
    """flat integer request for RouterIO.dispatch 1; geos[i] = (big, ins, dst) for events that need it"""
    p = station.params
    a = [0, station.st, station.mid, p["mobile"], p["default_s"], p["default_hl"], p["dpl_len"], p["life_ms"],
         p["area_alg"], p["ls_max"]] + list(station.ego0)
    for ev, g in zip(events, geos):
        k = ev["ev"]
        if k == "rx":
            a += [1, ev["now"]] + put_geo(*g) + put_list(ev.get("model_pkt", ev["pkt"]))
        elif k == "shb":
            a += [2] + put_list(list(ev["r"]) + list(ev["payload"]))
        elif k == "geo":
            a += [3] + put_geo(*g) + put_list(list(ev["r"]) + list(ev["payload"]))
        elif k == "guc":
            a += [4] + put_geo(*g) + list(ev["dest"]) + put_list(list(ev["r"]) + list(ev["payload"]))
        elif k == "btp":
            q = ev["r"]
            pdu = list(stack.pack([(16, ev["p1"]), (16, ev["p2"])])) + list(ev["payload"])
            if ev["gn"] == "shb":
                a += [2] + put_list([q["req_ms"], ev["btp_type"], q["scf"], q["off"], q["tcid"]] + pdu)
            elif ev["gn"] == "geo":
                ar = q["area"]
                a += [3] + put_geo(*g) + put_list([q["req_ms"], q["req_hl"], ev["btp_type"], q["ht"], q["hst"], q["scf"], q["off"],
                                                   q["tcid"], ar[0], ar[1], ar[2], ar[3], ar[4]] + pdu)
            else:
                a += [4] + put_geo(*g) + list(ev["dest"]) + put_list([q["req_ms"], q["req_hl"], ev["btp_type"], q["scf"], q["off"],
                                                                        q["tcid"]] + pdu)
        elif k == "cbf":
            a += [5] + put_list(ev["key"])
        elif k == "ls":
            a += [6] + list(ev["sought"])
        elif k == "ego":
            a += [7] + list(ev["pv"])
    return a


def decode_trace(flat, n_events):
    """inverse of RouterIO.trace"""
    out, i = [], 0

    def take():
        nonlocal i
        n = flat[i]
        l = flat[i + 1:i + 1 + n]
        i += 1 + n
        return l

    for _ in range(n_events):
        n_out = flat[i]
        i += 1
        sent, inds, timers, discards, geomissing = [], [], [], [], False
        for _ in range(n_out):
            tag = flat[i]
            i += 1
            if tag in (1, 2):
                sent.append(bytes(take()))
            elif tag == 3:
                h = take()
                d = take()
                inds.append({"hdr": h, "data": bytes(d)})
            elif tag in (4, 5):
                kind = flat[i]
                i += 1
                timers.append((tag, kind, take()))
            elif tag == 6:
                discards.append(flat[i])
                i += 1
            elif tag == 7:
                geomissing = True
        sn = flat[i]
        n_ent = flat[i + 1]
        i += 2
        ents = []
        for _ in range(n_ent):
            addr = flat[i:i + 3]
            pv = flat[i + 3:i + 12]
            st, nb, ls = flat[i + 12:i + 15]
            i += 15
            dpl = take()
            ents.append({"addr": addr, "pv": pv, "set": st, "nb": nb, "ls": ls, "dpl": dpl})
        n_cbf = flat[i]
        i += 1
        cbf = [take() for _ in range(n_cbf)]
        n_ls = flat[i]
        i += 1
        ls = []
        for _ in range(n_ls):
            ls.append(flat[i:i + 5])
            i += 5
        out.append({"sent": sent, "inds": inds, "timers": timers, "discards": discards, "geomissing": geomissing,
                    "state": {"sn": sn, "loct": ents, "cbf": cbf, "ls": ls}})
    return out


def canon_state(st, impl: bool):
    """comparable view of a state snapshot; entries without a received position vector compare by flags only"""
    ents = []
    for e in st["loct"]:
        pv = list(e["pv"]) if e["set"] else None
        ents.append((tuple(e["addr"]), tuple(pv) if pv else None, e["set"], e["nb"], e["ls"], tuple(e["dpl"])))
    return {"sn": st["sn"], "loct": ents, "cbf": sorted(tuple(k) for k in st["cbf"]),
            "ls": sorted(tuple(x) for x in st["ls"])}


def run_history(ctx, station: Station, events, relation="Router history = Model.Router.run"):
    """Run on the implementation, then on the model; report mismatches. Returns (impl_trace, model_trace|None,
    truncated) where truncated is True when a geometric verdict was too close to a threshold to compare further."""
    start = len(station.rec_events)
    for ev in events:
        station.record(ctx, ev)
    impl = station.rec_obs[start:]
    mtrace, truncated = compare_with_model(ctx, station, relation)
    if mtrace is not None:
        k = len([e for e in station.rec_events[:start] if e["ev"] != "tick"])
        mtrace = mtrace[k:]
    return impl, mtrace, truncated


def compare_with_model(ctx, station: Station, relation="Router history = Model.Router.run"):
    """replay everything the station has recorded on the extracted model and compare event by event"""
    events, impl = station.rec_events, station.rec_obs
    idxs = [i for i, e in enumerate(events) if e["ev"] != "tick"]
    if not ctx.model.available:
        return None, False
    flat = ctx.model.call(1, encode_history(station, [events[i] for i in idxs], [station.rec_geos[i] for i in idxs]))
    mtrace = decode_trace(flat, len(idxs))
    truncated = False
    for j, idx in enumerate(idxs):
        ev, obs, m = events[idx], impl[idx], mtrace[j]
        near_f, near_d = station.rec_nears[idx]
        if near_f:
            truncated = True
            break
        if m["geomissing"]:
            ctx.mismatch(relation, {"event_index": idx, "event": _ev_repr(ev)}, "geometry row missing (harness)", None)
            break
        diffs = []
        if obs["sent"] != m["sent"] and not near_d:
            diffs.append(("sent", [b.hex() for b in m["sent"]], [b.hex() for b in obs["sent"]]))
        if [(i["hdr"], i["data"]) for i in obs["inds"]] != [(i["hdr"], i["data"]) for i in m["inds"]]:
            diffs.append(("indications", [(i["hdr"], i["data"].hex()) for i in m["inds"]],
                          [(i["hdr"], i["data"].hex()) for i in obs["inds"]]))
        if canon_state(obs["state"], True) != canon_state(m["state"], False):
            diffs.append(("state", canon_state(m["state"], False), canon_state(obs["state"], True)))
        if obs["err"] is not None:
            diffs.append(("exception", None, obs["err"]))
        if diffs:
            what, mv, iv = diffs[0]
            ctx.mismatch(relation + f" [{what}]", {"event_index": idx, "event": _ev_repr(ev),
                                                  "history": [_ev_repr(e) for e in events[:idx + 1]][-12:]}, mv, iv)
            break
    ctx.count(1, "history_compared_with_model" + ("_truncated_at_border_case" if truncated else ""))
    return mtrace, truncated


def _ev_repr(ev):
    d = {}
    for k, v in ev.items():
        d[k] = v.hex() if isinstance(v, (bytes, bytearray)) else v
    return d


# ------------------------------------------------------------------ history generation
class Source:
    def __init__(self, rng, idx, near, n_pos=3, skew_ms=0, rich=False):
        self.addr = (0, rng.choice([1, 5, 7, 12, 0]), 0x0A0B0C0D1000 + idx)
        if rich:   # every station type, both values of the M bit (manually configured address)
            self.addr = (rng.choice([0, 0, 1]), rng.randrange(13), 0x0A0B0C0D1000 + idx)
        self.pos = []
        for _ in range(n_pos):
            # within a few hundred metres of `near`, or far away
            if rng.random() < 0.8:
                self.pos.append((near[0] + rng.randrange(-40000, 40001), near[1] + rng.randrange(-60000, 60001)))
            else:
                self.pos.append((rng.randrange(-899000000, 899000001), rng.randrange(-1799000000, 1799000001)))
        # a third of the sources start a few packets before the 16-bit sequence number wraps (SN 65535 -> 0 is in range)
        self.sn = rng.choice([rng.randrange(0, 65535), rng.randrange(0, 65535), 65535 - rng.randrange(0, 6)])
        self.skew = skew_ms
        self.sent = []   # (kind, sn, bytes, meta)


class Scenario:
    """builds a seeded event list for one station; `mix` weights the event kinds"""

    def __init__(self, rng, station: Station, n_sources=3, mix=None, t0=None, max_skew=3000, payload_max=24, rich=False):
        """rich (off by default, so that existing users keep their input stream): received packets carry every header
        field at varied values - speed (15-bit signed incl. both range ends) and heading, the mobility flag of a
        stationary source, the channel-offload bit of the traffic class, lifetime codes of every base, station types
        0..12 and the M bit of the source address - instead of the constants of the reference builders"""
        self.rng, self.st, self.rich = rng, station, rich
        self.rhl_values = None      # optional replacement of the received hop-limit values (same number of entries: 8)
        ego = (station.ego[4], station.ego[5])
        self.sources = [Source(rng, i, ego, skew_ms=rng.choice([0, 0, 1, -1, 250, -250, max_skew, -max_skew, 999]), rich=rich)
                        for i in range(n_sources)]
        self.me = (0, station.st, station.mid)
        for s in self.sources:
            station.positions.update(s.pos)
        station.positions.add((0, 0))
        self.now = VCLOCK.its_ms() if t0 is None else t0
        self.mix = mix or {"beacon": 3, "shb": 3, "tsb": 3, "gbc": 4, "gac": 3, "guc": 3, "lsreq": 1, "lsrep": 1,
                           "dup": 4, "tick": 4, "req_shb": 1, "req_geo": 1, "req_guc": 1, "cbf": 2, "ls": 1, "ego": 0}
        self.payload_max = payload_max
        self.events = []

    def _payload(self):
        n = self.rng.choice([0, 1, 4, 5, self.rng.randrange(0, self.payload_max + 1)])
        return bytes(self.rng.randrange(256) for _ in range(n))

    def _area(self, inside_bias=0.6):
        rng = self.rng
        ego = (self.st.ego[4], self.st.ego[5])
        shape = rng.choice([0, 1, 2])
        a = rng.choice([1, 2, 50, 100, 400, 1500, 3000, 65535, rng.randrange(1, 2000)])
        b = rng.choice([1, 2, 30, 100, 400, rng.randrange(1, 2000)])
        angle = rng.choice([0, 0, 45, 90, 135, 359, rng.randrange(0, 360)])
        if rng.random() < inside_bias:
            c = (ego[0] + rng.randrange(-300, 301), ego[1] + rng.randrange(-300, 301))
        else:
            c = (ego[0] + rng.choice([-1, 1]) * rng.randrange(20000, 900000), ego[1] + rng.choice([-1, 1]) * rng.randrange(20000, 900000))
        if rng.random() < 0.03:
            a = 0
        if rng.random() < 0.03:
            b = 0
        return (c[0], c[1], a, b, angle, shape)

    def rx_event(self, kind, src=None, sn=None, tst=None, rhl=None, mhl=None, de=None, area=None, payload=None,
                 pos=None, sought=None, scf=None, nh=None, extra=None):
        """extra: dict(s=, h=, mobile=, lt_code=, off=) overriding the header fields that are constant otherwise"""
        rng = self.rng
        s = src or rng.choice(self.sources)
        if tst is None:
            tst = (self.now + s.skew + rng.choice([0, 0, -1, 1, -40, 40, -2000, 5])) % 2 ** 32
        la, lo = pos or rng.choice(s.pos)
        if sn is None:
            s.sn = (s.sn + 1) % 65536
            sn = s.sn
        if rhl is None:
            rhl = rng.choice(self.rhl_values or [0, 1, 1, 2, 2, 3, 10, 255])
        if mhl is None:
            mhl = rhl if rng.random() < 0.5 else rng.choice([rhl, min(255, rhl + 3), 255, max(0, rhl - 1)])
        pai = 1 if rng.random() < 0.8 else 0
        tc = ((1 if (scf if scf is not None else rng.random() < 0.25) else 0) << 7) | rng.randrange(64)
        nh = nh if nh is not None else rng.choice([1, 2, 2, 0, 3])
        payload = self._payload() if payload is None else payload
        kw = {}
        if self.rich:
            kw = dict(s=rng.choice([0, 0, 1, -1, 16383, -16384, rng.randrange(-16384, 16384)]),
                      h=rng.choice([0, 0, 1, 3599, 3600, 65535, rng.randrange(65536)]),
                      mobile=rng.choice([1, 1, 0]),
                      lt_code=rng.choice([(60 << 2) | 1, (60 << 2) | 1, (20 << 2) | 0, (63 << 2) | 3, (1 << 2) | 0, (1 << 2) | 2,
                                          (63 << 2) | 0, 0, rng.randrange(256)]))
            if rng.random() < 0.25:
                tc |= 1 << 6             # channel offload
        if extra:
            ex = dict(extra)
            if "off" in ex:
                tc = (tc & ~(1 << 6)) | (int(bool(ex.pop("off"))) << 6)
            kw.update(ex)
        ev = {"ev": "rx", "kind": kind, "src": s.addr, "sn": sn, "tst": tst, "pos": (la, lo), "rhl": rhl, "mhl": mhl,
              "scf": tc >> 7, "pai": pai, "s": kw.get("s", 0), "h": kw.get("h", 0)}
        if kind in ("beacon", "shb"):
            pkt = (stack.beacon_bytes(s.addr, tst, la, lo, pai=pai, **kw) if kind == "beacon"
                   else stack.shb_bytes(s.addr, tst, la, lo, payload, pai=pai, nh=nh, tc=tc, **kw))
            ev.pop("sn")
            # single-hop packets are sent with RHL = MHL = 1; a share of them arrives with other hop fields
            # (a receiver must discard RHL > MHL for every packet type)
            if rng.random() < 0.2:
                b = bytearray(pkt)
                b[3], b[10] = rhl, mhl
                pkt = bytes(b)
            else:
                ev["rhl"], ev["mhl"] = 1, 1
        elif kind == "tsb":
            pkt = stack.tsb_bytes(s.addr, sn, tst, la, lo, payload, rhl=rhl, mhl=mhl, pai=pai, nh=nh, tc=tc, **kw)
        elif kind in ("gbc", "gac"):
            area = area or self._area()
            pkt = stack.gbc_bytes(s.addr, sn, tst, la, lo, area[:5], payload, ht=4 if kind == "gbc" else 3,
                                  hst=area[5], rhl=rhl, mhl=mhl, pai=pai, nh=nh, tc=tc, **kw)
            ev["area"] = area
            ev["dests"] = [(area[0], area[1])]
        elif kind in ("guc", "lsrep"):
            if de is None:
                if rng.random() < 0.5:
                    de = (self.me, (self.now - 50) % 2 ** 32, self.st.ego[4], self.st.ego[5])
                else:
                    o = rng.choice([x for x in self.sources if x is not s] or self.sources)
                    p = rng.choice(o.pos)
                    de = (o.addr, (self.now + rng.choice([-5000, -10, 0, 10, 4000])) % 2 ** 32, p[0], p[1])
            if kind == "guc":
                pkt = stack.guc_bytes(s.addr, sn, tst, la, lo, de, payload, rhl=rhl, mhl=mhl, pai=pai, nh=nh, tc=tc, **kw)
            else:
                pkt = stack.ls_reply_bytes(s.addr, sn, tst, la, lo, de, rhl=rhl, mhl=mhl, pai=pai, tc=0, **kw)
            ev["de"] = de
            dests = {(de[2], de[3]), (0, 0)}
            for x in self.sources:
                if x.addr == de[0] or kind == "lsrep":
                    dests.update(x.pos)
            ev["dests"] = sorted(dests)
        elif kind == "lsreq":
            if sought is None:
                sought = self.me if rng.random() < 0.5 else rng.choice(self.sources).addr
            pkt = stack.ls_request_bytes(s.addr, sn, tst, la, lo, sought, rhl=rhl, mhl=mhl, pai=pai, tc=0, **kw)
            ev["sought"] = sought
        else:
            raise KeyError(kind)
        ev["pkt"] = pkt
        ev["now"] = self.now
        s.sent.append(ev)
        return ev

    def dup_event(self):
        """exact replay of an earlier multi-hop packet, or a new packet re-using its (source, SN)"""
        rng = self.rng
        cands = [e for s in self.sources for e in s.sent if "sn" in e]
        if not cands:
            return self.rx_event("tsb")
        old = rng.choice(cands[-12:]) if rng.random() < 0.8 else rng.choice(cands)
        edge = [e for e in cands[-40:] if e["sn"] in (0, 1, 65535)]
        if edge and rng.random() < 0.35:         # replays of the packets sent around the sequence number wrap
            old = rng.choice(edge)
        ev = dict(old)
        ev["now"] = self.now
        ev["dup_of"] = True
        if rng.random() < 0.3:   # same (SO, SN), different hop count (as if it came along another path)
            b = bytearray(ev["pkt"])
            if b[3] > 1:
                b[3] -= 1
            ev["pkt"] = bytes(b)
            ev["rhl"] = b[3]
        return ev

    def request_event(self, kind):
        rng = self.rng
        req_ms = rng.choice([-1, -1, 50, 1000, 15000])
        nh = rng.choice([1, 2])
        scf, off, tcid = int(rng.random() < 0.2), int(rng.random() < 0.2), rng.randrange(64)
        payload = self._payload()
        if kind == "req_shb":
            return {"ev": "shb", "r": [req_ms, nh, scf, off, tcid], "payload": payload}
        if kind == "req_geo":
            area = self._area(0.7)
            area = (area[0], area[1], max(1, area[2]), max(1, area[3]), area[4], area[5])
            ht = rng.choice([3, 4])
            return {"ev": "geo", "r": [req_ms, rng.choice([0, 1, 2, 7, 255]), nh, ht, area[5], scf, off, tcid,
                                      area[0], area[1], area[2], area[3], area[4]], "payload": payload,
                    "area": area, "dests": [(area[0], area[1])]}
        dest = rng.choice(self.sources).addr if rng.random() < 0.8 else (0, 5, 0x0A0B0C0DAAAA)
        dests = {(0, 0)}
        for x in self.sources:
            if x.addr == dest:
                dests.update(x.pos)
        return {"ev": "guc", "dest": dest, "r": [req_ms, rng.choice([0, 1, 2, 7, 255]), nh, scf, off, tcid],
                "payload": payload, "dests": sorted(dests)}

    def build(self, n):
        rng = self.rng
        kinds = [k for k, w in self.mix.items() for _ in range(w)]
        evs = []
        while len(evs) < n:
            k = rng.choice(kinds)
            if k == "tick":
                ms = rng.choice([1, 1, 20, 100, 999, 1000, 1001, 5000, 19999, 20000, 20001, 21000, 45000])
                self.now += ms
                evs.append({"ev": "tick", "ms": ms})
            elif k in ("beacon", "shb", "tsb", "gbc", "gac", "guc", "lsreq", "lsrep"):
                evs.append(self.rx_event(k))
            elif k == "dup":
                evs.append(self.dup_event())
            elif k in ("req_shb", "req_geo", "req_guc"):
                evs.append(self.request_event(k))
            elif k == "cbf":
                keys = [list(stack.addr_tuple(kk[0])) + [kk[1]] for kk in self.st.router._cbf_buffer.keys()]
                # the buffer content is only known while running; fire lazily: marker resolved at run time
                evs.append({"ev": "cbf", "key": None})
            elif k == "ls":
                evs.append({"ev": "ls", "sought": None})
            elif k == "ego":
                pv = list(self.st.ego)
                pv[3] = self.now % 2 ** 32
                pv[4] += rng.randrange(-500, 501)
                pv[5] += rng.randrange(-500, 501)
                evs.append({"ev": "ego", "pv": pv})
        self.events = evs
        return evs
