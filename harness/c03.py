"""C03 - secured packets are delivered only if authentic and untampered."""
from __future__ import annotations

import contextlib
import copy
import io
import json

from . import common
from . import sec_common as sc
from .stack import VCLOCK, CaptureLL, make_router

PROP = "C03"
COQ_TARGETS = ["Properties/C03", "Extract/ExC03"]
MODEL_ML = "c03_model.ml"
MODEL_NAME = "c03"
TRUSTED_BASE = [
    "Coq 8.16.1 kernel (coqc); vm_compute only in the Example; no native_compute",
    "extraction (ExtrOcamlBasic only) + ocaml/driver_body.ml + OCaml 4.13.1",
    "hand-written model coq/theories/Model/Sec.v (rx = process_basic_header + process_security_header over Sec.verify_msg), "
    "tied to a real Router with SignService / VerifyService by differential execution (this harness)",
    "ECDSA P-256 / SHA-256 are oracles of the model; the oracle table is computed by the harness with the ecdsa and hashlib "
    "packages on OER bytes of its own asn1tools coder",
    "ECDSA unforgeability (EUF-CMA of ECDSA-P256/SHA-256) is an ASSUMPTION, not a theorem: it is the explicit premise of "
    "C03_altered_rejected and what turns 'the oracle accepted exactly these bytes under a chained ticket's key' into "
    "'not altered in any bit'",
    "asn1tools OER codec, ecdsa, hashlib (third party, not modelled); Python harness harness/c03.py, sec_common.py, stack.py",
]
ASSUMPTIONS = [
    "the model is tied to the code by execution on the same frame sequences, not by proof",
    "the verifier checks the signature over its own re-encoding of the decoded tbsData: frames that differ from a genuine "
    "frame only in the unsigned basic header, in encoding redundancy that decodes to the same structure, in trailing octets, "
    "in fields outside tbsData / signer identity / signature (hashId, outer protocolVersion), or in the representation "
    "(digest vs certificate) of the same signer are delivered with exactly the signed payload; they are counted in the "
    "evidence notes and are not alterations of signed content, signer or signature",
    "the signature input is SHA-256(tbsData) only (not the IEEE 1609.2 two-part hash with the signer identifier input): "
    "an interoperability matter outside this property",
]
EXPLANATION = ("theorems for every oracle and every history: delivery implies an oracle-accepted signature over exactly the "
               "delivered payload and its header information under a ticket chained to a configured root; unsecured, "
               "unknown-digest and self-made-chain frames are dropped; received frames never change the trusted roots; the "
               "any-bit-altered clause as a reduction to the ECDSA assumption; a certificate is judged under the key of the "
               "certificate its issuer field designates and under no other, whatever verified before. Correspondence on mutated "
               "genuine packets "
               "from a real secured Router (bit flips, substitutions, truncations, extensions, structure-level mutations, "
               "attacker chains, arbitrary orders)")

U = [36, 37, 638, 139]


def its_now_s() -> int:
    return (VCLOCK.ms - sc.ITS_EPOCH_S * 1000 + 5000) // 1000


class Net:
    """PKI (genuine + attacker) and station factory"""

    def __init__(self, rng):
        self.pki = sc.Pki(rng)
        n = its_now_s()
        self.root = self.cert(None, [36], [("all", 2)], "root", n)
        self.aa = self.cert(self.root, [36], [(U, 1)], "aa", n)
        self.xroot = self.cert(None, [36], [("all", 2)], "xroot", n)
        self.xaa = self.cert(self.xroot, [36], [("all", 1)], "xaa", n)
        self.xat = self.cert(self.xaa, U, None, None, n)
        # attacker ticket naming the genuine AA as issuer (signed with the attacker's AA key)
        self.xat2 = self.cert(self.xaa, U, None, None, n)
        d = copy.deepcopy(self.xat2[0])
        d["issuer"] = ("sha256AndDigest", sc.hashed_id8(self.aa[0]))
        self.xat2 = (d, self.xat2[1])
        self.trusted = [self.root[0], self.aa[0]]      # independently chained CA certificates
        self.genuine = []                               # (tbs bytes, (r, s), ticket digest) of honest frames
        self.genuine_frames = []

    def cert(self, issuer, app, issue, name, n, validity=("hours", 24)):
        k = self.pki.new_key()
        tbs = sc.make_tbs(name, app, issue, n - 1000, validity, self.pki.pub(k))
        if issuer is None:
            return (sc.make_cert(self.pki, tbs, ("self", "sha256"), k), k)
        return (sc.make_cert(self.pki, tbs, ("sha256AndDigest", sc.hashed_id8(issuer[0])), issuer[1]), k)

    def ticket(self, app=None):
        return self.cert(self.aa, app or U, None, None, its_now_s())

    def extras(self):
        """further attacker material, created on demand AFTER the tickets of a run (the keys of the run's PKI are drawn from
        the seeded PRNG in creation order; older replay files rebuild root, AA and the first tickets only)"""
        if hasattr(self, "xat_r"):
            return
        n = its_now_s()
        self.xat_r = self.cert(self.xroot, U, None, None, n)           # ticket issued directly by the self-made root
        # self-signed 'ticket' (consistent signature under its own key)
        k = self.pki.new_key()
        tbs = sc.make_tbs(None, U, None, n - 1000, ("hours", 24), self.pki.pub(k))
        self.xat_self = (sc.make_cert(self.pki, tbs, ("self", "sha256"), k), k)
        # attacker authority naming the genuine root as issuer (signed with the attacker's root key) and a ticket under it
        self.xaa_r = self.cert(self.xroot, [36], [("all", 1)], "xaa-r", n)
        d = copy.deepcopy(self.xaa_r[0])
        d["issuer"] = ("sha256AndDigest", sc.hashed_id8(self.root[0]))
        self.xaa_r = (d, self.xaa_r[1])
        self.xat_ar = self.cert(self.xaa_r, U, None, None, n)
        # attacker authority naming the genuine root (and the genuine AA) as issuer but signed with ITS OWN key - it
        # verifies only under its own verification key - and tickets under it (an insider can put such a certificate into
        # the signed requestedCertificate field of an authentic message)
        ko = self.pki.new_key()
        tbs = sc.make_tbs("xaa-own", [36], [("all", 1)], n - 1000, ("hours", 24), self.pki.pub(ko))
        self.xaa_own = (sc.make_cert(self.pki, tbs, ("sha256AndDigest", sc.hashed_id8(self.root[0])), ko), ko)
        self.xat_own = self.cert(self.xaa_own, U, None, None, n)
        ko2 = self.pki.new_key()
        tbs2 = sc.make_tbs("xaa-own2", [36], [("all", 1)], n - 1000, ("hours", 24), self.pki.pub(ko2))
        self.xaa_own2 = (sc.make_cert(self.pki, tbs2, ("sha256AndDigest", sc.hashed_id8(self.aa[0])), ko2), ko2)
        self.xat_own2 = self.cert(self.xaa_own2, U, None, None, n)

    def station(self, mid, own=None, known=(), enabled=True, with_vs=True, reg=None, roots=None, aas=None, own_issuer=None,
                with_sign_service=True, ego=(413800000, 21100000)):
        """roots: trusted roots configured at the station (default: the genuine root); aas: (authority, its issuer) pairs
        (default: the genuine AA); own_issuer: issuer of the own ticket (default: the genuine AA)"""
        from flexstack.geonet.mib import GnSecurity
        reg = reg or sc.Reg()
        st = sc.Station(reg, self.pki, with_sign_service=with_sign_service)
        setup_ops = []
        roots = [self.root] if roots is None else roots
        aas = [(self.aa, self.root)] if aas is None else aas
        for r in roots:
            st.lib.add_root_certificate(st.obj(r[0]))
            setup_ops.append([1, reg.cert(r[0]), 0])
        for a, i in aas:
            st.lib.add_authorization_authority(st.obj(a[0], i[0]))
            setup_ops.append([2, reg.cert(a[0]), reg.cert(i[0])])
        if own is not None:
            oi = own_issuer or self.aa
            st.lib.add_own_certificate(st.obj(own[0], oi[0], own_key=own[1]))
            setup_ops.append([4, reg.cert(own[0]), reg.cert(oi[0])])
        for k in known:
            ki = k[2] if len(k) > 2 else self.aa       # (ticket, key[, issuing authority])
            st.lib.add_authorization_ticket(st.obj(k[0], ki[0]))
            setup_ops.append([3, reg.cert(k[0]), reg.cert(ki[0])])
        ll = CaptureLL()
        router = make_router(ll, mid, ego=ego,
                             mib_kw={"itsGnSecurity": GnSecurity.ENABLED if enabled else GnSecurity.DISABLED},
                             sign_service=st.sign, verify_service=st.verify if with_vs else None)
        got, entered = [], []
        router.register_indication_callback(got.append)
        orig = router.process_common_header

        def wrapped(packet, basic_header):
            entered.append(packet)
            return orig(packet, basic_header)
        router.process_common_header = wrapped
        # what the operator configured: the oracle's reference for 'a root configured as trusted' (never read back from
        # the library under test) and the CA certificates the harness itself chained to those roots
        return {"st": st, "router": router, "ll": ll, "got": got, "entered": entered, "reg": reg, "setup": setup_ops,
                "enabled": enabled, "with_vs": with_vs, "own": own, "with_sign": with_sign_service,
                "configured_roots": sorted(sc.hashed_id8(r[0]) for r in roots),
                "trusted": [r[0] for r in roots] + [a[0] for a, _ in aas]}


def requests(pos=(413800000, 21100000)):
    """request factories per message kind; pos: centre of the DENM destination area (the stations' position);
    "generic:<psid>" style kinds are served by the "generic_psid" factory (data, psid)"""
    from flexstack.geonet.service_access_point import (GNDataRequest, PacketTransportType, HeaderType, TopoBroadcastHST,
                                                       GeoBroadcastHST, Area, CommonNH, TrafficClass)
    from flexstack.security.security_profiles import SecurityProfile

    def shb(profile, aid, data):
        return GNDataRequest(upper_protocol_entity=CommonNH.BTP_B,
                             packet_transport_type=PacketTransportType(HeaderType.TSB, TopoBroadcastHST.SINGLE_HOP),
                             security_profile=profile, its_aid=aid, traffic_class=TrafficClass(), length=len(data), data=data)

    def gbc(profile, aid, data):
        return GNDataRequest(upper_protocol_entity=CommonNH.BTP_B,
                             packet_transport_type=PacketTransportType(HeaderType.GEOBROADCAST,
                                                                       GeoBroadcastHST.GEOBROADCAST_CIRCLE),
                             security_profile=profile, its_aid=aid, traffic_class=TrafficClass(), length=len(data), data=data,
                             area=Area(latitude=pos[0], longitude=pos[1], a=100, b=100, angle=0), max_hop_limit=3)
    P = SecurityProfile
    return {"cam": lambda d: shb(P.COOPERATIVE_AWARENESS_MESSAGE, 36, d),
            "vam": lambda d: shb(P.VRU_AWARENESS_MESSAGE, 638, d),
            "generic": lambda d: shb(P.NO_SECURITY, 139, d),
            "generic_psid": lambda d, psid: shb(P.NO_SECURITY, psid, d),
            "denm": lambda d: gbc(P.DECENTRALIZED_ENVIRONMENTAL_NOTIFICATION_MESSAGE, 37, d)}


def capture(net: Net, sender, kind: str, data: bytes) -> bytes:
    sender["ll"].sent.clear()
    with contextlib.redirect_stdout(io.StringIO()):
        sender["router"].gn_data_request(requests()[kind](data))
    assert len(sender["ll"].sent) == 1, f"{kind}: {len(sender['ll'].sent)} packets"
    frame = sender["ll"].sent[0]
    sd = sc.dec_data(frame[4:])["content"][1]
    net.genuine.append((sc.enc_tbs_data(sd["tbsData"]), sc.sig_rs(sd["signature"]), sc.hashed_id8(sender["own"][0])))
    net.genuine_frames.append(frame)
    return frame


def genuine_packets(net: Net, sender):
    """CAM with certificate, CAM with digest, VAM, generic (digest), DENM (certificate)"""
    out = {}
    VCLOCK.advance(2000)
    out["cam_cert"] = capture(net, sender, "cam", b"\x07\xd1\x00\x00CAM-with-certificate")
    VCLOCK.advance(100)
    out["cam_digest"] = capture(net, sender, "cam", b"\x07\xd1\x00\x00CAM-with-digest")
    VCLOCK.advance(100)
    out["vam"] = capture(net, sender, "vam", b"\x07\xe2\x00\x00VAM")
    VCLOCK.advance(100)
    out["generic"] = capture(net, sender, "generic", b"\x08\x00\x00\x00generic-profile")
    VCLOCK.advance(100)
    out["denm"] = capture(net, sender, "denm", b"\x07\xd2\x00\x00DENM")
    sg = {k: sc.dec_data(v[4:])["content"][1]["signer"][0] for k, v in out.items()}
    assert sg["cam_cert"] == "certificate" and sg["cam_digest"] == "digest" and sg["denm"] == "certificate", sg
    return out


# ---------------------------------------------------------------------------
# mutations

def bit_flips(frame: bytes, positions):
    for p in positions:
        b = bytearray(frame)
        b[p // 8] ^= 0x80 >> (p % 8)
        yield ("flip", p), bytes(b)


def byte_mutations(ctx, frame: bytes, n_sub, n_trunc, n_ext):
    rng = ctx.rng
    for _ in range(n_sub):
        b = bytearray(frame)
        i = rng.randrange(len(b))
        v = rng.randrange(256)
        if v == b[i]:
            v ^= 0xFF
        b[i] = v
        yield ("subst", i, v), bytes(b)
    lens = list(range(len(frame))) if n_trunc is None else sorted(set(rng.randrange(len(frame)) for _ in range(n_trunc)))
    for n in lens:
        yield ("trunc", n), frame[:n]
    for k in range(n_ext):
        yield ("ext", k), frame + bytes(rng.randrange(256) for _ in range(1 + k % 7))


def restructure(frame: bytes, f):
    """decode the secured part, apply f to the dict, re-encode with the real OER coder"""
    d = sc.dec_data(frame[4:])
    f(d)
    return frame[:4] + sc.enc_data(d)


def structure_mutations(ctx, net: Net, frames: dict, sender, other):
    """field-level mutations of the decoded structure, re-encoded; attacker keys and chains"""
    rng = ctx.rng
    out = []
    at = sender["own"]
    for name, frame in frames.items():
        def sd(d):
            return d["content"][1]

        def add(tag, f):
            try:
                out.append(((name, tag), restructure(frame, f)))
            except Exception as e:  # noqa: BLE001  the coder refused the mutated structure
                ctx.dist["struct_not_encodable"] = ctx.dist.get("struct_not_encodable", 0) + 1

        def payload(d):
            c = sd(d)["tbsData"]["payload"]["data"]["content"]
            b = bytearray(c[1])
            b[rng.randrange(len(b))] ^= 1 << rng.randrange(8)
            sd(d)["tbsData"]["payload"]["data"]["content"] = ("unsecuredData", bytes(b))
        add("payload", payload)
        add("payload_longer", lambda d: sd(d)["tbsData"]["payload"]["data"].__setitem__(
            "content", ("unsecuredData", sd(d)["tbsData"]["payload"]["data"]["content"][1] + b"\x00")))
        for p in (36, 37, 638, 139, 99):
            add(f"psid{p}", lambda d, p=p: sd(d)["tbsData"]["headerInfo"].__setitem__("psid", p))
        add("gen+1", lambda d: sd(d)["tbsData"]["headerInfo"].__setitem__(
            "generationTime", sd(d)["tbsData"]["headerInfo"]["generationTime"] + 1))
        add("gen_absent", lambda d: sd(d)["tbsData"]["headerInfo"].pop("generationTime"))
        add("expiry_added", lambda d: sd(d)["tbsData"]["headerInfo"].__setitem__("expiryTime", 1))
        add("genloc_toggled", lambda d: (sd(d)["tbsData"]["headerInfo"].pop("generationLocation")
                                         if "generationLocation" in sd(d)["tbsData"]["headerInfo"] else
                                         sd(d)["tbsData"]["headerInfo"].__setitem__(
                                             "generationLocation", {"latitude": 1, "longitude": 2, "elevation": 3})))
        add("inline_added", lambda d: sd(d)["tbsData"]["headerInfo"].__setitem__("inlineP2pcdRequest", [b"\x01\x02\x03"]))
        # signer
        add("signer_digest_self", lambda d: sd(d).__setitem__("signer", ("digest", sc.hashed_id8(at[0]))))
        add("signer_cert_self", lambda d: sd(d).__setitem__("signer", ("certificate", [at[0]])))
        add("signer_digest_other", lambda d: sd(d).__setitem__("signer", ("digest", sc.hashed_id8(other["own"][0]))))
        add("signer_cert_other", lambda d: sd(d).__setitem__("signer", ("certificate", [other["own"][0]])))
        add("signer_cert_attacker", lambda d: sd(d).__setitem__("signer", ("certificate", [net.xat[0]])))
        add("signer_digest_attacker", lambda d: sd(d).__setitem__("signer", ("digest", sc.hashed_id8(net.xat[0]))))
        add("signer_digest_aa", lambda d: sd(d).__setitem__("signer", ("digest", sc.hashed_id8(net.aa[0]))))
        add("signer_cert_aa", lambda d: sd(d).__setitem__("signer", ("certificate", [net.aa[0]])))
        add("signer_two_certs", lambda d: sd(d).__setitem__("signer", ("certificate", [at[0], net.aa[0]])))
        add("signer_no_cert", lambda d: sd(d).__setitem__("signer", ("certificate", [])))
        add("signer_self", lambda d: sd(d).__setitem__("signer", ("self", None)))
        # signature r / s
        for fld in ("r", "s"):
            def sig(d, fld=fld):
                s = sd(d)["signature"][1]
                if fld == "r":
                    b = bytearray(s["rSig"][1])
                    b[rng.randrange(32)] ^= 1 << rng.randrange(8)
                    s["rSig"] = ("x-only", bytes(b))
                else:
                    b = bytearray(s["sSig"])
                    b[rng.randrange(32)] ^= 1 << rng.randrange(8)
                    s["sSig"] = bytes(b)
            add("sig_" + fld, sig)
        add("sig_zero", lambda d: sd(d)["signature"][1].update({"rSig": ("x-only", bytes(32)), "sSig": bytes(32)}))
        add("sig_r_compressed", lambda d: sd(d)["signature"][1].__setitem__(
            "rSig", ("compressed-y-0", sd(d)["signature"][1]["rSig"][1])))
        add("hash_id", lambda d: sd(d).__setitem__("hashId", "sha384"))
        # re-signed by the attacker: own ticket / ticket naming the genuine AA, digest or certificate
        for tag, tk in (("xat", net.xat), ("xat2", net.xat2)):
            for form in ("certificate", "digest"):
                def resign(d, tk=tk, form=form):
                    sd(d)["signature"] = net.pki.sign(tk[1], sc.enc_tbs_data(sd(d)["tbsData"]))
                    sd(d)["signer"] = ("certificate", [tk[0]]) if form == "certificate" else ("digest", sc.hashed_id8(tk[0]))
                add(f"resigned_{tag}_{form}", resign)
        # signed by the holder of the genuine ticket, but outside what the ticket authorises
        s_us, e_us = sc.validity_us(at[0])
        for tag, chg in (("holder_psid99", lambda hi: hi.__setitem__("psid", 99)),
                         ("holder_psid_none_of_ticket", lambda hi: hi.__setitem__("psid", 141)),
                         ("holder_gen_after_validity", lambda hi: hi.__setitem__("generationTime", e_us + 1)),
                         ("holder_gen_before_validity", lambda hi: hi.__setitem__("generationTime", s_us - 1)),
                         ("holder_gen_at_validity_end", lambda hi: hi.__setitem__("generationTime", e_us))):
            def holder(d, chg=chg):
                chg(sd(d)["tbsData"]["headerInfo"])
                sd(d)["signature"] = net.pki.sign(at[1], sc.enc_tbs_data(sd(d)["tbsData"]))
                net.genuine.append((sc.enc_tbs_data(sd(d)["tbsData"]), sc.sig_rs(sd(d)["signature"]), sc.hashed_id8(at[0])))
            add(tag, holder)
        # attacker key, genuine signer
        add("attacker_key_genuine_signer", lambda d: sd(d).__setitem__(
            "signature", net.pki.sign(net.xat[1], sc.enc_tbs_data(sd(d)["tbsData"]))))
        # certificate fields (when the frame carries the certificate)
        if sc.dec_data(frame[4:])["content"][1]["signer"][0] == "certificate":
            def cf(g):
                def f(d):
                    c = sd(d)["signer"][1][0]
                    g(c)
                return f
            add("cert_app_more", cf(lambda c: c["toBeSigned"]["appPermissions"].append({"psid": 999})))
            add("cert_app_less", cf(lambda c: c["toBeSigned"]["appPermissions"].pop()))
            add("cert_validity_start", cf(lambda c: c["toBeSigned"]["validityPeriod"].__setitem__(
                "start", c["toBeSigned"]["validityPeriod"]["start"] + 1)))
            add("cert_validity_duration", cf(lambda c: c["toBeSigned"]["validityPeriod"].__setitem__("duration", ("years", 50))))
            add("cert_key", cf(lambda c: c["toBeSigned"].__setitem__(
                "verifyKeyIndicator", ("verificationKey", net.pki.pub(net.xat[1])))))
            add("cert_issuer_digest", cf(lambda c: c.__setitem__("issuer", ("sha256AndDigest", sc.hashed_id8(net.xaa[0])))))
            add("cert_issuer_self", cf(lambda c: c.__setitem__("issuer", ("self", "sha256"))))
            add("cert_issuer_sha384", cf(lambda c: c.__setitem__("issuer", ("sha384AndDigest", c["issuer"][1]))))
            add("cert_id_name", cf(lambda c: c["toBeSigned"].__setitem__("id", ("name", "x"))))
            add("cert_sig_s", cf(lambda c: c["signature"][1].__setitem__(
                "sSig", bytes([c["signature"][1]["sSig"][0] ^ 1]) + c["signature"][1]["sSig"][1:])))
            add("cert_type_implicit", cf(lambda c: c.__setitem__("type", "implicit")))
            add("cert_issue_perm_added", cf(lambda c: c["toBeSigned"].__setitem__(
                "certIssuePermissions", [sc.issue_entry("all", 1)])))

            def key_and_resign(d):
                # attacker swaps the key in the certificate and signs the message with it (certificate signature stale)
                c = sd(d)["signer"][1][0]
                c["toBeSigned"]["verifyKeyIndicator"] = ("verificationKey", net.pki.pub(net.xat[1]))
                sd(d)["signature"] = net.pki.sign(net.xat[1], sc.enc_tbs_data(sd(d)["tbsData"]))
            add("cert_key_swapped_and_resigned", key_and_resign)
    # unsecured and odd next headers
    for name, frame in frames.items():
        plain = sc.dec_data(frame[4:])["content"][1]["tbsData"]["payload"]["data"]["content"][1]
        out.append(((name, "unsecured_payload_nh1"), bytes([0x11]) + frame[1:4] + plain))
        out.append(((name, "secured_bytes_nh1"), bytes([0x11]) + frame[1:]))
        out.append(((name, "nh_any"), bytes([0x10]) + frame[1:]))
        out.append(((name, "version2"), bytes([0x22]) + frame[1:]))
        out.append(((name, "unsecured_data_content"), frame[:4] + sc.enc_data(
            {"protocolVersion": 3, "content": ("unsecuredData", plain)})))
    return out


# ---------------------------------------------------------------------------
# audit round: frames built with the harness' own PKI (P2PCD header fields, every GeoNetworking packet type inside the
# secured payload, tickets in every Duration unit)

def secured_frame(net: Net, basic: bytes, ticket, signer_form: str, psid: int, gen: int, inner: bytes, extra=None,
                  sig_key=None, tamper=None, genuine=True) -> bytes:
    """basic header + EtsiTs103097Data signed here with the key of `ticket` (or sig_key); genuine=True records the signature as
    one an honest holder of the ticket made (the oracle's reference set)"""
    signer = ("certificate", [ticket[0]]) if signer_form == "certificate" else ("digest", sc.hashed_id8(ticket[0]))
    d = sc.signed_message(net.pki, ticket[1] if sig_key is None else sig_key, signer, psid, gen, inner, extra, tamper=tamper)
    frame = basic + sc.enc_data(d)
    if genuine and sig_key is None and tamper is None:
        sd = d["content"][1]
        net.genuine.append((sc.enc_tbs_data(sd["tbsData"]), sc.sig_rs(sd["signature"]), sc.hashed_id8(ticket[0])))
        net.genuine_frames.append(frame)
    return frame


def reqcert_sequences(ctx, net: Net, frames: dict, sender):
    """genuine CAMs of the sender (signed by the ticket holder) that carry P2PCD header fields - requestedCertificate with
    every kind of CA certificate a peer could answer with, inlineP2pcdRequest naming CA certificates - each followed by the
    attacker's packets: nothing learnt in-band may make a self-made chain acceptable"""
    net.extras()
    at = sender["own"]
    basic = frames["cam_cert"][:4]
    plain = sc.dec_data(frames["cam_cert"][4:])["content"][1]["tbsData"]["payload"]["data"]["content"][1]
    gen = sc.gen_time_us()
    resigned_aa = copy.deepcopy(net.aa[0])
    resigned_aa["signature"] = net.pki.sign(net.xroot[1], sc.enc_tbs_cert(resigned_aa["toBeSigned"]))
    offered = [("xroot", net.xroot[0]), ("xaa", net.xaa[0]), ("xaa_naming_root", net.xaa_r[0]), ("aa", net.aa[0]),
               ("root", net.root[0]), ("aa_resigned", resigned_aa), ("xat", net.xat[0]), ("xat_self", net.xat_self[0]),
               ("xaa_own_key_naming_root", net.xaa_own[0]), ("xaa_own_key_naming_aa", net.xaa_own2[0])]
    attack = []
    for tag, tk in (("xat_r", net.xat_r), ("xat", net.xat), ("xat_ar", net.xat_ar), ("xat_self", net.xat_self),
                    ("xat_own", net.xat_own), ("xat_own2", net.xat_own2)):
        for form in ("certificate", "digest"):
            attack.append(((f"attacker_{tag}_{form}", "reqcert"),
                           secured_frame(net, basic, tk, form, 36, gen, plain[:-4] + bytes(ctx.rng.randrange(256) for _ in range(4)),
                                         genuine=False)))
    out = []
    k = 0
    for name, c in offered:
        for form in ("certificate", "digest"):
            k += 1
            out.append(((f"holder_reqcert_{name}_{form}", "reqcert"),
                        secured_frame(net, basic, at, form, 36, gen + k, plain, {"requestedCertificate": c})))
            out += attack
    h3 = [sc.hashed_id8(c)[-3:] for c in (net.xroot[0], net.xaa[0], net.aa[0], net.root[0], at[0])]
    out.append((("holder_inline_ca_list", "reqcert"), secured_frame(net, basic, at, "certificate", 36, gen + 100, plain,
                                                                    {"inlineP2pcdRequest": h3})))
    out.append((("holder_inline_and_reqcert", "reqcert"), secured_frame(
        net, basic, at, "digest", 36, gen + 101, plain, {"inlineP2pcdRequest": h3[:2], "requestedCertificate": net.xroot[0]})))
    out += attack
    return out


def inner_type_sequences(ctx, net: Net, frames: dict, sender):
    """every GeoNetworking packet type inside the secured payload (beacon, SHB, TSB, GBC, GAC, GUC, LS request, LS reply),
    genuinely signed by the ticket holder and forged (attacker ticket, attacker key under the genuine signer, payload
    altered after signing, unsecuredData wrapper): the receive path before verification must not depend on the type"""
    from . import stack as stk
    rng = ctx.rng
    at = sender["own"]
    tst = VCLOCK.its_ms() % 2 ** 32
    src = (0, 5, 0x0A0B0C0D7001)
    de = ((0, 5, 0x0A0B0C0D7002), tst, 413800100, 21100100)
    lat, lon = 413800000, 21100000
    area = (lat, lon, 100, 100, 0)
    pl = b"\x07\xd1\x00\x00inner"
    inner = {"beacon": stk.beacon_bytes(src, tst, lat, lon), "shb": stk.shb_bytes(src, tst, lat, lon, pl),
             "tsb": stk.tsb_bytes(src, 11, tst, lat, lon, pl), "gbc": stk.gbc_bytes(src, 12, tst, lat, lon, area, pl),
             "gac": stk.gbc_bytes(src, 13, tst, lat, lon, area, pl, ht=3), "guc": stk.guc_bytes(src, 14, tst, lat, lon, de, pl),
             "ls_request": stk.ls_request_bytes(src, 15, tst, lat, lon, de[0]),
             "ls_reply": stk.ls_reply_bytes(src, 16, tst, lat, lon, de)}
    gen = sc.gen_time_us()
    out = []
    for k, (name, full) in enumerate(inner.items()):
        basic = bytes([0x12]) + full[1:4]
        body = full[4:]
        form = "certificate" if k % 2 == 0 else "digest"

        def flip(tbs, body=body):
            b = bytearray(body)
            b[rng.randrange(len(b))] ^= 1 << rng.randrange(8)
            tbs["payload"]["data"]["content"] = ("unsecuredData", bytes(b))
        out.append(((f"inner_{name}_attacker_ticket", "inner"), secured_frame(net, basic, net.xat, "certificate", 139, gen, body,
                                                                             genuine=False)))
        out.append(((f"inner_{name}_attacker_key", "inner"), secured_frame(net, basic, at, form, 139, gen + 1, body,
                                                                          sig_key=net.xat[1])))
        out.append(((f"inner_{name}_altered_after_signing", "inner"), secured_frame(net, basic, at, form, 139, gen + 2, body,
                                                                                   tamper=flip)))
        out.append(((f"inner_{name}_unsecured_wrapper", "inner"),
                    basic + sc.enc_data({"protocolVersion": 3, "content": ("unsecuredData", body)})))
        out.append(((f"inner_{name}_genuine", "inner"), secured_frame(net, basic, at, form, 139, gen + 3 + k, body)))
    return out


DURATIONS = [("microseconds", 65535), ("milliseconds", 60000), ("seconds", 5000), ("minutes", 90), ("hours", 5),
             ("sixtyHours", 2), ("years", 1), ("years", 19)]


def validity_unit_sequences(ctx, net: Net, frames: dict, durations):
    """tickets whose validity is given in each Duration unit of IEEE 1609.2; packets signed by the ticket holder one
    microsecond outside / exactly at both ends of the validity period, certificate form first (ticket learnt), then digest"""
    basic = frames["cam_cert"][:4]
    plain = sc.dec_data(frames["cam_cert"][4:])["content"][1]["tbsData"]["payload"]["data"]["content"][1]
    out = []
    for unit, amount in durations:
        tk = net.cert(net.aa, U, None, None, its_now_s(), (unit, amount))
        s_us, e_us = sc.validity_us(tk[0])
        for where, gen in (("before_start", s_us - 1), ("at_start", s_us), ("at_end", e_us), ("after_end", e_us + 1),
                           ("long_after_end", e_us + max(1, (e_us - s_us) // 300))):
            for form in ("certificate", "digest"):
                out.append(((f"unit_{unit}{amount}_{where}_{form}", "validity"),
                            secured_frame(net, basic, tk, form, 36, gen, plain)))
    return out


# ---------------------------------------------------------------------------
# issuer designation of a certificate (not covered by the certificate's signature): every certificate body under every
# issuer label, in every order

RELABEL_CAP = 64


def issuer_relabel_bodies(net: Net):
    """certificate bodies (toBeSigned + signature made with ONE key) and the issuer designations they are shown under. The
    `issuer` field of an IEEE 1609.2 certificate is outside the signed bytes, so a (body, signature) pair that verifies under
    SOME key - its own, the attacker's AA / root, the genuine AA - can be re-encoded under every designation; it may only
    be accepted under the one whose key made the signature (quantifier: certificate fields re-encoded x attacker keys and
    chains x every order). Fresh keys per run: nothing an earlier phase showed concerns these bodies."""
    net.extras()
    n = its_now_s()
    labels = {"self": ("self", "sha256"), "aa": ("sha256AndDigest", sc.hashed_id8(net.aa[0])),
              "root": ("sha256AndDigest", sc.hashed_id8(net.root[0])),
              "xaa": ("sha256AndDigest", sc.hashed_id8(net.xaa[0])),
              "xroot": ("sha256AndDigest", sc.hashed_id8(net.xroot[0]))}

    def body(signed_by, true_label, app=U, issue=None, name=None):
        k = net.pki.new_key()
        tbs = sc.make_tbs(name, app, issue, n - 1000, ("hours", 24), net.pki.pub(k))
        c = sc.make_cert(net.pki, tbs, labels[true_label], k if signed_by is None else signed_by[1])
        return {"cert": c, "key": k, "true": true_label}
    out = {"ownkey_ticket": body(None, "self"),              # 'ticket' signed with its own key
           "xaa_ticket": body(net.xaa, "xaa"),               # ticket of the attacker's AA
           "xroot_ticket": body(net.xroot, "xroot"),         # ticket issued by the attacker's root directly
           "genuine_ticket": body(net.aa, "aa")}             # ticket of an honest station, issued by the genuine AA
    # authority signed with its own key, and (per designation: the HashedId8 covers the issuer field) a ticket under it
    out["ownkey_authority"] = body(None, "self", app=[36], issue=[("all", 1)], name="relabel-aa")
    return labels, out


def relabelled(cert: dict, issuer_field) -> dict:
    d = copy.deepcopy(cert)
    d["issuer"] = issuer_field
    return d


def issuer_relabel_sequences(ctx, net: Net, frames: dict, sender):
    """-> {body name: {label: [(tag, frame), ...]}} and the true label of every body. Ticket bodies: message signed with
    the body's key, signer in certificate form and in digest form; under the true designation also the certificate-form
    message itself (same to-be-signed bytes, same signature) re-attributed to the sender's ticket. Authority body: as the only certificate of the signer, as
    second / second-of-three certificate of the signer with a ticket issued under that very designation, and offered in the
    signed requestedCertificate field of a holder-signed CAM followed by that ticket (certificate, digest)."""
    rng = ctx.rng
    labels, bodies = issuer_relabel_bodies(net)
    basic = frames["cam_cert"][:4]
    plain = sc.dec_data(frames["cam_cert"][4:])["content"][1]["tbsData"]["payload"]["data"]["content"][1]
    gen = sc.gen_time_us()
    cnt = [0]
    last = [None]

    def pl():
        return plain[:-4] + bytes(rng.randrange(256) for _ in range(4))

    def msg(key, signer, honest_ticket=None, extra=None):
        cnt[0] += 1
        d = sc.signed_message(net.pki, key, signer, 36, gen + cnt[0], pl(), extra)
        frame = basic + sc.enc_data(d)
        last[0] = d
        if honest_ticket is not None:
            sd = d["content"][1]
            net.genuine.append((sc.enc_tbs_data(sd["tbsData"]), sc.sig_rs(sd["signature"]), sc.hashed_id8(honest_ticket)))
            net.genuine_frames.append(frame)
        return frame

    def reattributed(d, signer):
        """the same to-be-signed bytes and signature under another signer designation (the signer field, too, is outside
        the signed bytes)"""
        d = copy.deepcopy(d)
        d["content"][1]["signer"] = signer
        return basic + sc.enc_data(d)
    out, true = {}, {}
    for bname, b in bodies.items():
        true[bname] = b["true"]
        out[bname] = {}
        for lab, field in labels.items():
            if bname == "ownkey_authority" and lab in ("xaa", "xroot"):
                continue
            c = relabelled(b["cert"], field)
            # under its true designation a ticket of a (second) PKI is an honest station's ticket where that PKI is trusted
            honest = c if (lab == b["true"] and lab != "self") else None
            fr = [((f"relabel_{bname}_as_{lab}_certificate", "relabel"), msg(b["key"], ("certificate", [c]), honest))]
            if bname != "ownkey_authority":
                if lab == b["true"]:
                    # what verified under this ticket, re-attributed to the sender's ticket (digest, certificate)
                    own = sender["own"][0]
                    fr.append(((f"relabel_{bname}_as_{lab}_message_reattributed_digest", "relabel"),
                               reattributed(last[0], ("digest", sc.hashed_id8(own)))))
                    fr.append(((f"relabel_{bname}_as_{lab}_message_reattributed_certificate", "relabel"),
                               reattributed(last[0], ("certificate", [own]))))
                fr.append(((f"relabel_{bname}_as_{lab}_digest", "relabel"),
                           msg(b["key"], ("digest", sc.hashed_id8(c)), honest)))
            else:
                kt = net.pki.new_key()
                tbs = sc.make_tbs(None, U, None, its_now_s() - 1000, ("hours", 24), net.pki.pub(kt))
                t = sc.make_cert(net.pki, tbs, ("sha256AndDigest", sc.hashed_id8(c)), b["key"])
                fr.append(((f"relabel_{bname}_as_{lab}_chain2", "relabel"), msg(kt, ("certificate", [t, c]))))
                fr.append(((f"relabel_{bname}_as_{lab}_chain3", "relabel"), msg(kt, ("certificate", [t, c, net.root[0]]))))
                fr.append(((f"relabel_{bname}_as_{lab}_requested", "relabel"),
                           msg(sender["own"][1], ("certificate", [sender["own"][0]]), sender["own"][0],
                               {"requestedCertificate": c})))
                fr.append(((f"relabel_{bname}_as_{lab}_ticket_certificate", "relabel"), msg(kt, ("certificate", [t]))))
                fr.append(((f"relabel_{bname}_as_{lab}_ticket_digest", "relabel"), msg(kt, ("digest", sc.hashed_id8(t)))))
            out[bname][lab] = fr
    return out, true


def relabel_orders(ctx, by_label: dict, true_label: str, n_random: int):
    """orders of one body's frames: every other designation BEFORE the true one and again after it (nothing learnt while
    the body verified under its own designation may carry over); the true one first; seeded random interleavings of all"""
    others = [f for lab, fr in by_label.items() if lab != true_label for f in fr]
    own = list(by_label[true_label])
    yield "others_true_others", others + own + others
    yield "true_others_true", own + others + own
    for k in range(n_random):
        seq = others + own + others + own
        ctx.rng.shuffle(seq)
        yield f"random{k}", seq


# ---------------------------------------------------------------------------
# audit round: real stations exchanging messages (peer-to-peer certificate distribution across two PKI domains)

EXCHANGE_SCRIPT = [("P", "cam", 100), ("X", "cam", 100), ("V", "cam", 100), ("P", "cam", 100), ("X", "cam", 1500),
                   ("X", "cam", 100), ("X", "generic", 50), ("X", "denm", 50), ("V", "cam", 300), ("P", "cam", 100),
                   ("X", "cam", 200), ("X", "vam", 100), ("P", "vam", 100), ("V", "generic", 100), ("P", "denm", 100)]


def p2pcd_exchange(ctx, net: Net, notes, mid, direct: bool, p_has_xaa: bool, script, tag):
    """V: victim, configured with the genuine root and AA, own ticket. P: genuine peer (ticket under the genuine AA) whose
    trust store ALSO holds the second root (and possibly its AA) - a station in two PKI domains. X: attacker station holding
    a ticket issued directly by the self-made second root (direct) or by its AA. All three are real Routers with real
    Sign/VerifyServices; only messages are exchanged. Nothing X signs may be delivered at V, whatever V learnt from P."""
    net.extras()
    V = net.station(mid + 1, own=net.ticket())
    V["known_desc"] = "root+AA"
    p_aas = [(net.aa, net.root)] + ([(net.xaa, net.xroot)] if p_has_xaa else [])
    P = net.station(mid + 2, own=net.ticket(), roots=[net.root, net.xroot], aas=p_aas)
    P["known_desc"] = "two PKI domains"
    xown, xiss = (net.xat_r, net.xroot) if direct else (net.xat, net.xaa)
    X = net.station(mid + 3, own=xown, roots=[net.xroot], aas=[(net.xaa, net.xroot)], own_issuer=xiss)
    sta = {"V": V, "P": P, "X": X}
    tr = {"V": RxTrace(ctx, net, V, "exchange:V", notes), "P": RxTrace(ctx, net, P, "exchange:P", notes)}
    rng = ctx.rng
    for k, (who, what, dt) in enumerate(script):
        VCLOCK.advance(dt)
        data = bytes([0x07, 0xD1, 0, 0]) + bytes(rng.randrange(256) for _ in range(rng.choice([0, 1, 7, 30, 200])))
        try:
            frame = capture(net, sta[who], what, data)
        except Exception as e:  # noqa: BLE001  a station could not sign (reported by C05); the exchange goes on
            ctx.dist["exchange_send_failed:" + type(e).__name__] = ctx.dist.get("exchange_send_failed:" + type(e).__name__, 0) + 1
            continue
        hi = sc.dec_data(frame[4:])["content"][1]["tbsData"]["headerInfo"]
        for fld in ("requestedCertificate", "inlineP2pcdRequest"):
            if fld in hi:
                ctx.dist[f"exchange_sent_{who}_{fld}"] = ctx.dist.get(f"exchange_sent_{who}_{fld}", 0) + 1
        if who in tr:
            tr[who].sent(what, frame, VCLOCK.time())
        for name, t in tr.items():
            if name != who:
                t.feed((f"{who}_{what}", tag, k), frame)
    for t in tr.values():
        t.finish()
    ctx.dist["exchange_V_delivered"] = ctx.dist.get("exchange_V_delivered", 0) + len(V["got"])
    return V, P, X


def random_script(rng, n):
    out = []
    for _ in range(n):
        who = rng.choice("VVPPXXX")
        what = rng.choice(["cam", "cam", "cam", "cam", "vam", "generic", "denm"])
        out.append((who, what, rng.choice([50, 100, 300, 700, 1100])))
    return out


# ---------------------------------------------------------------------------
# feeding frames to a receiver; oracle; model

def feed(rcv, frame: bytes):
    n_e, n_g = len(rcv["entered"]), len(rcv["got"])
    exc = None
    with contextlib.redirect_stdout(io.StringIO()):
        try:
            rcv["router"].gn_data_indicate(frame)
        except Exception as e:  # noqa: BLE001
            exc = type(e).__name__
    entered = rcv["entered"][n_e:]
    inds = rcv["got"][n_g:]
    if entered:
        return ("deliver", entered[0], inds, exc)
    if inds:
        return ("deliver", None, inds, exc)
    return ("crash", None, [], exc) if exc else ("drop", None, [], None)


def oracle(ctx, net: Net, rcv, frame: bytes, obs, inp, link_cache, notes):
    """independent reading of C03 on what the receiver handed to process_common_header / the upper layer"""
    kind, plain, inds, _ = obs
    if kind != "deliver":
        return
    if not rcv["enabled"]:
        return   # security disabled: the property says nothing
    def fail(cls, detail, exp=None, got=None):
        ctx.property_failure(cls, inp, detail, exp, got)
    if len(frame) < 4 or (frame[0] & 0x0F) != 2:
        return fail("deliver_unsecured", "a frame whose next header is not SECURED_PACKET reached the upper layers")
    try:
        d = sc.dec_data(frame[4:])
        sd = d["content"][1]
        assert d["content"][0] == "signedData"
        tbs = sd["tbsData"]
        data = sc.enc_tbs_data(tbs)
    except Exception:  # noqa: BLE001
        return fail("deliver_undecodable", "a frame that does not decode as signed data reached the upper layers")
    sg = sd["signer"]
    if sg[0] == "digest":
        obj = rcv["st"].lib.known_authorization_tickets.get(sg[1])
        ticket = None if obj is None else obj.certificate
    elif sg[0] == "certificate" and len(sg[1]) == 1:
        ticket = sg[1][0]
    else:
        ticket = None
    if ticket is None:
        return fail("deliver_unknown_signer", "delivered although no authorization ticket is designated by the signer field")
    chained = False
    why = "no trusted issuer with that digest"
    for ca in rcv.get("trusted", net.trusted):
        if sc.hashed_id8(ca) == (ticket["issuer"][1] if ticket["issuer"][0] == "sha256AndDigest" else None):
            chained, why = sc.link_ok(ticket, ca, link_cache)
            if chained:
                break
    if not chained:
        return fail("deliver_unchained_signer", "delivered under a ticket that is not chained to the configured root: " + why)
    hi = tbs["headerInfo"]
    if hi["psid"] not in (sc.app_psids(ticket) or []):
        fail("deliver_psid_not_permitted", "delivered although the ITS-AID is outside the ticket's permissions")
    s, e = sc.validity_us(ticket)
    g = hi.get("generationTime")
    if g is None or not (s <= g <= e):
        fail("deliver_outside_validity", "delivered although generated outside the ticket's validity", [s, e], g)
    xy, rs = sc.key_xy(ticket), sc.sig_rs(sd["signature"])
    if xy is None or rs is None or not sc.ecdsa_ok(xy, data, rs):
        return fail("deliver_bad_signature", "delivered although the signature does not verify over the to-be-signed "
                    "bytes under the ticket's key")
    pl = tbs["payload"]["data"]["content"][1]
    if plain is not None and bytes(plain) != bytes(pl):
        fail("deliver_payload_differs", "bytes handed to process_common_header differ from the signed payload",
             bytes(pl).hex(), bytes(plain).hex())
    for ind in inds:
        if not bytes(pl).endswith(bytes(ind.data)):
            fail("deliver_payload_differs", "indicated data is not the tail of the signed payload", bytes(pl).hex(),
                 bytes(ind.data).hex())
    # every delivery must be one of the honest stations' signatures: same signed bytes, signature, signer
    if net.genuine is None:
        return
    if (data, rs, sc.hashed_id8(ticket)) not in net.genuine:
        fail("deliver_altered", "delivered frame carries to-be-signed bytes / signature / signer that no honest station produced")
    elif isinstance(inp.get("mutation"), (list, tuple)) and frame not in net.genuine_frames:
        key = inp["mutation"][0] + ":" + where_differs(net, frame)
        notes[key] = notes.get(key, 0) + 1


def where_differs(net: Net, frame: bytes) -> str:
    """which part of a delivered, non-genuine frame differs from the genuine frame with the same signed bytes"""
    try:
        sd = sc.dec_data(frame[4:])["content"][1]
        data = sc.enc_tbs_data(sd["tbsData"])
    except Exception:  # noqa: BLE001
        return "undecodable"
    for g in net.genuine_frames:
        gd = sc.dec_data(g[4:])
        if sc.enc_tbs_data(gd["content"][1]["tbsData"]) != data:
            continue
        out = []
        if frame[:4] != g[:4]:
            out.append("basic_header")
        d = sc.dec_data(frame[4:])
        if d == gd:
            if frame[4:] != g[4:]:
                out.append("trailing_octets" if frame[4:4 + len(g) - 4] == g[4:] else "encoding_redundancy")
        else:
            if d["protocolVersion"] != gd["protocolVersion"]:
                out.append("outer_protocolVersion")
            if d["content"][1].get("hashId") != gd["content"][1].get("hashId"):
                out.append("hashId")
            if d["content"][1]["signer"] != gd["content"][1]["signer"]:
                out.append("signer_representation")
            if d["content"][1]["signature"] != gd["content"][1]["signature"]:
                out.append("signature_encoding")
        return "+".join(out) or "identical"
    return "no_genuine_counterpart"


def check_anchors(ctx, rcv, inp):
    """'a root certificate configured as trusted': whatever was received, the trusted roots of the station are the ones the
    operator configured (C03_frames_keep_roots). The reference is the harness' own record, not the library's dictionary."""
    have = sorted(rcv["st"].lib.known_root_certificates.keys())
    if have != rcv["configured_roots"]:
        ctx.property_failure("trust_anchor_changed", inp, "the set of trusted root certificates changed while frames were "
                             "received: a trust anchor was learnt (or lost) in-band",
                             [h.hex() for h in rcv["configured_roots"]], [h.hex() for h in have])
        rcv["configured_roots"] = have      # report once


class RxTrace:
    """one station under observation: frames it receives (oracle on every frame) and messages it sends itself; the whole
    history is replayed on the model at the end"""

    def __init__(self, ctx, net: Net, rcv, kind, notes, compare_model=True, full_prefix=0):
        """full_prefix = n > 0: the replay prefix of a failure holds EVERY frame this station received before (at most n), not
        only those that were delivered or changed the store - for sequences whose point is that a rejected frame must leave
        nothing behind"""
        self.ctx, self.net, self.rcv, self.kind, self.notes = ctx, net, rcv, kind, notes
        self.full_prefix = full_prefix
        self.link_cache = {}
        self.flat_ops = [list(o) for o in rcv["setup"]]
        self.n_setup = len(self.flat_ops)
        self.impl, self.msgs, self.exotic, self.prefix = [], [], [], []
        self.compare_model = compare_model and rcv.get("with_sign", True)
        self.last = None

    def feed(self, tag, frame: bytes):
        ctx, rcv, reg, kind = self.ctx, self.rcv, self.rcv["reg"], self.kind
        lib = rcv["st"].lib
        inp = {"receiver": {"enabled": rcv["enabled"], "with_vs": rcv["with_vs"], "known": rcv.get("known_desc", ""),
                            "with_sign": rcv.get("with_sign", True), "domains": rcv.get("domains", 1)},
               "mutation": tag, "frame": frame.hex(), "kind": kind, "clock_ms": VCLOCK.ms, "prefix": list(self.prefix)}
        sizes = (len(lib.known_authorization_tickets), len(lib.known_authorization_authorities),
                 sorted(lib.known_root_certificates.keys()))
        obs = feed(rcv, frame)
        if self.full_prefix:
            if len(self.prefix) < self.full_prefix:
                self.prefix.append(frame.hex())
        elif (obs[0] == "deliver" or sizes != (len(lib.known_authorization_tickets), len(lib.known_authorization_authorities),
                                               sorted(lib.known_root_certificates.keys()))) and len(self.prefix) < 40:
            self.prefix.append(frame.hex())
        oracle(ctx, self.net, rcv, frame, obs, inp, self.link_cache, self.notes)
        if rcv["enabled"]:
            check_anchors(ctx, rcv, inp)
        ctx.count(1, f"{kind}:{tag[0] if isinstance(tag, (list, tuple)) else tag}")
        # abstraction for the model
        reg.exotic = False
        vo = int(len(frame) >= 4 and (frame[0] >> 4) == 1)
        nh = frame[0] & 0x0F if len(frame) >= 4 else 0
        body = reg.payload_id(frame[4:]) if len(frame) > 4 else 0
        m = reg.msg(frame[4:]) if (len(frame) >= 4 and nh == 2) else reg.msg(b"")
        self.msgs.append(m)
        self.exotic.append(reg.exotic or len(frame) < 4)
        self.flat_ops.append([11, int(rcv["enabled"]), int(rcv["with_vs"]), vo, nh, body] + reg.flat_msg(m))
        if obs[0] == "deliver":
            pid = reg.payload_id(obs[1]) if isinstance(obs[1], (bytes, bytearray)) else -1
            self.impl.append((["deliver", pid], inp))
            ctx.nontriv(("deliver", frame.hex()[:96], kind))
        else:
            self.impl.append(([obs[0]], inp))
            if m["ok"]:
                ctx.nontriv(("reject", frame.hex()[8:104]))
        ctx.dist[f"outcome:{obs[0]}"] = ctx.dist.get(f"outcome:{obs[0]}", 0) + 1
        self.last = (tag, self.impl[-1][0])
        return obs

    def sent(self, what: str, frame: bytes, now_f: float):
        """the observed station has just emitted `frame` itself (kind `what`): the model performs the same signing operation,
        so that its P2PCD state (inclusion timer, request flag, pending CA answers) stays in step"""
        reg = self.rcv["reg"]
        sd = sc.dec_data(frame[4:])["content"][1]
        hi = sd["tbsData"]["headerInfo"]
        pid = reg.payload_id(sd["tbsData"]["payload"]["data"]["content"][1])
        gen = hi.get("generationTime", 0)
        if what in ("cam", "vam"):
            self.flat_ops.append([8, sc.ticks_of(now_f), hi["psid"], gen, pid])
        elif what == "denm":
            self.flat_ops.append([9, hi["psid"], gen, pid])
        else:
            self.flat_ops.append([10, hi["psid"], gen, pid])
        self.exotic.append(False)
        self.impl.append((["sent"], {"kind": self.kind, "sent": what}))
        self.ctx.count(1, f"{self.kind}:own_{what}")

    def finish(self):
        ctx, rcv, reg = self.ctx, self.rcv, self.rcv["reg"]
        impl = self.impl
        if self.compare_model and ctx.model is not None and ctx.model.available:
            args = reg.header(self.msgs) + [len(self.flat_ops)]
            for f in self.flat_ops:
                args += f
            mod = sc.parse_history(ctx.model.call(1, args))[self.n_setup:]
            for (mr, _ms), (ir, inp), ex in zip(mod, impl, self.exotic):
                if ir == ["sent"]:
                    if mr[0] != "msg":
                        ctx.mismatch("own transmission of the observed station = Sec.sign_*", inp, mr, ir)
                        break
                    continue
                if mr == ir:
                    continue
                if ex and ir[0] != "deliver" and mr[0] != "deliver":
                    ctx.dist["exotic_crash_vs_drop"] = ctx.dist.get("exotic_crash_vs_drop", 0) + 1
                    continue
                ctx.mismatch("Router receive path (security) = Sec.rx", inp, mr, ir)
                break
            dump = rcv["st"].dump()
            if mod and mod[-1][1] != dump:
                ctx.mismatch("store / P2PCD state after the frame sequence = Sec.run", {"kind": self.kind, "frames": len(impl)},
                             mod[-1][1], dump)
        if len(ctx.samples) < 6 and impl and self.last is not None:
            ctx.sample({"kind": self.kind, "frames": len(impl), "last_mutation": str(self.last[0]), "last_outcome": self.last[1]})
        return [r for r, _ in impl]


def run_sequence(ctx, net: Net, rcv, seq, kind, notes, full_prefix=0):
    """seq: list of (mutation tag, frame bytes); feeds them in order; compares with the model"""
    tr = RxTrace(ctx, net, rcv, kind, notes, full_prefix=full_prefix)
    for tag, frame in seq:
        tr.feed(tag, frame)
    return tr.finish()


def two_domain_station(net: Net, mid, **kw):
    """a station whose operator configured two PKI domains (the genuine one and the second root with its AA): what the second
    domain issued is legitimately accepted there - under the designation whose key signed it, and under no other"""
    r = net.station(mid, roots=[net.root, net.xroot], aas=[(net.aa, net.root), (net.xaa, net.xroot)], **kw)
    r["known_desc"] = "two PKI domains"
    r["domains"] = 2
    return r


def receivers(net: Net, sender, base_mid, more=False):
    """the receiver configurations of the property; more: also a station whose VerifyService has no SignService attached
    (no P2PCD notifications; oracle only, the model always notifies)"""
    out = []
    r = net.station(base_mid + 1)
    r["known_desc"] = "root+AA"
    out.append(r)
    r = net.station(base_mid + 2, known=[sender["own"]])
    r["known_desc"] = "root+AA+sender ticket"
    out.append(r)
    if more:
        r = net.station(base_mid + 3, with_sign_service=False)
        r["known_desc"] = "root+AA"
        out.append(r)
    return out


def run(ctx):
    ctx.rule = ("genuine secured packets (CAM with certificate, CAM with digest, VAM, generic profile, DENM) captured from a "
                "real Router with itsGnSecurity enabled and a real SignService; each is mutated (single-bit flips: seeded 10 % "
                "in quick, all in thorough; byte substitutions, truncations, extensions; ~60 field-level mutations of the "
                "decoded structure re-encoded with the OER coder; attacker keys and attacker-built root/AA/AT chains; "
                "unsecured variants) and fed, in mutation order and in seeded random orders mixed with genuine packets, to "
                "real receiving Routers that know root+AA only or also the sender's ticket, with security enabled / "
                "disabled / without a VerifyService. Oracle: anything reaching process_common_header or the indication "
                "callback must verify independently (ecdsa/hashlib) under a ticket chained to the configured root and be "
                "one of the honest signatures. Every certificate body (to-be-signed bytes + signature made with its own key / "
                "the attacker's AA / the attacker's root / the genuine AA; ticket and authority profile) is also shown under "
                "every issuer designation (self, genuine AA, genuine root, attacker AA, attacker root) - the field is outside "
                "the certificate's signed bytes - as certificate and digest signer, as 2nd of 2 / 3 certificates and as "
                "requestedCertificate, the other designations before and after the one whose key signed it and in seeded "
                "random orders, also at a station configured with both PKI domains. Non-trivial = frame decoded as signed "
                "data (rejected) or delivered; distinct by frame bytes")
    sc.coder()
    quick = ctx.tier == "quick"
    notes = {}
    net = Net(ctx.rng)
    sender = net.station(0x0A0B0C0D0E01, own=net.ticket())
    other = net.station(0x0A0B0C0D0E09, own=net.ticket())
    frames = genuine_packets(net, sender)
    other_frames = genuine_packets(net, other)
    for f in sorted(_corpus()):
        rec = json.load(open(f))
        n0 = len(ctx.failures)
        outcomes = replay_input(ctx, rec, "corpus")
        if rec.get("class") and outcomes and outcomes[-1][0] == "deliver" and len(ctx.failures) == n0:
            ctx.property_failure(rec["class"], rec["input"], rec.get("what", "") + " [corpus frame that must not be delivered]")
    # 1. bit flips, byte substitutions, truncations, extensions of every genuine packet
    mid = 0x0A0B0C0D1000
    for name, frame in frames.items():
        nbits = len(frame) * 8
        pos = list(range(nbits))
        if quick:
            pos = sorted(ctx.rng.sample(pos, max(1, nbits // 10)))
        seq = [((m[0], name) + tuple(m[1:]), f) for m, f in bit_flips(frame, pos)]
        seq += [((m[0], name) + tuple(m[1:]), f) for m, f in
                byte_mutations(ctx, frame, 40 if quick else 400, 12 if quick else None, 6 if quick else 40)]
        for rcv in receivers(net, sender, mid):
            run_sequence(ctx, net, rcv, seq + [(("genuine", name), frame)], "bytes:" + name, notes)
            mid += 16
    # 2. structure-level mutations, attacker keys and chains, unsecured variants
    smut = structure_mutations(ctx, net, frames, sender, other)
    for rcv in receivers(net, sender, mid):
        run_sequence(ctx, net, rcv, [((m[1], m[0]), f) for m, f in smut], "structure", notes)
        mid += 16
    # 2b. audit round: P2PCD header fields carrying CA certificates, every packet type inside the secured payload, tickets
    #     in every Duration unit
    audit = reqcert_sequences(ctx, net, frames, sender)
    audit_inner = inner_type_sequences(ctx, net, frames, sender)
    audit_units = validity_unit_sequences(ctx, net, frames, DURATIONS if not quick else
                                          [DURATIONS[i] for i in sorted(ctx.rng.sample(range(len(DURATIONS)), 4))])
    for rcv in receivers(net, sender, mid, more=True):
        run_sequence(ctx, net, rcv, audit, "reqcert", notes)
        mid += 16
    for rcv in receivers(net, sender, mid, more=True):
        run_sequence(ctx, net, rcv, audit_inner + audit_units, "inner+validity", notes)
        mid += 16
    # 2b'. every certificate body under every issuer designation, in every order (replay prefix = the whole sequence)
    relabel, relabel_true = issuer_relabel_sequences(ctx, net, frames, sender)
    for bname, by_label in relabel.items():
        orders = list(relabel_orders(ctx, by_label, relabel_true[bname], 1 if quick else 4))
        rcvs = receivers(net, sender, mid, more=True) + [two_domain_station(net, mid + 4)]
        mid += 16
        if quick:
            # root+AA: others first; root+AA+sender ticket: true first; no SignService: random; two domains: true first
            plan = [(rcvs[0], orders[0]), (rcvs[1], orders[1]), (rcvs[2], orders[2]), (rcvs[3], orders[1])]
        else:
            plan = []
            for o in orders:
                rs = receivers(net, sender, mid, more=True) + [two_domain_station(net, mid + 4)]
                mid += 16
                plan += [(r, o) for r in rs]
        cut = len(f"relabel_{bname}_")
        for rcv, (oname, seq) in plan:
            run_sequence(ctx, net, rcv, [((m[0][cut:], bname, oname), f) for m, f in seq], f"relabel:{bname}", notes,
                         full_prefix=RELABEL_CAP)
    # 2c. audit round: real stations in two PKI domains exchanging messages (trust anchors must not be learnt in-band)
    for direct, p_has_xaa in ((True, False), (False, True), (True, True), (False, False)):
        p2pcd_exchange(ctx, net, notes, mid, direct, p_has_xaa, EXCHANGE_SCRIPT, f"scripted/{int(direct)}{int(p_has_xaa)}")
        mid += 16
    for k in range(1 if quick else 12):
        p2pcd_exchange(ctx, net, notes, mid, ctx.rng.random() < 0.5, ctx.rng.random() < 0.5,
                       random_script(ctx.rng, 30 if quick else 60), f"random/{k}")
        mid += 16
    # 3. arbitrary orders of genuine and forged packets
    pool = [(("genuine", k), v) for k, v in frames.items()] * 3 + [(("genuine_other", k), v) for k, v in other_frames.items()]
    forged = [((m[1], m[0]), f) for m, f in smut] + [((m[1], m[0]), f) for m, f in audit + audit_inner + audit_units]
    forged += [((m[1], m[0]), f) for by_label in relabel.values() for fr in by_label.values() for m, f in fr]
    for it in range(6 if quick else 60):
        seq = []
        for _ in range(60 if quick else 120):
            if ctx.rng.random() < 0.35:
                seq.append(ctx.rng.choice(pool))
            elif ctx.rng.random() < 0.8:
                seq.append(ctx.rng.choice(forged))
            else:
                base = ctx.rng.choice(list(frames.values()))
                p = ctx.rng.randrange(len(base) * 8)
                seq.append(next(bit_flips(base, [p])))
        rcvs = receivers(net, sender, mid)
        mid += 16
        if it % 3 == 1:
            rcvs = [net.station(mid, enabled=False), net.station(mid + 1, with_vs=False)]
            mid += 16
        for rcv in rcvs:
            run_sequence(ctx, net, rcv, seq, "order", notes)
    if notes:
        ctx.notes.append("delivered although the frame differs from the genuine frame outside signed content / signer "
                         "identity / signature (same to-be-signed bytes, signature and ticket): " +
                         json.dumps(notes, sort_keys=True))
    ctx.exhaustive = False


def _corpus():
    import glob
    import os
    return glob.glob(os.path.join(common.VERIF, "corpus", "C03", "*.json"))


def replay_input(ctx, rec, kind):
    """rec: {"seed", "input": {"frame", "prefix", "receiver", "clock_ms", "mutation"}}: rebuilds the (seed-derived) PKI and a
    receiver of the recorded configuration, feeds the recorded prefix and then the frame"""
    import random
    inp = rec["input"]
    saved = VCLOCK.ms
    VCLOCK.set_ms(1_700_000_000_000)
    net = Net(random.Random(rec["seed"]))
    sender_ticket = net.ticket()
    net.ticket()
    net.genuine = None
    VCLOCK.set_ms(inp["clock_ms"])
    r = inp["receiver"]
    if r.get("domains", 1) == 2:
        rcv = two_domain_station(net, 0x0A0B0C0DAA01, enabled=r["enabled"], with_vs=r["with_vs"],
                                 with_sign_service=r.get("with_sign", True))
    else:
        rcv = net.station(0x0A0B0C0DAA01, known=[sender_ticket] if "ticket" in r.get("known", "") else (),
                          enabled=r["enabled"], with_vs=r["with_vs"], with_sign_service=r.get("with_sign", True))
        rcv["known_desc"] = r.get("known", "")
    seq = [(("prefix", i), bytes.fromhex(h)) for i, h in enumerate(inp.get("prefix", []))]
    seq.append((tuple(inp["mutation"]) if isinstance(inp["mutation"], list) else inp["mutation"], bytes.fromhex(inp["frame"])))
    outcomes = run_sequence(ctx, net, rcv, seq, kind, {})
    VCLOCK.set_ms(max(saved, VCLOCK.ms))
    return outcomes


def replay(ctx, data):
    common.use_repo_sources()
    f = data.get("failure") or (data.get("broken") or [{}])[-1].get("first")
    print(json.dumps({k: (v if k != "input" else {kk: vv for kk, vv in v.items() if kk not in ("frame", "prefix")})
                      for k, v in f.items()}, default=str)[:1500])
    ctx.model = common.Model(MODEL_NAME)
    if not f.get("input") or "frame" not in f["input"]:
        print("NOT REPRODUCED (no frame recorded)")
        return 0
    outcomes = replay_input(ctx, {"seed": data.get("seed", ctx.seed), "input": f["input"]}, "replay")
    if f.get("kind") == "property_failure" and f.get("class", "").startswith("deliver_") and outcomes and \
            outcomes[-1][0] == "deliver" and not ctx.failures:
        # the recorded frame must not be delivered at all; it was (the honest-signature set is not available in replay)
        ctx.property_failure(f["class"], f["input"], f["detail"] + " [replay: the recorded frame is delivered again]")
    bad = ctx.failures or ctx.mismatches or ctx.known_hits
    print("REPRODUCED" if bad else "NOT REPRODUCED")
    for r in (ctx.failures + ctx.mismatches + list(ctx.known_hits.values()))[:3]:
        print(json.dumps({k: (v if k != "input" else {kk: vv for kk, vv in v.items() if kk not in ("frame", "prefix")})
                          for k, v in r.items()}, default=str)[:1500])
    return 1 if bad else 0
