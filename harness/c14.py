"""C14 - LDM subscriptions notify exactly the matching data, at the requested cadence."""
from __future__ import annotations

import json

from . import common
from . import c13
from .ldm_common import (LdmUnderTest, Interner, Reader, T0_UTC_MS, its_ms, make_location, location_dict, cjson,
                         type_names, shrink_ops)
from .stack import VCLOCK

PROP = "C14"
COQ_TARGETS = ["Properties/C14", "Extract/ExC14"]
MODEL_ML = "c14_model.ml"
MODEL_NAME = "c14"
TRUSTED_BASE = [
    "Coq 8.16.1 kernel (coqc); vm_compute only in the example; no native_compute",
    "extraction (ExtrOcamlBasic only; Z/positive stay Coq datatypes) + ocaml/driver_body.ml + OCaml 4.13.1",
    "hand-written model coq/theories/Model/LdmSub.v (on top of Model/LdmFilter.v) and, for consumers that act from inside "
    "their callbacks, the small-step machine coq/theories/Model/LdmSubReact.v, tied to the code by differential "
    "execution of operation sequences (this harness)",
    "Python harness harness/c14.py, harness/c13.py (specification of a request), harness/ldm_common.py, harness/stack.py",
]
ASSUMPTIONS = [
    "the model is tied to IF.LDM.4 subscribe / unsubscribe / (de)register and LDMService(Reactive).attend_subscriptions of a "
    "Factory-built LDM (Dictionary back-end, reactive service) by execution on the same operation sequences, not by proof",
    "every subscription is made with its own callback object; time.monotonic of the reactive service is the virtual clock "
    "as an exact rational",
    "consumers that act on their notifications (seed C14-11): from inside the j-th invocation of its callback a consumer "
    "performs one scripted operation (add, attend, subscribe, unsubscribe, register, deregister) on the same LDM, in the "
    "thread that delivers the notification (re-entrant, sequential; concurrent attendances are C16); the clock does not "
    "move inside an operation; an exception raised by such a nested operation is caught by the consumer (recorded, "
    "reported as exception_escaped) and callbacks themselves do not raise",
    "an attendance nested in another one is an attendance of its own: it owes every subscription that is due when it begins "
    "a notification unless that subscription is notified (by an attendance nested deeper) or cancelled before it ends; an "
    "addition made from inside a callback may attend (the code does) or leave the data to the attendance under way - the "
    "oracle checks the notifications it makes but demands none (the model comparison pins what the code does)",
    "stored objects stay valid and lie outside the maintenance zone during a sequence (expiry is C12); a data provider is registered",
    "when no object matches, no notification is expected (also for multiplicity 0); the first notification of a subscription is "
    "required once the interval has passed since the subscription was made and tolerated earlier",
    "the periodic attendance of LDMServiceThreads is represented by explicit calls of attend_subscriptions() and, in the cases "
    "of the audit round, by the real loop subscriptions_service() run round by round: threading.Thread / Event are replaced "
    "inside ldm_service_threads, the wait of a round advances the virtual clock by the timeout the loop asks for; a wait of more "
    "than one second between two attendances is reported (the notification interval has one-second resolution); real threads "
    "are C16",
    "cases on the threaded service and cases that update stored objects are checked by the property oracle only (the model "
    "describes the reactive service and has no update operation)",
    "the subscription identifier is an input of the model: the harness gives two requests one key exactly when the code does "
    "(hash(request): equal requests; requests that differ in a reference value -1 / -2, known finding KF-C14-1)",
]
EXPLANATION = ("theorems over all operation sequences: each attendance invokes exactly the callbacks of the due subscriptions "
               "(registered consumer, matching data = C13 query, multiplicity, interval at one-second resolution) with exactly "
               "that data and in subscription order; no callback after unsubscription or deregistration (even after a "
               "re-registration); other subscriptions untouched; invalid requests refused with the code of the first failing "
               "check; for histories in which consumers act from inside their callbacks (small-step machine, attendances "
               "nest): consecutive notifications of a subscription are at least its interval apart, the notification is "
               "recorded before the callback runs, a cancelled subscription is never invoked again - also not by an attendance "
               "under way that took its snapshot of the list before the cancellation (it looks the subscription up in the list "
               "when its turn comes) -, and with passive consumers the machine is the step model; "
               "correspondence: responses, callback invocations with their arguments, the subscription list with its "
               "last-notified times, the consumer registry and the store compared after every operation")

CFG = {"lat": 0, "lon": 0, "alt": 0, "rd": 4}
KEYS = Interner()
EXTRA = {"smc": 1, "smo": 2, "smic": 3, "ac": 0, "radius": 10, "rd": 1, "td": 0}
NT_MAX = 4398046511103
# the operations a consumer may also perform from inside a notification callback (seed C14-11)
NESTABLE = ("reg_cons", "dereg_cons", "subscribe", "unsubscribe", "add", "attend")


def message(o):
    name = type_names()[o["typ"]]
    body = {"generationDeltaTime": o["gdt"], "speed": o["speed"]}
    if o.get("level") is not None:
        body["extra"] = {"level": o["level"]}
    return {"header": {"protocolVersion": 2, "messageId": o["typ"], "stationId": o["tok"]}, name: body}


def sub_identity(o):
    return {k: o.get(k) for k in ("aid", "types", "prio", "orders", "order_bad", "filter", "filter_bad", "nt", "mult")}


def _norm(x, collide):
    if isinstance(x, bool):
        return int(x)
    if collide and isinstance(x, int) and x == -1:
        return -2
    if isinstance(x, dict):
        return {k: _norm(v, collide) for k, v in x.items()}
    if isinstance(x, list):
        return [_norm(v, collide) for v in x]
    return x


def req_identity(o):
    """two requests that Python compares equal (True == 1, False == 0) are one and the same request"""
    return _norm(sub_identity(o), False)


def hash_identity(o):
    """the equivalence under which the code hands out one subscription identifier: the identifier is hash(request),
    and hash(-1) == hash(-2) in CPython, so requests that differ only in a reference value -1 / -2 share it
    (audit round, known finding KF-C14-1)"""
    return _norm(sub_identity(o), True)


def expand_ops(case):
    """the flat operation list the oracle and the model work on (audit round). A "periodic" operation - the loop of
    LDMServiceThreads run for `ticks` rounds - stands for attend / advance 500 ms (/ an addition made while the loop
    waits) per round; "factory_sub" - LDMFactory.subscribe_to_ldm - for the registration and the subscription it is
    documented to make. Every flat operation carries src = index of the operation it comes from."""
    out = []
    for oi, o in enumerate(case["ops"]):
        if o["op"] == "periodic":
            adds = o.get("adds") or []
            for j in range(o["ticks"]):
                out.append({"op": "attend", "src": oi, "periodic": True})
                out.append({"op": "advance", "ms": 500, "src": oi, "periodic": True})
                if j < len(adds) and adds[j]:
                    out.append(dict(adds[j], src=oi))
        elif o["op"] == "factory_sub":
            out.append({"op": "reg_cons", "aid": 2, "perms": [2, 16], "src": oi})
            out.append({"op": "subscribe", "aid": 2, "types": [2, 16], "prio": None, "orders": None, "order_bad": False,
                        "filter": {"s1": {"path": "header.stationId", "op": "!=", "ref": o["own"]}, "lop": None, "s2": None},
                        "filter_bad": False, "nt": 1, "mult": 1, "src": oi})
        else:
            out.append(dict(o, src=oi))
    return out


def has_react(case):
    return any(o.get("react") for o in case["ops"])


def model_applies(case):
    """the model describes the reactive service and has no update operation"""
    return case.get("service", "Reactive") == "Reactive" and not any(o["op"] == "update" for o in expand_ops(case))


class _FakeThread:
    """stands in for threading.Thread inside ldm_service_threads: the loop is run by the harness, on the virtual clock"""

    def __init__(self, *a, target=None, **kw):
        self.target = target

    def start(self):
        pass

    def join(self, *a):
        pass


class _FakeEvent:
    def __init__(self):
        self.flag = False
        self.on_wait = None
        self.polls = 0

    def is_set(self):
        self.polls += 1
        if self.polls > 5000:
            raise RuntimeError("the attendance loop does not wait")
        return self.flag

    def set(self):
        self.flag = True

    def clear(self):
        self.flag = False

    def wait(self, timeout=None):
        self.polls = 0
        if self.on_wait is None:
            return True
        return self.on_wait(timeout)


class _FakeThreading:
    Thread = _FakeThread
    Event = _FakeEvent

    def __getattr__(self, name):
        import threading
        return getattr(threading, name)


# --------------------------------------------------------------------------------------------
# implementation

class _Cb:
    """the callback of one subscription. A consumer may act on a notification: `react` lists what it does from inside
    its j-th invocation (an operation of the property's alphabet, or None); `fire` (given by exec_impl) records the
    invocation in the event tree of the running operation and performs that operation - while the LDM is still
    delivering"""

    def __init__(self, sink, react=None, fire=None):
        self.num = None
        self.sink = sink
        self.react = list(react or [])
        self.fire = fire
        self.n = 0

    def __call__(self, resp):
        self.sink.append((self, resp))
        j = self.n
        self.n += 1
        if self.fire is not None:
            self.fire(self, resp, j)


def exec_impl(case):
    """run the operations on a real LDM; one trace entry per operation of expand_ops(case)"""
    from flexstack.facilities.local_dynamic_map.ldm_classes import (
        RegisterDataProviderReq, RegisterDataConsumerReq, DeregisterDataConsumerReq, AddDataProviderReq,
        DeleteDataProviderReq, UpdateDataProviderReq, SubscribeDataobjectsReq, UnsubscribeDataConsumerReq, TimestampIts,
        TimeValidity, GeometricArea, AccessPermission, Filter, FilterStatement, ComparisonOperators, LogicalOperators,
        OrderTupleValue, OrderingDirection)
    service = case.get("service", "Reactive")
    restore = None
    if service == "Thread":
        import flexstack.facilities.local_dynamic_map.ldm_service_threads as st_mod
        restore = (st_mod, st_mod.threading)
        st_mod.threading = _FakeThreading()
    try:
        lut = LdmUnderTest(CFG, "Dictionary", case["t0_utc_ms"], service)
    finally:
        if restore:
            restore[0].threading = restore[1]
    svc = lut.ldm.ldm_service
    for aid in (1, 2, 16):
        lut.if3.register_data_provider(RegisterDataProviderReq(aid, (AccessPermission(aid),), TimeValidity(0)))
    sink = []
    st = {"next_cb": 0, "nadd": 0, "nested": False}
    real_ids = {}        # index of the subscribe op -> identifier returned
    key_of_real = {}     # identifier returned -> interned key of the request
    add_ids = {}         # k-th add -> identifier
    tok_pos = {}         # token -> k
    trace = []
    evstack = [[]]       # event lists of the running operation and of the operations nested in it (by callbacks)

    def tok_of(d):
        return d.get("dataObject", {}).get("header", {}).get("stationId")

    def raw_state():
        """subscriptions and store as they are now; callback numbers and store positions are resolved when the
        top-level operation has ended (an addition learns its position only when it returns)"""
        subs = [(hash(s_.subscription_request), s_.callback, svc.last_checked_subscriptions_time.get(s_)) for s_ in svc.subscriptions]
        return subs, [tok_of(d) for _, d in lut.items()]

    def res_subs(raw):
        return [[key_of_real.get(rid, -1), cb.num if isinstance(cb, _Cb) and cb.num is not None else -1,
                 last.timestamp_its if last is not None else -1] for rid, cb, last in raw]

    def res_events(evs):
        out = []
        for e in evs:
            if e[0] == "call":
                out.append(["call", e[1].num if e[1].num is not None else -1, [tok_pos.get(x, -1) for x in e[2]], e[3], e[4]])
            else:
                n = e[1]
                out.append(["op", {"op": n["op"], "out": n["out"], "subs": res_subs(n["raw"][0]), "conss": n["conss"],
                                   "store": [tok_pos.get(x, -1) for x in n["raw"][1]], "err": n["err"],
                                   "events": res_events(n["events"])}])
        return out

    def snap(out, err=None, **extra):
        calls = []
        for cb, resp in sink:
            pos = [tok_pos.get(tok_of(d), -1) for d in resp.data_objects]
            calls.append([cb.num if cb.num is not None else -1, pos, int(resp.application_id), int(resp.result)])
        del sink[:]
        raw = raw_state()
        e = {"out": out, "calls": calls, "subs": res_subs(raw[0]), "conss": lut.consumers(),
             "store": [tok_pos.get(x, -1) for x in raw[1]], "err": err}
        if st["nested"]:
            # a callback acted during this operation: the invocations and the nested operations in their order
            e["events"] = res_events(evstack[0])
        st["nested"] = False
        del evstack[1:]
        evstack[0] = []
        e.update(extra)
        trace.append(e)
        return e

    def fire(cb, resp, j):
        evstack[-1].append(["call", cb, [tok_of(d) for d in resp.data_objects], int(resp.application_id), int(resp.result)])
        o = cb.react[j] if j < len(cb.react) else None
        if o is None or len(evstack) > 40:
            return
        # the consumer acts on the notification, from inside its callback
        st["nested"] = True
        frame = []
        evstack.append(frame)
        err = None
        try:
            out = perform(o, None)
        except Exception as e:
            out, err = [-99], type(e).__name__ + ": " + str(e)[:100]
        finally:
            while evstack[-1] is not frame:
                evstack.pop()
            evstack.pop()
        evstack[-1].append(["op", {"op": o, "out": out, "raw": raw_state(), "conss": lut.consumers(), "err": err, "events": frame}])

    def do_add(o):
        nadd = st["nadd"]            # the position is taken when the addition begins (additions nest)
        st["nadd"] += 1
        req = AddDataProviderReq(2 if o["typ"] == 2 else 1 if o["typ"] == 1 else 16, TimestampIts(its_ms(VCLOCK.ms)),
                                 make_location(413800000, 21100000, 1000, EXTRA), message(o), TimeValidity(o.get("val", 100000)))
        try:
            r = lut.if3.add_provider_data(req)
        except Exception:
            if st["nadd"] == nadd + 1:
                st["nadd"] = nadd
            raise
        add_ids[nadd] = r.data_object_id
        tok_pos[o["tok"]] = nadd
        return [nadd if r.data_object_id is not None and r.data_object_id >= 0 else -1]

    def do_subscribe(o, oi, via_factory=None):
        def stm(x):
            return FilterStatement(x["path"], ComparisonOperators(c13.OPS.index(x["op"])), x["ref"])
        flt = None
        if o["filter_bad"]:
            flt = "not a filter"
        elif o["filter"] is not None:
            f = o["filter"]
            flt = Filter(stm(f["s1"])) if f["s2"] is None else \
                Filter(stm(f["s1"]), LogicalOperators.AND if f["lop"] == "and" else LogicalOperators.OR, stm(f["s2"]))
        orders = None
        if o["orders"] is not None:
            orders = tuple(OrderTupleValue(x["name"], OrderingDirection(1 if x["desc"] else 0)) for x in o["orders"])
        if o["order_bad"]:
            orders = (orders or ()) + (OrderTupleValue("stationId", 2),)
        cb = _Cb(sink, o.get("react"), fire)
        if via_factory is None:
            req = SubscribeDataobjectsReq(application_id=o["aid"], data_object_type=tuple(o["types"]), priority=o["prio"],
                                          filter=flt, notify_time=None if o["nt"] is None else TimestampIts(o["nt"]),
                                          multiplicity=o["mult"], order=orders)
            r = lut.if4.subscribe_data_consumer(req, cb)
            code, rid = int(r.result), r.subscription_id
        else:
            before = list(svc.subscriptions)
            via_factory(cb)
            new = [x for x in svc.subscriptions if not any(x is y for y in before)]
            code, rid = (0, hash(new[-1].subscription_request)) if new else (-98, 0)
        key = 0
        if code == 0:
            cb.num = st["next_cb"]
            st["next_cb"] += 1
            if oi is not None:
                real_ids[oi] = rid
            key = key_of_real.setdefault(rid, KEYS(hash_identity(o)))
        return [code, key]

    def perform(o, oi):
        """the operations a consumer / provider can also perform from inside a callback; returns the response"""
        k = o["op"]
        if k == "reg_cons":
            r = lut.if4.register_data_consumer(RegisterDataConsumerReq(o["aid"], tuple(o["perms"]), GeometricArea(None, None, None)))
            return [int(r.result)]
        if k == "dereg_cons":
            r = lut.if4.deregister_data_consumer(DeregisterDataConsumerReq(o["aid"]))
            return [int(r.ack)]
        if k == "subscribe":
            return do_subscribe(o, oi)
        if k == "unsubscribe":
            rid = real_ids.get(o["sub"], 0) if o["sub"] >= 0 else 123456789
            r = lut.if4.unsubscribe_data_consumer(UnsubscribeDataConsumerReq(o["aid"], rid))
            return [int(r.result)]
        if k == "add":
            return do_add(o)
        if k == "attend":
            svc.attend_subscriptions()
            return []
        raise ValueError(k)

    try:
        for oi, o in enumerate(case["ops"]):
            k = o["op"]
            n_before = len(trace)
            n_want = len(expand_ops({"ops": [o]}))
            del sink[:]
            del evstack[1:]
            evstack[0] = []
            st["nested"] = False
            try:
                if k in NESTABLE:
                    snap(perform(o, oi))
                elif k == "factory_sub":
                    from flexstack.facilities.local_dynamic_map.factory import LDMFactory
                    fac = LDMFactory()
                    fac.ldm = lut.ldm
                    flat = expand_ops({"ops": [o]})

                    def via(cb):
                        fac.subscribe_to_ldm(o["own"], GeometricArea(None, None, None), cb)
                    # the registration and the subscription are made by one call: the entry of the registration shows
                    # the subscriptions as they were before it and the registry as it is after it
                    e = snap([])
                    res = do_subscribe(flat[1], oi, via)
                    e["out"] = [0] if 2 in lut.consumers() else [2]
                    e["conss"] = lut.consumers()
                    snap(res)
                elif k == "update":
                    r = lut.if3.update_provider_data(UpdateDataProviderReq(
                        2, add_ids.get(o["k"], -7), TimestampIts(its_ms(VCLOCK.ms)),
                        make_location(0, 0, 0, dict(smc=0, smo=0, smic=0, ac=0, radius=0, rd=0, td=0)), message(o), TimeValidity(0)))
                    if int(r.result) == 0:
                        tok_pos[o["tok"]] = o["k"]
                    snap([int(r.result)])
                elif k == "del":
                    r = lut.if3.delete_provider_data(DeleteDataProviderReq(2, add_ids.get(o["k"], -7), TimestampIts(its_ms(VCLOCK.ms))))
                    snap([int(r.result)])
                elif k == "advance":
                    VCLOCK.advance(o["ms"])
                    snap([])
                elif k == "periodic":
                    # the loop of LDMServiceThreads, run here for `ticks` rounds; the wait of each round advances the
                    # virtual clock by the timeout the loop asks for and makes the addition scripted for that round
                    adds = o.get("adds") or []
                    rnd = {"n": 0}
                    ev = svc.stop_event

                    def on_wait(timeout):
                        j = rnd["n"]
                        rnd["n"] += 1
                        snap([])                                   # the attendance of this round
                        ms = int(round((timeout or 0) * 1000))
                        VCLOCK.advance(ms)
                        snap([], None, adv_ms=ms)
                        if j < len(adds) and adds[j]:
                            snap(do_add(adds[j]))
                        return rnd["n"] >= o["ticks"]
                    ev.on_wait = on_wait
                    ev.flag = False
                    ev.polls = 0
                    try:
                        svc.subscriptions_service()
                    finally:
                        ev.on_wait = None
                else:
                    raise ValueError(k)
            except Exception as e:
                snap([-99], type(e).__name__ + ": " + str(e)[:100])
            # a composite operation that ended early: the entries it still owes
            while len(trace) - n_before < n_want:
                snap([], None, stopped=True)
            del trace[n_before + n_want:]
    finally:
        lut.close()
    return trace


# --------------------------------------------------------------------------------------------
# model

def record_of(o, now_its):
    return {"application_id": 2 if o["typ"] == 2 else 1 if o["typ"] == 1 else 16, "timestamp": now_its,
            "location": location_dict(413800000, 21100000, 1000, EXTRA), "dataObject": message(o), "timeValidity": o.get("val", 100000)}


def enc_opt(v):
    return [0, 0] if v is None else [1, v]


def enc_flat_op(o, now, sub_keys):
    """one flat operation as the integers LdmSub.decode reads"""
    k = o["op"]
    a = []
    if k == "reg_cons":
        a += [1, o["aid"], len(o["perms"])] + list(o["perms"])
    elif k == "dereg_cons":
        a += [2, o["aid"]]
    elif k == "subscribe":
        key = KEYS(hash_identity(o))
        if "src" in o:
            sub_keys[o["src"]] = key
        a += [3, o["aid"], key, len(o["types"])] + list(o["types"]) + enc_opt(o["prio"])
        orders = o["orders"] or []
        a += [0 if o["order_bad"] else 1, len(orders)]
        for x in orders:
            a += c13.enc_str(x["name"]) + [1 if x["desc"] else 0]
        a += [0 if o["filter_bad"] else 1]
        f = o["filter"]
        if f is None or o["filter_bad"]:
            a += [0]
        elif f["s2"] is None:
            a += [1] + c13.enc_stmt(f["s1"])
        else:
            a += [2] + c13.enc_stmt(f["s1"]) + [0 if f["lop"] == "and" else 1] + c13.enc_stmt(f["s2"])
        a += enc_opt(o["nt"]) + enc_opt(o["mult"])
    elif k == "unsubscribe":
        a += [4, o["aid"], sub_keys.get(o["sub"], -1) if o["sub"] >= 0 else -1]
    elif k == "add":
        a += [5, o["typ"]] + c13.enc_jv(record_of(o, now))
    elif k == "del":
        a += [6, o["k"]]
    elif k == "advance":
        a += [7, o["ms"]]
    elif k == "attend":
        a += [8]
    return a


def encode_case(case):
    a = [its_ms(case["t0_utc_ms"])]
    now = its_ms(case["t0_utc_ms"])
    sub_keys = {}
    for o in expand_ops(case):
        a += enc_flat_op(o, now, sub_keys)
        if o["op"] == "advance":
            now += o["ms"]
    return a


def react_fuel(case):
    """small steps the machine of Model/LdmSubReact.v may need at most: every operation (of the history or of a script)
    costs two steps plus, when it attends, one per subscription"""
    flat = expand_ops(case)
    nops = len(flat) + sum(len(o.get("react") or []) for o in flat)
    nsubs = sum(1 for o in flat if o["op"] == "subscribe") + sum(1 for o in flat for r in (o.get("react") or []) if r and r["op"] == "subscribe")
    return (nops + 2) * (nsubs + 4) + 10


def encode_case_react(case):
    """cmd 3 of the model: [t0; fuel; number of scripts; (index of the subscribe operation, entries)...; operations...];
    a script entry is 0 (nothing) | 1 len <operation> | 2 aid index (unsubscription of the identifier that operation
    `index` of the history returned). The time stamp inside a record added by a callback is not part of what is compared."""
    flat = expand_ops(case)
    t0 = its_ms(case["t0_utc_ms"])
    tbl = []
    n = 0
    for fi, o in enumerate(flat):
        if o["op"] == "subscribe" and o.get("react"):
            n += 1
            ent = []
            for r in o["react"]:
                if r is None:
                    ent += [0]
                elif r["op"] == "unsubscribe":
                    # indices of the history are those of case["ops"]; the model counts flat operations
                    tgt = [j for j, x in enumerate(flat) if x["src"] == r["sub"] and x["op"] == "subscribe"]
                    ent += [2, r["aid"], tgt[0] if tgt else -1]
                else:
                    e = enc_flat_op(r, t0, {})
                    ent += [1, len(e)] + e
            tbl += [fi, len(o["react"])] + ent
    return [t0, react_fuel(case), n] + tbl + encode_case(case)[1:]


def decode_model(flat, nops):
    rd = Reader(flat)
    trace = []
    for _ in range(nops):
        out = rd.many(rd.one())
        calls = []
        for _ in range(rd.one()):
            cb = rd.one()
            calls.append([cb, rd.many(rd.one())])
        subs = [rd.many(3) for _ in range(rd.one())]
        conss = sorted(rd.many(rd.one()))
        store = rd.many(rd.one())
        trace.append({"out": out, "calls": calls, "subs": subs, "conss": conss, "store": store, "err": None})
    if not rd.done():
        raise ValueError("model output has trailing data")
    return trace


def decode_model_react(flat, case):
    """events of the machine -> one trace entry per flat operation, in the shape exec_impl gives (with "events")"""
    ops = expand_ops(case)
    rd = Reader(flat)
    invoked = {}         # callback number -> invocations so far
    script = {}          # callback number -> its consumer's script
    nsub = [0]

    def dump():
        subs = [rd.many(3) for _ in range(rd.one())]
        conss = sorted(rd.many(rd.one()))
        store = rd.many(rd.one())
        return subs, conss, store

    def one_op(o, top):
        """reads the events of one operation up to its end"""
        events = []
        calls = []
        while True:
            tag = rd.one()
            if tag == 10:
                cb = rd.one()
                pos = rd.many(rd.one())
                events.append(["call", cb, pos])
                calls.append([cb, pos])
                j = invoked.get(cb, 0)
                invoked[cb] = j + 1
                sc = script.get(cb, [])
                r = sc[j] if j < len(sc) else None
                if r is not None:
                    if rd.one() != 11:
                        raise ValueError("the model does not begin the operation of the script")
                    node, sub_calls = one_op(r, False)
                    events.append(["op", node])
                    calls += sub_calls
            elif tag == 12:
                out = rd.many(rd.one())
                subs, conss, store = dump()
                if o["op"] == "subscribe" and out and out[0] == 0:
                    if top and o.get("react"):
                        script[nsub[0]] = o["react"]
                    nsub[0] += 1
                e = {"op": o, "out": out, "calls": calls, "subs": subs, "conss": conss, "store": store, "err": None, "events": events}
                return e, calls
            elif tag == 13:
                raise ValueError("the model ran out of fuel")
            else:
                raise ValueError(f"unexpected event tag {tag}")
    trace = []
    for o in ops:
        e, _ = one_op(o, True)
        if not any(x[0] == "op" for x in e["events"]):
            del e["events"]
        del e["op"]
        trace.append(e)
    if not rd.done():
        raise ValueError("model output has trailing data")
    return trace


def strip_events(evs):
    """what is compared between model and implementation: invocations (callback, positions) and nested operations
    (response, subscriptions, registry, store) in their order"""
    out = []
    for e in evs:
        if e[0] == "call":
            out.append(["call", e[1], list(e[2])])
        else:
            n = e[1]
            out.append(["op", n["op"]["op"], list(n["out"]), [list(x) for x in n["subs"]], list(n["conss"]), list(n["store"]),
                        strip_events(n["events"])])
    return out


# --------------------------------------------------------------------------------------------
# property oracle (from the property text; uses the request specification of C13)

def oracle(case, trace):
    """the property, clause by clause, on the observed history. An entry of the trace may carry "events": the callback
    invocations of the operation in their order, interleaved with the operations the notified consumers performed from
    inside their callbacks (["op", entry], recursively) - those are operations of the history like any other, they
    happen while an attendance is under way. Without "events" the invocations are t["calls"] and nothing is nested."""
    fails = []
    S = {"now": its_ms(case["t0_utc_ms"]), "next_cb": 0, "nadd": 0, "ver": 0, "cancelled": 0}
    # times at which the reactive service may have attended last (one value, unless an addition made from inside a
    # callback left it open whether the service attended once more inside the attendance under way)
    S["last_attend"] = [S["now"]]
    reg = set()
    live = []            # dicts: cb, aid, q (types/filter/orders), nt, mult, since (second of subscription), last (second of last notification)
    dead_cbs = {}        # cb -> ("unsubscribed" | "deregistered", serial number of the cancellation)
    store = []           # (k, record)
    sub_cb = {}          # index of subscribe op (in case["ops"]) -> cb
    sub_op = {}          # index of subscribe op (in case["ops"]) -> the flat subscribe operation
    op_of_cb = {}        # cb -> the subscribe operation that made it (also of subscriptions made from a callback)
    reactive = case.get("service", "Reactive") == "Reactive"
    ops = expand_ops(case)
    cache = {"ver": -1}

    def fail(cls, i, detail, expected=None, observed=None):
        if len(fails) < 20:
            fails.append((cls, i, detail, expected, observed))

    def want_of(u):
        """store positions the subscription has to be notified with now (None: the order is not applicable)"""
        if cache["ver"] != S["ver"]:
            cache.clear()
            cache["ver"] = S["ver"]
        if u["cb"] not in cache:
            recs = [r for _, r in store]
            pos = [p for p, _ in store]
            cache[u["cb"]] = [pos[j] for j in c13.spec_query(recs, u["q"])] if c13.order_kinds_ok(recs, u["q"]) else None
        return cache[u["cb"]]

    def status(u):
        """(want, enough objects, reference second, must be notified by an attendance now, may be notified)"""
        want = want_of(u)
        if want is None:
            return None
        trunc = S["now"] // 1000 * 1000
        mult_ok = u["mult"] is None or len(want) >= u["mult"]
        ref = u["last"] if u["last"] is not None else u["since"]
        interval_ok = u["nt"] is None or trunc - ref >= u["nt"]
        must = bool(want) and mult_ok and interval_ok and u["aid"] in reg
        may = bool(want) and mult_ok and u["last"] is None and u["aid"] in reg
        return want, mult_ok, ref, must, may

    def on_call(c, att, i):
        cb = c[0]
        if cb in dead_cbs:
            how, serial = dead_cbs[cb]
            if att is not None and serial > att["cancelled0"]:
                # cancelled by an operation that a notified consumer performed while this very attendance was under way
                fail("callback_of_subscription_cancelled_during_attendance", i,
                     f"the callback of a subscription that was {how} from inside a notification callback was still invoked by the "
                     "attendance that was under way", "no call", c[:2])
            else:
                fail("callback_after_" + ("unsubscribe" if how == "unsubscribed" else "deregister"), i,
                     f"the callback of a subscription that was {how} was invoked again", "no call", c[:2])
            return
        u = next((u for u in live if u["cb"] == cb), None)
        if u is None:
            fail("callback_of_unknown_subscription", i, "a callback that belongs to no live subscription was invoked", None, c[:2])
            return
        if att is None:
            return
        att["own"][cb] = att["own"].get(cb, 0) + 1
        if att["own"][cb] == 2:
            fail("notified_twice", i, "one attendance invoked a subscription's callback more than once", 1, 2)
        stt = status(u)
        if stt is None:
            return
        want, mult_ok, ref, must, may = stt
        trunc = S["now"] // 1000 * 1000
        got = c[1]
        if len(c) > 2 and (c[2] != u["aid"] or c[3] != 0):
            fail("notification_header", i, "notification does not carry the consumer's application id and result succeed",
                 [u["aid"], 0], c[2:])
        if not want:
            if got:
                fail("notified_wrong_data", i, "notification carries objects although none matches", want, got)
        elif sorted(got) != sorted(want):
            fail("notified_wrong_data", i, "notification does not carry exactly the stored objects of the subscribed types that "
                 "match the filter (store positions)", want, got)
        elif got != want:
            fail("notified_wrong_order", i, "notification carries the matching objects in another order than requested", want, got)
        if want and not mult_ok:
            fail("notified_below_multiplicity", i, "notified although fewer than `multiplicity` objects match",
                 u["mult"], len(want))
        elif want and not (must or may):
            fail("notified_too_early", i, "notified before the notification interval has passed since the previous notification",
                 {"interval_ms": u["nt"], "previous": ref, "now": trunc}, "callback")
        u["last"] = trunc

    def process(o, t, i, depth):
        k = o["op"]
        out = t["out"]
        now = S["now"]
        if t.get("err"):
            fail("exception_escaped", i, f"{k} raised {t['err']}")
        if t.get("stopped") and not o.get("periodic"):
            return               # the rest of a composite operation that raised (reported above)
        if t.get("stopped"):
            fail("periodic_attendance_stopped", i, "the periodic attendance loop of the service ended although it was not asked to "
                 "stop (or never reached its wait): from here on nothing is notified", "loop keeps attending", "loop ended")
            return
        events = t.get("events")
        if events is None:
            events = [["call"] + list(c) for c in t["calls"]]
        attended = False
        must_attend = False
        if k == "advance":
            ms = t.get("adv_ms", o["ms"])
            if o.get("periodic") and ms > 1000:
                fail("periodic_attendance_interval", i, "the periodic attendance waits longer than the LDM's one-second clock "
                     "resolution between two attendances", "<= 1000 ms", ms)
            S["now"] = now + ms
        elif k == "reg_cons":
            if out == [0]:
                reg.add(o["aid"])
        elif k == "dereg_cons":
            if o["aid"] in reg and out != [0]:
                fail("deregistration_refused", i, "registered consumer could not deregister", [0], out)
            if out == [0]:
                reg.discard(o["aid"])
                for u in [u for u in live if u["aid"] == o["aid"]]:
                    live.remove(u)
                    S["cancelled"] += 1
                    dead_cbs[u["cb"]] = ("deregistered", S["cancelled"])
        elif k == "subscribe":
            bad = []
            if o["aid"] not in reg:
                bad.append(1)
            if not all(1 <= x <= 21 for x in o["types"]):
                bad.append(2)
            if o["prio"] is not None and not 0 <= o["prio"] <= 255:
                bad.append(3)
            if o["filter_bad"]:
                bad.append(4)
            if o["nt"] is not None and not 0 <= o["nt"] <= NT_MAX:
                bad.append(5)
            if o["mult"] is not None and not 0 <= o["mult"] <= 255:
                bad.append(6)
            if o["order_bad"]:
                bad.append(7)
            code = out[0] if out else None
            if bad:
                if code not in bad:
                    fail("invalid_subscription_code", i, "an invalid subscription request was not refused with a result code "
                         "matching an invalid field", bad, out)
                if len(t["subs"]) != len(live):
                    fail("refused_subscription_effect", i, "a refused subscription request changed the subscriptions")
            else:
                if code != 0:
                    fail("valid_subscription_refused", i, "a valid subscription request of a registered consumer was refused", 0, out)
            if code == 0:
                u = {"cb": S["next_cb"], "aid": o["aid"], "q": {"types": o["types"], "filter": o["filter"], "orders": o["orders"]},
                     "nt": o["nt"], "mult": o["mult"], "since": now // 1000 * 1000, "last": None, "op": i}
                live.append(u)
                op_of_cb[u["cb"]] = o
                if depth == 0:
                    sub_cb[i] = u["cb"]
                    sub_op[i] = o
                S["next_cb"] += 1
        elif k == "unsubscribe":
            # the identifier handed out for subscribe operation o["sub"]; identical requests share one identifier,
            # so it names every live subscription made with that very request
            same = []
            collide = []
            if o["sub"] in sub_cb:
                ident = req_identity(sub_op[o["sub"]])
                same = [u for u in live if req_identity(op_of_cb[u["cb"]]) == ident]
                hid = hash_identity(sub_op[o["sub"]])
                collide = [u for u in live if u not in same and hash_identity(op_of_cb[u["cb"]]) == hid]
            if out == [0]:
                if not same and not collide:
                    fail("unsubscribe_of_nothing", i, "unsubscription of an identifier that names no live subscription succeeded")
                for u in same:
                    live.remove(u)
                    S["cancelled"] += 1
                    dead_cbs[u["cb"]] = ("unsubscribed", S["cancelled"])
                gone = [u for u in collide if u["cb"] not in [x[1] for x in t["subs"]]]
                if gone:
                    # a DIFFERENT request (reference value -1 where this one has -2, or the reverse) was cancelled with it
                    fail("unsubscribe_cancels_colliding_identifier", i, "the unsubscription also cancelled a subscription made with "
                         "a different request: both requests were given the same subscription identifier", [u["cb"] for u in same],
                         [u["cb"] for u in same + gone])
                    for u in gone:
                        live.remove(u)
                        S["cancelled"] += 1
                        dead_cbs[u["cb"]] = ("unsubscribed", S["cancelled"])
            elif same and o["aid"] in reg:
                fail("unsubscribe_refused", i, "unsubscription of a live subscription by a registered consumer failed", [0], out)
        elif k == "add":
            store.append((S["nadd"], record_of(o, now)))
            S["nadd"] += 1
            S["ver"] += 1
            attended = any(e[0] == "call" for e in events)
            if reactive and depth == 0 and all(now - x >= 500 for x in S["last_attend"]):
                attended = must_attend = True
        elif k == "update":
            if out == [0]:
                if not any(p == o["k"] for p, _ in store):
                    fail("update_of_missing_object", i, "update of an object that is not stored succeeded")
                store[:] = [(p, dict(r, dataObject=message(o)) if p == o["k"] else r) for p, r in store]
                S["ver"] += 1
        elif k == "del":
            if out == [0]:
                store[:] = [(p, r) for p, r in store if p != o["k"]]
                S["ver"] += 1
        elif k == "attend":
            attended = must_attend = True
        # ---- callbacks, and what the notified consumers did from inside them, in their order ----
        att = None
        if attended:
            # what this attendance owes every subscription that is live when it begins
            att = {"own": {}, "due0": {}, "cancelled0": S["cancelled"]}
            if must_attend:
                for u in live:
                    stt = status(u)
                    if stt is not None and stt[3]:
                        att["due0"][u["cb"]] = (stt[0], stt[2])
        elif any(e[0] == "call" for e in events):
            fail("unexpected_callback", i, f"callbacks were invoked during {k}", [], [e[1:] for e in events if e[0] == "call"][:3])
        for e in events:
            if e[0] == "call":
                on_call(e[1:], att, i)
            else:
                process(e[1]["op"], e[1], i, depth + 1)
        if attended and must_attend:
            # matching data is notified by the first attendance after the interval: a subscription that was due when the
            # attendance began, was not notified by it and is still due when it has ended (a notification by an attendance
            # nested in this one counts; a subscription cancelled meanwhile is owed nothing)
            trunc = S["now"] // 1000 * 1000
            for u in live:
                if u["cb"] in att["own"] or u["cb"] not in att["due0"]:
                    continue
                stt = status(u)
                if stt is not None and stt[3]:
                    want0, ref0 = att["due0"][u["cb"]]
                    fail("notification_missed", i, "matching data was not notified by the first attendance after the interval",
                         {"data": want0, "interval_ms": u["nt"], "previous": ref0, "now": trunc}, "no callback")
        if k == "add" and reactive:
            if must_attend or (attended and depth > 0):
                S["last_attend"] = [S["now"]]
            elif depth > 0 and any(now - x >= 500 for x in S["last_attend"]):
                # an addition made from inside a callback, while an attendance is under way: the property does not say
                # whether the service attends once more inside that attendance (the code does) or leaves the data to it
                S["last_attend"] = sorted(set(S["last_attend"] + [S["now"]]))
        # ---- live subscriptions and registry, as far as observable -----------------------
        if [s[1] for s in t["subs"]] != [u["cb"] for u in live]:
            fail("subscription_set_wrong", i, f"the live subscriptions after {k} are not the accepted, not yet cancelled ones",
                 [u["cb"] for u in live], [s[1] for s in t["subs"]])
            cbs = [s[1] for s in t["subs"]]
            live[:] = [u for u in live if u["cb"] in cbs]
        if t["conss"] != sorted(reg):
            fail("consumer_registry_wrong", i, f"registered consumers after {k}", sorted(reg), t["conss"])
            reg.clear()
            reg.update(t["conss"])

    for o, t in zip(ops, trace):
        process(o, t, o["src"], 0)       # failures are located by the index of the operation in case["ops"]
    return fails


# --------------------------------------------------------------------------------------------
# generation

AIDS = (2, 16, 1)
NTS = (None, 0, 1, 500, 999, 1000, 1000, 1001, 1500, 2000, 2000, 3000, 5000, 60000)
MULTS = (None, 0, 1, 1, 1, 2, 2, 3, 5, 255)
ADV = (0, 1, 100, 499, 500, 501, 999, 1000, 1000, 1001, 1500, 2000, 2500, 5000)
TYPES = (2, 2, 1, 16)


NTS_W = NTS + (60000, 60000, 3600000, 86400000)
ADV_W = ADV + (60000, 60000, 3600000, 86400000, 10 ** 8)


def gen_filter(rng, audit=False):
    def st():
        name = rng.choice(("cam", "denm", "vam"))
        path = rng.choice(("header.stationId", name + ".generationDeltaTime", name + ".speed", name + ".speed", name + ".extra.level",
                           "header.messageId", "header.nosuch"))
        op = rng.choice(c13.OPS[:6] + c13.OPS[:6] + c13.OPS)
        ref = rng.choice((0, 1, 2, 3, 5, 10, 50, 100, 16, "a", True)) if not path.endswith("stationId") else rng.choice((100, 105, 110, 120, 0))
        if audit and rng.random() < 0.3:
            ref = rng.choice((-1, -2, -1, -2, -3, False))
        return {"path": path, "op": op, "ref": ref}
    x = rng.random()
    if x < 0.4:
        return None
    if x < 0.8:
        return {"s1": st(), "lop": None, "s2": None}
    return {"s1": st(), "lop": rng.choice(("and", "or")), "s2": st()}


def _swap_collision(o):
    """the same subscription request with the reference values -1 and -2 of its filter exchanged, or None"""
    f = o.get("filter")
    if not f:
        return None
    hit = [False]

    def sw(st_):
        if st_ is not None and not isinstance(st_["ref"], bool) and st_["ref"] in (-1, -2):
            hit[0] = True
            return dict(st_, ref=-3 - st_["ref"])
        return st_
    g = dict(f, s1=sw(f["s1"]), s2=sw(f["s2"]))
    return dict(o, filter=g) if hit[0] else None


def gen_case(rng, n, style="plain"):
    """style "audit": the threaded service with its periodic attendance loop (a third of the cases), notification
    intervals and clock advances up to a day, updates of stored objects, LDMFactory.subscribe_to_ldm, negative values
    and reference values (incl. the pair -1 / -2, whose requests share a subscription identifier)"""
    audit = style == "audit"
    react = style == "react"
    t0 = T0_UTC_MS + rng.choice((0, 1, 500, 999, rng.randrange(1000)))
    ops = []
    g_reg = set()
    g_subs = []       # indices of subscribe ops that probably succeeded
    g_types = {}      # k-th add -> type
    nadd = 0
    tok = 100
    service = "Thread" if (audit and rng.random() < 0.35) or (react and rng.random() < 0.15) else "Reactive"
    long_times = audit and rng.random() < 0.5
    nts, advs = (NTS_W, ADV_W) if long_times else (NTS, ADV)
    speeds = (0, 1, 2, 3, 10, -1, -2) if audit else (0, 1, 2, 3, 10)

    def an_add():
        nonlocal tok, nadd
        tok += 1
        o = {"op": "add", "typ": rng.choice(TYPES), "tok": tok, "gdt": rng.choice((0, 1, 5, 50, 100)),
             "speed": rng.choice(speeds), "level": rng.choice((None, None, 1, 2, 3))}
        if long_times:
            o["val"] = 10 ** 9      # stored objects stay valid during a sequence (expiry is C12)
        g_types[nadd] = o["typ"]
        nadd += 1
        return o

    def a_subscribe(aid):
        return {"op": "subscribe", "aid": aid,
                "types": rng.choice(([2], [2], [1], [16], [1, 2], [1, 2, 16], [2, 16], list(range(1, 22)))),
                "prio": rng.choice((None, None, 0, 5, 255)),
                "orders": rng.choice((None, None, [], [{"name": "stationId", "desc": True}], [{"name": "speed", "desc": False}],
                                      [{"name": "speed", "desc": True}, {"name": "stationId", "desc": False}],
                                      [{"name": "level", "desc": False}, {"name": "generationDeltaTime", "desc": True}])),
                "order_bad": False, "filter": gen_filter(rng, audit), "filter_bad": False,
                "nt": rng.choice(nts), "mult": rng.choice(MULTS)}

    def a_reaction(own_index, aid):
        """what a consumer does from inside one invocation of its callback: mostly it publishes data derived from the
        notification (on the reactive service that addition attends the subscriptions while the notification is still
        being delivered), or has the LDM attend, ends a subscription (its own or another one), subscribes to something
        else, deregisters, registers - or nothing"""
        y = rng.random()
        if y < 0.15:
            return None
        if y < 0.65:
            return an_add()
        if y < 0.77:
            return {"op": "attend"}
        if y < 0.87:
            # its own subscription, an earlier one, or one that is made later in the history (if the operation at that index
            # is a subscription that has succeeded by then)
            sub = own_index if rng.random() < 0.4 or not g_subs else rng.choice(g_subs + [own_index + rng.choice((1, 1, 2, 3))])
            return {"op": "unsubscribe", "aid": aid if rng.random() < 0.8 else rng.choice(AIDS), "sub": sub}
        if y < 0.93:
            return a_subscribe(aid if rng.random() < 0.7 else rng.choice(AIDS))
        if y < 0.97:
            return {"op": "dereg_cons", "aid": aid if rng.random() < 0.6 else rng.choice(AIDS)}
        a = rng.choice(AIDS)
        return {"op": "reg_cons", "aid": a, "perms": [a]}
    for _ in range(n):
        x = rng.random()
        if audit and len(ops) >= 3:
            y = rng.random()
            if y < 0.02:
                ops.append({"op": "factory_sub", "own": rng.choice((101, 103, 105, 110, 0))})
                g_reg.add(2)
                g_subs.append(len(ops) - 1)
                continue
            if y < 0.08 and nadd:
                k = rng.randrange(nadd)
                tok += 1
                ops.append({"op": "update", "k": k, "typ": g_types[k] if rng.random() < 0.9 else 1, "tok": tok,
                            "gdt": rng.choice((0, 1, 5, 50, 100)), "speed": rng.choice(speeds), "level": rng.choice((None, 1, 2, 3))})
                continue
            if y < 0.12 and g_subs:
                o = _swap_collision(ops[rng.choice(g_subs)])
                if o is not None and o["aid"] in g_reg:
                    ops.append(o)
                    g_subs.append(len(ops) - 1)
                    continue
            if service == "Thread" and y < 0.30:
                ticks = rng.choice((1, 1, 2, 2, 3, 4, 6, 10))
                ops.append({"op": "periodic", "ticks": ticks, "adds": [an_add() if rng.random() < 0.4 else None for _ in range(ticks)]})
                continue
        if len(ops) < 3 and x < 0.85:
            aid = rng.choice(AIDS)
            ops.append({"op": "reg_cons", "aid": aid, "perms": [aid]})
            g_reg.add(aid)
            continue
        if x < 0.04:
            aid = rng.choice(AIDS + (3, 22, 0))
            perms = rng.choice(([aid], [2], [], [aid, 16]))
            perms = [p for p in perms if 1 <= p <= 21]
            ops.append({"op": "reg_cons", "aid": aid, "perms": perms})
            if 1 <= aid <= 21 and perms and (aid in perms or aid in (1, 4, 5)):
                g_reg.add(aid)
        elif x < 0.08:
            aid = rng.choice(tuple(g_reg) + AIDS[:1])
            ops.append({"op": "dereg_cons", "aid": aid})
            g_reg.discard(aid)
        elif x < 0.24:
            valid = rng.random() < 0.8
            aid = rng.choice(tuple(g_reg)) if g_reg and (valid or rng.random() < 0.7) else rng.choice(AIDS + (3, 36))
            o = {"op": "subscribe", "aid": aid,
                 "types": rng.choice(([2], [2], [1], [16], [1, 2], [1, 2, 16], [2, 16], list(range(1, 22)))),
                 "prio": rng.choice((None, None, 0, 5, 255)),
                 "orders": rng.choice((None, None, [], [{"name": "stationId", "desc": True}], [{"name": "speed", "desc": False}],
                                       [{"name": "speed", "desc": True}, {"name": "stationId", "desc": False}],
                                       [{"name": "level", "desc": False}, {"name": "generationDeltaTime", "desc": True}])),
                 "order_bad": False, "filter": gen_filter(rng, audit), "filter_bad": False,
                 "nt": rng.choice(nts), "mult": rng.choice(MULTS)}
            if not valid:
                for _ in range(rng.choice((1, 1, 1, 2))):
                    which = rng.randrange(6)
                    if which == 0:
                        o["types"] = rng.choice(([0], [22], [2, 99], [-1]))
                    elif which == 1:
                        o["prio"] = rng.choice((-1, 256, 1000))
                    elif which == 2:
                        o["order_bad"] = True
                    elif which == 3:
                        o["filter_bad"] = True
                    elif which == 4:
                        o["nt"] = rng.choice((-1, NT_MAX + 1, -1000))
                    else:
                        o["mult"] = rng.choice((-1, 256, 1000))
            elif g_subs and rng.random() < 0.08 and any(ops[i]["op"] == "subscribe" for i in g_subs):
                o = dict(ops[rng.choice([i for i in g_subs if ops[i]["op"] == "subscribe"])])       # an identical request (shares the identifier)
                o.pop("react", None)
            if react and rng.random() < 0.6:
                # a consumer that acts on its notifications (seed C14-11): what it does at its 1st, 2nd, ... invocation
                o["react"] = [a_reaction(len(ops), o["aid"]) for _ in range(rng.choice((1, 1, 2, 3, 4, 6)))]
            ops.append(o)
            if valid and o["aid"] in g_reg:
                g_subs.append(len(ops) - 1)
        elif x < 0.30:
            aid = rng.choice(tuple(g_reg)) if g_reg and rng.random() < 0.85 else rng.choice(AIDS + (36,))
            sub = rng.choice(g_subs) if g_subs and rng.random() < 0.85 else rng.choice((-1, len(ops)))
            ops.append({"op": "unsubscribe", "aid": aid, "sub": sub})
            if sub in g_subs and aid in g_reg:
                g_subs.remove(sub)
        elif x < 0.58:
            ops.append(an_add())
        elif x < 0.63:
            ops.append({"op": "del", "k": rng.randrange(-1, nadd + 1)})
        elif x < 0.85:
            ops.append({"op": "advance", "ms": rng.choice(advs)})
        else:
            ops.append({"op": "attend"})
    if react:
        # some of the unsubscriptions made from a callback aim at a subscription that comes later in the subscription order
        # (the attendance under way still has it ahead)
        subs_at = [i for i, o in enumerate(ops) if o["op"] == "subscribe"]
        for i in subs_at:
            for r in ops[i].get("react") or []:
                later = [j for j in subs_at if j > i]
                if r and r["op"] == "unsubscribe" and later and rng.random() < 0.5:
                    r["sub"] = rng.choice(later)
    case = {"t0_utc_ms": t0, "ops": ops}
    if service != "Reactive":
        case["service"] = service
    return case


def boundary_cases():
    t0 = T0_UTC_MS
    cases = []
    reg = [{"op": "reg_cons", "aid": 2, "perms": [2]}, {"op": "reg_cons", "aid": 16, "perms": [16]}]

    def sub(aid=2, nt=1000, mult=1, types=(2,), flt=None, orders=None, **kw):
        o = {"op": "subscribe", "aid": aid, "types": list(types), "prio": None, "orders": orders, "order_bad": False,
             "filter": flt, "filter_bad": False, "nt": nt, "mult": mult}
        o.update(kw)
        return o

    def add(tok, typ=2, speed=1, gdt=0, level=None):
        return {"op": "add", "typ": typ, "tok": tok, "gdt": gdt, "speed": speed, "level": level}
    att = {"op": "attend"}
    # interval at one-second resolution, explicit attendance
    for nt in (None, 0, 1, 999, 1000, 1001, 2000):
        for phase in (0, 400, 999):
            ops = reg + [sub(nt=nt), add(1), att]
            for adv in (1, 598, 401, 1000, 999, 1, 1000):
                ops += [{"op": "advance", "ms": adv}, att]
            cases.append({"t0_utc_ms": t0 + phase, "ops": ops})
    # reactive attendance: every 0.5 s on add
    for adv in (0, 499, 500, 501, 1000):
        cases.append({"t0_utc_ms": t0, "ops": reg + [sub(nt=0), {"op": "advance", "ms": adv}, add(1), {"op": "advance", "ms": adv}, add(2),
                                                      {"op": "advance", "ms": 499}, add(3), {"op": "advance", "ms": 1}, add(4)]})
    # multiplicity
    for mult in (None, 0, 1, 2, 3, 255):
        cases.append({"t0_utc_ms": t0, "ops": reg + [sub(nt=0, mult=mult, types=(2, 1)), att, add(1), att, add(2, typ=1), att, add(3), att,
                                                      {"op": "del", "k": 0}, att, {"op": "del", "k": 1}, att]})
    # unsubscribe / deregister / re-register, overlapping subscriptions of two consumers, identical requests
    f = {"s1": {"path": "cam.speed", "op": ">=", "ref": 2}, "lop": None, "s2": None}
    cases.append({"t0_utc_ms": t0, "ops": reg + [sub(nt=0), sub(aid=16, nt=0, types=(2, 1), flt=f, orders=[{"name": "speed", "desc": True}]),
                                                  sub(nt=0), add(1, speed=1), add(2, speed=3), add(3, speed=2), att,
                                                  {"op": "unsubscribe", "aid": 16, "sub": 2}, att, {"op": "dereg_cons", "aid": 16}, att,
                                                  {"op": "reg_cons", "aid": 16, "perms": [16]}, add(4, speed=5), att,
                                                  {"op": "unsubscribe", "aid": 2, "sub": 3}, att, {"op": "unsubscribe", "aid": 2, "sub": 3}]})
    cases.append({"t0_utc_ms": t0, "ops": reg + [sub(nt=0), {"op": "dereg_cons", "aid": 2}, add(1), {"op": "advance", "ms": 600}, add(2), att,
                                                  {"op": "reg_cons", "aid": 2, "perms": [2]}, add(3), att]})
    # every invalid field, alone and in pairs
    bads = [dict(aid=3), dict(types=[0]), dict(types=[2, 22]), dict(prio=-1), dict(prio=256), dict(order_bad=True), dict(filter_bad=True),
            dict(nt=-1), dict(nt=NT_MAX + 1), dict(nt=NT_MAX), dict(mult=-1), dict(mult=256), dict(mult=255), dict(prio=255), dict(prio=0)]
    ops = list(reg)
    for b in bads:
        ops.append(sub(**b))
    for i, b1 in enumerate(bads[:12]):
        for b2 in bads[i + 1:12]:
            d = dict(b1)
            d.update(b2)
            ops.append(sub(**d))
    cases.append({"t0_utc_ms": t0, "ops": ops + [add(1), att]})
    return cases


def boundary_cases_audit(tier="quick"):
    """audit round: the periodic attendance loop of the threaded service, LDMFactory.subscribe_to_ldm, notifications after
    updates of stored objects, multiplicity at its limit 255 with 254 / 255 / 256 matching objects, notification intervals
    of an hour and a day, subscription identifiers of requests that differ only in a reference value -1 / -2"""
    t0 = T0_UTC_MS
    cases = []
    reg = [{"op": "reg_cons", "aid": 2, "perms": [2]}, {"op": "reg_cons", "aid": 16, "perms": [16]}]

    def sub(aid=2, nt=1000, mult=1, types=(2,), flt=None, orders=None, **kw):
        o = {"op": "subscribe", "aid": aid, "types": list(types), "prio": None, "orders": orders, "order_bad": False,
             "filter": flt, "filter_bad": False, "nt": nt, "mult": mult}
        o.update(kw)
        return o

    def add(tok, typ=2, speed=1, gdt=0, level=None):
        return {"op": "add", "typ": typ, "tok": tok, "gdt": gdt, "speed": speed, "level": level, "val": 10 ** 9}

    def upd(k, tok, typ=2, speed=1, gdt=0, level=None):
        return {"op": "update", "k": k, "typ": typ, "tok": tok, "gdt": gdt, "speed": speed, "level": level}
    att = {"op": "attend"}

    def one(path, op, ref):
        return {"s1": {"path": path, "op": op, "ref": ref}, "lop": None, "s2": None}
    # a. periodic attendance (threaded service): every notification interval x clock phase; additions while the loop waits;
    #    no reactive attendance on add; unsubscription / deregistration between two runs of the loop
    for nt in (None, 0, 500, 1000, 1001, 2000, 3000):
        for phase in (0, 400, 999):
            cases.append({"t0_utc_ms": t0 + phase, "service": "Thread",
                          "ops": reg + [sub(nt=nt), sub(aid=16, nt=1000, mult=2, types=(2, 1)), add(1),
                                        {"op": "periodic", "ticks": 9, "adds": [None, add(2, typ=1), None, None, add(3), None, None, None, None]},
                                        {"op": "unsubscribe", "aid": 2, "sub": 2}, {"op": "periodic", "ticks": 5},
                                        {"op": "dereg_cons", "aid": 16}, add(4), {"op": "periodic", "ticks": 3}]})
    cases.append({"t0_utc_ms": t0, "service": "Thread",
                  "ops": reg + [sub(nt=0), add(1), {"op": "advance", "ms": 600}, add(2), {"op": "advance", "ms": 5000}, add(3),
                                {"op": "periodic", "ticks": 1}, add(4), att, {"op": "periodic", "ticks": 2, "adds": [add(5), add(6)]}]})
    # b. LDMFactory.subscribe_to_ldm: CAMs and VAMs of every other station, nothing of the own station, no DENM
    for own in (101, 102, 0):
        cases.append({"t0_utc_ms": t0, "ops": [{"op": "factory_sub", "own": own}, add(101), add(102, typ=16), add(103, typ=1), att,
                                                {"op": "advance", "ms": 1000}, add(104), att, add(0 if own == 0 else 105, typ=16),
                                                {"op": "advance", "ms": 1000}, att, {"op": "unsubscribe", "aid": 2, "sub": 0}, att,
                                                {"op": "factory_sub", "own": own}, {"op": "advance", "ms": 1000}, att,
                                                {"op": "dereg_cons", "aid": 2}, {"op": "advance", "ms": 1000}, att]})
    # c. notifications follow updates of stored objects (nothing added or removed in between)
    f = one("cam.speed", ">=", 2)
    cases.append({"t0_utc_ms": t0, "ops": reg + [sub(nt=0, flt=f), sub(nt=0, orders=[{"name": "speed", "desc": True}]), add(1, speed=1), add(2, speed=1), att,
                                                  upd(0, 11, speed=3), att, upd(1, 12, speed=5), att, upd(0, 13, speed=0), att,
                                                  upd(1, 14, typ=1, speed=9), att, upd(5, 15, speed=9), att, upd(1, 16, speed=1, level=2), att,
                                                  {"op": "del", "k": 0}, att, upd(0, 17, speed=7), att]})
    # d. multiplicity at its limit: 253 .. 256 matching objects
    n0 = 253 if tier == "quick" else 253
    ops = reg + [sub(nt=0, mult=255), sub(nt=0, mult=254), sub(nt=0, mult=None, flt=one("cam.speed", "==", 7)), sub(aid=16, nt=0, mult=255, types=(2, 1))]
    ops += [add(1000 + j, speed=7 if j % 50 == 0 else 1) for j in range(n0)] + [att]
    for j in range(3):
        ops += [add(2000 + j), att]
    ops += [{"op": "del", "k": 5}, att, {"op": "del", "k": 6}, att, {"op": "del", "k": 7}, att, add(3000, typ=1), att]
    cases.append({"t0_utc_ms": t0, "ops": ops})
    # e. long notification intervals: due exactly after the interval, again one interval later, and after a long silence
    for nt in (60000, 3600000, 86400000):
        cases.append({"t0_utc_ms": t0 + 250, "ops": reg + [sub(nt=nt), sub(aid=16, nt=1000, types=(2,)), add(1), att,
                                                            {"op": "advance", "ms": nt - 1000}, att, {"op": "advance", "ms": 1000}, att,
                                                            {"op": "advance", "ms": 1000}, att, {"op": "advance", "ms": nt - 2000}, att,
                                                            {"op": "advance", "ms": 1000}, att, {"op": "advance", "ms": 3 * nt + 500}, att,
                                                            {"op": "advance", "ms": 500}, att, add(2), {"op": "advance", "ms": nt}, add(3)]})
    # f. two different requests (reference values -1 / -2) and the unsubscription of one of them
    for r1, r2 in ((-1, -2), (-2, -1), (-1, -3)):
        cases.append({"t0_utc_ms": t0, "ops": reg + [sub(nt=0, flt=one("cam.speed", ">", r1)), sub(nt=0, flt=one("cam.speed", ">", r2)),
                                                      add(1, speed=-2), add(2, speed=0), att, {"op": "unsubscribe", "aid": 2, "sub": 2}, att,
                                                      add(3, speed=-1), att, {"op": "unsubscribe", "aid": 2, "sub": 3}, att]})
    return cases


def boundary_cases_react():
    """consumers that act on their notifications (seed C14-11): from inside its callback a consumer adds data (a consumer
    that is also a provider; on the reactive service the addition attends the subscriptions while the notification is still
    being delivered), has the LDM attend, ends a subscription, subscribes, deregisters. Every notification interval x what
    the consumer does x its place in the subscription order; the other consumer is passive or acts as well"""
    t0 = T0_UTC_MS
    cases = []
    reg = [{"op": "reg_cons", "aid": 2, "perms": [2]}, {"op": "reg_cons", "aid": 16, "perms": [16]}]
    tok = [500]

    def sub(aid=2, nt=1000, mult=1, types=(2,), flt=None, orders=None, **kw):
        o = {"op": "subscribe", "aid": aid, "types": list(types), "prio": None, "orders": orders, "order_bad": False,
             "filter": flt, "filter_bad": False, "nt": nt, "mult": mult}
        o.update(kw)
        return o

    def add(typ=2, speed=1, gdt=0, level=None):
        tok[0] += 1
        return {"op": "add", "typ": typ, "tok": tok[0], "gdt": gdt, "speed": speed, "level": level}
    att = {"op": "attend"}

    def adv(ms):
        return {"op": "advance", "ms": ms}

    def history():
        return [add(), adv(1000), add(), adv(1000), add(typ=1), adv(500), add(), adv(500), add(typ=1), att, adv(2000), att,
                adv(999), add(), adv(1), add(), adv(3000), add(typ=1), att]
    # a. the acting consumer A (CAMs) and a second consumer B (CAMs and DENMs, every second)
    for nt in (None, 0, 1, 1000, 2000, 3000):
        for what in ("add_own_type", "add_other_type", "attend", "mixed"):
            for a_first in (True, False):
                for b_acts in (False, True):
                    if what == "add_own_type":
                        script = [add() for _ in range(5)]
                    elif what == "add_other_type":
                        script = [add(typ=1) for _ in range(5)]
                    elif what == "attend":
                        script = [att] * 5
                    else:
                        script = [add(), None, att, add(typ=1), None, add()]
                    sa = sub(nt=nt, react=script)
                    sb = sub(aid=16, nt=1000, types=(2, 1), orders=[{"name": "stationId", "desc": True}])
                    if b_acts:
                        sb["react"] = [None, add(typ=16), att, add()]
                    cases.append({"t0_utc_ms": t0 + (0 if a_first else 400), "ops": reg + ([sa, sb] if a_first else [sb, sa]) + history()})
    # b. on the threaded service an addition does not attend; the periodic attendance is represented by explicit attendances
    for nt in (0, 2000):
        cases.append({"t0_utc_ms": t0, "service": "Thread",
                      "ops": reg + [sub(nt=nt, react=[add(), att, add(typ=1), att]), sub(aid=16, nt=1000, types=(2, 1))] + history()})
    # c. a consumer that ends a subscription from inside a notification: its own, an earlier one, a later one (interval > 0:
    #    the later one is not due in this attendance), deregisters itself / the other consumer, subscribes again, registers
    for nt in (0, 1000):
        base = reg + [sub(nt=nt), sub(aid=16, nt=nt, types=(2, 1))]          # operations 2 and 3
        for script in ([{"op": "unsubscribe", "aid": 2, "sub": 4}], [{"op": "unsubscribe", "aid": 2, "sub": 2}],
                       [{"op": "dereg_cons", "aid": 2}], [{"op": "dereg_cons", "aid": 16}],
                       [sub(nt=0, types=(1, 2)), None, sub(aid=16, nt=1000)],
                       [{"op": "dereg_cons", "aid": 2}, {"op": "reg_cons", "aid": 2, "perms": [2]}],
                       [{"op": "reg_cons", "aid": 1, "perms": [1]}, sub(aid=1, nt=0)]):
            cases.append({"t0_utc_ms": t0, "ops": base + [sub(nt=nt, react=script), sub(aid=16, nt=nt)] + history()})
    #    ... and a later one that is due in the same attendance (no interval: KF-C14-2, repaired by c68a573); the other consumer's
    #    registration ended and renewed by two consumers notified before it
    for nt in (None, 0, 1000, 2000):
        for script in ([{"op": "unsubscribe", "aid": 2, "sub": 5}], [{"op": "unsubscribe", "aid": 16, "sub": 5}]):
            cases.append({"t0_utc_ms": t0, "ops": reg + [sub(nt=1000), sub(aid=16, nt=1000, types=(2, 1)), sub(nt=1000, react=script),
                                                          sub(aid=16, nt=nt)] + history()})
        cases.append({"t0_utc_ms": t0, "ops": reg + [sub(nt=0, react=[None, {"op": "dereg_cons", "aid": 16}]),
                                                      sub(nt=0, types=(2, 1), react=[None, {"op": "reg_cons", "aid": 16, "perms": [16]}]),
                                                      sub(aid=16, nt=nt)] + history()})
    return cases


# --------------------------------------------------------------------------------------------

def known_classes(ctx):
    return {k.get("class") for k in ctx.known}


def impl_failure_classes(case):
    return {f[0] for f in oracle(case, exec_impl(case))}


def check_cases(ctx, cases, label):
    traces = [exec_impl(c) for c in cases]
    flats = None
    if ctx.model.available:
        with_model = [ci for ci, c in enumerate(cases) if model_applies(c)]
        flats = dict(zip(with_model, ctx.model.batch(
            (3, encode_case_react(cases[ci])) if has_react(cases[ci]) else (1, encode_case(cases[ci])) for ci in with_model)))
    for ci, (case, tr) in enumerate(zip(cases, traces)):
        ctx.count(len(tr), label)
        for o in case["ops"]:
            ctx.dist["op_" + o["op"]] = ctx.dist.get("op_" + o["op"], 0) + 1
        if case.get("service", "Reactive") != "Reactive":
            ctx.dist["cases_service_" + case["service"]] = ctx.dist.get("cases_service_" + case["service"], 0) + 1
        fails = oracle(case, tr)
        reported = set()
        for (cls, i, detail, expected, observed) in fails:
            if cls in reported:
                continue
            reported.add(cls)
            small = case
            if cls not in known_classes(ctx) and len(case["ops"]) > 8:
                small = dict(case, ops=_shrink(case, i, cls))
                again = [f for f in oracle(small, exec_impl(small)) if f[0] == cls]
                if again:
                    (_, i, detail, expected, observed) = again[0]
                else:
                    small = case
            ctx.property_failure(cls, {"case": small, "op_index": i}, detail, expected, observed)
        for i, t in enumerate(tr):
            if t["calls"]:
                ctx.nontriv((label, ci, ctx.evaluations, i))
                ctx.dist["callbacks"] = ctx.dist.get("callbacks", 0) + len(t["calls"])
        if flats is None or ci not in flats:
            if flats is not None:
                ctx.dist["cases_without_model"] = ctx.dist.get("cases_without_model", 0) + 1
            continue
        flat_ops = expand_ops(case)
        try:
            mtr = decode_model_react(flats[ci], case) if has_react(case) else decode_model(flats[ci], len(flat_ops))
        except Exception as e:
            ctx.mismatch("model output decodes", {"case": case}, str(e), None)
            continue
        mfails = oracle(case, mtr)
        unexpected = [f for f in mfails if f[0] not in known_classes(ctx)]
        if unexpected:
            ctx.mismatch("property oracle accepts the model's own trace", {"case": case}, [list(map(str, f)) for f in unexpected[:3]], None,
                         "the Python oracle rejects behaviour that the theorems allow: oracle or model is wrong")
        for i, (a, b) in enumerate(zip(mtr, tr)):
            bb = dict(b, calls=[c[:2] for c in b["calls"]])
            diff = [f for f in ("out", "calls", "subs", "conss", "store") if a[f] != bb[f]]
            if not diff and ("events" in a or "events" in b) and strip_events(a.get("events", [])) != strip_events(b.get("events", [])):
                a = dict(a, events=strip_events(a.get("events", [])))
                bb = dict(bb, events=strip_events(b.get("events", [])))
                diff = ["events"]
            if diff:
                f = diff[0]
                ctx.mismatch(f"LDM {f} after each operation = LdmSub.step", {"case": case, "op_index": flat_ops[i]["src"], "op": flat_ops[i]},
                             json.dumps(a[f])[:1000], json.dumps(bb[f])[:1000], f"first difference at operation {i} in field {f}")
                break
    if cases:
        ctx.sample({"ops": cases[0]["ops"][:5], "n_ops": len(cases[0]["ops"]),
                    "callbacks": [t["calls"] for t in traces[0] if t["calls"]][:3]})


def _shrink(case, i, cls):
    """shrink an operation list; subscribe indices used by unsubscribe are positions, so operations are only blanked
    (replaced by a zero clock advance), never removed"""
    ops = list(case["ops"][:i + 1])
    blank = {"op": "advance", "ms": 0}
    for j in range(len(ops) - 1, -1, -1):
        if ops[j] == blank:
            continue
        cand = ops[:j] + [blank] + ops[j + 1:]
        if cls in impl_failure_classes(dict(case, ops=cand)):
            ops = cand
    # what the consumers do from inside their callbacks: drop every reaction the failure does not need
    for j in range(len(ops)):
        for r in range(len(ops[j].get("react") or []) - 1, -1, -1):
            if r >= len(ops[j]["react"]) or ops[j]["react"][r] is None:
                continue
            script = list(ops[j]["react"])
            script[r] = None
            while script and script[-1] is None:
                script.pop()
            cand = ops[:j] + [dict(ops[j], react=script)] + ops[j + 1:]
            if cls in impl_failure_classes(dict(case, ops=cand)):
                ops = cand
    return ops


def run(ctx):
    ctx.rule = ("seeded operation sequences (register/deregister consumer, subscribe with all notification intervals None/0/1 ms..60 s, "
                "multiplicities None/0..255, filters, orders and every kind of invalid field, unsubscribe, add, delete, virtual clock "
                "advance, explicit attendance; 10-300 operations, 2-3 consumers with overlapping subscriptions, identical requests; style "
                "'audit': the threaded service (Thread / Event replaced, its periodic loop run round by round on the virtual clock with "
                "additions while it waits), LDMFactory.subscribe_to_ldm, updates of stored objects, notification intervals and clock "
                "advances up to a day, multiplicity 255 with 253..256 matching objects, negative values, requests that differ only in a "
                "reference value -1 / -2; style 'react': consumers that act from inside their notification callbacks - per invocation "
                "one of add / attend / unsubscribe (own, earlier, later subscription) / subscribe / deregister / register, so that "
                "attendances nest and the subscription list changes while an attendance is under way; every interval x action x "
                "place in the subscription order as boundary cases) on a "
                "Factory-built LDM (Dictionary back-end, reactive service) and on the extracted model; responses, callback invocations with "
                "arguments, subscription list with last-notified times, consumer registry and store compared after every operation; "
                "evaluations = operations executed; non-trivial = an operation during which callbacks were invoked")
    import glob
    import os
    for k in ctx.known:
        check_cases(ctx, [k["witness"]], "known_witness")
    for f in sorted(glob.glob(os.path.join(common.VERIF, "corpus", "C14", "*.json"))):
        check_cases(ctx, [json.load(open(f))], "corpus")
    check_cases(ctx, boundary_cases(), "boundary")
    check_cases(ctx, boundary_cases_audit(ctx.tier), "boundary_audit")
    check_cases(ctx, boundary_cases_react(), "boundary_react")
    rng = ctx.rng
    plan = [(240, (10, 60)), (180, (60, 150)), (60, (150, 300))] if ctx.tier == "quick" else [(3000, (10, 60)), (2000, (60, 150)), (600, (150, 300))]
    for count, (lo, hi) in plan:
        for start in range(0, count, 40):
            check_cases(ctx, [gen_case(rng, rng.randrange(lo, hi + 1)) for _ in range(min(40, count - start))], f"seq_{lo}_{hi}")
    plan = [(120, (10, 80)), (40, (80, 200))] if ctx.tier == "quick" else [(1600, (10, 80)), (600, (80, 300))]
    for count, (lo, hi) in plan:
        for start in range(0, count, 40):
            check_cases(ctx, [gen_case(rng, rng.randrange(lo, hi + 1), "audit") for _ in range(min(40, count - start))], f"seq_audit_{lo}_{hi}")
    plan = [(80, (10, 60)), (30, (60, 150))] if ctx.tier == "quick" else [(1500, (10, 80)), (500, (80, 300))]
    for count, (lo, hi) in plan:
        for start in range(0, count, 40):
            check_cases(ctx, [gen_case(rng, rng.randrange(lo, hi + 1), "react") for _ in range(min(40, count - start))], f"seq_react_{lo}_{hi}")
    ctx.exhaustive = False


def replay(ctx, data):
    common.use_repo_sources()
    f = data.get("failure") or (data.get("broken") or [{}])[-1].get("first")
    print(json.dumps(f, default=str)[:3000])
    ctx.model = common.Model(MODEL_NAME)
    check_cases(ctx, [f["input"]["case"]], "replay")
    if f.get("kind") == "property_failure":
        hits = [r for r in ctx.failures + list(ctx.known_hits.values()) if r["class"] == f["class"]]
    else:
        hits = ctx.mismatches
    print("REPRODUCED" if hits else "NOT REPRODUCED")
    for r in hits[:3]:
        print(json.dumps(r, default=str)[:2000])
    return 1 if hits else 0
