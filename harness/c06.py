"""C06 - multi-hop packets: at-most-once delivery and forwarding, shrinking hop budget."""
from __future__ import annotations

import json

from . import common
from . import router_sim as rs
from . import stack

PROP = "C06"
COQ_TARGETS = ["Properties/C06", "Extract/ExRouter"]
MODEL_ML = "router_model.ml"
MODEL_NAME = "router"
TRUSTED_BASE = [
    "Coq 8.16.1 kernel (coqc); no native_compute; vm_compute only in the Example",
    "extraction (ExtrOcamlBasic only) + ocaml/driver_body.ml + OCaml 4.13.1",
    "hand-written models Model/LocT.v, Model/Router.v tied to the code by differential execution of whole histories",
    "Python harness (harness/c06.py, router_sim.py, stack.py) incl. its independent duplicate-window bookkeeping",
]
ASSUMPTIONS = [
    "geometric decisions (inside / greedy progress) are inputs of the model computed by the harness; histories whose "
    "decisions fall within 1e-6 of a border are excluded from the model comparison (not from the oracle)",
    "the packet-data-rate limiter (annex B.2) is not modelled; histories stay below its threshold",
    "flood termination is checked on the implementation in 3-5 station line/mesh networks; the theorem gives RHL-1 per hop",
    "secured reception (Model/RouterSecured.v): the verify service is an oracle returning the plain message; the harness uses a "
    "pass-through verify service (secured message = plain message) and gives the model the unsecured equivalent of each packet",
]
EXPLANATION = ("theorems: duplicate rejected while fewer than DPL-length other numbers were accepted (any history), a rejected "
               "duplicate is neither delivered nor forwarded (6 packet types), own packets ignored, every forwarded copy has "
               "RHL-1 and none for RHL 0/1 (any frame/state), CBF buffered copy dropped on duplicate and sent at most once, DE "
               "PV refreshed only by newer; secured packets: full clause refuted (KF-C06-1), actual behaviour proved; correspondence of "
               "single-station histories (unsecured and secured branch) + multi-station floods on real routers")

M32 = 2 ** 32
MH = ("tsb", "gbc", "gac", "guc", "lsreq", "lsrep")


def tst_newer(a, b):
    d = (a - b) % M32
    return 0 < d <= 2 ** 31


def _addr_of(b: bytes):
    return ((b[0] >> 7) & 1, (b[0] >> 2) & 31, int.from_bytes(b[2:8], "big"))


def oracle_history(ctx, st, events, impl):
    L = st.params["dpl_len"]
    me = st.mid
    ring = {}          # src -> list of accepted SNs (newest last), the oracle's own duplicate window
    buffered = {}      # cbf key -> received packet
    prev = None
    for idx, (ev, obs) in enumerate(zip(events, impl)):
        inp = {"event_index": idx, "event": rs._ev_repr({k: v for k, v in ev.items() if k not in ("dests", "model_pkt")}),
               "history_tail": [rs._ev_repr({k: v for k, v in e.items() if k not in ("dests", "pkt", "model_pkt")}) for e in events[max(0, idx - 8):idx]]}
        table = {tuple(e["addr"]) for e in obs["state"]["loct"]}
        if ev["ev"] == "cbf":
            key = tuple(ev["key"])
            if key in buffered:
                pkt = buffered.pop(key)
                want = pkt[:3] + bytes([(pkt[3] - 1) % 256]) + pkt[4:]
                got = list(obs["sent"])
                if len(got) == 1 and pkt[0] == 0x12 and got[0] == b"\x11" + want[1:]:
                    ctx.property_failure("secured_forwarded_without_envelope", inp, "the copy of a SECURED packet sent at CBF "
                                         "timer expiry left as an unsecured packet (next header 1 instead of 2)",
                                         [want.hex()], [p.hex() for p in got])
                elif got != [want]:
                    ctx.property_failure("cbf_send", inp, "the packet sent at CBF timer expiry is not the buffered packet "
                                         "with RHL - 1 (exactly once)", [want.hex()], [p.hex() for p in obs["sent"]])
            elif obs["sent"]:
                ctx.property_failure("cbf_send_after_cancel", inp, "a CBF timer fired a packet that was not (or no longer) buffered",
                                     [], [p.hex() for p in obs["sent"]])
        # an entry that disappeared resets the duplicate window of that source
        for s in list(ring):
            if s not in table:
                del ring[s]
        if ev["ev"] != "rx":
            prev = obs
            continue
        src = tuple(ev["src"])
        pkt = ev["pkt"]
        fwd = [p for p in obs["sent"] if len(p) > 20 and _so_mid(p) == src[2]]
        if src[2] == me:
            own_cbf = [k for k in obs["state"]["cbf"] if k[2] == me]
            if obs["inds"] or obs["sent"] or own_cbf:
                ctx.property_failure("own_packet", inp, "a packet bearing the station's own address was delivered, forwarded "
                                     "or buffered for forwarding", None,
                                     {"inds": len(obs["inds"]), "sent": len(obs["sent"]), "cbf": own_cbf})
            prev = obs
            continue
        valid = ev["rhl"] <= ev["mhl"]
        if ev["kind"] in ("gbc", "gac"):
            a = ev["area"]
            if a[2] == 0 or (a[5] != 0 and a[3] == 0):
                valid = False
        # forwarded copies
        for p in fwd:
            ref = pkt
            if ev.get("secured") and pkt[0] == 0x12 and p[:1] == b"\x11":
                ctx.property_failure("secured_forwarded_without_envelope", inp, "a SECURED packet was forwarded as an unsecured "
                                     "packet: next header 1 instead of 2, followed by the verified plain message instead of the "
                                     "received secured message", pkt[:4].hex(), p[:4].hex())
                ref = b"\x11" + pkt[1:]       # everything else is still examined
            ok = len(p) == len(ref) and p[:3] == ref[:3] and p[3] == ref[3] - 1
            body_same = p[4:] == ref[4:]
            if ok and not body_same and ev["kind"] in ("guc", "lsrep"):
                # only the destination position vector (octets 40..59) may differ: it is then the position vector the
                # location table holds for the destination, which is a neighbour, and its timestamp is strictly newer
                same_else = p[4:40] == ref[4:40] and p[60:] == ref[60:] and p[40:48] == ref[40:48]
                old_t = int.from_bytes(ref[48:52], "big")
                ent = next((e for e in obs["state"]["loct"] if tuple(e["addr"]) == _addr_of(ref[40:48])), None)
                want_de = None
                if ent is not None and ent["set"] and ent["nb"] and tst_newer(ent["pv"][3], old_t):
                    want_de = stack.pack([(32, ent["pv"][3]), (32, ent["pv"][4]), (32, ent["pv"][5])])
                body_same = same_else and want_de is not None and p[48:60] == want_de
                ctx.count(1, "forward_with_refreshed_de_pv")
            if not (ok and body_same):
                ctx.property_failure("forwarded_copy", inp, "forwarded copy differs from the received packet in more than "
                                     "RHL - 1 (and a destination position vector refreshed from a newer location table entry "
                                     "of a neighbour)", ref.hex(), p.hex())
        if fwd and pkt[3] <= 1:
            ctx.property_failure("forward_rhl_le_1", inp, "a packet received with hop limit 0 or 1 was forwarded", [], [p.hex() for p in fwd])
        if len(fwd) > 1:
            ctx.property_failure("forward_twice", inp, "one received packet was forwarded more than once", 1, len(fwd))
        # an entry whose lifetime had run out when the packet arrived is not re-used (whether or not a purge has removed
        # it yet): the duplicate window of that source starts afresh
        pe = next((e for e in (prev["state"]["loct"] if prev else []) if tuple(e["addr"]) == src), None)
        if pe is not None and pe["set"]:
            age = ((ev["now"] - pe["pv"][3] + 2 ** 31) % M32) - 2 ** 31
            if age > st.params["life_ms"]:
                ring.pop(src, None)
        if ev["kind"] in MH and valid:
            r = ring.setdefault(src, [])
            key = src + (ev["sn"],)
            if ev["sn"] in r:
                # duplicate within the window: neither delivered nor forwarded; a buffered copy is dropped
                if obs["inds"] or fwd:
                    ctx.property_failure("duplicate_processed", inp, "a duplicate within the duplicate-detection window was "
                                         "delivered or forwarded", None, {"inds": len(obs["inds"]), "fwd": len(fwd)})
                if ev["kind"] == "gbc" and key in buffered:
                    buffered.pop(key)
                    if list(key) in [list(k) for k in obs["state"]["cbf"]]:
                        ctx.property_failure("cbf_not_cancelled", inp, "a duplicate was overheard but the copy waiting in the "
                                             "CBF buffer was kept", None, obs["state"]["cbf"])
            else:
                if len(r) >= L:
                    r.pop(0)
                r.append(ev["sn"])
                now_cbf = [tuple(k) for k in obs["state"]["cbf"]]
                if key in now_cbf:
                    if key not in buffered:
                        if pkt[3] <= 1:
                            ctx.property_failure("cbf_buffered_rhl_le_1", inp, "a packet received with hop limit 0 or 1 was put "
                                                 "into the CBF buffer for a later re-broadcast", [], [list(key)])
                        buffered[key] = pkt
                    # else: the copy of an earlier reception (whose number has left the duplicate list) is still waiting;
                    # the code never replaces a waiting copy - it keeps it (this packet is not forwarded) or drops it
                elif key in buffered:
                    buffered.pop(key)   # still-buffered key re-accepted after leaving the window: treated as duplicate
                if len(obs["inds"]) > 1:
                    ctx.property_failure("delivered_twice", inp, "one received packet was delivered more than once", 1, len(obs["inds"]))
                ctx.nontriv(("c06", ev["kind"], src, ev["sn"], pkt[3], bool(fwd), bool(obs["inds"])))
            if src not in table:
                ring.pop(src, None)
        prev = obs


def _so_mid(p: bytes) -> int:
    """MID of the source position vector of a GN packet (0 if it has none)"""
    ht, hst = p[5] >> 4, p[5] & 15
    off = 12 if ht == 1 or (ht == 5 and hst == 0) else 16
    if len(p) < off + 8:
        return 0
    return int.from_bytes(p[off + 2:off + 8], "big")


ALL_KINDS = ["beacon", "shb", "tsb", "gbc", "gac", "guc", "lsreq", "lsrep"]


class PassVerify:
    """stands in for the VerifyService where only the router's handling of a secured packet is examined: every
    'secured message' verifies and IS its plain message (Common Header + Extended Header + payload)"""

    def verify(self, request):
        from flexstack.security.sn_sap import SNVERIFYConfirm, ReportVerify
        return SNVERIFYConfirm(report=ReportVerify.SUCCESS, certificate_id=b"", its_aid_length=0, its_aid=b"",
                               permissions=b"", plain_message=request.message)


def histories(ctx, n_hist, n_events, wrap=False, secured=False):
    """wrap: every source starts 1-4 packets before its sequence number wraps, so that SN 65535, 0 and 1 are sent - and
    replayed - in every history.
    secured: the station has a (pass-through) verify service and most packets arrive as secured packets (Basic Header
    NH = 2); their duplicates arrive secured or not.  The model is given the unsecured equivalent (what the verify service
    hands to the common-header stage), so the whole history is still compared with it."""
    for it in range(n_hist):
        ego = ctx.rng.choice([(413800000, 21100000), (-338688000, 1512093000), (-100, -100)])
        rs.VCLOCK.set_ms(1_700_000_000_000 + ctx.rng.randrange(0, 10 ** 9))
        ls_max = ctx.rng.choice([10, 10, 0, 1, 2])
        st = rs.Station(area_alg=ctx.rng.choice(["CBF", "CBF", "SIMPLE", "UNSPECIFIED"]), dpl_len=ctx.rng.choice([1, 2, 8, 8]),
                        ego=ego, life_s=ctx.rng.choice([20, 20, 3]), mobile=ctx.rng.random() < 0.7, ls_max=ls_max)
        if secured:
            st.router.verify_service = PassVerify()
        mix = {"beacon": 2, "shb": 1, "tsb": 4, "gbc": 6, "gac": 3, "guc": 4, "lsreq": 2, "lsrep": 2, "dup": 9, "tick": 3,
               "req_guc": 1, "ls": 0 if ls_max == 10 else 2, "cbf": 4, "req_shb": 0, "req_geo": 1, "ego": 0}
        # rich: speed / heading / mobility flag / offload bit / lifetime code / station type / M bit of the sources vary
        sc = rs.Scenario(ctx.rng, st, n_sources=ctx.rng.choice([2, 3, 4]), mix=mix, rich=True)
        # received hop limits: the ends of the range and a value of the whole range in every history
        sc.rhl_values = [0, 1, 1, 2, 2, ctx.rng.choice([3, 127, 128, 254]), ctx.rng.randrange(256), 255]
        if wrap:
            for src in sc.sources:
                src.sn = 65535 - ctx.rng.randrange(0, 4)
        evs = sc.build(n_events)
        for k in range(len(evs)):
            if evs[k]["ev"] == "rx" and ctx.rng.random() < 0.04:
                # our own address as the source: every packet type, single-hop ones included; a share with our MID under
                # another station type / M bit (the link-layer address identifies the station: GNAddress.__eq__)
                me = rs.Source(ctx.rng, 99, ego)
                me.addr = (0, st.st, st.mid) if ctx.rng.random() < 0.6 else (ctx.rng.choice([0, 1]), ctx.rng.randrange(13), st.mid)
                st.positions.update(me.pos)
                sc.now = evs[k]["now"]
                evs[k] = sc.rx_event(ctx.rng.choice(ALL_KINDS), src=me)
                evs[k]["own"] = True
        if secured:
            for e in evs:
                if e["ev"] == "rx" and ctx.rng.random() < 0.7:
                    e["model_pkt"] = e["pkt"]
                    e["pkt"] = bytes([(e["pkt"][0] & 0xF0) | 2]) + e["pkt"][1:]
                    e["secured"] = True
        impl, mtrace, skipped = rs.run_history(ctx, st, evs)
        oracle_history(ctx, st, evs, impl)
        for ev, obs in zip(evs, impl):
            ctx.count(1, "ev_" + (ev.get("kind") or ev["ev"]) + ("_dup" if ev.get("dup_of") else "")
                      + ("_own_address" if ev.get("own") else "") + ("_secured" if ev.get("secured") else ""))
            if obs["sent"]:
                ctx.count(1, "with_transmission")
        if it == 0:
            e0 = next(e for e in evs if e["ev"] == "rx" and e["kind"] in MH)
            ctx.sample({"event": rs._ev_repr({k: v for k, v in e0.items() if k not in ("dests", "model_pkt")})})


def dpl_windows(ctx, lengths):
    """the ends of the duplicate-detection window, for every packet type and list length L: a packet is replayed after
    exactly L - 1 other sequence numbers of its source were accepted (still a duplicate: neither delivered nor forwarded)
    and again after exactly L (it has left the window)"""
    for L in lengths:
        for kind in MH:
            rs.VCLOCK.set_ms(1_700_000_000_000 + ctx.rng.randrange(0, 10 ** 9))
            st = rs.Station(area_alg=ctx.rng.choice(["CBF", "SIMPLE"]), dpl_len=L, ego=(413800000, 21100000))
            sc = rs.Scenario(ctx.rng, st, n_sources=2, rich=True)
            S, N = sc.sources
            sn0 = ctx.rng.choice([0, 1, 65535, 65535 - L, ctx.rng.randrange(65536)])
            me_de = (sc.me, (sc.now - 50) % 2 ** 32, st.ego[4], st.ego[5])
            evs = [sc.rx_event("beacon", src=N, rhl=1, mhl=1)]
            first = sc.rx_event(kind, src=S, sn=sn0, rhl=3, mhl=5, scf=0, de=me_de if ctx.rng.random() < 0.5 else None)
            evs.append(first)

            def replay():
                e = dict(first)
                e["now"], e["dup_of"] = sc.now, True
                return e
            for j in range(1, L):
                evs.append(sc.rx_event(ctx.rng.choice(MH), src=S, sn=(sn0 + j) % 65536, rhl=3, mhl=5))
                sc.now += 1
                evs.append({"ev": "tick", "ms": 1})
            evs.append(replay())                      # L - 1 others accepted: inside the window
            evs.append(sc.rx_event(ctx.rng.choice(MH), src=S, sn=(sn0 + L) % 65536, rhl=3, mhl=5))
            evs.append(replay())                      # L others accepted: outside
            evs.append(replay())                      # and once accepted again, a duplicate again
            impl, mtrace, skipped = rs.run_history(ctx, st, evs)
            oracle_history(ctx, st, evs, impl)
            ctx.count(1, "dpl_window_L%d_%s" % (L, kind))


# --------------------------------------------------------------------------- floods in a network of real routers
def flood(ctx, n_nodes, topo, alg, hop_limit):
    from flexstack.geonet.service_access_point import (GNDataRequest, PacketTransportType, HeaderType, GeoBroadcastHST,
                                                       Area, CommonNH, TrafficClass)
    stack.FakeTimer.reset()
    rs.VCLOCK.set_ms(1_700_000_500_000)
    nodes = []
    base = (413800000, 21100000)
    for i in range(n_nodes):
        ll = stack.CaptureLL()
        r = stack.make_router(ll, local_mid=0x0A0B0C0D3000 + i, mib_kw=dict(
            itsGnAreaForwardingAlgorithm=getattr(__import__("flexstack.geonet.mib", fromlist=["x"]).AreaForwardingAlgorithm, alg)))
        stack.set_ego(r, base[0] + i * 900, base[1] + i * 1200)
        inds = []
        r.register_indication_callback(inds.append)
        nodes.append({"r": r, "ll": ll, "inds": inds, "fwd": {}})
    if topo == "line":
        links = {i: [j for j in (i - 1, i + 1) if 0 <= j < n_nodes] for i in range(n_nodes)}
    else:
        links = {i: [j for j in range(n_nodes) if j != i] for i in range(n_nodes)}
    # everybody hears a beacon of its neighbours first
    for i in range(n_nodes):
        nodes[i]["r"].gn_data_request_beacon()
        b = nodes[i]["ll"].sent.pop()
        for j in links[i]:
            nodes[j]["r"].gn_data_indicate(b)
    req = GNDataRequest(upper_protocol_entity=CommonNH.BTP_B,
                        packet_transport_type=PacketTransportType(HeaderType.GEOBROADCAST, GeoBroadcastHST.GEOBROADCAST_CIRCLE),
                        traffic_class=TrafficClass(), data=b"\x07\xd2\x00\x00flood", length=9, max_hop_limit=hop_limit,
                        area=Area(latitude=base[0], longitude=base[1], a=1000, b=1000, angle=0))
    nodes[0]["r"].gn_data_request(req)
    transmissions, steps = 0, 0
    queue = []
    inp = {"op": "flood", "nodes": n_nodes, "topology": topo, "algorithm": alg, "hop_limit": hop_limit}
    while steps < 5000:
        steps += 1
        for i, n in enumerate(nodes):
            while n["ll"].sent:
                queue.append((i, n["ll"].sent.pop(0)))
        if not queue:
            pend = stack.FakeTimer.pending()
            if not pend:
                break
            t = min(pend, key=lambda x: (x.due, x.id))
            stack.VCLOCK.ms = max(stack.VCLOCK.ms, t.due)
            t.fire()
            continue
        i, pkt = queue.pop(0)
        transmissions += 1
        key = (pkt[16:24], pkt[12:14])
        nodes[i]["fwd"][key] = nodes[i]["fwd"].get(key, 0) + 1
        if nodes[i]["fwd"][key] > 1:
            ctx.property_failure("flood_forward_twice", inp, "a station transmitted the same (source, SN) twice", 1, nodes[i]["fwd"][key])
        for j in links[i]:
            nodes[j]["r"].gn_data_indicate(pkt)
    ctx.count(1, "flood_" + topo + "_" + alg)
    if steps >= 5000:
        ctx.property_failure("flood_no_termination", inp, "the flood did not terminate", "drains", transmissions)
    if transmissions > n_nodes:
        ctx.property_failure("flood_too_many", inp, "more transmissions than stations for one packet", n_nodes, transmissions)
    for j in range(1, n_nodes):
        got = len(nodes[j]["inds"])
        reach = topo == "mesh" or j < hop_limit + (0 if hop_limit > 1 else 10)
        if got > 1:
            ctx.property_failure("flood_delivered_twice", inp, "a station delivered the flooded packet more than once", 1, got)
    if nodes[0]["inds"]:
        ctx.property_failure("flood_delivered_to_sender", inp, "the originator delivered its own packet", 0, len(nodes[0]["inds"]))
    ctx.nontriv(("flood", n_nodes, topo, alg, hop_limit, transmissions))
    return transmissions


def flood_injected(ctx, n_nodes, topo, alg, kind, rhl):
    """a multi-hop packet of a station X outside the network is heard by node 0 and spreads: TSB, LS request, GeoUnicast
    and LS reply towards the last node, GeoBroadcast / GeoAnycast towards an area around the last node (the nodes before
    it are outside: non-area forwarding, Annex D).  Every station transmits the packet at most once, delivers it at most
    once, and the spreading stops."""
    from flexstack.geonet.mib import AreaForwardingAlgorithm
    stack.FakeTimer.reset()
    rs.VCLOCK.set_ms(1_700_000_700_000)
    base = (413800000, 21100000)
    nodes = []
    for i in range(n_nodes):
        ll = stack.CaptureLL()
        r = stack.make_router(ll, local_mid=0x0A0B0C0D3000 + i, mib_kw=dict(
            itsGnAreaForwardingAlgorithm=getattr(AreaForwardingAlgorithm, alg)))
        stack.set_ego(r, base[0] + i * 900, base[1] + i * 1200)
        inds = []
        r.register_indication_callback(inds.append)
        nodes.append({"r": r, "ll": ll, "inds": inds, "fwd": {}})
    if topo == "line":
        links = {i: [j for j in (i - 1, i + 1) if 0 <= j < n_nodes] for i in range(n_nodes)}
    else:
        links = {i: [j for j in range(n_nodes) if j != i] for i in range(n_nodes)}
    for i in range(n_nodes):
        nodes[i]["r"].gn_data_request_beacon()
        b = nodes[i]["ll"].sent.pop()
        for j in links[i]:
            nodes[j]["r"].gn_data_indicate(b)
    X = (0, 5, 0x0A0B0C0D3FFF)
    xpos = (base[0] - 900, base[1] - 1200)
    tst = rs.VCLOCK.its_ms() % 2 ** 32
    last = n_nodes - 1
    lpos = (base[0] + last * 900, base[1] + last * 1200)
    de = ((0, 5, 0x0A0B0C0D3000 + last), tst, lpos[0], lpos[1])
    sn = ctx.rng.choice([0, 1, 65535, ctx.rng.randrange(65536)])
    payload = b"\x07\xd2\x00\x00inj"
    if kind == "tsb":
        pkt = stack.tsb_bytes(X, sn, tst, xpos[0], xpos[1], payload, rhl=rhl, mhl=rhl)
    elif kind == "lsreq":
        pkt = stack.ls_request_bytes(X, sn, tst, xpos[0], xpos[1], (0, 5, 0x0A0B0C0D3EEE), rhl=rhl, mhl=rhl)
    elif kind in ("gbc", "gac"):
        pkt = stack.gbc_bytes(X, sn, tst, xpos[0], xpos[1], (lpos[0], lpos[1], 20, 20, 0), payload,
                              ht=4 if kind == "gbc" else 3, hst=0, rhl=rhl, mhl=rhl)
    elif kind == "guc":
        pkt = stack.guc_bytes(X, sn, tst, xpos[0], xpos[1], de, payload, rhl=rhl, mhl=rhl)
    else:
        pkt = stack.ls_reply_bytes(X, sn, tst, xpos[0], xpos[1], de, rhl=rhl, mhl=rhl)
    inp = {"op": "flood_injected", "kind": kind, "nodes": n_nodes, "topology": topo, "algorithm": alg, "rhl": rhl,
           "packet": pkt.hex()}
    nodes[0]["r"].gn_data_indicate(pkt)
    transmissions, steps, queue = 0, 0, []
    while steps < 5000:
        steps += 1
        for i, n in enumerate(nodes):
            while n["ll"].sent:
                queue.append((i, n["ll"].sent.pop(0)))
        if not queue:
            pend = stack.FakeTimer.pending()
            if not pend:
                break
            t = min(pend, key=lambda x: (x.due, x.id))
            stack.VCLOCK.ms = max(stack.VCLOCK.ms, t.due)
            t.fire()
            continue
        i, p = queue.pop(0)
        if p[5] >> 4 == 1:
            continue                      # beacons are not part of the flood
        transmissions += 1
        key = (p[16:24], p[12:14], p[5])
        nodes[i]["fwd"][key] = nodes[i]["fwd"].get(key, 0) + 1
        if nodes[i]["fwd"][key] > 1:
            ctx.property_failure("flood_forward_twice", inp, "a station transmitted the same (source, SN) twice", 1, nodes[i]["fwd"][key])
        if p[3] >= pkt[3] or p[4:12] != pkt[4:12] or p[12:40] != pkt[12:40]:
            ctx.property_failure("flood_copy_changed", inp, "a copy travelling through the network does not carry the original "
                                 "headers with a lower hop limit", pkt.hex(), p.hex())
        for j in links[i]:
            nodes[j]["r"].gn_data_indicate(p)
    ctx.count(1, "flood_injected_" + kind + "_" + topo + "_" + alg)
    if steps >= 5000:
        ctx.property_failure("flood_no_termination", inp, "the flood did not terminate", "drains", transmissions)
    if transmissions > n_nodes:
        ctx.property_failure("flood_too_many", inp, "more transmissions than stations for one packet", n_nodes, transmissions)
    if rhl <= 1 and transmissions:
        ctx.property_failure("forward_rhl_le_1", inp, "a packet received with hop limit 0 or 1 was forwarded", 0, transmissions)
    for j in range(n_nodes):
        if len(nodes[j]["inds"]) > 1:
            ctx.property_failure("flood_delivered_twice", inp, "a station delivered the packet more than once", 1, len(nodes[j]["inds"]))
    ctx.nontriv(("flood_injected", kind, n_nodes, topo, alg, rhl, transmissions, tuple(len(n["inds"]) for n in nodes)))
    return transmissions


def run(ctx):
    ctx.rule = ("seeded single-station histories (fresh packets, exact duplicates, replays with another hop count, own-address "
                "packets of every type incl. the own MID under another station type; TSB/GBC/GAC/GUC/LS request/LS reply with "
                "speed, heading, mobility flag, offload bit, lifetime code, station type and M bit varied; RHL over "
                "{0,1,2,127,128,254,255,random}; DPL lengths 1/2/8; SIMPLE, UNSPECIFIED and CBF with harness-chosen timer expiry "
                "points; LS retransmission limits 0/1/2/10; histories with every source wrapping its sequence number; "
                "histories received through the secured branch of the router) checked against the property clauses with an "
                "independent duplicate-window bookkeeping and compared event by event with the model; the two ends of the "
                "duplicate window for every type and length; floods in line and mesh networks of 3-5 real routers, "
                "originated (GBC) and injected (TSB, LS, GUC, GBC/GAC towards a distant area); non-trivial = a fresh "
                "multi-hop packet was processed; distinct by (kind, source, sn, rhl, forwarded?, delivered?)")
    rs.stack.patch_time()
    inj = ("tsb", "lsreq", "gbc", "gac", "guc", "lsrep")
    if ctx.tier == "quick":
        histories(ctx, 90, 90)
        histories(ctx, 14, 70, wrap=True)
        histories(ctx, 14, 70, secured=True)
        dpl_windows(ctx, (1, 2, 3, 8))
        for n in (3, 5):
            for topo in ("line", "mesh"):
                for alg in ("SIMPLE", "CBF"):
                    flood(ctx, n, topo, alg, ctx.rng.choice([2, 3, 10]))
                    for kind in inj:
                        flood_injected(ctx, n, topo, alg, kind, ctx.rng.choice([0, 1, 2, 3, 10, 255]))
    else:
        histories(ctx, 600, 160)
        histories(ctx, 80, 120, wrap=True)
        histories(ctx, 100, 120, secured=True)
        histories(ctx, 30, 120, wrap=True, secured=True)
        dpl_windows(ctx, (1, 2, 3, 4, 8, 16))
        for n in (3, 4, 5):
            for topo in ("line", "mesh"):
                for alg in ("SIMPLE", "CBF", "UNSPECIFIED"):
                    for hl in (0, 1, 2, 3, 10, 255):
                        flood(ctx, n, topo, alg, hl)
                        for kind in inj:
                            flood_injected(ctx, n, topo, alg, kind, hl)
    ctx.exhaustive = False


def replay(ctx, data):
    f = data.get("failure") or (data.get("broken") or [{}])[-1].get("first")
    print(json.dumps(f, default=str)[:3000])
    ctx.model = common.Model(MODEL_NAME)
    ctx.rng.seed(data.get("seed", 0))
    run(ctx)
    bad = ctx.failures or ctx.mismatches or ctx.known_hits
    print("REPRODUCED" if bad else "NOT REPRODUCED")
    return 1 if bad else 0
