"""C06 - multi-hop packets: at-most-once delivery and forwarding, shrinking hop budget."""
from __future__ import annotations

import datetime
import json
import math

from . import common
from . import router_sim as rs
from . import stack

PROP = "C06"
COQ_TARGETS = ["Properties/C06", "Extract/ExRouter"]
MODEL_ML = "router_model.ml"
MODEL_NAME = "router"
TRUSTED_BASE = [
    "Coq 8.16.1 kernel (coqc); no native_compute; vm_compute only in the Example",
    "extraction (ExtrOcamlBasic only) + ocaml/driver_body.ml + OCaml 4.13.1",
    "hand-written models Model/LocT.v, Model/Router.v tied to the code by differential execution of whole histories",
    "Python harness (harness/c06.py, router_sim.py, stack.py) incl. its independent duplicate-window bookkeeping",
]
ASSUMPTIONS = [
    "geometric decisions (inside / greedy progress) are inputs of the model computed by the harness; histories whose "
    "decisions fall within 1e-6 of a border are excluded from the model comparison (not from the oracle)",
    "the packet-data-rate limiter (annex B.2) is not modelled; histories stay below its threshold",
    "flood termination is checked on the implementation in 3-5 station line/mesh networks; the theorem gives RHL-1 per hop",
    "secured reception (Model/RouterSecured.v): the verify service is an oracle returning the plain message; the harness uses a "
    "pass-through verify service (secured message = plain message) and gives the model the unsecured equivalent of each packet",
]
EXPLANATION = ("theorems: duplicate rejected while fewer than DPL-length other numbers were accepted (any history), a rejected "
               "duplicate is neither delivered nor forwarded (6 packet types), own packets ignored, every forwarded copy has "
               "RHL-1 and none for RHL 0/1 (any frame/state), CBF buffered copy dropped on duplicate (also after any position updates of "
               "the station, which leave duplicate lists and buffer alone) and sent at most once, DE "
               "PV refreshed only by newer; secured packets: full clause refuted (KF-C06-1), actual behaviour proved; correspondence of "
               "single-station histories (unsecured and secured branch, static and moving station) + multi-station floods on real "
               "routers (static and moving stations)")

M32 = 2 ** 32
MH = ("tsb", "gbc", "gac", "guc", "lsreq", "lsrep")


def tst_newer(a, b):
    d = (a - b) % M32
    return 0 < d <= 2 ** 31


def _addr_of(b: bytes):
    return ((b[0] >> 7) & 1, (b[0] >> 2) & 31, int.from_bytes(b[2:8], "big"))


def oracle_history(ctx, st, events, impl):
    L = st.params["dpl_len"]
    me = st.mid
    ring = {}          # src -> list of accepted SNs (newest last), the oracle's own duplicate window
    buffered = {}      # cbf key -> received packet
    moved = set()      # buffered keys whose copy has been waiting across a position update of the station
    pos = (st.ego0[4], st.ego0[5])
    prev = None
    for idx, (ev, obs) in enumerate(zip(events, impl)):
        inp = {"event_index": idx, "event": rs._ev_repr({k: v for k, v in ev.items() if k not in ("dests", "model_pkt")}),
               "history_tail": [rs._ev_repr({k: v for k, v in e.items() if k not in ("dests", "pkt", "model_pkt")}) for e in events[max(0, idx - 8):idx]]}
        table = {tuple(e["addr"]) for e in obs["state"]["loct"]}
        if ev["ev"] == "ego":
            if (ev["pv"][4], ev["pv"][5]) != pos:
                moved.update(buffered)
            pos = (ev["pv"][4], ev["pv"][5])
        if ev["ev"] == "cbf":
            key = tuple(ev["key"])
            if key in buffered:
                ctx.count(1, "cbf_timer_expiry_with_copy_waiting" + ("_after_the_station_moved" if key in moved else ""))
                pkt = buffered.pop(key)
                want = pkt[:3] + bytes([(pkt[3] - 1) % 256]) + pkt[4:]
                got = list(obs["sent"])
                if len(got) == 1 and pkt[0] == 0x12 and got[0] == b"\x11" + want[1:]:
                    ctx.property_failure("secured_forwarded_without_envelope", inp, "the copy of a SECURED packet sent at CBF "
                                         "timer expiry left as an unsecured packet (next header 1 instead of 2)",
                                         [want.hex()], [p.hex() for p in got])
                elif got != [want]:
                    ctx.property_failure("cbf_send", inp, "the packet sent at CBF timer expiry is not the buffered packet "
                                         "with RHL - 1 (exactly once)", [want.hex()], [p.hex() for p in obs["sent"]])
            elif obs["sent"]:
                ctx.property_failure("cbf_send_after_cancel", inp, "a CBF timer fired a packet that was not (or no longer) buffered",
                                     [], [p.hex() for p in obs["sent"]])
        # an entry that disappeared resets the duplicate window of that source
        for s in list(ring):
            if s not in table:
                del ring[s]
        if ev["ev"] != "rx":
            prev = obs
            continue
        src = tuple(ev["src"])
        pkt = ev["pkt"]
        fwd = [p for p in obs["sent"] if len(p) > 20 and _so_mid(p) == src[2]]
        if src[2] == me:
            own_cbf = [k for k in obs["state"]["cbf"] if k[2] == me]
            if obs["inds"] or obs["sent"] or own_cbf:
                ctx.property_failure("own_packet", inp, "a packet bearing the station's own address was delivered, forwarded "
                                     "or buffered for forwarding", None,
                                     {"inds": len(obs["inds"]), "sent": len(obs["sent"]), "cbf": own_cbf})
            prev = obs
            continue
        valid = ev["rhl"] <= ev["mhl"]
        if ev["kind"] in ("gbc", "gac"):
            a = ev["area"]
            if a[2] == 0 or (a[5] != 0 and a[3] == 0):
                valid = False
        # forwarded copies
        for p in fwd:
            ref = pkt
            if ev.get("secured") and pkt[0] == 0x12 and p[:1] == b"\x11":
                ctx.property_failure("secured_forwarded_without_envelope", inp, "a SECURED packet was forwarded as an unsecured "
                                     "packet: next header 1 instead of 2, followed by the verified plain message instead of the "
                                     "received secured message", pkt[:4].hex(), p[:4].hex())
                ref = b"\x11" + pkt[1:]       # everything else is still examined
            ok = len(p) == len(ref) and p[:3] == ref[:3] and p[3] == ref[3] - 1
            body_same = p[4:] == ref[4:]
            if ok and not body_same and ev["kind"] in ("guc", "lsrep"):
                # only the destination position vector (octets 40..59) may differ: it is then the position vector the
                # location table holds for the destination, which is a neighbour, and its timestamp is strictly newer
                same_else = p[4:40] == ref[4:40] and p[60:] == ref[60:] and p[40:48] == ref[40:48]
                old_t = int.from_bytes(ref[48:52], "big")
                ent = next((e for e in obs["state"]["loct"] if tuple(e["addr"]) == _addr_of(ref[40:48])), None)
                want_de = None
                if ent is not None and ent["set"] and ent["nb"] and tst_newer(ent["pv"][3], old_t):
                    want_de = stack.pack([(32, ent["pv"][3]), (32, ent["pv"][4]), (32, ent["pv"][5])])
                body_same = same_else and want_de is not None and p[48:60] == want_de
                ctx.count(1, "forward_with_refreshed_de_pv")
            if not (ok and body_same):
                ctx.property_failure("forwarded_copy", inp, "forwarded copy differs from the received packet in more than "
                                     "RHL - 1 (and a destination position vector refreshed from a newer location table entry "
                                     "of a neighbour)", ref.hex(), p.hex())
        if fwd and pkt[3] <= 1:
            ctx.property_failure("forward_rhl_le_1", inp, "a packet received with hop limit 0 or 1 was forwarded", [], [p.hex() for p in fwd])
        if len(fwd) > 1:
            ctx.property_failure("forward_twice", inp, "one received packet was forwarded more than once", 1, len(fwd))
        # an entry whose lifetime had run out when the packet arrived is not re-used (whether or not a purge has removed
        # it yet): the duplicate window of that source starts afresh
        pe = next((e for e in (prev["state"]["loct"] if prev else []) if tuple(e["addr"]) == src), None)
        if pe is not None and pe["set"]:
            age = ((ev["now"] - pe["pv"][3] + 2 ** 31) % M32) - 2 ** 31
            if age > st.params["life_ms"]:
                ring.pop(src, None)
        if ev["kind"] in MH and valid:
            r = ring.setdefault(src, [])
            key = src + (ev["sn"],)
            if ev["sn"] in r:
                # duplicate within the window: neither delivered nor forwarded; a buffered copy is dropped
                if obs["inds"] or fwd:
                    ctx.property_failure("duplicate_processed", inp, "a duplicate within the duplicate-detection window was "
                                         "delivered or forwarded", None, {"inds": len(obs["inds"]), "fwd": len(fwd)})
                if ev["kind"] == "gbc" and key in buffered:
                    buffered.pop(key)
                    # whatever happened to the station since the copy was buffered: the clause has no exception for a
                    # station that has moved on (statistics only: where the station is now)
                    ctx.count(1, "cbf_duplicate_overheard_while_copy_waits" + (
                        "_station_moved_now_" + ("inside" if rs.f_value(ev["area"], *pos) >= 0 else "outside")
                        if key in moved else ""))
                    if list(key) in [list(k) for k in obs["state"]["cbf"]]:
                        ctx.property_failure("cbf_not_cancelled", inp, "a duplicate was overheard but the copy waiting in the "
                                             "CBF buffer was kept", None, obs["state"]["cbf"])
            else:
                if len(r) >= L:
                    r.pop(0)
                r.append(ev["sn"])
                now_cbf = [tuple(k) for k in obs["state"]["cbf"]]
                if key in now_cbf:
                    if key not in buffered:
                        if pkt[3] <= 1:
                            ctx.property_failure("cbf_buffered_rhl_le_1", inp, "a packet received with hop limit 0 or 1 was put "
                                                 "into the CBF buffer for a later re-broadcast", [], [list(key)])
                        buffered[key] = pkt
                    # else: the copy of an earlier reception (whose number has left the duplicate list) is still waiting;
                    # the code never replaces a waiting copy - it keeps it (this packet is not forwarded) or drops it
                elif key in buffered:
                    buffered.pop(key)   # still-buffered key re-accepted after leaving the window: treated as duplicate
                if len(obs["inds"]) > 1:
                    ctx.property_failure("delivered_twice", inp, "one received packet was delivered more than once", 1, len(obs["inds"]))
                ctx.nontriv(("c06", ev["kind"], src, ev["sn"], pkt[3], bool(fwd), bool(obs["inds"])))
            if src not in table:
                ring.pop(src, None)
        prev = obs


def _so_mid(p: bytes) -> int:
    """MID of the source position vector of a GN packet (0 if it has none)"""
    ht, hst = p[5] >> 4, p[5] & 15
    off = 12 if ht == 1 or (ht == 5 and hst == 0) else 16
    if len(p) < off + 8:
        return 0
    return int.from_bytes(p[off + 2:off + 8], "big")


ALL_KINDS = ["beacon", "shb", "tsb", "gbc", "gac", "guc", "lsreq", "lsrep"]


class PassVerify:
    """stands in for the VerifyService where only the router's handling of a secured packet is examined: every
    'secured message' verifies and IS its plain message (Common Header + Extended Header + payload)"""

    def verify(self, request):
        from flexstack.security.sn_sap import SNVERIFYConfirm, ReportVerify
        return SNVERIFYConfirm(report=ReportVerify.SUCCESS, certificate_id=b"", its_aid_length=0, its_aid=b"",
                               permissions=b"", plain_message=request.message)


# --------------------------------------------------------------------------- the station moves
def _point_of_area(area, u, v):
    """the point with the coordinates (u * a, v * b') in the frame of an area (u along its azimuth; b' = a for a circle):
    inside for u^2 + v^2 < 1, outside for |u| > 1 or |v| > 1, whatever the shape.  Generator only."""
    clat, clon, a, b, angle, shape = area
    x, y = u * a, v * (a if shape == 0 else b)
    th = math.radians(angle)
    north, east = x * math.cos(th) - y * math.sin(th), x * math.sin(th) + y * math.cos(th)
    lat = clat + int(round(math.degrees(north / rs.R_EARTH) * 1e7))
    lon = clon + int(round(math.degrees(east / (rs.R_EARTH * math.cos(math.radians(clat / 1e7)))) * 1e7))
    return lat, lon


def _usable_area(area):
    return area[2] > 0 and (area[5] == 0 or area[3] > 0)


def _side_of(rng, area, inside, tries=40):
    """a position clearly inside / clearly outside the area (not within 1e-3 of its border), or None"""
    for _ in range(tries):
        if inside:
            r, phi = rng.uniform(0, 0.95), rng.uniform(0, 2 * math.pi)
            u, v = r * math.cos(phi), r * math.sin(phi)
        else:
            u, v = rng.choice([-1, 1]) * rng.choice([1.05, 1.5, rng.uniform(1.05, 4.0)]), rng.uniform(-1.5, 1.5)
            if rng.random() < 0.5:
                u, v = v, u
        la, lo = _point_of_area(area, u, v)
        if abs(la) > 899000000 or abs(lo) > 1799000000:
            continue
        f = rs.f_value(area, la, lo)
        if abs(f) > 1e-3 and (f > 0) == inside:
            return la, lo
    return None


def ego_pv(st, now, pos, rng=None):
    """position vector of a position update of the station (time of the fix = now; speed and heading vary)"""
    pv = list(st.ego0)
    pv[3], pv[4], pv[5] = now % 2 ** 32, pos[0], pos[1]
    if rng is not None:
        pv[7] = rng.choice([0, 0, 1, 1389, rng.randrange(-16384, 16384)])
        pv[8] = rng.choice([0, 900, 3599, rng.randrange(3601)])
    return pv


class MovingScenario(rs.Scenario):
    """a station that keeps moving: its position vector is refreshed between the other events, as in ordinary operation
    (Router.refresh_ego_position_vector on every position fix).  The updates are of every size: the same place again, GPS
    jitter, a few metres, kilometres, back to an earlier position, and - most often - to the other side of the border of
    an area that a recently received GeoBroadcast / GeoAnycast packet named.  New areas lie around the position at that
    time and earlier areas are named again, so that for the packets, the duplicates and the CBF timer expiries of one
    history the station is inside for some and outside for others.  Everything the router keeps across a position update
    (duplicate lists, CBF buffer, location table, LS state) is thereby examined at another position than it was built at."""

    def __init__(self, rng, station, **kw):
        super().__init__(rng, station, **kw)
        self.home = (station.ego[4], station.ego[5])
        self.cur = self.home
        self.trail = [self.home]
        self.seen_areas = []
        self.held = []          # GeoBroadcast packets received inside their area with hops left: CBF stations buffer those

    def _area(self, inside_bias=0.6):
        if self.seen_areas and self.rng.random() < 0.3:
            return self.rng.choice(self.seen_areas[-6:])
        a = super()._area(max(inside_bias, 0.8))          # around the initial position: translated to the current one
        la, lo = a[0] + self.cur[0] - self.home[0], a[1] + self.cur[1] - self.home[1]
        if abs(la) <= 899000000 and abs(lo) <= 1799000000:
            a = (la, lo) + tuple(a[2:])
        self.seen_areas.append(a)
        return a

    def rx_event(self, kind, **kw):
        ev = super().rx_event(kind, **kw)
        if kind == "gbc" and ev["rhl"] > 1 and _usable_area(ev["area"]) and rs.f_value(ev["area"], *self.cur) >= 0:
            self.held.append(ev)
        return ev

    def dup_event(self):
        """half of the duplicates are those of a GeoBroadcast packet whose copy may still wait in the CBF buffer"""
        if self.held and self.rng.random() < 0.5:
            old = self.rng.choice(self.held[-3:])
            ev = dict(old)
            ev["now"], ev["dup_of"] = self.now, True
            if self.rng.random() < 0.5:      # the copy another forwarder sent: one hop less
                b = bytearray(ev["pkt"])
                b[3] -= 1
                ev["pkt"], ev["rhl"] = bytes(b), b[3]
            return ev
        return super().dup_event()

    def ego_event(self):
        rng = self.rng
        la, lo = self.cur
        kind = rng.choice(["refresh", "jitter", "step", "step", "leap", "back", "cross", "cross", "cross", "cross"])
        areas = [a for a in self.seen_areas[-2:] if _usable_area(a)]
        if kind == "cross" and not areas:
            kind = "step"
        if kind == "cross":
            ar = rng.choice(areas)
            was_in = rs.f_value(ar, la, lo) >= 0
            p = _side_of(rng, ar, not was_in)
            if p is None:
                kind = "refresh"
            else:
                la, lo = p
                kind = "leave_area" if was_in else "enter_area"
        elif kind == "back":
            la, lo = rng.choice(self.trail)
        elif kind != "refresh":
            d = {"jitter": (0, 60), "step": (100, 5000), "leap": (20000, 900000)}[kind]
            la += rng.choice([-1, 1]) * rng.randrange(*d)
            lo += rng.choice([-1, 1]) * rng.randrange(*d)
        if abs(la) > 899000000 or abs(lo) > 1799000000:
            la, lo = self.cur
        self.cur = (la, lo)
        self.trail.append(self.cur)
        return {"ev": "ego", "pv": ego_pv(self.st, self.now, self.cur, rng), "move": kind}

    def build(self, n):
        evs = []
        while len(evs) < n:
            evs += super().build(min(n - len(evs), self.rng.choice([1, 2, 3, 5, 8, 12])))
            if len(evs) < n:
                evs.append(self.ego_event())
        self.events = evs
        return evs


def histories(ctx, n_hist, n_events, wrap=False, secured=False, moving=False):
    """wrap: every source starts 1-4 packets before its sequence number wraps, so that SN 65535, 0 and 1 are sent - and
    replayed - in every history.
    secured: the station has a (pass-through) verify service and most packets arrive as secured packets (Basic Header
    NH = 2); their duplicates arrive secured or not.  The model is given the unsecured equivalent (what the verify service
    hands to the common-header stage), so the whole history is still compared with it.
    moving: the station's own position is refreshed between the other events (MovingScenario)."""
    for it in range(n_hist):
        ego = ctx.rng.choice([(413800000, 21100000), (-338688000, 1512093000), (-100, -100)])
        rs.VCLOCK.set_ms(1_700_000_000_000 + ctx.rng.randrange(0, 10 ** 9))
        ls_max = ctx.rng.choice([10, 10, 0, 1, 2])
        st = rs.Station(area_alg=ctx.rng.choice(["CBF", "CBF", "CBF" if moving else "SIMPLE", "SIMPLE" if moving else "UNSPECIFIED"]),
                        dpl_len=ctx.rng.choice([1, 2, 8, 8]),
                        ego=ego, life_s=ctx.rng.choice([20, 20, 3]), mobile=ctx.rng.random() < 0.7, ls_max=ls_max)
        if secured:
            st.router.verify_service = PassVerify()
        mix = {"beacon": 2, "shb": 1, "tsb": 4, "gbc": 6, "gac": 3, "guc": 4, "lsreq": 2, "lsrep": 2, "dup": 9, "tick": 3,
               "req_guc": 1, "ls": 0 if ls_max == 10 else 2, "cbf": 4, "req_shb": 0, "req_geo": 1, "ego": 0}
        # rich: speed / heading / mobility flag / offload bit / lifetime code / station type / M bit of the sources vary
        if moving:
            # more GeoBroadcast packets and duplicates, fewer timer expiries: copies wait in the CBF buffer for longer
            # (and fewer unicast / LS packets: their geometry tables grow with every position the station has been at)
            mix.update({"gbc": 12, "gac": 4, "dup": 12, "cbf": 2, "tsb": 2, "guc": 2, "lsreq": 1, "lsrep": 1, "req_guc": 0})
        sc = (MovingScenario if moving else rs.Scenario)(ctx.rng, st, n_sources=ctx.rng.choice([2, 3, 4]), mix=mix, rich=True)
        # received hop limits: the ends of the range and a value of the whole range in every history
        sc.rhl_values = [0, 1, 1, 2, 2, ctx.rng.choice([3, 127, 128, 254]), ctx.rng.randrange(256), 255]
        if wrap:
            for src in sc.sources:
                src.sn = 65535 - ctx.rng.randrange(0, 4)
        evs = sc.build(n_events)
        for k in range(len(evs)):
            if evs[k]["ev"] == "rx" and ctx.rng.random() < 0.04:
                # our own address as the source: every packet type, single-hop ones included; a share with our MID under
                # another station type / M bit (the link-layer address identifies the station: GNAddress.__eq__)
                me = rs.Source(ctx.rng, 99, ego)
                me.addr = (0, st.st, st.mid) if ctx.rng.random() < 0.6 else (ctx.rng.choice([0, 1]), ctx.rng.randrange(13), st.mid)
                st.positions.update(me.pos)
                sc.now = evs[k]["now"]
                evs[k] = sc.rx_event(ctx.rng.choice(ALL_KINDS), src=me)
                evs[k]["own"] = True
        if secured:
            for e in evs:
                if e["ev"] == "rx" and ctx.rng.random() < 0.7:
                    e["model_pkt"] = e["pkt"]
                    e["pkt"] = bytes([(e["pkt"][0] & 0xF0) | 2]) + e["pkt"][1:]
                    e["secured"] = True
        impl, mtrace, skipped = rs.run_history(ctx, st, evs)
        oracle_history(ctx, st, evs, impl)
        for ev, obs in zip(evs, impl):
            ctx.count(1, "ev_" + (ev.get("kind") or ev["ev"]) + ("_dup" if ev.get("dup_of") else "")
                      + ("_own_address" if ev.get("own") else "") + ("_secured" if ev.get("secured") else "")
                      + ("_" + ev["move"] if ev.get("move") else ""))
            if obs["sent"]:
                ctx.count(1, "with_transmission")
        if it == 0:
            e0 = next(e for e in evs if e["ev"] == "rx" and e["kind"] in MH)
            ctx.sample({"event": rs._ev_repr({k: v for k, v in e0.items() if k not in ("dests", "model_pkt")})})


class ShortHistories:
    """many short single-station histories: each one is run on the implementation and judged by the oracle at once, the
    model runs them all in ONE process at the end (a process per history costs more than a short history itself) and every
    history is then compared with its model trace by rs.compare_with_model, exactly as rs.run_history does"""

    class _Answer:
        available = True

        def __init__(self, flat):
            self.flat = flat

        def call(self, cmd, args):
            return self.flat

    def __init__(self, ctx):
        self.ctx, self.stations = ctx, []

    def run(self, st, evs):
        for ev in evs:
            st.record(self.ctx, ev)
        self.stations.append(st)
        impl = list(st.rec_obs)
        oracle_history(self.ctx, st, evs, impl)
        return impl

    def compare(self):
        ctx, real = self.ctx, self.ctx.model
        if not real.available:
            return
        reqs = []
        for st in self.stations:
            idxs = [i for i, e in enumerate(st.rec_events) if e["ev"] != "tick"]
            reqs.append((1, rs.encode_history(st, [st.rec_events[i] for i in idxs], [st.rec_geos[i] for i in idxs])))
        answers = real.batch(reqs)
        try:
            for st, flat in zip(self.stations, answers):
                ctx.model = self._Answer(flat)
                rs.compare_with_model(ctx, st)
        finally:
            ctx.model = real
        self.stations = []


def dpl_windows(ctx, lengths):
    """the ends of the duplicate-detection window, for every packet type and list length L: a packet is replayed after
    exactly L - 1 other sequence numbers of its source were accepted (still a duplicate: neither delivered nor forwarded)
    and again after exactly L (it has left the window)"""
    short = ShortHistories(ctx)
    for L in lengths:
        for kind in MH:
            rs.VCLOCK.set_ms(1_700_000_000_000 + ctx.rng.randrange(0, 10 ** 9))
            st = rs.Station(area_alg=ctx.rng.choice(["CBF", "SIMPLE"]), dpl_len=L, ego=(413800000, 21100000))
            sc = rs.Scenario(ctx.rng, st, n_sources=2, rich=True)
            S, N = sc.sources
            sn0 = ctx.rng.choice([0, 1, 65535, 65535 - L, ctx.rng.randrange(65536)])
            me_de = (sc.me, (sc.now - 50) % 2 ** 32, st.ego[4], st.ego[5])
            evs = [sc.rx_event("beacon", src=N, rhl=1, mhl=1)]
            first = sc.rx_event(kind, src=S, sn=sn0, rhl=3, mhl=5, scf=0, de=me_de if ctx.rng.random() < 0.5 else None)
            evs.append(first)

            def replay():
                e = dict(first)
                e["now"], e["dup_of"] = sc.now, True
                return e
            for j in range(1, L):
                evs.append(sc.rx_event(ctx.rng.choice(MH), src=S, sn=(sn0 + j) % 65536, rhl=3, mhl=5))
                sc.now += 1
                evs.append({"ev": "tick", "ms": 1})
            evs.append(replay())                      # L - 1 others accepted: inside the window
            evs.append(sc.rx_event(ctx.rng.choice(MH), src=S, sn=(sn0 + L) % 65536, rhl=3, mhl=5))
            evs.append(replay())                      # L others accepted: outside
            evs.append(replay())                      # and once accepted again, a duplicate again
            short.run(st, evs)
            ctx.count(1, "dpl_window_L%d_%s" % (L, kind))
    short.compare()


# the station's way between the first reception of a GeoBroadcast / GeoAnycast packet and its duplicate, as sides of the
# packet's area: i = a position inside, o = outside, = the same position reported again
WAYS_FROM_INSIDE = ("", "=", "i", "o", "oi", "oo", "oio")
WAYS_FROM_OUTSIDE = ("", "=", "o", "i", "io", "ioi")
DUP_KINDS = ("exact", "one_hop_less", "other_hops")
EXPIRY = ("after_duplicate", "before_duplicate", "before_moving", "between_moves")


def moves_between_copies(ctx, rounds, full):
    """a packet, position updates of the station, a duplicate of the packet, CBF timer expiries at any point in between.
    The property has no exception for a station that moved: the duplicate is neither delivered nor forwarded, a copy still
    waiting in the CBF buffer is dropped (and not sent by a timer later), a copy sent before the duplicate is the packet
    with RHL - 1, wherever the station is when the duplicate / the expiry comes.  Areas of every shape, size and
    orientation; the first reception inside or outside; every way in WAYS_*; the duplicate as received, as re-broadcast by
    another forwarder (one hop less) or with another hop count; CBF / SIMPLE / UNSPECIFIED.  full: the whole product,
    otherwise every way with every duplicate kind and a drawn expiry point.  Judged by oracle_history like every history."""
    rng = ctx.rng
    base = (413800000, 21100000)
    short = ShortHistories(ctx)
    for rnd in range(rounds):
        combos = [(start, way, dk, ex) for start, ways in (("inside", WAYS_FROM_INSIDE), ("outside", WAYS_FROM_OUTSIDE))
                  for way in ways for dk in DUP_KINDS for ex in (EXPIRY if full else (None,))]
        for start, way, dk, ex in combos:
            ex = ex or rng.choice(EXPIRY + ("after_duplicate",) * 3)
            kind = "gbc" if rng.random() < 0.85 else "gac"
            shape = rng.choice([0, 1, 2])
            a = rng.choice([1, 5, 30, 300, 1500, rng.randrange(1, 1500)])
            b = rng.choice([1, 5, 30, 300, 1500, rng.randrange(1, 1500)])
            centre = rng.choice([base, (-338688000, 1512093000), (-100, -100)])
            area = (centre[0] + rng.randrange(-3000, 3001), centre[1] + rng.randrange(-3000, 3001), a, b,
                    rng.choice([0, 45, 90, 359, rng.randrange(360)]), shape)
            p0 = _side_of(rng, area, start == "inside")
            if p0 is None:
                continue
            rs.VCLOCK.set_ms(1_700_000_000_000 + rng.randrange(0, 10 ** 9))
            st = rs.Station(area_alg=rng.choice(["CBF"] * 8 + ["SIMPLE", "UNSPECIFIED"]), dpl_len=rng.choice([1, 2, 8]),
                            ego=p0, mobile=rng.random() < 0.7)
            sc = rs.Scenario(rng, st, n_sources=2, rich=True)
            S, N = sc.sources
            spos = _side_of(rng, area, rng.random() < 0.5) or S.pos[0]      # the sender: inside or outside the area
            st.positions = {p0, spos, N.pos[0], (0, 0)}                     # (the rows of the model's geometry tables)
            evs = [sc.rx_event("beacon", src=N, rhl=1, mhl=1, pos=N.pos[0])]
            rhl = rng.choice([2, 2, 3, 10, 255, rng.randrange(2, 256), 1])
            first = sc.rx_event(kind, src=S, rhl=rhl, mhl=rng.choice([rhl, 255]), area=area, pos=spos,
                                scf=int(rng.random() < 0.3))
            evs.append(first)
            key = list(S.addr) + [first["sn"]]

            def expiry():
                sc.now += rng.choice([0, 1, 100])
                evs.append({"ev": "cbf", "key": list(key)})

            def copy(how):
                e = dict(first)
                e["now"], e["dup_of"] = sc.now, True
                bb = bytearray(e["pkt"])
                if how == "one_hop_less" and bb[3] > 0:
                    bb[3] -= 1
                elif how == "other_hops":
                    bb[3] = rng.choice([0, 1, 2, bb[10], rng.randrange(0, bb[10] + 1)])
                e["pkt"], e["rhl"] = bytes(bb), bb[3]
                return e
            if ex == "before_moving":
                expiry()
            here = p0
            for j, c in enumerate(way):
                if c != "=":
                    here = _side_of(rng, area, c == "i") or here
                sc.now += rng.choice([1, 100, 1000])
                evs.append({"ev": "tick", "ms": 1})
                evs.append({"ev": "ego", "pv": ego_pv(st, sc.now, here, rng), "move": "to_" + {"i": "inside", "o": "outside", "=": "same_place"}[c]})
                if ex == "between_moves" and j == 0:
                    expiry()
            if ex == "before_duplicate":
                expiry()
            evs.append(copy(dk))
            expiry()                                   # a timer that was not stopped would fire now
            if rng.random() < 0.5:                     # ... or after the station has moved once more
                here = _side_of(rng, area, rng.random() < 0.5) or here
                evs.append({"ev": "ego", "pv": ego_pv(st, sc.now, here, rng), "move": "on"})
                evs.append(copy(rng.choice(DUP_KINDS)))
                expiry()
            short.run(st, evs)
            ctx.count(1, "moves_%s_first_%s_then_%s" % (kind, start, way or "stays"))
            ctx.count(1, "moves_duplicate_%s_expiry_%s" % (dk, ex))
        short.compare()


# --------------------------------------------------------------------------- floods in a network of real routers
def _flood_move(ctx, nodes, area):
    """a station of the network moves on while the packet spreads: to a position inside or outside the packet's area
    (GeoBroadcast / GeoAnycast), or by up to some hundred metres (Router.refresh_ego_position_vector)"""
    rng = ctx.rng
    n = rng.choice(nodes)
    pv = n["r"].ego_position_vector
    pos = _side_of(rng, area, rng.random() < 0.5) if area is not None and rng.random() < 0.8 else None
    if pos is None:
        pos = (pv.latitude + rng.randrange(-50000, 50001), pv.longitude + rng.randrange(-50000, 50001))
    # through the station's own interface for position fixes (GPSD TPV report: degrees, m/s, degrees, ISO time)
    n["r"].refresh_ego_position_vector({
        "lat": pos[0] / 1e7, "lon": pos[1] / 1e7, "speed": rng.choice([0.0, 1.5, 13.9, 40.0]), "track": rng.choice([0.0, 90.0, 359.9]),
        "time": datetime.datetime.fromtimestamp(stack.VCLOCK.ms / 1000, datetime.timezone.utc).isoformat()})


def _flood_emission(ctx, inp, node, key):
    """a station transmits a packet it has heard: then it has heard it exactly once - a second copy is a duplicate (never
    forwarded), and under contention-based forwarding it ends the wait of the first"""
    if node["heard"].get(key, 0) > 1:
        ctx.property_failure("flood_forward_after_duplicate", inp, "a station transmitted a packet after it had overheard a "
                             "duplicate of it (under CBF the copy waiting in the buffer was not dropped)", 1, node["heard"][key])


def flood(ctx, n_nodes, topo, alg, hop_limit, moving=False):
    from flexstack.geonet.service_access_point import (GNDataRequest, PacketTransportType, HeaderType, GeoBroadcastHST,
                                                       Area, CommonNH, TrafficClass)
    stack.FakeTimer.reset()
    rs.VCLOCK.set_ms(1_700_000_500_000)
    nodes = []
    base = (413800000, 21100000)
    for i in range(n_nodes):
        ll = stack.CaptureLL()
        r = stack.make_router(ll, local_mid=0x0A0B0C0D3000 + i, mib_kw=dict(
            itsGnAreaForwardingAlgorithm=getattr(__import__("flexstack.geonet.mib", fromlist=["x"]).AreaForwardingAlgorithm, alg)))
        stack.set_ego(r, base[0] + i * 900, base[1] + i * 1200)
        inds = []
        r.register_indication_callback(inds.append)
        nodes.append({"r": r, "ll": ll, "inds": inds, "fwd": {}, "heard": {}})
    if topo == "line":
        links = {i: [j for j in (i - 1, i + 1) if 0 <= j < n_nodes] for i in range(n_nodes)}
    else:
        links = {i: [j for j in range(n_nodes) if j != i] for i in range(n_nodes)}
    # everybody hears a beacon of its neighbours first
    for i in range(n_nodes):
        nodes[i]["r"].gn_data_request_beacon()
        b = nodes[i]["ll"].sent.pop()
        for j in links[i]:
            nodes[j]["r"].gn_data_indicate(b)
    req = GNDataRequest(upper_protocol_entity=CommonNH.BTP_B,
                        packet_transport_type=PacketTransportType(HeaderType.GEOBROADCAST, GeoBroadcastHST.GEOBROADCAST_CIRCLE),
                        traffic_class=TrafficClass(), data=b"\x07\xd2\x00\x00flood", length=9, max_hop_limit=hop_limit,
                        area=Area(latitude=base[0], longitude=base[1], a=1000, b=1000, angle=0))
    nodes[0]["r"].gn_data_request(req)
    transmissions, steps = 0, 0
    queue = []
    inp = {"op": "flood", "nodes": n_nodes, "topology": topo, "algorithm": alg, "hop_limit": hop_limit, "moving": moving}
    while steps < 5000:
        steps += 1
        for i, n in enumerate(nodes):
            while n["ll"].sent:
                f = n["ll"].sent.pop(0)
                _flood_emission(ctx, inp, n, (f[16:24], f[12:14]))
                queue.append((i, f))
        if moving and ctx.rng.random() < 0.5:
            _flood_move(ctx, nodes, (base[0], base[1], 1000, 1000, 0, 0))
        if not queue:
            pend = stack.FakeTimer.pending()
            if not pend:
                break
            t = min(pend, key=lambda x: (x.due, x.id))
            stack.VCLOCK.ms = max(stack.VCLOCK.ms, t.due)
            t.fire()
            continue
        i, pkt = queue.pop(0)
        transmissions += 1
        key = (pkt[16:24], pkt[12:14])
        nodes[i]["fwd"][key] = nodes[i]["fwd"].get(key, 0) + 1
        if nodes[i]["fwd"][key] > 1:
            ctx.property_failure("flood_forward_twice", inp, "a station transmitted the same (source, SN) twice", 1, nodes[i]["fwd"][key])
        for j in links[i]:
            nodes[j]["heard"][key] = nodes[j]["heard"].get(key, 0) + 1
            nodes[j]["r"].gn_data_indicate(pkt)
    ctx.count(1, "flood_" + topo + "_" + alg + ("_stations_moving" if moving else ""))
    if steps >= 5000:
        ctx.property_failure("flood_no_termination", inp, "the flood did not terminate", "drains", transmissions)
    if transmissions > n_nodes:
        ctx.property_failure("flood_too_many", inp, "more transmissions than stations for one packet", n_nodes, transmissions)
    for j in range(1, n_nodes):
        got = len(nodes[j]["inds"])
        reach = topo == "mesh" or j < hop_limit + (0 if hop_limit > 1 else 10)
        if got > 1:
            ctx.property_failure("flood_delivered_twice", inp, "a station delivered the flooded packet more than once", 1, got)
    if nodes[0]["inds"]:
        ctx.property_failure("flood_delivered_to_sender", inp, "the originator delivered its own packet", 0, len(nodes[0]["inds"]))
    ctx.nontriv(("flood", n_nodes, topo, alg, hop_limit, transmissions, moving))
    return transmissions


def flood_injected(ctx, n_nodes, topo, alg, kind, rhl, moving=False):
    """a multi-hop packet of a station X outside the network is heard by node 0 and spreads: TSB, LS request, GeoUnicast
    and LS reply towards the last node, GeoBroadcast / GeoAnycast towards an area around the last node (the nodes before
    it are outside: non-area forwarding, Annex D).  Every station transmits the packet at most once, delivers it at most
    once, and the spreading stops."""
    from flexstack.geonet.mib import AreaForwardingAlgorithm
    stack.FakeTimer.reset()
    rs.VCLOCK.set_ms(1_700_000_700_000)
    base = (413800000, 21100000)
    nodes = []
    for i in range(n_nodes):
        ll = stack.CaptureLL()
        r = stack.make_router(ll, local_mid=0x0A0B0C0D3000 + i, mib_kw=dict(
            itsGnAreaForwardingAlgorithm=getattr(AreaForwardingAlgorithm, alg)))
        stack.set_ego(r, base[0] + i * 900, base[1] + i * 1200)
        inds = []
        r.register_indication_callback(inds.append)
        nodes.append({"r": r, "ll": ll, "inds": inds, "fwd": {}, "heard": {}})
    if topo == "line":
        links = {i: [j for j in (i - 1, i + 1) if 0 <= j < n_nodes] for i in range(n_nodes)}
    else:
        links = {i: [j for j in range(n_nodes) if j != i] for i in range(n_nodes)}
    for i in range(n_nodes):
        nodes[i]["r"].gn_data_request_beacon()
        b = nodes[i]["ll"].sent.pop()
        for j in links[i]:
            nodes[j]["r"].gn_data_indicate(b)
    X = (0, 5, 0x0A0B0C0D3FFF)
    xpos = (base[0] - 900, base[1] - 1200)
    tst = rs.VCLOCK.its_ms() % 2 ** 32
    last = n_nodes - 1
    lpos = (base[0] + last * 900, base[1] + last * 1200)
    de = ((0, 5, 0x0A0B0C0D3000 + last), tst, lpos[0], lpos[1])
    sn = ctx.rng.choice([0, 1, 65535, ctx.rng.randrange(65536)])
    payload = b"\x07\xd2\x00\x00inj"
    if kind == "tsb":
        pkt = stack.tsb_bytes(X, sn, tst, xpos[0], xpos[1], payload, rhl=rhl, mhl=rhl)
    elif kind == "lsreq":
        pkt = stack.ls_request_bytes(X, sn, tst, xpos[0], xpos[1], (0, 5, 0x0A0B0C0D3EEE), rhl=rhl, mhl=rhl)
    elif kind in ("gbc", "gac"):
        pkt = stack.gbc_bytes(X, sn, tst, xpos[0], xpos[1], (lpos[0], lpos[1], 20, 20, 0), payload,
                              ht=4 if kind == "gbc" else 3, hst=0, rhl=rhl, mhl=rhl)
    elif kind == "guc":
        pkt = stack.guc_bytes(X, sn, tst, xpos[0], xpos[1], de, payload, rhl=rhl, mhl=rhl)
    else:
        pkt = stack.ls_reply_bytes(X, sn, tst, xpos[0], xpos[1], de, rhl=rhl, mhl=rhl)
    inp = {"op": "flood_injected", "kind": kind, "nodes": n_nodes, "topology": topo, "algorithm": alg, "rhl": rhl,
           "packet": pkt.hex(), "moving": moving}
    area = (lpos[0], lpos[1], 20, 20, 0, 0) if kind in ("gbc", "gac") else None
    nodes[0]["heard"][(pkt[16:24], pkt[12:14], pkt[5])] = 1
    nodes[0]["r"].gn_data_indicate(pkt)
    transmissions, steps, queue = 0, 0, []
    while steps < 5000:
        steps += 1
        for i, n in enumerate(nodes):
            while n["ll"].sent:
                f = n["ll"].sent.pop(0)
                if f[5] >> 4 != 1:
                    _flood_emission(ctx, inp, n, (f[16:24], f[12:14], f[5]))
                queue.append((i, f))
        if moving and ctx.rng.random() < 0.5:
            _flood_move(ctx, nodes, area)
        if not queue:
            pend = stack.FakeTimer.pending()
            if not pend:
                break
            t = min(pend, key=lambda x: (x.due, x.id))
            stack.VCLOCK.ms = max(stack.VCLOCK.ms, t.due)
            t.fire()
            continue
        i, p = queue.pop(0)
        if p[5] >> 4 == 1:
            continue                      # beacons are not part of the flood
        transmissions += 1
        key = (p[16:24], p[12:14], p[5])
        nodes[i]["fwd"][key] = nodes[i]["fwd"].get(key, 0) + 1
        if nodes[i]["fwd"][key] > 1:
            ctx.property_failure("flood_forward_twice", inp, "a station transmitted the same (source, SN) twice", 1, nodes[i]["fwd"][key])
        if p[3] >= pkt[3] or p[4:12] != pkt[4:12] or p[12:40] != pkt[12:40]:
            ctx.property_failure("flood_copy_changed", inp, "a copy travelling through the network does not carry the original "
                                 "headers with a lower hop limit", pkt.hex(), p.hex())
        for j in links[i]:
            nodes[j]["heard"][key] = nodes[j]["heard"].get(key, 0) + 1
            nodes[j]["r"].gn_data_indicate(p)
    ctx.count(1, "flood_injected_" + kind + "_" + topo + "_" + alg + ("_stations_moving" if moving else ""))
    if steps >= 5000:
        ctx.property_failure("flood_no_termination", inp, "the flood did not terminate", "drains", transmissions)
    if transmissions > n_nodes:
        ctx.property_failure("flood_too_many", inp, "more transmissions than stations for one packet", n_nodes, transmissions)
    if rhl <= 1 and transmissions:
        ctx.property_failure("forward_rhl_le_1", inp, "a packet received with hop limit 0 or 1 was forwarded", 0, transmissions)
    for j in range(n_nodes):
        if len(nodes[j]["inds"]) > 1:
            ctx.property_failure("flood_delivered_twice", inp, "a station delivered the packet more than once", 1, len(nodes[j]["inds"]))
    ctx.nontriv(("flood_injected", kind, n_nodes, topo, alg, rhl, transmissions, tuple(len(n["inds"]) for n in nodes), moving))
    return transmissions


def moving_floods(ctx, reps, sizes, algs):
    """the floods again, in networks whose stations move on while the packet spreads (half of the steps, one station: to
    the other side of the packet's area, or some hundred metres): every station still transmits the packet at most once
    and never after it overheard a duplicate, delivers it at most once, and the spreading stops"""
    for _ in range(reps):
        for n in sizes:
            for topo in ("line", "mesh"):
                for alg in algs:
                    flood(ctx, n, topo, alg, ctx.rng.choice([0, 1, 2, 3, 10, 255]), moving=True)
                    for kind in ("tsb", "lsreq", "gbc", "gac", "guc", "lsrep"):
                        flood_injected(ctx, n, topo, alg, kind, ctx.rng.choice([0, 1, 2, 3, 10, 255]), moving=True)


def run(ctx):
    ctx.rule = ("seeded single-station histories (fresh packets, exact duplicates, replays with another hop count, own-address "
                "packets of every type incl. the own MID under another station type; TSB/GBC/GAC/GUC/LS request/LS reply with "
                "speed, heading, mobility flag, offload bit, lifetime code, station type and M bit varied; RHL over "
                "{0,1,2,127,128,254,255,random}; DPL lengths 1/2/8; SIMPLE, UNSPECIFIED and CBF with harness-chosen timer expiry "
                "points; LS retransmission limits 0/1/2/10; histories with every source wrapping its sequence number; "
                "histories received through the secured branch of the router) checked against the property clauses with an "
                "independent duplicate-window bookkeeping and compared event by event with the model; the two ends of the "
                "duplicate window for every type and length; the station's own position refreshed between the events "
                "(same place, jitter, metres, kilometres, back, across the border of a recently named area) in histories of "
                "their own, and every way of the station (inside / outside the packet's area, up to three moves) between a "
                "GeoBroadcast / GeoAnycast packet and its duplicate x duplicate as received / one hop less / other hop count x "
                "CBF timer expiry before / between / after; floods in line and mesh networks of 3-5 real routers, "
                "originated (GBC) and injected (TSB, LS, GUC, GBC/GAC towards a distant area), with static and with moving "
                "stations; non-trivial = a fresh "
                "multi-hop packet was processed; distinct by (kind, source, sn, rhl, forwarded?, delivered?)")
    rs.stack.patch_time()
    inj = ("tsb", "lsreq", "gbc", "gac", "guc", "lsrep")
    if ctx.tier == "quick":
        histories(ctx, 90, 90)
        histories(ctx, 14, 70, wrap=True)
        histories(ctx, 14, 70, secured=True)
        dpl_windows(ctx, (1, 2, 3, 8))
        moves_between_copies(ctx, 1, True)
        moves_between_copies(ctx, 1, False)
        histories(ctx, 14, 70, moving=True)
        for n in (3, 5):
            for topo in ("line", "mesh"):
                for alg in ("SIMPLE", "CBF"):
                    flood(ctx, n, topo, alg, ctx.rng.choice([2, 3, 10]))
                    for kind in inj:
                        flood_injected(ctx, n, topo, alg, kind, ctx.rng.choice([0, 1, 2, 3, 10, 255]))
        moving_floods(ctx, 3, (3, 4, 5), ("SIMPLE", "CBF"))
    else:
        histories(ctx, 600, 160)
        histories(ctx, 80, 120, wrap=True)
        histories(ctx, 100, 120, secured=True)
        histories(ctx, 30, 120, wrap=True, secured=True)
        dpl_windows(ctx, (1, 2, 3, 4, 8, 16))
        moves_between_copies(ctx, 6, True)
        moves_between_copies(ctx, 6, False)
        histories(ctx, 120, 120, moving=True)
        histories(ctx, 30, 120, moving=True, wrap=True)
        histories(ctx, 30, 120, moving=True, secured=True)
        moving_floods(ctx, 20, (3, 4, 5), ("SIMPLE", "CBF", "UNSPECIFIED"))
        for n in (3, 4, 5):
            for topo in ("line", "mesh"):
                for alg in ("SIMPLE", "CBF", "UNSPECIFIED"):
                    for hl in (0, 1, 2, 3, 10, 255):
                        flood(ctx, n, topo, alg, hl)
                        for kind in inj:
                            flood_injected(ctx, n, topo, alg, kind, hl)
    ctx.exhaustive = False


def replay(ctx, data):
    f = data.get("failure") or (data.get("broken") or [{}])[-1].get("first")
    print(json.dumps(f, default=str)[:3000])
    ctx.model = common.Model(MODEL_NAME)
    ctx.rng.seed(data.get("seed", 0))
    run(ctx)
    bad = ctx.failures or ctx.mismatches or ctx.known_hits
    print("REPRODUCED" if bad else "NOT REPRODUCED")
    return 1 if bad else 0
