(* Lemmas about Model/Sec.v used by C09 (trust store closure, signer
   authorisation, issuing API) and shared with C03 / C05. *)
From FlexVerif Require Import Base.Prelude Model.Sec Model.SecSpec.
From Coq Require Import ZifyBool.

Set Default Proof Using "Type".
Section SecProofs.
Variable hash8 : cert -> Z.
Variable sig_ok : Z -> Z -> Z -> bool.
Variable sign : Z -> Z -> Z.
Variable enc_tbs : tbsdata -> Z.

Notation cert_verify := (Sec.cert_verify hash8 sig_ok).
Notation get_issuer := (Sec.get_issuer hash8).
Notation find_key := (Sec.find_key hash8).
Notation mem_key := (Sec.mem_key hash8).
Notation key_of := (Sec.key_of hash8).
Notation put := (Sec.put hash8).
Notation add_root := (Sec.add_root hash8 sig_ok).
Notation add_aa := (Sec.add_aa hash8 sig_ok).
Notation add_at := (Sec.add_at hash8 sig_ok).
Notation add_own := (Sec.add_own hash8 sig_ok).
Notation verify_chain1 := (Sec.verify_chain1 hash8 sig_ok).
Notation verify_chain2 := (Sec.verify_chain2 hash8 sig_ok).
Notation verify_chain := (Sec.verify_chain hash8 sig_ok).
Notation verify_with_ticket := (Sec.verify_with_ticket hash8 sig_ok).
Notation after_success := (Sec.after_success hash8 sig_ok).
Notation notify_received := (Sec.notify_received hash8 sig_ok).
Notation header_checks := (Sec.header_checks hash8).
Notation verify_msg := (Sec.verify_msg hash8 sig_ok).
Notation issue := (Sec.issue hash8).
Notation step := (Sec.step hash8 sig_ok sign enc_tbs).
Notation run := (Sec.run hash8 sig_ok sign enc_tbs).
Notation final := (Sec.final hash8 sig_ok sign enc_tbs).
Notation rx := (Sec.rx hash8 sig_ok).
Notation sign_cam := (Sec.sign_cam hash8 sign enc_tbs).
Notation sign_denm := (Sec.sign_denm sign enc_tbs).
Notation sign_other := (Sec.sign_other hash8 sign enc_tbs).
Notation cert_ok := (SecSpec.cert_ok hash8 sig_ok).
Notation anchored := (SecSpec.anchored hash8 sig_ok).
Notation chain := (SecSpec.chain hash8 sig_ok).
Notation accepted_root := (SecSpec.accepted_root hash8 sig_ok).
Notation configured_roots := (SecSpec.configured_roots hash8 sig_ok).
Notation signer_names := (SecSpec.signer_names hash8).
Notation accepted_under := (SecSpec.accepted_under sig_ok).

Definition entry_chained (R : list cert) (e : entry) : Prop :=
  exists i j, e_iss e = Some i /\ cert_ok (e_cert e) i /\ hash8 i = hash8 j /\ anchored R j.

Definition store_inv (R : list cert) (st : store) : Prop :=
  (forall e, In e (roots st) -> In (e_cert e) R) /\
  (forall e, In e (aas st) -> entry_chained R e) /\
  (forall e, In e (ats st) -> entry_chained R e).

Lemma chained_anchored R e : entry_chained R e -> anchored R (e_cert e).
Proof. intros (i & j & _ & Hok & Hh & Ha). eapply anc_link; eauto. Qed.

Ltac unfold_codes := unfold R_SUCCESS, R_FALSE_SIGNATURE, R_INVALID_CERTIFICATE, R_INCONSISTENT_CHAIN,
  R_INVALID_TIMESTAMP, R_SIGNER_NOT_FOUND, R_UNSUPPORTED_SIGNER, R_INCOMPATIBLE_PROTOCOL in *.

(* ---------- basic facts --------------------------------------------------- *)
Lemma zmem_In x l : zmem x l = true <-> In x l.
Proof.
  unfold zmem. rewrite existsb_exists. split.
  - intros (y & Hy & E). apply Z.eqb_eq in E. subst. exact Hy.
  - intros H. exists x. split; [exact H|apply Z.eqb_refl].
Qed.

Lemma subset_incl a b : subset a b = true -> forall p, In p a -> In p b.
Proof.
  unfold subset. rewrite forallb_forall. intros H p Hp. apply zmem_In. auto.
Qed.

Lemma perms_ok_contained c i : perms_ok c i = Some true -> contained c i.
Proof.
  unfold perms_ok, contained. destruct (has_all i) eqn:Hi; [intros _; left; reflexivity|].
  destruct (has_all c) eqn:Hc; [discriminate|].
  unfold needed. destruct (capp c) as [a|] eqn:Ha; [|discriminate].
  intros H. injection H as H. right. split; [reflexivity|]. exists a. split; [reflexivity|].
  apply subset_incl. exact H.
Qed.

Lemma sig_valid_ok k t s : sig_valid sig_ok k t s = true -> sig_ok k t s = true.
Proof. unfold sig_valid. intros H. apply andb_true_iff in H. destruct H as [_ H]. exact H. Qed.

(* a certificate naming an issuer by digest verifies only against an attached
   issuer object for which the link is good *)
Lemma verify_issued c io d :
  cert_verify c io = Some true -> cissuer c = IssDigest d ->
  exists i, io = Some i /\ d = hash8 i /\ cert_ok c i.
Proof.
  unfold Sec.cert_verify. intros H Hd. rewrite Hd in H.
  destruct (negb (ctype_ok c)); [discriminate|].
  destruct io as [i|]; [|discriminate].
  destruct (d =? hash8 i) eqn:E; [|discriminate]. apply Z.eqb_eq in E.
  destruct (perms_ok c i) as [[|]|] eqn:P; try discriminate.
  injection H as H. apply andb_true_iff in H. destruct H as [_ H].
  exists i. split; [reflexivity|]. split; [exact E|].
  unfold cert_ok. rewrite Hd, E. split; [reflexivity|]. split.
  - apply perms_ok_contained. exact P.
  - apply sig_valid_ok. exact H.
Qed.

Lemma find_key_some d l e : find_key d l = Some e -> In e l /\ key_of e = d.
Proof.
  unfold Sec.find_key. intros H. apply find_some in H. destruct H as [H1 H2].
  apply Z.eqb_eq in H2. split; assumption.
Qed.

Lemma find_key_none d l : find_key d l = None -> mem_key d l = false.
Proof.
  unfold Sec.find_key, Sec.mem_key. intros H.
  destruct (existsb (fun e => key_of e =? d) l) eqn:E; [|reflexivity].
  apply existsb_exists in E. destruct E as (x & Hx & Hk).
  pose proof (find_none _ _ H x Hx) as H2. cbv beta in H2. congruence.
Qed.

Lemma in_put e x l : In e (put x l) -> In e l \/ e = x.
Proof.
  unfold Sec.put. destruct (mem_key (key_of x) l).
  - rewrite in_map_iff. intros (y & Hy & Hin). destruct (key_of y =? key_of x).
    + right. congruence.
    + left. congruence.
  - intros H. apply in_app_or in H. destruct H as [H|[H|[]]]; auto.
Qed.

Lemma get_issuer_found R st c je :
  store_inv R st -> get_issuer st c = LFound je ->
  exists d, cissuer c = IssDigest d /\ hash8 (e_cert je) = d /\ anchored R (e_cert je).
Proof.
  intros (Hr & Ha & _). unfold Sec.get_issuer.
  destruct (cissuer c) as [| |d|d]; try discriminate.
  destruct (find_key d (roots st)) as [e|] eqn:F1.
  - intros H. injection H as <-. apply find_key_some in F1. destruct F1 as [Hin Hk].
    exists d. split; [reflexivity|]. split; [exact Hk|]. apply anc_root. auto.
  - destruct (find_key d (aas st)) as [e|] eqn:F2; [|discriminate].
    intros H. injection H as <-. apply find_key_some in F2. destruct F2 as [Hin Hk].
    exists d. split; [reflexivity|]. split; [exact Hk|]. apply chained_anchored. auto.
Qed.

Lemma new_entry_chained R st c io je :
  store_inv R st -> get_issuer st c = LFound je -> cert_verify c io = Some true ->
  entry_chained R (mkEntry c io).
Proof.
  intros Hinv Hg Hv. destruct (get_issuer_found _ _ _ _ Hinv Hg) as (d & Hd & Hk & Hanc).
  destruct (verify_issued _ _ _ Hv Hd) as (i & -> & Hdi & Hok).
  exists i, (e_cert je). cbn. split; [reflexivity|]. split; [exact Hok|]. split; [congruence|exact Hanc].
Qed.

(* ---------- every library operation preserves the invariant --------------- *)
Lemma add_aa_inv R st c io : store_inv R st -> store_inv R (fst (add_aa st c io)).
Proof.
  intros Hinv. unfold Sec.add_aa. destruct (mem_key (hash8 c) (aas st)); [exact Hinv|].
  destruct (get_issuer st c) as [| |je] eqn:G; try exact Hinv.
  destruct (cert_verify c io) as [[|]|] eqn:V; try exact Hinv.
  cbn. destruct Hinv as (Hr & Ha & Ht). split; [exact Hr|]. split; [|exact Ht].
  cbn. intros e He. apply in_app_or in He. destruct He as [He|[<-|[]]]; [auto|].
  eapply new_entry_chained; eauto. repeat split; assumption.
Qed.

Lemma add_at_inv R st c io : store_inv R st -> store_inv R (fst (add_at st c io)).
Proof.
  intros Hinv. unfold Sec.add_at. destruct (mem_key (hash8 c) (ats st)); [exact Hinv|].
  destruct (get_issuer st c) as [| |je] eqn:G; try exact Hinv.
  destruct (cert_verify c io) as [[|]|] eqn:V; try exact Hinv.
  cbn. destruct Hinv as (Hr & Ha & Ht). split; [exact Hr|]. split; [exact Ha|].
  cbn. intros e He. apply in_app_or in He. destruct He as [He|[<-|[]]]; [auto|].
  eapply new_entry_chained; eauto. repeat split; assumption.
Qed.

Lemma add_own_inv R st c io : store_inv R st -> store_inv R (fst (add_own st c io)).
Proof.
  intros Hinv. unfold Sec.add_own.
  destruct (get_issuer st c); try exact Hinv.
  destruct (cert_verify c io) as [[|]|]; exact Hinv.
Qed.

Lemma add_root_inv R st c io :
  (cert_verify c io = Some true -> In c R) ->
  store_inv R st -> store_inv R (fst (add_root st c io)).
Proof.
  intros HR Hinv. unfold Sec.add_root.
  destruct (cert_verify c io) as [[|]|] eqn:V; try exact Hinv.
  cbn. destruct Hinv as (Hr & Ha & Ht). split; [|split; assumption].
  cbn. intros e He. apply in_put in He. destruct He as [He| ->]; [auto|]. cbn. auto.
Qed.

Lemma verify_chain1_inv R st c : store_inv R st -> store_inv R (fst (verify_chain1 st c)).
Proof.
  intros Hinv. unfold Sec.verify_chain1.
  destruct (find_key (hash8 c) (ats st)); [exact Hinv|].
  destruct (get_issuer st c) as [| |ie]; try exact Hinv.
  destruct (cert_verify c (Some (e_cert ie))) as [[|]|]; try exact Hinv.
  pose proof (add_at_inv R st c (Some (e_cert ie)) Hinv) as H.
  destruct (add_at st c (Some (e_cert ie))) as [st1 cr]. cbn in H. destruct cr; exact H.
Qed.

Lemma verify_chain2_inv R st c a : store_inv R st -> store_inv R (fst (verify_chain2 st c a)).
Proof.
  intros Hinv. unfold Sec.verify_chain2.
  destruct (cissuer a) as [| |d|d]; try exact Hinv.
  destruct (find_key d (roots st)) as [r|]; [|exact Hinv].
  destruct (cert_verify a (Some (e_cert r))) as [[|]|]; try exact Hinv.
  pose proof (add_aa_inv R st a (Some (e_cert r)) Hinv) as H1.
  destruct (add_aa st a (Some (e_cert r))) as [st1 cr]. cbn in H1. destruct cr; [exact H1|].
  destruct (cert_verify c (Some a)) as [[|]|]; try exact H1.
  pose proof (add_at_inv R st1 c (Some a) H1) as H2.
  destruct (add_at st1 c (Some a)) as [st2 cr2]. cbn in H2. destruct cr2; exact H2.
Qed.

Lemma verify_chain_inv R st cs : store_inv R st -> store_inv R (fst (verify_chain st cs)).
Proof.
  intros Hinv. unfold Sec.verify_chain.
  destruct cs as [|c [|a [|r [|x l]]]]; try exact Hinv.
  - apply verify_chain1_inv. exact Hinv.
  - apply verify_chain2_inv. exact Hinv.
  - destruct (mem_key (hash8 r) (roots st)); [apply verify_chain2_inv|]; exact Hinv.
Qed.

(* ---------- message verification preserves the invariant ------------------ *)
Lemma notify_received_inv R sn c :
  store_inv R (st_store sn) -> store_inv R (st_store (fst (notify_received sn c))).
Proof.
  intros Hinv. unfold Sec.notify_received.
  pose proof (add_aa_inv R (st_store sn) c None Hinv) as H.
  destruct (add_aa (st_store sn) c None) as [st' cr]. exact H.
Qed.

Lemma after_success_inv R sn c t :
  store_inv R (st_store sn) -> store_inv R (st_store (fst (after_success sn c t))).
Proof.
  intros Hinv. unfold Sec.after_success.
  set (sn1 := match t_inline t with Some l => _ | None => sn end).
  assert (H1 : store_inv R (st_store sn1)) by (subst sn1; destruct (t_inline t); exact Hinv).
  destruct (t_reqcert t) as [rc|]; [|exact H1].
  pose proof (notify_received_inv R sn1 rc H1) as H2.
  destruct (notify_received sn1 rc) as [sn2 cr]. destruct cr; exact H2.
Qed.

Lemma verify_with_ticket_inv R sn e m :
  store_inv R (st_store sn) -> store_inv R (st_store (fst (verify_with_ticket sn e m))).
Proof.
  intros Hinv. unfold Sec.verify_with_ticket.
  destruct (cert_verify (e_cert e) (e_iss e)) as [[|]|]; try exact Hinv.
  destruct (negb (is_at (e_cert e))); [exact Hinv|].
  destruct (header_checks (e_cert e) (m_tbsd m)); [exact Hinv|].
  destruct ((m_sig m =? 0) || (ckey (e_cert e) =? 0)); [exact Hinv|].
  destruct (sig_ok (ckey (e_cert e)) (m_tbs m) (m_sig m)); [|exact Hinv].
  destruct (t_payload (m_tbsd m) =? 0); [exact Hinv|].
  apply after_success_inv. exact Hinv.
Qed.

Lemma verify_msg_inv R sn m :
  store_inv R (st_store sn) -> store_inv R (st_store (fst (verify_msg sn m))).
Proof.
  intros Hinv. unfold Sec.verify_msg.
  destruct (negb (m_ok m)); [exact Hinv|].
  destruct (m_signer m) as [d|cs|].
  - destruct (t_psid (m_tbsd m) =? 37); [exact Hinv|].
    destruct (find_key d (ats (st_store sn))); [|exact Hinv].
    apply verify_with_ticket_inv. exact Hinv.
  - destruct cs as [|c0 [|c1 l]]; try exact Hinv.
    pose proof (verify_chain_inv R (st_store sn) [c0] Hinv) as H.
    destruct (verify_chain (st_store sn) [c0]) as [st1 cr]. cbn [fst] in H.
    destruct cr as [| |e]; try exact H.
    apply verify_with_ticket_inv. exact H.
  - destruct (t_psid (m_tbsd m) =? 37); exact Hinv.
Qed.

Lemma rx_inv R sn se vs vo nh body m :
  store_inv R (st_store sn) -> store_inv R (st_store (fst (rx sn se vs vo nh body m))).
Proof.
  intros Hinv. unfold Sec.rx.
  destruct (negb vo); [exact Hinv|].
  destruct (nh =? 1); [destruct se; exact Hinv|].
  destruct (nh =? 2); [|exact Hinv].
  destruct (negb vs); [exact Hinv|].
  pose proof (verify_msg_inv R sn m Hinv) as H.
  destruct (verify_msg sn m) as [sn' r]. cbn [fst] in H.
  destruct r; try exact H. destruct (code =? R_SUCCESS); exact H.
Qed.

Lemma sign_cam_store sn now psid gen payload :
  st_store (fst (sign_cam sn now psid gen payload)) = st_store sn.
Proof.
  unfold Sec.sign_cam.
  destruct (requested (st_sign sn)) as [|h r].
  - destruct (present_at (st_store sn) psid); [|reflexivity].
    destruct (full_cert_due (st_sign sn) now); reflexivity.
  - destruct (ca_by_h3 hash8 (st_store sn) h); [|reflexivity].
    destruct (present_at (st_store sn) psid); [|reflexivity].
    destruct (full_cert_due (st_sign sn) now); reflexivity.
Qed.

Lemma step_inv R sn o :
  (forall c, In c (accepted_root o) -> In c R) ->
  store_inv R (st_store sn) -> store_inv R (st_store (fst (step sn o))).
Proof.
  intros HR Hinv. destruct o; cbn [Sec.step Sec.lift fst st_store].
  - apply add_root_inv; [|exact Hinv]. intros V. apply HR. cbn. rewrite V. left. reflexivity.
  - apply add_aa_inv. exact Hinv.
  - apply add_at_inv. exact Hinv.
  - apply add_own_inv. exact Hinv.
  - pose proof (verify_chain_inv R (st_store sn) cs Hinv) as H.
    destruct (verify_chain (st_store sn) cs) as [st1 cr]. exact H.
  - apply verify_msg_inv. exact Hinv.
  - exact Hinv.
  - rewrite sign_cam_store. exact Hinv.
  - unfold Sec.sign_denm. destruct (present_at (st_store sn) psid); exact Hinv.
  - unfold Sec.sign_other. destruct (present_at (st_store sn) psid); exact Hinv.
  - apply rx_inv. exact Hinv.
Qed.

Lemma run_inv R ops : forall sn,
  (forall o, In o ops -> forall c, In c (accepted_root o) -> In c R) ->
  store_inv R (st_store sn) -> store_inv R (st_store (final sn ops)).
Proof.
  unfold Sec.final. induction ops as [|o r IH]; intros sn HR Hinv; cbn [Sec.run].
  - exact Hinv.
  - pose proof (step_inv R sn o (HR o (or_introl eq_refl)) Hinv) as H1.
    destruct (step sn o) as [sn1 x]. cbn [fst] in H1.
    specialize (IH sn1 (fun o' Ho' => HR o' (or_intror Ho')) H1).
    destruct (run sn1 r) as [sn2 xs]. exact IH.
Qed.

Lemma init_inv R : store_inv R (st_store init_station).
Proof. repeat split; intros e []. Qed.

Lemma history_inv ops : store_inv (configured_roots ops) (st_store (final init_station ops)).
Proof.
  apply run_inv; [|apply init_inv].
  intros o Ho c Hc. unfold configured_roots. apply in_flat_map. exists o. split; assumption.
Qed.

(* C09, clause 1 *)
Lemma store_closed ops e :
  In e (aas (st_store (final init_station ops))) \/ In e (ats (st_store (final init_station ops))) ->
  anchored (configured_roots ops) (e_cert e).
Proof.
  intros H. destruct (history_inv ops) as (_ & Ha & Ht).
  apply chained_anchored. destruct H; auto.
Qed.

Lemma roots_configured ops e :
  In e (roots (st_store (final init_station ops))) -> In (e_cert e) (configured_roots ops).
Proof. intros H. destruct (history_inv ops) as (Hr & _). auto. Qed.

(* with collision-free HashedId8 the links are between the very certificates *)
Lemma anchored_chain R c : (forall a b, hash8 a = hash8 b -> a = b) -> anchored R c -> chain R c.
Proof.
  intros Hinj H. induction H as [c Hc|c i j Hok Hh _ IH].
  - apply ch_root. exact Hc.
  - apply Hinj in Hh. subst j. eapply ch_link; eauto.
Qed.

(* ---------- acceptance of a message (C09 clause 2) ------------------------ *)
Lemma header_checks_none c t :
  header_checks c t = None ->
  exists g, t_gen t = Some g /\ authorizes c (t_psid t) = true /\ valid_at c g = true /\
            t_learn t = false /\ t_crl t = false /\
            (t_psid t = 37 -> t_genloc t = true /\ denm_forbidden t = false).
Proof.
  unfold Sec.header_checks. destruct (t_gen t) as [g|]; [|discriminate].
  destruct (t_learn t || t_crl t) eqn:E1; [discriminate|].
  destruct ((t_psid t =? 37) && (negb (t_genloc t) || denm_forbidden t)) eqn:E2; [discriminate|].
  destruct (negb (authorizes c (t_psid t))) eqn:E3; [discriminate|].
  destruct (negb (valid_at c g)) eqn:E4; [discriminate|].
  intros _. exists g. apply orb_false_iff in E1. destruct E1 as [E1a E1b].
  apply negb_false_iff in E3. apply negb_false_iff in E4.
  repeat split; try assumption.
  - apply andb_false_iff in E2. destruct E2 as [E2|E2]; [apply Z.eqb_neq in E2; contradiction|].
    apply orb_false_iff in E2. destruct E2 as [E2 _]. apply negb_false_iff in E2. exact E2.
  - apply andb_false_iff in E2. destruct E2 as [E2|E2]; [apply Z.eqb_neq in E2; contradiction|].
    apply orb_false_iff in E2. destruct E2 as [_ E2]. exact E2.
Qed.

Lemma add_aa_ats st c io : ats (fst (add_aa st c io)) = ats st.
Proof.
  unfold Sec.add_aa. destruct (mem_key (hash8 c) (aas st)); [reflexivity|].
  destruct (get_issuer st c); try reflexivity.
  destruct (cert_verify c io) as [[|]|]; reflexivity.
Qed.

Lemma after_success_res sn c t sn' code certid p :
  after_success sn c t = (sn', RVerify code certid p) ->
  code = R_SUCCESS /\ certid = hash8 c /\ p = t_payload t /\
  ats (st_store sn') = ats (st_store sn).
Proof.
  unfold Sec.after_success.
  set (sn1 := match t_inline t with Some l => _ | None => sn end).
  assert (H1 : ats (st_store sn1) = ats (st_store sn)) by (subst sn1; destruct (t_inline t); reflexivity).
  destruct (t_reqcert t) as [rc|].
  - unfold Sec.notify_received.
    pose proof (add_aa_ats (st_store sn1) rc None) as H2.
    destruct (add_aa (st_store sn1) rc None) as [st' cr]. cbn [fst] in H2.
    destruct cr; [discriminate|]. intros H. injection H as <- <- <- <-. cbn. rewrite H2, H1. auto.
  - intros H. injection H as <- <- <- <-. auto.
Qed.

Lemma verify_with_ticket_success sn e m sn' certid p :
  verify_with_ticket sn e m = (sn', RVerify R_SUCCESS certid p) ->
  cert_verify (e_cert e) (e_iss e) = Some true /\ is_at (e_cert e) = true /\
  accepted_under (e_cert e) m p /\ certid = hash8 (e_cert e) /\
  ats (st_store sn') = ats (st_store sn).
Proof.
  unfold Sec.verify_with_ticket.
  destruct (cert_verify (e_cert e) (e_iss e)) as [[|]|] eqn:V; try discriminate.
  destruct (negb (is_at (e_cert e))) eqn:A; [discriminate|]. apply negb_false_iff in A.
  destruct (header_checks (e_cert e) (m_tbsd m)) as [r|] eqn:Hc.
  - intros H. injection H as _ ->. unfold Sec.header_checks in Hc. unfold_codes.
    destruct (t_gen (m_tbsd m)); [|discriminate].
    destruct (t_learn (m_tbsd m) || t_crl (m_tbsd m)); [discriminate|].
    destruct ((t_psid (m_tbsd m) =? 37) && (negb (t_genloc (m_tbsd m)) || denm_forbidden (m_tbsd m))); [discriminate|].
    destruct (negb (authorizes (e_cert e) (t_psid (m_tbsd m)))); [discriminate|].
    destruct (negb (valid_at (e_cert e) z)); discriminate.
  - destruct ((m_sig m =? 0) || (ckey (e_cert e) =? 0)); [discriminate|].
    destruct (sig_ok (ckey (e_cert e)) (m_tbs m) (m_sig m)) eqn:S; [|discriminate].
    destruct (t_payload (m_tbsd m) =? 0) eqn:P0; [discriminate|]. apply Z.eqb_neq in P0.
    intros H. apply after_success_res in H. destruct H as (_ & -> & -> & Hats).
    apply header_checks_none in Hc. destruct Hc as (g & Hg & Hau & Hval & _).
    unfold authorizes in Hau. destruct (capp (e_cert e)) as [a|] eqn:Ha; [|discriminate].
    apply zmem_In in Hau. unfold valid_at in Hval. apply andb_true_iff in Hval.
    repeat split; try assumption; try reflexivity.
    exists g, a. repeat split; try assumption; try reflexivity; lia.
Qed.

Lemma verify_chain1_some st c st1 e :
  verify_chain1 st c = (st1, CSome e) -> In e (ats st1) /\ hash8 (e_cert e) = hash8 c.
Proof.
  unfold Sec.verify_chain1.
  destruct (find_key (hash8 c) (ats st)) as [e0|] eqn:F.
  - intros H. injection H as <- <-. apply find_key_some in F. exact F.
  - destruct (get_issuer st c) as [| |ie] eqn:G; try discriminate.
    destruct (cert_verify c (Some (e_cert ie))) as [[|]|] eqn:V; try discriminate.
    unfold Sec.add_at. rewrite (find_key_none _ _ F), G, V.
    intros H. injection H as <- <-. cbn. split; [apply in_or_app; right; left; reflexivity|reflexivity].
Qed.

(* C09, clause 2: what SUCCESS means *)
Lemma verify_authorised R sn m sn' certid p :
  store_inv R (st_store sn) ->
  verify_msg sn m = (sn', RVerify R_SUCCESS certid p) ->
  exists e, In e (ats (st_store sn')) /\ signer_names (m_signer m) (e_cert e) /\
            anchored R (e_cert e) /\ is_at (e_cert e) = true /\
            accepted_under (e_cert e) m p /\ certid = hash8 (e_cert e).
Proof.
  intros Hinv H.
  pose proof (verify_msg_inv R sn m Hinv) as Hinv'. rewrite H in Hinv'. cbn [fst] in Hinv'.
  unfold Sec.verify_msg in H.
  destruct (negb (m_ok m)); [discriminate|].
  destruct (m_signer m) as [d|cs|] eqn:Sg.
  - destruct (t_psid (m_tbsd m) =? 37); [discriminate|].
    destruct (find_key d (ats (st_store sn))) as [e|] eqn:F; [|discriminate].
    apply find_key_some in F. destruct F as [Hin Hk].
    apply verify_with_ticket_success in H. destruct H as (_ & Hat & Hacc & Hid & Hats).
    exists e. rewrite Hats. split; [exact Hin|]. split; [left; unfold Sec.key_of in Hk; congruence|].
    split; [|repeat split; assumption]. apply chained_anchored. destruct Hinv' as (_ & _ & Ht). apply Ht. rewrite Hats. exact Hin.
  - destruct cs as [|c0 [|c1 l]]; try discriminate.
    cbn [Sec.verify_chain] in H.
    destruct (verify_chain1 (st_store sn) c0) as [st1 cr] eqn:VC.
    destruct cr as [| |e]; try discriminate.
    apply verify_chain1_some in VC. destruct VC as [Hin Hk].
    apply verify_with_ticket_success in H. destruct H as (_ & Hat & Hacc & Hid & Hats).
    cbn [st_store] in Hats.
    exists e. rewrite Hats. split; [exact Hin|]. split; [right; exists c0; split; [reflexivity|congruence]|].
    split; [|repeat split; assumption]. apply chained_anchored. destruct Hinv' as (_ & _ & Ht). apply Ht. rewrite Hats. exact Hin.
  - destruct (t_psid (m_tbsd m) =? 37); discriminate.
Qed.

Lemma verify_authorised_history ops m sn' certid p :
  verify_msg (final init_station ops) m = (sn', RVerify R_SUCCESS certid p) ->
  exists e, In e (ats (st_store sn')) /\ signer_names (m_signer m) (e_cert e) /\
            anchored (configured_roots ops) (e_cert e) /\ is_at (e_cert e) = true /\
            accepted_under (e_cert e) m p /\ certid = hash8 (e_cert e).
Proof. apply verify_authorised. apply history_inv. Qed.

(* ---------- issuing API (C09 clause 3) ------------------------------------- *)
Lemma issue_cases req i nd nt ns c' signed :
  cissuer req <> IssSelf ->
  issue req i nd nt ns = RCert c' signed ->
  (signed = true /\ contained req i /\ budget_ok i /\
   exists ip, set_chain req i = Some ip /\
     c' = mkCert (cid req) nd (IssDigest (hash8 i)) (cidnone req) (capp req) ip (cstart req) (cend req)
                 (ckey req) ns nt (ctype_ok req) (calg_ok req))
  \/ (signed = false /\ c' = req /\ ~ (perms_ok req i = Some true /\ chain_budget_ok i = Some true)).
Proof.
  intros Hns. unfold Sec.issue.
  destruct (cissuer req); [contradiction| | |];
  (destruct (perms_ok req i) as [[|]|] eqn:P; [| |discriminate];
   [ destruct (chain_budget_ok i) as [[|]|] eqn:B; [| |discriminate];
     [ destruct (set_chain req i) as [ip|] eqn:SC; [|discriminate];
       intros H; injection H as <- <-; left; split; [reflexivity|]; split; [apply perms_ok_contained; exact P|];
       split; [|exists ip; split; reflexivity];
       unfold chain_budget_ok in B; destruct (cissue i) as [l|] eqn:Ci; [|discriminate]; injection B as B;
       exists l; split; [exact Ci|]; intros pe Hpe; rewrite forallb_forall in B; specialize (B pe Hpe); lia
     | intros H; injection H as <- <-; right; split; [reflexivity|]; split; [reflexivity|]; intros [_ C]; discriminate ]
   | intros H; injection H as <- <-; right; split; [reflexivity|]; split; [reflexivity|]; intros [C _]; discriminate ]).
Qed.

(* a certificate that did not verify under the issuer before the call verifies after
   it only if the issuer's permissions contain the requested ones and every remaining
   chain length of the issuer is at least one *)
Lemma issue_sound req i nd nt ns c' signed :
  cissuer req <> IssSelf ->
  issue req i nd nt ns = RCert c' signed ->
  cert_verify req (Some i) <> Some true ->
  cert_verify c' (Some i) = Some true ->
  signed = true /\ contained req i /\ budget_ok i.
Proof.
  intros Hns H Hb Ha. apply issue_cases in H; [|exact Hns].
  destruct H as [(-> & Hc & Hbud & _)|(_ & -> & _)]; [auto|contradiction].
Qed.

Lemma issue_refused req i nd nt ns c' :
  issue req i nd nt ns = RCert c' false -> c' = req.
Proof.
  unfold Sec.issue. destruct (cissuer req); try discriminate;
  (destruct (perms_ok req i) as [[|]|]; try discriminate;
   [ destruct (chain_budget_ok i) as [[|]|]; try discriminate;
     [ destruct (set_chain req i); discriminate | intros H; injection H as <-; reflexivity ]
   | intros H; injection H as <-; reflexivity ]).
Qed.

Lemma last_all_chain_in il : existsb is_all il = true ->
  exists pe, In pe il /\ last_all_chain il = pe_chain pe.
Proof.
  unfold last_all_chain. generalize 0 as acc.
  induction il as [|x r IH] using rev_ind; intros acc H; [discriminate|].
  rewrite fold_left_app. cbn [fold_left]. rewrite existsb_app in H. cbn [existsb] in H.
  destruct (is_all x) eqn:Ax.
  - exists x. split; [apply in_or_app; right; left; reflexivity|reflexivity].
  - rewrite orb_false_r in H. destruct (IH acc H) as (pe & Hin & E).
    exists pe. split; [apply in_or_app; left; exact Hin|exact E].
Qed.

(* what the issued certificate may itself issue: every entry is derived from an
   entry of the issuer with the chain length reduced by one and still positive *)
Lemma set_chain_entries req i il ip pe' :
  cissue i = Some il -> set_chain req i = Some (Some ip) -> In pe' ip ->
  1 <= pe_chain pe' /\ exists pe, In pe il /\ pe_chain pe' = pe_chain pe - 1 /\
    (has_all i = false -> pe_sub pe' = pe_sub pe /\ exists ps, pe_sub pe = PExplicit ps).
Proof.
  intros Hil. unfold set_chain. destruct (cissue req) as [pes|]; [|discriminate].
  rewrite Hil. destruct (has_all i) eqn:Ha.
  - intros H. injection H as <-. rewrite filter_In, in_map_iff.
    intros [(x & <- & Hx) Hc]. cbn in *. rewrite in_map_iff in Hx. destruct Hx as (y & <- & Hy). cbn in *.
    split; [lia|]. unfold has_all in Ha. rewrite Hil in Ha.
    destruct (last_all_chain_in il Ha) as (pe & Hin & E). exists pe. split; [exact Hin|].
    split; [lia|discriminate].
  - intros H. injection H as <-. rewrite filter_In, in_map_iff.
    intros [(x & <- & Hx) Hc]. cbn in *. split; [lia|].
    rewrite in_flat_map in Hx. destruct Hx as (ipe & Hipe & Hx).
    destruct (pe_sub ipe) as [|ps] eqn:Es; [destruct Hx|].
    rewrite in_flat_map in Hx. destruct Hx as (q & _ & Hq).
    destruct (zmem q (explicit_psids pes)); [|destruct Hq]. destruct Hq as [<-|[]].
    exists ipe. split; [exact Hipe|]. split; [reflexivity|]. intros _. split; [reflexivity|]. exists ps. exact Es.
Qed.

Lemma issued_contained req i nd nt ns c' :
  cissuer req <> IssSelf ->
  issue req i nd nt ns = RCert c' true -> contained c' i.
Proof.
  intros Hns H. apply issue_cases in H; [|exact Hns].
  destruct H as [(_ & Hc & (il & Hil & _) & ip & Hsc & ->)|(C & _)]; [|discriminate].
  destruct Hc as [Hall|(Hreq & a & Ha & Hsub)]; [left; exact Hall|].
  destruct (has_all i) eqn:Hi; [left; exact Hi|]. right.
  unfold has_all at 1, issue_psids at 1. cbn [cissue capp].
  destruct ip as [ip|].
  - assert (Hent : forall pe', In pe' ip -> exists ps, pe_sub pe' = PExplicit ps /\ forall p, In p ps -> In p (issue_psids i)).
    { intros pe' Hpe'. destruct (set_chain_entries req i il ip pe' Hil Hsc Hpe') as (_ & pe & Hin & _ & Hx).
      destruct (Hx Hi) as (E1 & ps & E2). exists ps. split; [congruence|].
      intros p Hp. unfold issue_psids. rewrite Hil. unfold explicit_psids. apply in_flat_map.
      exists pe. split; [exact Hin|]. rewrite E2. exact Hp. }
    split.
    + destruct (existsb is_all ip) eqn:E; [|reflexivity]. apply existsb_exists in E.
      destruct E as (x & Hx & Ax). destruct (Hent x Hx) as (ps & E & _). unfold is_all in Ax. rewrite E in Ax. discriminate.
    + exists a. split; [exact Ha|]. intros p Hp. apply in_app_or in Hp. destruct Hp as [Hp|Hp].
      * unfold explicit_psids in Hp. apply in_flat_map in Hp. destruct Hp as (x & Hx & Hp).
        destruct (Hent x Hx) as (ps & E & Hps). rewrite E in Hp. auto.
      * apply Hsub. apply in_or_app. right. exact Hp.
  - split; [reflexivity|]. exists a. split; [exact Ha|]. intros p Hp. cbn in Hp.
    apply Hsub. apply in_or_app. right. exact Hp.
Qed.

End SecProofs.
