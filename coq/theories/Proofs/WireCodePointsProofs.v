From FlexVerif Require Import Base.Prelude Model.WireCodePoints Gen.C02Consts.

Lemma code_points_match :
  enum_CommonNH = spec_CommonNH /\ enum_HeaderType = spec_HeaderType /\ enum_GeoAnycastHST = spec_GeoAnycastHST /\
  enum_GeoBroadcastHST = spec_GeoBroadcastHST /\ enum_TopoBroadcastHST = spec_TopoBroadcastHST /\
  enum_LocationServiceHST = spec_LocationServiceHST /\ enum_HeaderSubType = spec_HeaderSubType /\
  enum_BasicNH = spec_BasicNH /\ enum_ST = spec_ST /\ enum_M = spec_M.
Proof. repeat split; reflexivity. Qed.
