From FlexVerif Require Import Base.Prelude Base.Bits Base.BitsFacts Model.Lifetime Model.Wire Proofs.LifetimeProofs.
From Coq Require Import ZifyBool.

Ltac split_wf H :=
  repeat match type of H with
         | (_ && _) = true => let H' := fresh "W" in apply andb_true_iff in H as [H H']
         end.

Ltac nonneg_ws := repeat constructor; lia.

Lemma fits_true w v : 0 <= v < 2 ^ w -> fits w v = true.
Proof. intros; apply fits_spec; assumption. Qed.

Lemma fits_elim w v : fits w v = true -> 0 <= v < 2 ^ w.
Proof. apply fits_spec. Qed.

Lemma in_s_elim w v : in_s w v = true -> - 2 ^ (w - 1) <= v < 2 ^ (w - 1).
Proof. unfold in_s. lia. Qed.

Lemma fits_unsigned w v : 0 < w -> fits w (to_unsigned w v) = true.
Proof. intros; apply fits_true, unsigned_range; assumption. Qed.

(* ---------- GN address --------------------------------------------------- *)
Lemma gnaddr_all_fit m st mid : fits 1 m = true -> 0 <= st <= 12 -> fits 48 mid = true ->
  all_fit gnaddr_ws (raw_gnaddr [m; st; mid]) = true.
Proof.
  intros Hm Hst Hmid. unfold gnaddr_ws, raw_gnaddr, arg. cbn [nth all_fit].
  rewrite Hm, Hmid. rewrite (fits_true 5 st) by (cbn; lia). rewrite (fits_true 10 0) by (cbn; lia). reflexivity.
Qed.

Lemma dec_enc_gnaddr v rest : wf_gnaddr v = true -> dec_gnaddr (enc_gnaddr v ++ rest) = Some v.
Proof.
  unfold wf_gnaddr. intros H. split_wf H.
  destruct v as [|m [|st [|mid [|? ?]]]]; try discriminate. unfold arg in *. cbn [nth] in *.
  unfold dec_gnaddr, enc_gnaddr.
  rewrite dec_enc_fields; [| nonneg_ws | reflexivity | apply gnaddr_all_fit; auto; lia ].
  unfold obind, view_gnaddr, raw_gnaddr, arg. cbn [nth]. replace (st <=? 12) with true by lia. reflexivity.
Qed.

(* ---------- LPV ------------------------------------------------------------ *)
Lemma lpv_all_fit m st mid tst lat lon pai s h :
  fits 1 m = true -> 0 <= st <= 12 -> fits 48 mid = true -> fits 1 pai = true -> fits 16 h = true ->
  all_fit lpv_ws (raw_lpv [m; st; mid; tst; lat; lon; pai; s; h]) = true.
Proof.
  intros Hm Hst Hmid Hpai Hh. unfold lpv_ws, gnaddr_ws, raw_lpv, raw_gnaddr, arg. cbn [nth firstn app all_fit].
  rewrite Hm, Hmid, Hpai, Hh. rewrite (fits_true 5 st) by (cbn; lia). rewrite (fits_true 10 0) by (cbn; lia).
  rewrite !fits_unsigned by lia.
  rewrite (fits_true 32 (tst mod 2 ^ 32)) by (apply Z.mod_pos_bound; lia). reflexivity.
Qed.

Lemma dec_enc_lpv v rest : wf_lpv v = true -> dec_lpv (enc_lpv v ++ rest) = Some v.
Proof.
  unfold wf_lpv, wf_gnaddr. intros H. split_wf H.
  destruct v as [|m [|st [|mid [|tst [|lat [|lon [|pai [|s [|h [|? ?]]]]]]]]]]; try discriminate.
  unfold arg in *. cbn [nth firstn] in *. split_wf W5.
  unfold dec_lpv, enc_lpv.
  rewrite dec_enc_fields; [| nonneg_ws | reflexivity | apply lpv_all_fit; auto; lia ].
  unfold obind, view_lpv, view_gnaddr, raw_lpv, raw_gnaddr, arg. cbn [nth firstn app].
  replace (st <=? 12) with true by lia. cbn [app].
  apply fits_elim in W4. apply in_s_elim in W3, W2, W0.
  rewrite !signed_unsigned by lia. rewrite Z.mod_small by lia. reflexivity.
Qed.

Lemma enc_lpv_length v : length (enc_lpv v) = 24%nat.
Proof. unfold enc_lpv. rewrite enc_fields_length. reflexivity. Qed.

(* the raw (unsigned) fields on the wire are exactly two's complement *)
Lemma lpv_wire_fields v : wf_lpv v = true ->
  dec_fields lpv_ws (enc_lpv v) = Some (raw_lpv v) /\
  nth 5 (raw_lpv v) 0 = (arg 4 v) mod 2 ^ 32 /\ nth 6 (raw_lpv v) 0 = (arg 5 v) mod 2 ^ 32 /\
  nth 7 (raw_lpv v) 0 = arg 6 v /\ nth 8 (raw_lpv v) 0 = (arg 7 v) mod 2 ^ 15 /\ nth 2 (raw_lpv v) 0 = 0.
Proof.
  unfold wf_lpv, wf_gnaddr. intros H. split_wf H.
  destruct v as [|m [|st [|mid [|tst [|lat [|lon [|pai [|s [|h [|? ?]]]]]]]]]]; try discriminate.
  unfold arg in *. cbn [nth firstn] in *. split_wf W5.
  split; [|repeat split].
  unfold enc_lpv. rewrite <- (app_nil_r (enc_fields _ _)).
  apply dec_enc_fields; [ nonneg_ws | reflexivity | apply lpv_all_fit; auto; lia ].
Qed.

(* ---------- SPV ------------------------------------------------------------ *)
Lemma spv_all_fit m st mid tst lat lon :
  fits 1 m = true -> 0 <= st <= 12 -> fits 48 mid = true ->
  all_fit spv_ws (raw_spv [m; st; mid; tst; lat; lon]) = true.
Proof.
  intros Hm Hst Hmid. unfold spv_ws, gnaddr_ws, raw_spv, raw_gnaddr, arg. cbn [nth firstn app all_fit].
  rewrite Hm, Hmid. rewrite (fits_true 5 st) by (cbn; lia). rewrite (fits_true 10 0) by (cbn; lia).
  rewrite !fits_unsigned by lia.
  rewrite (fits_true 32 (tst mod 2 ^ 32)) by (apply Z.mod_pos_bound; lia). reflexivity.
Qed.

Lemma dec_enc_spv v rest : wf_spv v = true -> dec_spv (enc_spv v ++ rest) = Some v.
Proof.
  unfold wf_spv, wf_gnaddr. intros H. split_wf H.
  destruct v as [|m [|st [|mid [|tst [|lat [|lon [|? ?]]]]]]]; try discriminate.
  unfold arg in *. cbn [nth firstn] in *. split_wf W2.
  unfold dec_spv, enc_spv.
  rewrite dec_enc_fields; [| nonneg_ws | reflexivity | apply spv_all_fit; auto; lia ].
  unfold obind, view_spv, view_gnaddr, raw_spv, raw_gnaddr, arg. cbn [nth firstn app].
  replace (st <=? 12) with true by lia. cbn [app].
  apply fits_elim in W1. apply in_s_elim in W0, W.
  rewrite !signed_unsigned by lia. rewrite Z.mod_small by lia. reflexivity.
Qed.

Lemma enc_spv_length v : length (enc_spv v) = 20%nat.
Proof. unfold enc_spv. rewrite enc_fields_length. reflexivity. Qed.

(* ---------- basic, common, BTP --------------------------------------------- *)
Lemma dec_enc_basic v rest : wf_basic v = true -> dec_basic (enc_basic v ++ rest) = Some v.
Proof.
  unfold wf_basic. intros H. split_wf H. unfold dec_basic, enc_basic.
  rewrite dec_enc_fields; [| nonneg_ws | reflexivity | exact H ].
  unfold obind, view_basic. rewrite W. reflexivity.
Qed.

Lemma enc_basic_length v : length (enc_basic v) = 4%nat.
Proof. unfold enc_basic. rewrite enc_fields_length. reflexivity. Qed.

Lemma dec_enc_common v rest : wf_common v = true -> dec_common (enc_common v ++ rest) = Some v.
Proof.
  unfold wf_common. intros H. split_wf H.
  destruct v as [|nh [|ht [|hst [|scf [|off [|tcid [|flags [|pl [|mhl [|res [|? ?]]]]]]]]]]]; try discriminate.
  unfold arg in *. cbn [nth] in *.
  assert (Hok : hst_ok ht hst = true) by assumption.
  assert (Hhst : 0 <= hst <= 2).
  { unfold hst_ok in Hok. destruct ((ht =? 4) || (ht =? 3)); [lia|]. destruct ((ht =? 5) || (ht =? 6)); lia. }
  assert (Hscf : fits 1 scf = true) by assumption. assert (Hoff : fits 1 off = true) by assumption.
  assert (Htc : fits 6 tcid = true) by assumption. assert (Hpl : fits 16 pl = true) by assumption.
  assert (Hmhl : fits 8 mhl = true) by assumption. assert (Hres : res = 0) by lia. subst res.
  assert (Hfl : flags = 0 \/ flags = 128) by lia.
  unfold dec_common, enc_common.
  rewrite dec_enc_fields; [| nonneg_ws | reflexivity | ].
  - unfold obind, view_common, raw_common, arg. cbn [nth].
    change (0 / 16) with 0. change (0 mod 16) with 0. rewrite Z.lor_0_r.
    rewrite Hok. replace (nh <=? 3) with true by lia. replace (ht <=? 6) with true by lia. cbn [andb].
    assert (E : Z.land flags 128 = flags) by (destruct Hfl as [-> | ->]; reflexivity).
    rewrite E. reflexivity.
  - unfold common_ws, raw_common, arg. cbn [nth all_fit].
    change (0 / 16) with 0. change (0 mod 16) with 0. rewrite Z.lor_0_r.
    rewrite Hscf, Hoff, Htc, Hpl, Hmhl.
    rewrite (fits_true 4 nh) by (cbn; lia). rewrite (fits_true 4 0) by (cbn; lia).
    rewrite (fits_true 4 ht) by (cbn; lia). rewrite (fits_true 4 hst) by (cbn; lia).
    rewrite (fits_true 8 flags) by (cbn; lia). rewrite (fits_true 8 0) by (cbn; lia). reflexivity.
Qed.

Lemma enc_common_length v : length (enc_common v) = 8%nat.
Proof. unfold enc_common. rewrite enc_fields_length. reflexivity. Qed.

Lemma dec_enc_btp v rest : all_fit btp_ws v = true -> dec_btp (enc_btp v ++ rest) = Some v.
Proof. intros H. unfold dec_btp, enc_btp. apply dec_enc_fields; [nonneg_ws | reflexivity | exact H]. Qed.

Lemma enc_btp_length v : length (enc_btp v) = 4%nat.
Proof. unfold enc_btp. rewrite enc_fields_length. reflexivity. Qed.

(* ---------- composite extended headers -------------------------------------- *)
Lemma skipn_app_exact {A} (a b : list A) n : length a = n -> skipn n (a ++ b) = b.
Proof. intros <-. rewrite skipn_app, Nat.sub_diag, skipn_all. reflexivity. Qed.

Lemma firstn_app_exact {A} (a b : list A) n : length a = n -> firstn n (a ++ b) = a.
Proof. intros <-. rewrite firstn_app, Nat.sub_diag, firstn_all. cbn. apply app_nil_r. Qed.

Lemma sn_length v : length (enc_fields sn_ws v) = 4%nat.
Proof. rewrite enc_fields_length. reflexivity. Qed.

Lemma dec_enc_sn v rest : wf_sn v = true -> dec_fields sn_ws (enc_fields sn_ws v ++ rest) = Some v.
Proof. intros H. apply dec_enc_fields; [nonneg_ws | reflexivity | exact H]. Qed.

Lemma wf_sn_len v : wf_sn v = true -> length v = 2%nat.
Proof. intros H. apply all_fit_length in H. cbn in H. lia. Qed.

Lemma dec_enc_tsb h p rest : wf_sn h = true -> wf_lpv p = true ->
  dec_tsb (enc_tsb (h ++ p) ++ rest) = Some (h ++ p).
Proof.
  intros Hh Hp. pose proof (wf_sn_len _ Hh) as L. unfold dec_tsb, enc_tsb.
  rewrite firstn_app_exact, skipn_app_exact by exact L.
  rewrite !app_length, sn_length, enc_lpv_length. cbn [Nat.ltb Nat.leb Nat.add].
  destruct (Nat.ltb_spec (4 + 24 + length rest) 28) as [?|_]; [lia|].
  rewrite <- app_assoc. rewrite dec_enc_sn by exact Hh. cbn [obind].
  rewrite skipn_app_exact by apply sn_length. rewrite dec_enc_lpv by exact Hp. reflexivity.
Qed.

Lemma area_all_fit lat lon a b ang r : fits 16 a = true -> fits 16 b = true -> fits 16 ang = true -> fits 16 r = true ->
  all_fit area_ws (raw_area [lat; lon; a; b; ang; r]) = true.
Proof.
  intros Ha Hb Hg Hr. unfold area_ws, raw_area, arg. cbn [nth all_fit].
  rewrite Ha, Hb, Hg, Hr. rewrite !fits_unsigned by lia. reflexivity.
Qed.

Lemma dec_enc_area v rest : wf_area v = true ->
  obind (dec_fields area_ws (enc_fields area_ws (raw_area v) ++ rest)) (fun a => Some (view_area a)) = Some v.
Proof.
  unfold wf_area. intros H. split_wf H.
  destruct v as [|lat [|lon [|a [|b [|ang [|r [|? ?]]]]]]]; try discriminate. unfold arg in *. cbn [nth] in *.
  rewrite dec_enc_fields; [| nonneg_ws | reflexivity | apply area_all_fit; auto ].
  unfold obind, view_area, raw_area, arg. cbn [nth]. apply in_s_elim in W4, W3.
  rewrite !signed_unsigned by lia. reflexivity.
Qed.

Lemma wf_lpv_len v : wf_lpv v = true -> length v = 9%nat.
Proof. unfold wf_lpv. intros H. split_wf H. apply Nat.eqb_eq in H. exact H. Qed.

Lemma dec_enc_gbc h p a rest : wf_sn h = true -> wf_lpv p = true -> wf_area a = true ->
  dec_gbc (enc_gbc (h ++ p ++ a) ++ rest) = Some (h ++ p ++ a).
Proof.
  intros Hh Hp Ha. pose proof (wf_sn_len _ Hh) as L. pose proof (wf_lpv_len _ Hp) as Lp.
  unfold dec_gbc, enc_gbc.
  rewrite firstn_app_exact, skipn_app_exact by exact L.
  rewrite firstn_app_exact by exact Lp.
  replace (skipn 11 (h ++ p ++ a)) with a.
  2:{ rewrite app_assoc. symmetry. apply skipn_app_exact. rewrite app_length. lia. }
  rewrite !app_length, sn_length, enc_lpv_length, enc_fields_length.
  destruct (Nat.ltb_spec (4 + (24 + hdr_bytes area_ws) + length rest) 44) as [Hlt|_];
    [ change (hdr_bytes area_ws) with 16%nat in Hlt; lia |].
  rewrite <- !app_assoc. rewrite dec_enc_sn by exact Hh. cbn [obind].
  rewrite skipn_app_exact by apply sn_length. rewrite dec_enc_lpv by exact Hp. cbn [obind].
  replace (skipn 28 (enc_fields sn_ws h ++ enc_lpv p ++ enc_fields area_ws (raw_area a) ++ rest))
    with (enc_fields area_ws (raw_area a) ++ rest).
  2:{ rewrite app_assoc. symmetry. apply skipn_app_exact. rewrite app_length, sn_length, enc_lpv_length. reflexivity. }
  pose proof (dec_enc_area a rest Ha) as E. unfold obind in E |- *.
  destruct (dec_fields area_ws (enc_fields area_ws (raw_area a) ++ rest)); [|discriminate].
  injection E as ->. reflexivity.
Qed.

Lemma wf_spv_len v : wf_spv v = true -> length v = 6%nat.
Proof. unfold wf_spv. intros H. split_wf H. apply Nat.eqb_eq in H. exact H. Qed.

Lemma dec_enc_guc h p d rest : wf_sn h = true -> wf_lpv p = true -> wf_spv d = true ->
  dec_guc (enc_guc (h ++ p ++ d) ++ rest) = Some (h ++ p ++ d).
Proof.
  intros Hh Hp Hd. pose proof (wf_sn_len _ Hh) as L. pose proof (wf_lpv_len _ Hp) as Lp.
  unfold dec_guc, enc_guc.
  rewrite firstn_app_exact, skipn_app_exact by exact L.
  rewrite firstn_app_exact by exact Lp.
  replace (skipn 11 (h ++ p ++ d)) with d.
  2:{ rewrite app_assoc. symmetry. apply skipn_app_exact. rewrite app_length. lia. }
  rewrite !app_length, sn_length, enc_lpv_length, enc_spv_length.
  destruct (Nat.ltb_spec (4 + (24 + 20) + length rest) 48) as [?|_]; [lia|].
  rewrite <- !app_assoc. rewrite dec_enc_sn by exact Hh. cbn [obind].
  rewrite skipn_app_exact by apply sn_length. rewrite dec_enc_lpv by exact Hp. cbn [obind].
  replace (skipn 28 (enc_fields sn_ws h ++ enc_lpv p ++ enc_spv d ++ rest)) with (enc_spv d ++ rest).
  2:{ rewrite app_assoc. symmetry. apply skipn_app_exact. rewrite app_length, sn_length, enc_lpv_length. reflexivity. }
  rewrite firstn_app_exact by apply enc_spv_length.
  rewrite <- (app_nil_r (enc_spv d)). rewrite dec_enc_spv by exact Hd. reflexivity.
Qed.

Lemma wf_gnaddr_len v : wf_gnaddr v = true -> length v = 3%nat.
Proof. unfold wf_gnaddr. intros H. split_wf H. apply Nat.eqb_eq in H. exact H. Qed.

Lemma enc_gnaddr_length v : length (enc_gnaddr v) = 8%nat.
Proof. unfold enc_gnaddr. rewrite enc_fields_length. reflexivity. Qed.

Lemma dec_enc_lsreq h p d rest : wf_sn h = true -> wf_lpv p = true -> wf_gnaddr d = true ->
  dec_lsreq (enc_lsreq (h ++ p ++ d) ++ rest) = Some (h ++ p ++ d).
Proof.
  intros Hh Hp Hd. pose proof (wf_sn_len _ Hh) as L. pose proof (wf_lpv_len _ Hp) as Lp.
  unfold dec_lsreq, enc_lsreq.
  rewrite firstn_app_exact, skipn_app_exact by exact L.
  rewrite firstn_app_exact by exact Lp.
  replace (skipn 11 (h ++ p ++ d)) with d.
  2:{ rewrite app_assoc. symmetry. apply skipn_app_exact. rewrite app_length. lia. }
  rewrite !app_length, sn_length, enc_lpv_length, enc_gnaddr_length.
  destruct (Nat.ltb_spec (4 + (24 + 8) + length rest) 36) as [Hlt|_]; [lia|].
  rewrite <- !app_assoc. rewrite dec_enc_sn by exact Hh. cbn [obind].
  rewrite skipn_app_exact by apply sn_length. rewrite dec_enc_lpv by exact Hp. cbn [obind].
  replace (skipn 28 (enc_fields sn_ws h ++ enc_lpv p ++ enc_gnaddr d ++ rest))
    with (enc_gnaddr d ++ rest).
  2:{ rewrite app_assoc. symmetry. apply skipn_app_exact. rewrite app_length, sn_length, enc_lpv_length. reflexivity. }
  rewrite dec_enc_gnaddr by exact Hd. reflexivity.
Qed.

(* ---------- sizes ----------------------------------------------------------- *)
Lemma enc_gbc_length v : length (enc_gbc v) = 44%nat.
Proof. unfold enc_gbc. rewrite !app_length, enc_lpv_length, !enc_fields_length. reflexivity. Qed.
Lemma enc_guc_length v : length (enc_guc v) = 48%nat.
Proof. unfold enc_guc. rewrite !app_length, enc_lpv_length, enc_spv_length, !enc_fields_length. reflexivity. Qed.
Lemma enc_tsb_length v : length (enc_tsb v) = 28%nat.
Proof. unfold enc_tsb. rewrite !app_length, enc_lpv_length, !enc_fields_length. reflexivity. Qed.
Lemma enc_lsreq_length v : length (enc_lsreq v) = 36%nat.
Proof. unfold enc_lsreq. rewrite !app_length, enc_lpv_length, enc_gnaddr_length, !enc_fields_length. reflexivity. Qed.

Lemma header_sizes b c l s g t u q :
  (length (enc_basic b), length (enc_common c), length (enc_lpv l), length (enc_spv s),
   length (enc_gbc g), length (enc_tsb t), length (enc_guc u), length (enc_lsreq q))
  = (4, 8, 24, 20, 44, 28, 48, 36)%nat.
Proof.
  unfold enc_gbc, enc_tsb, enc_guc, enc_lsreq.
  rewrite !app_length, !enc_basic_length, !enc_common_length, !enc_lpv_length, !enc_spv_length, !enc_gnaddr_length, !enc_fields_length.
  reflexivity.
Qed.

(* ---------- injectivity of the position-vector encoding ---------------------- *)
Lemma enc_lpv_inj v1 v2 : wf_lpv v1 = true -> wf_lpv v2 = true -> enc_lpv v1 = enc_lpv v2 -> v1 = v2.
Proof.
  intros H1 H2 E. pose proof (dec_enc_lpv v1 [] H1) as D1. pose proof (dec_enc_lpv v2 [] H2) as D2.
  rewrite E in D1. rewrite D1 in D2. injection D2. auto.
Qed.

(* ---------- packets ----------------------------------------------------------- *)
Lemma bh_for_parse default_s req_ms rhl rest : fits 8 rhl = true ->
  let '(m, b) := req_lt default_s (if req_ms <? 0 then None else Some req_ms) in
  dec_basic (bh_for default_s req_ms rhl ++ rest) = Some [1; 1; 0; m; b; rhl].
Proof.
  intros Hr. unfold bh_for.
  pose proof (lt_encode_fields (match (if req_ms <? 0 then None else Some req_ms) with
                                | Some v => v | None => default_s * 1000 end)) as F.
  unfold req_lt. destruct (if req_ms <? 0 then None else Some req_ms) as [v|];
  destruct (lt_encode _) as [m b]; apply dec_enc_basic; unfold wf_basic, basic_ws, arg; cbn [nth all_fit];
  rewrite Hr, (fits_true 6 m), (fits_true 2 b) by (cbn; lia); reflexivity.
Qed.

Lemma bh_for_length d r h : length (bh_for d r h) = 4%nat.
Proof. unfold bh_for. destruct (req_lt _ _). apply enc_basic_length. Qed.

(* ---------- packets: every originated packet parses back into exactly the
   requested headers and payload ------------------------------------------------ *)
Definition lt_of_req (default_s req_ms : Z) : Z * Z :=
  req_lt default_s (if req_ms <? 0 then None else Some req_ms).

Lemma bh_for_parse' default_s req_ms rhl rest : fits 8 rhl = true ->
  dec_basic (bh_for default_s req_ms rhl ++ rest) =
  Some [1; 1; 0; fst (lt_of_req default_s req_ms); snd (lt_of_req default_s req_ms); rhl].
Proof.
  intros Hr. pose proof (bh_for_parse default_s req_ms rhl rest Hr) as P. unfold lt_of_req.
  destruct (req_lt default_s (if req_ms <? 0 then None else Some req_ms)) as [m b]. exact P.
Qed.

Lemma wf_common_mk nh ht hst scf off tcid mobile pl mhl :
  0 <= nh <= 3 -> 0 <= ht <= 6 -> 0 <= hst -> hst_ok ht hst = true -> fits 1 scf = true -> fits 1 off = true ->
  fits 6 tcid = true -> fits 1 mobile = true -> fits 16 pl = true -> fits 8 mhl = true ->
  wf_common [nh; ht; hst; scf; off; tcid; mobile * 128; pl; mhl; 0] = true.
Proof.
  intros Hnh Hht Hh0 Hok Hs Ho Ht Hm Hp Hh. unfold wf_common, arg. cbn [nth length Nat.eqb].
  rewrite Hok, Hs, Ho, Ht, Hp, Hh. apply fits_elim in Hm.
  assert (mobile = 0 \/ mobile = 1) as [-> | ->] by (cbn in Hm; lia); cbn; lia.
Qed.

Lemma payload_pl (payload : list Z) : Z.of_nat (length payload) < 65536 -> fits 16 (Z.of_nat (length payload)) = true.
Proof. intros. apply fits_true. cbn. lia. Qed.

Section Packets.
  Variables (mobile default_s : Z) (ego : list Z).
  Hypothesis Hmob : fits 1 mobile = true.
  Hypothesis Hego : wf_lpv ego = true.

  Lemma mk_beacon_flags :
    dec_fields common_ws (skipn 4 (mk_beacon mobile default_s ego)) =
    Some (raw_common [0; 1; 0; 0; 0; 0; mobile; 0; 1; 0]).
  Proof.
    unfold mk_beacon. rewrite skipn_app_exact by apply bh_for_length. unfold enc_common.
    apply dec_enc_fields; [nonneg_ws | reflexivity |].
    unfold common_ws, raw_common, arg. cbn [nth all_fit]. apply fits_elim in Hmob.
    change (0 / 16) with 0. change (0 mod 16) with 0. rewrite Z.lor_0_r.
    rewrite (fits_true 8 mobile) by (cbn in Hmob |- *; lia). reflexivity.
  Qed.

  Lemma mk_beacon_parse :
    dec_basic (mk_beacon mobile default_s ego) =
      Some [1; 1; 0; fst (lt_of_req default_s (-1)); snd (lt_of_req default_s (-1)); 1]
    /\ dec_lpv (skipn 12 (mk_beacon mobile default_s ego)) = Some ego
    /\ length (mk_beacon mobile default_s ego) = 36%nat.
  Proof.
    unfold mk_beacon. repeat split.
    - apply bh_for_parse'. reflexivity.
    - rewrite app_assoc. rewrite skipn_app_exact by (rewrite app_length, bh_for_length, enc_common_length; reflexivity).
      rewrite <- (app_nil_r (enc_lpv _)). apply dec_enc_lpv. exact Hego.
    - rewrite !app_length, bh_for_length, enc_common_length, enc_lpv_length. reflexivity.
  Qed.

  Variables (default_hl sn : Z).
  Hypothesis Hsn : fits 16 sn = true.
  Hypothesis Hdhl : fits 8 default_hl = true.

  Lemma wf_sn_mk : wf_sn [sn; 0] = true.
  Proof. unfold wf_sn, sn_ws. cbn [all_fit]. rewrite Hsn. reflexivity. Qed.

  Section LS.
  Variables (sought de : list Z).
  Hypothesis Hsought : wf_gnaddr sought = true.
  Hypothesis Hde : wf_spv de = true.

  Lemma mk_lsreq_parse :
    let pkt := mk_lsreq mobile default_s default_hl sn ego sought in
    dec_basic pkt = Some [1; 1; 0; fst (lt_of_req default_s (-1)); snd (lt_of_req default_s (-1)); default_hl]
    /\ dec_common (skipn 4 pkt) = Some [0; 6; 0; 0; 0; 0; mobile * 128; 0; default_hl; 0]
    /\ dec_lsreq (skipn 12 pkt) = Some ([sn; 0] ++ ego ++ sought).
  Proof.
    intros pkt. unfold pkt, mk_lsreq. repeat split.
    - apply bh_for_parse'. exact Hdhl.
    - rewrite skipn_app_exact by apply bh_for_length. rewrite <- (app_nil_r (enc_lsreq _)). apply dec_enc_common.
      apply wf_common_mk; auto; try lia; reflexivity.
    - rewrite app_assoc. rewrite skipn_app_exact by (rewrite app_length, bh_for_length, enc_common_length; reflexivity).
      rewrite <- (app_nil_r (enc_lsreq _)). apply dec_enc_lsreq; auto using wf_sn_mk.
  Qed.

  Lemma mk_lsrep_parse :
    let pkt := mk_lsrep mobile default_s default_hl sn ego de in
    dec_basic pkt = Some [1; 1; 0; fst (lt_of_req default_s (-1)); snd (lt_of_req default_s (-1)); default_hl]
    /\ dec_common (skipn 4 pkt) = Some [0; 6; 1; 0; 0; 0; mobile * 128; 0; default_hl; 0]
    /\ dec_guc (skipn 12 pkt) = Some ([sn; 0] ++ ego ++ de).
  Proof.
    intros pkt. unfold pkt, mk_lsrep. repeat split.
    - apply bh_for_parse'. exact Hdhl.
    - rewrite skipn_app_exact by apply bh_for_length. rewrite <- (app_nil_r (enc_guc _)). apply dec_enc_common.
      apply wf_common_mk; auto; try lia; reflexivity.
    - rewrite app_assoc. rewrite skipn_app_exact by (rewrite app_length, bh_for_length, enc_common_length; reflexivity).
      rewrite <- (app_nil_r (enc_guc _)). apply dec_enc_guc; auto using wf_sn_mk.
  Qed.
  End LS.

  Variables (req_ms nh scf off tcid : Z) (payload : list Z).
  Hypothesis Hnh : 0 <= nh <= 3.
  Hypothesis Hscf : fits 1 scf = true.
  Hypothesis Hoff : fits 1 off = true.
  Hypothesis Htc : fits 6 tcid = true.
  Hypothesis Hpl : Z.of_nat (length payload) < 65536.

  Lemma mk_shb_parse :
    let pkt := mk_shb mobile default_s req_ms nh scf off tcid ego payload in
    dec_basic pkt = Some [1; 1; 0; fst (lt_of_req default_s req_ms); snd (lt_of_req default_s req_ms); 1]
    /\ dec_common (skipn 4 pkt) = Some [nh; 5; 0; scf; off; tcid; mobile * 128; Z.of_nat (length payload); 1; 0]
    /\ dec_lpv (skipn 12 pkt) = Some ego
    /\ skipn 40 pkt = payload.
  Proof.
    intros pkt. unfold pkt, mk_shb. repeat split.
    - apply bh_for_parse'. reflexivity.
    - rewrite skipn_app_exact by apply bh_for_length. apply dec_enc_common.
      apply wf_common_mk; auto using payload_pl; try lia; reflexivity.
    - rewrite app_assoc. rewrite skipn_app_exact by (rewrite app_length, bh_for_length, enc_common_length; reflexivity).
      apply dec_enc_lpv. exact Hego.
    - rewrite !app_assoc. apply skipn_app_exact.
      rewrite !app_length, bh_for_length, enc_common_length, enc_lpv_length. reflexivity.
  Qed.

  Variable req_hl : Z.
  Hypothesis Hrhl : fits 8 req_hl = true.

  Lemma hop_choice_fits : fits 8 (hop_choice req_hl default_hl) = true.
  Proof. unfold hop_choice. destruct (req_hl <=? 1); assumption. Qed.

  Section Geo.
  Variables (ht hst : Z) (area : list Z).
  Hypothesis Hht : ht = 3 \/ ht = 4.
  Hypothesis Hhst : 0 <= hst <= 2.
  Hypothesis Harea : wf_area (area ++ [0]) = true.

  Lemma mk_gbc_parse :
    let pkt := mk_gbc mobile default_s default_hl req_ms req_hl nh ht hst scf off tcid sn ego area payload in
    let hl := hop_choice req_hl default_hl in
    dec_basic pkt = Some [1; 1; 0; fst (lt_of_req default_s req_ms); snd (lt_of_req default_s req_ms); hl]
    /\ dec_common (skipn 4 pkt) = Some [nh; ht; hst; scf; off; tcid; mobile * 128; Z.of_nat (length payload); hl; 0]
    /\ dec_gbc (skipn 12 pkt) = Some ([sn; 0] ++ ego ++ area ++ [0])
    /\ skipn 56 pkt = payload.
  Proof.
    intros pkt hl. unfold pkt, mk_gbc. fold hl. pose proof hop_choice_fits as Hh. fold hl in Hh. repeat split.
    - apply bh_for_parse'. exact Hh.
    - rewrite skipn_app_exact by apply bh_for_length. apply dec_enc_common.
      apply wf_common_mk; auto using payload_pl; try lia.
      unfold hst_ok. destruct Hht as [-> | ->]; cbn; lia.
    - rewrite app_assoc. rewrite skipn_app_exact by (rewrite app_length, bh_for_length, enc_common_length; reflexivity).
      apply dec_enc_gbc; auto using wf_sn_mk.
    - rewrite !app_assoc. apply skipn_app_exact.
      rewrite !app_length, bh_for_length, enc_common_length, enc_gbc_length. reflexivity.
  Qed.
  End Geo.

  Section Uni.
  Variable de : list Z.
  Hypothesis Hde : wf_spv de = true.

  Lemma mk_guc_parse :
    let pkt := mk_guc mobile default_s default_hl req_ms req_hl nh scf off tcid sn ego de payload in
    let hl := hop_choice req_hl default_hl in
    dec_basic pkt = Some [1; 1; 0; fst (lt_of_req default_s req_ms); snd (lt_of_req default_s req_ms); hl]
    /\ dec_common (skipn 4 pkt) = Some [nh; 2; 0; scf; off; tcid; mobile * 128; Z.of_nat (length payload); hl; 0]
    /\ dec_guc (skipn 12 pkt) = Some ([sn; 0] ++ ego ++ de)
    /\ skipn 60 pkt = payload.
  Proof.
    intros pkt hl. unfold pkt, mk_guc. fold hl. pose proof hop_choice_fits as Hh. fold hl in Hh. repeat split.
    - apply bh_for_parse'. exact Hh.
    - rewrite skipn_app_exact by apply bh_for_length. apply dec_enc_common.
      apply wf_common_mk; auto using payload_pl; try lia; reflexivity.
    - rewrite app_assoc. rewrite skipn_app_exact by (rewrite app_length, bh_for_length, enc_common_length; reflexivity).
      apply dec_enc_guc; auto using wf_sn_mk.
    - rewrite !app_assoc. apply skipn_app_exact.
      rewrite !app_length, bh_for_length, enc_common_length, enc_guc_length. reflexivity.
  Qed.
  End Uni.
End Packets.

(* forwarded copy: only the RHL octet differs *)
Lemma set_rhl_spec pkt rhl : (4 <= length pkt)%nat ->
  firstn 3 (set_rhl pkt rhl) = firstn 3 pkt /\ nth 3 (set_rhl pkt rhl) 0 = rhl /\
  skipn 4 (set_rhl pkt rhl) = skipn 4 pkt /\ length (set_rhl pkt rhl) = length pkt.
Proof.
  intros L. unfold set_rhl.
  destruct pkt as [|a [|b [|c [|d r]]]]; cbn in L; try lia. cbn. repeat split.
Qed.

Lemma next_sn_range sn : 0 <= next_sn sn < 65535.
Proof. unfold next_sn. apply Z.mod_pos_bound. lia. Qed.
