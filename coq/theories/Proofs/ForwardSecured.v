(* The forwarded copy of a packet received as a secured packet: what the code does (an unsecured packet with RHL - 1),
   and the refutation of "the copy keeps the first three octets of the received packet" (KF-C06-1). *)
From FlexVerif Require Import Base.Prelude Base.Bits Model.Wire Model.LocT Model.Router Model.RouterSecured
  Proofs.WireProofs Proofs.RouterProofs.

Lemma rx_secured_eq m s now g pkt plain bv :
  dec_basic pkt = Some bv -> arg 0 bv = 1 -> arg 1 bv = 2 ->
  rx_secured m s now g pkt plain = rx m s now g (enc_basic (bv_nh bv 1) ++ plain).
Proof. intros D V N. unfold rx_secured. rewrite D, V, N. reflexivity. Qed.

Lemma secured_forward_actual m s now g pkt plain bv p :
  dec_basic pkt = Some bv -> arg 0 bv = 1 -> arg 1 bv = 2 -> wf_basic (bv_nh bv 1) = true ->
  In (OFwd p) (snd (rx_secured m s now g pkt plain)) ->
  1 < arg 5 bv /\ exists rest, p = enc_basic (bv_rhl (bv_nh bv 1) (arg 5 bv - 1)) ++ rest.
Proof.
  intros D V N W Hin. rewrite (rx_secured_eq _ _ _ _ _ _ _ D V N) in Hin.
  destruct (forwarded_copy_has_rhl_minus_1 m s now g _ _ p (dec_enc_basic (bv_nh bv 1) plain W) Hin) as [H1 [rest E]].
  exact (conj H1 (ex_intro _ rest E)).
Qed.

(* the full clause for secured packets: a forwarded copy keeps version / next header, the reserved octet and the
   lifetime of the received packet (its first three octets) *)
Definition secured_forward_keeps_basic_header : Prop :=
  forall m s now g pkt plain p, In (OFwd p) (snd (rx_secured m s now g pkt plain)) -> firstn 3 p = firstn 3 pkt.

Definition wit_m := mkMib [0; 5; 99] 1 60 10 8 20000 1 10.
Definition wit_s := init [0; 5; 99; 0; 0; 0; 1; 0; 0].
Definition wit_plain := enc_common [2; 5; 1; 0; 0; 0; 128; 2; 10; 0] ++ enc_tsb [7; 0; 0; 5; 1; 1000; 10; 20; 1; 0; 0] ++ [65; 66].
Definition wit_pkt := enc_basic [1; 2; 0; 60; 1; 3] ++ wit_plain.

Lemma secured_forward_refuted : ~ secured_forward_keeps_basic_header.
Proof.
  intros H.
  assert (Hin : In (OFwd (enc_basic [1; 1; 0; 60; 1; 2] ++ wit_plain))
                   (snd (rx_secured wit_m wit_s 2000 (mkGeo false [] []) wit_pkt wit_plain))).
  { vm_compute. right. left. reflexivity. }
  assert (Ne : firstn 3 (enc_basic [1; 1; 0; 60; 1; 2] ++ wit_plain) <> firstn 3 wit_pkt).
  { vm_compute. discriminate. }
  exact (Ne (H wit_m wit_s 2000 (mkGeo false [] []) wit_pkt wit_plain _ Hin)).
Qed.

Example secured_forward_hypotheses_satisfiable :
  dec_basic wit_pkt = Some [1; 2; 0; 60; 1; 3] /\ wf_basic (bv_nh [1; 2; 0; 60; 1; 3] 1) = true.
Proof. vm_compute. split; reflexivity. Qed.
