(* Proofs about Model/LdmFilter.v: a request returns exactly the matching objects, as a sorted
   and stable permutation; and/or, like and the comparison operators characterised. *)
From FlexVerif Require Import Base.Prelude Model.LdmFilter.
From Coq Require Import ZifyBool Sorted Permutation.
Ltac Zify.zify_post_hook ::= Z.to_euclidean_division_equations.

(* ---- comparison functions: antisymmetric and transitive ------------------------------ *)
Section Cmp.
  Context {K : Type}.
  Definition antisym (f : K -> K -> comparison) : Prop := forall a b, f b a = CompOpp (f a b).
  Definition ltrans (f : K -> K -> comparison) : Prop :=
    forall a b c, f a b <> Gt -> f b c <> Gt -> f a c <> Gt.

  Variable f : K -> K -> comparison.
  Hypothesis Ha : antisym f.
  Hypothesis Ht : ltrans f.

  Lemma good_lt_any a b c : f a b = Lt -> f b c <> Gt -> f a c = Lt.
  Proof.
    intros H1 H2. assert (f a c <> Gt) as H3 by (apply (Ht a b c); [congruence|assumption]).
    destruct (f a c) eqn:E; try congruence.
    exfalso. assert (f c a = Eq) as E' by (rewrite Ha, E; reflexivity).
    assert (f c b <> Gt) as H4 by (apply (Ht c a b); congruence).
    apply H4. rewrite Ha. destruct (f b c) eqn:E2; try congruence.
    - (* f b c = Eq: then f b a <> Gt by transitivity, but f b a = Gt *)
      exfalso. assert (f b a <> Gt) as H5 by (apply (Ht b c a); congruence).
      apply H5. rewrite Ha, H1. reflexivity.
    - reflexivity.
  Qed.

  Lemma good_any_lt a b c : f a b <> Gt -> f b c = Lt -> f a c = Lt.
  Proof.
    intros H1 H2. assert (f a c <> Gt) as H3 by (apply (Ht a b c); [assumption|congruence]).
    destruct (f a c) eqn:E; try congruence.
    exfalso. assert (f c a = Eq) as E' by (rewrite Ha, E; reflexivity).
    assert (f c b <> Gt) as H4 by (apply (Ht c a b); congruence).
    apply H4. rewrite Ha, H2. reflexivity.
  Qed.

  Lemma good_eq_eq a b c : f a b = Eq -> f b c = Eq -> f a c = Eq.
  Proof.
    intros H1 H2. assert (f a c <> Gt) as H3 by (apply (Ht a b c); congruence).
    assert (f c a <> Gt) as H4.
    { apply (Ht c b a); rewrite Ha; [rewrite H2|rewrite H1]; discriminate. }
    rewrite Ha in H4. destruct (f a c); cbn in H4; congruence.
  Qed.
End Cmp.

(* lexicographic combination *)
Definition lexc {K} (f1 f2 : K -> K -> comparison) (a b : K) : comparison :=
  match f1 a b with Eq => f2 a b | c => c end.

Lemma lexc_antisym {K} (f1 f2 : K -> K -> comparison) : antisym f1 -> antisym f2 -> antisym (lexc f1 f2).
Proof.
  intros H1 H2 a b. unfold lexc. rewrite (H1 a b). destruct (f1 a b); cbn; [apply H2|reflexivity|reflexivity].
Qed.

Lemma lexc_ltrans {K} (f1 f2 : K -> K -> comparison) :
  antisym f1 -> ltrans f1 -> ltrans f2 -> ltrans (lexc f1 f2).
Proof.
  intros A1 T1 T2 a b c. unfold lexc. intros H1 H2.
  destruct (f1 a b) eqn:E1.
  - destruct (f1 b c) eqn:E2.
    + rewrite (good_eq_eq f1 A1 T1 a b c E1 E2). now apply (T2 a b c).
    + rewrite (good_any_lt f1 A1 T1 a b c); [discriminate|congruence|assumption].
    + congruence.
  - assert (f1 b c <> Gt) as H3 by (destruct (f1 b c); congruence).
    rewrite (good_lt_any f1 A1 T1 a b c E1 H3). discriminate.
  - congruence.
Qed.

(* Z.compare and lex_cmp *)
Lemma zcmp_antisym : antisym Z.compare.
Proof. intros a b. apply Z.compare_antisym. Qed.

Lemma lex_cmp_antisym : antisym lex_cmp.
Proof.
  intros a. induction a as [|x a IH]; intros [|y b]; cbn; try reflexivity.
  rewrite (Z.compare_antisym x y). destruct (x ?= y); cbn; [apply IH|reflexivity|reflexivity].
Qed.

Lemma lex_cmp_ltrans : ltrans lex_cmp.
Proof.
  intros a. induction a as [|x a IH]; intros [|y b] [|z c]; cbn; try congruence.
  destruct (Z.compare_spec x y), (Z.compare_spec y z), (Z.compare_spec x z);
    try congruence; try lia; subst; try (apply IH).
Qed.

Lemma flip_antisym {K} (f : K -> K -> comparison) : antisym f -> antisym (fun a b => f b a).
Proof. intros H a b. apply H. Qed.
Lemma flip_ltrans {K} (f : K -> K -> comparison) : antisym f -> ltrans f -> ltrans (fun a b => f b a).
Proof.
  intros A T a b c H1 H2. intros E. apply (T c b a); try assumption.
Qed.

Lemma cmp1_antisym d : antisym (cmp1 d).
Proof.
  intros [a|] [b|]; cbn; try reflexivity. destruct d; apply lex_cmp_antisym.
Qed.

Lemma cmp1_ltrans d : ltrans (cmp1 d).
Proof.
  intros [a|] [b|] [c|]; cbn; try congruence.
  destruct d.
  - apply (flip_ltrans lex_cmp lex_cmp_antisym lex_cmp_ltrans).
  - apply lex_cmp_ltrans.
Qed.

Lemma proj_antisym {K L} (k : K -> L) (f : L -> L -> comparison) : antisym f -> antisym (fun a b => f (k a) (k b)).
Proof. intros H a b. apply H. Qed.
Lemma proj_ltrans {K L} (k : K -> L) (f : L -> L -> comparison) : ltrans f -> ltrans (fun a b => f (k a) (k b)).
Proof. intros H a b c. apply H. Qed.

Lemma cmp_keys_lexc od rest a b :
  cmp_keys (od :: rest) a b =
  lexc (fun x y => cmp1 (ord_desc od) (okey x (ord_name od)) (okey y (ord_name od))) (cmp_keys rest) a b.
Proof. reflexivity. Qed.

Lemma cmp_keys_good orders : antisym (cmp_keys orders) /\ ltrans (cmp_keys orders).
Proof.
  induction orders as [|od rest [IA IT]].
  - split; [intros a b; reflexivity|intros a b c; cbn; congruence].
  - set (f1 := fun x y : obj => cmp1 (ord_desc od) (okey x (ord_name od)) (okey y (ord_name od))).
    assert (antisym f1) as A1 by (apply (proj_antisym (fun x => okey x (ord_name od))), cmp1_antisym).
    assert (ltrans f1) as T1 by (apply (proj_ltrans (fun x => okey x (ord_name od))), cmp1_ltrans).
    split.
    + intros a b. rewrite !cmp_keys_lexc. now apply lexc_antisym.
    + intros a b c. rewrite !cmp_keys_lexc. now apply lexc_ltrans.
Qed.

Lemma le_keys_total orders a b : le_keys orders a b = true \/ le_keys orders b a = true.
Proof.
  unfold le_keys. destruct (cmp_keys_good orders) as [A _]. rewrite (A a b).
  destruct (cmp_keys orders a b); cbn; auto.
Qed.

Lemma le_keys_trans orders a b c :
  le_keys orders a b = true -> le_keys orders b c = true -> le_keys orders a c = true.
Proof.
  unfold le_keys. destruct (cmp_keys_good orders) as [_ T]. intros H1 H2.
  assert (cmp_keys orders a c <> Gt) as H.
  { apply (T a b c); intros E; rewrite E in *; discriminate. }
  destruct (cmp_keys orders a c); congruence.
Qed.

Lemma le_keys_both orders a b :
  le_keys orders a b && le_keys orders b a = true <-> cmp_keys orders a b = Eq.
Proof.
  unfold le_keys. destruct (cmp_keys_good orders) as [A _]. rewrite (A a b).
  destruct (cmp_keys orders a b); cbn; split; congruence.
Qed.

(* ---- stable insertion sort over a total preorder ------------------------------------------ *)
Section Sort.
  Variable le : obj -> obj -> bool.
  Hypothesis le_total : forall a b, le a b = true \/ le b a = true.
  Hypothesis le_trans : forall a b c, le a b = true -> le b c = true -> le a c = true.

  Lemma insert_perm x l : Permutation (insert le x l) (x :: l).
  Proof.
    induction l as [|y t IH]; cbn; [apply Permutation_refl|].
    destruct (le x y); [apply Permutation_refl|].
    eapply Permutation_trans; [apply perm_skip, IH|apply perm_swap].
  Qed.

  Lemma isort_perm l : Permutation (isort le l) l.
  Proof.
    induction l as [|x l IH]; [constructor|].
    change (isort le (x :: l)) with (insert le x (isort le l)).
    eapply Permutation_trans; [apply insert_perm|now apply perm_skip].
  Qed.

  Lemma insert_sorted x l :
    StronglySorted (fun a b => le a b = true) l -> StronglySorted (fun a b => le a b = true) (insert le x l).
  Proof.
    induction 1 as [|y t Hs IH Hf]; cbn.
    - constructor; constructor.
    - destruct (le x y) eqn:E.
      + constructor; [constructor; assumption|].
        constructor; [assumption|]. eapply Forall_impl; [|exact Hf]. cbn. intros z Hz. now apply (le_trans x y z).
      + constructor; [exact IH|].
        assert (le y x = true) as Hyx by (destruct (le_total x y); congruence).
        eapply Permutation_Forall; [apply Permutation_sym, insert_perm|]. now constructor.
  Qed.

  Lemma isort_sorted l : StronglySorted (fun a b => le a b = true) (isort le l).
  Proof.
    induction l as [|x l IH]; [constructor|].
    change (isort le (x :: l)) with (insert le x (isort le l)). now apply insert_sorted.
  Qed.

  Definition eqv (a b : obj) : bool := le a b && le b a.

  Lemma insert_stable z x l :
    filter (eqv z) (insert le x l) = (if eqv z x then [x] else []) ++ filter (eqv z) l.
  Proof.
    induction l as [|y t IH]; cbn.
    - destruct (eqv z x); reflexivity.
    - destruct (le x y) eqn:E; cbn.
      + destruct (eqv z x); reflexivity.
      + rewrite IH. destruct (eqv z y) eqn:Ey; [|reflexivity].
        destruct (eqv z x) eqn:Ex; [|reflexivity].
        exfalso. unfold eqv in *. apply andb_prop in Ey, Ex. destruct Ey, Ex.
        rewrite (le_trans x z y) in E; congruence.
  Qed.

  Lemma isort_stable z l : filter (eqv z) (isort le l) = filter (eqv z) l.
  Proof.
    induction l as [|x l IH]; [reflexivity|].
    change (isort le (x :: l)) with (insert le x (isort le l)).
    rewrite insert_stable, IH. cbn [filter]. destruct (eqv z x); reflexivity.
  Qed.
End Sort.

(* ---- the theorems about requests ------------------------------------------------------------ *)
Theorem query_perm st q : Permutation (query st q) (matching st q).
Proof. apply isort_perm. Qed.

Theorem query_exact st q o :
  In o (query st q) <-> In o st /\ type_ok (q_types q) o = true /\ eval_flt (q_flt q) o = true.
Proof.
  split.
  - intros H. apply (Permutation_in _ (query_perm st q)) in H. unfold matching in H.
    apply filter_In in H. destruct H as [H1 H2]. apply andb_prop in H2. tauto.
  - intros (H1 & H2 & H3). apply (Permutation_in _ (Permutation_sym (query_perm st q))).
    unfold matching. apply filter_In. split; [assumption|]. now rewrite H2, H3.
Qed.

Theorem query_sorted st q :
  StronglySorted (fun a b => le_keys (q_orders q) a b = true) (query st q).
Proof. apply isort_sorted; [apply le_keys_total|apply le_keys_trans]. Qed.

(* objects with equal ordering keys keep the order in which they are stored *)
Theorem query_stable st q z :
  filter (fun y => match cmp_keys (q_orders q) z y with Eq => true | _ => false end) (query st q)
  = filter (fun y => match cmp_keys (q_orders q) z y with Eq => true | _ => false end) (matching st q).
Proof.
  assert (forall l, filter (fun y => match cmp_keys (q_orders q) z y with Eq => true | _ => false end) l
                    = filter (eqv (le_keys (q_orders q)) z) l) as E.
  { intros l. apply filter_ext. intros y. unfold eqv.
    destruct (le_keys (q_orders q) z y && le_keys (q_orders q) y z) eqn:E.
    - apply le_keys_both in E. now rewrite E.
    - destruct (cmp_keys (q_orders q) z y) eqn:E2; try reflexivity.
      apply le_keys_both in E2. congruence. }
  rewrite !E. apply isort_stable. apply le_keys_trans.
Qed.

Lemma insert_all_le le x l : (forall y, In y l -> le x y = true) -> insert le x l = x :: l.
Proof. destruct l as [|y t]; cbn; [reflexivity|]. intros H. now rewrite (H y (or_introl eq_refl)). Qed.

Theorem query_unordered st types f : query st (mkReq types f []) = matching st (mkReq types f []).
Proof.
  unfold query. cbn [q_orders]. induction (matching st (mkReq types f [])) as [|x l IH]; cbn; [reflexivity|].
  fold (isort (le_keys []) l). rewrite IH. apply insert_all_le. reflexivity.
Qed.

(* an object lacking an attribute does not satisfy a statement on it, whatever the operator *)
Theorem missing_attribute_no_match s o : attr o (s_path s) = None -> eval_stmt s o = false.
Proof. unfold eval_stmt. now intros ->. Qed.

Theorem missing_attribute_excluded st types s ords o :
  attr o (s_path s) = None -> ~ In o (query st (mkReq types (F1 s) ords)).
Proof.
  intros Hm H. apply query_exact in H. destruct H as (_ & _ & H). cbn in H.
  rewrite (missing_attribute_no_match s o Hm) in H. discriminate.
Qed.

Theorem and_or_semantics st types s1 s2 ords o :
  (In o (query st (mkReq types (F2 s1 0 s2) ords)) <->
   In o (query st (mkReq types (F1 s1) ords)) /\ In o (query st (mkReq types (F1 s2) ords))) /\
  (In o (query st (mkReq types (F2 s1 1 s2) ords)) <->
   In o (query st (mkReq types (F1 s1) ords)) \/ In o (query st (mkReq types (F1 s2) ords))).
Proof.
  rewrite !query_exact. cbn [q_types q_flt eval_flt Z.eqb]. split.
  - rewrite andb_true_iff. tauto.
  - rewrite orb_true_iff. tauto.
Qed.

(* like: substring for strings, membership for lists *)
Lemma is_prefix_spec p s : is_prefix p s = true <-> exists b, s = p ++ b.
Proof.
  revert s. induction p as [|x p IH]; intros s; cbn.
  - split; [intros _; now exists s|reflexivity].
  - destruct s as [|y s]; [split; [discriminate|intros (b & H); discriminate]|].
    rewrite andb_true_iff, IH. split.
    + intros (E & b & ->). apply Z.eqb_eq in E. subst. now exists b.
    + intros (b & H). inversion H; subst. split; [apply Z.eqb_refl|now exists b].
Qed.

Lemma is_sub_spec p s : is_sub p s = true <-> exists a b, s = a ++ p ++ b.
Proof.
  induction s as [|y s IH]; cbn [is_sub]; rewrite orb_true_iff, is_prefix_spec.
  - split.
    + intros [(b & H)|H]; [exists [], b; exact H|discriminate].
    + intros (a & b & H). left. destruct a; [now exists b|discriminate].
  - rewrite IH. split.
    + intros [(b & H)|(a & b & H)]; [exists [], b; exact H|exists (y :: a), b; now rewrite H].
    + intros (a & b & H). destruct a as [|y' a]; [left; now exists b|].
      right. inversion H; subst. now exists a, b.
Qed.

Theorem like_semantics o path r :
  (forall s, attr o path = Some (JStr s) ->
     (eval_stmt (mkStmt path 6 r) o = true <-> exists a b, s = a ++ rv_str r ++ b) /\
     eval_stmt (mkStmt path 7 r) o = negb (eval_stmt (mkStmt path 6 r) o)) /\
  (forall vs, attr o path = Some (JList vs) ->
     (eval_stmt (mkStmt path 6 r) o = true <-> exists e, In e vs /\ py_eq e r = true) /\
     eval_stmt (mkStmt path 7 r) o = negb (eval_stmt (mkStmt path 6 r) o)) /\
  (attr o path = None -> eval_stmt (mkStmt path 6 r) o = false /\ eval_stmt (mkStmt path 7 r) o = false).
Proof.
  unfold eval_stmt; cbn [s_path s_op s_ref]. repeat split.
  - rewrite H. cbn. now rewrite is_sub_spec.
  - rewrite H. cbn. intros (a & b & E). apply is_sub_spec. now exists a, b.
  - now rewrite H.
  - rewrite H. cbn. now rewrite existsb_exists.
  - rewrite H. cbn. intros E. now apply existsb_exists.
  - now rewrite H.
  - now rewrite H.
  - now rewrite H.
Qed.

(* the six comparison operators on integers; a string reference never compares with a number *)
Theorem compare_semantics o path n :
  attr o path = Some (JInt n) ->
  (forall m, (eval_stmt (mkStmt path 0 (RInt m)) o = true <-> n = m) /\
             (eval_stmt (mkStmt path 1 (RInt m)) o = true <-> n <> m) /\
             (eval_stmt (mkStmt path 2 (RInt m)) o = true <-> n > m) /\
             (eval_stmt (mkStmt path 3 (RInt m)) o = true <-> n < m) /\
             (eval_stmt (mkStmt path 4 (RInt m)) o = true <-> n >= m) /\
             (eval_stmt (mkStmt path 5 (RInt m)) o = true <-> n <= m)) /\
  (forall t, eval_stmt (mkStmt path 0 (RStr t)) o = false /\
             eval_stmt (mkStmt path 1 (RStr t)) o = true /\
             eval_stmt (mkStmt path 2 (RStr t)) o = false /\
             eval_stmt (mkStmt path 3 (RStr t)) o = false /\
             eval_stmt (mkStmt path 4 (RStr t)) o = false /\
             eval_stmt (mkStmt path 5 (RStr t)) o = false).
Proof.
  intros H. unfold eval_stmt; cbn [s_path s_op s_ref]. rewrite H. split.
  - intros m. cbn. unfold py_eq, py_cmp; cbn. rewrite Z.mul_1_r.
    destruct (Z.compare_spec n m); repeat split; intros; try lia; try discriminate; try reflexivity.
  - intros t. cbn. repeat split.
Qed.

(* a float reference value num/den (den > 0): the six comparison operators on an integer attribute compare the
   exact values, n ? num/den  iff  n*den ? num *)
Theorem compare_semantics_float o path n :
  attr o path = Some (JInt n) ->
  forall num den txt, 0 < den ->
    (eval_stmt (mkStmt path 0 (RFlt num den txt)) o = true <-> n * den = num) /\
    (eval_stmt (mkStmt path 1 (RFlt num den txt)) o = true <-> n * den <> num) /\
    (eval_stmt (mkStmt path 2 (RFlt num den txt)) o = true <-> n * den > num) /\
    (eval_stmt (mkStmt path 3 (RFlt num den txt)) o = true <-> n * den < num) /\
    (eval_stmt (mkStmt path 4 (RFlt num den txt)) o = true <-> n * den >= num) /\
    (eval_stmt (mkStmt path 5 (RFlt num den txt)) o = true <-> n * den <= num).
Proof.
  intros H num den txt Hd. unfold eval_stmt; cbn [s_path s_op s_ref]. rewrite H.
  cbn. unfold py_eq, py_cmp; cbn.
  destruct (Z.compare_spec (n * den) num); repeat split; intros; try lia; try discriminate; try reflexivity.
Qed.

(* ---- reference values of equal value and different type ---------------------------------- *)
Lemma rnum_wf r n d : rv_wf r -> rnum r = Some (n, d) -> 0 < d.
Proof. destruct r; cbn; intros W E; inversion E; subst; try lia. Qed.

Lemma py_eq_same_number v r1 r2 :
  rv_wf r1 -> rv_wf r2 -> same_number r1 r2 -> py_eq v r1 = py_eq v r2.
Proof.
  intros W1 W2 S. unfold same_number in S.
  destruct (rnum r1) as [[n1 d1]|] eqn:E1; [|contradiction].
  destruct (rnum r2) as [[n2 d2]|] eqn:E2; [|contradiction].
  pose proof (rnum_wf _ _ _ W1 E1). pose proof (rnum_wf _ _ _ W2 E2).
  unfold py_eq. rewrite E1, E2.
  destruct (num_of v) as [a|].
  - apply eq_true_iff_eq. rewrite !Z.eqb_eq. split; intros; nia.
  - destruct v; try reflexivity. destruct r1; try discriminate; destruct r2; try discriminate; reflexivity.
Qed.

Lemma py_cmp_same_number v r1 r2 :
  rv_wf r1 -> rv_wf r2 -> same_number r1 r2 -> py_cmp v r1 = py_cmp v r2.
Proof.
  intros W1 W2 S. unfold same_number in S.
  destruct (rnum r1) as [[n1 d1]|] eqn:E1; [|contradiction].
  destruct (rnum r2) as [[n2 d2]|] eqn:E2; [|contradiction].
  pose proof (rnum_wf _ _ _ W1 E1). pose proof (rnum_wf _ _ _ W2 E2).
  unfold py_cmp. rewrite E1, E2.
  destruct (num_of v) as [a|].
  - f_equal.
    destruct (Z.compare_spec (a * d1) n1); destruct (Z.compare_spec (a * d2) n2); try reflexivity; exfalso; nia.
  - destruct v; try reflexivity. destruct r1; try discriminate; destruct r2; try discriminate; reflexivity.
Qed.

Lemma existsb_same_number vs r1 r2 :
  rv_wf r1 -> rv_wf r2 -> same_number r1 r2 ->
  existsb (fun e => py_eq e r1) vs = existsb (fun e => py_eq e r2) vs.
Proof.
  intros W1 W2 S. induction vs as [|e vs IH]; [reflexivity|]. cbn.
  rewrite (py_eq_same_number e r1 r2 W1 W2 S), IH. reflexivity.
Qed.

(* the type of a reference value does not matter to ==, !=, >, <, >=, <= nor to like / notlike on anything but a
   string: reference values denoting the same number are interchangeable there ... *)
Theorem same_number_interchangeable v r1 r2 op :
  rv_wf r1 -> rv_wf r2 -> same_number r1 r2 ->
  (0 <= op <= 5 \/ (forall s, v <> JStr s)) ->
  apply_op op v r1 = apply_op op v r2.
Proof.
  intros W1 W2 S Hop.
  assert (Hl : (forall s, v <> JStr s) -> like v r1 = like v r2).
  { intros Hs. destruct v; try reflexivity.
    - exfalso. now apply (Hs s).
    - cbn. apply existsb_same_number; assumption. }
  unfold apply_op.
  rewrite (py_eq_same_number v r1 r2 W1 W2 S), (py_cmp_same_number v r1 r2 W1 W2 S).
  destruct (op =? 0) eqn:?; [reflexivity|]. destruct (op =? 1) eqn:?; [reflexivity|].
  destruct (op =? 2) eqn:?; [reflexivity|]. destruct (op =? 3) eqn:?; [reflexivity|].
  destruct (op =? 4) eqn:?; [reflexivity|]. destruct (op =? 5) eqn:?; [reflexivity|].
  destruct Hop as [Hop|Hs]; [lia|]. rewrite (Hl Hs). reflexivity.
Qed.
