From FlexVerif Require Import Base.Prelude Base.Interleave Model.LdmConc Gen.LdmLockSummary.
From Coq Require Import ZifyBool.
Local Arguments Z.eqb : simpl never.
Local Arguments Z.add : simpl never.

Lemma NoDup_app_one {A} (l : list A) x : NoDup l -> ~ In x l -> NoDup (l ++ [x]).
Proof.
  induction l as [|y l IH]; intros N H; cbn; [constructor; [intros []|constructor]|].
  inversion N; subst. constructor.
  - intros C. apply in_app_or in C as [C|[C|[]]]; [contradiction | subst; apply H; left; reflexivity].
  - apply IH; [assumption|]. intros C. apply H. right. exact C.
Qed.

(* ============ obligations on the regenerated lock summary of the LDM ================================= *)
Lemma ldm_names_agree :
  (LL_DictionaryDataBase_lock, LL_LDMMaintenanceThread_data_containers_lock, LL_LDMMaintenanceReactive_lock,
   LL_LDMService_lock, LL_LDMServiceThreads_data_containers_lock, LL_LDMServiceReactive_lock) = (0, 1, 2, 3, 4, 5) /\
  (LF_DictionaryDataBase_database, LF_DictionaryDataBase_next_id, LF_LDMMaintenance_new_data_recieved_flag,
   LF_LDMMaintenanceReactive_last_trash_collection_time, LF_LDMService_data_provider_its_aid,
   LF_LDMService_data_consumer_its_aid, LF_LDMService_subscriptions, LF_LDMService_last_checked_subscriptions_time,
   LF_LDMServiceReactive_last_subscription_time) = (0, 1, 2, 3, 4, 5, 6, 7, 8).
Proof. split; reflexivity. Qed.

Lemma ldm_summary_well_locked : forallb (wl ldm_policy []) ldm_summary = true.
Proof. vm_compute. reflexivity. Qed.

Lemma ldm_summary_lock_order : forallb (ordr ldm_rank ldm_reent []) ldm_summary = true.
Proof. vm_compute. reflexivity. Qed.

(* every database method is ONE critical section of the RLock (id allocation included), or touches no state *)
Lemma db_methods_atomic : forallb (one_section 0) ldm_methods_DictionaryDataBase = true.
Proof. vm_compute. reflexivity. Qed.
(* the methods the interface uses do exist and are not empty summaries *)
Lemma db_methods_present :
  In LM_DictionaryDataBase_insert ldm_methods_DictionaryDataBase /\ LM_DictionaryDataBase_insert <> [] /\
  In LM_DictionaryDataBase_update ldm_methods_DictionaryDataBase /\ LM_DictionaryDataBase_update <> [] /\
  In LM_DictionaryDataBase_remove_by_id ldm_methods_DictionaryDataBase /\ LM_DictionaryDataBase_remove_by_id <> [] /\
  In LM_DictionaryDataBase_remove ldm_methods_DictionaryDataBase /\ LM_DictionaryDataBase_remove <> [] /\
  In LM_DictionaryDataBase_all ldm_methods_DictionaryDataBase /\ LM_DictionaryDataBase_all <> [] /\
  In LM_DictionaryDataBase_search ldm_methods_DictionaryDataBase /\ LM_DictionaryDataBase_search <> [] /\
  In LM_DictionaryDataBase_exists ldm_methods_DictionaryDataBase /\ LM_DictionaryDataBase_exists <> [] /\
  In LM_DictionaryDataBase_get ldm_methods_DictionaryDataBase /\ LM_DictionaryDataBase_get <> [].
Proof. vm_compute. repeat split; try discriminate; tauto. Qed.

(* the IF.LDM.3 / IF.LDM.4 calls (per configuration): compositions of the sections above, some of them inside a section
   of the service's state lock *)
Lemma ldm_if_summary_well_locked : forallb (wl ldm_policy []) ldm_if_summary = true.
Proof. vm_compute. reflexivity. Qed.

Lemma ldm_if_summary_lock_order : forallb (ordr ldm_rank ldm_reent []) ldm_if_summary = true.
Proof. vm_compute. reflexivity. Qed.

(* check-then-act calls of the interfaces are ONE outermost section of the service's state lock: the registration is read
   and the store / the subscription table written without the lock being released in between *)
Definition ldm_if_single_sections : list (list action) :=
  [LM_InterfaceLDM3_Thread_add_provider_data; LM_InterfaceLDM3_Reactive_add_provider_data;
   LM_InterfaceLDM4_Thread_subscribe_data_consumer; LM_InterfaceLDM4_Reactive_subscribe_data_consumer].

Lemma if_check_then_act_single_section :
  forallb (one_section 3) ldm_if_single_sections = true /\
  forallb (fun m => touches (Rd 4) m && touches (Wr 0) m)        (* provider registry read, store written *)
          [LM_InterfaceLDM3_Thread_add_provider_data; LM_InterfaceLDM3_Reactive_add_provider_data] = true /\
  forallb (fun m => touches (Rd 5) m && touches (Wr 6) m)        (* consumer registry read, subscriptions written *)
          [LM_InterfaceLDM4_Thread_subscribe_data_consumer; LM_InterfaceLDM4_Reactive_subscribe_data_consumer] = true /\
  Forall (fun m => In m ldm_if_summary) ldm_if_single_sections.
Proof.
  split; [vm_compute; reflexivity|]. split; [vm_compute; reflexivity|]. split; [vm_compute; reflexivity|].
  unfold ldm_if_single_sections, ldm_if_summary.
  repeat (apply Forall_cons; [repeat (apply in_or_app; first [left; cbv delta [ldm_methods_InterfaceLDM3_Thread
    ldm_methods_InterfaceLDM3_Reactive ldm_methods_InterfaceLDM4_Thread ldm_methods_InterfaceLDM4_Reactive];
    cbn [In]; solve [repeat (first [left; reflexivity | right])] | right]);
    cbv delta [ldm_methods_InterfaceLDM4_Reactive]; cbn [In]; solve [repeat (first [left; reflexivity | right])]|]).
  apply Forall_nil.
Qed.

Definition ldm_all_summary : list (list action) := ldm_summary ++ ldm_if_summary.

(* a thread runs any sequence of methods of the LDM classes and of interface calls *)
Definition from_ldm_summary (progs : list (list action)) : Prop :=
  Forall (fun p => exists ms, Forall (fun m => In m ldm_all_summary) ms /\ p = concat ms) progs.

Lemma ldm_all_summary_well_locked : forallb (wl ldm_policy []) ldm_all_summary = true.
Proof.
  unfold ldm_all_summary. rewrite forallb_app, ldm_summary_well_locked, ldm_if_summary_well_locked. reflexivity.
Qed.

Lemma ldm_all_summary_lock_order : forallb (ordr ldm_rank ldm_reent []) ldm_all_summary = true.
Proof.
  unfold ldm_all_summary. rewrite forallb_app, ldm_summary_lock_order, ldm_if_summary_lock_order. reflexivity.
Qed.

Lemma ordr_app rank reent a : forall held b p, wl p held a = true -> ordr rank reent held a = true ->
  ordr rank reent [] b = true -> ordr rank reent held (a ++ b) = true.
Proof.
  induction a as [|x a IH]; intros held b p Hw Ho Hb; cbn [app].
  - cbn in Hw. destruct held; [exact Hb | discriminate].
  - destruct x; cbn [wl ordr] in *.
    + apply andb_true_iff in Ho as [E Ho]. rewrite E. cbn. eapply IH; eauto.
    + destruct held as [|h hs]; [discriminate|]. apply andb_true_iff in Hw as [E Hw].
      cbn [remove_one] in *. rewrite E in *. eapply IH; eauto.
    + apply andb_true_iff in Hw as [_ Hw]. eapply IH; eauto.
    + apply andb_true_iff in Hw as [_ Hw]. eapply IH; eauto.
Qed.

Lemma from_ldm_summary_checks progs : from_ldm_summary progs ->
  forallb (wl ldm_policy []) progs = true /\ forallb (ordr ldm_rank ldm_reent []) progs = true.
Proof.
  intros H. pose proof ldm_all_summary_well_locked as W. pose proof ldm_all_summary_lock_order as O.
  rewrite forallb_forall in W, O. unfold from_ldm_summary in H. rewrite Forall_forall in H. split.
  - apply forallb_forall. intros p Hp. destruct (H p Hp) as (ms & Hms & ->). rewrite Forall_forall in Hms.
    apply wl_concat. apply forallb_forall. intros m Hm. apply W, Hms, Hm.
  - apply forallb_forall. intros p Hp. destruct (H p Hp) as (ms & Hms & ->). rewrite Forall_forall in Hms.
    clear Hp. induction ms as [|m ms IH]; [reflexivity|]. cbn [concat].
    apply (ordr_app ldm_rank ldm_reent m [] (concat ms) ldm_policy).
    + apply W, Hms. left. reflexivity.
    + apply O, Hms. left. reflexivity.
    + apply IH. intros x Hx. apply Hms. right. exact Hx.
Qed.

Theorem ldm_no_conflicting_access progs c i j ti tj f ri rj l : from_ldm_summary progs ->
  reachable (initial progs) c -> nth_error c i = Some ti -> nth_error c j = Some tj -> i <> j ->
  ldm_write f = Some l -> t_prog ti = Wr f :: ri ->
  (t_prog tj = Wr f :: rj \/ (t_prog tj = Rd f :: rj /\ ldm_read f = Some l)) -> False.
Proof.
  intros H. destruct (from_ldm_summary_checks progs H) as [W _].
  apply (no_conflicting_access ldm_policy progs c i j ti tj f ri rj l W).
Qed.

Theorem ldm_deadlock_free progs c : from_ldm_summary progs -> reachable (initial progs) c ->
  (exists i t, nth_error c i = Some t /\ t_prog t <> []) -> exists k, enabled c k = true.
Proof.
  intros H. destruct (from_ldm_summary_checks progs H) as [W O].
  apply (deadlock_free_ranked ldm_policy ldm_rank ldm_reent progs c W O).
Qed.

(* ============ the database as an atomic object: every order of operations ================================ *)
Definition db_inv (s : dbs) : Prop := NoDup (keys s) /\ Forall (fun k => 0 <= k < d_next s) (keys s) /\ 0 <= d_next s.

Lemma keys_set_val l i v : map fst (set_val l i v) = map fst l.
Proof. induction l as [|[k x] l IH]; cbn; [reflexivity|]. destruct (k =? i); cbn; [reflexivity | f_equal; exact IH]. Qed.

Lemma in_del_id l i k : In k (map fst (del_id l i)) -> In k (map fst l).
Proof. induction l as [|[k0 x] l IH]; cbn; [auto|]. destruct (k0 =? i); cbn; [auto|]. intros [H|H]; auto. Qed.

Lemma in_del_val l v k : In k (map fst (del_val l v)) -> In k (map fst l).
Proof. induction l as [|[k0 x] l IH]; cbn; [auto|]. destruct (x =? v); cbn; [auto|]. intros [H|H]; auto. Qed.

Lemma nodup_del_id l i : NoDup (map fst l) -> NoDup (map fst (del_id l i)).
Proof.
  induction l as [|[k x] l IH]; cbn; [auto|]. intros H. inversion H; subst. destruct (k =? i); cbn; [assumption|].
  constructor; [|auto]. intros C. apply in_del_id in C. contradiction.
Qed.

Lemma nodup_del_val l v : NoDup (map fst l) -> NoDup (map fst (del_val l v)).
Proof.
  induction l as [|[k x] l IH]; cbn; [auto|]. intros H. inversion H; subst. destruct (x =? v); cbn; [assumption|].
  constructor; [|auto]. intros C. apply in_del_val in C. contradiction.
Qed.

Lemma db_step_inv s o : db_inv s -> db_inv (fst (db_step s o)).
Proof.
  unfold db_inv, keys. intros (N & B & P). destruct o; cbn [db_step fst].
  - cbn [d_items d_next]. rewrite map_app. cbn [map fst]. repeat split; [| |lia].
    + apply NoDup_app_one; [exact N|]. intros C. rewrite Forall_forall in B. specialize (B _ C). lia.
    + apply Forall_app. split; [|constructor; [lia|constructor]].
      eapply Forall_impl; [|exact B]. intros a Ha. cbn in Ha. lia.
  - auto.
  - destruct (lookup (d_items s) i); cbn [fst d_items d_next]; [rewrite keys_set_val|]; auto.
  - destruct (lookup (d_items s) i); cbn [fst d_items d_next]; [|auto].
    repeat split; [apply nodup_del_id; exact N | | exact P].
    rewrite Forall_forall in *. intros k Hk. apply B. eapply in_del_id; eauto.
  - cbn [d_items d_next]. repeat split; [apply nodup_del_val; exact N | | exact P].
    rewrite Forall_forall in *. intros k Hk. apply B. eapply in_del_val; eauto.
  - auto.
  - auto.
Qed.

Lemma db_run_inv ops : forall s, db_inv s -> db_inv (fst (db_run s ops)).
Proof.
  induction ops as [|o ops IH]; intros s H; cbn [db_run]; [exact H|].
  pose proof (db_step_inv s o H) as H1. destruct (db_step s o) as [s1 x]. cbn [fst] in H1.
  specialize (IH s1 H1). destruct (db_run s1 ops) as [s2 xs]. exact IH.
Qed.

Lemma db_step_next s o : d_next s <= d_next (fst (db_step s o)).
Proof.
  destruct o; cbn [db_step fst d_next]; try lia.
  - destruct (lookup (d_items s) i); cbn; lia.
  - destruct (lookup (d_items s) i); cbn; lia.
Qed.

(* ---- identifiers: unique, fresh, increasing - in EVERY order of operations ---- *)
Lemma db_run_ids ops : forall s, 0 <= d_next s ->
  let '(s', rs) := db_run s ops in
  d_next s <= d_next s' /\ Forall (fun i => d_next s <= i < d_next s') (inserted_ids rs) /\ NoDup (inserted_ids rs).
Proof.
  induction ops as [|o ops IH]; intros s P; cbn [db_run].
  - cbn. repeat split; [lia | constructor | constructor].
  - pose proof (db_step_next s o) as Hn. destruct (db_step s o) as [s1 x] eqn:E. cbn [fst] in Hn.
    assert (P1 : 0 <= d_next s1) by lia. specialize (IH s1 P1). destruct (db_run s1 ops) as [s2 xs].
    destruct IH as (L & F & N). cbn [inserted_ids flat_map]. fold (inserted_ids xs).
    assert (Hx : match x with RId i => i = d_next s /\ d_next s1 = d_next s + 1 | _ => True end).
    { destruct o; cbn [db_step] in E; try (inversion E; subst; cbn; auto; fail).
      - destruct (lookup (d_items s) i); inversion E; subst; exact I.
      - destruct (lookup (d_items s) i); inversion E; subst; exact I. }
    destruct x; cbn [app]; try (repeat split; [lia | | exact N];
      eapply Forall_impl; [|exact F]; intros a Ha; cbn in Ha; lia).
    destruct Hx as [-> Hs1]. repeat split; [lia | |].
    + constructor; [lia|]. eapply Forall_impl; [|exact F]. intros a Ha. cbn in Ha. lia.
    + constructor; [|exact N]. intros C. rewrite Forall_forall in F. specialize (F _ C). cbn in F. lia.
Qed.

Lemma ids_unique_any_order ops : NoDup (inserted_ids (snd (db_run db_init ops))).
Proof.
  pose proof (db_run_ids ops db_init) as H. cbn [db_init d_next] in H. specialize (H ltac:(lia)).
  destruct (db_run db_init ops) as [s rs]. cbn [snd]. apply H.
Qed.

(* an identifier handed out later never equals one that was ever present or handed out before *)
Lemma ids_fresh s ops : db_inv s ->
  Forall (fun i => ~ In i (keys s)) (inserted_ids (snd (db_run s ops))).
Proof.
  intros (N & B & P). pose proof (db_run_ids ops s P) as H. destruct (db_run s ops) as [s' rs]. cbn [snd].
  destruct H as (_ & F & _). rewrite Forall_forall in *. intros i Hi C. specialize (F _ Hi). specialize (B _ C).
  cbn in F, B. lia.
Qed.

(* ---- frame: an object is only changed by an operation that names it ---- *)
Lemma lookup_app l i k v : lookup (l ++ [(k, v)]) i = match lookup l i with Some x => Some x | None => if k =? i then Some v else None end.
Proof. induction l as [|[k0 x] l IH]; cbn; [reflexivity|]. destruct (k0 =? i); [reflexivity | exact IH]. Qed.

Lemma lookup_in l i v : lookup l i = Some v -> In i (map fst l).
Proof.
  induction l as [|[k x] l IH]; cbn; [discriminate|]. destruct (k =? i) eqn:E; [left; lia | intros H; right; auto].
Qed.

Lemma lookup_set_val l i j v : lookup (set_val l j v) i = if (j =? i) then (match lookup l i with Some _ => Some v | None => None end) else lookup l i.
Proof.
  induction l as [|[k x] l IH]; cbn; [destruct (j =? i); reflexivity|].
  destruct (k =? j) eqn:E1; cbn; destruct (k =? i) eqn:E2; destruct (j =? i) eqn:E3; try reflexivity; try lia.
  - exact IH.
  - exact IH.
Qed.

Lemma lookup_del_id_other l i j : i <> j -> lookup (del_id l j) i = lookup l i.
Proof.
  intros D. induction l as [|[k x] l IH]; cbn; [reflexivity|].
  destruct (k =? j) eqn:E1; cbn; destruct (k =? i) eqn:E2; try reflexivity; try lia. exact IH.
Qed.

Lemma lookup_del_id_same l i : NoDup (map fst l) -> lookup (del_id l i) i = None.
Proof.
  induction l as [|[k x] l IH]; cbn; [reflexivity|]. intros N. inversion N; subst.
  destruct (k =? i) eqn:E; cbn.
  - destruct (lookup l i) eqn:L; [|reflexivity]. apply lookup_in in L. assert (k = i) by lia. subst. contradiction.
  - rewrite E. auto.
Qed.

Lemma lookup_del_val_keep l i v w : NoDup (map fst l) -> lookup l i = Some v -> v <> w -> lookup (del_val l w) i = Some v.
Proof.
  induction l as [|[k x] l IH]; cbn; [discriminate|]. intros N L D. inversion N; subst.
  destruct (k =? i) eqn:E.
  - inversion L; subst. destruct (v =? w) eqn:E2; [lia|]. cbn. rewrite E. reflexivity.
  - destruct (x =? w) eqn:E2; [exact L|]. cbn. rewrite E. auto.
Qed.

Lemma lookup_del_val_none l i w : lookup l i = None -> lookup (del_val l w) i = None.
Proof.
  induction l as [|[k x] l IH]; cbn; [reflexivity|]. destruct (k =? i) eqn:E; [discriminate|]. intros L.
  destruct (x =? w); [exact L|]. cbn. rewrite E. auto.
Qed.

Lemma lookup_del_val_some l i v w : NoDup (map fst l) -> lookup (del_val l w) i = Some v -> lookup l i = Some v.
Proof.
  induction l as [|[k x] l IH]; cbn; [discriminate|]. intros N H. inversion N; subst.
  destruct (x =? w).
  - destruct (k =? i) eqn:E; [|exact H]. apply lookup_in in H. assert (k = i) by lia. subst. contradiction.
  - cbn in H. destruct (k =? i); [exact H | auto].
Qed.

(* NO ADDED OBJECT IS LOST: a stored object keeps its value under every operation that does not name it *)
Lemma no_lost_object s o i v : db_inv s -> lookup (d_items s) i = Some v ->
  o <> DRemId i -> (forall w, o <> DUpd i w) -> (forall w, o = DRemVal w -> w <> v) ->
  lookup (d_items (fst (db_step s o))) i = Some v.
Proof.
  intros (N & B & P) L H1 H2 H3. destruct o; cbn [db_step fst d_items]; try exact L.
  - rewrite lookup_app, L. reflexivity.
  - destruct (lookup (d_items s) i0) eqn:L0; cbn [fst d_items]; [|exact L].
    rewrite lookup_set_val. destruct (i0 =? i) eqn:E; [|exact L]. exfalso. apply (H2 v0). f_equal. lia.
  - destruct (lookup (d_items s) i0) eqn:L0; cbn [fst d_items]; [|exact L].
    rewrite lookup_del_id_other; [exact L|]. intros ->. apply H1. reflexivity.
  - apply lookup_del_val_keep; [exact N | exact L |]. intros ->. apply (H3 v0); reflexivity.
Qed.

(* NO PHANTOM: an object that is present after a step was present before with the same value, or was just
   inserted under the fresh identifier, or was just updated (and existed) *)
Lemma no_phantom_object s o i v : db_inv s -> lookup (d_items (fst (db_step s o))) i = Some v ->
  lookup (d_items s) i = Some v \/ (o = DIns v /\ i = d_next s) \/ (o = DUpd i v /\ lookup (d_items s) i <> None).
Proof.
  intros (N & B & P). destruct o; cbn [db_step fst d_items]; auto.
  - rewrite lookup_app. destruct (lookup (d_items s) i) eqn:L; [auto|].
    destruct (d_next s =? i) eqn:E; [|discriminate]. intros H. inversion H; subst. right. left. split; [reflexivity|lia].
  - destruct (lookup (d_items s) i0) eqn:L0; cbn [fst d_items]; [|auto]. rewrite lookup_set_val.
    destruct (i0 =? i) eqn:E; [|auto]. assert (i0 = i) by lia. subst. rewrite L0. intros H. inversion H; subst.
    right. right. split; [reflexivity | congruence].
  - destruct (lookup (d_items s) i0) eqn:L0; cbn [fst d_items]; [|auto].
    destruct (Z.eq_dec i i0) as [->|D]; [rewrite lookup_del_id_same by exact N; discriminate|].
    rewrite lookup_del_id_other by exact D. auto.
  - intros H. left. eapply lookup_del_val_some; eauto.
Qed.

(* ---- removal is final: identifiers are never reused, nothing resurrects a removed object ---- *)
Lemma removed_stays_removed_step s o i : db_inv s -> i < d_next s -> lookup (d_items s) i = None ->
  lookup (d_items (fst (db_step s o))) i = None.
Proof.
  intros Hi Lt L. destruct (lookup (d_items (fst (db_step s o))) i) eqn:E; [|reflexivity].
  apply no_phantom_object in E; [|exact Hi]. destruct E as [E|[[_ E]|[_ E]]]; [congruence | lia | congruence].
Qed.

Lemma removed_stays_removed ops : forall s i, db_inv s -> i < d_next s -> lookup (d_items s) i = None ->
  lookup (d_items (fst (db_run s ops))) i = None /\ succ_dels i s ops = 0%nat.
Proof.
  induction ops as [|o ops IH]; intros s i Hi Lt L; cbn [db_run succ_dels]; [auto|].
  pose proof (db_step_inv s o Hi) as Hi1. pose proof (db_step_next s o) as Hn.
  pose proof (removed_stays_removed_step s o i Hi Lt L) as L1.
  assert (Hx : match o, snd (db_step s o) with DRemId j, RBool true => j <> i | _, _ => True end).
  { destruct o; cbn [db_step]; try exact I.
    destruct (lookup (d_items s) i0) eqn:L0; cbn [snd]; [|exact I]. intros ->. congruence. }
  destruct (db_step s o) as [s1 x]. cbn [fst snd] in *.
  destruct (IH s1 i Hi1 ltac:(lia) L1) as [A B]. destruct (db_run s1 ops) as [s2 xs]. cbn [fst] in *.
  split; [exact A|]. rewrite B. destruct o; try reflexivity. destruct x; try reflexivity. destruct b; [|reflexivity].
  destruct (i0 =? i) eqn:E; [lia | reflexivity].
Qed.

(* AT MOST ONE DELETION OF AN OBJECT SUCCEEDS, whatever the order of the operations *)
Lemma at_most_one_delete ops : forall s i, db_inv s -> (succ_dels i s ops <= 1)%nat.
Proof.
  induction ops as [|o ops IH]; intros s i Hi; cbn [succ_dels]; [lia|].
  pose proof (db_step_inv s o Hi) as Hi1.
  destruct o; try (destruct (db_step s _) as [s1 x] eqn:E; cbn [fst] in Hi1; specialize (IH s1 i Hi1); destruct x; lia).
  cbn [db_step] in *. destruct (lookup (d_items s) i0) eqn:L0; cbn [fst] in *.
  - destruct (i0 =? i) eqn:E; [|apply IH; exact Hi1].
    assert (i0 = i) by lia. subst i0.
    set (s1 := mkDb (del_id (d_items s) i) (d_next s)) in *.
    assert (L1 : lookup (d_items s1) i = None) by (apply lookup_del_id_same; apply Hi).
    assert (Lt : i < d_next s1).
    { destruct Hi as (_ & B & _). apply lookup_in in L0. rewrite Forall_forall in B. specialize (B _ L0). cbn in B. cbn. lia. }
    destruct (removed_stays_removed ops s1 i Hi1 Lt L1) as [_ Z0]. rewrite Z0. lia.
  - specialize (IH s i Hi). lia.
Qed.

(* a snapshot returns exactly the objects present at the instant of its critical section *)
Lemma all_is_snapshot s : db_step s DAll = (s, RAll (d_items s)).
Proof. reflexivity. Qed.
Lemma exists_is_exact s i : snd (db_step s (DExists i)) = RBool true <-> exists v, lookup (d_items s) i = Some v.
Proof.
  cbn. destruct (lookup (d_items s) i); split; intros H; try discriminate; eauto. destruct H; discriminate.
Qed.

(* conservation over a whole history: an object inserted in a run from the empty database is present at the end
   with its inserted value if no later operation of the run names it *)
Fixpoint names (i v : Z) (ops : list dop) : bool :=
  match ops with
  | [] => false
  | o :: r => (match o with DRemId j => j =? i | DUpd j _ => j =? i | DRemVal w => w =? v | _ => false end) || names i v r
  end.

Lemma kept_through_run ops : forall s i v, db_inv s -> lookup (d_items s) i = Some v -> names i v ops = false ->
  lookup (d_items (fst (db_run s ops))) i = Some v.
Proof.
  induction ops as [|o ops IH]; intros s i v Hi L Nm; cbn [db_run]; [exact L|].
  cbn [names] in Nm. apply orb_false_iff in Nm as [N1 N2].
  pose proof (db_step_inv s o Hi) as Hi1.
  assert (L1 : lookup (d_items (fst (db_step s o))) i = Some v).
  { apply no_lost_object; try assumption.
    - intros ->. rewrite Z.eqb_refl in N1. discriminate.
    - intros w ->. rewrite Z.eqb_refl in N1. discriminate.
    - intros w -> ->. rewrite Z.eqb_refl in N1. discriminate. }
  destruct (db_step s o) as [s1 x]. cbn [fst] in *. specialize (IH s1 i v Hi1 L1 N2).
  destruct (db_run s1 ops) as [s2 xs]. exact IH.
Qed.

Lemma db_init_inv : db_inv db_init.
Proof. unfold db_inv, keys, db_init; cbn. repeat split; [constructor | constructor | lia]. Qed.

Lemma insert_then_kept pre post v : names (d_next (fst (db_run db_init pre))) v post = false ->
  lookup (d_items (fst (db_run db_init (pre ++ DIns v :: post)))) (d_next (fst (db_run db_init pre))) = Some v.
Proof.
  intros Nm. pose proof (db_run_inv pre db_init db_init_inv) as Hi.
  assert (R : forall a s, fst (db_run s (a ++ DIns v :: post)) = fst (db_run (fst (db_step (fst (db_run s a)) (DIns v))) post)).
  { induction a as [|o a IH]; intros s; cbn [app db_run].
    - cbn [db_step fst]. destruct (db_run _ post); reflexivity.
    - destruct (db_step s o) as [s1 x]. specialize (IH s1). destruct (db_run s1 (a ++ DIns v :: post)).
      destruct (db_run s1 a). cbn [fst] in *. exact IH. }
  rewrite R. set (s := fst (db_run db_init pre)) in *.
  apply kept_through_run; [apply db_step_inv; exact Hi | | exact Nm].
  cbn [db_step fst d_items]. rewrite lookup_app.
  destruct (lookup (d_items s) (d_next s)) eqn:L.
  - exfalso. apply lookup_in in L. destruct Hi as (_ & B & _). rewrite Forall_forall in B. specialize (B _ L). cbn in B. lia.
  - rewrite Z.eqb_refl. reflexivity.
Qed.

(* ============ registries and subscriptions: every order of operations ============================= *)
Lemma smem_sadd a b l : smem a (sadd b l) = (a =? b) || smem a l.
Proof.
  unfold sadd. destruct (smem b l) eqn:E.
  - destruct (a =? b) eqn:E2; [|reflexivity]. assert (a = b) by lia. subst. rewrite E. reflexivity.
  - unfold smem. rewrite existsb_app. cbn. rewrite orb_false_r, orb_comm. f_equal. apply Z.eqb_sym.
Qed.

Lemma smem_sdel a b l : smem a (sdel b l) = negb (a =? b) && smem a l.
Proof.
  unfold smem, sdel. induction l as [|x l IH]; cbn; [rewrite andb_false_r; reflexivity|].
  destruct (x =? b) eqn:E1; cbn; rewrite IH; destruct (x =? a) eqn:E2; destruct (a =? b) eqn:E3; cbn; try reflexivity; lia.
Qed.

Lemma prov_last_writer ops : forall st a,
  smem a (l_prov (fst (ldm_run st ops))) =
  match last_preg a ops None with Some b => b | None => smem a (l_prov st) end.
Proof.
  assert (K : forall ops a acc, last_preg a ops acc = match last_preg a ops None with Some b => Some b | None => acc end).
  { induction ops0 as [|o r IH]; intros a acc; cbn [last_preg]; [reflexivity|].
    destruct o as [d|b|b| |b|b| |s b|s b| |v b|b|g b|g]; try apply IH.
    - destruct (b =? a); [rewrite (IH a (Some true)); destruct (last_preg a r None); reflexivity | apply IH].
    - destruct (b =? a); [rewrite (IH a (Some false)); destruct (last_preg a r None); reflexivity | apply IH]. }
  induction ops as [|o r IH]; intros st a; cbn [ldm_run last_preg]; [reflexivity|].
  destruct (ldm_step st o) as [s1 x] eqn:E. specialize (IH s1 a). destruct (ldm_run s1 r) as [s2 xs]. cbn [fst] in *.
  rewrite IH. destruct o as [d|b|b| |b|b| |s b|s b| |v b|b|g b|g]; cbn [ldm_step] in E; unfold with_db, with_prov, with_cons, with_subs, with_gc in E.
  all: try (inversion E; subst; cbn [l_prov]; reflexivity).
  all: try (match type of E with context [if ?c then _ else _] => destruct c end; inversion E; subst; reflexivity).
  all: try (match type of E with context [match lookup ?l ?k with _ => _ end] => destruct (lookup l k) end;
            try (match type of E with context [db_step ?a ?b] => destruct (db_step a b) end); inversion E; subst; reflexivity).
  all: try (match type of E with context [if ?c then _ else _] => destruct c end;
            try (match type of E with context [db_step ?a ?b] => destruct (db_step a b) end); inversion E; subst; reflexivity).
  - destruct (db_step (l_db st) d); inversion E; subst; reflexivity.
  - inversion E; subst. cbn [l_prov]. rewrite smem_sadd. rewrite (Z.eqb_sym a b).
    destruct (b =? a) eqn:E2; [rewrite (K r a (Some true))|]; destruct (last_preg a r None); reflexivity.
  - inversion E; subst. cbn [l_prov]. rewrite smem_sdel. rewrite (Z.eqb_sym a b).
    destruct (b =? a) eqn:E2; [rewrite (K r a (Some false))|]; destruct (last_preg a r None); reflexivity.
Qed.

Lemma cons_last_writer ops : forall st a,
  smem a (l_cons (fst (ldm_run st ops))) =
  match last_creg a ops None with Some b => b | None => smem a (l_cons st) end.
Proof.
  assert (K : forall ops a acc, last_creg a ops acc = match last_creg a ops None with Some b => Some b | None => acc end).
  { induction ops0 as [|o r IH]; intros a acc; cbn [last_creg]; [reflexivity|].
    destruct o as [d|b|b| |b|b| |s b|s b| |v b|b|g b|g]; try apply IH.
    - destruct (b =? a); [rewrite (IH a (Some true)); destruct (last_creg a r None); reflexivity | apply IH].
    - destruct (b =? a); [rewrite (IH a (Some false)); destruct (last_creg a r None); reflexivity | apply IH]. }
  induction ops as [|o r IH]; intros st a; cbn [ldm_run last_creg]; [reflexivity|].
  destruct (ldm_step st o) as [s1 x] eqn:E. specialize (IH s1 a). destruct (ldm_run s1 r) as [s2 xs]. cbn [fst] in *.
  rewrite IH. destruct o as [d|b|b| |b|b| |s b|s b| |v b|b|g b|g]; cbn [ldm_step] in E; unfold with_db, with_prov, with_cons, with_subs, with_gc in E.
  all: try (inversion E; subst; cbn [l_cons]; reflexivity).
  all: try (match type of E with context [if ?c then _ else _] => destruct c end; inversion E; subst; reflexivity).
  all: try (match type of E with context [match lookup ?l ?k with _ => _ end] => destruct (lookup l k) end;
            try (match type of E with context [db_step ?a ?b] => destruct (db_step a b) end); inversion E; subst; reflexivity).
  all: try (match type of E with context [if ?c then _ else _] => destruct c end;
            try (match type of E with context [db_step ?a ?b] => destruct (db_step a b) end); inversion E; subst; reflexivity).
  - destruct (db_step (l_db st) d); inversion E; subst; reflexivity.
  - inversion E; subst. cbn [l_cons]. rewrite smem_sadd. rewrite (Z.eqb_sym a b).
    destruct (b =? a) eqn:E2; [rewrite (K r a (Some true))|]; destruct (last_creg a r None); reflexivity.
  - inversion E; subst. cbn [l_cons]. rewrite smem_sdel. rewrite (Z.eqb_sym a b).
    destruct (b =? a) eqn:E2; [rewrite (K r a (Some false))|]; destruct (last_creg a r None); reflexivity.
Qed.

(* subscriptions: every stored subscription belongs to a registered consumer (so none outlives its registration) *)
Definition subs_inv (st : ldm) : Prop := forall s a, In (s, a) (l_subs st) -> smem a (l_cons st) = true.

Lemma ldm_step_subs_inv st o : subs_inv st -> subs_inv (fst (ldm_step st o)).
Proof.
  unfold subs_inv. intros H. destruct o as [d|b|b| |b|b| |s b|s b| |v b|b|g b|g]; cbn [ldm_step]; unfold with_db, with_prov, with_cons, with_subs, with_gc; try exact H.
  - destruct (db_step (l_db st) d). exact H.
  - cbn [fst l_subs l_cons]. intros s a Hin. rewrite smem_sadd. rewrite (H s a Hin). apply orb_true_r.
  - cbn [fst l_subs l_cons]. intros s a Hin. apply filter_In in Hin as [Hin Hf]. cbn [snd] in Hf.
    rewrite smem_sdel. rewrite (H s a Hin). destruct (a =? b) eqn:E; [|reflexivity]. discriminate.
  - destruct (smem b (l_cons st)) eqn:E; [|exact H]. cbn [fst l_subs l_cons]. intros s0 a Hin.
    apply in_app_or in Hin as [Hin|[Hin|[]]]; [eauto|]. inversion Hin; subst. exact E.
  - destruct (smem b (l_cons st) && sub_has s (l_subs st)); [|exact H]. cbn [fst l_subs l_cons].
    intros s0 a Hin. apply filter_In in Hin as [Hin _]. eauto.
  - destruct (smem b (l_prov st)); [|exact H]. destruct (db_step (l_db st) (DIns v)). exact H.
  - destruct (smem b (l_cons st)); exact H.
  - destruct (lookup (d_items (l_db st)) b); exact H.
  - destruct (lookup (l_gc st) g) as [w|]; [|exact H]. destruct (db_step (l_db st) (DRemVal w)). exact H.
Qed.

Lemma ldm_run_subs_inv ops : forall st, subs_inv st -> subs_inv (fst (ldm_run st ops)).
Proof.
  induction ops as [|o r IH]; intros st H; cbn [ldm_run]; [exact H|].
  pose proof (ldm_step_subs_inv st o H) as H1. destruct (ldm_step st o) as [s1 x]. cbn [fst] in H1.
  specialize (IH s1 H1). destruct (ldm_run s1 r). exact IH.
Qed.

(* NOT LOST: a stored subscription stays unless it is unsubscribed or its owner deregisters *)
Lemma sub_not_lost st o s a : In (s, a) (l_subs st) ->
  (forall b, o <> LSDel s b) -> o <> LCDereg a -> In (s, a) (l_subs (fst (ldm_step st o))).
Proof.
  intros Hin H1 H2. destruct o as [d|b|b| |b|b| |s0 b|s0 b| |v b|b|g b|g]; cbn [ldm_step]; unfold with_db, with_prov, with_cons, with_subs, with_gc; try exact Hin.
  - destruct (db_step (l_db st) d). exact Hin.
  - cbn [fst l_subs]. apply filter_In. split; [exact Hin|]. cbn [snd]. destruct (a =? b) eqn:E; [|reflexivity].
    exfalso. apply H2. f_equal. lia.
  - destruct (smem b (l_cons st)); [|exact Hin]. cbn [fst l_subs]. apply in_or_app. left. exact Hin.
  - destruct (smem b (l_cons st) && sub_has s0 (l_subs st)); [|exact Hin]. cbn [fst l_subs].
    apply filter_In. split; [exact Hin|]. cbn [fst]. destruct (s =? s0) eqn:E; [|reflexivity].
    exfalso. apply (H1 b). f_equal. lia.
  - destruct (smem b (l_prov st)); [|exact Hin]. destruct (db_step (l_db st) (DIns v)). exact Hin.
  - destruct (smem b (l_cons st)); exact Hin.
  - destruct (lookup (d_items (l_db st)) b); exact Hin.
  - destruct (lookup (l_gc st) g) as [w|]; [|exact Hin]. destruct (db_step (l_db st) (DRemVal w)). exact Hin.
Qed.

(* NOT RESURRECTED: a subscription appears only through a successful subscribe of a registered consumer *)
Lemma sub_not_resurrected st o s a : In (s, a) (l_subs (fst (ldm_step st o))) ->
  In (s, a) (l_subs st) \/ (o = LSAdd s a /\ smem a (l_cons st) = true).
Proof.
  destruct o as [d|b|b| |b|b| |s0 b|s0 b| |v b|b|g b|g]; cbn [ldm_step]; unfold with_db, with_prov, with_cons, with_subs, with_gc; auto.
  - destruct (db_step (l_db st) d). auto.
  - cbn [fst l_subs]. intros H. apply filter_In in H as [H _]. auto.
  - destruct (smem b (l_cons st)) eqn:E; [|auto]. cbn [fst l_subs]. intros H.
    apply in_app_or in H as [H|[H|[]]]; [auto|]. inversion H; subst. auto.
  - destruct (smem b (l_cons st) && sub_has s0 (l_subs st)); [|auto]. cbn [fst l_subs]. intros H.
    apply filter_In in H as [H _]. auto.
  - destruct (smem b (l_prov st)); [|auto]. destruct (db_step (l_db st) (DIns v)). auto.
  - destruct (smem b (l_cons st)); auto.
  - destruct (lookup (d_items (l_db st)) b); auto.
  - destruct (lookup (l_gc st) g) as [w|]; [|auto]. destruct (db_step (l_db st) (DRemVal w)). auto.
Qed.

(* at most one of two unsubscribes of the same subscription succeeds unless it is subscribed again in between *)
Lemma unsub_then_gone st s a : snd (ldm_step st (LSDel s a)) = LR (RBool true) ->
  sub_has s (l_subs (fst (ldm_step st (LSDel s a)))) = false.
Proof.
  cbn [ldm_step]; unfold with_db, with_prov, with_cons, with_subs, with_gc. destruct (smem a (l_cons st) && sub_has s (l_subs st)); cbn [snd fst l_subs]; [|discriminate].
  intros _. unfold sub_has. induction (l_subs st) as [|[k x] l IH]; cbn; [reflexivity|].
  destruct (k =? s) eqn:E; cbn; [exact IH|]. rewrite E. exact IH.
Qed.

(* the database part of the state is only touched by database operations *)
Lemma ldm_step_db st o : l_db (fst (ldm_step st o)) =
  match o with
  | LDb d => fst (db_step (l_db st) d)
  | LAdd v a => if smem a (l_prov st) then fst (db_step (l_db st) (DIns v)) else l_db st
  | LGcRem g => match lookup (l_gc st) g with Some w => fst (db_step (l_db st) (DRemVal w)) | None => l_db st end
  | _ => l_db st
  end.
Proof.
  destruct o as [d|b|b| |b|b| |s b|s b| |v b|b|g b|g]; cbn [ldm_step]; unfold with_db, with_prov, with_cons, with_subs, with_gc; try reflexivity.
  - destruct (db_step (l_db st) d); reflexivity.
  - destruct (smem b (l_cons st)); reflexivity.
  - destruct (smem b (l_cons st) && sub_has s (l_subs st)); reflexivity.
  - destruct (smem b (l_prov st)); [|reflexivity]. destruct (db_step (l_db st) (DIns v)); reflexivity.
  - destruct (smem b (l_cons st)); reflexivity.
  - destruct (lookup (d_items (l_db st)) b); reflexivity.
  - destruct (lookup (l_gc st) g) as [w|]; [|reflexivity]. destruct (db_step (l_db st) (DRemVal w)); reflexivity.
Qed.
