(* How on_received_vam (Cluster.rx) acts on the control part of the state, by state. *)
From FlexVerif Require Import Base.Prelude Gen.C18Consts Model.Cluster Proofs.ClusterInv.
From Coq Require Import ZifyBool.

(* everything except the three tables *)
Definition ctrl (s : state) :=
  (now s, vst s, cluster s, (joined s, leader s, last_leader s),
   (js s, j_target s, j_started s, jl_reason s, jl_started s),
   (ls s, l_reason s, l_cluster s, l_started s)).

Lemma ctrl_rx_tables : forall v s, ctrl (rx_tables v s) = ctrl s.
Proof. intros v s. destr_state s. reflexivity. Qed.

Lemma ctrl_rx_info_other : forall v s, vst s <> Standalone \/ js s <> JWaiting -> ctrl (rx_info v s) = ctrl s.
Proof.
  intros v s H. destr_state s. unfold rx_info. destruct (info v) as [[oc card]|]; [|reflexivity].
  cbn in *. match goal with |- context [if ?b then _ else _] => destruct b end; cbn;
    destruct st; try reflexivity; destruct j; try reflexivity; destruct H; congruence.
Qed.

Lemma ctrl_rx_info_none : forall v s, info v = None -> rx_info v s = s.
Proof. intros v s H. unfold rx_info. now rewrite H. Qed.

Lemma ctrl_rx_info_waiting : forall v s t oc card,
  vst s = Standalone -> js s = JWaiting -> j_target s = Some t -> info v = Some (oc, card) ->
  ctrl (rx_info v s) = if or0 oc =? t then ctrl (complete_join (sender v) s) else ctrl s.
Proof.
  intros v s t oc card V J T I. destr_state s. unfold rx_info. rewrite I. cbn in *. subst.
  match goal with |- context [if ?b then _ else _] => destruct b end; cbn; destruct (or0 oc =? t); reflexivity.
Qed.

Lemma rx_members_other : forall v s, vst s <> Leader -> rx_members v s = s.
Proof. intros v s H. destr_state s. unfold rx_members. cbn in *. destruct st; try reflexivity. congruence. Qed.

Lemma rx_members_leader : forall v s c, vst s = Leader -> cluster s = Some c ->
  exists c', rx_members v s = set_cluster (Some c') s /\ c_id c' = c_id c /\
             c_bk_started c' = c_bk_started c /\ c_bk_reason c' = c_bk_reason c.
Proof.
  intros v s c V C. destr_state s. unfold rx_members. cbn in *. subst. eexists. split; [reflexivity|].
  destruct (opt_eqb (op_join v) (c_id c)); cbn;
    match goal with |- context [opt_eqb (op_leave v) ?x] => destruct (opt_eqb (op_leave v) x) end; cbn; auto.
Qed.

Lemma rx_breakup_other : forall v s, vst s <> Passive -> rx_breakup v s = s.
Proof.
  intros v s H. destr_state s. unfold rx_breakup. cbn in *. destruct (op_breakup v); [|reflexivity].
  destruct st; try reflexivity. congruence.
Qed.

Lemma rx_breakup_none : forall v s, op_breakup v = None -> rx_breakup v s = s.
Proof. intros v s H. unfold rx_breakup. now rewrite H. Qed.

Lemma rx_breakup_passive : forall v s r, vst s = Passive -> op_breakup v = Some r ->
  rx_breakup v s =
    if opt_eqb (leader s) (sender v) || opt_eqb (joined s) 0
    then (if r =? br_cpm then s else do_leave lr_disbanded s) else s.
Proof. intros v s r V B. unfold rx_breakup. now rewrite B, V. Qed.

Lemma rx_heartbeat_other : forall v s, vst s <> Passive -> rx_heartbeat v s = s.
Proof.
  intros v s H. destr_state s. unfold rx_heartbeat. cbn in *. destruct st; try reflexivity. congruence.
Qed.

Lemma rx_heartbeat_passive : forall v s, vst s = Passive ->
  rx_heartbeat v s = if opt_eqb (leader s) (sender v) then set_last_leader (Some (now s)) s else s.
Proof. intros v s V. unfold rx_heartbeat. now rewrite V. Qed.

(* a stand-alone station that is not waiting for the leader's acknowledgement only updates its tables *)
Lemma ctrl_rx_standalone : forall v s, vst s = Standalone -> js s <> JWaiting -> ctrl (rx v s) = ctrl s.
Proof.
  intros v s V J. unfold rx.
  assert (E : ctrl (rx_info v (rx_tables v s)) = ctrl s).
  { rewrite ctrl_rx_info_other; [apply ctrl_rx_tables|].
    right. pose proof (ctrl_rx_tables v s) as X. unfold ctrl in X. congruence. }
  assert (V2 : vst (rx_info v (rx_tables v s)) = Standalone) by (unfold ctrl in E; congruence).
  rewrite rx_members_other by congruence.
  rewrite rx_breakup_other by congruence.
  rewrite rx_heartbeat_other by congruence. exact E.
Qed.

Lemma ctrl_rx_idle : forall v s, vst s = Idle -> ctrl (rx v s) = ctrl s.
Proof.
  intros v s V. unfold rx.
  assert (E : ctrl (rx_info v (rx_tables v s)) = ctrl s).
  { rewrite ctrl_rx_info_other; [apply ctrl_rx_tables|].
    left. pose proof (ctrl_rx_tables v s) as X. unfold ctrl in X. congruence. }
  assert (V2 : vst (rx_info v (rx_tables v s)) = Idle) by (unfold ctrl in E; congruence).
  rewrite rx_members_other by congruence.
  rewrite rx_breakup_other by congruence.
  rewrite rx_heartbeat_other by congruence. exact E.
Qed.

(* a leader only updates its tables and the member bookkeeping of its cluster *)
Lemma rx_leader : forall v s c, vst s = Leader -> cluster s = Some c ->
  vst (rx v s) = Leader /\ now (rx v s) = now s /\
  exists c', cluster (rx v s) = Some c' /\ c_id c' = c_id c /\
             c_bk_started c' = c_bk_started c /\ c_bk_reason c' = c_bk_reason c.
Proof.
  intros v s c V C. unfold rx.
  assert (E : ctrl (rx_info v (rx_tables v s)) = ctrl s).
  { rewrite ctrl_rx_info_other; [apply ctrl_rx_tables|].
    left. pose proof (ctrl_rx_tables v s) as X. unfold ctrl in X. congruence. }
  remember (rx_info v (rx_tables v s)) as s2. clear Heqs2.
  assert (V2 : vst s2 = Leader) by (unfold ctrl in E; congruence).
  assert (C2 : cluster s2 = Some c) by (unfold ctrl in E; congruence).
  assert (N2 : now s2 = now s) by (unfold ctrl in E; congruence).
  destruct (rx_members_leader v s2 c V2 C2) as (c' & M & I & S & Rn). rewrite M.
  assert (V3 : vst (set_cluster (Some c') s2) = Leader) by (destr_state s2; exact V2).
  rewrite rx_breakup_other by congruence.
  rewrite rx_heartbeat_other by congruence.
  destr_state s2. cbn in *. subst. repeat split. exists c'. auto.
Qed.

(* a passive station: tables, then break-up handling, then the leader heartbeat *)
Lemma rx_passive : forall v s, vst s = Passive ->
  exists s1, ctrl s1 = ctrl s /\ rx v s = rx_heartbeat v (rx_breakup v s1).
Proof.
  intros v s V. unfold rx. exists (rx_info v (rx_tables v s)).
  assert (E : ctrl (rx_info v (rx_tables v s)) = ctrl s).
  { rewrite ctrl_rx_info_other; [apply ctrl_rx_tables|].
    left. pose proof (ctrl_rx_tables v s) as X. unfold ctrl in X. congruence. }
  split; [exact E|].
  rewrite rx_members_other; [reflexivity|]. unfold ctrl in E. congruence.
Qed.
