(* C15: atomicity of the router's critical sections (instances of Base/Atomic.v for the regenerated lock summary). *)
From FlexVerif Require Import Base.Prelude Base.Interleave Base.Atomic Model.Wire Model.LocT Model.Conc Gen.LockSummary Proofs.ConcProofs.

(* locks all of whose sections are CLOSED (they only touch fields written under that lock): sequence_number_lock,
   ego_position_vector_lock, loc_t_lock and the per-entry locks.  The sections of _cbf_lock and _ls_lock also read the
   location table under the nested loc_t_lock, so only the isolation theorem applies to them. *)
Definition router_closed_locks : list Z := [0; 3; 4; 5; 6; 7; 8].

Lemma router_closed_sections :
  forallb (fun l => forallb (all_sections_closed router_policy l) summary) router_closed_locks = true.
Proof. vm_compute. reflexivity. Qed.

Theorem router_sections_atomic (wv : Z -> list Z -> Z) progs m0 s1 s2 i t1 t2 l m pre r tail ls1 ls2 :
  from_summary progs -> In l router_closed_locks -> In m summary -> m = pre ++ Acq l :: r ->
  msteps wv (minit progs m0) s1 -> msteps wv s1 s2 ->
  nth_error (m_cfg s1) i = Some t1 -> t_prog t1 = r ++ tail -> nth_error (m_loc s1) i = Some ls1 ->
  exists body rest, r = body ++ Rel l :: rest /\ closed router_policy l [] body = true /\
    (nth_error (m_cfg s2) i = Some t2 -> t_prog t2 = Rel l :: rest ++ tail -> nth_error (m_loc s2) i = Some ls2 ->
     agree router_policy l (m_mem s2) (fst (run_seq wv body (m_mem s1) ls1)) /\ ls2 = snd (run_seq wv body (m_mem s1) ls1)).
Proof.
  intros F Hl Hm Em. destruct (from_summary_checks progs F) as [W _].
  pose proof router_closed_sections as C. rewrite forallb_forall in C. specialize (C l Hl).
  rewrite forallb_forall in C. specialize (C m Hm).
  apply (atomic_section_checked wv router_policy progs m0 s1 s2 i t1 t2 l m pre r tail ls1 ls2 W C Em).
Qed.

Theorem router_section_isolation (wv : Z -> list Z -> Z) progs s i ti j tj a r ls l :
  from_summary progs -> reachable (initial progs) (m_cfg s) ->
  nth_error (m_cfg s) i = Some ti -> holds ti l = true ->
  nth_error (m_cfg s) j = Some tj -> j <> i -> t_prog tj = a :: r ->
  agree router_policy l (m_mem s) (fst (act_mem wv a (m_mem s) ls)).
Proof.
  intros F. destruct (from_summary_checks progs F) as [W _].
  apply (section_isolation wv router_policy progs s i ti j tj a r ls l W).
Qed.
