From FlexVerif Require Import Base.Prelude Model.LocT.
From Coq Require Import ZifyBool.
Ltac Zify.zify_post_hook ::= Z.to_euclidean_division_equations.

Ltac pw := change (2 ^ 32) with 4294967296 in *; change (2 ^ 31) with 2147483648 in *.

Lemma mod_add_cases t d M : 0 < M -> 0 <= d < M ->
  ((t + d) mod M = t mod M + d /\ t mod M + d < M) \/ ((t + d) mod M = t mod M + d - M /\ M <= t mod M + d).
Proof.
  intros HM Hd. rewrite <- (Z.add_mod_idemp_l t d M) by lia.
  pose proof (Z.mod_pos_bound t M HM) as B. set (r := t mod M) in *.
  destruct (Z_lt_le_dec (r + d) M) as [L|L].
  - left. split; [apply Z.mod_small; lia | exact L].
  - right. split; [|exact L]. rewrite <- (Z.mod_add (r + d) (-1) M) by lia.
    replace (r + d + -1 * M) with (r + d - M) by lia. apply Z.mod_small. lia.
Qed.

(* ---------- the timestamp order ------------------------------------------------ *)
Lemma tst_gt_irrefl a : tst_gt a a = false.
Proof. unfold tst_gt. pw. lia. Qed.

Lemma tst_gt_asym a b : tst_gt a b = true -> tst_gt b a = false.
Proof. unfold tst_gt. pw. lia. Qed.

Lemma tst_gt_total a b : 0 <= a < 2 ^ 32 -> 0 <= b < 2 ^ 32 -> a <> b -> tst_gt a b = true \/ tst_gt b a = true.
Proof. unfold tst_gt. pw. lia. Qed.

(* agreement with real time: t, t + d are real (unbounded) millisecond counts *)
Lemma tst_gt_real t d : 0 < d < 2 ^ 31 -> tst_gt ((t + d) mod 2 ^ 32) (t mod 2 ^ 32) = true.
Proof. unfold tst_gt. intros. pw. pose proof (Z.mod_pos_bound t 4294967296 ltac:(lia)).
  destruct (mod_add_cases t d 4294967296 ltac:(lia) ltac:(lia)) as [[-> ?]|[-> ?]];
  set (b := t mod 4294967296) in *; clearbody b; lia. Qed.

Lemma tst_gt_old t d : 0 <= d < 2 ^ 31 -> tst_gt (t mod 2 ^ 32) ((t + d) mod 2 ^ 32) = false.
Proof. unfold tst_gt. intros. pw. pose proof (Z.mod_pos_bound t 4294967296 ltac:(lia)).
  destruct (mod_add_cases t d 4294967296 ltac:(lia) ltac:(lia)) as [[-> ?]|[-> ?]];
  set (b := t mod 4294967296) in *; clearbody b; lia. Qed.

Lemma tst_sub_real t d : 0 <= d < 2 ^ 32 -> tst_sub ((t + d) mod 2 ^ 32) (t mod 2 ^ 32) = d.
Proof. unfold tst_sub. intros. pw. pose proof (Z.mod_pos_bound t 4294967296 ltac:(lia)).
  destruct (mod_add_cases t d 4294967296 ltac:(lia) ltac:(lia)) as [[-> ?]|[-> ?]];
  set (b := t mod 4294967296) in *; clearbody b;
  match goal with |- (if ?c then _ else _) = _ => destruct c eqn:? end; lia. Qed.

(* ---------- update of the stored position vector -------------------------------- *)
Lemma update_first e pv : e_set e = false -> e_pv (update_pv e pv) = pv /\ e_set (update_pv e pv) = true.
Proof. unfold update_pv. intros ->. cbn. auto. Qed.

Lemma update_keeps e pv : e_set e = true -> tst_gt (pv_tst pv) (pv_tst (e_pv e)) = false -> update_pv e pv = e.
Proof. unfold update_pv. intros -> ->. reflexivity. Qed.

Lemma update_takes e pv : e_set e = true -> tst_gt (pv_tst pv) (pv_tst (e_pv e)) = true ->
  e_pv (update_pv e pv) = pv.
Proof. unfold update_pv. intros -> ->. reflexivity. Qed.

Lemma update_frame e pv : e_addr (update_pv e pv) = e_addr e /\ e_nb (update_pv e pv) = e_nb e /\
  e_ls (update_pv e pv) = e_ls e /\ e_dpl (update_pv e pv) = e_dpl e.
Proof. unfold update_pv. destruct (negb (e_set e)); [cbn; auto|]. destruct (tst_gt _ _); cbn; auto. Qed.

(* An older or equal timestamp never replaces a newer one. *)
Lemma update_never_older e pv t d : e_set e = true -> 0 <= d < 2 ^ 31 ->
  pv_tst pv = t mod 2 ^ 32 -> pv_tst (e_pv e) = (t + d) mod 2 ^ 32 -> update_pv e pv = e.
Proof. intros Hs Hd E1 E2. apply update_keeps; [exact Hs|]. rewrite E1, E2. apply tst_gt_old. exact Hd. Qed.

(* Histories: a list of received position vectors with their real (unbounded) times.  If all
   times lie in one window shorter than 2^31 ms, the stored vector is one with the greatest time. *)
Definition stamped (T : Z) (pv : list Z) : Prop := pv_tst pv = T mod 2 ^ 32.

Fixpoint upd_all (e : entry) (l : list (Z * list Z)) : entry :=
  match l with [] => e | (_, pv) :: r => upd_all (update_pv e pv) r end.

Lemma upd_all_max l : forall e T0 lo,
  e_set e = true -> stamped T0 (e_pv e) -> lo <= T0 < lo + 2 ^ 31 ->
  Forall (fun p => stamped (fst p) (snd p) /\ lo <= fst p < lo + 2 ^ 31) l ->
  exists T, stamped T (e_pv (upd_all e l)) /\ lo <= T < lo + 2 ^ 31 /\ T0 <= T /\
            Forall (fun p => fst p <= T) l /\ (T = T0 \/ In T (map fst l)) /\ e_set (upd_all e l) = true.
Proof.
  induction l as [|[T pv] l IH]; intros e T0 lo Hs H0 Hw HF.
  - exists T0. cbn. repeat split; auto; lia.
  - inversion HF as [|? ? [Hst Hin] HF']; subst. cbn [fst snd] in *. cbn [upd_all].
    destruct (Z_lt_le_dec T0 T) as [Hlt|Hle].
    + (* newer: replaces *)
      assert (G : tst_gt (pv_tst pv) (pv_tst (e_pv e)) = true).
      { rewrite Hst, H0. replace T with (T0 + (T - T0)) by lia. apply tst_gt_real. lia. }
      assert (Es : e_set (update_pv e pv) = true) by (unfold update_pv; rewrite Hs, G; reflexivity).
      assert (Ep : e_pv (update_pv e pv) = pv) by (apply update_takes; assumption).
      destruct (IH (update_pv e pv) T lo Es ltac:(rewrite Ep; exact Hst) Hin HF') as (T' & A & B & C & D & E & F).
      exists T'. split; [exact A|]. split; [exact B|]. split; [lia|].
      split; [constructor; [cbn; lia | exact D]|]. split; [|exact F].
      right. cbn [map In fst]. destruct E as [->|E]; auto.
    + (* older or equal: kept *)
      assert (G : update_pv e pv = e).
      { apply (update_never_older e pv T (T0 - T)); auto; try lia. rewrite H0. f_equal. lia. }
      rewrite G.
      destruct (IH e T0 lo Hs H0 Hw HF') as (T' & A & B & C & D & E & F).
      exists T'. split; [exact A|]. split; [exact B|]. split; [exact C|].
      split; [constructor; [cbn; lia | exact D]|]. split; [|exact F].
      destruct E as [->|E]; [left; reflexivity | right; cbn; auto].
Qed.

Theorem pv_is_newest e l T1 pv1 lo :
  e_set e = false ->
  Forall (fun p => stamped (fst p) (snd p) /\ lo <= fst p < lo + 2 ^ 31) ((T1, pv1) :: l) ->
  exists T, stamped T (e_pv (upd_all e ((T1, pv1) :: l))) /\ In T (map fst ((T1, pv1) :: l)) /\
            Forall (fun p => fst p <= T) ((T1, pv1) :: l).
Proof.
  intros Hs HF. inversion HF as [|? ? [Hst Hin] HF']; subst. cbn [fst snd] in *. cbn [upd_all].
  destruct (update_first e pv1 Hs) as [Ep Es].
  destruct (upd_all_max l (update_pv e pv1) T1 lo Es ltac:(rewrite Ep; exact Hst) Hin HF')
    as (T & A & B & C & D & E & F).
  exists T. split; [exact A|]. split.
  - cbn [map In fst]. destruct E as [->|E]; auto.
  - constructor; [cbn; lia | exact D].
Qed.

(* ---------- duplicate packet list ---------------------------------------------------- *)
Lemma check_dup_rejects dpl sn len : In sn dpl -> check_dup dpl sn len = None.
Proof.
  intros H. unfold check_dup.
  assert (E : existsb (Z.eqb sn) dpl = true) by (apply existsb_exists; exists sn; split; [exact H | lia]).
  rewrite E. reflexivity.
Qed.

Lemma check_dup_accepts dpl sn len : ~ In sn dpl -> exists d, check_dup dpl sn len = Some d /\ In sn d.
Proof.
  intros H. unfold check_dup.
  destruct (existsb (Z.eqb sn) dpl) eqn:E.
  - apply existsb_exists in E as (x & Hx & Ex). assert (x = sn) by lia. subst. contradiction.
  - eexists. split; [reflexivity|]. apply in_or_app. right. left. reflexivity.
Qed.

Lemma check_dup_length dpl sn len d : 0 < len -> Z.of_nat (length dpl) <= len -> check_dup dpl sn len = Some d ->
  Z.of_nat (length d) <= len /\ (Z.of_nat (length dpl) < len -> d = dpl ++ [sn]) /\
  (Z.of_nat (length dpl) = len -> d = tl dpl ++ [sn]).
Proof.
  intros Hl Hb. unfold check_dup. destruct (existsb _ _); [discriminate|].
  intros E. injection E as <-. destruct (Z.eqb_spec (Z.of_nat (length dpl)) len) as [Heq|Hne].
  - repeat split; try lia. rewrite app_length. destruct dpl; cbn in *; lia.
  - repeat split; try lia. rewrite app_length. cbn. lia.
Qed.

(* A sequence number stays in the list while fewer than len further numbers are accepted:
   after accepting k further distinct numbers, k < len, sn is still rejected. *)
Fixpoint accept_all (dpl : list Z) (sns : list Z) (len : Z) : option (list Z) :=
  match sns with
  | [] => Some dpl
  | x :: r => match check_dup dpl x len with Some d => accept_all d r len | None => None end
  end.

Lemma tl_app_keeps (l : list Z) x y : In x (tl l ++ [y]) \/ (exists r, l = x :: r) \/ ~ In x (l ++ [y]).
Proof.
  destruct l as [|a l]; cbn.
  - destruct (Z.eq_dec y x); [left; auto | right; right; intros [?|[]]; congruence].
  - destruct (Z.eq_dec a x) as [->|Hn]; [right; left; eauto|].
    destruct (in_dec Z.eq_dec x (l ++ [y])); [left; auto | right; right; intros [?|?]; congruence].
Qed.

(* position-based formulation: sn sits at distance i from the tail; it survives until len
   further acceptances *)
Lemma window_keeps : forall sns dpl pre post sn len d,
  0 < len -> dpl = pre ++ sn :: post -> Z.of_nat (length dpl) <= len ->
  Z.of_nat (length post) + Z.of_nat (length sns) < len ->
  accept_all dpl sns len = Some d -> In sn d.
Proof.
  induction sns as [|x sns IH]; intros dpl pre post sn len d Hl -> Hb Hk Hacc.
  - cbn in Hacc. injection Hacc as <-. apply in_or_app. right. left. reflexivity.
  - cbn [accept_all] in Hacc. destruct (check_dup (pre ++ sn :: post) x len) as [d1|] eqn:E; [|discriminate].
    destruct (check_dup_length _ _ _ _ Hl Hb E) as (Hb1 & Hshort & Hfull).
    rewrite app_length in *. cbn [length] in *.
    destruct (Z_lt_le_dec (Z.of_nat (length pre + S (length post))) len) as [Hlt|Hge].
    + specialize (Hshort Hlt). subst d1.
      apply (IH ((pre ++ sn :: post) ++ [x]) pre (post ++ [x]) sn len d Hl).
      * rewrite <- app_assoc. reflexivity.
      * exact Hb1.
      * rewrite app_length. cbn [length] in *. lia.
      * exact Hacc.
    + assert (Hfull' : Z.of_nat (length pre + S (length post)) = len) by lia.
      specialize (Hfull Hfull'). subst d1.
      destruct pre as [|p pre].
      * cbn [app length] in *. lia.
      * cbn [app tl] in *.
        apply (IH ((pre ++ sn :: post) ++ [x]) pre (post ++ [x]) sn len d Hl).
        -- rewrite <- app_assoc. reflexivity.
        -- rewrite !app_length in *. cbn [length] in *. lia.
        -- rewrite app_length. cbn [length] in *. lia.
        -- exact Hacc.
Qed.

Theorem dup_rejected_within_window dpl0 sn sns len d0 d :
  0 < len -> Z.of_nat (length dpl0) <= len ->
  check_dup dpl0 sn len = Some d0 ->                 (* sn accepted (delivered) *)
  accept_all d0 sns len = Some d ->                  (* then fewer than len other numbers accepted *)
  Z.of_nat (length sns) < len ->
  check_dup d sn len = None.                         (* a duplicate of sn is still rejected *)
Proof.
  intros Hl Hb E Hacc Hk. apply check_dup_rejects.
  destruct (check_dup_length _ _ _ _ Hl Hb E) as (Hb0 & Hshort & Hfull).
  assert (exists pre, d0 = pre ++ sn :: []) as [pre Hpre].
  { destruct (Z_lt_le_dec (Z.of_nat (length dpl0)) len) as [H|H].
    - exists dpl0. auto. - exists (tl dpl0). apply Hfull. lia. }
  apply (window_keeps sns d0 pre [] sn len d Hl Hpre Hb0); [cbn; lia | exact Hacc].
Qed.

(* ---------- expiry ------------------------------------------------------------------------ *)
(* N = receiver clock, T = position timestamp, both real millisecond counts whose distance is
   below 2^31; an entry is kept exactly while its age N - T does not exceed the lifetime; a
   timestamp ahead of the clock (sender runs fast) has age 0. *)
Theorem keep_real e N T life : e_set e = true -> 0 <= life < 2 ^ 31 -> - 2 ^ 31 < N - T < 2 ^ 31 ->
  pv_tst (e_pv e) = T mod 2 ^ 32 -> keep (N mod 2 ^ 32) life e = (N - T <=? life).
Proof.
  intros Hs Hl Hd E. unfold keep. rewrite Hs, E.
  destruct (Z_lt_le_dec N T) as [Hlt|Hge].
  - replace T with (N + (T - N)) by lia. rewrite tst_gt_real by lia. cbn. lia.
  - replace N with (T + (N - T)) at 1 2 by lia. rewrite tst_gt_old by lia.
    rewrite tst_sub_real by lia. cbn. replace (T + (N - T) - T) with (N - T) by lia. reflexivity.
Qed.

Lemma refresh_subset t now life e : In e (refresh t now life) -> In e t /\ keep now life e = true.
Proof. unfold refresh. apply filter_In. Qed.

Lemma refresh_keeps t now life e : In e t -> keep now life e = true -> In e (refresh t now life).
Proof. unfold refresh. intros. apply filter_In. auto. Qed.

(* ---------- the table as a map with unique keys ------------------------------------------ *)
Lemma list_eqb_eq a b : list_eqb a b = true <-> a = b.
Proof.
  revert b. induction a as [|x a IH]; intros [|y b]; cbn; split; intros H; try discriminate; auto.
  - apply andb_true_iff in H as [E H]. apply IH in H. f_equal; [lia | exact H].
  - injection H as -> ->. rewrite Z.eqb_refl. cbn. apply IH. reflexivity.
Qed.

Lemma list_eqb_refl a : list_eqb a a = true.
Proof. apply list_eqb_eq. reflexivity. Qed.

Lemma list_eqb_neq a b : a <> b -> list_eqb a b = false.
Proof. intros H. destruct (list_eqb a b) eqn:E; [apply list_eqb_eq in E; contradiction | reflexivity]. Qed.

Fixpoint uniq (t : list entry) : Prop :=
  match t with [] => True | e :: r => find r (e_addr e) = None /\ uniq r end.

Lemma find_some t a e : find t a = Some e -> In e t /\ e_addr e = a.
Proof.
  induction t as [|x t IH]; cbn; [discriminate|].
  destruct (list_eqb (e_addr x) a) eqn:E.
  - intros H. injection H as ->. split; [left; reflexivity | apply list_eqb_eq; exact E].
  - intros H. destruct (IH H). split; [right|]; assumption.
Qed.

Lemma find_app_none t u a : find t a = None -> find (t ++ u) a = find u a.
Proof. induction t as [|x t IH]; cbn; [reflexivity|]. destruct (list_eqb (e_addr x) a); [discriminate|exact IH]. Qed.

Lemma find_app_some t u a e : find t a = Some e -> find (t ++ u) a = Some e.
Proof. induction t as [|x t IH]; cbn; [discriminate|]. destruct (list_eqb (e_addr x) a); auto. Qed.

Lemma find_replace_same t e' : find t (e_addr e') <> None -> find (replace t e') (e_addr e') = Some e'.
Proof.
  induction t as [|x t IH]; cbn; [congruence|].
  destruct (list_eqb (e_addr x) (e_addr e')) eqn:E; cbn.
  - rewrite list_eqb_refl. reflexivity.
  - rewrite E. exact IH.
Qed.

Lemma find_replace_other t e' a : a <> e_addr e' -> find (replace t e') a = find t a.
Proof.
  intros Hn. induction t as [|x t IH]; cbn; [reflexivity|].
  destruct (list_eqb (e_addr x) (e_addr e')) eqn:E; cbn.
  - apply list_eqb_eq in E. rewrite E. rewrite (list_eqb_neq (e_addr e') a) by congruence. reflexivity.
  - destruct (list_eqb (e_addr x) a); [reflexivity | exact IH].
Qed.

Lemma find_upsert_same t e' : find (upsert t e') (e_addr e') = Some e'.
Proof.
  unfold upsert. destruct (find t (e_addr e')) eqn:F.
  - apply find_replace_same. congruence.
  - rewrite find_app_none by exact F. cbn. rewrite list_eqb_refl. reflexivity.
Qed.

Lemma find_upsert_other t e' a : a <> e_addr e' -> find (upsert t e') a = find t a.
Proof.
  intros Hn. unfold upsert. destruct (find t (e_addr e')) eqn:F.
  - apply find_replace_other. exact Hn.
  - destruct (find t a) eqn:G.
    + apply find_app_some. exact G.
    + rewrite find_app_none by exact G. cbn. rewrite (list_eqb_neq (e_addr e') a) by congruence. reflexivity.
Qed.

Lemma uniq_replace t e' : uniq t -> uniq (replace t e').
Proof.
  induction t as [|x t IH]; cbn; [auto|]. intros [Hf Hu].
  destruct (list_eqb (e_addr x) (e_addr e')) eqn:E; cbn.
  - apply list_eqb_eq in E. rewrite <- E. auto.
  - split; [|auto]. rewrite find_replace_other; [exact Hf|]. intros C. rewrite C, list_eqb_refl in E. discriminate.
Qed.

Lemma uniq_app_one t e : uniq t -> find t (e_addr e) = None -> uniq (t ++ [e]).
Proof.
  induction t as [|x t IH]; cbn; [auto|]. intros [Hf Hu].
  destruct (list_eqb (e_addr x) (e_addr e)) eqn:E; [discriminate|]. intros Hn. split; [|auto].
  rewrite find_app_none by exact Hf. cbn.
  destruct (list_eqb (e_addr e) (e_addr x)) eqn:E2; [|reflexivity].
  apply list_eqb_eq in E2. rewrite E2, list_eqb_refl in E. discriminate.
Qed.

Lemma uniq_upsert t e' : uniq t -> uniq (upsert t e').
Proof.
  intros Hu. unfold upsert. destruct (find t (e_addr e')) eqn:F; [apply uniq_replace | apply uniq_app_one]; auto.
Qed.

Lemma find_filter_none (f : entry -> bool) t a : find t a = None -> find (filter f t) a = None.
Proof.
  induction t as [|x t IH]; cbn; [reflexivity|]. destruct (list_eqb (e_addr x) a) eqn:E; [discriminate|].
  intros H. destruct (f x); cbn; [rewrite E|]; auto.
Qed.

Lemma find_refresh t now life a : uniq t ->
  find (refresh t now life) a =
  match find t a with Some e => if keep now life e then Some e else None | None => None end.
Proof.
  unfold refresh. induction t as [|x t IH]; cbn; [reflexivity|]. intros [Hf Hu].
  destruct (keep now life x) eqn:K; cbn; destruct (list_eqb (e_addr x) a) eqn:E.
  - rewrite K. reflexivity.
  - apply IH. exact Hu.
  - rewrite K. apply list_eqb_eq in E. subst a. apply find_filter_none. exact Hf.
  - apply IH. exact Hu.
Qed.

Lemma uniq_filter (f : entry -> bool) t : uniq t -> uniq (filter f t).
Proof.
  induction t as [|x t IH]; cbn; [auto|]. intros [Hf Hu]. destruct (f x); cbn; [split|]; auto.
  apply find_filter_none. exact Hf.
Qed.

(* ---------- reception at table level --------------------------------------------------------- *)
Lemma live_some t a now life e : live t a now life = Some e -> find t a = Some e /\ keep now life e = true.
Proof. unfold live. destruct (find t a) as [x|]; [|discriminate]. destruct (keep now life x) eqn:K; [|discriminate]. intros E. injection E as <-. auto. Qed.

Lemma live_find t a now life e : find t a = Some e -> live t a now life = if keep now life e then Some e else None.
Proof. unfold live. intros ->. reflexivity. Qed.

Lemma get_or_new_addr t a now life : e_addr (fst (get_or_new t a now life)) = a.
Proof.
  unfold get_or_new. destruct (live t a now life) eqn:F; cbn; [|reflexivity].
  apply live_some in F as [F _]. apply (find_some _ _ _ F).
Qed.

Lemma uniq_rx_shb t pv now life : uniq t -> uniq (rx_shb t pv now life).
Proof. intros H. unfold rx_shb. destruct (get_or_new t (pv_addr pv) now life). apply uniq_filter, uniq_upsert, H. Qed.

Lemma uniq_rx_mh t pv sn now life len t' : uniq t -> rx_mh t pv sn now life len = Some t' -> uniq t'.
Proof.
  intros H. unfold rx_mh. destruct (get_or_new t (pv_addr pv) now life). destruct (check_dup _ _ _); [|discriminate].
  intros E. injection E as <-. apply uniq_filter, uniq_upsert, H.
Qed.

(* a single-hop broadcast or beacon of S makes S a neighbour with a position vector *)
Theorem rx_shb_neighbour t pv now life e : uniq t ->
  find (rx_shb t pv now life) (pv_addr pv) = Some e -> e_nb e = true /\ e_set e = true.
Proof.
  intros Hu. unfold rx_shb. pose proof (get_or_new_addr t (pv_addr pv) now life) as A.
  destruct (get_or_new t (pv_addr pv) now life) as [e0 isnew]. cbn [fst] in A.
  set (e2 := mkEntry _ _ _ true _ _).
  assert (A2 : e_addr e2 = pv_addr pv) by (unfold e2; cbn; destruct (update_frame e0 pv) as [-> _]; exact A).
  rewrite find_refresh by (apply uniq_upsert, Hu). rewrite <- A2, find_upsert_same.
  destruct (keep now life e2); [|discriminate]. intros E. injection E as <-. unfold e2. cbn. split; [reflexivity|].
  unfold update_pv. destruct (negb (e_set e0)) eqn:N; [reflexivity|].
  destruct (tst_gt _ _); cbn; [reflexivity|]. destruct (e_set e0); [reflexivity | discriminate].
Qed.

Definition mh_entry (t : list entry) (pv d : list Z) (now life : Z) : entry :=
  let e := fst (get_or_new t (pv_addr pv) now life) in
  update_pv (mkEntry (e_addr e) (e_pv e) (e_set e) (e_nb e) (e_ls e) d) pv.

Lemma mh_entry_frame t pv d now life :
  e_addr (mh_entry t pv d now life) = pv_addr pv /\
  e_nb (mh_entry t pv d now life) = match live t (pv_addr pv) now life with Some e => e_nb e | None => false end /\
  e_dpl (mh_entry t pv d now life) = d /\ e_set (mh_entry t pv d now life) = true.
Proof.
  unfold mh_entry. cbv zeta.
  destruct (update_frame (mkEntry (e_addr (fst (get_or_new t (pv_addr pv) now life))) (e_pv (fst (get_or_new t (pv_addr pv) now life)))
             (e_set (fst (get_or_new t (pv_addr pv) now life))) (e_nb (fst (get_or_new t (pv_addr pv) now life)))
             (e_ls (fst (get_or_new t (pv_addr pv) now life))) d) pv) as (-> & -> & _ & ->).
  cbn [e_addr e_nb e_dpl]. rewrite get_or_new_addr. repeat split.
  - unfold get_or_new. destruct (live t (pv_addr pv) now life); reflexivity.
  - unfold update_pv. cbn [e_set e_pv e_addr e_nb e_ls e_dpl]. destruct (negb (e_set _)) eqn:N; [reflexivity|].
    destruct (tst_gt _ _); cbn; [reflexivity|]. destruct (e_set _); [reflexivity|discriminate].
Qed.

Lemma rx_mh_spec t pv sn now life len t' : uniq t -> rx_mh t pv sn now life len = Some t' ->
  exists d, check_dup (e_dpl (fst (get_or_new t (pv_addr pv) now life))) sn len = Some d /\
    find t' (pv_addr pv) = (if keep now life (mh_entry t pv d now life) then Some (mh_entry t pv d now life) else None).
Proof.
  intros Hu. unfold rx_mh, mh_entry. cbv zeta. pose proof (get_or_new_addr t (pv_addr pv) now life) as A.
  destruct (get_or_new t (pv_addr pv) now life) as [e0 isnew]. cbn [fst] in *.
  destruct (check_dup (e_dpl e0) sn len) as [d|]; [|discriminate]. intros E. injection E as <-.
  exists d. split; [reflexivity|].
  set (e1 := update_pv _ pv).
  assert (A1 : e_addr e1 = pv_addr pv).
  { unfold e1. destruct (update_frame (mkEntry (e_addr e0) (e_pv e0) (e_set e0) (e_nb e0) (e_ls e0) d) pv) as [-> _]. exact A. }
  rewrite find_refresh by (apply uniq_upsert, Hu). rewrite <- A1, find_upsert_same. reflexivity.
Qed.

(* a multi-hop packet of S leaves S's neighbour flag as it was, FALSE if S was unknown - or known only through an
   entry whose lifetime had run out *)
Theorem rx_mh_neighbour t pv sn now life len t' e' : uniq t ->
  rx_mh t pv sn now life len = Some t' -> find t' (pv_addr pv) = Some e' ->
  e_nb e' = match live t (pv_addr pv) now life with Some e => e_nb e | None => false end.
Proof.
  intros Hu R F. destruct (rx_mh_spec _ _ _ _ _ _ _ Hu R) as (d & _ & S). rewrite S in F.
  destruct (keep now life _); [|discriminate]. injection F as <-.
  apply (mh_entry_frame t pv d now life).
Qed.

(* an entry whose lifetime has run out is not re-used: the station starts again as unknown - not a neighbour, and
   with an empty duplicate packet list (holding this packet's sequence number only) *)
Theorem rx_mh_expired_entry_not_reused t pv sn now life len t' e e' : uniq t ->
  find t (pv_addr pv) = Some e -> keep now life e = false ->
  rx_mh t pv sn now life len = Some t' -> find t' (pv_addr pv) = Some e' ->
  e_nb e' = false /\ e_dpl e' = [sn].
Proof.
  intros Hu Fe K R F. split.
  - rewrite (rx_mh_neighbour _ _ _ _ _ _ _ _ Hu R F), (live_find _ _ now life _ Fe), K. reflexivity.
  - destruct (rx_mh_spec _ _ _ _ _ _ _ Hu R) as (d & D & S). rewrite S in F.
    destruct (keep now life (mh_entry t pv d now life)); [|discriminate]. injection F as <-.
    destruct (mh_entry_frame t pv d now life) as (_ & _ & -> & _).
    unfold get_or_new in D. rewrite (live_find _ _ now life _ Fe), K in D.
    cbn [fst new_entry e_dpl] in D. unfold check_dup in D. cbn [existsb length] in D.
    destruct (Z.of_nat 0 =? len); cbn [tl app] in D; congruence.
Qed.

(* entries of other stations are untouched by a reception (they can only expire) *)
Theorem rx_shb_frame t pv now life a e : uniq t -> a <> pv_addr pv ->
  find (rx_shb t pv now life) a = Some e -> find t a = Some e.
Proof.
  intros Hu Hn. unfold rx_shb. pose proof (get_or_new_addr t (pv_addr pv) now life) as A.
  destruct (get_or_new t (pv_addr pv) now life) as [e0 isnew]. cbn [fst] in A.
  rewrite find_refresh by (apply uniq_upsert, Hu).
  rewrite find_upsert_other by (cbn; destruct (update_frame e0 pv) as [-> _]; congruence).
  destruct (find t a) as [x|]; [|discriminate]. destruct (keep now life x); [auto|discriminate].
Qed.

Theorem rx_mh_frame t pv sn now life len t' a e : uniq t -> a <> pv_addr pv ->
  rx_mh t pv sn now life len = Some t' -> find t' a = Some e -> find t a = Some e.
Proof.
  intros Hu Hn. unfold rx_mh. pose proof (get_or_new_addr t (pv_addr pv) now life) as A.
  destruct (get_or_new t (pv_addr pv) now life) as [e0 isnew]. cbn [fst] in A.
  destruct (check_dup _ sn len) as [d|]; [|discriminate]. intros E. injection E as <-.
  rewrite find_refresh by (apply uniq_upsert, Hu).
  rewrite find_upsert_other.
  - destruct (find t a) as [x|]; [|discriminate]. destruct (keep now life x); [auto|discriminate].
  - destruct (update_frame (mkEntry (e_addr e0) (e_pv e0) (e_set e0) (e_nb e0) (e_ls e0) d) pv) as [-> _]. cbn. congruence.
Qed.

(* the entry of the packet's source is present after processing unless it has already expired *)
Theorem rx_shb_present t pv now life : uniq t ->
  exists e, e_addr e = pv_addr pv /\ e_set e = true /\
    find (rx_shb t pv now life) (pv_addr pv) = if keep now life e then Some e else None.
Proof.
  intros Hu. unfold rx_shb. pose proof (get_or_new_addr t (pv_addr pv) now life) as A.
  destruct (get_or_new t (pv_addr pv) now life) as [e0 isnew]. cbn [fst] in A.
  set (e2 := mkEntry _ _ _ true _ _).
  assert (A2 : e_addr e2 = pv_addr pv) by (unfold e2; cbn; destruct (update_frame e0 pv) as [-> _]; exact A).
  exists e2. split; [exact A2|]. split.
  - unfold e2. cbn. unfold update_pv. destruct (negb (e_set e0)) eqn:N; [reflexivity|].
    destruct (tst_gt _ _); cbn; [reflexivity|]. destruct (e_set e0); [reflexivity | discriminate].
  - rewrite find_refresh by (apply uniq_upsert, Hu). rewrite <- A2, find_upsert_same. reflexivity.
Qed.

(* ---------- histories at table level ---------------------------------------------------------- *)
Inductive lop := LShb (pv : list Z) (now : Z) | LMh (pv : list Z) (sn now : Z).

Definition lstep (life len : Z) (t : list entry) (o : lop) : list entry :=
  match o with
  | LShb pv now => rx_shb t pv now life
  | LMh pv sn now => match rx_mh t pv sn now life len with Some t' => t' | None => t end
  end.

Definition lrun (life len : Z) (t : list entry) (ops : list lop) : list entry := fold_left (lstep life len) ops t.

Definition op_addr (o : lop) : list Z := match o with LShb pv _ => pv_addr pv | LMh pv _ _ => pv_addr pv end.
Definition op_now (o : lop) : Z := match o with LShb _ now => now | LMh _ _ now => now end.
Definition is_shb (o : lop) : bool := match o with LShb _ _ => true | _ => false end.

Lemma uniq_lstep life len t o : uniq t -> uniq (lstep life len t o).
Proof.
  intros H. destruct o as [pv now|pv sn now]; cbn.
  - apply uniq_rx_shb, H.
  - destruct (rx_mh t pv sn now life len) eqn:E; [eapply uniq_rx_mh; eauto | exact H].
Qed.

Lemma uniq_lrun life len ops : forall t, uniq t -> uniq (lrun life len t ops).
Proof. unfold lrun. induction ops as [|o ops IH]; cbn; auto using uniq_lstep. Qed.

(* one step: the neighbour flag of A afterwards, if A is still present.  For the station the packet comes from, the
   flag it had counts only while its entry had not expired when the packet arrived. *)
(* a duplicate is only ever found in an entry that has not expired *)
Lemma rx_mh_dup_live t pv sn now life len : rx_mh t pv sn now life len = None ->
  exists e, live t (pv_addr pv) now life = Some e.
Proof.
  unfold rx_mh, get_or_new. destruct (live t (pv_addr pv) now life) as [e|]; [eauto|].
  cbv beta iota zeta delta [new_entry e_dpl check_dup existsb]. discriminate.
Qed.

Lemma lstep_nb life len t o a e' : uniq t -> find (lstep life len t o) a = Some e' ->
  e_nb e' = if list_eqb (op_addr o) a
            then (is_shb o || match live t a (op_now o) life with Some e => e_nb e | None => false end)
            else match find t a with Some e => e_nb e | None => false end.
Proof.
  intros Hu F. destruct (list_eqb (op_addr o) a) eqn:E.
  - apply list_eqb_eq in E. subst a. destruct o as [pv now|pv sn now]; cbn [lstep op_addr op_now is_shb orb] in *.
    + apply (rx_shb_neighbour _ _ _ _ _ Hu F).
    + destruct (rx_mh t pv sn now life len) as [t'|] eqn:R.
      * apply (rx_mh_neighbour _ _ _ _ _ _ _ _ Hu R F).
      * (* a duplicate: the table is untouched, and the entry in which it was found has not expired *)
        destruct (rx_mh_dup_live _ _ _ _ _ _ R) as [x L]. rewrite L.
        apply live_some in L as [L _]. congruence.
  - assert (Hn : a <> op_addr o) by (intros ->; rewrite list_eqb_refl in E; discriminate).
    destruct o as [pv now|pv sn now]; cbn [lstep op_addr op_now is_shb] in *.
    + rewrite (rx_shb_frame _ _ _ _ _ _ Hu Hn F). reflexivity.
    + destruct (rx_mh t pv sn now life len) as [t'|] eqn:R.
      * rewrite (rx_mh_frame _ _ _ _ _ _ _ _ _ Hu Hn R F). reflexivity.
      * rewrite F. reflexivity.
Qed.

(* A source known only through multi-hop packets is never a neighbour. *)
Theorem multihop_only_not_neighbour life len ops : forall t a e,
  uniq t -> (forall e0, find t a = Some e0 -> e_nb e0 = false) ->
  (forall o, In o ops -> op_addr o = a -> is_shb o = false) ->
  find (lrun life len t ops) a = Some e -> e_nb e = false.
Proof.
  unfold lrun. induction ops as [|o ops IH]; intros t a e Hu H0 Hops F; cbn in F.
  - auto.
  - apply (IH (lstep life len t o) a e); auto using uniq_lstep.
    + intros e0 F0. rewrite (lstep_nb _ _ _ _ _ _ Hu F0).
      destruct (list_eqb (op_addr o) a) eqn:E.
      * apply list_eqb_eq in E. rewrite (Hops o (or_introl eq_refl) E). cbn.
        destruct (live t a (op_now o) life) eqn:G; [|reflexivity]. apply live_some in G as [G _]. auto.
      * destruct (find t a) eqn:G; auto.
    + intros o' Hin. apply Hops. right. exact Hin.
Qed.

(* S stays a neighbour from a beacon / SHB on, whatever is processed afterwards, until its entry expires: for as
   long as the entry is continuously present and its lifetime has not run out when a multi-hop packet of S arrives
   (an expired entry is not re-used: rx_mh_expired_entry_not_reused). *)
Fixpoint present_throughout (life len : Z) (t : list entry) (a : list Z) (ops : list lop) : Prop :=
  match ops with
  | [] => True
  | o :: r => (op_addr o = a -> is_shb o = false -> live t a (op_now o) life <> None) /\
              find (lstep life len t o) a <> None /\ present_throughout life len (lstep life len t o) a r
  end.

Theorem neighbour_until_expiry life len ops : forall t a e,
  uniq t -> (forall e0, find t a = Some e0 -> e_nb e0 = true) -> find t a <> None ->
  present_throughout life len t a ops ->
  find (lrun life len t ops) a = Some e -> e_nb e = true.
Proof.
  unfold lrun. induction ops as [|o ops IH]; intros t a e Hu H0 Hp Hall F; cbn in F.
  - auto.
  - destruct Hall as (Hlive & Hp1 & Hall). apply (IH (lstep life len t o) a e); auto using uniq_lstep.
    intros e0 F0. rewrite (lstep_nb _ _ _ _ _ _ Hu F0).
    destruct (list_eqb (op_addr o) a) eqn:E.
    + apply list_eqb_eq in E. destruct (is_shb o) eqn:S; [reflexivity|]. cbn.
      destruct (live t a (op_now o) life) as [x|] eqn:G; [|exfalso; apply (Hlive E eq_refl); reflexivity].
      apply live_some in G as [G _]. auto.
    + destruct (find t a) as [x|] eqn:G; [|congruence]. apply (H0 x eq_refl).
Qed.
