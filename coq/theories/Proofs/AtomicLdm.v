(* C16: atomicity of the LDM's critical sections (instances of Base/Atomic.v for the regenerated lock summary). *)
From FlexVerif Require Import Base.Prelude Base.Interleave Base.Atomic Model.LdmConc Gen.LdmLockSummary Proofs.LdmConcProofs.

(* closed: the database lock (store, id counter), the service lock (registries, subscriptions, last-checked map) and the
   two reactive time-stamp locks.  The maintenance thread's data_containers_lock only wraps database calls: its sections
   contain (closed) database sections and are not closed themselves. *)
Definition ldm_closed_locks : list Z := [0; 2; 3; 5].

Lemma ldm_closed_sections :
  forallb (fun l => forallb (all_sections_closed ldm_policy l) ldm_summary) ldm_closed_locks = true.
Proof. vm_compute. reflexivity. Qed.

Theorem ldm_sections_atomic (wv : Z -> list Z -> Z) progs m0 s1 s2 i t1 t2 l m pre r tail ls1 ls2 :
  from_ldm_summary progs -> In l ldm_closed_locks -> In m ldm_summary -> m = pre ++ Acq l :: r ->
  msteps wv (minit progs m0) s1 -> msteps wv s1 s2 ->
  nth_error (m_cfg s1) i = Some t1 -> t_prog t1 = r ++ tail -> nth_error (m_loc s1) i = Some ls1 ->
  exists body rest, r = body ++ Rel l :: rest /\ closed ldm_policy l [] body = true /\
    (nth_error (m_cfg s2) i = Some t2 -> t_prog t2 = Rel l :: rest ++ tail -> nth_error (m_loc s2) i = Some ls2 ->
     agree ldm_policy l (m_mem s2) (fst (run_seq wv body (m_mem s1) ls1)) /\ ls2 = snd (run_seq wv body (m_mem s1) ls1)).
Proof.
  intros F Hl Hm Em. destruct (from_ldm_summary_checks progs F) as [W _].
  pose proof ldm_closed_sections as C. rewrite forallb_forall in C. specialize (C l Hl).
  rewrite forallb_forall in C. specialize (C m Hm).
  apply (atomic_section_checked wv ldm_policy progs m0 s1 s2 i t1 t2 l m pre r tail ls1 ls2 W C Em).
Qed.

Theorem ldm_section_isolation (wv : Z -> list Z -> Z) progs s i ti j tj a r ls l :
  from_ldm_summary progs -> reachable (initial progs) (m_cfg s) ->
  nth_error (m_cfg s) i = Some ti -> holds ti l = true ->
  nth_error (m_cfg s) j = Some tj -> j <> i -> t_prog tj = a :: r ->
  agree ldm_policy l (m_mem s) (fst (act_mem wv a (m_mem s) ls)).
Proof.
  intros F. destruct (from_ldm_summary_checks progs F) as [W _].
  apply (section_isolation wv ldm_policy progs s i ti j tj a r ls l W).
Qed.
