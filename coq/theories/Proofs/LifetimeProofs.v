From FlexVerif Require Import Base.Prelude Model.Lifetime.
From Coq Require Import ZifyBool.
Ltac Zify.zify_post_hook ::= Z.to_euclidean_division_equations.

Lemma base_ms_cases b : 0 <= b <= 3 ->
  (b = 0 /\ base_ms b = 50) \/ (b = 1 /\ base_ms b = 1000) \/
  (b = 2 /\ base_ms b = 10000) \/ (b = 3 /\ base_ms b = 100000).
Proof. intros H. assert (b = 0 \/ b = 1 \/ b = 2 \/ b = 3) as [->|[->|[->| ->]]] by lia;
  cbv; tauto. Qed.

Ltac case_base Hb :=
  let E := fresh "Ebase" in
  destruct (base_ms_cases _ Hb) as [[-> E]|[[-> E]|[[-> E]|[-> E]]]]; rewrite E in *.

(* The state threaded through the fold: best = m0 * base b0, bounded fields. *)
Definition acc_ok (v : Z) (acc : Z * Z * Z) : Prop :=
  let '(m0, b0, best) := acc in
  best = lt_value m0 b0 /\ 0 <= m0 <= 63 /\ 0 <= b0 <= 3 /\ best <= v.

Lemma lt_step_ok v acc b : 0 <= v -> 0 <= b <= 3 -> acc_ok v acc -> acc_ok v (lt_step v acc b).
Proof.
  intros Hv Hb. destruct acc as [[m0 b0] best]. unfold acc_ok, lt_step, cand, lt_value.
  intros (Hbest & Hm & Hb0 & Hle).
  destruct ((0 <? Z.min (v / base_ms b) 63) && (best <=? Z.min (v / base_ms b) 63 * base_ms b)) eqn:E.
  - case_base Hb; lia.
  - tauto.
Qed.

Lemma lt_step_mono v acc b :
  let '(_, _, best) := acc in let '(_, _, best') := lt_step v acc b in best <= best'.
Proof.
  destruct acc as [[m0 b0] best]. unfold lt_step.
  destruct ((0 <? cand v b) && (best <=? cand v b * base_ms b)) eqn:E; lia.
Qed.

Lemma lt_step_covers v acc b : 0 <= v -> 0 <= b <= 3 ->
  let '(_, _, best) := acc in 0 <= best ->
  let '(_, _, best') := lt_step v acc b in
  forall m, 0 <= m <= 63 -> lt_value m b <= v -> lt_value m b <= best'.
Proof.
  intros Hv Hb. destruct acc as [[m0 b0] best]. intros Hbest. unfold lt_step, cand, lt_value.
  destruct ((0 <? Z.min (v / base_ms b) 63) && (best <=? Z.min (v / base_ms b) 63 * base_ms b)) eqn:E;
  intros m Hm Hle;
  case_base Hb; lia.
Qed.

Definition third (a : Z * Z * Z) : Z := let '(_, _, x) := a in x.

Lemma fold_acc_ok v bs acc : 0 <= v -> Forall (fun b => 0 <= b <= 3) bs ->
  acc_ok v acc -> acc_ok v (fold_left (lt_step v) bs acc).
Proof.
  intros Hv Hbs. revert acc. induction Hbs as [|b bs Hb _ IH]; intros acc Hacc; cbn [fold_left].
  - exact Hacc.
  - apply IH. apply lt_step_ok; assumption.
Qed.

Lemma fold_mono v bs acc : third acc <= third (fold_left (lt_step v) bs acc).
Proof.
  revert acc. induction bs as [|b bs IH]; intros acc; cbn [fold_left]; [lia|].
  etransitivity; [|apply IH].
  pose proof (lt_step_mono v acc b) as H. destruct acc as [[? ?] ?].
  destruct (lt_step v (z, z0, z1) b) as [[? ?] ?]. exact H.
Qed.

Lemma fold_covers v bs acc : 0 <= v -> Forall (fun b => 0 <= b <= 3) bs -> 0 <= third acc ->
  forall m b, In b bs -> 0 <= m <= 63 -> lt_value m b <= v ->
  lt_value m b <= third (fold_left (lt_step v) bs acc).
Proof.
  intros Hv Hbs. revert acc. induction Hbs as [|b0 bs Hb0 _ IH]; intros acc Hacc m b Hin Hm Hle.
  - destruct Hin.
  - cbn [fold_left]. destruct Hin as [<-|Hin].
    + etransitivity; [|apply fold_mono].
      pose proof (lt_step_covers v acc b0 Hv Hb0) as H. destruct acc as [[? ?] best].
      cbn [third] in Hacc. specialize (H Hacc).
      destruct (lt_step v (z, z0, best) b0) as [[? ?] ?]. cbn [third]. apply H; assumption.
    + apply IH; try assumption.
      pose proof (lt_step_mono v acc b0) as H. destruct acc as [[? ?] best]. cbn [third] in Hacc.
      destruct (lt_step v (z, z0, best) b0) as [[? ?] ?]. cbn [third]. lia.
Qed.

Lemma bases_ok : Forall (fun b => 0 <= b <= 3) [0; 1; 2; 3].
Proof. repeat constructor; lia. Qed.

Lemma init_ok v : 0 <= v -> acc_ok v (0, 0, 0).
Proof. intros; unfold acc_ok, lt_value; cbn; lia. Qed.

(* --- the statements used by Properties/C20.v ---------------------------- *)

Lemma lt_encode_fields v : let '(m, b) := lt_encode v in 0 <= m <= 63 /\ 0 <= b <= 3.
Proof.
  unfold lt_encode. destruct ((50 <=? v) && (v <? 1000000)) eqn:E.
  - assert (Hv : 0 <= v) by lia.
    pose proof (fold_acc_ok v [0;1;2;3] (0,0,0) Hv bases_ok (init_ok v Hv)) as H.
    destruct (fold_left (lt_step v) [0;1;2;3] (0,0,0)) as [[m b] best]. unfold acc_ok in H. lia.
  - destruct (1000000 <=? v); lia.
Qed.

Lemma lt_le v : 0 <= v -> lt_enc_value v <= v.
Proof.
  intros Hv. unfold lt_enc_value, lt_encode. destruct ((50 <=? v) && (v <? 1000000)) eqn:E.
  - pose proof (fold_acc_ok v [0;1;2;3] (0,0,0) Hv bases_ok (init_ok v Hv)) as H.
    destruct (fold_left (lt_step v) [0;1;2;3] (0,0,0)) as [[m b] best]. unfold acc_ok in H. lia.
  - destruct (1000000 <=? v); unfold lt_value; cbn; lia.
Qed.

Lemma lt_max_partial v m b : 0 <= v < 1000000 -> 0 <= m <= 63 -> 0 <= b <= 3 ->
  lt_value m b <= v -> lt_value m b <= lt_enc_value v.
Proof.
  intros Hv Hm Hb Hle. unfold lt_enc_value, lt_encode.
  destruct ((50 <=? v) && (v <? 1000000)) eqn:E.
  - assert (Hv0 : 0 <= v) by lia.
    pose proof (fold_acc_ok v [0;1;2;3] (0,0,0) Hv0 bases_ok (init_ok v Hv0)) as Hok.
    assert (Hin : In b [0;1;2;3]) by (cbn; lia).
    pose proof (fold_covers v [0;1;2;3] (0,0,0) Hv0 bases_ok ltac:(cbn; lia) m b Hin Hm Hle) as Hc.
    destruct (fold_left (lt_step v) [0;1;2;3] (0,0,0)) as [[m1 b1] best]. unfold acc_ok in Hok.
    cbn [third] in Hc. lia.
  - assert (v < 50) by lia. destruct (1000000 <=? v) eqn:E2; [lia|].
    unfold lt_value in *. destruct (base_ms_cases b Hb) as [[-> Hb']|[[-> Hb']|[[-> Hb']| [-> Hb']]]];
    rewrite Hb' in *; cbn; lia.
Qed.

Lemma lt_nonzero_partial v : 50 <= v < 1000000 -> 0 < lt_enc_value v.
Proof.
  intros Hv. pose proof (lt_max_partial v 1 0 ltac:(lia) ltac:(lia) ltac:(lia)) as H.
  unfold lt_value at 1 2 in H. cbn in H. lia.
Qed.

Lemma lt_refuted_1e6 : lt_enc_value 1000000 = 0 /\ lt_value 10 3 = 1000000.
Proof. split; vm_compute; reflexivity. Qed.

(* Finite: every code 0..255 decodes and re-encodes to itself; every (m,b) pair
   round-trips through the code. *)
Lemma lt_code_roundtrip_fin :
  forallb (fun c => let '(m, b) := lt_of_code c in lt_code m b =? c) (zrange 0 256) = true.
Proof. vm_compute. reflexivity. Qed.

Lemma zrange_in lo n x : In x (zrange lo n) <-> lo <= x < lo + Z.of_nat n.
Proof.
  revert lo. induction n as [|n IH]; intros lo; cbn [zrange In].
  - lia.
  - rewrite IH. lia.
Qed.

Lemma lt_code_roundtrip c : 0 <= c < 256 -> let '(m, b) := lt_of_code c in lt_code m b = c.
Proof.
  intros Hc. pose proof lt_code_roundtrip_fin as H. rewrite forallb_forall in H.
  specialize (H c). destruct (lt_of_code c) as [m b]. apply Z.eqb_eq, H, zrange_in. lia.
Qed.

Lemma lt_pair_roundtrip_fin :
  forallb (fun m => forallb (fun b =>
     let '(m', b') := lt_of_code (lt_code m b) in (m' =? m) && (b' =? b)) (zrange 0 4))
     (zrange 0 64) = true.
Proof. vm_compute. reflexivity. Qed.

Lemma lt_pair_roundtrip m b : 0 <= m <= 63 -> 0 <= b <= 3 -> lt_of_code (lt_code m b) = (m, b).
Proof.
  intros Hm Hb. pose proof lt_pair_roundtrip_fin as H. rewrite forallb_forall in H.
  specialize (H m ltac:(apply zrange_in; lia)). rewrite forallb_forall in H.
  specialize (H b ltac:(apply zrange_in; lia)).
  destruct (lt_of_code (lt_code m b)) as [m' b']. f_equal; lia.
Qed.

Lemma lt_code_range m b : 0 <= m <= 63 -> 0 <= b <= 3 -> 0 <= lt_code m b < 256.
Proof.
  intros Hm Hb.
  assert (H : forallb (fun m => forallb (fun b => (0 <=? lt_code m b) && (lt_code m b <? 256))
            (zrange 0 4)) (zrange 0 64) = true) by (vm_compute; reflexivity).
  rewrite forallb_forall in H. specialize (H m ltac:(apply zrange_in; lia)).
  rewrite forallb_forall in H. specialize (H b ltac:(apply zrange_in; lia)). lia.
Qed.

(* What the receiver reports (whole seconds) never exceeds the wire value. *)
Lemma ind_lifetime_le m b : 0 <= m -> 0 <= b <= 3 -> ind_lifetime_s m b * 1000 <= lt_value m b.
Proof.
  intros Hm Hb. unfold ind_lifetime_s, lt_value.
  case_base Hb; lia.
Qed.

(* End to end: request v -> wire code -> receiver's decode -> value. *)
Lemma lt_wire_roundtrip v :
  let '(m, b) := lt_encode v in lt_of_code (lt_code m b) = (m, b).
Proof.
  pose proof (lt_encode_fields v) as H. destruct (lt_encode v) as [m b].
  apply lt_pair_roundtrip; lia.
Qed.

Lemma src_hops_single kind req def : kind = 0 \/ kind = 1 -> src_hops kind req def = (1, 1).
Proof. intros [-> | ->]; reflexivity. Qed.

Lemma src_hops_multi req def :
  src_hops 2 req def = if req <=? 1 then (def, def) else (req, req).
Proof. unfold src_hops. cbn. destruct (req <=? 1); reflexivity. Qed.

Lemma rx_hops_discard rhl mhl : mhl < rhl -> rx_hops_ok rhl mhl = false.
Proof. unfold rx_hops_ok. lia. Qed.
