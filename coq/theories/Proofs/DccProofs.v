(* C19 - lemmas about the reactive DCC model and about the generated tables / constants. *)
From Coq Require Import ZArith QArith Qabs Qminmax List Bool Lia Lqa.
From FlexVerif Require Import Gen.C19Consts Model.Dcc Model.DccSpec.
Import ListNotations.
Open Scope Q_scope.

(* ---- boolean comparisons ------------------------------------------------- *)
Lemma Qleb_true a b : Qleb a b = true <-> a <= b.
Proof. unfold Qleb. apply Qle_bool_iff. Qed.

Lemma Qleb_false a b : Qleb a b = false <-> b < a.
Proof.
  unfold Qleb. split; intros H.
  - apply Qnot_le_lt. intros C. apply Qle_bool_iff in C. congruence.
  - destruct (Qle_bool a b) eqn:E; [|reflexivity]. apply Qle_bool_iff in E. lra.
Qed.

Lemma Qltb_true a b : Qltb a b = true <-> a < b.
Proof. unfold Qltb. rewrite negb_true_iff. apply (Qleb_false b a). Qed.

Lemma Qltb_false a b : Qltb a b = false <-> b <= a.
Proof. unfold Qltb. rewrite negb_false_iff. apply (Qleb_true b a). Qed.

(* turn every boolean comparison hypothesis into an order fact *)
Ltac qhyps :=
  repeat match goal with
  | H : Qleb _ _ = true |- _ => apply Qleb_true in H
  | H : Qleb _ _ = false |- _ => apply Qleb_false in H
  | H : Qltb _ _ = true |- _ => apply Qltb_true in H
  | H : Qltb _ _ = false |- _ => apply Qltb_false in H
  end.

(* case split on the first comparison found in the goal *)
Ltac qcase :=
  match goal with
  | |- context [Qleb ?a ?b] => let E := fresh "E" in destruct (Qleb a b) eqn:E
  | |- context [Qltb ?a ?b] => let E := fresh "E" in destruct (Qltb a b) eqn:E
  end.

Lemma pymin_Qmin a b : pymin a b == Qmin a b.
Proof.
  unfold pymin. destruct (Qltb b a) eqn:E; qhyps.
  - rewrite Q.min_r; lra.
  - rewrite Q.min_l; lra.
Qed.

Lemma pymax_Qmax a b : pymax a b == Qmax a b.
Proof.
  unfold pymax. destruct (Qltb a b) eqn:E; qhyps.
  - rewrite Q.max_r; lra.
  - rewrite Q.max_l; lra.
Qed.

Lemma cbr_in_range_true c : cbr_in_range c = true <-> 0 <= c <= 1.
Proof. unfold cbr_in_range. rewrite andb_true_iff, !Qleb_true. tauto. Qed.

Lemma cbr_in_range_false c : cbr_in_range c = false <-> (c < 0 \/ 1 < c).
Proof. unfold cbr_in_range. rewrite andb_false_iff, !Qleb_false. tauto. Qed.

(* ---- the regenerated tables are the Annex A tables ----------------------- *)
Lemma tables_match :
  gen_table_A1 = annexA_table_1 /\ gen_table_A2 = annexA_table_2 /\ gen_state_order = [0; 1; 2; 3; 4]%Z.
Proof. repeat split; vm_compute; reflexivity. Qed.

Lemma table_of_annex ton : table_of ton = annex_table ton.
Proof.
  unfold table_of, annex_table. destruct tables_match as (-> & -> & _). reflexivity.
Qed.

Lemma annex_doubles_are_the_decimals :
  rows_agree annexA_table_1 annexA1_decimal = true /\ rows_agree annexA_table_2 annexA2_decimal = true.
Proof. split; vm_compute; reflexivity. Qed.

Lemma defaults_match_table_3 :
  near_rel gen_alpha table3_alpha = true /\ near_rel gen_beta table3_beta = true /\
  near_rel gen_cbr_target table3_cbr_target = true /\ near_rel gen_delta_max table3_delta_max = true /\
  near_rel gen_delta_min table3_delta_min = true /\ near_rel gen_delta_up_max table3_delta_up_max = true /\
  near_rel gen_delta_down_max table3_delta_down_max = true.
Proof. repeat split; vm_compute; reflexivity. Qed.

(* 25 ms <= the stored minimum interval (the double 0.025) <= 25 ms + 2^-58 s; maximum 1 s;
   0 < epsilon <= 1.000000001 ns *)
Lemma gate_constants :
  ms25 <= gmin /\ gmin <= ms25 + (1 # 288230376151711744) /\ gmax == s1 /\
  0 < geps /\ geps <= 1000000001 # 1000000000000000000.
Proof. repeat split; vm_compute; congruence. Qed.

Lemma gmin_le_gmax : gmin <= gmax.
Proof. vm_compute; congruence. Qed.
Lemma geps_pos : 0 < geps.
Proof. vm_compute; congruence. Qed.
Lemma geps_lt_gmin : geps < gmin.
Proof. vm_compute; congruence. Qed.
Lemma geps_lt_ms25 : geps < ms25.
Proof. vm_compute; congruence. Qed.

(* ---- adjacency ------------------------------------------------------------ *)
Lemma reactive_next_adjacent cur tgt : (Z.abs (reactive_next cur tgt - cur) <= 1)%Z.
Proof.
  unfold reactive_next.
  destruct (Z.ltb_spec cur tgt); [lia|]. destruct (Z.ltb_spec tgt cur); lia.
Qed.

Lemma reactive_next_towards cur tgt :
  (Z.abs (reactive_next cur tgt - tgt) = Z.max (Z.abs (cur - tgt) - 1) 0)%Z.
Proof.
  unfold reactive_next.
  destruct (Z.ltb_spec cur tgt); [lia|]. destruct (Z.ltb_spec tgt cur); lia.
Qed.

Lemma reactive_next_between cur tgt lo hi :
  (lo <= cur <= hi -> lo <= tgt <= hi -> lo <= reactive_next cur tgt <= hi)%Z.
Proof.
  unfold reactive_next.
  destruct (Z.ltb_spec cur tgt); [lia|]. destruct (Z.ltb_spec tgt cur); lia.
Qed.

Lemma r_state_update tbl idx cbr :
  r_state (reactive_update tbl idx cbr) =
  if cbr_in_range cbr then reactive_next idx (target_state tbl cbr) else idx.
Proof.
  unfold reactive_update. destruct (cbr_in_range cbr); simpl; [|reflexivity].
  destruct (lookup tbl _) as [[[[? ?] ?] ?]|]; reflexivity.
Qed.

Lemma reactive_adjacent_step tbl idx cbr :
  (Z.abs (r_state (reactive_update tbl idx cbr) - idx) <= 1)%Z.
Proof.
  rewrite r_state_update. destruct (cbr_in_range cbr).
  - apply reactive_next_adjacent.
  - lia.
Qed.

Lemma reactive_adjacent_run tbl : forall l idx,
  adjacent_chain idx (map r_state (reactive_run tbl idx l)).
Proof.
  induction l as [|c r IH]; intros idx; simpl; [exact I|].
  split; [apply reactive_adjacent_step | apply IH].
Qed.

(* ---- rejection of out-of-range values ------------------------------------- *)
Lemma reactive_rejects tbl idx cbr : (cbr < 0 \/ 1 < cbr) ->
  reactive_update tbl idx cbr = (1%Z, idx, 0, 0).
Proof.
  intros H. apply cbr_in_range_false in H. unfold reactive_update. rewrite H. reflexivity.
Qed.

(* ---- the target state is the band of the specification -------------------- *)
Lemma Qle_bool_false a b : Qle_bool a b = false <-> b < a.
Proof. exact (Qleb_false a b). Qed.

Ltac decide_cmp :=
  repeat match goal with
  | |- context [Qle_bool ?a ?b] =>
      first [ replace (Qle_bool a b) with true by (symmetry; apply Qle_bool_iff; lra)
            | replace (Qle_bool a b) with false by (symmetry; apply Qle_bool_false; lra) ]
  end.

Lemma target_is_band_A1 cbr : 0 <= cbr <= 1 ->
  target_state annexA_table_1 cbr = band (lower_bounds annexA_table_1) cbr.
Proof.
  intros [H0 H1].
  unfold band, lower_bounds, annexA_table_1, target_state, Qleb, Qltb.
  cbn [map filter].
  unfold dbl_0_30, dbl_0_40, dbl_0_50, dbl_0_60, dbl_1_01 in *.
  destruct (Qlt_le_dec cbr (5404319552844595 # 18014398509481984));
    [decide_cmp; reflexivity|].
  destruct (Qlt_le_dec cbr (3602879701896397 # 9007199254740992));
    [decide_cmp; reflexivity|].
  destruct (Qlt_le_dec cbr (1 # 2)); [decide_cmp; reflexivity|].
  destruct (Qlt_le_dec cbr (5404319552844595 # 9007199254740992));
    [decide_cmp; reflexivity|].
  decide_cmp; reflexivity.
Qed.

Lemma target_is_band_A2 cbr : 0 <= cbr <= 1 ->
  target_state annexA_table_2 cbr = band (lower_bounds annexA_table_2) cbr.
Proof.
  intros [H0 H1].
  unfold band, lower_bounds, annexA_table_2, target_state, Qleb, Qltb.
  cbn [map filter].
  unfold dbl_0_30, dbl_0_40, dbl_0_50, dbl_0_65, dbl_1_01 in *.
  destruct (Qlt_le_dec cbr (5404319552844595 # 18014398509481984));
    [decide_cmp; reflexivity|].
  destruct (Qlt_le_dec cbr (3602879701896397 # 9007199254740992));
    [decide_cmp; reflexivity|].
  destruct (Qlt_le_dec cbr (1 # 2)); [decide_cmp; reflexivity|].
  destruct (Qlt_le_dec cbr (5854679515581645 # 9007199254740992));
    [decide_cmp; reflexivity|].
  decide_cmp; reflexivity.
Qed.

Lemma target_is_band ton cbr : 0 <= cbr <= 1 ->
  target_state (table_of ton) cbr = band (lower_bounds (annex_table ton)) cbr.
Proof.
  intros H. rewrite table_of_annex. unfold annex_table.
  destruct (ton <=? 500)%Z; [apply target_is_band_A2 | apply target_is_band_A1]; exact H.
Qed.

(* a CBR in [0,1] lies in one of the five bands *)
Lemma band_range_annex ton cbr : 0 <= cbr ->
  (0 <= band (lower_bounds (annex_table ton)) cbr <= 4)%Z.
Proof.
  intros H. unfold annex_table.
  destruct (ton <=? 500)%Z; unfold band, lower_bounds, annexA_table_2, annexA_table_1; cbn [map filter];
    (replace (Qle_bool (0 # 1) cbr) with true by (symmetry; apply Qle_bool_iff; lra));
    repeat match goal with |- context [Qle_bool ?a ?b] => destruct (Qle_bool a b) end; cbn [length]; lia.
Qed.

(* ---- convergence ------------------------------------------------------------ *)
Lemma final_converges tbl g : forall l idx,
  Forall (fun c => cbr_in_range c = true /\ target_state tbl c = g) l ->
  (Z.abs (idx - g) <= Z.of_nat (length l))%Z ->
  reactive_final tbl idx l = g.
Proof.
  induction l as [|c r IH]; intros idx HF Hd.
  - simpl in *. lia.
  - pose proof (Forall_inv HF) as [Hr Ht]. pose proof (Forall_inv_tail HF) as HF'. cbn [reactive_final].
    apply IH; [exact HF'|].
    rewrite r_state_update, Hr, Ht. rewrite reactive_next_towards.
    cbn [length] in Hd. lia.
Qed.

Lemma reactive_converges_band ton g : forall l idx,
  (0 <= idx <= 4)%Z -> (4 <= length l)%nat ->
  (forall c, In c l -> 0 <= c <= 1 /\ band (lower_bounds (annex_table ton)) c = g) ->
  reactive_final (table_of ton) idx l = g.
Proof.
  intros l idx Hi Hl Hall.
  destruct l as [|c0 r0] eqn:El; [simpl in Hl; lia|]. rewrite <- El in *.
  assert (Hg : (0 <= g <= 4)%Z).
  { destruct (Hall c0) as [[? ?] <-]; [subst l; left; reflexivity|]. apply band_range_annex; assumption. }
  apply final_converges.
  - apply Forall_forall. intros c Hc. destruct (Hall c Hc) as [Hr Hb]. split.
    + apply cbr_in_range_true; exact Hr.
    + rewrite target_is_band by exact Hr. exact Hb.
  - lia.
Qed.

Lemma reactive_converges_const ton idx cbr n :
  (0 <= idx <= 4)%Z -> 0 <= cbr <= 1 -> (4 <= n)%nat ->
  reactive_final (table_of ton) idx (repeat cbr n) = band (lower_bounds (annex_table ton)) cbr.
Proof.
  intros Hi Hc Hn. apply reactive_converges_band.
  - exact Hi.
  - rewrite repeat_length. exact Hn.
  - intros c Hin. apply repeat_spec in Hin. subst c. split; [exact Hc | reflexivity].
Qed.

(* four evaluations are needed in the worst case *)
Lemma reactive_three_not_enough :
  reactive_final (table_of 1000) 0 (repeat 1 3) = 3%Z /\ band (lower_bounds (annex_table 1000)) 1 = 4%Z.
Proof. split; vm_compute; reflexivity. Qed.

(* ---- states stay within 0..4, outputs are the rows of the table ------------- *)
Lemma target_range ton cbr : (0 <= target_state (table_of ton) cbr <= 4)%Z.
Proof.
  rewrite table_of_annex. unfold annex_table.
  destruct (ton <=? 500)%Z; unfold annexA_table_2, annexA_table_1, target_state;
    repeat match goal with |- context [if ?b then _ else _] => destruct b end; lia.
Qed.

Lemma reactive_state_range ton idx cbr :
  (0 <= idx <= 4)%Z -> (0 <= r_state (reactive_update (table_of ton) idx cbr) <= 4)%Z.
Proof.
  intros H. rewrite r_state_update. destruct (cbr_in_range cbr); [|exact H].
  apply reactive_next_between; [exact H | apply target_range].
Qed.

Lemma reactive_outputs ton idx cbr : (0 <= idx <= 4)%Z -> 0 <= cbr <= 1 ->
  let o := reactive_update (table_of ton) idx cbr in
  r_status o = 0%Z /\
  r_rate o = annex_rate (annex_table ton) (r_state o) /\
  r_toff o = annex_toff (annex_table ton) (r_state o).
Proof.
  intros Hi Hc.
  pose proof (reactive_state_range ton idx cbr Hi) as Hs.
  rewrite r_state_update in Hs. apply cbr_in_range_true in Hc.
  unfold reactive_update. rewrite Hc in *. cbn [negb].
  set (s := reactive_next idx (target_state (table_of ton) cbr)) in *.
  rewrite table_of_annex. unfold annex_table.
  assert (s = 0 \/ s = 1 \/ s = 2 \/ s = 3 \/ s = 4)%Z as [-> | [-> | [-> | [-> | ->]]]] by lia;
    destruct (ton <=? 500)%Z; vm_compute; repeat split; reflexivity.
Qed.

(* the tables list the states in the order 0..4, so "row number" and "dict key" coincide *)
Lemma table_keys ton : map fst (table_of ton) = [0; 1; 2; 3; 4]%Z.
Proof. rewrite table_of_annex. unfold annex_table. destruct (ton <=? 500)%Z; reflexivity. Qed.
