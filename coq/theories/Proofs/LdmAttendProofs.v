(* C16: what a QUIESCENT attendance pass serves (LdmConc.served) after an arbitrary history of atomic operations:
   exactly the stored subscriptions; never a subscription that was unsubscribed / whose owner deregistered and that no
   later operation stored again (not resurrected, whatever happened in between); always a stored subscription that no
   operation ended (not lost). *)
From FlexVerif Require Import Base.Prelude Base.Interleave Model.LdmConc Proofs.LdmConcProofs.
From Coq Require Import ZifyBool.
Local Arguments Z.eqb : simpl never.

Lemma served_stored st s : In s (served st) -> exists a, In (s, a) (l_subs st).
Proof.
  unfold served. destruct (d_items (l_db st)); [intros []|]. intros H.
  apply in_map_iff in H as [[s0 a] [E H]]. cbn [fst] in E. subst. eauto.
Qed.

Lemma stored_served st s a : In (s, a) (l_subs st) -> d_items (l_db st) <> [] -> In s (served st).
Proof.
  unfold served. intros H N. destruct (d_items (l_db st)); [congruence|].
  apply in_map_iff. exists (s, a). split; [reflexivity|exact H].
Qed.

Lemma served_owner_registered st s : subs_inv st -> In s (served st) ->
  exists a, In (s, a) (l_subs st) /\ smem a (l_cons st) = true.
Proof. intros I H. apply served_stored in H as [a H]. exists a. split; [exact H|]. exact (I s a H). Qed.

Lemma sub_has_false_not_in s l : sub_has s l = false -> forall a, ~ In (s, a) l.
Proof.
  unfold sub_has. intros H a Hin. assert (existsb (fun x : Z * Z => fst x =? s) l = true) as C.
  { apply existsb_exists. exists (s, a). split; [exact Hin|]. cbn [fst]. lia. }
  congruence.
Qed.

(* NOT RESURRECTED, for whole histories: a token that names no stored subscription and that no operation of the history
   subscribes is stored nowhere in the history's final state *)
Lemma run_not_resurrected ops : forall st s, (forall a, ~ In (s, a) (l_subs st)) -> (forall a, ~ In (LSAdd s a) ops) ->
  forall a, ~ In (s, a) (l_subs (fst (ldm_run st ops))).
Proof.
  induction ops as [|o r IH]; intros st s H0 Hn a; cbn [ldm_run]; [cbn [fst]; apply H0|].
  destruct (ldm_step st o) as [s1 x] eqn:E. destruct (ldm_run s1 r) as [s2 xs] eqn:E2. cbn [fst].
  assert (forall b, ~ In (s, b) (l_subs s1)) as H1.
  { intros b Hin. replace s1 with (fst (ldm_step st o)) in Hin by (rewrite E; reflexivity).
    apply sub_not_resurrected in Hin as [Hin|[Eo _]]; [exact (H0 b Hin)|]. apply (Hn b). left. exact Eo. }
  assert (forall b, ~ In (LSAdd s b) r) as Hr by (intros b Hin; apply (Hn b); right; exact Hin).
  pose proof (IH s1 s H1 Hr a) as G. rewrite E2 in G. exact G.
Qed.

Lemma never_served_again ops st s : (forall a, ~ In (s, a) (l_subs st)) -> (forall a, ~ In (LSAdd s a) ops) ->
  ~ In s (served (fst (ldm_run st ops))).
Proof. intros H0 Hn H. apply served_stored in H as [a H]. exact (run_not_resurrected ops st s H0 Hn a H). Qed.

Lemma unsubscribed_never_served st s a ops : snd (ldm_step st (LSDel s a)) = LR (RBool true) ->
  (forall b, ~ In (LSAdd s b) ops) -> ~ In s (served (fst (ldm_run (fst (ldm_step st (LSDel s a))) ops))).
Proof.
  intros H Hn. apply never_served_again; [|exact Hn]. apply sub_has_false_not_in. apply unsub_then_gone. exact H.
Qed.

Lemma deregistered_never_served st s a ops : (forall b, In (s, b) (l_subs st) -> b = a) ->
  (forall b, ~ In (LSAdd s b) ops) -> ~ In s (served (fst (ldm_run (fst (ldm_step st (LCDereg a))) ops))).
Proof.
  intros H Hn. apply never_served_again; [|exact Hn]. intros b Hin.
  cbn [ldm_step fst] in Hin. unfold with_cons in Hin. cbn [l_subs] in Hin.
  apply filter_In in Hin as [Hin Hf]. cbn [snd] in Hf. pose proof (H b Hin). lia.
Qed.

(* NOT LOST, for whole histories *)
Lemma run_not_lost ops : forall st s a, In (s, a) (l_subs st) -> (forall b, ~ In (LSDel s b) ops) -> ~ In (LCDereg a) ops ->
  In (s, a) (l_subs (fst (ldm_run st ops))).
Proof.
  induction ops as [|o r IH]; intros st s a H0 Hu Hd; cbn [ldm_run]; [exact H0|].
  destruct (ldm_step st o) as [s1 x] eqn:E. destruct (ldm_run s1 r) as [s2 xs] eqn:E2. cbn [fst].
  assert (In (s, a) (l_subs s1)) as H1.
  { replace s1 with (fst (ldm_step st o)) by (rewrite E; reflexivity). apply sub_not_lost; [exact H0| |].
    - intros b Eo. apply (Hu b). left. exact Eo.
    - intros Eo. apply Hd. left. exact Eo. }
  assert (forall b, ~ In (LSDel s b) r) as Hu' by (intros b Hin; apply (Hu b); right; exact Hin).
  assert (~ In (LCDereg a) r) as Hd' by (intros Hin; apply Hd; right; exact Hin).
  pose proof (IH s1 s a H1 Hu' Hd') as G. rewrite E2 in G. exact G.
Qed.

Lemma stored_still_served ops st s a : In (s, a) (l_subs st) -> (forall b, ~ In (LSDel s b) ops) -> ~ In (LCDereg a) ops ->
  d_items (l_db (fst (ldm_run st ops))) <> [] -> In s (served (fst (ldm_run st ops))).
Proof. intros H0 Hu Hd N. apply (stored_served _ s a); [apply run_not_lost; assumption|exact N]. Qed.
