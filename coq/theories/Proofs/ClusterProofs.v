(* Lemmas behind the theorems of Properties/C18.v. *)
From FlexVerif Require Import Base.Prelude Gen.C18Consts Model.Cluster Proofs.ClusterInv Proofs.ClusterRx.
From Coq Require Import ZifyBool.
Ltac Zify.zify_post_hook ::= Z.to_euclidean_division_equations.

Lemma not_none_ex : forall (o : option Z), o <> None -> exists x, o = Some x.
Proof. intros [x|] H; [eauto|congruence]. Qed.

(* ---- consistency --------------------------------------------------------------------- *)
Lemma cluster_inv : forall s, reachable s ->
  (vst s = Leader <-> exists c, cluster s = Some c /\ 1 <= c_id c <= 255 /\ 1 <= c_card c) /\
  (vst s = Passive <-> exists j l t, joined s = Some j /\ leader s = Some l /\ last_leader s = Some t) /\
  (vst s <> Passive -> joined s = None /\ leader s = None /\ last_leader s = None) /\
  (vst s <> Leader -> cluster s = None).
Proof.
  intros s R. apply reachable_inv in R. destr_state s. unfold inv, no_membership, wf_cluster in R. cbn in *.
  destruct st; cbn in R.
  - destruct R as (C & (J & L & T) & _). subst. repeat split; try congruence; intros; try discriminate.
    + destruct H as (c & E & _). discriminate.
    + destruct H as (? & ? & ? & E & _). discriminate.
  - destruct R as (C & (J & L & T) & _). subst. repeat split; try congruence; intros; try discriminate.
    + destruct H as (c & E & _). discriminate.
    + destruct H as (? & ? & ? & E & _). discriminate.
  - destruct R as ((c & E & W) & (J & L & T) & _). subst. repeat split; try congruence; intros; try discriminate.
    + exists c. tauto.
    + destruct H as (? & ? & ? & E & _). discriminate.
  - destruct R as (C & J & L & T & _). subst.
    apply not_none_ex in J, L, T. destruct J as (j0 & ->), L as (l0 & ->), T as (t1 & ->).
    repeat split; try congruence; intros; try discriminate.
    + destruct H as (c & E & _). discriminate.
    + exists j0, l0, t1. auto.
Qed.

Lemma transmit_gate : forall s,
  should_transmit s = false <-> vst s = Idle \/ (vst s = Passive /\ ls s <> LNotify).
Proof.
  intros s. unfold should_transmit. destruct (vst s); destruct (ls s); cbn; split; intros H;
    try discriminate; try reflexivity; try tauto; try (right; split; congruence);
    destruct H as [H|[H1 H2]]; try discriminate; try congruence.
Qed.

Lemma passive_not_leaving : forall s, reachable s -> vst s = Passive -> ls s = LNone.
Proof.
  intros s R P. apply reachable_inv in R. unfold inv in R. rewrite P in R. tauto.
Qed.

Lemma suppressed_iff_idle_or_passive : forall s, reachable s ->
  (should_transmit s = false <-> vst s = Idle \/ vst s = Passive).
Proof.
  intros s R. rewrite transmit_gate. split; intros [H|H]; auto.
  - right. tauto.
  - right. split; [exact H|]. rewrite (passive_not_leaving s R H). discriminate.
Qed.

Lemma no_assert_fails : forall s, reachable s ->
  (js s = JNotify \/ js s = JWaiting -> vst s = Standalone /\ exists t, j_started s = Some t) /\
  (js s = JCancelled \/ js s = JFailed -> vst s = Standalone /\ exists t, jl_started s = Some t) /\
  (ls s = LNotify -> vst s = Standalone /\ exists t, l_started s = Some t).
Proof.
  intros s R. apply reachable_inv in R. destr_state s. unfold inv, no_membership, join_ok, leave_ok in R.
  cbn in *.
  assert (A : forall o : option Z, o <> None -> exists t, o = Some t) by apply not_none_ex.
  destruct st; destruct j; destruct l; cbn in R;
    (split; [|split]); intros X; try (destruct X; discriminate); try discriminate;
    try (exfalso; intuition congruence); (split; [reflexivity|apply A; tauto]).
Qed.

(* ---- update never leaves the stand-alone state --------------------------------------- *)
Lemma vst_leave_timeout : forall s, vst (leave_timeout s) = vst s.
Proof.
  intros s. destr_state s. unfold leave_timeout. cbn. destruct l; destruct lst; cbn; try reflexivity.
  break_if; reflexivity.
Qed.

Lemma vst_update_standalone : forall s, vst s = Standalone -> vst (update s) = Standalone.
Proof.
  intros s P. unfold update. rewrite vst_expire_tables, P. unfold update_standalone.
  rewrite vst_leave_timeout.
  destr_state s. cbn in *. subst. unfold confirm_join_failed.
  destruct j; cbn; try reflexivity; repeat (break_if; cbn; try reflexivity).
Qed.

Lemma standalone_transmits : forall s, vst s = Standalone -> should_transmit s = true.
Proof. intros s P. unfold should_transmit. now rewrite P. Qed.

(* ---- what _do_leave_to_standalone and _complete_join leave behind ------------------------ *)
Lemma do_leave_fields : forall r s,
  vst (do_leave r s) = Standalone /\ ls (do_leave r s) = LNotify /\ l_started (do_leave r s) = Some (now s) /\
  l_cluster (do_leave r s) = joined s /\ l_reason (do_leave r s) = Some r /\ js (do_leave r s) = JNone /\
  joined (do_leave r s) = None /\ now (do_leave r s) = now s /\
  op_container (do_leave r s) = OpLeave (or0 (joined s)) r.
Proof. intros r s. destr_state s. cbn. repeat split; reflexivity. Qed.

Lemma ctrl_complete_join : forall sd s,
  ctrl (complete_join sd s) =
  (now s, Passive, cluster s, (j_target s, Some sd, Some (now s)),
   (JJoined, j_target s, j_started s, jl_reason s, jl_started s), (ls s, l_reason s, l_cluster s, l_started s)).
Proof. intros sd s. destr_state s. reflexivity. Qed.

(* ---- leader lost ---------------------------------------------------------------------- *)
Lemma leader_lost_recovers : forall s, reachable s -> vst s = Passive ->
  exists c l t, joined s = Some c /\ leader s = Some l /\ last_leader s = Some t /\
    (time_cluster_continuity <= now s - t ->
       vst (update s) = Standalone /\ should_transmit (update s) = true /\
       op_container (update s) = OpLeave c lr_leader_lost /\ joined (update s) = None).
Proof.
  intros s R P. apply reachable_inv in R. unfold inv in R. rewrite P in R.
  destruct R as (C & J & L & T & JS & LS).
  apply not_none_ex in J, L, T. destruct J as (c & J), L as (l0 & L), T as (t & T).
  exists c, l0, t. split; [exact J|]. split; [exact L|]. split; [exact T|]. intros D.
  unfold update; rewrite vst_expire_tables, P; unfold update_passive.
  destr_state s; cbn in *; subst; cbn.
  destruct (time_cluster_continuity <=? nw - t) eqn:E; [|lia]. repeat split; reflexivity.
Qed.

Lemma leader_lost_recovers_after_tick : forall s dt, reachable s -> vst s = Passive -> 0 <= dt ->
  exists c t, joined s = Some c /\ last_leader s = Some t /\
    (time_cluster_continuity <= now s + dt - t ->
       let s' := step (step s (Tick dt)) Update in
       vst s' = Standalone /\ should_transmit s' = true /\ op_container s' = OpLeave c lr_leader_lost).
Proof.
  intros s dt R P D.
  assert (R' : reachable (step s (Tick dt))) by (apply reachable_step; [exact R|exact D]).
  assert (P' : vst (step s (Tick dt)) = Passive) by (destr_state s; exact P).
  destruct (leader_lost_recovers _ R' P') as (c & l0 & t & J & L & T & H).
  exists c, t. destr_state s. cbn in *. split; [exact J|]. split; [exact T|].
  intros X. destruct (H X) as (H1 & H2 & H3 & _). auto.
Qed.

(* the leader-lost timer is re-armed only by a VAM of the leader's station *)
Lemma leader_timer_only_rearmed_by_leader : forall s e, reachable s -> vst s = Passive -> wf_event e ->
  (forall v, e = Rx v -> leader s <> Some (sender v)) ->
  vst (step s e) = Passive -> last_leader (step s e) = last_leader s /\ leader (step s e) = leader s.
Proof.
  intros s e R P W NL P'. apply reachable_inv in R. unfold inv in R. rewrite P in R.
  destruct R as (C & J & L & T & JS & LS).
  destruct e.
  11: { (* rx *)
    specialize (NL v eq_refl).
    destruct (rx_passive v s P) as (s1 & E & RX).
    assert (V1 : vst s1 = Passive) by (unfold ctrl in E; congruence).
    assert (L1 : leader s1 = leader s) by (unfold ctrl in E; congruence).
    assert (T1 : last_leader s1 = last_leader s) by (unfold ctrl in E; congruence).
    assert (OE : opt_eqb (leader s1) (sender v) = false).
    { rewrite L1. destruct (leader s) as [x|]; cbn; [|reflexivity]. apply Z.eqb_neq. congruence. }
    unfold step, step_ret in *. cbn [fst] in *. rewrite RX in *.
    assert (K : rx_breakup v s1 = s1 \/ rx_breakup v s1 = do_leave lr_disbanded s1).
    { destruct (op_breakup v) as [r|] eqn:B.
      - rewrite (rx_breakup_passive v s1 r V1 B).
        destruct (opt_eqb (leader s1) (sender v) || opt_eqb (joined s1) 0); destruct (r =? br_cpm); auto.
      - rewrite rx_breakup_none by exact B. auto. }
    destruct K as [K|K]; rewrite K in *.
    - rewrite rx_heartbeat_passive, OE by exact V1. split; congruence.
    - exfalso. destruct (do_leave_fields lr_disbanded s1) as (VD & _).
      rewrite rx_heartbeat_other in P' by congruence. congruence. }
  all: destr_state s; cbn in *; subst; unfold step, step_ret in *; cbn in *;
    try (split; reflexivity); try discriminate.
  (* update *)
  unfold update, update_passive, expire_tables, leave_timeout, do_leave in *. cbn in *.
  destruct ll as [t|]; cbn in *; [|split; reflexivity].
  destruct (time_cluster_continuity <=? nw - t); cbn in *; [discriminate|split; reflexivity].
Qed.

(* ---- break-up announced by the leader -------------------------------------------------- *)
Lemma rx_breakup_by_leader : forall s v r, vst s = Passive ->
  leader s = Some (sender v) -> op_breakup v = Some r -> r <> br_cpm ->
  exists s1, ctrl s1 = ctrl s /\ rx v s = do_leave lr_disbanded s1.
Proof.
  intros s v r P L B N. destruct (rx_passive v s P) as (s1 & E & RX). exists s1. split; [exact E|].
  assert (V1 : vst s1 = Passive) by (unfold ctrl in E; congruence).
  assert (L1 : leader s1 = Some (sender v)) by (unfold ctrl in E; congruence).
  rewrite RX, (rx_breakup_passive v s1 r V1 B), L1. cbn. rewrite Z.eqb_refl. cbn.
  destruct (r =? br_cpm) eqn:X; [apply Z.eqb_eq in X; congruence|].
  destruct (do_leave_fields lr_disbanded s1) as (VD & _).
  rewrite rx_heartbeat_other by congruence. reflexivity.
Qed.

Lemma breakup_recovers_partial : forall s v r, reachable s -> vst s = Passive ->
  leader s = Some (sender v) -> op_breakup v = Some r -> r <> br_cpm ->
  vst (rx v s) = Standalone /\ should_transmit (rx v s) = true /\
  (exists c, joined s = Some c /\ op_container (rx v s) = OpLeave c lr_disbanded) /\
  (forall dt, 0 <= dt -> let s' := step (step (rx v s) (Tick dt)) Update in
                         vst s' = Standalone /\ should_transmit s' = true).
Proof.
  intros s v r R P L B N. apply reachable_inv in R. unfold inv in R. rewrite P in R.
  destruct R as (C & J & _ & T & JS & LS). apply not_none_ex in J. destruct J as (c & J).
  destruct (rx_breakup_by_leader s v r P L B N) as (s1 & E & RX).
  destruct (do_leave_fields lr_disbanded s1) as (VD & _ & _ & _ & _ & _ & _ & _ & OC).
  assert (V : vst (rx v s) = Standalone) by (rewrite RX; exact VD).
  split; [exact V|]. split; [now apply standalone_transmits|]. split.
  - exists c. split; [exact J|]. rewrite RX, OC.
    assert (J1 : joined s1 = Some c) by (unfold ctrl in E; congruence). now rewrite J1.
  - intros dt D s'.
    assert (V' : vst s' = Standalone).
    { unfold s', step, step_ret. cbn. apply vst_update_standalone.
      destruct (rx v s); cbn in *. exact V. }
    split; [exact V'|now apply standalone_transmits].
Qed.

(* ---- join completes ------------------------------------------------------------------- *)
Lemma join_completes : forall s, reachable s -> js s = JWaiting ->
  vst s = Standalone /\ exists c, j_target s = Some c /\
    forall v oc card, info v = Some (oc, card) -> or0 oc = c -> op_breakup v = None ->
      let s' := rx v s in
      vst s' = Passive /\ joined s' = Some c /\ leader s' = Some (sender v) /\
      last_leader s' = Some (now s) /\ should_transmit s' = false /\ get_cluster_id s' = Some c.
Proof.
  intros s R W.
  assert (V : vst s = Standalone) by (apply no_assert_fails in R; destruct R as (R & _); apply R; auto).
  apply reachable_inv in R. unfold inv in R. rewrite V in R. destruct R as (C & _ & JO & _).
  unfold join_ok in JO. rewrite W in JO. destruct JO as (_ & JT & LS).
  apply not_none_ex in JT. destruct JT as (c & JT).
  split; [exact V|]. exists c. split; [exact JT|].
  intros v oc card I O B s'. unfold s', rx.
  pose proof (ctrl_rx_tables v s) as E1. remember (rx_tables v s) as s1. clear Heqs1.
  assert (E2 : ctrl (rx_info v s1) = ctrl (complete_join (sender v) s1)).
  { rewrite (ctrl_rx_info_waiting v s1 c oc card); try assumption; try (unfold ctrl in E1; congruence).
    rewrite O, Z.eqb_refl. reflexivity. }
  rewrite ctrl_complete_join in E2. remember (rx_info v s1) as s2. clear Heqs2.
  assert (V2 : vst s2 = Passive) by (unfold ctrl in E2; congruence).
  rewrite rx_members_other by congruence. rewrite rx_breakup_none by exact B.
  rewrite rx_heartbeat_passive by exact V2.
  assert (L2 : leader s2 = Some (sender v)) by (unfold ctrl in E2; congruence).
  rewrite L2. cbn. rewrite Z.eqb_refl.
  assert (N1 : now s1 = now s) by (unfold ctrl in E1; congruence).
  assert (T1 : j_target s1 = Some c) by (unfold ctrl in E1; congruence).
  assert (LS1 : ls s1 = LNone) by (unfold ctrl in E1; congruence).
  assert (N2 : now s2 = now s1) by (unfold ctrl in E2; congruence).
  assert (J2 : joined s2 = j_target s1) by (unfold ctrl in E2; congruence).
  assert (LS2 : ls s2 = ls s1) by (unfold ctrl in E2; congruence).
  clear E1 E2. destr_state s2. cbn in *. subst. unfold should_transmit, get_cluster_id. cbn.
  rewrite ?LS1, ?T1, ?N1. repeat split; reflexivity.
Qed.

(* ---- phases persist ------------------------------------------------------------------- *)
Lemma quiet_run : forall (P : state -> event -> Prop) (I : state -> Prop),
  (forall s e, I s -> P s e -> I (step s e)) ->
  forall evs s, I s -> quiet P s evs -> I (run s evs).
Proof.
  intros P I Hstep. induction evs; intros s Hi Hq; cbn in *; [exact Hi|].
  destruct Hq as [Hp Hq]. apply IHevs; [|exact Hq]. now apply Hstep.
Qed.

(* join notification *)
Definition in_join_notify (t0 cid : Z) (s : state) : Prop :=
  inv s /\ vst s = Standalone /\ js s = JNotify /\ j_started s = Some t0 /\ j_target s = Some cid.

Lemma join_notify_step : forall t0 cid s e,
  in_join_notify t0 cid s -> join_undisturbed t0 s e -> in_join_notify t0 cid (step s e).
Proof.
  intros t0 cid s e (I & V & J & S & T) (W & D & A). split; [now apply inv_step|].
  clear I W. destruct e; try contradiction.
  8: { (* rx *)
    pose proof (ctrl_rx_standalone v s V ltac:(congruence)) as E. unfold ctrl in E.
    unfold step, step_ret. cbn [fst]. repeat split; congruence. }
  all: destr_state s; cbn in *; subst; unfold step, step_ret; cbn; try (repeat split; reflexivity).
  all: try (unfold try_create; cbn; repeat split; reflexivity).
  all: try (unfold breakup; cbn; repeat split; reflexivity).
  unfold update, expire_tables, update_standalone, leave_timeout. cbn.
  destruct (time_cluster_join_notification <=? nw - t0) eqn:E; [lia|]. cbn.
  destruct l; destruct lst; cbn; repeat (break_if; cbn); repeat split; reflexivity.
Qed.

Lemma quarter_steps_range : forall total elapsed, 1 <= quarter_steps total elapsed <= delta_time_cap.
Proof.
  intros. unfold quarter_steps. pose proof consts_facts. lia.
Qed.

Lemma join_notify_duration : forall s t0 cid, reachable s ->
  js s = JNotify -> j_started s = Some t0 -> j_target s = Some cid ->
  forall mid, quiet (join_undisturbed t0) s mid ->
  let s2 := run s mid in
  vst s2 = Standalone /\ should_transmit s2 = true /\
  (exists q, op_container s2 = OpJoin cid q /\ 1 <= q <= delta_time_cap) /\
  (time_cluster_join_notification <= now s2 - t0 ->
     let s3 := update s2 in
     vst s3 = Standalone /\ js s3 = JWaiting /\ j_target s3 = Some cid /\ j_started s3 = Some (now s2) /\
     op_container s3 = OpNone /\ should_transmit s3 = true).
Proof.
  intros s t0 cid R J S T mid Q s2.
  assert (V : vst s = Standalone) by (apply no_assert_fails in R; destruct R as (R & _); apply R; auto).
  assert (P : in_join_notify t0 cid s2).
  { apply (quiet_run (join_undisturbed t0) (in_join_notify t0 cid)); [apply join_notify_step| |exact Q].
    repeat split; try assumption. now apply reachable_inv. }
  clearbody s2. destruct P as (I & V2 & J2 & S2 & T2).
  split; [exact V2|]. split; [now apply standalone_transmits|]. split.
  - unfold op_container. rewrite V2, J2, T2. cbn. eexists. split; [reflexivity|]. apply quarter_steps_range.
  - intros D s3. unfold s3.
    unfold inv in I. rewrite V2 in I. destruct I as (_ & _ & JO & _). unfold join_ok in JO. rewrite J2 in JO.
    destruct JO as (_ & _ & LS).
    destr_state s2. cbn in *. subst.
    unfold update, expire_tables, update_standalone, leave_timeout. cbn.
    destruct (time_cluster_join_notification <=? nw - t0) eqn:E; [|lia]. cbn. repeat split; reflexivity.
Qed.

Lemma join_notify_starts : forall s cid, reachable s ->
  (snd (initiate_join cid s) = true <-> vst s = Standalone /\ js s = JNone /\ ls s = LNone) /\
  (snd (initiate_join cid s) = true ->
     let s1 := fst (initiate_join cid s) in
     js s1 = JNotify /\ j_started s1 = Some (now s) /\ j_target s1 = Some cid /\ now s1 = now s).
Proof.
  intros s cid R. destr_state s. unfold initiate_join. cbn.
  destruct st; destruct j; destruct l; cbn; split; try split; intros; try discriminate;
    try (repeat split; reflexivity); try tauto;
    match goal with H : _ /\ _ /\ _ |- _ => destruct H as (? & ? & ?); discriminate end.
Qed.

(* leave notification after leaving a cluster *)
Definition in_leave_notify (t0 : Z) (lc lr : option Z) (s : state) : Prop :=
  inv s /\ vst s = Standalone /\ ls s = LNotify /\ l_started s = Some t0 /\ l_cluster s = lc /\ l_reason s = lr
  /\ js s = JNone.

Lemma leave_notify_step : forall t0 lc lr s e,
  in_leave_notify t0 lc lr s -> leave_undisturbed t0 s e -> in_leave_notify t0 lc lr (step s e).
Proof.
  intros t0 lc0 lr0 s e (I & V & L & S & C & Rn & J) (W & D & A). split; [now apply inv_step|].
  clear I W. destruct e; try contradiction.
  10: { (* rx *)
    pose proof (ctrl_rx_standalone v s V ltac:(congruence)) as E. unfold ctrl in E.
    unfold step, step_ret. cbn [fst]. repeat split; congruence. }
  all: destr_state s; cbn in *; subst; unfold step, step_ret; cbn; try (repeat split; reflexivity).
  all: try (unfold try_create; cbn; repeat split; reflexivity).
  all: try (unfold breakup; cbn; repeat split; reflexivity).
  unfold update, expire_tables, update_standalone, leave_timeout. cbn.
  destruct (time_cluster_leave_notification <=? nw - t0) eqn:E; [lia|]. cbn. repeat split; reflexivity.
Qed.

Lemma leave_notify_duration : forall s t0, reachable s -> ls s = LNotify -> l_started s = Some t0 ->
  forall mid, quiet (leave_undisturbed t0) s mid ->
  let s2 := run s mid in
  vst s2 = Standalone /\ should_transmit s2 = true /\
  op_container s2 = OpLeave (or0 (l_cluster s)) (or0 (l_reason s)) /\
  (time_cluster_leave_notification <= now s2 - t0 ->
     let s3 := update s2 in vst s3 = Standalone /\ ls s3 = LNone /\ op_container s3 = OpNone /\ should_transmit s3 = true).
Proof.
  intros s t0 R L S mid Q s2.
  assert (I : inv s) by now apply reachable_inv.
  assert (V : vst s = Standalone) by (apply no_assert_fails in R; destruct R as (_ & _ & R); apply R; exact L).
  assert (J : js s = JNone).
  { pose proof I as I'. unfold inv in I'. rewrite V in I'. destruct I' as (_ & _ & _ & LO).
    unfold leave_ok in LO. rewrite L in LO. tauto. }
  assert (P0 : in_leave_notify t0 (l_cluster s) (l_reason s) s) by (repeat split; auto).
  assert (P : in_leave_notify t0 (l_cluster s) (l_reason s) s2).
  { apply (quiet_run (leave_undisturbed t0) (in_leave_notify t0 (l_cluster s) (l_reason s)));
      [apply leave_notify_step|exact P0|exact Q]. }
  clearbody s2. destruct P as (I2 & V2 & L2 & S2 & C2 & R2 & J2).
  split; [exact V2|]. split; [now apply standalone_transmits|]. split.
  - unfold op_container, leave_container. rewrite V2, J2, L2, C2, R2. reflexivity.
  - intros D s3. unfold s3. destr_state s2. cbn in *. subst.
    unfold update, expire_tables, update_standalone, leave_timeout. cbn.
    destruct (time_cluster_leave_notification <=? nw - t0) eqn:E; [|lia]. cbn. repeat split; reflexivity.
Qed.

(* every way out of a cluster starts the leave notification *)
Lemma leave_notify_starts : forall s c, reachable s -> vst s = Passive -> joined s = Some c ->
  (forall r, let s1 := step s (Leave r) in
     ls s1 = LNotify /\ l_started s1 = Some (now s) /\ l_cluster s1 = Some c /\ l_reason s1 = Some r) /\
  (forall t, last_leader s = Some t -> time_cluster_continuity <= now s - t ->
     let s1 := step s Update in
     ls s1 = LNotify /\ l_started s1 = Some (now s) /\ l_cluster s1 = Some c /\ l_reason s1 = Some lr_leader_lost) /\
  (forall v r, leader s = Some (sender v) -> op_breakup v = Some r -> r <> br_cpm ->
     let s1 := step s (Rx v) in
     ls s1 = LNotify /\ l_started s1 = Some (now s) /\ l_cluster s1 = Some c /\ l_reason s1 = Some lr_disbanded).
Proof.
  intros s c R P J. split; [|split].
  - intros r s1. unfold s1, step, step_ret, leave. cbn [fst]. rewrite P.
    destruct (do_leave_fields r s) as (_ & L1 & L2 & L3 & L4 & _). repeat split; congruence.
  - intros t T D s1. unfold s1, step, step_ret. cbn [fst].
    unfold update. rewrite vst_expire_tables, P. unfold update_passive.
    assert (E : ctrl (expire_tables s) = ctrl s) by (destr_state s; reflexivity).
    assert (T' : last_leader (expire_tables s) = Some t) by (unfold ctrl in E; congruence).
    assert (N' : now (expire_tables s) = now s) by (unfold ctrl in E; congruence).
    assert (J' : joined (expire_tables s) = Some c) by (unfold ctrl in E; congruence).
    rewrite T', N'. destruct (time_cluster_continuity <=? now s - t) eqn:X; [|lia].
    destruct (do_leave_fields lr_leader_lost (expire_tables s)) as (_ & L1 & L2 & L3 & L4 & _).
    repeat split; congruence.
  - intros v r L B N s1. destruct (rx_breakup_by_leader s v r P L B N) as (s1' & E & RX).
    unfold s1, step, step_ret. cbn [fst]. rewrite RX.
    assert (N' : now s1' = now s) by (unfold ctrl in E; congruence).
    assert (J' : joined s1' = Some c) by (unfold ctrl in E; congruence).
    destruct (do_leave_fields lr_disbanded s1') as (_ & L1 & L2 & L3 & L4 & _).
    repeat split; congruence.
Qed.

(* leave notification after a cancelled or failed join *)
Definition in_join_leave_notify (t0 : Z) (jt jr : option Z) (s : state) : Prop :=
  inv s /\ vst s = Standalone /\ (js s = JCancelled \/ js s = JFailed) /\ jl_started s = Some t0
  /\ j_target s = jt /\ jl_reason s = jr.

Lemma join_leave_notify_step : forall t0 jt jr s e,
  in_join_leave_notify t0 jt jr s -> leave_undisturbed t0 s e -> in_join_leave_notify t0 jt jr (step s e).
Proof.
  intros t0 jt0 jr0 s e (I & V & J & S & T & Rn) (W & D & A). split; [now apply inv_step|].
  clear I W. destruct e; try contradiction.
  10: { (* rx *)
    pose proof (ctrl_rx_standalone v s V ltac:(destruct J; congruence)) as E. unfold ctrl in E.
    unfold step, step_ret. cbn [fst]. repeat split; try congruence; try (destruct J; [left|right]; congruence). }
  all: destr_state s; cbn in *; subst; destruct J; subst; unfold step, step_ret; cbn;
    try (repeat split; auto; reflexivity).
  all: try (unfold try_create; cbn; repeat split; auto; fail).
  all: try (unfold breakup; cbn; repeat split; auto; fail).
  all: unfold update, expire_tables, update_standalone, leave_timeout; cbn;
    (destruct (time_cluster_leave_notification <=? nw - t0) eqn:E; [lia|]); cbn;
    destruct l; destruct lst; cbn; repeat (break_if; cbn); repeat split; auto.
Qed.

Lemma join_leave_notify_duration : forall s t0, reachable s -> js s = JCancelled \/ js s = JFailed ->
  jl_started s = Some t0 ->
  forall mid, quiet (leave_undisturbed t0) s mid ->
  let s2 := run s mid in
  vst s2 = Standalone /\ should_transmit s2 = true /\
  op_container s2 = OpLeave (or0 (j_target s)) (or0 (jl_reason s)) /\
  (time_cluster_leave_notification <= now s2 - t0 ->
     let s3 := update s2 in vst s3 = Standalone /\ js s3 = JNone /\ op_container s3 = OpNone /\ should_transmit s3 = true).
Proof.
  intros s t0 R J S mid Q s2.
  assert (I : inv s) by now apply reachable_inv.
  assert (V : vst s = Standalone) by (apply no_assert_fails in R; destruct R as (_ & R & _); apply R; auto).
  assert (P : in_join_leave_notify t0 (j_target s) (jl_reason s) s2).
  { apply (quiet_run (leave_undisturbed t0) (in_join_leave_notify t0 (j_target s) (jl_reason s)));
      [apply join_leave_notify_step| |exact Q]. repeat split; auto. }
  clearbody s2. destruct P as (I2 & V2 & J2 & S2 & T2 & R2).
  split; [exact V2|]. split; [now apply standalone_transmits|]. split.
  - unfold op_container. rewrite V2, T2, R2. destruct J2 as [-> | ->]; reflexivity.
  - intros D s3. unfold s3.
    unfold inv in I2. rewrite V2 in I2. destruct I2 as (_ & _ & JO & _). unfold join_ok in JO.
    destr_state s2. cbn in *. subst.
    unfold update, expire_tables, update_standalone, leave_timeout. cbn.
    destruct J2; subst; cbn in *; destruct JO as (_ & ->);
      (destruct (time_cluster_leave_notification <=? nw - t0) eqn:E; [|lia]); cbn; repeat split; reflexivity.
Qed.

Lemma join_leave_notify_starts : forall s, reachable s -> js s = JNotify \/ js s = JWaiting ->
  (let s1 := step s CancelJoin in
   js s1 = JCancelled /\ jl_started s1 = Some (now s) /\ j_target s1 = j_target s /\ jl_reason s1 = Some lr_cancelled_join) /\
  (js s = JWaiting -> forall t, j_started s = Some t -> time_cluster_join_success <= now s - t ->
   let s1 := step s Update in
   js s1 = JFailed /\ jl_started s1 = Some (now s) /\ j_target s1 = j_target s /\ jl_reason s1 = Some lr_failed_join).
Proof.
  intros s R J.
  assert (V : vst s = Standalone) by (apply no_assert_fails in R; destruct R as (R & _); apply R; auto).
  apply reachable_inv in R. unfold inv in R. rewrite V in R. destruct R as (_ & _ & JO & _). unfold join_ok in JO.
  destr_state s. cbn in *. subst. split.
  - destruct J; subst; unfold step, step_ret, cancel_join; cbn; repeat split; reflexivity.
  - intros W t S D. subst. cbn in JO. destruct JO as (_ & _ & ->).
    unfold step, step_ret, update, expire_tables, update_standalone, confirm_join_failed, leave_timeout. cbn.
    destruct (time_cluster_join_success <=? nw - t) eqn:E; [|lia]. cbn. repeat split; reflexivity.
Qed.

(* break-up warning of a leader *)
Definition in_breakup_warning (t0 : Z) (r : option Z) (s : state) : Prop :=
  inv s /\ vst s = Leader /\ exists c, cluster s = Some c /\ c_bk_started c = Some t0 /\ c_bk_reason c = r.

Lemma breakup_warning_step : forall t0 r s e,
  in_breakup_warning t0 r s -> breakup_undisturbed t0 s e -> in_breakup_warning t0 r (step s e).
Proof.
  intros t0 r s e (I & V & c & C & S & Rn) (W & D & A). split; [now apply inv_step|].
  assert (JN : js s = JNone) by (unfold inv in I; rewrite V in I; tauto).
  clear I W. destruct e; try contradiction.
  10: { (* rx *)
    destruct (rx_leader v s c V C) as (V' & _ & c' & C' & _ & S' & R').
    unfold step, step_ret. cbn [fst]. split; [exact V'|]. exists c'. repeat split; congruence. }
  all: destr_state s; cbn in *; subst; unfold step, step_ret; cbn;
    try (split; [reflexivity|]; exists c; repeat split; (reflexivity || assumption)).
  all: try (unfold breakup; cbn; rewrite S; cbn; split; [reflexivity|]; exists c; repeat split;
            (reflexivity || assumption)).
  unfold update, expire_tables, update_leader. cbn. rewrite S.
  destruct (time_cluster_breakup_warning <=? nw - t0) eqn:E; [lia|]. cbn.
  split; [reflexivity|]. exists c. repeat split; (reflexivity || assumption).
Qed.

Lemma breakup_warning_duration : forall s c t0, reachable s -> cluster s = Some c -> c_bk_started c = Some t0 ->
  forall mid, quiet (breakup_undisturbed t0) s mid ->
  let s2 := run s mid in
  vst s2 = Leader /\ should_transmit s2 = true /\ info_container s2 <> None /\
  (exists q, op_container s2 = OpBreakup (or0 (c_bk_reason c)) q /\ 1 <= q <= delta_time_cap) /\
  (time_cluster_breakup_warning <= now s2 - t0 ->
     let s3 := update s2 in
     vst s3 = Standalone /\ cluster s3 = None /\ should_transmit s3 = true /\ info_container s3 = None).
Proof.
  intros s c t0 R C S mid Q s2.
  assert (I : inv s) by now apply reachable_inv.
  assert (V : vst s = Leader).
  { destruct (cluster_inv s R) as (_ & _ & _ & NL).
    destruct (vst s) eqn:E; try reflexivity; rewrite NL in C; congruence. }
  assert (P : in_breakup_warning t0 (c_bk_reason c) s2).
  { apply (quiet_run (breakup_undisturbed t0) (in_breakup_warning t0 (c_bk_reason c)));
      [apply breakup_warning_step| |exact Q]. split; [exact I|]. split; [exact V|]. exists c. auto. }
  clearbody s2. destruct P as (I2 & V2 & c2 & C2 & S2 & R2).
  split; [exact V2|]. split; [unfold should_transmit; now rewrite V2|]. split.
  { unfold info_container. rewrite V2, C2. discriminate. }
  split.
  - unfold op_container. rewrite V2, C2, S2, R2. eexists. split; [reflexivity|]. apply quarter_steps_range.
  - intros D s3. unfold s3. destr_state s2. cbn in *. subst.
    unfold update, expire_tables, update_leader. cbn. rewrite S2.
    destruct (time_cluster_breakup_warning <=? nw - t0) eqn:E; [|lia]. cbn. repeat split; reflexivity.
Qed.

Lemma breakup_warning_starts : forall s r, reachable s ->
  (snd (breakup r s) = true <-> vst s = Leader /\ exists c, cluster s = Some c /\ c_bk_started c = None) /\
  (snd (breakup r s) = true ->
     let s1 := fst (breakup r s) in
     now s1 = now s /\ exists c, cluster s1 = Some c /\ c_bk_started c = Some (now s) /\ c_bk_reason c = Some r).
Proof.
  intros s r R. destruct (cluster_inv s R) as (LD & _ & _ & NL).
  destr_state s. unfold breakup. cbn in *.
  destruct st; cbn; try (split; [split; [discriminate|intros (X & _); discriminate]|discriminate]).
  destruct cl as [c|]; cbn.
  - destruct (c_bk_started c) eqn:E; cbn; split; try discriminate.
    + split; [discriminate|]. intros (_ & c' & C' & N). inversion C'; subst. congruence.
    + split; [intros _; split; [reflexivity|]; exists c; auto|reflexivity].
    + intros _. split; [reflexivity|]. eexists. split; [reflexivity|]. cbn. auto.
  - exfalso. destruct LD as (LD & _). destruct (LD eq_refl) as (c & X & _). discriminate.
Qed.

(* ---- concrete runs: witnesses and non-vacuity ------------------------------------------- *)
Definition plain (sd : Z) : vam := mkVam sd true None None None None.
Definition ex_passive : state :=
  run (init 1 0 1024) [InitiateJoin 7; Tick 3072; Update; Rx (mkVam 50 true (Some (Some 7, 2)) None None None)].
Definition ex_cpm_vam : vam := mkVam 50 true None None None (Some br_cpm).
Definition ex_leader : state :=
  run (init 1 0 1024) [Rx (plain 100); Rx (plain 101); Rx (plain 102); TryCreate [7]].

Ltac wf_events := repeat (apply Forall_cons || apply Forall_nil); cbn; try exact I; try lia.

Lemma ex_passive_reachable : reachable ex_passive.
Proof. apply reachable_run; [apply reachable_init|]. wf_events. Qed.

Lemma ex_leader_reachable : reachable ex_leader.
Proof. apply reachable_run; [apply reachable_init|]. wf_events. Qed.

Lemma ex_passive_facts :
  vst ex_passive = Passive /\ leader ex_passive = Some (sender ex_cpm_vam) /\
  op_breakup ex_cpm_vam = Some br_cpm /\
  vst (rx ex_cpm_vam ex_passive) = Passive /\ should_transmit (rx ex_cpm_vam ex_passive) = false /\
  vst (step (step (rx ex_cpm_vam ex_passive) (Tick 103)) Update) = Passive.
Proof. vm_compute. repeat split. Qed.

Lemma ex_leader_facts :
  vst ex_leader = Leader /\ info_container ex_leader = Some (7, 5, 1, 128) /\
  snd (breakup 1 ex_leader) = true /\ should_transmit ex_leader = true.
Proof. vm_compute. repeat split. Qed.

Lemma ex_phases :
  (let s := run (init 1 0 1024) [InitiateJoin 7; Tick 1000] in
   js s = JNotify /\ op_container s = OpJoin 7 8) /\
  (let s := run (init 1 0 1024) [InitiateJoin 7; Tick 3072; Update] in js s = JWaiting /\ should_transmit s = true) /\
  (let s := run ex_passive [Leave 8; Tick 500] in ls s = LNotify /\ op_container s = OpLeave 7 8) /\
  (let s := run ex_passive [Tick 2048; Update] in vst s = Standalone /\ op_container s = OpLeave 7 lr_leader_lost) /\
  (let s := run ex_leader [Breakup 1; Tick 3000] in op_container s = OpBreakup 1 1) /\
  (let s := run ex_leader [Breakup 1; Tick 3072; Update] in vst s = Standalone /\ cluster s = None) /\
  (let s := run (init 1 0 1024) [InitiateJoin 7; CancelJoin] in op_container s = OpLeave 7 lr_cancelled_join).
Proof. vm_compute. repeat split. Qed.

(* After a break-up with the CPM reason the member stays passive for as long as the former
   leader's station keeps sending VAMs of any kind (here: one plain VAM per second). *)
Fixpoint cpm_cycle (n : nat) : list event :=
  match n with O => [] | S k => Tick 1024 :: Rx (plain 50) :: Update :: cpm_cycle k end.

Definition silenced (s : state) : Prop :=
  vst s = Passive /\ leader s = Some 50 /\ last_leader s = Some (now s) /\ joined s = Some 7 /\ ls s = LNone.

Lemma silenced_cycle : forall s, silenced s -> silenced (run s [Tick 1024; Rx (plain 50); Update]).
Proof.
  intros s (V & L & T & J & LS).
  change (silenced (update (rx (plain 50) (set_now (now s + 1024) s)))).
  set (s1 := set_now (now s + 1024) s).
  assert (C1 : vst s1 = Passive /\ leader s1 = Some 50 /\ joined s1 = Some 7 /\ ls s1 = LNone)
    by (destr_state s; cbn in *; auto).
  destruct C1 as (V1 & L1 & J1 & LS1). clearbody s1.
  destruct (rx_passive (plain 50) s1 V1) as (s2 & E & RX). rewrite RX.
  rewrite rx_breakup_none by reflexivity.
  assert (V2 : vst s2 = Passive) by (unfold ctrl in E; congruence).
  assert (L2 : leader s2 = Some 50) by (unfold ctrl in E; congruence).
  assert (J2 : joined s2 = Some 7) by (unfold ctrl in E; congruence).
  assert (LS2 : ls s2 = LNone) by (unfold ctrl in E; congruence).
  rewrite rx_heartbeat_passive by exact V2. rewrite L2. change (opt_eqb (Some 50) (sender (plain 50))) with true.
  cbv iota. clear E RX. destr_state s2. cbn in V2, L2, J2, LS2. subst.
  unfold silenced, update, expire_tables, update_passive, leave_timeout. cbn.
  destruct (time_cluster_continuity <=? nw - nw) eqn:X.
  - pose proof consts_facts. lia.
  - cbn. repeat split; reflexivity.
Qed.

Lemma cpm_breakup_silence_unbounded : forall n,
  let s := run (rx ex_cpm_vam ex_passive) (cpm_cycle n) in vst s = Passive /\ should_transmit s = false.
Proof.
  assert (G : forall n s, silenced s -> silenced (run s (cpm_cycle n))).
  { induction n; intros s H; [exact H|].
    change (cpm_cycle (S n)) with ([Tick 1024; Rx (plain 50); Update] ++ cpm_cycle n).
    unfold run. rewrite fold_left_app. apply IHn. now apply silenced_cycle. }
  intros n s.
  assert (S0 : silenced (rx ex_cpm_vam ex_passive)) by (vm_compute; repeat split).
  destruct (G n _ S0) as (V & _ & _ & _ & LS). fold s in V, LS.
  split; [exact V|]. unfold should_transmit. now rewrite V, LS.
Qed.
