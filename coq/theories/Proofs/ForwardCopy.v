(* C06: a forwarded TSB packet is, octet for octet, the received packet with the RHL octet decremented -
   for every conformant received packet (reserved bits zero).  Re-encoding a decoded header is the identity. *)
From FlexVerif Require Import Base.Prelude Base.Bits Base.BitsFacts Model.Lifetime Model.Wire Model.LocT Model.Router
  Proofs.WireProofs Proofs.LocTProofs Proofs.RouterProofs.
From Coq Require Import ZifyBool.

Lemma skipn_skipn_nat {A} (x y : nat) (l : list A) : skipn x (skipn y l) = skipn (y + x) l.
Proof. revert l. induction y as [|y IH]; intros l; cbn; [reflexivity|]. destruct l; [destruct x; reflexivity | apply IH]. Qed.

Lemma wf_bytes_skipn n : forall l, wf_bytes l = true -> wf_bytes (skipn n l) = true.
Proof.
  induction n as [|n IH]; intros l H; [exact H|]. destruct l as [|x l]; [exact H|].
  cbn [skipn]. apply IH. unfold wf_bytes in *. cbn [forallb] in H. apply andb_true_iff in H as [_ H]. exact H.
Qed.

(* the basic header octets in closed form *)
Lemma enc_basic_bytes v n s m b r :
  fits 4 v = true -> fits 4 n = true -> fits 8 s = true -> fits 6 m = true -> fits 2 b = true -> fits 8 r = true ->
  enc_basic [v; n; s; m; b; r] = [v * 16 + n; s; m * 4 + b; r].
Proof.
  intros Hv Hn Hs Hm Hb Hr. apply fits_elim in Hv, Hn, Hs, Hm, Hb, Hr.
  change (2 ^ 4) with 16 in *. change (2 ^ 8) with 256 in *. change (2 ^ 6) with 64 in *. change (2 ^ 2) with 4 in *.
  set (L := [v * 16 + n; s; m * 4 + b; r]).
  assert (W : wf_bytes L = true) by (unfold L, wf_bytes, is_byte; cbn [forallb]; lia).
  rewrite <- (to_of_bytes L W). unfold enc_basic, enc_fields. change (hdr_bytes basic_ws) with 4%nat.
  change (length L) with 4%nat. f_equal.
  unfold pack, of_bytes, pack, L, basic_ws. cbn [combine map fold_left pack_step fst snd].
  unfold pack_step. cbn [fst snd].
  change (2 ^ 4) with 16. change (2 ^ 8) with 256. change (2 ^ 6) with 64. change (2 ^ 2) with 4. ring.
Qed.

Lemma dec_basic_fits pkt bv : wf_bytes pkt = true -> dec_basic pkt = Some bv ->
  all_fit basic_ws bv = true /\ enc_basic bv = firstn 4 pkt.
Proof.
  intros W. unfold dec_basic, obind. destruct (dec_fields basic_ws pkt) as [r|] eqn:D; [|discriminate].
  unfold view_basic. destruct (arg 1 r <=? 2); [|discriminate]. intros E. injection E as <-.
  destruct (enc_dec_fields basic_ws pkt r ltac:(repeat constructor; lia) eq_refl W D) as [E F].
  split; [exact F | exact E].
Qed.

(* changing the RHL field changes exactly the fourth octet *)
Theorem basic_header_rhl_only pkt bv r' : wf_bytes pkt = true -> dec_basic pkt = Some bv -> fits 8 r' = true ->
  enc_basic (bv_rhl bv r') = firstn 3 pkt ++ [r'].
Proof.
  intros W D Hr. destruct (dec_basic_fits pkt bv W D) as [F E].
  assert (L6 : length bv = 6%nat) by (apply all_fit_length in F; cbn in F; lia).
  destruct bv as [|v [|n [|s [|m [|b [|r [|? ?]]]]]]]; try discriminate.
  unfold basic_ws in F. cbn [all_fit] in F.
  repeat match type of F with _ && _ = true => apply andb_true_iff in F as [? F] end.
  unfold bv_rhl, arg. cbn [nth].
  apply fits_elim in Hr. rewrite (Z.mod_small r' 256) by (cbn in Hr; lia).
  rewrite enc_basic_bytes by (auto; apply fits_true; exact Hr).
  rewrite enc_basic_bytes in E by auto.
  destruct pkt as [|p0 [|p1 [|p2 [|p3 rest]]]]; cbn [firstn] in E; try discriminate.
  injection E as -> -> -> _. reflexivity.
Qed.

(* common header: re-encoding the decoded view gives back the octets when the reserved bits are zero *)
Definition common_conformant (bs : list Z) : Prop :=
  exists r, dec_fields common_ws bs = Some r /\ arg 1 r = 0 /\ (arg 7 r = 0 \/ arg 7 r = 128) /\ arg 10 r = 0.

Lemma common_reencode bs cv : wf_bytes bs = true -> common_conformant bs -> dec_common bs = Some cv ->
  enc_common cv = firstn 8 bs.
Proof.
  intros W (r & D & R1 & R7 & R10). unfold dec_common, obind. rewrite D. unfold view_common.
  destruct ((arg 0 r <=? 3) && (arg 2 r <=? 6) && hst_ok (arg 2 r) (arg 3 r)); [|discriminate].
  intros E. injection E as <-.
  destruct (enc_dec_fields common_ws bs r ltac:(repeat constructor; lia) eq_refl W D) as [E F].
  assert (L : length r = 11%nat) by (apply all_fit_length in F; cbn in F; lia).
  destruct r as [|r0 [|r1 [|r2 [|r3 [|r4 [|r5 [|r6 [|r7 [|r8 [|r9 [|r10 [|? ?]]]]]]]]]]]]; try discriminate.
  unfold arg in *. cbn [nth] in *. subst r1 r10.
  unfold enc_common, raw_common, arg. cbn [nth]. change (0 / 16) with 0. change (0 mod 16) with 0. rewrite Z.lor_0_r.
  change (hdr_bytes common_ws) with 8%nat in E. rewrite <- E. f_equal. repeat f_equal. destruct R7 as [-> | ->]; reflexivity.
Qed.

(* long position vector *)
Definition lpv_conformant (bs : list Z) : Prop := exists r, dec_fields lpv_ws bs = Some r /\ arg 2 r = 0.

Lemma lpv_reencode bs pv : wf_bytes bs = true -> lpv_conformant bs -> dec_lpv bs = Some pv -> enc_lpv pv = firstn 24 bs.
Proof.
  intros W (r & D & R2).
  destruct (enc_dec_fields lpv_ws bs r ltac:(repeat constructor; lia) eq_refl W D) as [E F].
  change (hdr_bytes lpv_ws) with 24%nat in E. set (target := firstn 24 bs) in *.
  unfold dec_lpv, obind. rewrite D.
  assert (L : length r = 10%nat) by (apply all_fit_length in F; cbn in F; lia).
  destruct r as [|r0 [|r1 [|r2 [|r3 [|r4 [|r5 [|r6 [|r7 [|r8 [|r9 [|? ?]]]]]]]]]]]; try discriminate.
  unfold arg in R2. cbn [nth] in R2. subst r2.
  unfold view_lpv, view_gnaddr, arg. cbn [nth firstn app].
  destruct (r1 <=? 12); [|discriminate]. intros X. injection X as <-.
  unfold lpv_ws, gnaddr_ws in F. cbn [app all_fit] in F.
  repeat match type of F with _ && _ = true => apply andb_true_iff in F as [? F] end.
  unfold enc_lpv, raw_lpv, raw_gnaddr, arg. cbn [nth firstn app]. rewrite <- E. f_equal.
  repeat match goal with H : fits _ _ = true |- _ => apply fits_elim in H end.
  rewrite !unsigned_signed by lia. rewrite (Z.mod_small r4) by lia. reflexivity.
Qed.

(* TSB extended header = [sn; reserved] ++ LPV *)
Lemma tsb_reencode body h : wf_bytes body = true -> lpv_conformant (skipn 4 body) -> dec_tsb body = Some h ->
  enc_tsb h = firstn 28 body.
Proof.
  intros W C. unfold dec_tsb. destruct (Nat.ltb_spec (length body) 28) as [?|Hl]; [discriminate|]. unfold obind.
  destruct (dec_fields sn_ws body) as [hd|] eqn:D; [|discriminate].
  destruct (dec_lpv (skipn 4 body)) as [pv|] eqn:P; [|discriminate]. intros E. injection E as <-.
  destruct (enc_dec_fields sn_ws body hd ltac:(repeat constructor; lia) eq_refl W D) as [E1 F1].
  assert (L2 : length hd = 2%nat) by (apply all_fit_length in F1; cbn in F1; lia).
  assert (W4 : wf_bytes (skipn 4 body) = true) by (apply wf_bytes_skipn; exact W).
  pose proof (lpv_reencode _ _ W4 C P) as E2.
  unfold enc_tsb. rewrite firstn_app_exact, skipn_app_exact by exact L2. rewrite E1, E2.
  change (hdr_bytes sn_ws) with 4%nat.
  rewrite <- (firstn_skipn 4 body) at 3. rewrite firstn_app, firstn_length.
  replace (Nat.min 4 (length body)) with 4%nat by lia. change (28 - 4)%nat with 24%nat.
  rewrite (firstn_all2 (n := 28) (firstn 4 body)) by (rewrite firstn_length; lia). reflexivity.
Qed.

(* the forwarded TSB packet *)
Theorem tsb_forward_is_copy m s now g pkt bv cv p :
  wf_bytes pkt = true -> (40 <= length pkt)%nat ->
  dec_basic pkt = Some bv -> dec_common (skipn 4 pkt) = Some cv -> arg 1 cv = 5 -> arg 2 cv = 1 ->
  common_conformant (skipn 4 pkt) -> lpv_conformant (skipn 16 pkt) ->
  In (OFwd p) (snd (rx m s now g pkt)) ->
  p = firstn 3 pkt ++ [arg 5 bv - 1] ++ skipn 4 pkt.
Proof.
  intros W Len Db Dc Ht Hst Cc Cl Hin.
  assert (Wsk : forall n, wf_bytes (skipn n pkt) = true) by (intros n; apply wf_bytes_skipn; exact W).
  destruct (forwarded_copy_has_rhl_minus_1 m s now g pkt bv p Db Hin) as [Hr _].
  destruct (dec_basic_fits pkt bv W Db) as [Fb _].
  assert (L6 : length bv = 6%nat) by (apply all_fit_length in Fb; cbn in Fb; lia).
  assert (Hr8 : fits 8 (arg 5 bv - 1) = true).
  { destruct bv as [|v [|n [|s0 [|m0 [|b [|r [|? ?]]]]]]]; try discriminate. unfold basic_ws in Fb. cbn [all_fit] in Fb.
    repeat match type of Fb with _ && _ = true => apply andb_true_iff in Fb as [? Fb] end.
    unfold arg in *. cbn [nth] in *. apply fits_true. match goal with H : fits 8 r = true |- _ => apply fits_elim in H; cbn in H |- * end. lia. }
  (* unfold the receive function down to the TSB forwarder *)
  unfold rx in Hin. cbv zeta in Hin. rewrite Db in Hin.
  destruct (negb (arg 0 bv =? 1)); [cbn [snd] in Hin; in_cases Hin; discriminate|].
  destruct (arg 1 bv =? 2); [cbn [snd] in Hin; in_cases Hin; discriminate|].
  destruct (negb (arg 1 bv =? 1)); [cbn [snd] in Hin; in_cases Hin; discriminate|].
  rewrite Dc in Hin. destruct (arg 8 cv <? arg 5 bv); [cbn [snd] in Hin; in_cases Hin; discriminate|].
  rewrite Ht, Hst in Hin. cbn [Z.eqb Pos.eqb] in Hin.
  unfold rx_tsb in Hin. cbv zeta in Hin.
  destruct (dec_tsb (skipn 12 pkt)) as [h|] eqn:Dt; [|cbn [snd] in Hin; in_cases Hin; discriminate].
  destruct (mid_eqb _ _); [cbn [snd] in Hin; in_cases Hin; discriminate|].
  destruct (rx_mh _ _ _ _ _ _); [|cbn [snd] in Hin; in_cases Hin; discriminate].
  cbn [snd] in Hin. destruct Hin as [Hin|Hin]; [discriminate|].
  destruct (negb (has_nb _) && z2b (arg 3 cv)); [destruct Hin|].
  unfold fwd_plain in Hin. destruct (0 <? arg 5 bv - 1); [|destruct Hin]. destruct Hin as [Hin|[]].
  assert (Ep : p = enc_basic (bv_rhl bv (arg 5 bv - 1)) ++ enc_common cv ++ enc_tsb h ++ skipn 28 (skipn 12 pkt)) by congruence.
  rewrite Ep. clear Hin Ep.
  rewrite (basic_header_rhl_only pkt bv _ W Db Hr8).
  rewrite (common_reencode _ _ (Wsk 4%nat) Cc Dc).
  assert (Cl' : lpv_conformant (skipn 4 (skipn 12 pkt))) by (rewrite skipn_skipn_nat; exact Cl).
  rewrite (tsb_reencode _ _ (Wsk 12%nat) Cl' Dt).
  rewrite <- app_assoc. f_equal. f_equal.
  (* firstn 8 (skipn 4) ++ firstn 28 (skipn 12) ++ skipn 28 (skipn 12) = skipn 4 *)
  rewrite (firstn_skipn 28 (skipn 12 pkt)).
  replace (skipn 12 pkt) with (skipn 8 (skipn 4 pkt)) by (rewrite skipn_skipn_nat; reflexivity).
  apply firstn_skipn.
Qed.
