(* C19 - lemmas about the adaptive DCC model (clause 5.4). *)
From Coq Require Import ZArith QArith Qabs Qminmax List Bool Lia Lqa.
From FlexVerif Require Import Gen.C19Consts Model.Dcc Model.DccSpec Proofs.DccProofs.
Import ListNotations.
Open Scope Q_scope.
#[local] Opaque Qred.

(* ---- the equations respect == --------------------------------------------- *)
Lemma eq5_comp m d d' : d == d' -> eq5 m d == eq5 m d'.
Proof.
  intros H. unfold eq5. rewrite <- H at 1.
  destruct (d ?= m); [exact H | exact H | reflexivity].
Qed.

Lemma eq6_comp m d d' : d == d' -> eq6 m d == eq6 m d'.
Proof.
  intros H. unfold eq6. rewrite <- H at 1.
  destruct (d ?= m); [exact H | reflexivity | exact H].
Qed.

(* the if-forms of the code are the equations *)
Ltac cmp_cases C :=
  first [ apply Qeq_alt in C | apply Qlt_alt in C | apply Qgt_alt in C ].

Lemma if_is_eq5 m d : (if Qltb m d then m else d) = eq5 m d.
Proof.
  unfold eq5. destruct (d ?= m) eqn:C; cmp_cases C;
    destruct (Qltb m d) eqn:E; qhyps; try reflexivity; lra.
Qed.

Lemma if_is_eq6 m d : (if Qltb d m then m else d) = eq6 m d.
Proof.
  unfold eq6. destruct (d ?= m) eqn:C; cmp_cases C;
    destruct (Qltb d m) eqn:E; qhyps; try reflexivity; lra.
Qed.

Lemma offset_is_step2 beta target c up down :
  (if Qltb 0 (target - c) then pymin (beta * (target - c)) up else pymax (beta * (target - c)) down)
  == step2 beta target c up down.
Proof.
  unfold step2, eq2, eq3. destruct (target - c ?= 0) eqn:C; cmp_cases C;
    destruct (Qltb 0 (target - c)) eqn:E; qhyps;
    first [ apply pymin_Qmin | apply pymax_Qmax | lra ].
Qed.

Definition spec_of (p : aparams) (st : astate) (cl clp : Q) (g gp : option Q) : Q * Q :=
  adaptive_spec (p_alpha p) (p_beta p) (p_cbr_target p) (p_delta_max p) (p_delta_min p)
                (p_delta_up_max p) (p_delta_down_max p) (a_cbr_its st) (a_delta st) cl clp g gp.

Lemma adaptive_accepts p st cl clp g gp : 0 <= cl <= 1 -> 0 <= clp <= 1 ->
  exists st', adaptive_update p st cl clp g gp = Some st'.
Proof.
  intros H1 H2. apply cbr_in_range_true in H1, H2. unfold adaptive_update. rewrite H1, H2.
  cbn [negb]. eexists. reflexivity.
Qed.

Lemma adaptive_rejects p st cl clp g gp : (cl < 0 \/ 1 < cl) \/ (clp < 0 \/ 1 < clp) ->
  adaptive_update p st cl clp g gp = None.
Proof.
  intros [H | H]; apply cbr_in_range_false in H; unfold adaptive_update.
  - rewrite H. reflexivity.
  - destruct (cbr_in_range cl); cbn [negb]; [rewrite H|]; reflexivity.
Qed.

Lemma adaptive_formula p st cl clp g gp st' :
  adaptive_update p st cl clp g gp = Some st' ->
  a_cbr_its st' == fst (spec_of p st cl clp g gp) /\
  a_delta st' == snd (spec_of p st cl clp g gp).
Proof.
  unfold adaptive_update.
  destruct (cbr_in_range cl); cbn [negb]; [|discriminate].
  destruct (cbr_in_range clp); cbn [negb]; [|discriminate].
  intros H. injection H as <-. cbn [a_cbr_its a_delta].
  rewrite !Qred_correct.
  unfold spec_of, adaptive_spec.
  assert (Havg : (match g, gp with Some a, Some b => (a + b) / 2 | _, _ => (cl + clp) / 2 end)
                 = (fst (eq1_inputs cl clp g gp) + snd (eq1_inputs cl clp g gp)) / 2).
  { unfold eq1_inputs. destruct g, gp; reflexivity. }
  rewrite Havg. destruct (eq1_inputs cl clp g gp) as [c0 c1]. cbn [fst snd].
  split; [reflexivity|].
  rewrite if_is_eq6, if_is_eq5.
  apply eq6_comp, eq5_comp. unfold eq4.
  rewrite offset_is_step2. reflexivity.
Qed.

(* ---- range ----------------------------------------------------------------------- *)
Lemma adaptive_in_range p st cl clp g gp st' :
  p_delta_min p <= p_delta_max p ->
  adaptive_update p st cl clp g gp = Some st' ->
  p_delta_min p <= a_delta st' <= p_delta_max p.
Proof.
  intros Hmm. unfold adaptive_update.
  destruct (cbr_in_range cl); cbn [negb]; [|discriminate].
  destruct (cbr_in_range clp); cbn [negb]; [|discriminate].
  intros H. injection H as <-. cbn [a_delta]. rewrite Qred_correct.
  match goal with |- context [if Qltb (p_delta_max p) ?d then _ else _] => set (d0 := d) end.
  destruct (Qltb (p_delta_max p) d0) eqn:E1.
  - destruct (Qltb (p_delta_max p) (p_delta_min p)) eqn:E2; qhyps; lra.
  - destruct (Qltb d0 (p_delta_min p)) eqn:E2; qhyps; lra.
Qed.

(* every evaluation of a run: a rejected call leaves the state as it was, an accepted one yields a
   delta within [delta_min, delta_max] *)
Lemma adaptive_step_state p st i :
  snd (adaptive_step p st i) = false -> fst (adaptive_step p st i) = st.
Proof.
  destruct i as [[[cl clp] g] gp]. unfold adaptive_step.
  destruct (adaptive_update p st cl clp g gp); cbn; [discriminate | reflexivity].
Qed.

Lemma adaptive_run_in_range p : p_delta_min p <= p_delta_max p ->
  forall l st, p_delta_min p <= a_delta st <= p_delta_max p ->
  Forall (fun o => p_delta_min p <= a_delta (snd o) <= p_delta_max p) (adaptive_run p st l).
Proof.
  intros Hmm. induction l as [|i r IH]; intros st Hst; cbn [adaptive_run]; [constructor|].
  destruct i as [[[cl clp] g] gp]. unfold adaptive_step.
  destruct (adaptive_update p st cl clp g gp) as [st'|] eqn:E.
  - pose proof (adaptive_in_range _ _ _ _ _ _ _ Hmm E) as R.
    constructor; [exact R | apply IH; exact R].
  - constructor; [exact Hst | apply IH; exact Hst].
Qed.

Lemma adaptive_run_from_init p l : p_delta_min p <= p_delta_max p ->
  Forall (fun o => p_delta_min p <= a_delta (snd o) <= p_delta_max p) (adaptive_run p (adaptive_init p) l).
Proof.
  intros Hmm. apply adaptive_run_in_range; [exact Hmm|]. unfold adaptive_init; cbn [a_delta]. lra.
Qed.

(* non-vacuity: with the default parameters one evaluation at CBR 0.5 raises delta from delta_min by
   the clamped offset delta_up_max times ... (computed exactly) *)
Lemma adaptive_example :
  exists st', adaptive_update default_params (adaptive_init default_params) (1 # 2) (1 # 2) None None = Some st' /\
              a_cbr_its st' == 1 # 4 /\ p_delta_min default_params < a_delta st' /\
              a_delta st' < p_delta_max default_params.
Proof. eexists. split; [reflexivity|]. vm_compute. repeat split; congruence. Qed.
