(* Proofs about Model/LdmSub.v: what an attendance notifies, cadence, no callback after
   unsubscription / deregistration, isolation, refusal codes. *)
From FlexVerif Require Import Base.Prelude Model.LdmFilter Model.LdmSub Proofs.LdmFilterProofs.
From Coq Require Import ZifyBool.
Ltac Zify.zify_post_hook ::= Z.to_euclidean_division_equations.

(* ---- the attendance loop as a comprehension ------------------------------------------ *)

Lemma attend_one_spec s kept calls u :
  attend_one s (kept, calls) u =
  ((if registered s u then [after_attend s u] else []) ++ kept,
   (if due s u then [call_of s u] else []) ++ calls).
Proof.
  unfold attend_one, registered, after_attend, due, call_of.
  destruct (mem (u_app u) (conss s)); cbn [negb andb]; [|reflexivity].
  destruct (nonempty (data_of s u)); cbn [negb andb]; [|reflexivity].
  destruct (mult_ok u (length (data_of s u))); cbn [negb andb]; [|reflexivity].
  destruct (interval_ok (now s) u); reflexivity.
Qed.

Lemma attend_fold s l : forall kept calls,
  fold_left (attend_one s) l (kept, calls) =
  (rev (map (after_attend s) (filter (registered s) l)) ++ kept,
   rev (map (call_of s) (filter (due s) l)) ++ calls).
Proof.
  induction l as [|u l IH]; intros kept calls; cbn [fold_left filter map rev app]; [reflexivity|].
  rewrite attend_one_spec, IH.
  destruct (registered s u), (due s u); cbn [filter map rev app]; rewrite <- ?app_assoc; reflexivity.
Qed.

Lemma attend_spec s :
  attend s =
  (mkSt (store s) (next_idx s) (conss s) (map (after_attend s) (filter (registered s) (subs s)))
        (next_cb s) (now s) (last_attend s),
   map (call_of s) (filter (due s) (subs s))).
Proof.
  unfold attend. rewrite attend_fold, !app_nil_r, !rev_involutive. reflexivity.
Qed.

Lemma attend_view_attend s o : attends s o = true ->
  calls_of (step s o) = snd (attend (attend_view s o)).
Proof.
  destruct o; cbn [attends]; try discriminate; intros H; cbn [step attend_view].
  - destruct (500 <=? now s - last_attend s); [|discriminate].
    destruct (attend _) as [s2 calls]. reflexivity.
  - destruct (attend s) as [s1 calls]. reflexivity.
Qed.

(* ---- notify_exact ---------------------------------------------------------------------- *)
Theorem notify_exact s o :
  calls_of (step s o) =
  if attends s o
  then map (fun u => (u_cb u, map o_idx (query (store (attend_view s o)) (u_req u))))
           (filter (due (attend_view s o)) (subs (attend_view s o)))
  else [].
Proof.
  destruct (attends s o) eqn:E.
  - rewrite (attend_view_attend s o E), attend_spec. reflexivity.
  - destruct o; cbn [attends] in E; try discriminate; cbn [step]; try rewrite E;
      repeat match goal with |- context [if ?b then _ else _] => destruct b end; reflexivity.
Qed.

(* the objects of a notification: exactly the stored objects of the subscribed types that match the filter *)
Theorem notified_objects_exact s u ob :
  In ob (data_of s u) <->
  In ob (store s) /\ type_ok (q_types (u_req u)) ob = true /\ eval_flt (q_flt (u_req u)) ob = true.
Proof. apply query_exact. Qed.

Theorem notify_by_first_attendance s o u :
  attends s o = true -> In u (subs (attend_view s o)) -> due (attend_view s o) u = true ->
  In (u_cb u, map o_idx (query (store (attend_view s o)) (u_req u))) (calls_of (step s o)).
Proof.
  intros Ha Hin Hd. rewrite notify_exact, Ha.
  apply (in_map (fun u => (u_cb u, map o_idx (query (store (attend_view s o)) (u_req u))))).
  apply filter_In. now split.
Qed.

(* ---- subscriptions after a step ---------------------------------------------------------- *)

(* ---- the subscription list after one step -------------------------------------------------- *)

Lemma subs_view s o : subs (attend_view s o) = subs s.
Proof. destruct o; reflexivity. Qed.
Lemma conss_view s o : conss (attend_view s o) = conss s.
Proof. destruct o; reflexivity. Qed.
Lemma now_view s o : now (attend_view s o) = now s.
Proof. destruct o; reflexivity. Qed.

Lemma subs_step s o :
  subs (st_of (step s o)) =
  match o with
  | DeregCons aid => if mem aid (conss s) then filter (fun u => negb (u_app u =? aid)) (subs s) else subs s
  | Subscribe r => if validate s r =? 0 then subs s ++ [new_sub s r] else subs s
  | Unsubscribe aid key =>
      if negb (mem aid (conss s)) then subs s
      else if existsb (fun u => u_key u =? key) (subs s)
           then filter (fun u => negb (u_key u =? key)) (subs s) else subs s
  | AddObj _ _ | Attend =>
      if attends s o
      then map (after_attend (attend_view s o)) (filter (registered (attend_view s o)) (subs s))
      else subs s
  | _ => subs s
  end.
Proof.
  destruct o as [aid perms|aid|r|aid key|typ v|idx|ms|]; cbn [step attends].
  - destruct (reg_cons_ok aid perms); reflexivity.
  - destruct (mem aid (conss s)); reflexivity.
  - destruct (validate s r =? 0); reflexivity.
  - destruct (negb (mem aid (conss s))); [reflexivity|].
    destruct (existsb (fun u => u_key u =? key) (subs s)); reflexivity.
  - destruct (500 <=? now s - last_attend s); [|reflexivity].
    cbn [attend_view]. rewrite attend_spec. reflexivity.
  - destruct (existsb (fun o => o_idx o =? idx) (store s)); reflexivity.
  - reflexivity.
  - cbn [attend_view]. rewrite attend_spec. reflexivity.
Qed.

Lemma next_cb_step s o :
  next_cb (st_of (step s o)) =
  match o with Subscribe r => if validate s r =? 0 then next_cb s + 1 else next_cb s | _ => next_cb s end.
Proof.
  destruct o as [aid perms|aid|r|aid key|typ v|idx|ms|]; cbn [step].
  - destruct (reg_cons_ok aid perms); reflexivity.
  - destruct (mem aid (conss s)); reflexivity.
  - destruct (validate s r =? 0); reflexivity.
  - destruct (negb (mem aid (conss s))); [reflexivity|].
    destruct (existsb (fun u => u_key u =? key) (subs s)); reflexivity.
  - destruct (500 <=? now s - last_attend s); [|reflexivity]. rewrite attend_spec. reflexivity.
  - destruct (existsb (fun o => o_idx o =? idx) (store s)); reflexivity.
  - reflexivity.
  - rewrite attend_spec. reflexivity.
Qed.

Lemma after_attend_cb v u : u_cb (after_attend v u) = u_cb u.
Proof. unfold after_attend. destruct (due v u); reflexivity. Qed.
Lemma after_attend_key v u : u_key (after_attend v u) = u_key u.
Proof. unfold after_attend. destruct (due v u); reflexivity. Qed.
Lemma after_attend_app v u : u_app (after_attend v u) = u_app u.
Proof. unfold after_attend. destruct (due v u); reflexivity. Qed.

(* every subscription after a step is an old one (same callback, key, application) or the new one *)
Lemma step_origin s o u' : In u' (subs (st_of (step s o))) ->
  (exists u, In u (subs s) /\ u_cb u' = u_cb u /\ u_key u' = u_key u /\ u_app u' = u_app u) \/
  (exists r, o = Subscribe r /\ validate s r = 0 /\ u' = new_sub s r).
Proof.
  rewrite subs_step. intros H.
  assert (In u' (subs s) ->
          exists u, In u (subs s) /\ u_cb u' = u_cb u /\ u_key u' = u_key u /\ u_app u' = u_app u) as Hsame
    by (intros Hin; exists u'; repeat split; assumption).
  destruct o as [aid perms|aid|r|aid key|typ v|idx|ms|]; try (left; now apply Hsame).
  - destruct (mem aid (conss s)); [|left; now apply Hsame].
    apply filter_In in H. left. apply Hsame. tauto.
  - destruct (validate s r =? 0) eqn:E; [|left; now apply Hsame].
    apply in_app_or in H. destruct H as [H|[H|[]]]; [left; now apply Hsame|].
    right. exists r. repeat split; [lia|now symmetry].
  - destruct (negb (mem aid (conss s))); [left; now apply Hsame|].
    destruct (existsb (fun u => u_key u =? key) (subs s)); [|left; now apply Hsame].
    apply filter_In in H. left. apply Hsame. tauto.
  - destruct (attends s (AddObj typ v)); [|left; now apply Hsame].
    apply in_map_iff in H. destruct H as (u & <- & Hu). apply filter_In in Hu. left. exists u.
    rewrite after_attend_cb, after_attend_key, after_attend_app. tauto.
  - destruct (attends s Attend); [|left; now apply Hsame].
    apply in_map_iff in H. destruct H as (u & <- & Hu). apply filter_In in Hu. left. exists u.
    rewrite after_attend_cb, after_attend_key, after_attend_app. tauto.
Qed.

(* callbacks invoked by a step belong to subscriptions that were live before it *)
Lemma calls_origin s o c : In c (calls_of (step s o)) -> exists u, In u (subs s) /\ fst c = u_cb u.
Proof.
  rewrite notify_exact. destruct (attends s o); [|intros []].
  intros H. apply in_map_iff in H. destruct H as (u & <- & Hu). apply filter_In in Hu.
  rewrite subs_view in Hu. exists u. split; [tauto|reflexivity].
Qed.

(* ---- invariant: callback numbers are distinct and below next_cb ------------------------- *)
Definition inv (s : st) : Prop :=
  NoDup (map u_cb (subs s)) /\ Forall (fun u => u_cb u < next_cb s) (subs s).

Lemma NoDup_map_filter {A} (f : A -> Z) p l : NoDup (map f l) -> NoDup (map f (filter p l)).
Proof.
  induction l as [|x l IH]; cbn; [constructor|]. intros H. inversion H; subst.
  destruct (p x); cbn; [constructor|]; auto.
  intros Hin. apply H2. apply in_map_iff in Hin. destruct Hin as (y & E & Hy).
  apply filter_In in Hy. apply in_map_iff. exists y. tauto.
Qed.

Lemma NoDup_app_snoc (l : list Z) x : NoDup l -> ~ In x l -> NoDup (l ++ [x]).
Proof.
  induction l as [|y l IH]; cbn; intros Hn Hx.
  - constructor; [intros []|constructor].
  - inversion Hn; subst. constructor.
    + intros Hin. apply in_app_or in Hin. destruct Hin as [Hin|[E|[]]]; [contradiction|]. subst. apply Hx. now left.
    + apply IH; [assumption|]. intros Hin. apply Hx. now right.
Qed.

Lemma map_cb_after v l : map u_cb (map (after_attend v) l) = map u_cb l.
Proof. rewrite map_map. apply map_ext. intros u. apply after_attend_cb. Qed.

Lemma inv_step s o : inv s -> inv (st_of (step s o)).
Proof.
  intros [Hn Hf]. unfold inv. rewrite subs_step, next_cb_step.
  assert (forall p, Forall (fun u => u_cb u < next_cb s) (filter p (subs s))) as Hff.
  { intros p. apply Forall_forall. intros u Hu. apply filter_In in Hu.
    rewrite Forall_forall in Hf. apply Hf. tauto. }
  destruct o as [aid perms|aid|r|aid key|typ v|idx|ms|]; try (split; assumption).
  - destruct (mem aid (conss s)); [|split; assumption].
    split; [now apply NoDup_map_filter|apply Hff].
  - destruct (validate s r =? 0); [|split; assumption]. split.
    + rewrite map_app. cbn [map new_sub u_cb]. apply NoDup_app_snoc; [assumption|].
      intros Hin. apply in_map_iff in Hin. destruct Hin as (u & E & Hu).
      rewrite Forall_forall in Hf. specialize (Hf u Hu). lia.
    + apply Forall_app. split.
      * eapply Forall_impl; [|exact Hf]. cbn. intros; lia.
      * constructor; [cbn; lia|constructor].
  - destruct (negb (mem aid (conss s))); [split; assumption|].
    destruct (existsb (fun u => u_key u =? key) (subs s)); [|split; assumption].
    split; [now apply NoDup_map_filter|apply Hff].
  - destruct (attends s (AddObj typ v)); [|split; assumption]. split.
    + rewrite map_cb_after. now apply NoDup_map_filter.
    + apply Forall_forall. intros u' Hu'. apply in_map_iff in Hu'. destruct Hu' as (u & <- & Hu).
      rewrite after_attend_cb. specialize (Hff (registered (attend_view s (AddObj typ v)))).
      rewrite Forall_forall in Hff. now apply Hff.
  - destruct (attends s Attend); [|split; assumption]. split.
    + rewrite map_cb_after. now apply NoDup_map_filter.
    + apply Forall_forall. intros u' Hu'. apply in_map_iff in Hu'. destruct Hu' as (u & <- & Hu).
      rewrite after_attend_cb. specialize (Hff (registered (attend_view s Attend))).
      rewrite Forall_forall in Hff. now apply Hff.
Qed.

Lemma run_cons s o ops :
  run s (o :: ops) = (fst (run (st_of (step s o)) ops), calls_of (step s o) :: snd (run (st_of (step s o)) ops)).
Proof. cbn [run]. destruct (run (st_of (step s o)) ops). reflexivity. Qed.

Lemma all_calls_cons s o ops : all_calls s (o :: ops) = calls_of (step s o) ++ all_calls (st_of (step s o)) ops.
Proof. unfold all_calls. rewrite run_cons. reflexivity. Qed.

Lemma run_app s ops1 ops2 :
  fst (run s (ops1 ++ ops2)) = fst (run (fst (run s ops1)) ops2).
Proof.
  revert s. induction ops1 as [|o ops1 IH]; intros s; [reflexivity|].
  cbn [app]. rewrite !run_cons. cbn [fst]. apply IH.
Qed.

Lemma inv_run ops : forall s, inv s -> inv (fst (run s ops)).
Proof.
  induction ops as [|o ops IH]; intros s H; [exact H|].
  rewrite run_cons. cbn [fst]. apply IH. now apply inv_step.
Qed.

Lemma inv_init t0 : inv (init t0).
Proof. split; constructor. Qed.

Lemma inv_reachable t0 ops : inv (state_after t0 ops).
Proof. apply inv_run, inv_init. Qed.

Lemma next_cb_mono s o : next_cb s <= next_cb (st_of (step s o)).
Proof. rewrite next_cb_step. destruct o; try lia. destruct (validate s r =? 0); lia. Qed.

(* a callback number that is not live and below next_cb is never invoked again *)
Lemma absent_cb_never_called ops : forall s c,
  inv s -> c < next_cb s -> (forall u, In u (subs s) -> u_cb u <> c) ->
  forall call, In call (all_calls s ops) -> fst call <> c.
Proof.
  induction ops as [|o ops IH]; intros s c Hi Hc Hab call Hin.
  - destruct Hin.
  - rewrite all_calls_cons in Hin. apply in_app_or in Hin. destruct Hin as [Hin|Hin].
    + destruct (calls_origin s o call Hin) as (u & Hu & ->). now apply Hab.
    + apply (IH (st_of (step s o)) c); try assumption.
      * now apply inv_step.
      * pose proof (next_cb_mono s o). lia.
      * intros u' Hu'. destruct (step_origin s o u' Hu') as [(u & Hu & E & _)|(r & _ & _ & ->)].
        -- rewrite E. now apply Hab.
        -- cbn [new_sub u_cb]. lia.
Qed.

Lemma nodup_cb_inj l u u' : NoDup (map u_cb l) -> In u l -> In u' l -> u_cb u = u_cb u' -> u = u'.
Proof.
  induction l as [|x l IH]; cbn; intros Hn Hu Hu' E; [contradiction|].
  inversion Hn; subst. destruct Hu as [->|Hu], Hu' as [->|Hu']; try reflexivity.
  - exfalso. apply H1. rewrite E. now apply in_map.
  - exfalso. apply H1. rewrite <- E. now apply in_map.
  - now apply IH.
Qed.

(* ---- no_callback_after_unsubscribe ------------------------------------------------------------ *)
Theorem no_callback_after_unsubscribe t0 ops1 aid key ops2 u :
  let s := state_after t0 ops1 in
  out_of (step s (Unsubscribe aid key)) = [0] -> In u (subs s) -> u_key u = key ->
  forall call, In call (all_calls (st_of (step s (Unsubscribe aid key))) ops2) -> fst call <> u_cb u.
Proof.
  intros s Hout Hu Hk. pose proof (inv_reachable t0 ops1) as Hi. fold s in Hi.
  apply absent_cb_never_called.
  - now apply inv_step.
  - destruct Hi as [_ Hf]. rewrite Forall_forall in Hf. pose proof (Hf u Hu).
    pose proof (next_cb_mono s (Unsubscribe aid key)). lia.
  - intros u' Hu' E. rewrite subs_step in Hu'. cbn [step] in Hout.
    destruct (negb (mem aid (conss s))); [discriminate|].
    destruct (existsb (fun u0 => u_key u0 =? key) (subs s)); [|discriminate].
    apply filter_In in Hu'. destruct Hu' as [Hin Hne].
    destruct Hi as [Hn _]. pose proof (nodup_cb_inj _ _ _ Hn Hin Hu E). subst u'. lia.
Qed.

(* ---- no_callback_after_deregister --------------------------------------------------------------- *)
Theorem no_callback_after_deregister t0 ops1 aid ops2 u :
  let s := state_after t0 ops1 in
  out_of (step s (DeregCons aid)) = [0] -> In u (subs s) -> u_app u = aid ->
  forall call, In call (all_calls (st_of (step s (DeregCons aid))) ops2) -> fst call <> u_cb u.
Proof.
  intros s Hout Hu Hk. pose proof (inv_reachable t0 ops1) as Hi. fold s in Hi.
  apply absent_cb_never_called.
  - now apply inv_step.
  - destruct Hi as [_ Hf]. rewrite Forall_forall in Hf. pose proof (Hf u Hu).
    pose proof (next_cb_mono s (DeregCons aid)). lia.
  - intros u' Hu' E. rewrite subs_step in Hu'. cbn [step] in Hout.
    destruct (mem aid (conss s)); [|discriminate].
    apply filter_In in Hu'. destruct Hu' as [Hin Hne].
    destruct Hi as [Hn _]. pose proof (nodup_cb_inj _ _ _ Hn Hin Hu E). subst u'. lia.
Qed.

(* ---- isolation ---------------------------------------------------------------------------------- *)
Theorem isolation s o u : In u (subs s) ->
  match o with
  | Unsubscribe _ key => u_key u <> key -> In u (subs (st_of (step s o)))
  | DeregCons aid => u_app u <> aid -> In u (subs (st_of (step s o)))
  | AddObj _ _ | Attend =>
      if attends s o
      then registered (attend_view s o) u = true ->
           In (if due (attend_view s o) u then set_last u (trunc_s (now s)) else u) (subs (st_of (step s o)))
      else In u (subs (st_of (step s o)))
  | _ => In u (subs (st_of (step s o)))
  end.
Proof.
  intros Hu. rewrite subs_step.
  destruct o as [aid perms|aid|r|aid key|typ v|idx|ms|]; try assumption.
  - intros Hne. destruct (mem aid (conss s)); [|assumption]. apply filter_In. split; [assumption|lia].
  - destruct (validate s r =? 0); [apply in_or_app; now left|assumption].
  - intros Hne. destruct (negb (mem aid (conss s))); [assumption|].
    destruct (existsb (fun u0 => u_key u0 =? key) (subs s)); [|assumption].
    apply filter_In. split; [assumption|lia].
  - destruct (attends s (AddObj typ v)); [|assumption]. intros Hr.
    rewrite <- (now_view s (AddObj typ v)).
    apply (in_map (after_attend (attend_view s (AddObj typ v)))). apply filter_In. now split.
  - destruct (attends s Attend); [|assumption]. intros Hr.
    apply (in_map (after_attend (attend_view s Attend))). apply filter_In. now split.
Qed.

(* the last-notified time of a subscription changes exactly when it is notified *)
Theorem last_tracks_notifications s o u' : In u' (subs (st_of (step s o))) ->
  (exists u, In u (subs s) /\
     ((attends s o = true /\ due (attend_view s o) u = true /\ u' = set_last u (trunc_s (now s)) /\
       In (call_of (attend_view s o) u) (calls_of (step s o)))
      \/ ((attends s o = false \/ due (attend_view s o) u = false) /\ u' = u)))
  \/ (exists r, o = Subscribe r /\ validate s r = 0 /\ u' = new_sub s r).
Proof.
  intros H. pose proof H as H0. rewrite subs_step in H.
  assert (In u' (subs s) -> attends s o = false ->
          exists u, In u (subs s) /\
            ((attends s o = true /\ due (attend_view s o) u = true /\ u' = set_last u (trunc_s (now s)) /\
              In (call_of (attend_view s o) u) (calls_of (step s o)))
             \/ ((attends s o = false \/ due (attend_view s o) u = false) /\ u' = u))) as Hsame.
  { intros Hin Ha. exists u'. split; [assumption|]. right. split; [now left|reflexivity]. }
  assert (forall v, v = attend_view s o -> attends s o = true ->
          In u' (map (after_attend v) (filter (registered v) (subs s))) ->
          exists u, In u (subs s) /\
            ((attends s o = true /\ due (attend_view s o) u = true /\ u' = set_last u (trunc_s (now s)) /\
              In (call_of (attend_view s o) u) (calls_of (step s o)))
             \/ ((attends s o = false \/ due (attend_view s o) u = false) /\ u' = u))) as Hatt.
  { intros v -> Ha Hin. apply in_map_iff in Hin. destruct Hin as (u & <- & Hu). apply filter_In in Hu.
    exists u. split; [tauto|]. unfold after_attend. destruct (due (attend_view s o) u) eqn:Ed.
    - left. repeat split; try assumption; [now rewrite now_view|].
      rewrite notify_exact, Ha. apply (in_map (call_of (attend_view s o))).
      apply filter_In. rewrite subs_view. tauto.
    - right. split; [now right|reflexivity]. }
  destruct o as [aid perms|aid|r|aid key|typ v|idx|ms|]; try (left; now apply Hsame).
  - left. destruct (mem aid (conss s)); [|now apply Hsame].
    apply filter_In in H. apply Hsame; tauto.
  - destruct (validate s r =? 0) eqn:E; [|left; now apply Hsame].
    apply in_app_or in H. destruct H as [H|[H|[]]]; [left; now apply Hsame|].
    right. exists r. repeat split; [lia|now symmetry].
  - left. destruct (negb (mem aid (conss s))); [now apply Hsame|].
    destruct (existsb (fun u => u_key u =? key) (subs s)); [|now apply Hsame].
    apply filter_In in H. apply Hsame; tauto.
  - left. destruct (attends s (AddObj typ v)) eqn:Ea; [|now apply Hsame].
    now apply (Hatt (attend_view s (AddObj typ v))).
  - left. destruct (attends s Attend) eqn:Ea; [|now apply Hsame].
    now apply (Hatt (attend_view s Attend)).
Qed.

(* ---- invalid_refused_with_code --------------------------------------------------------------------- *)

Theorem invalid_refused_with_code s r :
  let c := validate s r in
  (c <> 0 -> step s (Subscribe r) = (s, [c; 0], [])) /\
  (c = 0 <-> all_valid s r = true) /\
  (c = 1 -> mem (r_app r) (conss s) = false) /\
  (c = 2 -> forallb valid_type (r_types r) = false) /\
  (c = 3 -> opt_in (r_prio r) 0 255 = false) /\
  (c = 7 -> r_order_ok r = false) /\
  (c = 4 -> r_flt_ok r = false) /\
  (c = 5 -> opt_in (r_nt r) 0 4398046511103 = false) /\
  (c = 6 -> opt_in (r_mult r) 0 255 = false) /\
  (c = 0 \/ c = 1 \/ c = 2 \/ c = 3 \/ c = 4 \/ c = 5 \/ c = 6 \/ c = 7).
Proof.
  cbn zeta. split.
  - intros H. cbn [step]. destruct (validate s r =? 0) eqn:E; [lia|reflexivity].
  - unfold validate, all_valid.
    destruct (mem (r_app r) (conss s)); cbn [negb andb]; [|repeat split; try discriminate; auto 10; lia].
    destruct (forallb valid_type (r_types r)); cbn [negb andb]; [|repeat split; try discriminate; auto 10; lia].
    destruct (opt_in (r_prio r) 0 255); cbn [negb andb]; [|repeat split; try discriminate; auto 10; lia].
    destruct (r_order_ok r); cbn [negb andb]; [|repeat split; try discriminate; auto 10; lia].
    destruct (r_flt_ok r); cbn [negb andb]; [|repeat split; try discriminate; auto 10; lia].
    destruct (opt_in (r_nt r) 0 4398046511103); cbn [negb andb]; [|repeat split; try discriminate; auto 10; lia].
    destruct (opt_in (r_mult r) 0 255); cbn [negb andb]; repeat split; try discriminate; auto 10; lia.
Qed.

(* each single invalid field is answered with its own code when everything before it is valid *)
Theorem single_invalid_field_code s r :
  (mem (r_app r) (conss s) = false -> validate s r = 1) /\
  (mem (r_app r) (conss s) = true -> forallb valid_type (r_types r) = false -> validate s r = 2) /\
  (mem (r_app r) (conss s) = true -> forallb valid_type (r_types r) = true -> opt_in (r_prio r) 0 255 = false ->
   validate s r = 3) /\
  (mem (r_app r) (conss s) = true -> forallb valid_type (r_types r) = true -> opt_in (r_prio r) 0 255 = true ->
   r_order_ok r = false -> validate s r = 7) /\
  (mem (r_app r) (conss s) = true -> forallb valid_type (r_types r) = true -> opt_in (r_prio r) 0 255 = true ->
   r_order_ok r = true -> r_flt_ok r = false -> validate s r = 4) /\
  (mem (r_app r) (conss s) = true -> forallb valid_type (r_types r) = true -> opt_in (r_prio r) 0 255 = true ->
   r_order_ok r = true -> r_flt_ok r = true -> opt_in (r_nt r) 0 4398046511103 = false -> validate s r = 5) /\
  (mem (r_app r) (conss s) = true -> forallb valid_type (r_types r) = true -> opt_in (r_prio r) 0 255 = true ->
   r_order_ok r = true -> r_flt_ok r = true -> opt_in (r_nt r) 0 4398046511103 = true ->
   opt_in (r_mult r) 0 255 = false -> validate s r = 6).
Proof.
  unfold validate. repeat split; intros; repeat match goal with H : _ = _ |- _ => rewrite H; clear H end; reflexivity.
Qed.

(* ---- KF-C14-1: one identifier for two different requests -------------------------------------------- *)
Theorem unsubscribe_spares_other_requests_partial : unsubscribe_spares_other_requests_stmt true.
Proof.
  intros s aid key u v Hu Hv Hk Hne.
  pose proof (isolation s (Unsubscribe aid key) u Hu) as H. cbn beta iota in H.
  apply H. congruence.
Qed.

(* two requests that differ in the reference value of their filter (-1 / -2) and were given the same identifier 0:
   the unsubscription of the second removes the first *)
Definition kf1_req (ref : Z) : sreq :=
  mkSreq 2 0 [2] None true [] true (F1 (mkStmt [[115]] 2 (RInt ref))) (Some 0) (Some 1).
Definition kf1_state : st := state_after 0 [RegCons 2 [2]; Subscribe (kf1_req (-1)); Subscribe (kf1_req (-2))].

Theorem unsubscribe_spares_other_requests_refuted : ~ unsubscribe_spares_other_requests_stmt false.
Proof.
  intros H.
  specialize (H kf1_state 2 0 (new_sub (state_after 0 [RegCons 2 [2]]) (kf1_req (-1)))
                (mkSub 0 1 2 (mkReq [2] (F1 (mkStmt [[115]] 2 (RInt (-2)))) []) (Some 0) (Some 1) 0)).
  assert (Hin : In (new_sub (state_after 0 [RegCons 2 [2]]) (kf1_req (-1))) (subs kf1_state)) by (vm_compute; auto).
  assert (Hin2 : In (mkSub 0 1 2 (mkReq [2] (F1 (mkStmt [[115]] 2 (RInt (-2)))) []) (Some 0) (Some 1) 0) (subs kf1_state))
    by (vm_compute; auto).
  specialize (H Hin Hin2 eq_refl).
  assert (Hne : u_req (new_sub (state_after 0 [RegCons 2 [2]]) (kf1_req (-1))) <>
                u_req (mkSub 0 1 2 (mkReq [2] (F1 (mkStmt [[115]] 2 (RInt (-2)))) []) (Some 0) (Some 1) 0))
    by (vm_compute; discriminate).
  specialize (H Hne). vm_compute in H. exact H.
Qed.
