(* Lemmas about Model/CamPath.v: every path point put into the low-frequency container is
   expressible in its type, at most 23 are emitted, they are the longest admissible prefix of the
   stored history, which never holds more than 40 points and is empty after activation. *)
From FlexVerif Require Import Base.Prelude Model.CamPath.
Open Scope Z_scope.

Definition expressible (p : Z * Z) : Prop :=
  -131071 <= fst p <= 131072 /\ -131071 <= snd p <= 131072.

Lemma point_ok_iff : forall p, point_ok p = true <-> expressible p.
Proof.
  intros [x y]. unfold point_ok, delta_ok, expressible, PATH_DELTA_MIN, PATH_DELTA_MAX. cbn [fst snd].
  rewrite !andb_true_iff, !Z.leb_le. lia.
Qed.

Lemma select_ok : forall n ds p, In p (select n ds) -> point_ok p = true.
Proof.
  induction n as [|n IH]; intros ds p H.
  - destruct ds; contradiction.
  - destruct ds as [|d rest]; [contradiction|]. cbn [select] in H.
    destruct (point_ok d) eqn:E; [|contradiction].
    destruct H as [<-|H]; [exact E|]. eapply IH; eassumption.
Qed.

Lemma select_len : forall n ds, (length (select n ds) <= n)%nat.
Proof.
  induction n as [|n IH]; intros ds.
  - destruct ds; cbn; lia.
  - destruct ds as [|d rest]; cbn [select]; [cbn; lia|].
    destruct (point_ok d); cbn [length]; [specialize (IH rest)|]; lia.
Qed.

Lemma select_longest : forall n ds, exists rest,
  ds = select n ds ++ rest /\
  (rest = [] \/ length (select n ds) = n \/ exists d r, rest = d :: r /\ point_ok d = false).
Proof.
  induction n as [|n IH]; intros ds.
  - exists ds. split; [destruct ds; reflexivity|]. right; left. destruct ds; reflexivity.
  - destruct ds as [|d rest].
    + exists []. split; [reflexivity|]. left; reflexivity.
    + cbn [select]. destruct (point_ok d) eqn:E.
      * destruct (IH rest) as [r' [Heq Hc]]. exists r'. split.
        { cbn [app]. f_equal. exact Heq. }
        destruct Hc as [Hc|[Hc|Hc]]; [left; exact Hc|right; left; cbn [length]; lia|right; right; exact Hc].
      * exists (d :: rest). split; [reflexivity|]. right; right. exists d, rest. split; [reflexivity|exact E].
Qed.

Theorem path_points_encodable : forall ds,
  (length (path_points ds) <= 23)%nat /\ forall p, In p (path_points ds) -> expressible p.
Proof.
  intros ds. split.
  - exact (select_len PATH_POINTS_MAX ds).
  - intros p H. apply point_ok_iff. eapply select_ok. exact H.
Qed.

Theorem path_points_longest_prefix : forall ds, exists rest,
  ds = path_points ds ++ rest /\
  (rest = [] \/ length (path_points ds) = 23%nat \/ exists d r, rest = d :: r /\ ~ expressible d).
Proof.
  intros ds. destruct (select_longest PATH_POINTS_MAX ds) as [rest [Heq Hc]].
  exists rest. split; [exact Heq|].
  destruct Hc as [Hc|[Hc|[d [r [Hr Hd]]]]]; [left; exact Hc|right; left; exact Hc|].
  right; right. exists d, r. split; [exact Hr|]. intro He. apply point_ok_iff in He. congruence.
Qed.

Lemma fold_pstep_len : forall ops h, (length h <= 40)%nat -> (length (fold_left pstep ops h) <= 40)%nat.
Proof.
  induction ops as [|o ops IH]; intros h Hh; [exact Hh|].
  cbn [fold_left]. apply IH. destruct o; cbn [pstep]; [cbn; lia|].
  apply firstn_le_length.
Qed.

Theorem path_history_bounded : forall ops,
  (length (phist ops) <= 40)%nat /\ phist (ops ++ [PClear]) = [] /\
  forall r, phist (ops ++ [PSent r]) = firstn 40 (r :: phist ops).
Proof.
  intros ops. unfold phist. split; [apply fold_pstep_len; cbn; lia|].
  split; [rewrite fold_left_app; reflexivity|].
  intros r. rewrite fold_left_app. reflexivity.
Qed.

(* a vehicle that re-appears 0.02 degrees further north after a report outage: the stored points
   (all at the old position, 200000 units south, same longitude) are not emitted, the points
   stored after the outage are *)
Example path_after_outage :
  path_points [(-150, 20); (-300, 41); (-200000, 60); (-200000, 60)] = [(-150, 20); (-300, 41)] /\
  path_points [(-131071, 131072); (131073, 0)] = [(-131071, 131072)] /\
  path_points [(0, -131072); (5, 5)] = [].
Proof. repeat split; reflexivity. Qed.
