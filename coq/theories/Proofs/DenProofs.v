From FlexVerif Require Import Base.Prelude Model.Den.
From Coq Require Import ZifyBool.
Ltac Zify.zify_post_hook ::= Z.to_euclidean_division_equations.

(* ---- zrange ------------------------------------------------------------- *)
Lemma zrange_length lo n : length (zrange lo n) = n.
Proof. revert lo; induction n as [|n IH]; intros lo; cbn [zrange length]; [reflexivity|]. now rewrite IH. Qed.

Lemma map_zrange_shift {A} (f : Z -> A) lo n :
  map f (zrange (lo + 1) n) = map (fun k => f (k + 1)) (zrange lo n).
Proof.
  revert lo; induction n as [|n IH]; intros lo; cbn [zrange map]; [reflexivity|].
  f_equal. apply IH.
Qed.

Lemma nth_error_zrange lo n a x : nth_error (zrange lo n) a = Some x -> x = lo + Z.of_nat a /\ (a < n)%nat.
Proof.
  revert lo a; induction n as [|n IH]; intros lo a H; cbn [zrange] in H.
  - destruct a; discriminate.
  - destruct a as [|a]; cbn [nth_error] in H.
    + injection H as <-. split; lia.
    + apply IH in H. lia.
Qed.

Lemma in_zrange lo n x : In x (zrange lo n) -> lo <= x < lo + Z.of_nat n.
Proof.
  intros H. apply In_nth_error in H as [a H]. apply nth_error_zrange in H. lia.
Qed.

(* ---- ceiling ---------------------------------------------------------------- *)
Lemma cdiv_spec a b : 0 < b -> (cdiv a b - 1) * b < a <= cdiv a b * b.
Proof.
  intros Hb. unfold cdiv.
  pose proof (Z.div_mod (- a) b ltac:(lia)) as E.
  pose proof (Z.mod_pos_bound (- a) b Hb) as B.
  set (q := (- a) / b) in *. set (r := (- a) mod b) in *. nia.
Qed.

Lemma cdiv_unique a b n : 0 < b -> (n - 1) * b < a <= n * b -> cdiv a b = n.
Proof.
  intros Hb H. pose proof (cdiv_spec a b Hb) as S. set (c := cdiv a b) in *. nia.
Qed.

Lemma cdiv_shift a b : 0 < b -> cdiv (a - b) b = cdiv a b - 1.
Proof.
  intros Hb. apply cdiv_unique; [assumption|]. pose proof (cdiv_spec a b Hb). nia.
Qed.

Lemma cdiv_pos a b : 0 < b -> 0 < a -> 1 <= cdiv a b.
Proof. intros Hb Ha. pose proof (cdiv_spec a b Hb). nia. Qed.

Lemma cdiv_nonpos a b : 0 < b -> a <= 0 -> cdiv a b <= 0.
Proof. intros Hb Ha. pose proof (cdiv_spec a b Hb). nia. Qed.

Lemma cdiv_exact k b : 0 < b -> cdiv (k * b) b = k.
Proof. intros Hb. apply cdiv_unique; [assumption|]. nia. Qed.

Lemma cdiv_le_fuel a b : 0 < b -> cdiv a b <= a / b + 1.
Proof.
  intros Hb. pose proof (cdiv_spec a b Hb).
  pose proof (Z.div_mod a b ltac:(lia)). pose proof (Z.mod_pos_bound a b Hb).
  set (c := cdiv a b) in *. set (q := a / b) in *. set (r := a mod b) in *. nia.
Qed.

(* ---- the loop ----------------------------------------------------------------- *)
Lemma sched_loop_enough i T : 0 < i -> forall n tt,
  (Z.to_nat (cdiv (T - tt) i) <= n)%nat ->
  sched_loop n i T tt = map (fun k => tt + k * i) (zrange 0 (Z.to_nat (cdiv (T - tt) i))).
Proof.
  intros Hi. induction n as [|n IH]; intros tt Hn.
  - assert (Z.to_nat (cdiv (T - tt) i) = O) as -> by lia. reflexivity.
  - cbn [sched_loop]. destruct (tt <? T) eqn:E.
    + pose proof (cdiv_pos (T - tt) i Hi ltac:(lia)) as Hp.
      pose proof (cdiv_shift (T - tt) i Hi) as Hs.
      replace (T - tt - i) with (T - (tt + i)) in Hs by lia.
      assert (Z.to_nat (cdiv (T - tt) i) = S (Z.to_nat (cdiv (T - (tt + i)) i))) as En by lia.
      rewrite En. cbn [zrange map]. f_equal; [lia|].
      rewrite IH by lia.
      change 1 with (0 + 1) at 1. rewrite map_zrange_shift.
      apply map_ext. intros k. lia.
    + pose proof (cdiv_nonpos (T - tt) i Hi ltac:(lia)).
      assert (Z.to_nat (cdiv (T - tt) i) = O) as -> by lia. reflexivity.
Qed.

Lemma fuel_enough i T : 0 < i -> (Z.to_nat (cdiv T i) <= sched_fuel i T)%nat.
Proof. intros Hi. unfold sched_fuel. pose proof (cdiv_le_fuel T i Hi). lia. Qed.

Lemma schedule_times i T : 0 < i ->
  schedule i T = map (fun k => k * i) (zrange 0 (Z.to_nat (cdiv T i))).
Proof.
  intros Hi. unfold schedule.
  pose proof (fuel_enough i T Hi) as F.
  rewrite (sched_loop_enough i T Hi (sched_fuel i T) 0) by (rewrite Z.sub_0_r; exact F).
  rewrite Z.sub_0_r. apply map_ext. intros k. lia.
Qed.

Lemma schedule_fuel_irrelevant i T n : 0 < i -> (sched_fuel i T <= n)%nat ->
  sched_loop n i T 0 = schedule i T.
Proof.
  intros Hi Hn. pose proof (fuel_enough i T Hi) as F. unfold schedule.
  rewrite (sched_loop_enough i T Hi n 0) by (rewrite Z.sub_0_r; lia).
  rewrite (sched_loop_enough i T Hi (sched_fuel i T) 0) by (rewrite Z.sub_0_r; lia).
  reflexivity.
Qed.

Lemma schedule_count i T : 0 < i -> length (schedule i T) = Z.to_nat (cdiv T i).
Proof. intros Hi. rewrite schedule_times by assumption. now rewrite map_length, zrange_length. Qed.

Lemma schedule_zero i T : T <= 0 -> schedule i T = [].
Proof.
  intros HT. unfold schedule. destruct (sched_fuel i T) as [|f]; [reflexivity|].
  cbn [sched_loop]. destruct (0 <? T) eqn:E; [lia|reflexivity].
Qed.

Lemma schedule_first i T : 0 < i -> 0 < T -> exists rest, schedule i T = 0 :: rest.
Proof.
  intros Hi HT. rewrite schedule_times by assumption.
  pose proof (cdiv_pos T i Hi HT).
  destruct (Z.to_nat (cdiv T i)) as [|m] eqn:E; [lia|].
  cbn [zrange map]. eexists. reflexivity.
Qed.

Lemma schedule_nth i T a x : 0 < i -> nth_error (schedule i T) a = Some x ->
  x = Z.of_nat a * i /\ Z.of_nat a < cdiv T i.
Proof.
  intros Hi H. rewrite schedule_times in H by assumption.
  rewrite nth_error_map in H. destruct (nth_error (zrange 0 _) a) as [k|] eqn:E; [|discriminate].
  injection H as <-. apply nth_error_zrange in E. split; [f_equal|]; lia.
Qed.

Lemma schedule_in i T x : 0 < i -> In x (schedule i T) -> 0 <= x < T.
Proof.
  intros Hi H. apply In_nth_error in H as [a H]. apply schedule_nth in H as [-> Hlt]; [|assumption].
  pose proof (cdiv_spec T i Hi). nia.
Qed.

(* last repetition starts less than one interval before the end of the duration *)
Lemma schedule_covers i T : 0 < i -> 0 < T ->
  In ((cdiv T i - 1) * i) (schedule i T) /\ T <= (cdiv T i - 1) * i + i.
Proof.
  intros Hi HT. pose proof (cdiv_pos T i Hi HT). pose proof (cdiv_spec T i Hi). split; [|nia].
  rewrite schedule_times by assumption. apply in_map_iff. exists (cdiv T i - 1). split; [reflexivity|].
  assert (Hn : forall n lo, (0 < n)%nat -> In (lo + Z.of_nat n - 1) (zrange lo n)).
  { induction n as [|n IH]; intros lo Hn; [lia|]. cbn [zrange]. destruct n as [|n].
    - left. lia.
    - right. replace (lo + Z.of_nat (S (S n)) - 1) with ((lo + 1) + Z.of_nat (S n) - 1) by lia.
      apply IH. lia. }
  replace (cdiv T i - 1) with (0 + Z.of_nat (Z.to_nat (cdiv T i)) - 1) by lia. apply Hn. lia.
Qed.

(* ---- runs: the k-th event depends on the requests up to k only -------------------- *)
Lemma run_nth rs : forall sa k r, nth_error rs k = Some r ->
  nth_error (run sa rs) k = Some (snd (step (final sa (firstn k rs)) r)).
Proof.
  induction rs as [|r0 rs IH]; intros sa k r H.
  - destruct k; discriminate.
  - cbn [run]. destruct (step sa r0) as [sa' e] eqn:E. destruct k as [|k].
    + cbn in H. injection H as <-. cbn [nth_error firstn final]. now rewrite E.
    + cbn [nth_error firstn final] in *. rewrite E. cbn [fst]. now apply IH.
Qed.

Lemma run_length rs : forall sa, length (run sa rs) = length rs.
Proof.
  induction rs as [|r rs IH]; intros sa; cbn [run]; [reflexivity|].
  destruct (step sa r) as [sa' e]. cbn [length]. now rewrite IH.
Qed.

Lemma run_nth_inv rs sa k e : nth_error (run sa rs) k = Some e ->
  exists r, nth_error rs k = Some r /\ e = snd (step (final sa (firstn k rs)) r).
Proof.
  intros H. destruct (nth_error rs k) as [r|] eqn:E.
  - exists r. split; [reflexivity|]. rewrite (run_nth rs sa k r E) in H. now injection H.
  - apply nth_error_None in E. rewrite <- (run_length rs sa) in E.
    apply nth_error_None in E. congruence.
Qed.

Lemma run_prefix rs more sa k : (k < length rs)%nat ->
  nth_error (run sa (rs ++ more)) k = nth_error (run sa rs) k.
Proof.
  intros Hk. destruct (nth_error rs k) as [r|] eqn:E.
  - rewrite (run_nth rs sa k r E).
    assert (E' : nth_error (rs ++ more) k = Some r) by (rewrite nth_error_app1; assumption).
    rewrite (run_nth (rs ++ more) sa k r E').
    rewrite firstn_app. replace (k - length rs)%nat with O by lia.
    cbn [firstn]. now rewrite app_nil_r.
  - apply nth_error_None in E. lia.
Qed.

(* ---- station state along a run -------------------------------------------------------- *)
Lemma step_station sa r :
  st_id (fst (fst (step sa r))) = st_id (fst sa) /\
  st_seq (fst (fst (step sa r))) = (st_seq (fst sa) + 1) mod SEQ_MOD /\
  ev_seq (snd (step sa r)) = st_seq (fst sa).
Proof. destruct sa as [s a]. destruct r; cbn; auto. Qed.

Lemma final_station rs : forall sa,
  st_id (fst (final sa rs)) = st_id (fst sa) /\
  st_seq (fst (final sa rs)) mod SEQ_MOD = (st_seq (fst sa) + Z.of_nat (length rs)) mod SEQ_MOD.
Proof.
  induction rs as [|r rs IH]; intros sa.
  - cbn [final length]. split; [reflexivity|]. f_equal. lia.
  - cbn [final]. destruct (IH (fst (step sa r))) as [I1 I2].
    destruct (step_station sa r) as (S1 & S2 & _).
    split; [congruence|].
    rewrite I2, S2. rewrite Zplus_mod_idemp_l. f_equal. cbn [length]. lia.
Qed.

Lemma firstn_length_lt {A} (l : list A) k x : nth_error l k = Some x -> length (firstn k l) = k.
Proof.
  intros H. apply firstn_length_le. assert (k < length l)%nat by (apply nth_error_Some; congruence). lia.
Qed.

Lemma event_seq rs sa k e : nth_error (run sa rs) k = Some e ->
  ev_seq e mod SEQ_MOD = (st_seq (fst sa) + Z.of_nat k) mod SEQ_MOD.
Proof.
  intros H. apply run_nth_inv in H as (r & Hr & ->).
  destruct (step_station (final sa (firstn k rs)) r) as (_ & _ & ->).
  destruct (final_station (firstn k rs) sa) as [_ ->].
  now rewrite (firstn_length_lt rs k r Hr).
Qed.

Lemma event_seq_range rs sa k e : 0 <= st_seq (fst sa) < SEQ_MOD ->
  nth_error (run sa rs) k = Some e -> 0 <= ev_seq e < SEQ_MOD.
Proof.
  intros R H. apply run_nth_inv in H as (r & Hr & ->).
  destruct (step_station (final sa (firstn k rs)) r) as (_ & _ & ->).
  clear Hr. generalize (firstn k rs) as l. clear rs. intros l. revert sa R.
  induction l as [|r0 l IH]; intros sa R; cbn [final]; [exact R|].
  apply IH. destruct (step_station sa r0) as (_ & -> & _). unfold SEQ_MOD in *. lia.
Qed.

Lemma distinct_events rs sa j k ej ek : (j < k)%nat -> Z.of_nat k - Z.of_nat j < SEQ_MOD ->
  nth_error (run sa rs) j = Some ej -> nth_error (run sa rs) k = Some ek ->
  ev_seq ej <> ev_seq ek.
Proof.
  intros Hjk Hd Hj Hk E. apply event_seq in Hj. apply event_seq in Hk. rewrite E in Hj.
  rewrite Hj in Hk. unfold SEQ_MOD in *. lia.
Qed.

Lemma same_after_cycle rs sa j k ej ek : 0 <= st_seq (fst sa) < SEQ_MOD ->
  Z.of_nat k = Z.of_nat j + SEQ_MOD ->
  nth_error (run sa rs) j = Some ej -> nth_error (run sa rs) k = Some ek ->
  ev_seq ej = ev_seq ek.
Proof.
  intros R Hd Hj Hk.
  pose proof (event_seq_range rs sa j ej R Hj). pose proof (event_seq_range rs sa k ek R Hk).
  apply event_seq in Hj. apply event_seq in Hk. unfold SEQ_MOD in *. lia.
Qed.

(* ---- what one event hands over ---------------------------------------------------------- *)
Lemma step_txs sa r x : In x (ev_txs (snd (step sa r))) ->
  let e := snd (step sa r) in
  exists t, x = send_at (st_id (fst sa)) (ev_seq e) (ev_lat e) (ev_lon e) t.
Proof.
  destruct sa as [s a]. destruct r as [t0 olat olon i T | t0 lat lon ok]; cbn.
  - intros H. apply in_map_iff in H as (off & <- & _). eexists. reflexivity.
  - destruct ok; cbn; [|tauto]. intros [<-|[]]. eexists. reflexivity.
Qed.

Lemma run_txs rs sa k e x : nth_error (run sa rs) k = Some e -> In x (ev_txs e) ->
  exists t, x = send_at (st_id (fst sa)) (ev_seq e) (ev_lat e) (ev_lon e) t.
Proof.
  intros H Hx. apply run_nth_inv in H as (r & Hr & ->).
  apply step_txs in Hx as [t Hx]. exists t.
  destruct (final_station (firstn k rs) sa) as [<- _]. exact Hx.
Qed.

Lemma same_action_id rs sa k e x : nth_error (run sa rs) k = Some e -> In x (ev_txs e) ->
  d_seq (tx_msg x) = ev_seq e /\ d_orig_station (tx_msg x) = st_id (fst sa) /\
  d_hdr_station (tx_msg x) = st_id (fst sa).
Proof. intros H Hx. destruct (run_txs rs sa k e x H Hx) as [t ->]. cbn. auto. Qed.

Lemma distinct_action_ids rs sa j k ej ek x y : j <> k ->
  Z.abs (Z.of_nat k - Z.of_nat j) < SEQ_MOD ->
  nth_error (run sa rs) j = Some ej -> nth_error (run sa rs) k = Some ek ->
  In x (ev_txs ej) -> In y (ev_txs ek) ->
  (d_orig_station (tx_msg x), d_seq (tx_msg x)) <> (d_orig_station (tx_msg y), d_seq (tx_msg y)).
Proof.
  intros Hne Hd Hj Hk Hx Hy E.
  destruct (same_action_id rs sa j ej x Hj Hx) as (Sx & _).
  destruct (same_action_id rs sa k ek y Hk Hy) as (Sy & _).
  injection E as _ E. rewrite Sx, Sy in E.
  destruct (Nat.lt_ge_cases j k) as [L|L].
  - apply (distinct_events rs sa j k ej ek L ltac:(lia) Hj Hk E).
  - assert (k < j)%nat by lia. apply (distinct_events rs sa k j ek ej H ltac:(lia) Hk Hj (eq_sym E)).
Qed.

(* ---- reference times -------------------------------------------------------------------------- *)
Lemma tx_ref_is_clock rs sa k e x : nth_error (run sa rs) k = Some e -> In x (ev_txs e) ->
  d_ref (tx_msg x) = its_of_utc (tx_time x).
Proof. intros H Hx. destruct (run_txs rs sa k e x H Hx) as [t ->]. reflexivity. Qed.

Lemma its_monotone t1 t2 : t1 <= t2 -> its_of_utc t1 <= its_of_utc t2.
Proof. unfold its_of_utc. lia. Qed.

Lemma ref_monotone_global rs sa j k ej ek x y :
  nth_error (run sa rs) j = Some ej -> nth_error (run sa rs) k = Some ek ->
  In x (ev_txs ej) -> In y (ev_txs ek) -> tx_time x <= tx_time y ->
  d_ref (tx_msg x) <= d_ref (tx_msg y).
Proof.
  intros Hj Hk Hx Hy Ht.
  rewrite (tx_ref_is_clock rs sa j ej x Hj Hx), (tx_ref_is_clock rs sa k ek y Hk Hy).
  now apply its_monotone.
Qed.

(* the hand-overs of a repeated event, in order *)
Lemma ev_txs_closed s a t0 olat olon i T : 0 < i ->
  let e := snd (step (s, a) (Ev t0 olat olon i T)) in
  ev_txs e = map (fun k => send_at (st_id s) (ev_seq e) (ev_lat e) (ev_lon e) (t0 + k * i))
                 (zrange 0 (Z.to_nat (cdiv T i))).
Proof. intros Hi. cbn. rewrite schedule_times by assumption. now rewrite map_map. Qed.

Lemma ev_order s a t0 olat olon i T p q x y : 0 < i -> (p <= q)%nat ->
  let e := snd (step (s, a) (Ev t0 olat olon i T)) in
  nth_error (ev_txs e) p = Some x -> nth_error (ev_txs e) q = Some y ->
  tx_time x = t0 + Z.of_nat p * i /\ tx_time y = t0 + Z.of_nat q * i /\
  tx_time x <= tx_time y /\ d_ref (tx_msg x) <= d_ref (tx_msg y).
Proof.
  intros Hi Hpq e. subst e. rewrite ev_txs_closed by assumption. rewrite !nth_error_map.
  destruct (nth_error _ p) as [kp|] eqn:Ep; [|discriminate].
  destruct (nth_error _ q) as [kq|] eqn:Eq; [|discriminate].
  intros Hx Hy. injection Hx as <-. injection Hy as <-.
  apply nth_error_zrange in Ep as [-> _]. apply nth_error_zrange in Eq as [-> _].
  cbn [send_at transmit mk_denm tx_time tx_msg d_ref]. unfold its_of_utc.
  assert (Z.of_nat p * i <= Z.of_nat q * i) by nia. repeat split; lia.
Qed.

(* ---- destination area ------------------------------------------------------------------------------ *)
Lemma gbc_area rs sa k e x : nth_error (run sa rs) k = Some e -> In x (ev_txs e) ->
  tx_port x = 2002 /\ tx_shape x = 0 /\
  tx_area_lat x = ev_lat e /\ tx_area_lon x = ev_lon e /\ tx_a x = 100 /\ tx_b x = 0 /\ tx_angle x = 0 /\
  d_lat (tx_msg x) = ev_lat e /\ d_lon (tx_msg x) = ev_lon e.
Proof. intros H Hx. destruct (run_txs rs sa k e x H Hx) as [t ->]. cbn. repeat split; reflexivity. Qed.

Lemma event_position rs sa k e : nth_error (run sa rs) k = Some e ->
  match nth_error rs k with
  | Some (Ev _ olat olon _ _) =>
      ev_lat e = match olat with Some v => v | None => a_lat (snd (final sa (firstn k rs))) end /\
      ev_lon e = match olon with Some v => v | None => a_lon (snd (final sa (firstn k rs))) end
  | Some (Crw _ lat lon _) => ev_lat e = lat /\ ev_lon e = lon
  | None => False
  end.
Proof.
  intros H. apply run_nth_inv in H as (r & -> & ->).
  destruct (final sa (firstn k rs)) as [s a]. destruct r; cbn; auto.
Qed.

(* ---- counts -------------------------------------------------------------------------------------------- *)
Lemma event_count rs sa k e : nth_error (run sa rs) k = Some e ->
  match nth_error rs k with
  | Some (Ev _ _ _ i T) => 0 < i -> length (ev_txs e) = Z.to_nat (cdiv T i)
  | Some (Crw _ _ _ ok) => length (ev_txs e) = if ok then 1%nat else 0%nat
  | None => False
  end.
Proof.
  intros H. apply run_nth_inv in H as (r & -> & ->).
  destruct (final sa (firstn k rs)) as [s a]. destruct r as [t0 olat olon i T|t0 lat lon ok]; cbn.
  - intros Hi. now rewrite map_length, schedule_count.
  - destruct ok; reflexivity.
Qed.

(* ---- reception -------------------------------------------------------------------------------------------- *)
Lemma wire_roundtrip lo v : wire_dec lo (wire_enc lo v) = v.
Proof. unfold wire_dec, wire_enc. lia. Qed.

Lemma wire_widths lat lon alt :
  -900000000 <= lat <= 900000001 -> -1800000000 <= lon <= 1800000001 -> -100000 <= alt <= 800001 ->
  0 <= wire_enc LAT_LO lat < 2 ^ 31 /\ 0 <= wire_enc LON_LO lon < 2 ^ 32 /\ 0 <= wire_enc ALT_LO alt < 2 ^ 20.
Proof. unfold wire_enc, LAT_LO, LON_LO, ALT_LO. lia. Qed.

Lemma rx_position m lat lon alt :
  rx_wire m (wire_enc LAT_LO lat) (wire_enc LON_LO lon) (wire_enc ALT_LO alt) =
  {| l_lat := lat; l_lon := lon; l_alt := alt; l_radius := 0 |}.
Proof. unfold rx_wire, feed_ldm. rewrite !wire_roundtrip. reflexivity. Qed.

Lemma feed_ldm_position m : l_lat (feed_ldm m) = m_lat m /\ l_lon (feed_ldm m) = m_lon m /\
  l_alt (feed_ldm m) = m_alt m /\ l_radius (feed_ldm m) = 0.
Proof. cbn. auto. Qed.

(* the sign matters: reading the latitude field as an unsigned number does not
   give the event position back for any southern latitude *)
Lemma unsigned_reading_wrong lat : -900000000 <= lat < 0 -> wire_enc LAT_LO lat <> lat.
Proof. unfold wire_enc, LAT_LO. lia. Qed.

(* ---- collision risk warnings: one DENM, unless the encoder refuses the position --------- *)
Lemma crw_count_partial rs sa k e t0 lat lon :
  nth_error rs k = Some (Crw t0 lat lon true) -> nth_error (run sa rs) k = Some e ->
  exists x, ev_txs e = [x] /\ tx_time x = t0.
Proof.
  intros Hr H. apply run_nth_inv in H as (r & Hr' & ->). rewrite Hr in Hr'. injection Hr' as <-.
  destruct (final sa (firstn k rs)) as [s a]. cbn. eexists. split; reflexivity.
Qed.

Lemma crw_int_confidence_sends_nothing rs sa k e t0 lat lon :
  nth_error rs k = Some (Crw t0 lat lon false) -> nth_error (run sa rs) k = Some e -> ev_txs e = [].
Proof.
  intros Hr H. apply run_nth_inv in H as (r & Hr' & ->). rewrite Hr in Hr'. injection Hr' as <-.
  destruct (final sa (firstn k rs)) as [s a]. reflexivity.
Qed.

Lemma ev_count_run rs sa k e t0 olat olon i T : 0 < i ->
  nth_error rs k = Some (Ev t0 olat olon i T) -> nth_error (run sa rs) k = Some e ->
  length (ev_txs e) = Z.to_nat (cdiv T i).
Proof. intros Hi Hr H. pose proof (event_count rs sa k e H) as C. rewrite Hr in C. auto. Qed.

Lemma ev_order_run rs sa k e t0 olat olon i T p q x y : 0 < i -> (p <= q)%nat ->
  nth_error rs k = Some (Ev t0 olat olon i T) -> nth_error (run sa rs) k = Some e ->
  nth_error (ev_txs e) p = Some x -> nth_error (ev_txs e) q = Some y ->
  tx_time x = t0 + Z.of_nat p * i /\ tx_time y = t0 + Z.of_nat q * i /\
  tx_time x <= tx_time y /\ d_ref (tx_msg x) <= d_ref (tx_msg y).
Proof.
  intros Hi Hpq Hr H. apply run_nth_inv in H as (r & Hr' & ->). rewrite Hr in Hr'. injection Hr' as <-.
  destruct (final sa (firstn k rs)) as [s a]. now apply ev_order.
Qed.

Lemma ev_position_run rs sa k e t0 lat lon i T x :
  nth_error rs k = Some (Ev t0 (Some lat) (Some lon) i T) -> nth_error (run sa rs) k = Some e ->
  In x (ev_txs e) ->
  tx_port x = 2002 /\ tx_shape x = 0 /\ tx_area_lat x = lat /\ tx_area_lon x = lon /\
  0 < tx_a x /\ tx_b x = 0 /\ d_lat (tx_msg x) = lat /\ d_lon (tx_msg x) = lon.
Proof.
  intros Hr H Hx. pose proof (event_position rs sa k e H) as P. rewrite Hr in P. destruct P as [P1 P2].
  destruct (gbc_area rs sa k e x H Hx) as (G1 & G2 & G3 & G4 & G5 & G6 & _ & G8 & G9).
  rewrite G3, G4, G5, G8, G9, P1, P2. repeat split; try assumption; lia.
Qed.

Lemma crw_position_run rs sa k e t0 lat lon ok x :
  nth_error rs k = Some (Crw t0 lat lon ok) -> nth_error (run sa rs) k = Some e ->
  In x (ev_txs e) ->
  tx_port x = 2002 /\ tx_shape x = 0 /\ tx_area_lat x = lat /\ tx_area_lon x = lon /\
  0 < tx_a x /\ tx_b x = 0 /\ d_lat (tx_msg x) = lat /\ d_lon (tx_msg x) = lon.
Proof.
  intros Hr H Hx. pose proof (event_position rs sa k e H) as P. rewrite Hr in P. destruct P as [P1 P2].
  destruct (gbc_area rs sa k e x H Hx) as (G1 & G2 & G3 & G4 & G5 & G6 & _ & G8 & G9).
  rewrite G3, G4, G5, G8, G9, P1, P2. repeat split; try assumption; lia.
Qed.

(* ---- concurrency: allocation order (seed C17-11) ------------------------------------------ *)
Lemma step_event_with s a r :
  step (s, a) r =
  (({| st_id := st_id s; st_seq := (st_seq s + 1) mod SEQ_MOD |},
    fst (event_with (st_id s) (st_seq s) a r)),
   snd (event_with (st_id s) (st_seq s) a r)).
Proof. destruct r; reflexivity. Qed.

Lemma run_alloc_zrange rs : forall s a c,
  run_alloc s a rs (zrange c (length rs)) = run ({| st_id := st_id s; st_seq := seq_at s c |}, a) rs.
Proof.
  induction rs as [|r rs IH]; intros s a c; [reflexivity|].
  cbn [run_alloc run length zrange hd tl].
  rewrite step_event_with. cbn [st_id st_seq].
  destruct (event_with (st_id s) (seq_at s c) a r) as [a' e]. cbn [fst snd].
  f_equal. rewrite IH. f_equal. f_equal. f_equal.
  unfold seq_at. rewrite Zplus_mod_idemp_l. f_equal. lia.
Qed.

(* allocation in request order is the run of the sequential model *)
Lemma run_alloc_request_order s a rs : 0 <= st_seq s < SEQ_MOD ->
  run_alloc s a rs (zrange 0 (length rs)) = run (s, a) rs.
Proof.
  intros R. rewrite run_alloc_zrange. f_equal. f_equal.
  unfold seq_at. rewrite Z.add_0_r, Z.mod_small by exact R. now destruct s.
Qed.

Lemma nth_tl (l : list Z) k : nth k (tl l) 0 = nth (S k) l 0.
Proof. destruct l; [destruct k|]; reflexivity. Qed.

Lemma hd_nth (l : list Z) : hd 0 l = nth 0 l 0.
Proof. now destruct l. Qed.

Lemma run_alloc_nth rs : forall s a ranks k e, nth_error (run_alloc s a rs ranks) k = Some e ->
  exists a0 r, nth_error rs k = Some r /\
               e = snd (event_with (st_id s) (seq_at s (nth k ranks 0)) a0 r).
Proof.
  induction rs as [|r0 rs IH]; intros s a ranks k e H.
  - destruct k; discriminate.
  - cbn [run_alloc] in H.
    destruct (event_with (st_id s) (seq_at s (hd 0 ranks)) a r0) as [a' e0] eqn:E.
    destruct k as [|k]; cbn [nth_error] in *.
    + injection H as <-. exists a, r0. split; [reflexivity|]. rewrite <- hd_nth, E. reflexivity.
    + apply IH in H as (a0 & r & Hr & ->). exists a0, r. split; [exact Hr|]. now rewrite nth_tl.
Qed.

Lemma event_with_txs sid seq a r x : In x (ev_txs (snd (event_with sid seq a r))) ->
  ev_seq (snd (event_with sid seq a r)) = seq /\
  d_seq (tx_msg x) = seq /\ d_orig_station (tx_msg x) = sid /\ d_hdr_station (tx_msg x) = sid /\
  d_ref (tx_msg x) = its_of_utc (tx_time x).
Proof.
  destruct r as [t0 olat olon i T | t0 lat lon ok]; cbn.
  - intros H. apply in_map_iff in H as (off & <- & _). cbn. auto.
  - destruct ok; cbn; [|tauto]. intros [<-|[]]. cbn. auto.
Qed.

(* whatever the allocation order: one number per event, the station's identity *)
Lemma alloc_same_action_id rs s a ranks k e x :
  nth_error (run_alloc s a rs ranks) k = Some e -> In x (ev_txs e) ->
  d_seq (tx_msg x) = ev_seq e /\ ev_seq e = seq_at s (nth k ranks 0) /\
  d_orig_station (tx_msg x) = st_id s /\ d_hdr_station (tx_msg x) = st_id s.
Proof.
  intros H Hx. apply run_alloc_nth in H as (a0 & r & _ & ->).
  apply event_with_txs in Hx as (-> & -> & -> & -> & _). auto.
Qed.

Lemma seq_at_distinct s p q : p <> q -> Z.abs (p - q) < SEQ_MOD -> seq_at s p <> seq_at s q.
Proof. unfold seq_at, SEQ_MOD. intros Hne Hd E. lia. Qed.

(* two events whose calls of next_sequence_number were different calls, less than 65 536
   calls apart: every DENM of the one differs from every DENM of the other *)
Lemma alloc_distinct_action_ids rs s a ranks j k ej ek x y :
  nth j ranks 0 <> nth k ranks 0 -> Z.abs (nth j ranks 0 - nth k ranks 0) < SEQ_MOD ->
  nth_error (run_alloc s a rs ranks) j = Some ej -> nth_error (run_alloc s a rs ranks) k = Some ek ->
  In x (ev_txs ej) -> In y (ev_txs ek) ->
  (d_orig_station (tx_msg x), d_seq (tx_msg x)) <> (d_orig_station (tx_msg y), d_seq (tx_msg y)).
Proof.
  intros Hne Hd Hj Hk Hx Hy E.
  destruct (alloc_same_action_id rs s a ranks j ej x Hj Hx) as (Sx & Ex & _).
  destruct (alloc_same_action_id rs s a ranks k ek y Hk Hy) as (Sy & Ey & _).
  injection E as _ E. rewrite Sx, Sy, Ex, Ey in E.
  exact (seq_at_distinct s _ _ Hne Hd E).
Qed.

Lemma event_with_unnumbered sid seq1 seq2 a r :
  fst (event_with sid seq1 a r) = fst (event_with sid seq2 a r) /\
  event_unnumbered (snd (event_with sid seq1 a r)) = event_unnumbered (snd (event_with sid seq2 a r)).
Proof.
  destruct r as [t0 olat olon i T | t0 lat lon ok]; cbn; (split; [reflexivity|]).
  - unfold event_unnumbered. cbn. f_equal. rewrite !map_map. apply map_ext. reflexivity.
  - destruct ok; reflexivity.
Qed.

(* the allocation order decides the numbers and nothing else: count, times, reference
   times, station identity, positions and destination areas are those of [run] *)
Lemma alloc_only_numbers rs : forall s s2 a ranks, st_id s = st_id s2 ->
  map event_unnumbered (run_alloc s a rs ranks) = map event_unnumbered (run (s2, a) rs).
Proof.
  induction rs as [|r rs IH]; intros s s2 a ranks Hid; [reflexivity|].
  cbn [run_alloc run]. rewrite step_event_with. rewrite <- Hid.
  destruct (event_with_unnumbered (st_id s) (seq_at s (hd 0 ranks)) (st_seq s2) a r) as [F U].
  destruct (event_with (st_id s) (seq_at s (hd 0 ranks)) a r) as [a1 e1].
  destruct (event_with (st_id s) (st_seq s2) a r) as [a2 e2].
  cbn [fst snd] in *. subst a2. cbn [map]. rewrite U. f_equal.
  apply IH. reflexivity.
Qed.

Lemma alloc_only_numbers_run s a rs ranks :
  map event_unnumbered (run_alloc s a rs ranks) = map event_unnumbered (run (s, a) rs).
Proof. now apply alloc_only_numbers. Qed.

(* ---- concurrency: construction of the messages, any interleaving ------------------------- *)
Lemma upd_same {A} (l : list A) : forall k v x, nth_error l k = Some x -> nth_error (upd k v l) k = Some v.
Proof.
  induction l as [|h t IH]; intros k v x H; destruct k; try discriminate; cbn in *; eauto.
Qed.

Lemma upd_other {A} (l : list A) : forall k k' v, k <> k' -> nth_error (upd k v l) k' = nth_error l k'.
Proof.
  induction l as [|h t IH]; intros k k' v Hne; [now destruct k|].
  destruct k, k'; cbn; try reflexivity; try congruence. apply IH. congruence.
Qed.

(* what a construction has reached depends only on how many steps IT was given *)
Lemma interleave_component js k j : nth_error js k = Some j -> forall order bs b,
  nth_error bs k = Some b ->
  nth_error (interleave js bs order) k = Some (build_steps (count_occ Nat.eq_dec order k) j b).
Proof.
  intros Hj. induction order as [|k0 rest IH]; intros bs b Hb; [exact Hb|].
  cbn [interleave count_occ]. destruct (Nat.eq_dec k0 k) as [->|Hne].
  - rewrite Hj, Hb. cbn [build_steps]. apply IH. exact (upd_same bs k _ b Hb).
  - destruct (nth_error js k0) as [j0|]; [|now apply IH].
    destruct (nth_error bs k0) as [b0|]; [|now apply IH].
    apply IH. rewrite upd_other by exact Hne. exact Hb.
Qed.

Lemma build_steps_sent n j x : build_steps n j (B_sent x) = B_sent x.
Proof. induction n; [reflexivity|exact IHn]. Qed.

Lemma build_steps_four n j : (4 <= n)%nat ->
  build_steps n j B_new = B_sent (send_at (j_sid j) (j_seq j) (j_lat j) (j_lon j) (j_now j)).
Proof.
  intros H. do 4 (destruct n as [|n]; [lia|]). cbn [build_steps build_step]. rewrite build_steps_sent.
  reflexivity.
Qed.

Lemma nth_error_map_const {A B} (l : list A) (c : B) k x : nth_error l k = Some x ->
  nth_error (map (fun _ => c) l) k = Some c.
Proof. intros H. now rewrite nth_error_map, H. Qed.

(* any number of constructions in progress, any order of their steps: a construction
   that was given its four steps has handed over exactly the DENM of the atomic model *)
Lemma construction_private js order k j : nth_error js k = Some j ->
  (4 <= count_occ Nat.eq_dec order k)%nat ->
  nth_error (interleave js (map (fun _ => B_new) js) order) k =
  Some (B_sent (send_at (j_sid j) (j_seq j) (j_lat j) (j_lon j) (j_now j))).
Proof.
  intros Hj Hc. rewrite (interleave_component js k j Hj order _ B_new (nth_error_map_const js B_new k j Hj)).
  now rewrite build_steps_four.
Qed.

(* ... and before that it has handed over nothing, and nothing of another construction *)
Lemma construction_progress js order k j : nth_error js k = Some j ->
  nth_error (interleave js (map (fun _ => B_new) js) order) k =
  Some (build_steps (count_occ Nat.eq_dec order k) j B_new).
Proof.
  intros Hj. exact (interleave_component js k j Hj order _ B_new (nth_error_map_const js B_new k j Hj)).
Qed.
