From FlexVerif Require Import Base.Prelude Base.Bits Base.BitsFacts Model.Lifetime Model.Wire Model.LocT Model.Router
  Proofs.WireProofs Proofs.LocTProofs.
From Coq Require Import ZifyBool.

Ltac brk :=
  repeat match goal with
         | |- context [match ?x with _ => _ end] => destruct x eqn:?
         end.

Definition is_ind (o : output) : bool := match o with OInd _ _ => true | _ => false end.
Definition is_fwd (o : output) : bool := match o with OFwd _ => true | _ => false end.
Definition is_send (o : output) : bool := match o with OFwd _ | OOrig _ => true | _ => false end.
Definition quiet (os : list output) : Prop := forall o, In o os -> is_ind o = false /\ is_send o = false.

Lemma quiet_discard r : quiet [ODiscard r].
Proof. intros o [<-|[]]. split; reflexivity. Qed.
Lemma quiet_nil : quiet [].
Proof. intros o []. Qed.

(* ============ C04: a frame that does not parse, or fails a header check, has no effect ===== *)
Definition malformed (m : mib) (pkt : list Z) : Prop :=
  match dec_basic pkt with
  | None => True
  | Some bv =>
    arg 0 bv <> 1 \/ arg 1 bv <> 1 \/
    match dec_common (skipn 4 pkt) with
    | None => True
    | Some cv =>
      arg 8 cv < arg 5 bv \/ arg 1 cv = 0 \/
      (arg 1 cv = 1 /\ dec_lpv (skipn 12 pkt) = None) \/
      (arg 1 cv = 2 /\ dec_guc (skipn 12 pkt) = None) \/
      ((arg 1 cv = 3 \/ arg 1 cv = 4) /\ dec_gbc (skipn 12 pkt) = None) \/
      ((arg 1 cv = 3 \/ arg 1 cv = 4) /\ exists h, dec_gbc (skipn 12 pkt) = Some h /\ zero_area (arg 2 cv) h = true) \/
      (arg 1 cv = 5 /\ arg 2 cv = 0 /\ dec_lpv (skipn 12 pkt) = None) \/
      (arg 1 cv = 5 /\ arg 2 cv <> 0 /\ dec_tsb (skipn 12 pkt) = None) \/
      (arg 1 cv = 6 /\ arg 2 cv = 0 /\ dec_lsreq (skipn 12 pkt) = None) \/
      (arg 1 cv = 6 /\ arg 2 cv <> 0 /\ dec_guc (skipn 12 pkt) = None)
    end
  end.

Ltac pick9 H :=
  destruct H as [H|[H|[H|[H|[H|[H|[H|[H|H]]]]]]]];
  try (exfalso; lia); try (exfalso; destruct H as [[?|?] ?]; lia); try (exfalso; destruct H as (? & ? & ?); lia);
  try (exfalso; destruct H as [? ?]; lia).

Theorem malformed_no_effect m s now g pkt : malformed m pkt ->
  exists r, rx m s now g pkt = (s, [ODiscard r]).
Proof.
  unfold malformed, rx. cbv zeta. destruct (dec_basic pkt) as [bv|]; [|eauto].
  intros H. destruct (Z.eqb_spec (arg 0 bv) 1) as [Hv|Hv]; cbn [negb]; [|eauto].
  destruct (Z.eqb_spec (arg 1 bv) 2) as [H2|H2]; [eauto|].
  destruct (Z.eqb_spec (arg 1 bv) 1) as [H1|H1]; cbn [negb]; [|eauto].
  destruct H as [H|[H|H]]; [contradiction|contradiction|].
  destruct (dec_common (skipn 4 pkt)) as [cv|]; [|eauto].
  destruct (Z.ltb_spec (arg 8 cv) (arg 5 bv)) as [Hh|Hh]; [eauto|].
  destruct H as [H|H]; [lia|].
  destruct (Z.eqb_spec (arg 1 cv) 1) as [E1|E1].
  { pick9 H. destruct H as [_ H]. unfold rx_beacon. rewrite H. eauto. }
  destruct (Z.eqb_spec (arg 1 cv) 2) as [E2|E2].
  { pick9 H. destruct H as [_ H]. unfold rx_guc. rewrite H. eauto. }
  destruct (Z.eqb_spec (arg 1 cv) 3) as [E3|E3].
  { pick9 H.
    - destruct H as [_ H]. unfold rx_gac. rewrite H. eauto.
    - destruct H as [_ [h [Hd Hz]]]. unfold rx_gac. rewrite Hd, Hz. eauto. }
  destruct (Z.eqb_spec (arg 1 cv) 4) as [E4|E4].
  { pick9 H.
    - destruct H as [_ H]. unfold rx_gbc. rewrite H. eauto.
    - destruct H as [_ [h [Hd Hz]]]. unfold rx_gbc. rewrite Hd, Hz. eauto. }
  destruct (Z.eqb_spec (arg 1 cv) 5) as [E5|E5].
  { pick9 H.
    - destruct H as (_ & Hs & H). rewrite Hs. change (0 =? 0) with true. cbv iota. unfold rx_beacon. rewrite H. eauto.
    - destruct H as (_ & Hs & H). destruct (Z.eqb_spec (arg 2 cv) 0); [contradiction|]. unfold rx_tsb. rewrite H. eauto. }
  destruct (Z.eqb_spec (arg 1 cv) 6) as [E6|E6].
  { pick9 H.
    - destruct H as (_ & Hs & H). rewrite Hs. change (0 =? 0) with true. cbv iota. unfold rx_lsreq. rewrite H. eauto.
    - destruct H as (_ & Hs & H). destruct (Z.eqb_spec (arg 2 cv) 0); [contradiction|]. unfold rx_lsrep. rewrite H. eauto. }
  eauto.
Qed.

(* ============ C06 / C08: a packet bearing the station's own address ======================== *)
Lemma own_beacon m s now body pv d : dec_lpv body = Some pv -> mid_eqb (pv_addr pv) (m_addr m) = true ->
  rx_beacon m s now body d = (s, [ODiscard R_DAD]).
Proof. unfold rx_beacon. intros -> ->. reflexivity. Qed.

Lemma own_tsb m s now bv cv body h : dec_tsb body = Some h -> mid_eqb (pv_addr (skipn 2 h)) (m_addr m) = true ->
  rx_tsb m s now bv cv body = (s, [ODiscard R_DAD]).
Proof. unfold rx_tsb. intros -> ->. reflexivity. Qed.

Lemma own_gbc m s now g bv cv body h : dec_gbc body = Some h ->
  mid_eqb (pv_addr (firstn 9 (skipn 2 h))) (m_addr m) = true ->
  exists o, rx_gbc m s now g bv cv body = (s, [o]) /\ is_ind o = false /\ is_send o = false.
Proof.
  unfold rx_gbc. intros -> E. destruct (zero_area _ _); [eexists; repeat split|].
  destruct (lookup_ins _ _ _); [|eexists; repeat split]. rewrite E. eexists; repeat split.
Qed.

Lemma own_gac m s now g bv cv body h : dec_gbc body = Some h ->
  mid_eqb (pv_addr (firstn 9 (skipn 2 h))) (m_addr m) = true ->
  exists o, rx_gac m s now g bv cv body = (s, [o]) /\ is_ind o = false /\ is_send o = false.
Proof.
  unfold rx_gac. intros -> E. destruct (zero_area _ _); [eexists; repeat split|].
  destruct (lookup_ins _ _ _); [|eexists; repeat split]. rewrite E. eexists; repeat split.
Qed.

Lemma own_guc m s now g bv cv body h : dec_guc body = Some h ->
  mid_eqb (pv_addr (firstn 9 (skipn 2 h))) (m_addr m) = true ->
  rx_guc m s now g bv cv body = (s, [ODiscard R_DAD]).
Proof. unfold rx_guc. intros -> ->. reflexivity. Qed.

Lemma own_lsreq m s now bv cv body h : dec_lsreq body = Some h ->
  mid_eqb (pv_addr (firstn 9 (skipn 2 h))) (m_addr m) = true ->
  rx_lsreq m s now bv cv body = (s, [ODiscard R_DAD]).
Proof. unfold rx_lsreq. intros -> ->. reflexivity. Qed.

Lemma own_lsrep m s now g bv cv body h : dec_guc body = Some h ->
  mid_eqb (pv_addr (firstn 9 (skipn 2 h))) (m_addr m) = true ->
  rx_lsrep m s now g bv cv body = (s, [ODiscard R_DAD]).
Proof. unfold rx_lsrep. intros -> ->. reflexivity. Qed.

(* the source address of a packet, when its headers parse *)
Definition so_addr (pkt : list Z) : option (list Z) :=
  match dec_common (skipn 4 pkt) with
  | None => None
  | Some cv =>
    let body := skipn 12 pkt in let ht := arg 1 cv in
    if (ht =? 1) || ((ht =? 5) && (arg 2 cv =? 0)) then option_map pv_addr (dec_lpv body)
    else if ht =? 5 then option_map (fun h => pv_addr (skipn 2 h)) (dec_tsb body)
    else if (ht =? 3) || (ht =? 4) then option_map (fun h => pv_addr (firstn 9 (skipn 2 h))) (dec_gbc body)
    else if ht =? 2 then option_map (fun h => pv_addr (firstn 9 (skipn 2 h))) (dec_guc body)
    else if ht =? 6 then
      if arg 2 cv =? 0 then option_map (fun h => pv_addr (firstn 9 (skipn 2 h))) (dec_lsreq body)
      else option_map (fun h => pv_addr (firstn 9 (skipn 2 h))) (dec_guc body)
    else None
  end.

Theorem own_packet_ignored m s now g pkt a : so_addr pkt = Some a -> mid_eqb a (m_addr m) = true ->
  fst (rx m s now g pkt) = s /\ quiet (snd (rx m s now g pkt)).
Proof.
  unfold so_addr, rx. cbv zeta. intros Ha Hm.
  destruct (dec_basic pkt) as [bv|]; [|split; [reflexivity | apply quiet_discard]].
  destruct (negb (arg 0 bv =? 1)); [split; [reflexivity | apply quiet_discard]|].
  destruct (arg 1 bv =? 2); [split; [reflexivity | apply quiet_discard]|].
  destruct (negb (arg 1 bv =? 1)); [split; [reflexivity | apply quiet_discard]|].
  destruct (dec_common (skipn 4 pkt)) as [cv|]; [|discriminate].
  destruct (arg 8 cv <? arg 5 bv); [split; [reflexivity | apply quiet_discard]|].
  destruct (arg 1 cv =? 1) eqn:E1; cbn [orb] in Ha.
  { destruct (dec_lpv (skipn 12 pkt)) as [pv|] eqn:D; [|discriminate]. injection Ha as <-.
    rewrite (own_beacon _ _ _ _ _ _ D Hm). split; [reflexivity | apply quiet_discard]. }
  destruct (arg 1 cv =? 2) eqn:E2.
  { assert (E5 : (arg 1 cv =? 5) = false) by lia. assert (E3 : (arg 1 cv =? 3) = false) by lia.
    assert (E4 : (arg 1 cv =? 4) = false) by lia. rewrite E5, E3, E4 in Ha. cbn [orb andb] in Ha.
    destruct (dec_guc (skipn 12 pkt)) as [h|] eqn:D; [|discriminate]. injection Ha as <-.
    rewrite (own_guc _ _ _ _ _ _ _ _ D Hm). split; [reflexivity | apply quiet_discard]. }
  destruct (arg 1 cv =? 3) eqn:E3.
  { assert (E5 : (arg 1 cv =? 5) = false) by lia. rewrite E5 in Ha. cbn [orb andb] in Ha.
    destruct (dec_gbc (skipn 12 pkt)) as [h|] eqn:D; [|discriminate]. injection Ha as <-.
    destruct (own_gac m s now g bv cv _ _ D Hm) as (o & -> & Hi & Hs). split; [reflexivity|].
    intros o' [<-|[]]. auto. }
  destruct (arg 1 cv =? 4) eqn:E4.
  { assert (E5 : (arg 1 cv =? 5) = false) by lia. rewrite E5 in Ha. cbn [orb andb] in Ha.
    destruct (dec_gbc (skipn 12 pkt)) as [h|] eqn:D; [|discriminate]. injection Ha as <-.
    destruct (own_gbc m s now g bv cv _ _ D Hm) as (o & -> & Hi & Hs). split; [reflexivity|].
    intros o' [<-|[]]. auto. }
  destruct (arg 1 cv =? 5) eqn:E5.
  { destruct (arg 2 cv =? 0) eqn:E0; cbn [orb andb] in Ha.
    - destruct (dec_lpv (skipn 12 pkt)) as [pv|] eqn:D; [|discriminate]. injection Ha as <-.
      rewrite (own_beacon _ _ _ _ _ _ D Hm). split; [reflexivity | apply quiet_discard].
    - destruct (dec_tsb (skipn 12 pkt)) as [h|] eqn:D; [|discriminate]. injection Ha as <-.
      rewrite (own_tsb _ _ _ _ _ _ _ D Hm). split; [reflexivity | apply quiet_discard]. }
  cbn [orb andb] in Ha. destruct (arg 1 cv =? 6) eqn:E6; [|discriminate].
  destruct (arg 2 cv =? 0) eqn:E0.
  - destruct (dec_lsreq (skipn 12 pkt)) as [h|] eqn:D; [|discriminate]. injection Ha as <-.
    rewrite (own_lsreq _ _ _ _ _ _ _ D Hm). split; [reflexivity | apply quiet_discard].
  - destruct (dec_guc (skipn 12 pkt)) as [h|] eqn:D; [|discriminate]. injection Ha as <-.
    rewrite (own_lsrep _ _ _ _ _ _ _ _ D Hm). split; [reflexivity | apply quiet_discard].
Qed.
