From FlexVerif Require Import Base.Prelude Base.Bits Base.BitsFacts Model.Lifetime Model.Wire Model.LocT Model.Router
  Proofs.WireProofs Proofs.LocTProofs.
From Coq Require Import ZifyBool.

Ltac brk :=
  repeat match goal with
         | |- context [match ?x with _ => _ end] => destruct x eqn:?
         end.

Definition is_ind (o : output) : bool := match o with OInd _ _ => true | _ => false end.
Definition is_fwd (o : output) : bool := match o with OFwd _ => true | _ => false end.
Definition is_send (o : output) : bool := match o with OFwd _ | OOrig _ => true | _ => false end.
Definition quiet (os : list output) : Prop := forall o, In o os -> is_ind o = false /\ is_send o = false.

Lemma quiet_discard r : quiet [ODiscard r].
Proof. intros o [<-|[]]. split; reflexivity. Qed.
Lemma quiet_nil : quiet [].
Proof. intros o []. Qed.

(* ============ C04: a frame that does not parse, or fails a header check, has no effect ===== *)
Definition malformed (m : mib) (pkt : list Z) : Prop :=
  match dec_basic pkt with
  | None => True
  | Some bv =>
    arg 0 bv <> 1 \/ arg 1 bv <> 1 \/
    match dec_common (skipn 4 pkt) with
    | None => True
    | Some cv =>
      arg 8 cv < arg 5 bv \/ arg 1 cv = 0 \/
      (arg 1 cv = 1 /\ dec_lpv (skipn 12 pkt) = None) \/
      (arg 1 cv = 2 /\ dec_guc (skipn 12 pkt) = None) \/
      ((arg 1 cv = 3 \/ arg 1 cv = 4) /\ dec_gbc (skipn 12 pkt) = None) \/
      ((arg 1 cv = 3 \/ arg 1 cv = 4) /\ exists h, dec_gbc (skipn 12 pkt) = Some h /\ zero_area (arg 2 cv) h = true) \/
      (arg 1 cv = 5 /\ arg 2 cv = 0 /\ dec_lpv (skipn 12 pkt) = None) \/
      (arg 1 cv = 5 /\ arg 2 cv <> 0 /\ dec_tsb (skipn 12 pkt) = None) \/
      (arg 1 cv = 6 /\ arg 2 cv = 0 /\ dec_lsreq (skipn 12 pkt) = None) \/
      (arg 1 cv = 6 /\ arg 2 cv <> 0 /\ dec_guc (skipn 12 pkt) = None)
    end
  end.

Ltac pick9 H :=
  destruct H as [H|[H|[H|[H|[H|[H|[H|[H|H]]]]]]]];
  try (exfalso; lia); try (exfalso; destruct H as [[?|?] ?]; lia); try (exfalso; destruct H as (? & ? & ?); lia);
  try (exfalso; destruct H as [? ?]; lia).

Theorem malformed_no_effect m s now g pkt : malformed m pkt ->
  exists r, rx m s now g pkt = (s, [ODiscard r]).
Proof.
  unfold malformed, rx. cbv zeta. destruct (dec_basic pkt) as [bv|]; [|eauto].
  intros H. destruct (Z.eqb_spec (arg 0 bv) 1) as [Hv|Hv]; cbn [negb]; [|eauto].
  destruct (Z.eqb_spec (arg 1 bv) 2) as [H2|H2]; [eauto|].
  destruct (Z.eqb_spec (arg 1 bv) 1) as [H1|H1]; cbn [negb]; [|eauto].
  destruct H as [H|[H|H]]; [contradiction|contradiction|].
  destruct (dec_common (skipn 4 pkt)) as [cv|]; [|eauto].
  destruct (Z.ltb_spec (arg 8 cv) (arg 5 bv)) as [Hh|Hh]; [eauto|].
  destruct H as [H|H]; [lia|].
  destruct (Z.eqb_spec (arg 1 cv) 1) as [E1|E1].
  { pick9 H. destruct H as [_ H]. unfold rx_beacon. rewrite H. eauto. }
  destruct (Z.eqb_spec (arg 1 cv) 2) as [E2|E2].
  { pick9 H. destruct H as [_ H]. unfold rx_guc. rewrite H. eauto. }
  destruct (Z.eqb_spec (arg 1 cv) 3) as [E3|E3].
  { pick9 H.
    - destruct H as [_ H]. unfold rx_gac. rewrite H. eauto.
    - destruct H as [_ [h [Hd Hz]]]. unfold rx_gac. rewrite Hd, Hz. eauto. }
  destruct (Z.eqb_spec (arg 1 cv) 4) as [E4|E4].
  { pick9 H.
    - destruct H as [_ H]. unfold rx_gbc. rewrite H. eauto.
    - destruct H as [_ [h [Hd Hz]]]. unfold rx_gbc. rewrite Hd, Hz. eauto. }
  destruct (Z.eqb_spec (arg 1 cv) 5) as [E5|E5].
  { pick9 H.
    - destruct H as (_ & Hs & H). rewrite Hs. change (0 =? 0) with true. cbv iota. unfold rx_beacon. rewrite H. eauto.
    - destruct H as (_ & Hs & H). destruct (Z.eqb_spec (arg 2 cv) 0); [contradiction|]. unfold rx_tsb. rewrite H. eauto. }
  destruct (Z.eqb_spec (arg 1 cv) 6) as [E6|E6].
  { pick9 H.
    - destruct H as (_ & Hs & H). rewrite Hs. change (0 =? 0) with true. cbv iota. unfold rx_lsreq. rewrite H. eauto.
    - destruct H as (_ & Hs & H). destruct (Z.eqb_spec (arg 2 cv) 0); [contradiction|]. unfold rx_lsrep. rewrite H. eauto. }
  eauto.
Qed.

(* ============ C06 / C08: a packet bearing the station's own address ======================== *)
Lemma own_beacon m s now body pv d : dec_lpv body = Some pv -> mid_eqb (pv_addr pv) (m_addr m) = true ->
  rx_beacon m s now body d = (s, [ODiscard R_DAD]).
Proof. unfold rx_beacon. intros -> ->. reflexivity. Qed.

Lemma own_tsb m s now bv cv body h : dec_tsb body = Some h -> mid_eqb (pv_addr (skipn 2 h)) (m_addr m) = true ->
  rx_tsb m s now bv cv body = (s, [ODiscard R_DAD]).
Proof. unfold rx_tsb. intros -> ->. reflexivity. Qed.

Lemma own_gbc m s now g bv cv body h : dec_gbc body = Some h ->
  mid_eqb (pv_addr (firstn 9 (skipn 2 h))) (m_addr m) = true ->
  exists o, rx_gbc m s now g bv cv body = (s, [o]) /\ is_ind o = false /\ is_send o = false.
Proof.
  unfold rx_gbc. intros -> E. destruct (zero_area _ _); [eexists; repeat split|].
  destruct (lookup_ins _ _ _); [|eexists; repeat split]. rewrite E. eexists; repeat split.
Qed.

Lemma own_gac m s now g bv cv body h : dec_gbc body = Some h ->
  mid_eqb (pv_addr (firstn 9 (skipn 2 h))) (m_addr m) = true ->
  exists o, rx_gac m s now g bv cv body = (s, [o]) /\ is_ind o = false /\ is_send o = false.
Proof.
  unfold rx_gac. intros -> E. destruct (zero_area _ _); [eexists; repeat split|].
  destruct (lookup_ins _ _ _); [|eexists; repeat split]. rewrite E. eexists; repeat split.
Qed.

Lemma own_guc m s now g bv cv body h : dec_guc body = Some h ->
  mid_eqb (pv_addr (firstn 9 (skipn 2 h))) (m_addr m) = true ->
  rx_guc m s now g bv cv body = (s, [ODiscard R_DAD]).
Proof. unfold rx_guc. intros -> ->. reflexivity. Qed.

Lemma own_lsreq m s now bv cv body h : dec_lsreq body = Some h ->
  mid_eqb (pv_addr (firstn 9 (skipn 2 h))) (m_addr m) = true ->
  rx_lsreq m s now bv cv body = (s, [ODiscard R_DAD]).
Proof. unfold rx_lsreq. intros -> ->. reflexivity. Qed.

Lemma own_lsrep m s now g bv cv body h : dec_guc body = Some h ->
  mid_eqb (pv_addr (firstn 9 (skipn 2 h))) (m_addr m) = true ->
  rx_lsrep m s now g bv cv body = (s, [ODiscard R_DAD]).
Proof. unfold rx_lsrep. intros -> ->. reflexivity. Qed.

(* the source address of a packet, when its headers parse *)
Definition so_addr (pkt : list Z) : option (list Z) :=
  match dec_common (skipn 4 pkt) with
  | None => None
  | Some cv =>
    let body := skipn 12 pkt in let ht := arg 1 cv in
    if (ht =? 1) || ((ht =? 5) && (arg 2 cv =? 0)) then option_map pv_addr (dec_lpv body)
    else if ht =? 5 then option_map (fun h => pv_addr (skipn 2 h)) (dec_tsb body)
    else if (ht =? 3) || (ht =? 4) then option_map (fun h => pv_addr (firstn 9 (skipn 2 h))) (dec_gbc body)
    else if ht =? 2 then option_map (fun h => pv_addr (firstn 9 (skipn 2 h))) (dec_guc body)
    else if ht =? 6 then
      if arg 2 cv =? 0 then option_map (fun h => pv_addr (firstn 9 (skipn 2 h))) (dec_lsreq body)
      else option_map (fun h => pv_addr (firstn 9 (skipn 2 h))) (dec_guc body)
    else None
  end.

Theorem own_packet_ignored m s now g pkt a : so_addr pkt = Some a -> mid_eqb a (m_addr m) = true ->
  fst (rx m s now g pkt) = s /\ quiet (snd (rx m s now g pkt)).
Proof.
  unfold so_addr, rx. cbv zeta. intros Ha Hm.
  destruct (dec_basic pkt) as [bv|]; [|split; [reflexivity | apply quiet_discard]].
  destruct (negb (arg 0 bv =? 1)); [split; [reflexivity | apply quiet_discard]|].
  destruct (arg 1 bv =? 2); [split; [reflexivity | apply quiet_discard]|].
  destruct (negb (arg 1 bv =? 1)); [split; [reflexivity | apply quiet_discard]|].
  destruct (dec_common (skipn 4 pkt)) as [cv|]; [|discriminate].
  destruct (arg 8 cv <? arg 5 bv); [split; [reflexivity | apply quiet_discard]|].
  destruct (arg 1 cv =? 1) eqn:E1; cbn [orb] in Ha.
  { destruct (dec_lpv (skipn 12 pkt)) as [pv|] eqn:D; [|discriminate]. injection Ha as <-.
    rewrite (own_beacon _ _ _ _ _ _ D Hm). split; [reflexivity | apply quiet_discard]. }
  destruct (arg 1 cv =? 2) eqn:E2.
  { assert (E5 : (arg 1 cv =? 5) = false) by lia. assert (E3 : (arg 1 cv =? 3) = false) by lia.
    assert (E4 : (arg 1 cv =? 4) = false) by lia. rewrite E5, E3, E4 in Ha. cbn [orb andb] in Ha.
    destruct (dec_guc (skipn 12 pkt)) as [h|] eqn:D; [|discriminate]. injection Ha as <-.
    rewrite (own_guc _ _ _ _ _ _ _ _ D Hm). split; [reflexivity | apply quiet_discard]. }
  destruct (arg 1 cv =? 3) eqn:E3.
  { assert (E5 : (arg 1 cv =? 5) = false) by lia. rewrite E5 in Ha. cbn [orb andb] in Ha.
    destruct (dec_gbc (skipn 12 pkt)) as [h|] eqn:D; [|discriminate]. injection Ha as <-.
    destruct (own_gac m s now g bv cv _ _ D Hm) as (o & -> & Hi & Hs). split; [reflexivity|].
    intros o' [<-|[]]. auto. }
  destruct (arg 1 cv =? 4) eqn:E4.
  { assert (E5 : (arg 1 cv =? 5) = false) by lia. rewrite E5 in Ha. cbn [orb andb] in Ha.
    destruct (dec_gbc (skipn 12 pkt)) as [h|] eqn:D; [|discriminate]. injection Ha as <-.
    destruct (own_gbc m s now g bv cv _ _ D Hm) as (o & -> & Hi & Hs). split; [reflexivity|].
    intros o' [<-|[]]. auto. }
  destruct (arg 1 cv =? 5) eqn:E5.
  { destruct (arg 2 cv =? 0) eqn:E0; cbn [orb andb] in Ha.
    - destruct (dec_lpv (skipn 12 pkt)) as [pv|] eqn:D; [|discriminate]. injection Ha as <-.
      rewrite (own_beacon _ _ _ _ _ _ D Hm). split; [reflexivity | apply quiet_discard].
    - destruct (dec_tsb (skipn 12 pkt)) as [h|] eqn:D; [|discriminate]. injection Ha as <-.
      rewrite (own_tsb _ _ _ _ _ _ _ D Hm). split; [reflexivity | apply quiet_discard]. }
  cbn [orb andb] in Ha. destruct (arg 1 cv =? 6) eqn:E6; [|discriminate].
  destruct (arg 2 cv =? 0) eqn:E0.
  - destruct (dec_lsreq (skipn 12 pkt)) as [h|] eqn:D; [|discriminate]. injection Ha as <-.
    rewrite (own_lsreq _ _ _ _ _ _ _ D Hm). split; [reflexivity | apply quiet_discard].
  - destruct (dec_guc (skipn 12 pkt)) as [h|] eqn:D; [|discriminate]. injection Ha as <-.
    rewrite (own_lsrep _ _ _ _ _ _ _ _ D Hm). split; [reflexivity | apply quiet_discard].
Qed.

(* ============ helpers on outputs ============================================================ *)
Lemma in_single {A} (x y : A) : In x [y] -> x = y.
Proof. intros [H|[]]; auto. Qed.


(* what a forwarded copy looks like: the received basic header with RHL - 1, RHL at least 2 *)
Definition fwd_ok (bv p : list Z) : Prop :=
  1 < arg 5 bv /\ exists rest, p = enc_basic (bv_rhl bv (arg 5 bv - 1)) ++ rest.

Lemma fwd_plain_ok bv cv ext payload o : In o (fwd_plain bv cv ext payload) ->
  exists p, o = OFwd p /\ fwd_ok bv p.
Proof.
  unfold fwd_plain. destruct (Z.ltb_spec 0 (arg 5 bv - 1)) as [H|H]; [|intros []].
  intros [<-|[]]. eexists. split; [reflexivity|]. split; [lia|]. eexists. reflexivity.
Qed.

Lemma gbc_packet_ok bv cv h payload : 0 < arg 5 bv - 1 -> fwd_ok bv (gbc_packet bv cv h payload (arg 5 bv - 1)).
Proof. intros H. split; [lia|]. unfold gbc_packet. eexists. reflexivity. Qed.

Lemma guc_packet_ok bv cv hd pv de payload : 0 < arg 5 bv - 1 ->
  fwd_ok bv (guc_packet bv cv hd pv de payload (arg 5 bv - 1)).
Proof. intros H. split; [lia|]. unfold guc_packet. eexists. reflexivity. Qed.

(* origination never produces OFwd / OInd *)
Definition no_fwd_ind (os : list output) : Prop := forall o, In o os -> is_fwd o = false /\ is_ind o = false.

Lemma no_fwd_ind_app a b : no_fwd_ind a -> no_fwd_ind b -> no_fwd_ind (a ++ b).
Proof. intros Ha Hb o H. apply in_app_or in H as [H|H]; auto. Qed.

Lemma send_lsreq_out m s sought : no_fwd_ind (snd (send_lsreq m s sought)).
Proof. unfold send_lsreq. destruct (take_sn s). cbn. intros o [<-|[]]. split; reflexivity. Qed.

Lemma ls_request_out m s sought req : no_fwd_ind (snd (ls_request m s sought req)).
Proof.
  unfold ls_request.
  assert (G : forall s1, no_fwd_ind (snd (let '(s2, o) := send_lsreq m s1 sought in (s2, o ++ [OTimerStart 2 sought])))).
  { intros s1. pose proof (send_lsreq_out m s1 sought) as H. destruct (send_lsreq m s1 sought) as [s2 o]. cbn in *.
    apply no_fwd_ind_app; [exact H|]. intros x [<-|[]]. split; reflexivity. }
  destruct (find (s_loct s) sought) as [e|].
  - destruct (e_ls e).
    + destruct req; [destruct (ls_find _ _)|]; cbn; intros o [].
    + apply G.
  - apply G.
Qed.

Lemma req_guc_out m s g dest r : no_fwd_ind (snd (req_guc m s g dest r)).
Proof.
  unfold req_guc. destruct (find (s_loct s) dest) as [e|]; [|apply ls_request_out].
  destruct (match ls_find (s_ls s) dest with Some _ => true | None => false end); [apply ls_request_out|].
  destruct (take_sn s) as [s1 n]. destruct (negb (has_nb s1) && z2b (arg 3 r)); [intros o []|].
  destruct (greedy _ _ _ _ _) as [[|]|]; cbn; intros o H; try (destruct H as [<-|[]]; split; reflexivity); destruct H.
Qed.

Lemma flush_guc_out m g dest rs : forall s, no_fwd_ind (snd (flush_guc m s g dest rs)).
Proof.
  induction rs as [|r rs IH]; intros s; cbn; [intros o []|].
  pose proof (req_guc_out m s g dest r) as H1. destruct (req_guc m s g dest r) as [s1 o1].
  specialize (IH s1). destruct (flush_guc m s1 g dest rs) as [s2 o2]. cbn in *. apply no_fwd_ind_app; assumption.
Qed.

(* ============ C06: every forwarded copy carries RHL - 1, and none is made for RHL 0 or 1 ===== *)
Lemma tsb_fwd m s now bv cv body p : In (OFwd p) (snd (rx_tsb m s now bv cv body)) -> fwd_ok bv p.
Proof.
  unfold rx_tsb. destruct (dec_tsb body) as [h|]; [|intros [H|[]]; discriminate].
  destruct (mid_eqb _ _); [intros [H|[]]; discriminate|].
  destruct (rx_mh _ _ _ _ _ _) as [t|]; [|intros [H|[]]; discriminate].
  cbn [snd]. intros [H|H]; [discriminate|].
  destruct (negb (has_nb _) && z2b (arg 3 cv)); [destruct H|].
  apply fwd_plain_ok in H as (q & E & Hq). injection E as <-. exact Hq.
Qed.

Lemma beacon_fwd m s now body d p : (forall pv, match d with Some f => is_fwd (f pv) = false | None => True end) ->
  In (OFwd p) (snd (rx_beacon m s now body d)) -> False.
Proof.
  intros Hd. unfold rx_beacon. destruct (dec_lpv body) as [pv|]; [|intros [H|[]]; discriminate].
  destruct (mid_eqb _ _); [intros [H|[]]; discriminate|].
  destruct d as [f|]; cbn; [|intros []]. intros [H|[]]. specialize (Hd pv). cbn in Hd. rewrite H in Hd. discriminate.
Qed.

Ltac in_cases H :=
  repeat match type of H with
         | In _ (_ ++ _) => apply in_app_or in H as [H|H]
         | In _ (_ :: _) => destruct H as [H|H]
         | In _ [] => destruct H
         | In _ (if ?c then _ else _) => destruct c
         end.

Lemma gbc_fwd m s now g bv cv body p : In (OFwd p) (snd (rx_gbc m s now g bv cv body)) -> fwd_ok bv p.
Proof.
  unfold rx_gbc. cbv zeta. intros H.
  repeat match type of H with
         | context [match ?x with _ => _ end] => destruct x eqn:?
         end; cbn [snd] in H; in_cases H; try discriminate;
  try (injection H as <-; apply gbc_packet_ok; lia).
Qed.

Lemma gac_fwd m s now g bv cv body p : In (OFwd p) (snd (rx_gac m s now g bv cv body)) -> fwd_ok bv p.
Proof.
  unfold rx_gac. cbv zeta. intros H.
  repeat match type of H with
         | context [match ?x with _ => _ end] => destruct x eqn:?
         end; cbn [snd] in H; in_cases H; try discriminate;
  try (injection H as <-; apply gbc_packet_ok; lia).
Qed.

Lemma guc_fwd m s now g bv cv body p : In (OFwd p) (snd (rx_guc m s now g bv cv body)) -> fwd_ok bv p.
Proof.
  unfold rx_guc. cbv zeta. intros H.
  repeat match type of H with
         | context [match ?x with _ => _ end] => destruct x eqn:?
         end; cbn [snd] in H; in_cases H; try discriminate;
  try (injection H as <-; apply guc_packet_ok; lia).
Qed.

Lemma lsreq_fwd m s now bv cv body p : In (OFwd p) (snd (rx_lsreq m s now bv cv body)) -> fwd_ok bv p.
Proof.
  unfold rx_lsreq. cbv zeta. intros H.
  repeat match type of H with
         | context [match ?x with _ => _ end] => destruct x eqn:?
         end; cbn [snd] in H; in_cases H; try discriminate.
  apply fwd_plain_ok in H as (q & E & Hq). injection E as <-. exact Hq.
Qed.

Lemma lsrep_fwd m s now g bv cv body p : In (OFwd p) (snd (rx_lsrep m s now g bv cv body)) -> fwd_ok bv p.
Proof.
  unfold rx_lsrep. cbv zeta. intros H.
  destruct (dec_guc body) as [h|]; [|cbn [snd] in H; in_cases H; discriminate].
  destruct (mid_eqb (pv_addr (firstn 9 (skipn 2 h))) (m_addr m)); [cbn [snd] in H; in_cases H; discriminate|].
  destruct (rx_mh _ _ _ _ _ _) as [t|]; [|cbn [snd] in H; in_cases H; discriminate].
  destruct (mid_eqb (firstn 3 (skipn 11 h)) (m_addr m)).
  - match type of H with context [flush_guc ?m ?s ?g ?d ?rs] =>
      pose proof (flush_guc_out m g d rs s) as F; destruct (flush_guc m s g d rs) as [s3 o] end.
    cbn [snd] in *. apply in_app_or in H as [H|H].
    + destruct (match ls_find _ _ with Some _ => true | None => false end); in_cases H; discriminate.
    + destruct (F _ H) as [C _]. discriminate.
  - destruct (Z.ltb_spec 0 (arg 5 bv - 1)); cbn [snd] in H; in_cases H; try discriminate.
    injection H as <-. apply guc_packet_ok. lia.
Qed.

Theorem forwarded_copy_has_rhl_minus_1 m s now g pkt bv p :
  dec_basic pkt = Some bv -> In (OFwd p) (snd (rx m s now g pkt)) -> fwd_ok bv p.
Proof.
  unfold rx. cbv zeta. intros -> H.
  destruct (negb (arg 0 bv =? 1)); [cbn [snd] in H; in_cases H; discriminate|].
  destruct (arg 1 bv =? 2); [cbn [snd] in H; in_cases H; discriminate|].
  destruct (negb (arg 1 bv =? 1)); [cbn [snd] in H; in_cases H; discriminate|].
  destruct (dec_common (skipn 4 pkt)) as [cv|]; [|cbn [snd] in H; in_cases H; discriminate].
  destruct (arg 8 cv <? arg 5 bv); [cbn [snd] in H; in_cases H; discriminate|].
  destruct (arg 1 cv =? 1). { exfalso. eapply beacon_fwd; [|exact H]. intros; exact I. }
  destruct (arg 1 cv =? 2). { eapply guc_fwd; exact H. }
  destruct (arg 1 cv =? 3). { eapply gac_fwd; exact H. }
  destruct (arg 1 cv =? 4). { eapply gbc_fwd; exact H. }
  destruct (arg 1 cv =? 5).
  { destruct (arg 2 cv =? 0); [|eapply tsb_fwd; exact H].
    exfalso. eapply beacon_fwd; [|exact H]. intros pv. reflexivity. }
  destruct (arg 1 cv =? 6); [|cbn [snd] in H; in_cases H; discriminate].
  destruct (arg 2 cv =? 0); [eapply lsreq_fwd | eapply lsrep_fwd]; exact H.
Qed.

Corollary no_forward_for_rhl_0_or_1 m s now g pkt bv p :
  dec_basic pkt = Some bv -> arg 5 bv <= 1 -> ~ In (OFwd p) (snd (rx m s now g pkt)).
Proof. intros D Hr H. destruct (forwarded_copy_has_rhl_minus_1 _ _ _ _ _ _ _ D H) as [L _]. lia. Qed.

(* packets waiting in the CBF buffer were put there with RHL - 1 >= 1 as well *)
Lemma gbc_cbf_buffered m s now g bv cv body k p :
  In (k, p) (s_cbf (fst (rx_gbc m s now g bv cv body))) -> In (k, p) (s_cbf s) \/ fwd_ok bv p.
Proof.
  unfold rx_gbc. cbv zeta. intros H.
  repeat match type of H with
         | context [match ?x with _ => _ end] => destruct x eqn:?
         end; cbn [fst s_cbf set_cbf set_loct] in H; auto;
  try (unfold cbf_remove in H; apply filter_In in H as [H _]; auto).
  apply in_app_or in H as [H|H]; [auto|]. in_cases H. injection H as _ <-. right. apply gbc_packet_ok. lia.
Qed.

(* ============ C06: contention-based forwarding buffer ============================================ *)
Lemma cbf_find_remove c k : cbf_find (cbf_remove c k) k = None.
Proof.
  unfold cbf_remove. induction c as [|[k' p] c IH]; cbn; [reflexivity|].
  destruct (list_eqb k' k) eqn:E; cbn; [exact IH|]. rewrite E. exact IH.
Qed.

Theorem cbf_sent_at_most_once s key : cbf_fire (fst (cbf_fire s key)) key = (fst (cbf_fire s key), []).
Proof.
  unfold cbf_fire at 2 3. destruct (cbf_find (s_cbf s) key) eqn:F; cbn [fst].
  - unfold cbf_fire. cbn [s_cbf set_cbf]. rewrite cbf_find_remove. reflexivity.
  - unfold cbf_fire. rewrite F. reflexivity.
Qed.

Theorem cbf_duplicate_cancels m s now g bv cv body h p0 :
  dec_gbc body = Some h -> zero_area (arg 2 cv) h = false ->
  lookup_ins (g_ins g) (pv_lat (s_ego s)) (pv_lon (s_ego s)) <> None ->
  mid_eqb (pv_addr (firstn 9 (skipn 2 h))) (m_addr m) = false ->
  rx_mh (s_loct s) (firstn 9 (skipn 2 h)) (arg 0 h) now (m_life_ms m) (m_dpl_len m) = None ->   (* a duplicate *)
  cbf_find (s_cbf s) (pv_addr (firstn 9 (skipn 2 h)) ++ [arg 0 h]) = Some p0 ->                 (* still buffered *)
  let key := pv_addr (firstn 9 (skipn 2 h)) ++ [arg 0 h] in
  let s' := fst (rx_gbc m s now g bv cv body) in
  In (OTimerCancel 1 key) (snd (rx_gbc m s now g bv cv body)) /\ quiet (snd (rx_gbc m s now g bv cv body)) /\
  cbf_fire s' key = (s', []).
Proof.
  intros D Z I A R F key s'. unfold s', key, rx_gbc. cbv zeta. rewrite D, Z.
  destruct (lookup_ins _ _ _) as [inside|]; [|congruence]. rewrite A, R, F. cbn [fst snd].
  split; [right; left; reflexivity|]. split.
  - intros o H. cbn [snd] in H. in_cases H; subst; split; reflexivity.
  - unfold cbf_fire. cbn [s_cbf set_cbf]. rewrite cbf_find_remove. reflexivity.
Qed.

(* ============ C06: a duplicate is neither delivered nor forwarded ================================= *)
Theorem duplicate_quiet_tsb m s now bv cv body h : dec_tsb body = Some h ->
  rx_mh (s_loct s) (skipn 2 h) (arg 0 h) now (m_life_ms m) (m_dpl_len m) = None ->
  quiet (snd (rx_tsb m s now bv cv body)) /\ fst (rx_tsb m s now bv cv body) = s.
Proof. unfold rx_tsb. intros -> R. destruct (mid_eqb _ _); [|rewrite R]; split; try reflexivity; apply quiet_discard. Qed.

Theorem duplicate_quiet_gbc m s now g bv cv body h : dec_gbc body = Some h ->
  rx_mh (s_loct s) (firstn 9 (skipn 2 h)) (arg 0 h) now (m_life_ms m) (m_dpl_len m) = None ->
  quiet (snd (rx_gbc m s now g bv cv body)) /\ s_loct (fst (rx_gbc m s now g bv cv body)) = s_loct s.
Proof.
  unfold rx_gbc. cbv zeta. intros -> R. destruct (zero_area _ _); [split; [apply quiet_discard | reflexivity]|].
  destruct (lookup_ins _ _ _); [|split; [|reflexivity]; intros o H; cbn [snd] in H; in_cases H; subst; split; reflexivity].
  destruct (mid_eqb _ _); [split; [apply quiet_discard | reflexivity]|]. rewrite R.
  destruct (cbf_find _ _); (split; [|reflexivity]); intros o H; cbn [snd] in H; in_cases H; subst; split; reflexivity.
Qed.

Theorem duplicate_quiet_gac m s now g bv cv body h : dec_gbc body = Some h ->
  rx_mh (s_loct s) (firstn 9 (skipn 2 h)) (arg 0 h) now (m_life_ms m) (m_dpl_len m) = None ->
  quiet (snd (rx_gac m s now g bv cv body)) /\ fst (rx_gac m s now g bv cv body) = s.
Proof.
  unfold rx_gac. cbv zeta. intros -> R. destruct (zero_area _ _); [split; [apply quiet_discard | reflexivity]|].
  destruct (lookup_ins _ _ _); [|split; [|reflexivity]; intros o H; cbn [snd] in H; in_cases H; subst; split; reflexivity].
  destruct (mid_eqb _ _); [|rewrite R]; (split; [apply quiet_discard | reflexivity]).
Qed.

Theorem duplicate_quiet_guc m s now g bv cv body h : dec_guc body = Some h ->
  rx_mh (s_loct s) (firstn 9 (skipn 2 h)) (arg 0 h) now (m_life_ms m) (m_dpl_len m) = None ->
  quiet (snd (rx_guc m s now g bv cv body)) /\ fst (rx_guc m s now g bv cv body) = s.
Proof. unfold rx_guc. cbv zeta. intros -> R. destruct (mid_eqb _ _); [|rewrite R]; (split; [apply quiet_discard | reflexivity]). Qed.

Theorem duplicate_quiet_lsreq m s now bv cv body h : dec_lsreq body = Some h ->
  rx_mh (s_loct s) (firstn 9 (skipn 2 h)) (arg 0 h) now (m_life_ms m) (m_dpl_len m) = None ->
  quiet (snd (rx_lsreq m s now bv cv body)) /\ fst (rx_lsreq m s now bv cv body) = s.
Proof. unfold rx_lsreq. cbv zeta. intros -> R. destruct (mid_eqb _ _); [|rewrite R]; (split; [apply quiet_discard | reflexivity]). Qed.

Theorem duplicate_quiet_lsrep m s now g bv cv body h : dec_guc body = Some h ->
  rx_mh (s_loct s) (firstn 9 (skipn 2 h)) (arg 0 h) now (m_life_ms m) (m_dpl_len m) = None ->
  quiet (snd (rx_lsrep m s now g bv cv body)) /\ fst (rx_lsrep m s now g bv cv body) = s.
Proof. unfold rx_lsrep. cbv zeta. intros -> R. destruct (mid_eqb _ _); [|rewrite R]; (split; [apply quiet_discard | reflexivity]). Qed.

(* ============ C06: the destination position vector of a forwarded unicast packet ================== *)
Theorem de_refresh_only_newer t de : refresh_de t de = de \/
  exists e, find t (firstn 3 de) = Some e /\ e_nb e = true /\ tst_gt (pv_tst (e_pv e)) (arg 3 de) = true /\
            refresh_de t de = firstn 3 (e_pv e) ++ [pv_tst (e_pv e); pv_lat (e_pv e); pv_lon (e_pv e)].
Proof.
  unfold refresh_de. destruct (find t (firstn 3 de)) as [e|]; [|left; reflexivity].
  destruct (e_nb e && tst_gt (pv_tst (e_pv e)) (arg 3 de)) eqn:E; [|left; reflexivity].
  apply andb_true_iff in E as [E1 E2]. right. exists e. repeat split; auto.
Qed.

(* ============ C07: geo-addressed packets are delivered exactly inside the area ==================== *)
Theorem gbc_delivered_iff_inside m s now g bv cv body h inside t :
  dec_gbc body = Some h -> zero_area (arg 2 cv) h = false ->
  lookup_ins (g_ins g) (pv_lat (s_ego s)) (pv_lon (s_ego s)) = Some inside ->
  mid_eqb (pv_addr (firstn 9 (skipn 2 h))) (m_addr m) = false ->
  rx_mh (s_loct s) (firstn 9 (skipn 2 h)) (arg 0 h) now (m_life_ms m) (m_dpl_len m) = Some t ->
  ~ In OGeoMissing (snd (rx_gbc m s now g bv cv body)) ->
  ((exists o, In o (snd (rx_gbc m s now g bv cv body)) /\ is_ind o = true) <-> inside = true) /\
  (forall hd d, In (OInd hd d) (snd (rx_gbc m s now g bv cv body)) ->
     d = skipn 44 body /\ hd = ind_hdr cv bv (firstn 9 (skipn 2 h)) (gbc_area h) 4 (arg 2 cv)).
Proof.
  intros D Z I A R. unfold rx_gbc. cbv zeta. rewrite D, Z, I, A, R. intros NG.
  destruct inside; split.
  - split; [reflexivity|]. intros _.
    repeat match goal with
           | |- context [match ?x with _ => _ end] => destruct x eqn:?
           end; cbn [snd] in *; try (exfalso; apply NG; left; reflexivity);
    eexists; (split; [left; reflexivity | reflexivity]).
  - intros hd d H.
    repeat match type of H with
           | context [match ?x with _ => _ end] => destruct x eqn:?
           end; cbn [snd] in H; in_cases H; try discriminate; injection H as <- <-; split; reflexivity.
  - split; [|discriminate]. intros (o & H & Ho). exfalso.
    repeat match type of H with
           | context [match ?x with _ => _ end] => destruct x eqn:?
           end; cbn [snd] in H; in_cases H; subst; discriminate.
  - intros hd d H. exfalso.
    repeat match type of H with
           | context [match ?x with _ => _ end] => destruct x eqn:?
           end; cbn [snd] in H; in_cases H; discriminate.
Qed.

Theorem gac_delivered_iff_inside m s now g bv cv body h inside t :
  dec_gbc body = Some h -> zero_area (arg 2 cv) h = false ->
  lookup_ins (g_ins g) (pv_lat (s_ego s)) (pv_lon (s_ego s)) = Some inside ->
  mid_eqb (pv_addr (firstn 9 (skipn 2 h))) (m_addr m) = false ->
  rx_mh (s_loct s) (firstn 9 (skipn 2 h)) (arg 0 h) now (m_life_ms m) (m_dpl_len m) = Some t ->
  ~ In OGeoMissing (snd (rx_gac m s now g bv cv body)) ->
  ((exists o, In o (snd (rx_gac m s now g bv cv body)) /\ is_ind o = true) <-> inside = true) /\
  (inside = true -> snd (rx_gac m s now g bv cv body) =
     [OInd (ind_hdr cv bv (firstn 9 (skipn 2 h)) (gbc_area h) 3 (arg 2 cv)) (skipn 44 body)]).   (* delivered, never forwarded *)
Proof.
  intros D Z I A R. unfold rx_gac. cbv zeta. rewrite D, Z, I, A, R. intros NG.
  destruct inside; split.
  - split; [reflexivity|]. intros _. eexists. split; [left; reflexivity | reflexivity].
  - reflexivity.
  - split; [|discriminate]. intros (o & H & Ho). exfalso.
    repeat match type of H with
           | context [match ?x with _ => _ end] => destruct x eqn:?
           end; cbn [snd] in H; in_cases H; subst; discriminate.
  - discriminate.
Qed.

(* area size control: an over-sized area is never forwarded *)
Theorem oversized_area_not_forwarded_gbc m s now g bv cv body p : g_big g = true ->
  ~ In (OFwd p) (snd (rx_gbc m s now g bv cv body)) /\
  s_cbf (fst (rx_gbc m s now g bv cv body)) = s_cbf s \/
  (exists k, s_cbf (fst (rx_gbc m s now g bv cv body)) = cbf_remove (s_cbf s) k) /\ ~ In (OFwd p) (snd (rx_gbc m s now g bv cv body)).
Proof.
  intros B. unfold rx_gbc. cbv zeta. rewrite B.
  repeat match goal with
         | |- context [match ?x with _ => _ end] => destruct x eqn:?
         end; cbn [fst snd s_cbf set_cbf set_loct];
  try (left; split; [intros H; in_cases H; discriminate | reflexivity]);
  right; split; [eexists; reflexivity | intros H; in_cases H; discriminate].
Qed.

Theorem oversized_area_not_forwarded_gac m s now g bv cv body p : g_big g = true ->
  ~ In (OFwd p) (snd (rx_gac m s now g bv cv body)).
Proof.
  intros B. unfold rx_gac. cbv zeta. rewrite B. intros H.
  repeat match type of H with
         | context [match ?x with _ => _ end] => destruct x eqn:?
         end; cbn [snd] in H; in_cases H; discriminate.
Qed.

Theorem oversized_request_refused m s g r : g_big g = true -> req_geo m s g r = (s, [ODiscard 20]).
Proof. intros B. unfold req_geo. rewrite B. reflexivity. Qed.

(* ============ C08: the station's own address never enters the location table ==================== *)
Definition no_own (m : mib) (t : list entry) : Prop := forall e, In e t -> mid_eqb (e_addr e) (m_addr m) = false.

Lemma in_replace t e' e : In e (replace t e') -> In e t \/ e = e'.
Proof.
  induction t as [|x t IH]; cbn; [auto|]. destruct (list_eqb (e_addr x) (e_addr e')); cbn.
  - intros [<-|H]; auto. - intros [<-|H]; auto. destruct (IH H); auto.
Qed.

Lemma in_upsert t e' e : In e (upsert t e') -> In e t \/ e = e'.
Proof.
  unfold upsert. destruct (find t (e_addr e')); [apply in_replace|].
  intros H. apply in_app_or in H as [H|[<-|[]]]; auto.
Qed.

Lemma no_own_rx_shb m t pv now life : no_own m t -> mid_eqb (pv_addr pv) (m_addr m) = false ->
  no_own m (rx_shb t pv now life).
Proof.
  intros Ht Hp e He. unfold rx_shb in He. pose proof (get_or_new_addr t (pv_addr pv) now life) as A.
  destruct (get_or_new t (pv_addr pv) now life) as [e0 b]. cbn [fst] in A.
  apply filter_In in He as [He _]. apply in_upsert in He as [He| ->]; [auto|].
  cbn [e_addr]. destruct (update_frame e0 pv) as [-> _]. rewrite A. exact Hp.
Qed.

Lemma no_own_rx_mh m t pv sn now life len t' : no_own m t -> mid_eqb (pv_addr pv) (m_addr m) = false ->
  rx_mh t pv sn now life len = Some t' -> no_own m t'.
Proof.
  intros Ht Hp R e He. unfold rx_mh in R. pose proof (get_or_new_addr t (pv_addr pv) now life) as A.
  destruct (get_or_new t (pv_addr pv) now life) as [e0 b]. cbn [fst] in A.
  destruct (check_dup _ _ _) as [d|]; [|discriminate]. injection R as <-.
  apply filter_In in He as [He _]. apply in_upsert in He as [He| ->]; [auto|].
  destruct (update_frame (mkEntry (e_addr e0) (e_pv e0) (e_set e0) (e_nb e0) (e_ls e0) d) pv) as [-> _].
  cbn [e_addr]. rewrite A. exact Hp.
Qed.

Lemma no_own_set_ls m t a v : no_own m t -> mid_eqb a (m_addr m) = false -> no_own m (set_ls t a v).
Proof.
  intros Ht Ha e He. unfold set_ls in He. destruct (find t a) as [e0|] eqn:F.
  - apply in_replace in He as [He| ->]; [auto|]. cbn [e_addr]. apply find_some in F as [Hin _]. auto.
  - destruct v; [|auto]. apply in_app_or in He as [He|[<-|[]]]; [auto|]. exact Ha.
Qed.

Lemma take_sn_loct s : s_loct (fst (take_sn s)) = s_loct s.
Proof. reflexivity. Qed.

Lemma send_lsreq_loct m s a : s_loct (fst (send_lsreq m s a)) = s_loct s.
Proof. unfold send_lsreq. destruct (take_sn s) eqn:E. cbn. pose proof (take_sn_loct s) as H. rewrite E in H. exact H. Qed.

Lemma no_own_ls_request m s a req : no_own m (s_loct s) -> mid_eqb a (m_addr m) = false ->
  no_own m (s_loct (fst (ls_request m s a req))).
Proof.
  intros Hs Ha. unfold ls_request.
  assert (G : forall s1, no_own m (s_loct s1) ->
            no_own m (s_loct (fst (let '(s2, o) := send_lsreq m s1 a in (s2, o ++ [OTimerStart 2 a]))))).
  { intros s1 H1. pose proof (send_lsreq_loct m s1 a) as L. destruct (send_lsreq m s1 a). cbn in *. rewrite L. exact H1. }
  destruct (find (s_loct s) a) as [e|].
  - destruct (e_ls e).
    + destruct req; [destruct (ls_find _ _)|]; cbn; exact Hs.
    + apply G. cbn. apply no_own_set_ls; assumption.
  - apply G. cbn. apply no_own_set_ls; assumption.
Qed.

Lemma no_own_req_guc m s g a r : no_own m (s_loct s) -> mid_eqb a (m_addr m) = false ->
  no_own m (s_loct (fst (req_guc m s g a r))).
Proof.
  intros Hs Ha. unfold req_guc. destruct (find (s_loct s) a) as [e|]; [|apply no_own_ls_request; assumption].
  destruct (match ls_find (s_ls s) a with Some _ => true | None => false end); [apply no_own_ls_request; assumption|].
  destruct (take_sn s) as [s1 n] eqn:E. pose proof (take_sn_loct s) as L. rewrite E in L. cbn in L.
  destruct (negb (has_nb s1) && z2b (arg 3 r)); [cbn; rewrite L; exact Hs|].
  destruct (greedy _ _ _ _ _) as [[|]|]; cbn; try rewrite L; exact Hs.
Qed.

Lemma no_own_flush m g a rs : forall s, no_own m (s_loct s) -> mid_eqb a (m_addr m) = false ->
  no_own m (s_loct (fst (flush_guc m s g a rs))).
Proof.
  induction rs as [|r rs IH]; intros s Hs Ha; cbn; [exact Hs|].
  pose proof (no_own_req_guc m s g a r Hs Ha) as H1. destruct (req_guc m s g a r) as [s1 o1]. cbn in H1.
  specialize (IH s1 H1 Ha). destruct (flush_guc m s1 g a rs) as [s2 o2]. exact IH.
Qed.

Theorem own_address_never_entered m s now g pkt : no_own m (s_loct s) -> no_own m (s_loct (fst (rx m s now g pkt))).
Proof.
  intros Hs. unfold rx. cbv zeta.
  destruct (dec_basic pkt) as [bv|]; [|exact Hs].
  destruct (negb (arg 0 bv =? 1)); [exact Hs|]. destruct (arg 1 bv =? 2); [exact Hs|].
  destruct (negb (arg 1 bv =? 1)); [exact Hs|].
  destruct (dec_common (skipn 4 pkt)) as [cv|]; [|exact Hs].
  destruct (arg 8 cv <? arg 5 bv); [exact Hs|].
  assert (B : forall d, no_own m (s_loct (fst (rx_beacon m s now (skipn 12 pkt) d)))).
  { intros d. unfold rx_beacon. destruct (dec_lpv _) as [pv|]; [|exact Hs].
    destruct (mid_eqb (pv_addr pv) (m_addr m)) eqn:E; [exact Hs|].
    destruct d; cbn; apply no_own_rx_shb; assumption. }
  destruct (arg 1 cv =? 1); [apply B|].
  destruct (arg 1 cv =? 2).
  { unfold rx_guc. cbv zeta. destruct (dec_guc _) as [h|]; [|exact Hs].
    destruct (mid_eqb (pv_addr _) (m_addr m)) eqn:E; [exact Hs|].
    destruct (rx_mh _ _ _ _ _ _) as [t|] eqn:R; [|exact Hs].
    pose proof (no_own_rx_mh _ _ _ _ _ _ _ _ Hs E R) as Ht.
    repeat match goal with |- context [match ?x with _ => _ end] => destruct x eqn:? end; cbn; assumption. }
  destruct (arg 1 cv =? 3).
  { unfold rx_gac. cbv zeta. destruct (dec_gbc _) as [h|]; [|exact Hs].
    destruct (zero_area _ _); [exact Hs|]. destruct (lookup_ins _ _ _); [|exact Hs].
    destruct (mid_eqb (pv_addr _) (m_addr m)) eqn:E; [exact Hs|].
    destruct (rx_mh _ _ _ _ _ _) as [t|] eqn:R; [|exact Hs].
    pose proof (no_own_rx_mh _ _ _ _ _ _ _ _ Hs E R) as Ht.
    repeat match goal with |- context [match ?x with _ => _ end] => destruct x eqn:? end; cbn; assumption. }
  destruct (arg 1 cv =? 4).
  { unfold rx_gbc. cbv zeta. destruct (dec_gbc _) as [h|]; [|exact Hs].
    destruct (zero_area _ _); [exact Hs|]. destruct (lookup_ins _ _ _); [|exact Hs].
    destruct (mid_eqb (pv_addr _) (m_addr m)) eqn:E; [exact Hs|].
    destruct (rx_mh _ _ _ _ _ _) as [t|] eqn:R.
    - pose proof (no_own_rx_mh _ _ _ _ _ _ _ _ Hs E R) as Ht.
      repeat match goal with |- context [match ?x with _ => _ end] => destruct x eqn:? end; cbn; assumption.
    - match goal with |- context [cbf_find ?c ?k] => destruct (cbf_find c k) end; exact Hs. }
  destruct (arg 1 cv =? 5).
  { destruct (arg 2 cv =? 0); [apply B|].
    unfold rx_tsb. cbv zeta. destruct (dec_tsb _) as [h|]; [|exact Hs].
    destruct (mid_eqb (pv_addr _) (m_addr m)) eqn:E; [exact Hs|].
    destruct (rx_mh _ _ _ _ _ _) as [t|] eqn:R; [|exact Hs].
    cbn. eapply no_own_rx_mh; eauto. }
  destruct (arg 1 cv =? 6); [|exact Hs].
  destruct (arg 2 cv =? 0).
  - unfold rx_lsreq. cbv zeta. destruct (dec_lsreq _) as [h|]; [|exact Hs].
    destruct (mid_eqb (pv_addr _) (m_addr m)) eqn:E; [exact Hs|].
    destruct (rx_mh _ _ _ _ _ _) as [t|] eqn:R; [|exact Hs].
    pose proof (no_own_rx_mh _ _ _ _ _ _ _ _ Hs E R) as Ht.
    destruct (mid_eqb (skipn 11 h) (m_addr m)); [|exact Ht].
    destruct (find t _); [|exact Ht]. destruct (take_sn _) eqn:T. cbn.
    pose proof (take_sn_loct (set_loct s t)) as L. rewrite T in L. cbn in L. rewrite L. exact Ht.
  - unfold rx_lsrep. cbv zeta. destruct (dec_guc _) as [h|]; [|exact Hs].
    destruct (mid_eqb (pv_addr _) (m_addr m)) eqn:E; [exact Hs|].
    destruct (rx_mh _ _ _ _ _ _) as [t|] eqn:R; [|exact Hs].
    pose proof (no_own_rx_mh _ _ _ _ _ _ _ _ Hs E R) as Ht.
    destruct (mid_eqb (firstn 3 (skipn 11 h)) (m_addr m)).
    + match goal with |- context [flush_guc ?m ?s0 ?g ?d ?rs] =>
        pose proof (no_own_flush m g d rs s0) as F; destruct (flush_guc m s0 g d rs) as [s3 o] end.
      cbn [fst] in *. apply F; [|exact E]. cbn. apply no_own_set_ls; assumption.
    + destruct (0 <? arg 5 bv - 1); exact Ht.
Qed.
