(* The lifetime / timestamp functions regenerated from the source (Gen/SrcGeonet.v, translator tools/pyz.py)
   compute, for ALL arguments, what the hand-written models compute. *)
From FlexVerif Require Import Base.Prelude Base.Bits Model.Lifetime Model.LocT Gen.SrcGeonet.
From Coq Require Import ZifyBool.
Ltac Zify.zify_post_hook ::= Z.to_euclidean_division_equations.

(* ---- LT -------------------------------------------------------------------- *)
Lemma src_lt_encode v : LT_set_value_in_millis v = lt_encode v.
Proof.
  unfold LT_set_value_in_millis, lt_encode.
  destruct ((50 <=? v) && (v <? 1000000)) eqn:Hr.
  - cbn [fold_left]. unfold lt_step, cand. cbn [base_ms Z.eqb Pos.eqb].
    rewrite ?Z.gtb_ltb, ?Z.geb_leb.
    repeat (rewrite ?Z.gtb_ltb, ?Z.geb_leb;
            match goal with
            | |- context [if ?c then _ else _] =>
              match c with context [Z.min] => destruct c eqn:? end
            end); first [reflexivity | exfalso; lia].
  - rewrite ?Z.geb_leb, ?Z.gtb_ltb. destruct (Z.leb_spec 1000000 v); repeat match goal with |- context [if ?c then _ else _] => destruct c eqn:? end; first [reflexivity | exfalso; lia].
Qed.

Lemma src_lt_value m b : 0 <= b <= 3 -> LT_get_value_in_millis m b = lt_value m b.
Proof.
  intros Hb. unfold LT_get_value_in_millis, lt_value, base_ms.
  repeat match goal with |- context [?x =? ?y] => destruct (Z.eqb_spec x y) end; lia.
Qed.

Lemma src_lt_value_outside m b : ~ (0 <= b <= 3) -> LT_get_value_in_millis m b = 0.
Proof.
  intros Hb. unfold LT_get_value_in_millis.
  repeat match goal with |- context [?x =? ?y] => destruct (Z.eqb_spec x y) end; lia.
Qed.

Lemma src_lt_code m b : LT_encode_to_int m b = lt_code m b.
Proof. reflexivity. Qed.

Lemma src_bh_word ver nh res m b rhl : BasicHeader_encode_to_int ver nh res m b rhl = bh_word ver nh res m b rhl.
Proof. reflexivity. Qed.

Lemma src_set_rhl ver nh res lt rhl : BasicHeader_set_rhl ver nh res lt rhl = (ver, nh, res, lt, rhl mod 256).
Proof. reflexivity. Qed.

(* the lifetime sub-fields the decoder reads are lt_of_code of the lifetime octet *)
Lemma src_bh_decode_lt x : 0 <= x ->
  match BasicHeader_decode_from_int x with
  | Some (_, _, _, (m, b), _) => (m, b) = lt_of_code (Z.land (Z.shiftr x 8) 255)
  | None => True
  end.
Proof.
  intros Hx. unfold BasicHeader_decode_from_int, lt_of_code.
  destruct (enum_mem_BasicNH _); [|exact I]. destruct (enum_mem_LTbase _); [|exact I].
  f_equal.
  - change 255 with (Z.ones 8). change 63 with (Z.ones 6).
    rewrite !Z.land_ones, !Z.shiftr_div_pow2 by lia. change (2 ^ 10) with 1024. change (2 ^ 8) with 256.
    change (2 ^ 6) with 64. change (2 ^ 2) with 4. lia.
  - change 255 with (Z.ones 8). change 3 with (Z.ones 2).
    rewrite !Z.land_ones, !Z.shiftr_div_pow2 by lia. change (2 ^ 8) with 256. change (2 ^ 2) with 4. lia.
Qed.

(* ---- TST ------------------------------------------------------------------- *)
Lemma src_tst_gt a b : TST_gt a b = tst_gt a b.
Proof. unfold TST_gt, tst_gt. rewrite ?Z.gtb_ltb, ?Z.geb_leb. first [reflexivity | apply eq_true_iff_eq; lia]. Qed.

Lemma src_tst_sub a b : TST_sub a b = tst_sub a b.
Proof. unfold TST_sub, tst_sub. change (2 ^ 32) with 4294967296. destruct (a - b <? 0); reflexivity. Qed.

Lemma src_tst_eq a b : TST_eq a b = (a =? b).
Proof. reflexivity. Qed.

Lemma src_tst_ge a b : TST_ge a b = ((a =? b) || tst_gt a b).
Proof. unfold TST_ge. rewrite src_tst_gt. reflexivity. Qed.

Lemma src_tst_lt a b : TST_lt a b = negb ((a =? b) || tst_gt a b).
Proof. unfold TST_lt. rewrite src_tst_ge. reflexivity. Qed.

Lemma src_tst_le a b : TST_le a b = negb (tst_gt a b).
Proof. unfold TST_le. rewrite src_tst_gt. reflexivity. Qed.

Lemma src_tst_encode a : TST_encode a = a mod 2 ^ 32.
Proof. unfold TST_encode. first [reflexivity | change 4294967295 with (Z.ones 32); apply Z.land_ones; lia]. Qed.

Lemma src_tst_decode a : TST_decode a = a mod 2 ^ 32.
Proof. unfold TST_decode. first [reflexivity | change 4294967295 with (Z.ones 32); apply Z.land_ones; lia]. Qed.

Lemma src_tst_wire a : TST_encode a = a mod 2 ^ 32 /\ TST_decode a = a mod 2 ^ 32.
Proof. split; [apply src_tst_encode | apply src_tst_decode]. Qed.

Lemma src_tst_add a b : TST_add a b = (a + b) mod 2 ^ 32.
Proof. reflexivity. Qed.

(* ---- the clauses of C20 stated on the regenerated source functions themselves ---------------------------------------- *)
From FlexVerif Require Import Proofs.LifetimeProofs.

Definition src_wire_lifetime (v : Z) : Z :=
  let '(m, b) := LT_set_value_in_millis v in LT_get_value_in_millis m b.

Lemma src_wire_lifetime_model v : src_wire_lifetime v = lt_enc_value v.
Proof.
  unfold src_wire_lifetime, lt_enc_value. rewrite src_lt_encode.
  pose proof (lt_encode_fields v) as Hf. destruct (lt_encode v) as [m b]. apply src_lt_value. lia.
Qed.

Lemma src_lt_le v : 0 <= v -> src_wire_lifetime v <= v.
Proof. rewrite src_wire_lifetime_model. apply lt_le. Qed.

Lemma src_lt_max_partial v m b : 0 <= v < 1000000 -> 0 <= m <= 63 -> 0 <= b <= 3 ->
  LT_get_value_in_millis m b <= v -> LT_get_value_in_millis m b <= src_wire_lifetime v.
Proof.
  intros Hv Hm Hb. rewrite src_wire_lifetime_model, src_lt_value by lia. apply lt_max_partial; assumption.
Qed.

Lemma src_lt_nonzero_partial v : 50 <= v < 1000000 -> 0 < src_wire_lifetime v.
Proof. rewrite src_wire_lifetime_model. apply lt_nonzero_partial. Qed.

Lemma src_lt_fields v : let '(m, b) := LT_set_value_in_millis v in 0 <= m <= 63 /\ 0 <= b <= 3.
Proof. rewrite src_lt_encode. apply lt_encode_fields. Qed.

Lemma src_lt_refuted_1e6 : src_wire_lifetime 1000000 = 0 /\ LT_get_value_in_millis 10 3 = 1000000.
Proof. split; reflexivity. Qed.

From FlexVerif Require Import Proofs.LocTProofs.
Lemma src_bh_word_code ver nh res m b rhl :
  BasicHeader_encode_to_int ver nh res m b rhl = bh_word ver nh res m b rhl /\ LT_encode_to_int m b = lt_code m b.
Proof. split; [apply src_bh_word | apply src_lt_code]. Qed.

Lemma src_tst_order a b :
  TST_gt a b = tst_gt a b /\ TST_ge a b = ((a =? b) || tst_gt a b) /\ TST_lt a b = negb ((a =? b) || tst_gt a b)
  /\ TST_le a b = negb (tst_gt a b) /\ TST_eq a b = (a =? b).
Proof. repeat split; [apply src_tst_gt | apply src_tst_ge | apply src_tst_lt | apply src_tst_le]. Qed.

Lemma src_tst_arith a b :
  TST_sub a b = tst_sub a b /\ TST_add a b = (a + b) mod 2 ^ 32 /\ TST_encode a = a mod 2 ^ 32 /\ TST_decode a = a mod 2 ^ 32.
Proof. repeat split; try reflexivity; try apply src_tst_sub; try apply src_tst_encode; try apply src_tst_decode. Qed.

Lemma src_tst_real t d : 0 < d < 2 ^ 31 ->
  TST_gt ((t + d) mod 2 ^ 32) (t mod 2 ^ 32) = true /\ TST_gt (t mod 2 ^ 32) ((t + d) mod 2 ^ 32) = false.
Proof. intros H. rewrite !src_tst_gt. split; [apply tst_gt_real | apply tst_gt_old]; lia. Qed.

(* ---- location table entry: the update rule and the expiry rule regenerated from the source ------------------------------ *)
Lemma src_update_pv e pv :
  LocTE_update_position_vector pv (e_pv e) (e_set e) = (e_pv (update_pv e pv), e_set (update_pv e pv)).
Proof.
  unfold LocTE_update_position_vector, update_pv, pv_tst, arg. rewrite src_tst_gt.
  destruct (e_set e) eqn:Es; cbn [negb].
  - destruct (tst_gt (nth 3 pv 0) (nth 3 (e_pv e) 0)); cbn [e_pv e_set]; rewrite ?Es; reflexivity.
  - reflexivity.
Qed.

Lemma src_is_current e now life_s :
  LocT_is_current (e_set e) (e_ls e) (pv_tst (e_pv e)) now life_s = keep now (life_s * 1000) e.
Proof.
  unfold LocT_is_current, keep. rewrite src_tst_gt, src_tst_sub. destruct (e_set e); reflexivity.
Qed.

(* the clauses of C08 on the regenerated functions *)
Lemma src_update_never_older stored pv t d : 0 <= d < 2 ^ 31 ->
  nth 3 pv 0 = t mod 2 ^ 32 -> nth 3 stored 0 = (t + d) mod 2 ^ 32 ->
  LocTE_update_position_vector pv stored true = (stored, true).
Proof.
  intros Hd E1 E2. unfold LocTE_update_position_vector. cbn [negb]. rewrite src_tst_gt, E1, E2.
  rewrite tst_gt_old by exact Hd. reflexivity.
Qed.

Lemma src_update_newer stored pv t d received : 0 < d < 2 ^ 31 ->
  nth 3 pv 0 = (t + d) mod 2 ^ 32 -> nth 3 stored 0 = t mod 2 ^ 32 ->
  LocTE_update_position_vector pv stored received = (pv, true).
Proof.
  intros Hd E1 E2. unfold LocTE_update_position_vector. destruct received; cbn [negb]; [|reflexivity].
  rewrite src_tst_gt, E1, E2. rewrite tst_gt_real by exact Hd. reflexivity.
Qed.

Lemma src_first_pv_accepted stored pv : LocTE_update_position_vector pv stored false = (pv, true).
Proof. reflexivity. Qed.

Lemma src_expiry_real ls N T life_s : 0 <= life_s * 1000 < 2 ^ 31 -> - 2 ^ 31 < N - T < 2 ^ 31 ->
  LocT_is_current true ls (T mod 2 ^ 32) (N mod 2 ^ 32) life_s = (N - T <=? life_s * 1000).
Proof.
  intros Hl Hn.
  pose (e := mkEntry [] [0; 0; 0; T mod 2 ^ 32] true false ls []).
  change (LocT_is_current true ls (T mod 2 ^ 32) (N mod 2 ^ 32) life_s)
    with (LocT_is_current (e_set e) (e_ls e) (pv_tst (e_pv e)) (N mod 2 ^ 32) life_s).
  rewrite src_is_current. apply keep_real; try reflexivity; assumption.
Qed.

(* ---- Basic Header of beacons / single-hop broadcast and of the MIB defaults ------------------------------------------------ *)
Lemma src_bh_default_lifetime s pv hl rhl :
  BasicHeader_initialize_with_mib_and_rhl s pv hl rhl = (1, 1, 0, req_lt s None, rhl) /\
  BasicHeader_initialize_with_mib s pv hl rhl = (pv, 1, 0, req_lt s None, hl).
Proof.
  unfold BasicHeader_initialize_with_mib_and_rhl, BasicHeader_initialize_with_mib, LT_set_value_in_seconds, req_lt.
  rewrite src_lt_encode. split; reflexivity.
Qed.

(* the lifetime a beacon / the default header carries never exceeds the MIB default and is the largest representable one *)
Lemma src_bh_default_lifetime_le s pv hl rhl : 0 <= s ->
  let '(_, _, _, (m, b), _) := BasicHeader_initialize_with_mib_and_rhl s pv hl rhl in
  LT_get_value_in_millis m b <= s * 1000.
Proof.
  intros Hs. destruct (src_bh_default_lifetime s pv hl rhl) as [-> _]. unfold req_lt.
  pose proof (lt_encode_fields (s * 1000)) as Hf. pose proof (lt_le (s * 1000) ltac:(lia)) as Hle.
  unfold lt_enc_value in Hle. destruct (lt_encode (s * 1000)) as [m b]. rewrite src_lt_value by lia. exact Hle.
Qed.
