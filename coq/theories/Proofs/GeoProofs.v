From Coq Require Import QArith Qminmax Lqa Lia.
From FlexVerif Require Import Model.Geo.
Open Scope Q_scope.

Lemma sq_div x r : ~ r == 0 -> sq (x / r) * sq r == sq x.
Proof. intros H. unfold sq. field. exact H. Qed.

Lemma sq_pos r : 0 < r -> 0 < sq r.
Proof. intros H. unfold sq. nra. Qed.

Lemma sq_nonneg x : 0 <= sq x.
Proof. unfold sq. nra. Qed.

(* the circle is invariant under the azimuth rotation *)
Theorem circle_rotation_invariant r c s n e : c * c + s * s == 1 ->
  F_circle r (rot_x c s n e) (rot_y c s n e) == F_circle r n e.
Proof.
  intros H. unfold F_circle, rot_x, rot_y, sq.
  destruct (Qeq_dec r 0) as [Hr|Hr].
  - rewrite Hr. unfold Qdiv. assert (E : / 0 == 0) by reflexivity. rewrite E. ring.
  - assert (K : forall u v, (u / r) * (u / r) + (v / r) * (v / r) == (u * u + v * v) / (r * r)) by (intros; field; exact Hr).
    assert (G : (n * c + e * s) * (n * c + e * s) + (e * c - n * s) * (e * c - n * s) == n * n + e * e).
    { transitivity ((n * n + e * e) * (c * c + s * s)); [ring|]. rewrite H. ring. }
    transitivity (1 - ((n * c + e * s) / r * ((n * c + e * s) / r) + (e * c - n * s) / r * ((e * c - n * s) / r))); [ring|].
    rewrite K, G, <- K. ring.
Qed.

Theorem inside_circle_iff r x y : 0 < r -> (0 <= F_circle r x y <-> sq x + sq y <= sq r).
Proof.
  intros Hr. assert (Hn : ~ r == 0) by (intros E; rewrite E in Hr; inversion Hr).
  pose proof (sq_div x r Hn) as Ex. pose proof (sq_div y r Hn) as Ey. pose proof (sq_pos r Hr) as Pr.
  pose proof (sq_nonneg (x / r)) as Nx. pose proof (sq_nonneg (y / r)) as Ny.
  unfold F_circle. set (u := sq (x / r)) in *. set (v := sq (y / r)) in *. set (R := sq r) in *.
  rewrite <- Ex, <- Ey. clearbody u v R. split; intros H.
  - assert (K : 0 <= (1 - u - v) * R) by (apply Qmult_le_0_compat; lra). lra.
  - destruct (Qlt_le_dec (1 - u - v) 0) as [L|L]; [|exact L]. exfalso.
    assert (K : 0 < (u + v - 1) * R) by (apply Qmult_lt_0_compat; lra). lra.
Qed.

Theorem inside_ellipse_iff a b x y : 0 < a -> 0 < b ->
  (0 <= F_ellipse a b x y <-> sq x * sq b + sq y * sq a <= sq a * sq b).
Proof.
  intros Ha Hb. assert (Hna : ~ a == 0) by (intros E; rewrite E in Ha; inversion Ha).
  assert (Hnb : ~ b == 0) by (intros E; rewrite E in Hb; inversion Hb).
  pose proof (sq_div x a Hna) as Ex. pose proof (sq_div y b Hnb) as Ey.
  pose proof (sq_pos a Ha) as Pa. pose proof (sq_pos b Hb) as Pb.
  pose proof (sq_nonneg (x / a)) as Nx. pose proof (sq_nonneg (y / b)) as Ny.
  unfold F_ellipse. set (u := sq (x / a)) in *. set (v := sq (y / b)) in *. set (A := sq a) in *. set (B := sq b) in *.
  rewrite <- Ex, <- Ey. clearbody u v A B.
  assert (PAB : 0 < A * B) by (apply Qmult_lt_0_compat; assumption).
  assert (E : u * A * B + v * B * A == (u + v) * (A * B)) by ring. rewrite E. split; intros H.
  - assert (K : 0 <= (1 - u - v) * (A * B)) by (apply Qmult_le_0_compat; lra). lra.
  - destruct (Qlt_le_dec (1 - u - v) 0) as [L|L]; [|exact L]. exfalso.
    assert (K : 0 < (u + v - 1) * (A * B)) by (apply Qmult_lt_0_compat; lra). lra.
Qed.

Theorem inside_rect_iff a b x y : 0 < a -> 0 < b ->
  (0 <= F_rect a b x y <-> sq x <= sq a /\ sq y <= sq b).
Proof.
  intros Ha Hb. assert (Hna : ~ a == 0) by (intros E; rewrite E in Ha; inversion Ha).
  assert (Hnb : ~ b == 0) by (intros E; rewrite E in Hb; inversion Hb).
  pose proof (sq_div x a Hna) as Ex. pose proof (sq_div y b Hnb) as Ey.
  pose proof (sq_pos a Ha) as Pa. pose proof (sq_pos b Hb) as Pb.
  pose proof (sq_nonneg (x / a)) as Nx. pose proof (sq_nonneg (y / b)) as Ny.
  unfold F_rect. set (u := sq (x / a)) in *. set (v := sq (y / b)) in *. set (A := sq a) in *. set (B := sq b) in *.
  rewrite <- Ex, <- Ey. clearbody u v A B.
  assert (G : forall w C, 0 < C -> (0 <= 1 - w <-> w * C <= C)).
  { intros w C HC. split; intros H.
    - assert (K : 0 <= (1 - w) * C) by (apply Qmult_le_0_compat; lra). lra.
    - destruct (Qlt_le_dec (1 - w) 0) as [L|L]; [|exact L]. exfalso.
      assert (K : 0 < (w - 1) * C) by (apply Qmult_lt_0_compat; lra). lra. }
  split.
  - intros H. assert (H1 : 0 <= 1 - u) by (eapply Qle_trans; [exact H | apply Q.le_min_l]).
    assert (H2 : 0 <= 1 - v) by (eapply Qle_trans; [exact H | apply Q.le_min_r]).
    split; [apply (G u A Pa) | apply (G v B Pb)]; assumption.
  - intros [H1 H2]. apply Q.min_glb; [apply (G u A Pa) | apply (G v B Pb)]; assumption.
Qed.

(* the centre is always inside, a point beyond the semi-axis along x is outside *)
Lemma centre_inside a b : 0 < a -> 0 < b -> 0 <= F_rect a b 0 0 /\ 0 <= F_ellipse a b 0 0 /\ 0 <= F_circle a 0 0.
Proof.
  intros Ha Hb. repeat split.
  - apply inside_rect_iff; auto. unfold sq. split; nra.
  - apply inside_ellipse_iff; auto. unfold sq. nra.
  - apply inside_circle_iff; auto. unfold sq. nra.
Qed.

(* Annex D *)
Theorem annexD_table :
  annexD true true true = AreaForwarding /\ annexD true true false = AreaForwarding /\
  annexD true false true = AreaForwarding /\ annexD true false false = AreaForwarding /\
  annexD false true true = Discard /\ annexD false true false = NonAreaForwarding /\
  annexD false false true = NonAreaForwarding /\ annexD false false false = NonAreaForwarding.
Proof. repeat split. Qed.
