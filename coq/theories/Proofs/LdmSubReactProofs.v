(* Proofs about Model/LdmSubReact.v: histories in which consumers act on their notifications (seed C14-11).
   The notification time is recorded before the callback runs, so whatever the consumer does from inside its
   callback - nested attendances included - cannot notify it again within its interval; the attendance looks a
   subscription up in the list when its turn comes, so a subscription that has left the list is never invoked again,
   also by an attendance that took its snapshot before the cancellation (KF-C14-2, repaired). *)
From FlexVerif Require Import Base.Prelude Model.LdmFilter Model.LdmSub Model.LdmSubReact Proofs.LdmSubProofs.
From Coq Require Import ZifyBool.
Ltac Zify.zify_post_hook ::= Z.to_euclidean_division_equations.

(* ---- histories ----------------------------------------------------------------------------------- *)
Definition no_calls (evs : list ev) : Prop := forall u d t, ~ In (ECall u d t) evs.

Lemma last_call_skip cb l h : (forall e, In e l -> ~ is_call_of cb e) -> last_call cb (l ++ h) = last_call cb h.
Proof.
  induction l as [|e l IH]; cbn [app]; intros H; [reflexivity|].
  assert (last_call cb (l ++ h) = last_call cb h) as IH' by (apply IH; intros e' He'; apply H; now right).
  destruct e as [u d t| |out dmp]; cbn [last_call]; try exact IH'.
  destruct (u_cb u =? cb) eqn:E; [|exact IH'].
  exfalso. apply (H (ECall u d t)); [now left|]. cbn. lia.
Qed.

Lemma no_calls_skip cb l h : no_calls l -> last_call cb (rev l ++ h) = last_call cb h.
Proof.
  intros H. apply last_call_skip. intros e He. apply in_rev in He.
  destruct e as [u d t| |out dmp]; cbn; try tauto. intros _. exact (H u d t He).
Qed.

(* what the property says about the spacing of notifications, event by event; h = the history so far, most recent first *)
Fixpoint spaced_from (h : list ev) (evs : list ev) : Prop :=
  match evs with
  | [] => True
  | e :: r =>
      match e with
      | ECall u _ t => forall t1 n, last_call (u_cb u) h = Some t1 -> u_nt u = Some n -> 0 < n -> t1 + n <= t
      | _ => True
      end /\ spaced_from (e :: h) r
  end.

Lemma spaced_from_app h a b : spaced_from h (a ++ b) <-> spaced_from h a /\ spaced_from (rev a ++ h) b.
Proof.
  revert h. induction a as [|e a IH]; intros h; cbn [app rev spaced_from]; [tauto|].
  rewrite IH, <- app_assoc. cbn [app]. tauto.
Qed.

Lemma spaced_no_calls h evs : no_calls evs -> spaced_from h evs.
Proof.
  revert h. induction evs as [|e evs IH]; intros h H; cbn [spaced_from]; [exact I|]. split.
  - destruct e as [u d t| |out dmp]; try exact I. exfalso. apply (H u d t). now left.
  - apply IH. intros u d t Hin. apply (H u d t). now right.
Qed.

(* ---- the invariant of a run ------------------------------------------------------------------------ *)
Definition frame_ok (n : Z) (f : frame) : Prop :=
  match f with FAtt rest _ _ _ => Forall (fun u => u_cb u < n) rest | _ => True end.
Definition hist_ok (n : Z) (h : list ev) : Prop := forall u d t, In (ECall u d t) h -> u_cb u < n.
(* the recorded time of a subscription is the time of its most recent notification, if it has been notified at all *)
Definition linked (s : st) (h : list ev) : Prop :=
  forall v, In v (subs s) -> last_call (u_cb v) h = None \/ last_call (u_cb v) h = Some (u_last v).
Definition J (c : cfg) (h : list ev) : Prop :=
  Forall (fun u => u_cb u < next_cb (c_st c)) (subs (c_st c)) /\
  Forall (frame_ok (next_cb (c_st c))) (c_stack c) /\
  hist_ok (next_cb (c_st c)) h /\
  linked (c_st c) h.

Lemma frame_ok_mono n m f : n <= m -> frame_ok n f -> frame_ok m f.
Proof.
  intros Hnm. destruct f as [top i ops|rest marked mk out]; cbn; [tauto|].
  intros H. eapply Forall_impl; [|exact H]. cbn. intros; lia.
Qed.

Lemma last_call_none n h cb : hist_ok n h -> n <= cb -> last_call cb h = None.
Proof.
  induction h as [|e h IH]; intros H Hn; [reflexivity|].
  assert (hist_ok n h) as H' by (intros u d t Hin; apply (H u d t); now right).
  destruct e as [u d t| |out dmp]; cbn [last_call]; try (now apply IH).
  destruct (u_cb u =? cb) eqn:E; [|now apply IH].
  specialize (H u d t (or_introl eq_refl)). lia.
Qed.

Lemma hist_ok_no_calls n m h evs : n <= m -> hist_ok n h -> no_calls evs -> hist_ok m (rev evs ++ h).
Proof.
  intros Hnm H Hno u d t Hin. apply in_app_or in Hin. destruct Hin as [Hin|Hin].
  - apply in_rev in Hin. exfalso. exact (Hno u d t Hin).
  - specialize (H u d t Hin). lia.
Qed.

(* the operations that do not attend: the subscriptions afterwards are old ones, unchanged, or the new one *)
Definition plain (o : op) : Prop := match o with AddObj _ _ | Attend => False | _ => True end.

Lemma plain_step s o : plain o ->
  next_cb s <= next_cb (st_of (step s o)) /\
  forall v, In v (subs (st_of (step s o))) ->
    In v (subs s) \/ (u_cb v = next_cb s /\ next_cb (st_of (step s o)) = next_cb s + 1).
Proof.
  intros Hp. rewrite next_cb_step, subs_step.
  destruct o as [aid perms|aid|r|aid key|typ v0|idx|ms|]; cbn in Hp; try contradiction; clear Hp.
  - split; [lia|]. intros v Hv. now left.
  - split; [lia|]. intros v Hv. destruct (mem aid (conss s)); [apply filter_In in Hv|]; left; tauto.
  - destruct (validate s r =? 0); (split; [lia|]); intros v Hv; [|now left].
    apply in_app_or in Hv. destruct Hv as [Hv|[Hv|[]]]; [now left|]. right. subst v. cbn. split; reflexivity.
  - split; [lia|]. intros v Hv. destruct (negb (mem aid (conss s))); [now left|].
    destruct (existsb (fun u => u_key u =? key) (subs s)); [apply filter_In in Hv|]; left; tauto.
  - split; [lia|]. intros v Hv. now left.
  - split; [lia|]. intros v Hv. now left.
Qed.

Lemma J_plain c h s' scr ids k evs :
  J c h -> no_calls evs ->
  next_cb (c_st c) <= next_cb s' ->
  (forall v, In v (subs s') -> In v (subs (c_st c)) \/ (u_cb v = next_cb (c_st c) /\ next_cb s' = next_cb (c_st c) + 1)) ->
  Forall (frame_ok (next_cb s')) k ->
  J (mkCfg s' scr ids k) (rev evs ++ h).
Proof.
  intros (Hs & Hf & Hh & Hl) Hno Hmono Hsubs Hk. unfold J. cbn [c_st c_stack].
  rewrite Forall_forall in Hs. repeat split.
  - apply Forall_forall. intros v Hv. destruct (Hsubs v Hv) as [Hin|[E1 E2]]; [specialize (Hs v Hin)|]; lia.
  - exact Hk.
  - eapply hist_ok_no_calls; eassumption.
  - intros v Hv. rewrite no_calls_skip by assumption.
    destruct (Hsubs v Hv) as [Hin|[E1 E2]]; [now apply Hl|].
    left. eapply last_call_none; [exact Hh|lia].
Qed.

Lemma Forall_frame_mono n m k : n <= m -> Forall (frame_ok n) k -> Forall (frame_ok m) k.
Proof. intros Hnm H. eapply Forall_impl; [|exact H]. intros f. now apply frame_ok_mono. Qed.

Lemma no_calls_nil : no_calls [].
Proof. intros u d t []. Qed.
Lemma no_calls_begin (top : bool) : no_calls (if top then [] else [EBegin]).
Proof. intros u d t H. destruct top; cbn in H; [tauto|]. destruct H as [H|[]]. discriminate. Qed.
Lemma no_calls_end b out dmp : no_calls b -> no_calls (b ++ [EEnd out dmp]).
Proof.
  intros Hb u d t H. apply in_app_or in H. destruct H as [H|[H|[]]]; [exact (Hb u d t H)|discriminate].
Qed.

Lemma cur_last_found s u v : find (fun v => u_cb v =? u_cb u) (subs s) = Some v -> In v (subs s) /\ u_cb v = u_cb u.
Proof. intros H. apply find_some in H. destruct H as [H1 H2]. split; [assumption|lia]. Qed.

Lemma push_reaction_ok n ids r k : Forall (frame_ok n) k -> Forall (frame_ok n) (push_reaction ids r k).
Proof.
  intros H. destruct r as [[o|aid idx]|]; cbn [push_reaction]; try assumption; constructor; cbn; auto.
Qed.

Local Opaque step dump.

(* one small step keeps the invariant, and the events it adds respect the notification intervals *)
Lemma J_step tbl c h c' evs :
  J c h -> mstep tbl c = Some (c', evs) ->
  J c' (rev evs ++ h) /\ spaced_from h evs /\ next_cb (c_st c) <= next_cb (c_st c').
Proof.
  intros HJ. pose proof HJ as (Hs & Hf & Hh & Hl). unfold mstep.
  destruct (c_stack c) as [|[top i [|o ops]|[|u rest] marked mk out] k] eqn:Ek; [discriminate| | | |].
  - (* a frame of operations that is finished *)
    intros E. injection E as <- <-. cbn [rev app c_st]. split; [|split; [exact I|lia]].
    apply (J_plain c h (c_st c) (c_scripts c) (c_ids c) k []); auto using no_calls_nil; try lia.
    inversion Hf; assumption.
  - (* the next operation of a frame *)
    assert (Forall (frame_ok (next_cb (c_st c))) (FOps top (i + 1) ops :: k)) as Hk'
      by (inversion Hf; constructor; [exact I|assumption]).
    destruct o as [aid perms|aid|r|aid key|typ v0|idx|ms|].
    1-4, 6-7:
      intros E; injection E as <- <-; cbn [c_st];
      match goal with |- context [step ?s ?o] =>
        destruct (plain_step s o I) as [Hm Hsub] end;
      (split; [|split; [apply spaced_no_calls, no_calls_end, no_calls_begin|exact Hm]]);
      (apply (J_plain c h); [exact HJ|apply no_calls_end, no_calls_begin|exact Hm|exact Hsub|
                       eapply Forall_frame_mono; [exact Hm|exact Hk']]).
    + (* an addition *)
      destruct (500 <=? now (c_st c) - last_attend (c_st c)); intros E; injection E as <- <-; cbn [c_st insert next_cb].
      * split; [|split; [apply spaced_no_calls, no_calls_begin|lia]].
        apply (J_plain c h); [exact HJ|apply no_calls_begin|cbn; lia|cbn; intros v Hv; now left|].
        cbn [next_cb subs]. constructor; [exact Hs|exact Hk'].
      * split; [|split; [apply spaced_no_calls, no_calls_end, no_calls_begin|lia]].
        apply (J_plain c h); [exact HJ|apply no_calls_end, no_calls_begin|cbn; lia|cbn; intros v Hv; now left|exact Hk'].
    + (* an explicit attendance *)
      intros E; injection E as <- <-; cbn [c_st].
      split; [|split; [apply spaced_no_calls, no_calls_begin|lia]].
      apply (J_plain c h); [exact HJ|apply no_calls_begin|lia|intros v Hv; now left|].
      constructor; [exact Hs|exact Hk'].
  - (* the end of an attendance *)
    intros E. injection E as <- <-.
    assert (no_calls [EEnd out (dump (if mk then mark_attended (sweep (c_st c) marked) else sweep (c_st c) marked))]) as Hno
      by (intros u d t [H|[]]; discriminate).
    split; [|split; [now apply spaced_no_calls|destruct mk; cbn; lia]].
    apply (J_plain c h); [exact HJ|exact Hno|destruct mk; cbn; lia| |].
    + intros v Hv. left. destruct mk; cbn in Hv; apply filter_In in Hv; tauto.
    + assert (next_cb (if mk then mark_attended (sweep (c_st c) marked) else sweep (c_st c) marked) = next_cb (c_st c)) as ->
        by (destruct mk; reflexivity).
      inversion Hf; assumption.
  - (* the next subscription of an attendance *)
    assert (Forall (frame_ok (next_cb (c_st c))) k /\ u_cb u < next_cb (c_st c) /\ Forall (fun u => u_cb u < next_cb (c_st c)) rest)
      as (Hk & Hu & Hrest).
    { inversion Hf as [|f l Hf1 Hf2]; subst. cbn in Hf1. inversion Hf1; subst. auto. }
    destruct (negb (mem (u_app u) (conss (c_st c)))).
    { intros E. injection E as <- <-. cbn [rev app c_st]. split; [|split; [exact I|lia]].
      apply (J_plain c h (c_st c) _ _ _ []); auto using no_calls_nil; try lia. all: try (constructor; assumption). }
    destruct (negb (nonempty (data_of (c_st c) u)) || negb (mult_ok u (length (data_of (c_st c) u)))
              || negb (listed (c_st c) u)
              || negb (interval_passed (now (c_st c)) (u_nt u) (cur_last (c_st c) u))) eqn:Edue.
    { intros E. injection E as <- <-. cbn [rev app c_st]. split; [|split; [exact I|lia]].
      apply (J_plain c h (c_st c) _ _ _ []); auto using no_calls_nil; try lia. all: try (constructor; assumption). }
    destruct (pop_script (u_cb u) (c_scripts c)) as [r scr].
    intros E. injection E as <- <-. cbn [rev app c_st stamp with_subs next_cb].
    apply orb_false_iff in Edue. destruct Edue as [_ Eint]. apply negb_false_iff in Eint.
    split; [|split; [|lia]].
    + unfold J. cbn [c_st c_stack stamp with_subs next_cb subs]. repeat split.
      * apply Forall_forall. intros v' Hv'. apply in_map_iff in Hv'. destruct Hv' as (v & <- & Hv).
        rewrite Forall_forall in Hs. specialize (Hs v Hv).
        destruct (u_cb v =? u_cb u); [destruct v; cbn in *|]; lia.
      * apply push_reaction_ok. constructor; assumption.
      * intros u' d' t' [Hin|Hin]; [injection Hin as <- _ _; exact Hu|exact (Hh u' d' t' Hin)].
      * intros v' Hv'. apply in_map_iff in Hv'. destruct Hv' as (v & <- & Hv). cbn [last_call].
        destruct (u_cb v =? u_cb u) eqn:Ecb.
        -- right. replace (u_cb (set_last v (trunc_s (now (c_st c))))) with (u_cb v) by (destruct v; reflexivity).
           replace (u_cb u =? u_cb v) with true by lia. destruct v; reflexivity.
        -- replace (u_cb u =? u_cb v) with false by lia. now apply Hl.
    + cbn [spaced_from]. split; [|exact I]. intros t1 n Hlast Hnt Hn.
      unfold interval_passed in Eint. rewrite Hnt in Eint. unfold cur_last in Eint.
      destruct (find (fun v => u_cb v =? u_cb u) (subs (c_st c))) as [v|] eqn:Ef.
      * apply cur_last_found in Ef. destruct Ef as [Hv Ecb].
        destruct (Hl v Hv) as [Hnone|Hsome]; rewrite Ecb in *; [congruence|].
        rewrite Hsome in Hlast. injection Hlast as <-. lia.
      * lia.
Qed.

Lemma J_start s ops : Forall (fun u => u_cb u < next_cb s) (subs s) -> J (start_in s ops) [].
Proof.
  intros H. unfold J, start_in. cbn [c_st c_stack]. repeat split.
  - exact H.
  - constructor; [exact I|constructor].
  - intros u d t [].
  - intros v _. now left.
Qed.

Lemma J_run tbl fuel : forall c h, J c h -> spaced_from h (fst (mrun fuel tbl c)).
Proof.
  induction fuel as [|f IH]; intros c h HJ; cbn [mrun]; [exact I|].
  destruct (mstep tbl c) as [[c' evs]|] eqn:E; [|exact I].
  destruct (J_step tbl c h c' evs HJ E) as (HJ' & Hsp & _).
  specialize (IH c' (rev evs ++ h) HJ'). destruct (mrun f tbl c') as [r fin]. cbn [fst] in *.
  apply spaced_from_app. split; assumption.
Qed.

Lemma J_reach tbl n : forall c h, J c h -> exists h', J (mcfg n tbl c) h'.
Proof.
  induction n as [|n IH]; intros c h HJ; cbn [mcfg]; [now exists h|].
  destruct (mstep tbl c) as [[c' evs]|] eqn:E; [|now exists h].
  destruct (J_step tbl c h c' evs HJ E) as (HJ' & _). exact (IH c' _ HJ').
Qed.

(* ---- cadence: a consumer is not notified again within its interval, whatever it does from inside its callback *)
Theorem reentrant_cadence fuel tbl t0 ops l1 u1 d1 t1 l2 u2 d2 t2 l3 n :
  history fuel tbl t0 ops = l1 ++ ECall u1 d1 t1 :: l2 ++ ECall u2 d2 t2 :: l3 ->
  u_cb u1 = u_cb u2 -> (forall e, In e l2 -> ~ is_call_of (u_cb u2) e) ->
  u_nt u2 = Some n -> 0 < n -> t1 + n <= t2.
Proof.
  intros Hh Ecb Hl2 Hnt Hn.
  pose proof (J_run tbl fuel (start t0 ops) [] (J_start (init t0) ops (Forall_nil _))) as Hsp.
  unfold history in Hh. rewrite Hh in Hsp.
  replace (l1 ++ ECall u1 d1 t1 :: l2 ++ ECall u2 d2 t2 :: l3)
    with ((l1 ++ ECall u1 d1 t1 :: l2) ++ ECall u2 d2 t2 :: l3) in Hsp
    by (rewrite <- app_assoc; reflexivity).
  apply spaced_from_app in Hsp. destruct Hsp as [_ Hsp]. cbn [spaced_from] in Hsp. destruct Hsp as [Hsp _].
  apply (Hsp t1 n); [|assumption|assumption].
  rewrite app_nil_r, rev_app_distr. cbn [rev]. rewrite <- app_assoc. cbn [app].
  rewrite last_call_skip.
  - cbn [last_call]. replace (u_cb u1 =? u_cb u2) with true by lia. reflexivity.
  - intros e He. apply in_rev in He. now apply Hl2.
Qed.

(* the record is made before the callback runs: in the state in which the consumer's reaction is executed, every
   subscription with that callback carries the second of this very notification *)
Theorem stamped_when_delivered tbl c c' evs u d t :
  mstep tbl c = Some (c', evs) -> In (ECall u d t) evs ->
  t = trunc_s (now (c_st c)) /\ now (c_st c') = now (c_st c) /\
  forall v, In v (subs (c_st c')) -> u_cb v = u_cb u -> u_last v = t.
Proof.
  unfold mstep.
  destruct (c_stack c) as [|[top i [|o ops]|[|u0 rest] marked mk out] k] eqn:Ek; [discriminate| | | |].
  - intros E. injection E as <- <-. intros [].
  - assert (forall l, (forall e, In e l -> match e with ECall _ _ _ => False | _ => True end) -> ~ In (ECall u d t) l) as Hno
      by (intros l Hl Hin; exact (Hl _ Hin)).
    assert (forall e, In e (if top then [] else [EBegin]) -> match e with ECall _ _ _ => False | _ => True end) as Hb
      by (intros e He; destruct top; cbn in He; [tauto|destruct He as [<-|[]]; exact I]).
    destruct o as [aid perms|aid|r|aid key|typ v0|idx|ms|];
      try (intros E; injection E as <- <-; intros Hin; exfalso; revert Hin; apply Hno; intros e He;
           apply in_app_or in He; destruct He as [He|[<-|[]]]; [now apply Hb|exact I]).
    + destruct (500 <=? now (c_st c) - last_attend (c_st c)); intros E; injection E as <- <-; intros Hin; exfalso;
        revert Hin; apply Hno; [exact Hb|].
      intros e He. apply in_app_or in He. destruct He as [He|[<-|[]]]; [now apply Hb|exact I].
    + intros E; injection E as <- <-; intros Hin; exfalso; revert Hin; apply Hno; exact Hb.
  - intros E. injection E as <- <-. intros [H|[]]. discriminate.
  - destruct (negb (mem (u_app u0) (conss (c_st c)))); [intros E; injection E as <- <-; intros []|].
    destruct (negb (nonempty (data_of (c_st c) u0)) || negb (mult_ok u0 (length (data_of (c_st c) u0)))
              || negb (listed (c_st c) u0)
              || negb (interval_passed (now (c_st c)) (u_nt u0) (cur_last (c_st c) u0)));
      [intros E; injection E as <- <-; intros []|].
    destruct (pop_script (u_cb u0) (c_scripts c)) as [r scr].
    intros E. injection E as <- <-. intros [Hin|[]]. injection Hin as <- _ <-.
    split; [reflexivity|]. split; [reflexivity|]. cbn [c_st stamp with_subs subs].
    intros v' Hv' Ecb. apply in_map_iff in Hv'. destruct Hv' as (v & <- & Hv).
    destruct (u_cb v =? u_cb u0) eqn:E1; [destruct v; reflexivity|lia].
Qed.

(* ---- after its cancellation a callback is not invoked again ----------------------------------------- *)
Lemma mem_In x l : mem x l = true <-> In x l.
Proof.
  unfold mem. rewrite existsb_exists. split.
  - intros (y & Hy & E). apply Z.eqb_eq in E. now subst.
  - intros H. exists x. split; [assumption|apply Z.eqb_refl].
Qed.

(* a cancelled subscription stays cancelled (callback numbers are not handed out twice), and the step of an attendance
   that reaches it - also one that has it in a snapshot taken before the cancellation - does not invoke it: it looks
   the subscription up in the list first *)
Lemma cancelled_step tbl cb c c' evs :
  cancelled cb c -> mstep tbl c = Some (c', evs) ->
  cancelled cb c' /\ forall e, In e evs -> ~ is_call_of cb e.
Proof.
  intros (Hsubs & Hcb). unfold mstep.
  assert (forall l, (forall e, In e l -> match e with ECall _ _ _ => False | _ => True end) ->
                    forall e, In e l -> ~ is_call_of cb e) as Hno
    by (intros l Hl e He; specialize (Hl e He); destruct e; cbn; tauto).
  destruct (c_stack c) as [|[top i [|o ops]|[|u rest] marked mk out] k] eqn:Ek; [discriminate| | | |].
  - intros E. injection E as <- <-. split; [|intros e []].
    unfold cancelled. cbn [c_st]. split; assumption.
  - assert (forall e, In e (if top then [] else [EBegin]) -> match e with ECall _ _ _ => False | _ => True end) as Hb
      by (intros e He; destruct top; cbn in He; [tauto|destruct He as [<-|[]]; exact I]).
    assert (forall out dmp e, In e ((if top then [] else [EBegin]) ++ [EEnd out dmp]) ->
                              match e with ECall _ _ _ => False | _ => True end) as Hbe
      by (intros out dmp e He; apply in_app_or in He; destruct He as [He|[<-|[]]]; [now apply Hb|exact I]).
    destruct o as [aid perms|aid|r|aid key|typ v0|idx|ms|].
    1-4, 6-7:
      intros E; injection E as <- <-;
      match goal with |- context [step ?s ?o] => destruct (plain_step s o I) as [Hm Hsub] end;
      (split; [|apply Hno, Hbe]); unfold cancelled; cbn [c_st]; split; [|lia];
      intros Hin; apply in_map_iff in Hin; destruct Hin as (v & Ev & Hv);
      (destruct (Hsub v Hv) as [Hold|[E1 E2]]; [apply Hsubs; apply in_map_iff; exists v; tauto|lia]).
    + destruct (500 <=? now (c_st c) - last_attend (c_st c)); intros E; injection E as <- <-.
      * split; [|apply Hno, Hb]. unfold cancelled. cbn [c_st insert subs next_cb]. split; assumption.
      * split; [|apply Hno, Hbe]. unfold cancelled. cbn [c_st insert subs next_cb]. split; assumption.
    + intros E; injection E as <- <-. split; [|apply Hno, Hb].
      unfold cancelled. cbn [c_st]. split; assumption.
  - intros E. injection E as <- <-. split.
    + unfold cancelled. cbn [c_st]. split.
      * intros Hin. apply Hsubs. apply in_map_iff in Hin. destruct Hin as (v & Ev & Hv).
        apply in_map_iff. exists v. split; [assumption|]. destruct mk; cbn in Hv; apply filter_In in Hv; tauto.
      * destruct mk; exact Hcb.
    + intros e [<-|[]]. cbn. tauto.
  - destruct (negb (mem (u_app u) (conss (c_st c)))).
    { intros E. injection E as <- <-. split; [|intros e []]. unfold cancelled. cbn [c_st]. split; assumption. }
    destruct (negb (nonempty (data_of (c_st c) u)) || negb (mult_ok u (length (data_of (c_st c) u)))
              || negb (listed (c_st c) u)
              || negb (interval_passed (now (c_st c)) (u_nt u) (cur_last (c_st c) u))) eqn:Edue.
    { intros E. injection E as <- <-. split; [|intros e []]. unfold cancelled. cbn [c_st]. split; assumption. }
    (* the callback of u is invoked: u is in the list now, so it is not the cancelled one *)
    apply orb_false_iff in Edue. destruct Edue as [Edue _].
    apply orb_false_iff in Edue. destruct Edue as [_ Elisted]. apply negb_false_iff in Elisted.
    unfold listed in Elisted. apply mem_In in Elisted.
    assert (u_cb u <> cb) as Hu by (intros X; apply Hsubs; now rewrite <- X).
    destruct (pop_script (u_cb u) (c_scripts c)) as [r scr].
    intros E. injection E as <- <-. split.
    + unfold cancelled. cbn [c_st stamp with_subs subs next_cb]. split; [|assumption].
      intros Hin. apply Hsubs. apply in_map_iff in Hin. destruct Hin as (v' & Ev & Hv').
      apply in_map_iff in Hv'. destruct Hv' as (v & <- & Hv). apply in_map_iff. exists v. split; [|assumption].
      destruct (u_cb v =? u_cb u); [destruct v; exact Ev|exact Ev].
    + intros e [<-|[]]. cbn. exact Hu.
Qed.

Lemma cancelled_run tbl cb fuel : forall c, cancelled cb c -> forall e, In e (fst (mrun fuel tbl c)) -> ~ is_call_of cb e.
Proof.
  induction fuel as [|f IH]; intros c Hg e; cbn [mrun]; [intros []|].
  destruct (mstep tbl c) as [[c' evs]|] eqn:E; [|intros []].
  destruct (cancelled_step tbl cb c c' evs Hg E) as [Hg' Hevs].
  specialize (IH c' Hg' e). destruct (mrun f tbl c') as [r fin]. cbn [fst] in *.
  intros Hin. apply in_app_or in Hin. destruct Hin as [Hin|Hin]; [now apply Hevs|now apply IH].
Qed.

(* every cancellation: made by an operation of the history proper or from inside a callback, whatever attendances are
   under way and whether or not they still have the subscription ahead of them *)
Theorem no_call_after_cancel : no_call_after_cancel_stmt.
Proof.
  intros tbl t0 ops n c' evs u c Hstep Hu Hout fuel e He.
  destruct (J_reach tbl n (start t0 ops) [] (J_start (init t0) ops (Forall_nil _))) as (h & HJ).
  fold c in HJ. destruct (J_step tbl c h c' evs HJ Hstep) as (_ & _ & Hmono).
  destruct HJ as (Hs & _). rewrite Forall_forall in Hs. specialize (Hs u Hu).
  apply (cancelled_run tbl (u_cb u) fuel c'); [|exact He].
  unfold cancelled. split; [exact Hout|lia].
Qed.

(* the witness of KF-C14-2 (repaired), kept as an instance: two consumers, no notification interval; from inside its
   notification the first one unsubscribes the second one's subscription, which the attendance under way still has
   ahead of it - that attendance does not invoke the second one's callback any more *)
Definition kf2_req (app key : Z) : sreq := mkSreq app key [2] None true [] true FNone (Some 0) (Some 1).
Definition kf2_ops : list op :=
  [RegCons 2 [2]; RegCons 16 [16]; Subscribe (kf2_req 2 0); Subscribe (kf2_req 16 1); Advance 1000; AddObj 2 JNull].
Definition kf2_tbl : list (Z * script) := [(2, [Some (RUnsub 2 3)])].
(* the state in which the first consumer's callback unsubscribes: 7 small steps into the history *)
Definition kf2_before : cfg := mcfg 7 kf2_tbl (start 0 kf2_ops).
Definition kf2_victim : sub := nth 1 (subs (c_st kf2_before)) (mkSub 0 0 0 (mkReq [] FNone []) None None 0).
Definition kf2_after : cfg := mcfg 8 kf2_tbl (start 0 kf2_ops).
Definition ahead (cb : Z) (f : frame) : Prop :=
  match f with FAtt rest _ _ _ => In cb (map u_cb rest) | _ => False end.

(* the hypotheses of the theorem hold there - the step cancels the victim while the attendance under way has it ahead -
   and the rest of the history consists of the end of the unsubscription and the end of the addition: no call *)
Lemma kf2_instance :
  In kf2_victim (subs (c_st kf2_before)) /\
  ~ In (u_cb kf2_victim) (map u_cb (subs (c_st kf2_after))) /\
  (exists f, In f (c_stack kf2_after) /\ ahead (u_cb kf2_victim) f) /\
  calls_in (fst (mrun 10 kf2_tbl (start 0 kf2_ops))) = [(0, [0])] /\
  snd (mrun 10 kf2_tbl kf2_after) = true.
Proof.
  split; [vm_compute; right; left; reflexivity|].
  split; [vm_compute; intros [X|[]]; discriminate X|].
  split; [|split; vm_compute; reflexivity].
  exists (nth 1 (c_stack kf2_after) (FOps true 0 [])). split; vm_compute; [right|]; left; reflexivity.
Qed.

(* ---- consumers that only record: the machine is LdmSub.step, operation by operation --------------------- *)
Local Transparent step.

Definition marks (s0 : st) (l : list sub) : list Z := rev (map u_cb (filter (fun v => negb (registered s0 v)) l)).

Lemma msteps_app n m tbl c c1 e1 c2 e2 :
  msteps n tbl c = Some (c1, e1) -> msteps m tbl c1 = Some (c2, e2) -> msteps (n + m) tbl c = Some (c2, e1 ++ e2).
Proof.
  revert c e1. induction n as [|n IH]; intros c e1; cbn [msteps Nat.add].
  - intros E. injection E as <- <-. cbn [app]. tauto.
  - destruct (mstep tbl c) as [[c' e']|]; [|discriminate].
    destruct (msteps n tbl c') as [[c'' e'']|] eqn:E'; [|discriminate].
    intros E H2. injection E as <- <-. rewrite (IH c' e'' E' H2). now rewrite app_assoc.
Qed.

Lemma pop_empty cb scr : all_empty scr -> pop_script cb scr = (None, scr).
Proof.
  induction scr as [|[c sc] scr IH]; intros H; cbn [pop_script]; [reflexivity|].
  inversion H as [|p l H1 H2]; subst. cbn in H1. subst sc.
  destruct (c =? cb); [reflexivity|]. now rewrite (IH H2).
Qed.

Lemma find_cb_unique (f : sub -> sub) done u rest :
  (forall v, u_cb (f v) = u_cb v) -> ~ In (u_cb u) (map u_cb done) ->
  find (fun v => u_cb v =? u_cb u) (map f done ++ u :: rest) = Some u.
Proof.
  intros Hf. induction done as [|w done IH]; cbn [map app find]; intros Hn.
  - now rewrite Z.eqb_refl.
  - rewrite Hf. destruct (u_cb w =? u_cb u) eqn:E.
    + exfalso. apply Hn. left. lia.
    + apply IH. intros Hin. apply Hn. now right.
Qed.

Lemma listed_mid (f : sub -> sub) done u rest :
  (forall v, u_cb (f v) = u_cb v) -> mem (u_cb u) (map u_cb (map f done ++ u :: rest)) = true.
Proof. intros Hf. apply mem_In. rewrite map_app. apply in_or_app. right. now left. Qed.

Lemma stamp_unique (f : sub -> sub) done u rest t :
  (forall v, u_cb (f v) = u_cb v) -> ~ In (u_cb u) (map u_cb done) -> ~ In (u_cb u) (map u_cb rest) ->
  map (fun v => if u_cb v =? u_cb u then set_last v t else v) (map f done ++ u :: rest) = map f done ++ set_last u t :: rest.
Proof.
  intros Hf Hd Hr. rewrite map_app. cbn [map]. rewrite Z.eqb_refl. f_equal; [|f_equal].
  - rewrite map_map. apply map_ext_in. intros w Hw. rewrite Hf.
    destruct (u_cb w =? u_cb u) eqn:E; [|reflexivity]. exfalso. apply Hd. apply in_map_iff. exists w. split; [lia|assumption].
  - rewrite <- (map_id rest) at 2. apply map_ext_in. intros w Hw.
    destruct (u_cb w =? u_cb u) eqn:E; [|reflexivity]. exfalso. apply Hr. apply in_map_iff. exists w. split; [lia|assumption].
Qed.

Lemma NoDup_mid (done : list sub) u rest :
  NoDup (map u_cb (done ++ u :: rest)) -> ~ In (u_cb u) (map u_cb done) /\ ~ In (u_cb u) (map u_cb rest).
Proof.
  rewrite map_app. cbn [map]. intros H. apply NoDup_remove_2 in H. split; intros X; apply H; apply in_or_app; tauto.
Qed.

Lemma stamp_with s l cb t :
  stamp (with_subs s l) cb t = with_subs s (map (fun v => if u_cb v =? cb then set_last v t else v) l).
Proof. reflexivity. Qed.

Lemma interval_same t u : interval_passed t (u_nt u) (u_last u) = interval_ok t u.
Proof. reflexivity. Qed.

Lemma passive_loop s0 scr ids mk out k : all_empty scr -> forall rest done,
  NoDup (map u_cb (done ++ rest)) ->
  msteps (length rest) [] (mkCfg (with_subs s0 (map (after_attend s0) done ++ rest)) scr ids (FAtt rest (marks s0 done) mk out :: k))
  = Some (mkCfg (with_subs s0 (map (after_attend s0) (done ++ rest))) scr ids (FAtt [] (marks s0 (done ++ rest)) mk out :: k),
          map (fun u => ECall u (map o_idx (data_of s0 u)) (trunc_s (now s0))) (filter (due s0) rest)).
Proof.
  intros Hscr. induction rest as [|u rest IH]; intros done Hnd.
  - cbn [length msteps filter map]. now rewrite !app_nil_r.
  - destruct (NoDup_mid done u rest Hnd) as [Hd Hr].
    assert (NoDup (map u_cb ((done ++ [u]) ++ rest))) as Hnd' by (rewrite <- app_assoc; exact Hnd).
    specialize (IH (done ++ [u]) Hnd'). rewrite <- !app_assoc in IH. cbn [app] in IH.
    cbn [length msteps]. unfold mstep. cbn [c_st c_stack c_scripts c_ids with_subs conss].
    change (data_of (with_subs s0 (map (after_attend s0) done ++ u :: rest)) u) with (data_of s0 u).
    unfold cur_last, listed. cbn [with_subs subs now].
    rewrite (listed_mid (after_attend s0) done u rest (after_attend_cb s0)).
    rewrite (find_cb_unique (after_attend s0) done u rest (after_attend_cb s0) Hd), interval_same.
    cbn [filter]. unfold due at 1. unfold registered in *.
    destruct (mem (u_app u) (conss s0)) eqn:Ereg; cbn [negb andb].
    + destruct (nonempty (data_of s0 u)) eqn:E1; cbn [negb andb orb].
      2:{ assert (after_attend s0 u = u) as Eu by (unfold after_attend, due; now rewrite Ereg, E1).
          assert (marks s0 (done ++ [u]) = marks s0 done) as Em
            by (unfold marks, registered; rewrite filter_app; cbn [filter]; rewrite Ereg; cbn [negb]; now rewrite app_nil_r).
          rewrite map_app in IH. cbn [map] in IH. rewrite Eu, Em, <- app_assoc in IH. cbn [app] in IH.
          rewrite IH. reflexivity. }
      destruct (mult_ok u (length (data_of s0 u))) eqn:E2; cbn [negb andb orb].
      2:{ assert (after_attend s0 u = u) as Eu by (unfold after_attend, due; now rewrite Ereg, E1, E2).
          assert (marks s0 (done ++ [u]) = marks s0 done) as Em
            by (unfold marks, registered; rewrite filter_app; cbn [filter]; rewrite Ereg; cbn [negb]; now rewrite app_nil_r).
          rewrite map_app in IH. cbn [map] in IH. rewrite Eu, Em, <- app_assoc in IH. cbn [app] in IH.
          rewrite IH. reflexivity. }
      destruct (interval_ok (now s0) u) eqn:E3; cbn [negb andb orb].
      2:{ assert (after_attend s0 u = u) as Eu by (unfold after_attend, due; now rewrite Ereg, E1, E2, E3).
          assert (marks s0 (done ++ [u]) = marks s0 done) as Em
            by (unfold marks, registered; rewrite filter_app; cbn [filter]; rewrite Ereg; cbn [negb]; now rewrite app_nil_r).
          rewrite map_app in IH. cbn [map] in IH. rewrite Eu, Em, <- app_assoc in IH. cbn [app] in IH.
          rewrite IH. reflexivity. }
      assert (after_attend s0 u = set_last u (trunc_s (now s0))) as Eu
        by (unfold after_attend, due; now rewrite Ereg, E1, E2, E3).
      assert (marks s0 (done ++ [u]) = marks s0 done) as Em
        by (unfold marks, registered; rewrite filter_app; cbn [filter]; rewrite Ereg; cbn [negb]; now rewrite app_nil_r).
      rewrite (pop_empty (u_cb u) scr Hscr). cbn [push_reaction].
      rewrite stamp_with, (stamp_unique (after_attend s0) done u rest _ (after_attend_cb s0) Hd Hr).
      rewrite map_app in IH. cbn [map] in IH. rewrite Eu, Em, <- app_assoc in IH. cbn [app] in IH.
      rewrite IH. reflexivity.
    + assert (after_attend s0 u = u) as Eu by (unfold after_attend, due; now rewrite Ereg).
      assert (marks s0 (done ++ [u]) = u_cb u :: marks s0 done) as Em
        by (unfold marks, registered; rewrite filter_app; cbn [filter]; rewrite Ereg; cbn [negb map];
            now rewrite map_app, rev_app_distr).
      rewrite map_app in IH. cbn [map] in IH. rewrite Eu, Em, <- app_assoc in IH. cbn [app] in IH.
      rewrite IH. reflexivity.
Qed.

Lemma filter_map_comm {A B} (p : B -> bool) (f : A -> B) l : filter p (map f l) = map f (filter (fun x => p (f x)) l).
Proof. induction l as [|x l IH]; cbn [map filter]; [reflexivity|]. destruct (p (f x)); cbn [map]; now rewrite IH. Qed.

Lemma sweep_marks s0 L : NoDup (map u_cb L) ->
  filter (fun v => negb (mem (u_cb v) (marks s0 L))) (map (after_attend s0) L) = map (after_attend s0) (filter (registered s0) L).
Proof.
  intros Hnd. rewrite filter_map_comm. f_equal. apply filter_ext_in. intros v Hv. rewrite after_attend_cb.
  destruct (registered s0 v) eqn:Er.
  - apply negb_true_iff. destruct (mem (u_cb v) (marks s0 L)) eqn:Em; [|reflexivity]. exfalso.
    apply mem_In in Em. unfold marks in Em. apply in_rev in Em. apply in_map_iff in Em. destruct Em as (w & Ecb & Hw).
    apply filter_In in Hw. destruct Hw as [Hw Hu].
    assert (w = v) by (eapply nodup_cb_inj; eassumption). subst w. rewrite Er in Hu. discriminate.
  - apply negb_false_iff. apply mem_In. unfold marks. apply -> in_rev. apply in_map. apply filter_In. split; [assumption|].
    now rewrite Er.
Qed.

Lemma calls_in_app a b : calls_in (a ++ b) = calls_in a ++ calls_in b.
Proof. unfold calls_in. apply flat_map_app. Qed.

Lemma calls_in_calls s0 t l : calls_in (map (fun u => ECall u (map o_idx (data_of s0 u)) t) l) = map (call_of s0) l.
Proof. unfold calls_in. induction l as [|u l IH]; [reflexivity|]. cbn [map flat_map app]. now rewrite IH. Qed.

(* an attendance with consumers that only record, from its first to its last small step *)
Lemma passive_attendance s0 scr ids (mk : bool) out k : all_empty scr -> NoDup (map u_cb (subs s0)) ->
  let s1 := with_subs s0 (map (after_attend s0) (filter (registered s0) (subs s0))) in
  let s2 := if mk then mark_attended s1 else s1 in
  msteps (length (subs s0) + 1) [] (mkCfg (with_subs s0 (subs s0)) scr ids (FAtt (subs s0) [] mk out :: k))
  = Some (mkCfg s2 scr ids k,
          map (fun u => ECall u (map o_idx (data_of s0 u)) (trunc_s (now s0))) (filter (due s0) (subs s0)) ++ [EEnd out (dump s2)]).
Proof.
  intros Hscr Hnd s1 s2.
  pose proof (passive_loop s0 scr ids mk out k Hscr (subs s0) [] Hnd) as Hloop. cbn [map app] in Hloop.
  eapply msteps_app; [exact Hloop|].
  cbn [msteps]. unfold mstep. cbn [c_st c_stack c_scripts c_ids].
  assert (sweep (with_subs s0 (map (after_attend s0) (subs s0))) (marks s0 (subs s0)) = s1) as ->.
  { unfold sweep, s1. cbn [with_subs subs store next_idx conss next_cb now last_attend]. rewrite (sweep_marks s0 _ Hnd). reflexivity. }
  cbn [app]. reflexivity.
Qed.

Lemma eta_st s : with_subs s (subs s) = s.
Proof. destruct s; reflexivity. Qed.

(* one operation of the history, consumers that only record: the machine does what LdmSub.step does *)
Lemma passive_op s o i ops scr ids : NoDup (map u_cb (subs s)) -> all_empty scr ->
  exists n scr' ids' pre,
    msteps n [] (mkCfg s scr ids [FOps true i (o :: ops)]) =
      Some (mkCfg (st_of (step s o)) scr' ids' [FOps true (i + 1) ops],
            pre ++ [EEnd (out_of (step s o)) (dump (st_of (step s o)))]) /\
    all_empty scr' /\ calls_in pre = calls_of (step s o).
Proof.
  intros Hnd Hscr.
  assert (all_empty ((next_cb s, script_of i []) :: scr)) as Hscr' by (constructor; [reflexivity|exact Hscr]).
  destruct o as [aid perms|aid|r|aid key|typ v0|idx|ms|].
  1-4, 6-7: exists 1%nat; cbn [msteps]; unfold mstep; cbn [c_st c_stack c_scripts c_ids andb app].
  - exists scr, ids, []. repeat split; try assumption. cbn [step]. destruct (reg_cons_ok aid perms); reflexivity.
  - exists scr, ids, []. repeat split; try assumption. cbn [step]. destruct (mem aid (conss s)); reflexivity.
  - destruct (validate s r =? 0) eqn:E.
    + exists ((next_cb s, script_of i []) :: scr), ((i, r_key r) :: ids), []. repeat split; try assumption.
      cbn [step]. rewrite E. reflexivity.
    + exists scr, ids, []. repeat split; try assumption. cbn [step]. rewrite E. reflexivity.
  - exists scr, ids, []. repeat split; try assumption. cbn [step]. destruct (negb (mem aid (conss s))); [reflexivity|].
    destruct (existsb (fun u => u_key u =? key) (subs s)); reflexivity.
  - exists scr, ids, []. repeat split; try assumption. cbn [step].
    destruct (existsb (fun o => o_idx o =? idx) (store s)); reflexivity.
  - exists scr, ids, []. repeat split; try assumption.
  - (* an addition *)
    destruct (500 <=? now s - last_attend s) eqn:E.
    + set (s1 := insert s typ v0).
      assert (NoDup (map u_cb (subs s1))) as Hnd1 by exact Hnd.
      pose proof (passive_attendance s1 scr ids true [next_idx s] [FOps true (i + 1) ops] Hscr Hnd1) as Hatt.
      cbv zeta in Hatt. rewrite eta_st in Hatt.
      exists (1 + (length (subs s1) + 1))%nat, scr, ids,
        (map (fun u => ECall u (map o_idx (data_of s1 u)) (trunc_s (now s1))) (filter (due s1) (subs s1))).
      split; [|split; [assumption|]].
      * assert (msteps 1 [] (mkCfg s scr ids [FOps true i (AddObj typ v0 :: ops)]) =
                Some (mkCfg s1 scr ids [FAtt (subs s1) [] true [next_idx s]; FOps true (i + 1) ops], [])) as H1
          by (cbn [msteps]; unfold mstep; cbn [c_st c_stack c_scripts c_ids app]; rewrite E; reflexivity).
        rewrite (msteps_app _ _ _ _ _ _ _ _ H1 Hatt). cbn [app step]. rewrite E. fold s1. rewrite attend_spec. reflexivity.
      * rewrite calls_in_calls. cbn [step]. rewrite E. fold s1. rewrite attend_spec. reflexivity.
    + exists 1%nat, scr, ids, []. cbn [msteps]. unfold mstep. cbn [c_st c_stack c_scripts c_ids andb app]. rewrite E.
      repeat split; try assumption; cbn [step]; rewrite E; reflexivity.
  - (* an explicit attendance *)
    pose proof (passive_attendance s scr ids false [] [FOps true (i + 1) ops] Hscr Hnd) as Hatt.
    cbv zeta in Hatt. rewrite eta_st in Hatt.
    exists (1 + (length (subs s) + 1))%nat, scr, ids,
      (map (fun u => ECall u (map o_idx (data_of s u)) (trunc_s (now s))) (filter (due s) (subs s))).
    split; [|split; [assumption|]].
    + assert (msteps 1 [] (mkCfg s scr ids [FOps true i (Attend :: ops)]) =
              Some (mkCfg s scr ids [FAtt (subs s) [] false []; FOps true (i + 1) ops], [])) as H1
        by (cbn [msteps]; unfold mstep; cbn [c_st c_stack c_scripts c_ids app]; reflexivity).
      rewrite (msteps_app _ _ _ _ _ _ _ _ H1 Hatt). cbn [app step]. rewrite attend_spec. reflexivity.
    + rewrite calls_in_calls. cbn [step]. rewrite attend_spec. reflexivity.
Qed.

(* a whole history: with consumers that only record, the machine reaches the state of LdmSub.run and invokes the
   callbacks LdmSub.run invokes, in that order - the theorems about LdmSub.step are theorems about the machine *)
Lemma passive_run ops : forall s i scr ids, inv s -> all_empty scr ->
  exists n c' evs,
    msteps n [] (mkCfg s scr ids [FOps true i ops]) = Some (c', evs) /\
    c_st c' = fst (run s ops) /\ c_stack c' = [FOps true (i + Z.of_nat (length ops)) []] /\
    calls_in evs = all_calls s ops.
Proof.
  induction ops as [|o ops IH]; intros s i scr ids Hinv Hscr.
  - exists 0%nat, (mkCfg s scr ids [FOps true i []]), []. cbn [msteps c_st c_stack length run fst].
    rewrite Z.add_0_r. repeat split.
  - destruct (passive_op s o i ops scr ids (proj1 Hinv) Hscr) as (n1 & scr' & ids' & pre & H1 & Hscr' & Hpre).
    destruct (IH (st_of (step s o)) (i + 1) scr' ids' (inv_step s o Hinv) Hscr') as (n2 & c' & evs & H2 & Hst & Hstack & Hcalls).
    exists (n1 + n2)%nat, c', ((pre ++ [EEnd (out_of (step s o)) (dump (st_of (step s o)))]) ++ evs).
    split; [exact (msteps_app _ _ _ _ _ _ _ _ H1 H2)|]. split; [|split].
    + rewrite run_cons. exact Hst.
    + rewrite Hstack. cbn [length]. f_equal. f_equal. lia.
    + rewrite !calls_in_app, Hpre, Hcalls, all_calls_cons. cbn [calls_in flat_map app]. now rewrite app_nil_r.
Qed.

Theorem passive_is_run t0 ops :
  exists n c' evs,
    msteps n [] (start t0 ops) = Some (c', evs) /\
    c_st c' = state_after t0 ops /\ c_stack c' = [FOps true (Z.of_nat (length ops)) []] /\
    calls_in evs = all_calls (init t0) ops.
Proof. exact (passive_run ops (init t0) 0 [] [] (inv_init t0) (Forall_nil _)). Qed.
