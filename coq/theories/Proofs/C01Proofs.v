From FlexVerif Require Import Base.Prelude Base.Bits Base.BitsFacts Model.Lifetime Model.Wire Model.LocT Model.Router Model.Btp
  Proofs.LifetimeProofs Proofs.WireProofs Proofs.LocTProofs Proofs.RouterProofs.
From Coq Require Import ZifyBool.

(* ---------- BTP ---------------------------------------------------------------------------- *)
Theorem btp_roundtrip ports nh rest p1 p2 payload : nh = 1 \/ nh = 2 -> fits 16 p1 = true -> fits 16 p2 = true ->
  btp_indicate ports (nh :: rest) (snd (btp_request nh p1 p2 payload)) =
  if existsb (Z.eqb p1) ports then Some (p1, p2, payload) else None.
Proof.
  intros Hn H1 H2. unfold btp_indicate, btp_request, btp_pdu. cbn [snd]. unfold arg at 1 2. cbn [nth].
  replace ((nh =? 1) || (nh =? 2)) with true by lia.
  rewrite dec_enc_btp by (unfold btp_ws; cbn [all_fit]; rewrite H1, H2; reflexivity).
  unfold arg. cbn [nth]. rewrite skipn_app_exact by apply enc_btp_length. reflexivity.
Qed.

Theorem btp_only_registered_port ports hdr data p1 p2 payload :
  btp_indicate ports hdr data = Some (p1, p2, payload) -> In p1 ports.
Proof.
  unfold btp_indicate. destruct ((arg 0 hdr =? 1) || (arg 0 hdr =? 2)); [|discriminate].
  destruct (match dec_btp data with Some v => _ | None => _ end) as [q1 q2].
  destruct (existsb _ ports) eqn:E; [|discriminate]. intros H. injection H as <- _ _.
  apply existsb_exists in E as (x & Hx & Ex). assert (x = q1) by lia. subst. exact Hx.
Qed.

Lemma skipn_skipn' {A} (x y : nat) (l : list A) : skipn x (skipn y l) = skipn (y + x) l.
Proof. revert l. induction y as [|y IH]; intros l; cbn; [reflexivity|]. destruct l; [destruct x; reflexivity | apply IH]. Qed.

(* ---------- single-hop broadcast, end to end ------------------------------------------------- *)
Section E2E.
  Variables (mA mB : mib) (sA sB : state) (now : Z) (g : geo).
  Hypothesis HmobA : fits 1 (m_mobile mA) = true.
  Hypothesis HegoA : wf_lpv (s_ego sA) = true.
  Hypothesis Hdiff : mid_eqb (pv_addr (s_ego sA)) (m_addr mB) = false.     (* A's address is not B's *)
  Hypothesis HaddrA : pv_addr (s_ego sA) = m_addr mA.

  Variables (req_ms nh scf off tcid : Z) (payload : list Z).
  Hypothesis Hnh : 0 <= nh <= 3.
  Hypothesis Hscf : fits 1 scf = true.
  Hypothesis Hoff : fits 1 off = true.
  Hypothesis Htc : fits 6 tcid = true.
  Hypothesis Hpl : Z.of_nat (length payload) < 65536.

  Let shb_pkt := mk_shb (m_mobile mA) (m_default_s mA) req_ms nh scf off tcid (s_ego sA) payload.

  Lemma req_shb_sends : req_shb mA sA ([req_ms; nh; scf; off; tcid] ++ payload) = (sA, [OOrig shb_pkt]).
  Proof. reflexivity. Qed.

  Theorem shb_end_to_end :
    exists hdr, rx mB sB now g shb_pkt =
      (set_loct sB (rx_shb (s_loct sB) (s_ego sA) now (m_life_ms mB)), [OInd hdr payload]) /\
      arg 0 hdr = nh /\ arg 1 hdr = 5 /\ arg 2 hdr = 0 /\ firstn 9 (skipn 3 hdr) = s_ego sA.
  Proof.
    destruct (mk_shb_parse (m_mobile mA) (m_default_s mA) (s_ego sA) HmobA HegoA 0 0 eq_refl eq_refl
                req_ms nh scf off tcid payload Hnh Hscf Hoff Htc Hpl) as (Pb & Pc & Pl & Pp).
    fold shb_pkt in Pb, Pc, Pl, Pp.
    unfold rx. cbv zeta. rewrite Pb. unfold arg at 1 2 3. cbn [nth]. cbn [Z.eqb negb Pos.eqb].
    rewrite Pc. unfold arg at 1 2. cbn [nth].
    replace (1 <? 1) with false by reflexivity.
    unfold arg at 1 2 3 4 5 6 7. cbn [nth]. cbn [Z.eqb Pos.eqb].
    unfold rx_beacon. rewrite Pl, Hdiff.
    assert (W9 : length (s_ego sA) = 9%nat) by (apply wf_lpv_len; exact HegoA).
    eexists. split.
    - rewrite skipn_skipn'. change (12 + 28)%nat with 40%nat. rewrite Pp. reflexivity.
    - unfold ind_hdr. cbn [app]. unfold arg at 1 2 3. cbn [nth]. repeat split.
      cbn [skipn]. apply firstn_app_exact. exact W9.
  Qed.

  (* A hears its own frame (echo): nothing happens *)
  Theorem shb_sender_ignores_own : fst (rx mA sA now g shb_pkt) = sA /\ quiet (snd (rx mA sA now g shb_pkt)).
  Proof.
    destruct (mk_shb_parse (m_mobile mA) (m_default_s mA) (s_ego sA) HmobA HegoA 0 0 eq_refl eq_refl
                req_ms nh scf off tcid payload Hnh Hscf Hoff Htc Hpl) as (Pb & Pc & Pl & Pp).
    fold shb_pkt in Pb, Pc, Pl, Pp.
    apply (own_packet_ignored mA sA now g shb_pkt (pv_addr (s_ego sA))).
    - unfold so_addr. rewrite Pc. unfold arg at 1 2 3. cbn [nth]. cbn [Z.eqb Pos.eqb orb andb]. rewrite Pl. reflexivity.
    - rewrite HaddrA. unfold mid_eqb. apply Z.eqb_refl.
  Qed.
End E2E.

(* ---------- geo-broadcast / geo-anycast, end to end ------------------------------------------- *)
Section E2EGeo.
  Variables (mA mB : mib) (sA sB : state) (now : Z) (g : geo).
  Hypothesis HmobA : fits 1 (m_mobile mA) = true.
  Hypothesis HegoA : wf_lpv (s_ego sA) = true.
  Hypothesis Hdiff : mid_eqb (pv_addr (s_ego sA)) (m_addr mB) = false.
  Hypothesis HdhlA : fits 8 (m_default_hl mA) = true.

  Variables (req_ms req_hl nh ht hst scf off tcid sn : Z) (area payload : list Z).
  Hypothesis Hnh : 0 <= nh <= 3.
  Hypothesis Hscf : fits 1 scf = true.
  Hypothesis Hoff : fits 1 off = true.
  Hypothesis Htc : fits 6 tcid = true.
  Hypothesis Hpl : Z.of_nat (length payload) < 65536.
  Hypothesis Hsn : fits 16 sn = true.
  Hypothesis Hrhl : fits 8 req_hl = true.
  Hypothesis Hht : ht = 3 \/ ht = 4.
  Hypothesis Hhst : 0 <= hst <= 2.
  Hypothesis Harea : wf_area (area ++ [0]) = true.

  Let pkt := mk_gbc (m_mobile mA) (m_default_s mA) (m_default_hl mA) req_ms req_hl nh ht hst scf off tcid sn
                    (s_ego sA) area payload.
  Let hl := hop_choice req_hl (m_default_hl mA).
  Let bv := [1; 1; 0; fst (lt_of_req (m_default_s mA) req_ms); snd (lt_of_req (m_default_s mA) req_ms); hl].
  Let cv := [nh; ht; hst; scf; off; tcid; m_mobile mA * 128; Z.of_nat (length payload); hl; 0].
  Let h := [sn; 0] ++ s_ego sA ++ area ++ [0].

  Lemma geo_pkt_dispatch :
    rx mB sB now g pkt = (if ht =? 4 then rx_gbc else rx_gac) mB sB now g bv cv (skipn 12 pkt)
    /\ dec_gbc (skipn 12 pkt) = Some h /\ skipn 44 (skipn 12 pkt) = payload.
  Proof.
    destruct (mk_gbc_parse (m_mobile mA) (m_default_s mA) (s_ego sA) HmobA HegoA (m_default_hl mA) sn Hsn HdhlA
                req_ms nh scf off tcid payload Hnh Hscf Hoff Htc Hpl req_hl Hrhl ht hst area Hht Hhst Harea)
      as (Pb & Pc & Pg & Pp).
    fold pkt in Pb, Pc, Pg, Pp. cbv zeta in Pb, Pc. fold hl in Pb, Pc. fold bv in Pb. fold cv in Pc. fold h in Pg.
    split; [|split; [exact Pg | rewrite skipn_skipn'; exact Pp]].
    unfold rx. cbv zeta. rewrite Pb. unfold bv, cv in *. cbn [arg nth]. cbn [Z.eqb negb Pos.eqb].
    rewrite Pc. cbn [arg nth]. rewrite Z.ltb_irrefl.
    destruct Hht as [E | E]; rewrite E; reflexivity.
  Qed.

  Hypothesis Hnz : zero_area hst h = false.                                    (* semi-axes not zero *)
  Variable inside : bool.
  Hypothesis Hins : lookup_ins (g_ins g) (pv_lat (s_ego sB)) (pv_lon (s_ego sB)) = Some inside.
  Variable t : list entry.
  Hypothesis Hfresh : rx_mh (s_loct sB) (s_ego sA) sn now (m_life_ms mB) (m_dpl_len mB) = Some t.   (* not a duplicate at B *)
  Hypothesis Hgeo : ~ In OGeoMissing (snd (rx mB sB now g pkt)).

  Lemma h_parts : firstn 9 (skipn 2 h) = s_ego sA /\ arg 0 h = sn.
  Proof.
    unfold h. cbn [app skipn]. split; [|reflexivity]. apply firstn_app_exact. apply wf_lpv_len. exact HegoA.
  Qed.

  Theorem geo_end_to_end :
    ((exists o, In o (snd (rx mB sB now g pkt)) /\ is_ind o = true) <-> inside = true) /\
    (forall hd d, In (OInd hd d) (snd (rx mB sB now g pkt)) ->
        d = payload /\ arg 0 hd = nh /\ arg 1 hd = ht /\ firstn 9 (skipn 3 hd) = s_ego sA).
  Proof.
    destruct geo_pkt_dispatch as (D & Pg & Pp). destruct h_parts as [Hpv Hsn0].
    assert (W9 : length (s_ego sA) = 9%nat) by (apply wf_lpv_len; exact HegoA).
    rewrite D in Hgeo |- *. destruct Hht as [E|E]; subst ht;
      [change (3 =? 4) with false in * | change (4 =? 4) with true in *]; cbv iota in *.
    - (* GAC *)
      assert (Z2 : zero_area (arg 2 cv) h = false) by exact Hnz.
      destruct (gac_delivered_iff_inside mB sB now g bv cv (skipn 12 pkt) h inside t Pg Z2 Hins
                  ltac:(rewrite Hpv; exact Hdiff) ltac:(rewrite Hpv, Hsn0; exact Hfresh) Hgeo) as [I1 I2].
      split; [exact I1|]. intros hd d Hin. destruct inside.
      + rewrite (I2 eq_refl) in Hin. destruct Hin as [Hin|[]].
        assert (Ea : hd = ind_hdr cv bv (firstn 9 (skipn 2 h)) (gbc_area h) 3 (arg 2 cv)) by congruence.
        assert (Eb : d = skipn 44 (skipn 12 pkt)) by congruence. rewrite Ea, Eb.
        rewrite Pp, Hpv. repeat split. unfold ind_hdr. cbn [app skipn]. apply firstn_app_exact. exact W9.
      + exfalso. assert (X : exists o, In o (snd (rx_gac mB sB now g bv cv (skipn 12 pkt))) /\ is_ind o = true)
          by (eexists; split; [exact Hin | reflexivity]). apply I1 in X. discriminate.
    - (* GBC *)
      assert (Z2 : zero_area (arg 2 cv) h = false) by exact Hnz.
      destruct (gbc_delivered_iff_inside mB sB now g bv cv (skipn 12 pkt) h inside t Pg Z2 Hins
                  ltac:(rewrite Hpv; exact Hdiff) ltac:(rewrite Hpv, Hsn0; exact Hfresh) Hgeo) as [I1 I2].
      split; [exact I1|]. intros hd d Hin. destruct (I2 hd d Hin) as [-> ->].
      rewrite Pp, Hpv. repeat split. unfold ind_hdr. cbn [app skipn]. apply firstn_app_exact. exact W9.
  Qed.
End E2EGeo.

(* ---------- geo-unicast, end to end ------------------------------------------------------------- *)
Section E2EGuc.
  Variables (mA mB : mib) (sA sB : state) (now : Z) (g : geo).
  Hypothesis HmobA : fits 1 (m_mobile mA) = true.
  Hypothesis HegoA : wf_lpv (s_ego sA) = true.
  Hypothesis Hdiff : mid_eqb (pv_addr (s_ego sA)) (m_addr mB) = false.
  Hypothesis HdhlA : fits 8 (m_default_hl mA) = true.

  Variables (req_ms req_hl nh scf off tcid sn : Z) (de payload : list Z).
  Hypothesis Hnh : 0 <= nh <= 3.
  Hypothesis Hscf : fits 1 scf = true.
  Hypothesis Hoff : fits 1 off = true.
  Hypothesis Htc : fits 6 tcid = true.
  Hypothesis Hpl : Z.of_nat (length payload) < 65536.
  Hypothesis Hsn : fits 16 sn = true.
  Hypothesis Hrhl : fits 8 req_hl = true.
  Hypothesis Hde : wf_spv de = true.
  Hypothesis HdeB : mid_eqb (firstn 3 de) (m_addr mB) = true.                 (* addressed to B *)

  Let pkt := mk_guc (m_mobile mA) (m_default_s mA) (m_default_hl mA) req_ms req_hl nh scf off tcid sn (s_ego sA) de payload.

  Variable t : list entry.
  Hypothesis Hfresh : rx_mh (s_loct sB) (s_ego sA) sn now (m_life_ms mB) (m_dpl_len mB) = Some t.

  Theorem guc_end_to_end :
    exists hdr, rx mB sB now g pkt = (set_loct sB t, [OInd hdr payload]) /\
      arg 0 hdr = nh /\ arg 1 hdr = 2 /\ firstn 9 (skipn 3 hdr) = s_ego sA.
  Proof.
    destruct (mk_guc_parse (m_mobile mA) (m_default_s mA) (s_ego sA) HmobA HegoA (m_default_hl mA) sn Hsn HdhlA
                req_ms nh scf off tcid payload Hnh Hscf Hoff Htc Hpl req_hl Hrhl de Hde) as (Pb & Pc & Pg & Pp).
    fold pkt in Pb, Pc, Pg, Pp. cbv zeta in Pb, Pc.
    assert (W9 : length (s_ego sA) = 9%nat) by (apply wf_lpv_len; exact HegoA).
    unfold rx. cbv zeta. rewrite Pb. cbn [arg nth]. cbn [Z.eqb negb Pos.eqb].
    rewrite Pc. cbn [arg nth]. rewrite Z.ltb_irrefl. cbn [Z.eqb Pos.eqb].
    unfold rx_guc. cbv zeta. rewrite Pg.
    assert (E1 : firstn 9 (skipn 2 ([sn; 0] ++ s_ego sA ++ de)) = s_ego sA) by (cbn [app skipn]; apply firstn_app_exact; exact W9).
    assert (E2 : skipn 11 ([sn; 0] ++ s_ego sA ++ de) = de).
    { rewrite app_assoc. apply skipn_app_exact. rewrite app_length, W9. reflexivity. }
    rewrite E1, E2. rewrite Hdiff. cbn [arg nth app]. rewrite Hfresh, HdeB.
    eexists. split.
    - rewrite skipn_skipn'. change (12 + 48)%nat with 60%nat. rewrite Pp. reflexivity.
    - unfold ind_hdr. cbn [app arg nth skipn]. repeat split. apply firstn_app_exact. exact W9.
  Qed.
End E2EGuc.

(* ---------- location service: request, reply, flush in request order ----------------------------- *)
Lemma flush_guc_app m g dest rs1 : forall rs2 s,
  flush_guc m s g dest (rs1 ++ rs2) =
  let '(s1, o1) := flush_guc m s g dest rs1 in let '(s2, o2) := flush_guc m s1 g dest rs2 in (s2, o1 ++ o2).
Proof.
  induction rs1 as [|r rs1 IH]; intros rs2 s; cbn [app flush_guc].
  - destruct (flush_guc m s g dest rs2). reflexivity.
  - destruct (req_guc m s g dest r) as [s1 o1]. rewrite IH.
    destruct (flush_guc m s1 g dest rs1) as [s2 o2]. destruct (flush_guc m s2 g dest rs2) as [s3 o3].
    rewrite app_assoc. reflexivity.
Qed.

Lemma ls_find_put l x : ls_find (ls_put l x) (ls_addr x) = Some x.
Proof.
  unfold ls_put. destruct (ls_find l (ls_addr x)) eqn:L.
  - induction l as [|y l IH]; cbn in *; [discriminate|].
    destruct (list_eqb (ls_addr y) (ls_addr x)) eqn:E; cbn.
    + rewrite list_eqb_refl. reflexivity.
    + rewrite E. apply IH. exact L.
  - induction l as [|y l IH]; cbn in *; [rewrite list_eqb_refl; reflexivity|].
    destruct (list_eqb (ls_addr y) (ls_addr x)) eqn:E; [discriminate|]. apply IH. exact L.
Qed.

(* a unicast request for an unknown destination starts a lookup and is buffered *)
Theorem guc_unknown_destination_starts_lookup m s g dest r :
  find (s_loct s) dest = None ->
  exists s', req_guc m s g dest r =
    (s', [OOrig (mk_lsreq (m_mobile m) (m_default_s m) (m_default_hl m) (next_sn (s_sn s)) (s_ego s) dest);
          OTimerStart 2 dest]) /\
    (exists x, ls_find (s_ls s') dest = Some x /\ ls_buf x = [r] /\ ls_count x = 0) /\
    (exists e, find (s_loct s') dest = Some e /\ e_ls e = true /\ e_set e = false).
Proof.
  intros F. unfold req_guc. rewrite F. unfold ls_request. rewrite F. unfold send_lsreq, take_sn. cbn.
  eexists. split; [reflexivity|]. split.
  - exists (mkLs dest 0 [r]). split; [|split; reflexivity]. apply (ls_find_put (s_ls s) (mkLs dest 0 [r])).
  - unfold set_ls. rewrite F. exists (mkEntry dest [0; 0; 0; 0; 0; 0; 0; 0; 0] false false true []).
    split; [|split; reflexivity].
    cbn [s_loct]. rewrite find_app_none by exact F. cbn. rewrite list_eqb_refl. reflexivity.
Qed.

(* a further request while the lookup is pending is queued behind the earlier ones, nothing is sent *)
Theorem guc_while_pending_is_queued m s g dest r x e :
  find (s_loct s) dest = Some e -> e_ls e = true -> ls_find (s_ls s) dest = Some x ->
  exists s', req_guc m s g dest r = (s', []) /\
    exists x', ls_find (s_ls s') dest = Some x' /\ ls_buf x' = ls_buf x ++ [r] /\ s_loct s' = s_loct s /\ s_sn s' = s_sn s.
Proof.
  intros F E L. unfold req_guc. rewrite F, L. unfold ls_request. rewrite F, E, L.
  eexists. split; [reflexivity|]. cbn. exists (mkLs dest (ls_count x) (ls_buf x ++ [r])). repeat split.
  apply (ls_find_put (s_ls s) (mkLs dest (ls_count x) (ls_buf x ++ [r]))).
Qed.
