(* Decoders of the header codecs regenerated from the source (Gen/SrcGeonet.v): equal to the model's decoders; round trips. *)
From FlexVerif Require Import Base.Prelude Base.Bits Base.BitsFacts Model.Lifetime Model.Wire Gen.SrcGeonet Proofs.WireProofs Proofs.SrcLifetimeEquiv
  Proofs.SrcWireEquiv.
From Coq Require Import ZifyBool.
Ltac Zify.zify_post_hook ::= Z.to_euclidean_division_equations.

(* ---- decoders (integer level): the fields the source extracts are the model's unpack of the layout table --------------- *)
Ltac masks :=
  change 15 with (2 ^ 4 - 1); change 255 with (2 ^ 8 - 1); change 63 with (2 ^ 6 - 1); change 3 with (2 ^ 2 - 1);
  change 65535 with (2 ^ 16 - 1); rewrite ?land_mask by lia.

Lemma src_basic_decode x : 0 <= x < 2 ^ 32 ->
  BasicHeader_decode_from_int x
  = option_map (fun r => (arg 0 r, arg 1 r, arg 2 r, (arg 3 r, arg 4 r), arg 5 r)) (view_basic (unpack basic_ws x)).
Proof.
  intros Hx. unfold BasicHeader_decode_from_int, view_basic, unpack, basic_ws, enum_mem_BasicNH, enum_mem_LTbase.
  cbn [rev app unpack_rev arg nth].
  rewrite !Z.shiftr_div_pow2 by lia.
  replace (Z.land (x / 2 ^ 28) 15) with (x / 2 ^ 8 / 2 ^ 2 / 2 ^ 6 / 2 ^ 8 / 2 ^ 4 mod 2 ^ 4)
    by (change 15 with (2 ^ 4 - 1); rewrite land_mask by lia; pow2; lia).
  replace (Z.land (x / 2 ^ 24) 15) with (x / 2 ^ 8 / 2 ^ 2 / 2 ^ 6 / 2 ^ 8 mod 2 ^ 4)
    by (change 15 with (2 ^ 4 - 1); rewrite land_mask by lia; pow2; lia).
  replace (Z.land (x / 2 ^ 16) 255) with (x / 2 ^ 8 / 2 ^ 2 / 2 ^ 6 mod 2 ^ 8)
    by (change 255 with (2 ^ 8 - 1); rewrite land_mask by lia; pow2; lia).
  replace (Z.land (x / 2 ^ 10) 63) with (x / 2 ^ 8 / 2 ^ 2 mod 2 ^ 6)
    by (change 63 with (2 ^ 6 - 1); rewrite land_mask by lia; pow2; lia).
  replace (Z.land (x / 2 ^ 8) 3) with (x / 2 ^ 8 mod 2 ^ 2)
    by (change 3 with (2 ^ 2 - 1); rewrite land_mask by lia; pow2; lia).
  replace (Z.land x 255) with (x mod 2 ^ 8) by (change 255 with (2 ^ 8 - 1); rewrite land_mask by lia; reflexivity).
  set (nh := x / 2 ^ 8 / 2 ^ 2 / 2 ^ 6 / 2 ^ 8 mod 2 ^ 4). set (b := x / 2 ^ 8 mod 2 ^ 2).
  assert (Hnh : 0 <= nh < 16) by (subst nh; apply Z.mod_pos_bound; lia).
  assert (Hb : 0 <= b < 4) by (subst b; apply Z.mod_pos_bound; lia).
  destruct (nh <=? 2) eqn:E1.
  - replace ((nh =? 0) || (nh =? 1) || (nh =? 2)) with true by lia.
    replace ((b =? 0) || (b =? 1) || (b =? 2) || (b =? 3)) with true by lia. reflexivity.
  - replace ((nh =? 0) || (nh =? 1) || (nh =? 2)) with false by lia. reflexivity.
Qed.

Definition common_tuple (r : list Z) :=
  (arg 0 r, arg 1 r, arg 2 r, (negb (arg 3 r =? 0), negb (arg 4 r =? 0), arg 5 r), arg 6 r, arg 7 r, arg 8 r, arg 9 r).

Lemma src_common_decode x : 0 <= x < 2 ^ 64 ->
  CommonHeader_decode_from_int x = option_map common_tuple (view_common (unpack common_ws x)).
Proof.
  intros Hx. unfold CommonHeader_decode_from_int, TrafficClass_decode_from_int, view_common, unpack, common_ws, common_tuple.
  cbn [rev app unpack_rev arg nth].
  rewrite !Z.shiftr_div_pow2 by lia.
  set (nh := x / 2 ^ 8 / 2 ^ 8 / 2 ^ 16 / 2 ^ 8 / 2 ^ 6 / 2 ^ 1 / 2 ^ 1 / 2 ^ 4 / 2 ^ 4 / 2 ^ 4 mod 2 ^ 4).
  set (ht := x / 2 ^ 8 / 2 ^ 8 / 2 ^ 16 / 2 ^ 8 / 2 ^ 6 / 2 ^ 1 / 2 ^ 1 / 2 ^ 4 mod 2 ^ 4).
  set (hst := x / 2 ^ 8 / 2 ^ 8 / 2 ^ 16 / 2 ^ 8 / 2 ^ 6 / 2 ^ 1 / 2 ^ 1 mod 2 ^ 4).
  set (scf := x / 2 ^ 8 / 2 ^ 8 / 2 ^ 16 / 2 ^ 8 / 2 ^ 6 / 2 ^ 1 mod 2 ^ 1).
  set (off := x / 2 ^ 8 / 2 ^ 8 / 2 ^ 16 / 2 ^ 8 / 2 ^ 6 mod 2 ^ 1).
  set (tcid := x / 2 ^ 8 / 2 ^ 8 / 2 ^ 16 / 2 ^ 8 mod 2 ^ 6).
  set (fl := x / 2 ^ 8 / 2 ^ 8 / 2 ^ 16 mod 2 ^ 8).
  set (pl := x / 2 ^ 8 / 2 ^ 8 mod 2 ^ 16).
  set (mhl := x / 2 ^ 8 mod 2 ^ 8).
  set (rs := x mod 2 ^ 8).
  replace (Z.land (x / 2 ^ 60) 15) with nh by (subst nh; change 15 with (2 ^ 4 - 1); rewrite land_mask by lia; pow2; lia).
  replace (Z.land (x / 2 ^ 52) 15) with ht by (subst ht; change 15 with (2 ^ 4 - 1); rewrite land_mask by lia; pow2; lia).
  replace (Z.land (x / 2 ^ 48) 15) with hst by (subst hst; change 15 with (2 ^ 4 - 1); rewrite land_mask by lia; pow2; lia).
  replace (Z.land (x / 2 ^ 16) 65535) with pl by (subst pl; change 65535 with (2 ^ 16 - 1); rewrite land_mask by lia; pow2; lia).
  replace (Z.land (x / 2 ^ 8) 255) with mhl by (subst mhl; change 255 with (2 ^ 8 - 1); rewrite land_mask by lia; pow2; lia).
  replace (Z.land x 255) with rs by (subst rs; change 255 with (2 ^ 8 - 1); rewrite land_mask by lia; pow2; lia).
  replace (Z.land (x / 2 ^ 32) 128) with (Z.land fl 128).
  2:{ subst fl. apply Z.bits_inj'. intros n Hn. rewrite !Z.land_spec.
      destruct (Z.eq_dec n 7) as [->|Hn7].
      - rewrite andb_true_r. change (Z.testbit 128 7) with true. rewrite andb_true_r.
        rewrite Z.mod_pow2_bits_low by lia. f_equal. pow2. lia.
      - assert (Z.testbit 128 n = false) as ->; [|rewrite !andb_false_r; reflexivity].
        change 128 with (2 ^ 7). apply Z.pow2_bits_false. lia. }
  set (tcb := Z.land (x / 2 ^ 40) 255).
  assert (Etc : tcb = scf * 128 + off * 64 + tcid).
  { subst tcb scf off tcid. change 255 with (2 ^ 8 - 1). rewrite land_mask by lia. pow2. lia. }
  assert (Hscf : 0 <= scf < 2) by (subst scf; apply Z.mod_pos_bound; lia).
  assert (Hoff : 0 <= off < 2) by (subst off; apply Z.mod_pos_bound; lia).
  assert (Htc : 0 <= tcid < 64) by (subst tcid; apply Z.mod_pos_bound; lia).
  assert (E7 : Z.land (tcb / 2 ^ 7) 1 = scf) by (replace 1 with (2 ^ 1 - 1) by reflexivity; rewrite (land_mask 1 (tcb / 2 ^ 7)) by lia; pow2; lia).
  assert (E6 : Z.land (tcb / 2 ^ 6) 1 = off) by (replace 1 with (2 ^ 1 - 1) by reflexivity; rewrite (land_mask 1 (tcb / 2 ^ 6)) by lia; pow2; lia).
  assert (E0 : Z.land tcb 63 = tcid) by (change 63 with (2 ^ 6 - 1); rewrite (land_mask 6 tcb) by lia; pow2; lia).
  rewrite E7, E6, E0.
  assert (Hnh : 0 <= nh < 16) by (subst nh; apply Z.mod_pos_bound; lia).
  assert (Hht : 0 <= ht < 16) by (subst ht; apply Z.mod_pos_bound; lia).
  assert (Hhst : 0 <= hst < 16) by (subst hst; apply Z.mod_pos_bound; lia).
  clearbody nh ht hst scf off tcid fl pl mhl rs tcb.
  unfold enum_mem_CommonNH, enum_mem_HeaderType, enum_mem_GeoBroadcastHST, enum_mem_TopoBroadcastHST, enum_mem_GeoAnycastHST,
    enum_mem_LocationServiceHST, enum_mem_HeaderSubType, hst_ok.
  destruct (nh <=? 3) eqn:E1; cbn [andb].
  2:{ replace ((nh =? 0) || (nh =? 1) || (nh =? 2) || (nh =? 3)) with false by lia. reflexivity. }
  replace ((nh =? 0) || (nh =? 1) || (nh =? 2) || (nh =? 3)) with true by lia.
  destruct (ht <=? 6) eqn:E2; cbn [andb].
  2:{ replace ((ht =? 0) || (ht =? 1) || (ht =? 2) || (ht =? 3) || (ht =? 4) || (ht =? 5) || (ht =? 6)) with false by lia.
      reflexivity. }
  replace ((ht =? 0) || (ht =? 1) || (ht =? 2) || (ht =? 3) || (ht =? 4) || (ht =? 5) || (ht =? 6)) with true by lia.
  destruct (ht =? 4) eqn:H4; [|destruct (ht =? 5) eqn:H5; [|destruct (ht =? 3) eqn:H3; [|destruct (ht =? 6) eqn:H6]]];
    cbn [orb];
    repeat match goal with |- context [if ?c then _ else _] => destruct c eqn:? end;
    repeat match goal with H : context [if ?c then _ else _] |- _ => destruct c eqn:? end;
    first [reflexivity | exfalso; lia].
Qed.

(* ---- GN address and Long Position Vector decoders; decode (encode fields) = fields ------------------------------------ *)
(* finite sweeps over one octet, lifted by forallb_forall *)
Lemma octet_sweep (P : Z -> bool) : forallb P (zrange 0 256) = true -> forall b, 0 <= b < 256 -> P b = true.
Proof.
  intros H b Hb. rewrite forallb_forall in H. apply H.
  assert (G : forall n lo x, lo <= x < lo + Z.of_nat n -> In x (zrange lo n)).
  { induction n as [|n IH]; intros lo x Hx; [lia|]. cbn [zrange]. destruct (Z.eq_dec x lo) as [->|Hne]; [left; reflexivity|].
    right. apply IH. lia. }
  apply G. lia.
Qed.

Lemma octet_m b : 0 <= b < 256 -> Z.shiftr (Z.land b 128) 7 = b / 128.
Proof. intros Hb. apply Z.eqb_eq. revert b Hb. apply octet_sweep. vm_compute. reflexivity. Qed.
Lemma octet_st b : 0 <= b < 256 -> Z.shiftr (Z.land b 124) 2 = (b / 4) mod 32.
Proof. intros Hb. apply Z.eqb_eq. revert b Hb. apply octet_sweep. vm_compute. reflexivity. Qed.

Lemma to_signed_src_model v bits : 0 < bits -> to_signed_src v bits = Some (to_signed bits v).
Proof.
  intros Hb. unfold to_signed_src, to_signed. rewrite !Z.shiftl_1_l.
  replace (0 <=? bits - 1) with true by lia. replace (0 <=? bits) with true by lia.
  rewrite Z.geb_leb. destruct (Z.leb_spec (2 ^ (bits - 1)) v); destruct (Z.ltb_spec v (2 ^ (bits - 1))); try lia; reflexivity.
Qed.

Lemma byte_low t w k : 0 <= k -> k + 8 <= w -> (t mod 2 ^ w) / 2 ^ k mod 2 ^ 8 = t / 2 ^ k mod 2 ^ 8.
Proof.
  intros Hk Hw. apply Z.bits_inj'. intros n Hn. destruct (Z.lt_ge_cases n 8).
  - rewrite !Z.mod_pow2_bits_low by lia. rewrite !Z.div_pow2_bits by lia. rewrite Z.mod_pow2_bits_low by lia. reflexivity.
  - rewrite !Z.mod_pow2_bits_high by lia. reflexivity.
Qed.

(* t / 2^a / 2^b ... -> t / 2^(a+b+...) with the exponent computed *)
Ltac flat_div :=
  rewrite ?Z.div_div by lia; rewrite <- ?Z.pow_add_r by lia;
  repeat match goal with
         | |- context [2 ^ (?a + ?b)] => let v := eval vm_compute in (a + b) in change (a + b) with v
         end.

Definition gnaddr_tuple (r : list Z) := (arg 0 r, arg 1 r, to_bytes 6 (arg 2 r)).

(* GNAddress.decode of the eight octets of a 64-bit word = the model's view of the unpacked layout *)
Lemma src_gnaddr_decode_word t : 0 <= t < 2 ^ 64 ->
  GNAddress_decode (to_bytes 8 t) = option_map gnaddr_tuple (view_gnaddr (unpack gnaddr_ws t)).
Proof.
  intros Ht. unfold GNAddress_decode. rewrite to_bytes_length. cbn [Z.of_nat Pos.of_succ_nat Pos.succ Z.ltb Z.compare Pos.compare Pos.compare_cont].
  change (Z.of_nat 8 <? 8) with false. cbn match. change (0 <? Z.of_nat 8) with true. cbn match.
  unfold to_bytes, unpack, gnaddr_ws, view_gnaddr, gnaddr_tuple. cbn [repeat rev app unpack_rev nth firstn skipn arg length].
  set (b0 := t / 2 ^ 8 / 2 ^ 8 / 2 ^ 8 / 2 ^ 8 / 2 ^ 8 / 2 ^ 8 / 2 ^ 8 mod 2 ^ 8).
  assert (Hb0 : 0 <= b0 < 256) by (subst b0; apply Z.mod_pos_bound; lia).
  rewrite (octet_m b0 Hb0), (octet_st b0 Hb0).
  assert (E0 : t / 2 ^ 8 / 2 ^ 8 / 2 ^ 8 / 2 ^ 8 / 2 ^ 8 / 2 ^ 8 / 2 ^ 8 = t / 2 ^ 56)
    by (rewrite !Z.div_div by lia; f_equal).
  assert (E1 : t / 2 ^ 48 / 2 ^ 10 = t / 2 ^ 56 / 4) by (rewrite !Z.div_div by lia; f_equal).
  assert (E2 : t / 2 ^ 48 / 2 ^ 10 / 2 ^ 5 = t / 2 ^ 56 / 128) by (rewrite !Z.div_div by lia; f_equal).
  assert (Hq : 0 <= t / 2 ^ 56 < 256).
  { split; [apply Z.div_pos; lia|]. apply Z.div_lt_upper_bound; [lia|]. change (2 ^ 56 * 256) with (2 ^ 64). lia. }
  assert (Em : b0 / 128 = t / 2 ^ 48 / 2 ^ 10 / 2 ^ 5 mod 2 ^ 1).
  { subst b0. rewrite E0, E2. generalize dependent (t / 2 ^ 56). intros q _ _ _ Hq. pow2. lia. }
  assert (Est : (b0 / 4) mod 32 = t / 2 ^ 48 / 2 ^ 10 mod 2 ^ 5).
  { subst b0. rewrite E0, E1. generalize dependent (t / 2 ^ 56). intros q _ _ _ Hq. pow2. lia. }
  rewrite Em, Est. clear Em Est.
  set (m := t / 2 ^ 48 / 2 ^ 10 / 2 ^ 5 mod 2 ^ 1). set (st := t / 2 ^ 48 / 2 ^ 10 mod 2 ^ 5).
  assert (Hm : 0 <= m < 2) by (subst m; apply Z.mod_pos_bound; lia).
  assert (Hst : 0 <= st < 32) by (subst st; apply Z.mod_pos_bound; lia).
  unfold enum_mem_M, enum_mem_ST.
  replace ((m =? 0) || (m =? 1)) with true by lia.
  change (Z.of_nat 6 =? 6) with true. cbn match.
  destruct (st <=? 12) eqn:E.
  - replace ((st =? 0) || (st =? 1) || (st =? 2) || (st =? 3) || (st =? 4) || (st =? 5) || (st =? 6) || (st =? 7) || (st =? 8)
             || (st =? 9) || (st =? 10) || (st =? 11) || (st =? 12)) with true by lia.
    cbn [option_map]. do 2 f_equal. clearbody b0 m st. clear.
    unfold to_bytes, unpack, arg. cbn [nth repeat rev app unpack_rev].
    repeat match goal with |- _ :: _ = _ :: _ => apply f_equal2 end; try reflexivity; flat_div;
      first [ symmetry; apply byte_low; lia
            | replace ((t mod 2 ^ 48) mod 2 ^ 8) with ((t mod 2 ^ 48) / 2 ^ 0 mod 2 ^ 8)
                by (change (2 ^ 0) with 1; rewrite Z.div_1_r; reflexivity);
              rewrite byte_low by lia; change (2 ^ 0) with 1; rewrite Z.div_1_r; reflexivity ].
  - replace ((st =? 0) || (st =? 1) || (st =? 2) || (st =? 3) || (st =? 4) || (st =? 5) || (st =? 6) || (st =? 7) || (st =? 8)
             || (st =? 9) || (st =? 10) || (st =? 11) || (st =? 12)) with false by lia.
    reflexivity.
Qed.

Definition lpv_tuple (r : list Z) :=
  ((arg 0 r, arg 1 r, to_bytes 6 (arg 2 r)), arg 3 r, arg 4 r, arg 5 r, negb (arg 6 r =? 0), arg 7 r, arg 8 r).

Lemma wf_bytes_firstn n bs : wf_bytes bs = true -> wf_bytes (firstn n bs) = true.
Proof. unfold wf_bytes. rewrite !forallb_forall. intros H x Hx. apply H. eapply in_firstn; eassumption. Qed.

Lemma src_lpv_decode data : wf_bytes data = true -> (24 <= length data)%nat ->
  LPV_decode data = option_map lpv_tuple (dec_lpv data).
Proof.
  intros Hw Hl. unfold LPV_decode, dec_lpv, dec_fields. change (hdr_bytes lpv_ws) with 24%nat.
  replace (Z.of_nat (length data) <? 24) with false by lia.
  replace (length data <? 24)%nat with false by (symmetry; apply Nat.ltb_ge; exact Hl).
  cbn [skipn obind].
  pose proof (of_bytes_bound (firstn 24 data) (wf_bytes_firstn 24 data Hw)) as HX.
  rewrite firstn_length_le in HX by exact Hl. change (8 * Z.of_nat 24) with 192 in HX.
  set (X := of_bytes (firstn 24 data)) in *. clearbody X. clear data Hw Hl.
  rewrite !Z.shiftr_div_pow2 by lia.
  assert (Ht1 : 0 <= X / 2 ^ 128 < 2 ^ 64).
  { split; [apply Z.div_pos; lia|]. apply Z.div_lt_upper_bound; [lia|]. change (2 ^ 128 * 2 ^ 64) with (2 ^ 192). lia. }
  replace ((0 <=? X / 2 ^ 128) && (X / 2 ^ 128 <? 2 ^ 64)) with true by lia.
  rewrite (src_gnaddr_decode_word _ Ht1).
  assert (Eg : unpack gnaddr_ws (X / 2 ^ 128) = firstn 4 (unpack lpv_ws X)).
  { unfold unpack, lpv_ws, gnaddr_ws. cbn [rev app unpack_rev firstn].
    repeat match goal with |- _ :: _ = _ :: _ => apply f_equal2 end; try reflexivity; flat_div; reflexivity. }
  unfold view_lpv. rewrite <- Eg. destruct (view_gnaddr (unpack gnaddr_ws (X / 2 ^ 128))) as [a|] eqn:Ea; [|reflexivity].
  cbn [option_map].
  unfold view_gnaddr in Ea. destruct (arg 1 (unpack gnaddr_ws (X / 2 ^ 128)) <=? 12); [|discriminate].
  injection Ea as <-.
  rewrite ?src_tst_decode. rewrite !to_signed_src_model by lia.
  unfold lpv_tuple, gnaddr_tuple. cbn [app arg nth].
  unfold unpack, lpv_ws, gnaddr_ws. cbn [rev app unpack_rev arg nth].
  change 4294967295 with (2 ^ 32 - 1). change 32767 with (2 ^ 15 - 1). change 65535 with (2 ^ 16 - 1).
  rewrite !land_mask by lia.
  replace (Z.land (X / 2 ^ 31) 1) with ((X / 2 ^ 31) mod 2 ^ 1) by (symmetry; apply (land_mask 1); lia).
  change 4294967296 with (2 ^ 32).
  f_equal. repeat match goal with |- (_, _) = (_, _) => apply f_equal2 end; try reflexivity; flat_div; reflexivity.
Qed.

(* decode (encode fields) = fields, on the functions regenerated from the source *)
Lemma src_lpv_roundtrip m st mid tst lat lon pai s h :
  0 <= m < 2 -> 0 <= st <= 12 -> wf_bytes mid = true -> length mid = 6%nat -> 0 <= tst < 2 ^ 32 ->
  - 2 ^ 31 <= lat < 2 ^ 31 -> - 2 ^ 31 <= lon < 2 ^ 31 -> 0 <= pai < 2 -> - 2 ^ 14 <= s < 2 ^ 14 -> 0 <= h < 65536 ->
  exists octets, LPV_encode m st mid tst lat lon pai s h = Some octets /\ length octets = 24%nat /\
    LPV_decode octets = Some ((m, st, mid), tst, lat, lon, negb (pai =? 0), s, h).
Proof.
  intros Hm Hst Hw Hl Ht Hlat Hlon Hp Hs Hh.
  pose proof (of_bytes_bound mid Hw) as Hb. rewrite Hl in Hb. change (8 * Z.of_nat 6) with 48 in Hb.
  set (v := [m; st; of_bytes mid; tst; lat; lon; pai; s; h]).
  assert (Hwf : wf_lpv v = true).
  { unfold wf_lpv, wf_gnaddr, in_s, v. cbn [length firstn arg nth Nat.eqb]. rewrite !andb_true_iff, !fits_spec. pow2. lia. }
  exists (enc_lpv v). split; [apply src_lpv_encode; (assumption || lia)|]. split; [apply enc_lpv_length|].
  assert (Hwb : wf_bytes (enc_lpv v) = true).
  { unfold enc_lpv, enc_fields. apply to_bytes_wf.
    pose proof (pack_bound lpv_ws _ widths_nonneg_lpv (raw_lpv_fits m st (of_bytes mid) tst lat lon pai s h ltac:(lia) ltac:(lia) Hb Hp Hh)) as Hpb.
    change (total_width lpv_ws) with 192 in Hpb. change (8 * Z.of_nat (hdr_bytes lpv_ws)) with 192. exact Hpb. }
  rewrite src_lpv_decode by (rewrite ?enc_lpv_length; auto).
  rewrite <- (app_nil_r (enc_lpv v)). rewrite dec_enc_lpv by exact Hwf.
  cbn [option_map]. unfold lpv_tuple, v. cbn [arg nth].
  rewrite <- Hl at 1. rewrite to_of_bytes by exact Hw. reflexivity.
Qed.

(* ---- Short Position Vector and extended-header decoders ---------------------------------------------------------- *)
Definition spv_tuple (r : list Z) := ((arg 0 r, arg 1 r, to_bytes 6 (arg 2 r)), arg 3 r, arg 4 r, arg 5 r).

(* ShortPositionVector.decode reads the whole byte string it is given (no length check): stated for exactly 20 octets,
   which is what the GUC / LS-reply decoders pass *)
Lemma src_spv_decode data : wf_bytes data = true -> length data = 20%nat ->
  SPV_decode data = option_map spv_tuple (dec_spv data).
Proof.
  intros Hw Hl. unfold SPV_decode, dec_spv, dec_fields. change (hdr_bytes spv_ws) with 20%nat.
  replace (firstn 20 data) with data by (rewrite <- Hl, firstn_all; reflexivity).
  rewrite Hl. change (20 <? 20)%nat with false. cbn [obind].
  pose proof (of_bytes_bound data Hw) as HX. rewrite Hl in HX. change (8 * Z.of_nat 20) with 160 in HX.
  set (X := of_bytes data) in *. clearbody X. clear data Hw Hl.
  rewrite !Z.shiftr_div_pow2 by lia.
  assert (Ht1 : 0 <= X / 2 ^ 96 < 2 ^ 64).
  { split; [apply Z.div_pos; lia|]. apply Z.div_lt_upper_bound; [lia|]. change (2 ^ 96 * 2 ^ 64) with (2 ^ 160). lia. }
  replace ((0 <=? X / 2 ^ 96) && (X / 2 ^ 96 <? 2 ^ 64)) with true by lia.
  rewrite (src_gnaddr_decode_word _ Ht1).
  assert (Eg : unpack gnaddr_ws (X / 2 ^ 96) = firstn 4 (unpack spv_ws X)).
  { unfold unpack, spv_ws, gnaddr_ws. cbn [rev app unpack_rev firstn].
    repeat match goal with |- _ :: _ = _ :: _ => apply f_equal2 end; try reflexivity; flat_div; reflexivity. }
  unfold view_spv. rewrite <- Eg. destruct (view_gnaddr (unpack gnaddr_ws (X / 2 ^ 96))) as [a|] eqn:Ea; [|reflexivity].
  cbn [option_map].
  unfold view_gnaddr in Ea. destruct (arg 1 (unpack gnaddr_ws (X / 2 ^ 96)) <=? 12); [|discriminate].
  injection Ea as <-.
  rewrite ?src_tst_decode. rewrite !to_signed_src_model by lia.
  unfold spv_tuple, gnaddr_tuple. cbn [app arg nth].
  unfold unpack, spv_ws, gnaddr_ws. cbn [rev app unpack_rev arg nth].
  change 4294967295 with (2 ^ 32 - 1). rewrite !land_mask by lia. change 4294967296 with (2 ^ 32).
  f_equal. repeat match goal with |- (_, _) = (_, _) => apply f_equal2 end; try reflexivity; flat_div; reflexivity.
Qed.

Lemma src_spv_roundtrip m st mid tst lat lon :
  0 <= m < 2 -> 0 <= st <= 12 -> wf_bytes mid = true -> length mid = 6%nat -> 0 <= tst < 2 ^ 32 ->
  - 2 ^ 31 <= lat < 2 ^ 31 -> - 2 ^ 31 <= lon < 2 ^ 31 ->
  exists octets, SPV_encode m st mid tst lat lon = Some octets /\ length octets = 20%nat /\
    SPV_decode octets = Some ((m, st, mid), tst, lat, lon).
Proof.
  intros Hm Hst Hw Hl Ht Hlat Hlon.
  pose proof (of_bytes_bound mid Hw) as Hb. rewrite Hl in Hb. change (8 * Z.of_nat 6) with 48 in Hb.
  set (v := [m; st; of_bytes mid; tst; lat; lon]).
  assert (Hwf : wf_spv v = true).
  { unfold wf_spv, wf_gnaddr, in_s, v. cbn [length firstn arg nth Nat.eqb]. rewrite !andb_true_iff, !fits_spec. pow2. lia. }
  assert (Hlen : length (enc_spv v) = 20%nat) by (unfold enc_spv; rewrite enc_fields_length; reflexivity).
  exists (enc_spv v). split; [apply src_spv_encode; (assumption || lia)|]. split; [exact Hlen|].
  assert (Hwb : wf_bytes (enc_spv v) = true).
  { unfold enc_spv, enc_fields. apply to_bytes_wf.
    pose proof (pack_bound spv_ws _ widths_nonneg_spv (raw_spv_fits m st (of_bytes mid) tst lat lon ltac:(lia) ltac:(lia) Hb)) as Hpb.
    change (total_width spv_ws) with 160 in Hpb. change (8 * Z.of_nat (hdr_bytes spv_ws)) with 160. exact Hpb. }
  rewrite src_spv_decode by auto.
  rewrite <- (app_nil_r (enc_spv v)). rewrite dec_enc_spv by exact Hwf.
  cbn [option_map]. unfold spv_tuple, v. cbn [arg nth].
  rewrite <- Hl at 1. rewrite to_of_bytes by exact Hw. reflexivity.
Qed.

(* ---- extended header decoders ---------------------------------------------------------------------------------------- *)
Lemma wf_bytes_skipn n bs : wf_bytes bs = true -> wf_bytes (skipn n bs) = true.
Proof.
  unfold wf_bytes. rewrite !forallb_forall. intros H x Hx. apply H.
  rewrite <- (firstn_skipn n bs). apply in_or_app. right. exact Hx.
Qed.

Lemma dec_lpv_firstn l : (24 <= length l)%nat -> dec_lpv (firstn 24 l) = dec_lpv l.
Proof.
  intros Hl. unfold dec_lpv, dec_fields. change (hdr_bytes lpv_ws) with 24%nat.
  rewrite firstn_length_le by exact Hl. rewrite firstn_firstn. change (Nat.min 24 24) with 24%nat.
  replace (length l <? 24)%nat with false by (symmetry; apply Nat.ltb_ge; exact Hl). reflexivity.
Qed.

(* sequence number and reserved field of every extended header *)
Lemma sn_fields bs : wf_bytes bs = true -> (4 <= length bs)%nat ->
  dec_fields sn_ws bs = Some [of_bytes (firstn 2 (skipn 0 bs)); of_bytes (firstn 2 (skipn 2 bs))].
Proof.
  intros Hw Hl. destruct bs as [|b0 [|b1 [|b2 [|b3 rest]]]]; cbn [length] in Hl; try lia.
  unfold dec_fields, sn_ws. change (hdr_bytes [16; 16]) with 4%nat.
  replace (length (b0 :: b1 :: b2 :: b3 :: rest) <? 4)%nat with false by (symmetry; apply Nat.ltb_ge; cbn [length]; lia).
  cbn [firstn skipn]. unfold unpack, of_bytes, pack. cbn [rev app unpack_rev map fold_left]. unfold pack_step. cbn [fst snd].
  unfold wf_bytes in Hw. cbn [forallb] in Hw. unfold is_byte in Hw.
  f_equal. repeat match goal with |- _ :: _ = _ :: _ => apply f_equal2 end; try reflexivity; pow2; lia.
Qed.

Definition tsb_tuple (r : list Z) := (arg 0 r, arg 1 r, lpv_tuple (skipn 2 r)).

Lemma src_tsb_decode header : wf_bytes header = true ->
  TSB_decode header = option_map tsb_tuple (dec_tsb header).
Proof.
  intros Hw. unfold TSB_decode, dec_tsb.
  destruct (Nat.ltb_spec (length header) 28) as [Hlt | Hge].
  - replace (Z.of_nat (length header) <? 28) with true by lia. reflexivity.
  - replace (Z.of_nat (length header) <? 28) with false by lia.
    rewrite sn_fields by (auto; lia). cbn [obind].
    assert (Hl4 : (24 <= length (skipn 4 header))%nat) by (rewrite skipn_length; lia).
    rewrite src_lpv_decode by (try apply wf_bytes_firstn; try apply wf_bytes_skipn; auto; rewrite firstn_length_le; lia).
    rewrite dec_lpv_firstn by exact Hl4.
    destruct (dec_lpv (skipn 4 header)) as [p|]; reflexivity.
Qed.

Lemma dec_lpv_length l p : dec_lpv l = Some p -> length p = 9%nat.
Proof.
  unfold dec_lpv, dec_fields. destruct (length l <? hdr_bytes lpv_ws)%nat; [discriminate|]. cbn [obind].
  unfold view_lpv, view_gnaddr. destruct (arg 1 _ <=? 12); [|discriminate]. intros H. injection H as <-. reflexivity.
Qed.

Definition guc_tuple (r : list Z) := (arg 0 r, arg 1 r, lpv_tuple (firstn 9 (skipn 2 r)), spv_tuple (skipn 11 r)).

Lemma src_guc_decode header : wf_bytes header = true ->
  GUC_decode header = option_map guc_tuple (dec_guc header) /\ LSRep_decode header = GUC_decode header.
Proof.
  intros Hw. split; [|reflexivity]. unfold GUC_decode, dec_guc.
  destruct (Nat.ltb_spec (length header) 48) as [Hlt | Hge].
  - replace (Z.of_nat (length header) <? 48) with true by lia. reflexivity.
  - replace (Z.of_nat (length header) <? 48) with false by lia.
    rewrite sn_fields by (auto; lia). cbn [obind].
    assert (Hl4 : (24 <= length (skipn 4 header))%nat) by (rewrite skipn_length; lia).
    rewrite src_lpv_decode by (try apply wf_bytes_firstn; try apply wf_bytes_skipn; auto; rewrite firstn_length_le; lia).
    rewrite dec_lpv_firstn by exact Hl4.
    destruct (dec_lpv (skipn 4 header)) as [p|] eqn:Ep; [|reflexivity]. cbn [option_map obind].
    assert (Hw28 : wf_bytes (firstn 20 (skipn 28 header)) = true) by (apply wf_bytes_firstn, wf_bytes_skipn; exact Hw).
    assert (Hl28 : length (firstn 20 (skipn 28 header)) = 20%nat) by (rewrite firstn_length_le; [reflexivity | rewrite skipn_length; lia]).
    rewrite (src_spv_decode _ Hw28 Hl28).
    destruct (dec_spv (firstn 20 (skipn 28 header))) as [d|]; [|reflexivity]. cbn [option_map obind].
    pose proof (dec_lpv_length _ _ Ep) as Lp.
    unfold guc_tuple. cbn [app skipn arg nth].
    destruct p as [|p0 [|p1 [|p2 [|p3 [|p4 [|p5 [|p6 [|p7 [|p8 [|p9 pr]]]]]]]]]]; cbn [length] in Lp; try lia.
    reflexivity.
Qed.

Lemma src_gnaddr_decode bs : wf_bytes bs = true -> length bs = 8%nat ->
  GNAddress_decode bs = option_map gnaddr_tuple (dec_gnaddr bs).
Proof.
  intros Hw Hl. pose proof (of_bytes_bound bs Hw) as Hb. rewrite Hl in Hb. change (8 * Z.of_nat 8) with 64 in Hb.
  rewrite <- (to_of_bytes bs Hw) at 1. rewrite Hl. rewrite (src_gnaddr_decode_word _ Hb).
  unfold dec_gnaddr, dec_fields. change (hdr_bytes gnaddr_ws) with 8%nat. rewrite Hl. change (8 <? 8)%nat with false.
  replace (firstn 8 bs) with bs by (rewrite <- Hl, firstn_all; reflexivity). reflexivity.
Qed.

Lemma dec_gnaddr_firstn l : (8 <= length l)%nat -> dec_gnaddr (firstn 8 l) = dec_gnaddr l.
Proof.
  intros Hl. unfold dec_gnaddr, dec_fields. change (hdr_bytes gnaddr_ws) with 8%nat.
  rewrite firstn_length_le by exact Hl. rewrite firstn_firstn. change (Nat.min 8 8) with 8%nat.
  replace (length l <? 8)%nat with false by (symmetry; apply Nat.ltb_ge; exact Hl). reflexivity.
Qed.

Definition lsreq_tuple (r : list Z) := (arg 0 r, arg 1 r, lpv_tuple (firstn 9 (skipn 2 r)), gnaddr_tuple (skipn 11 r)).

Lemma src_lsreq_decode header : wf_bytes header = true ->
  LSReq_decode header = option_map lsreq_tuple (dec_lsreq header).
Proof.
  intros Hw. unfold LSReq_decode, dec_lsreq.
  destruct (Nat.ltb_spec (length header) 36) as [Hlt | Hge].
  - replace (Z.of_nat (length header) <? 36) with true by lia. reflexivity.
  - replace (Z.of_nat (length header) <? 36) with false by lia.
    rewrite sn_fields by (auto; lia). cbn [obind].
    assert (Hl4 : (24 <= length (skipn 4 header))%nat) by (rewrite skipn_length; lia).
    rewrite src_lpv_decode by (try apply wf_bytes_firstn; try apply wf_bytes_skipn; auto; rewrite firstn_length_le; lia).
    rewrite dec_lpv_firstn by exact Hl4.
    destruct (dec_lpv (skipn 4 header)) as [p|] eqn:Ep; [|reflexivity]. cbn [option_map obind].
    assert (Hw28 : wf_bytes (firstn 8 (skipn 28 header)) = true) by (apply wf_bytes_firstn, wf_bytes_skipn; exact Hw).
    assert (Hl28 : length (firstn 8 (skipn 28 header)) = 8%nat) by (rewrite firstn_length_le; [reflexivity | rewrite skipn_length; lia]).
    rewrite (src_gnaddr_decode _ Hw28 Hl28). rewrite dec_gnaddr_firstn by (rewrite skipn_length; lia).
    destruct (dec_gnaddr (skipn 28 header)) as [d|]; [|reflexivity]. cbn [option_map obind].
    pose proof (dec_lpv_length _ _ Ep) as Lp.
    unfold lsreq_tuple. cbn [app skipn arg nth].
    destruct p as [|p0 [|p1 [|p2 [|p3 [|p4 [|p5 [|p6 [|p7 [|p8 [|p9 pr]]]]]]]]]]; cbn [length] in Lp; try lia.
    reflexivity.
Qed.

(* ---- GBC / GAC extended header decoder, BTP decoders -------------------------------------------------------------------- *)
Lemma fold_pack_bytes b acc :
  fold_left pack_step (map (fun x : Z => (8, x)) b) acc = acc * 2 ^ (8 * Z.of_nat (length b)) + of_bytes b.
Proof.
  revert acc. induction b as [|x b IH]; intros acc.
  - cbn [map fold_left length]. change (8 * Z.of_nat 0) with 0. unfold of_bytes, pack. cbn [map fold_left]. lia.
  - unfold of_bytes, pack in *. cbn [map fold_left length].
    rewrite (IH (pack_step acc (8, x))), (IH (pack_step 0 (8, x))).
    unfold pack_step. cbn [fst snd]. replace (8 * Z.of_nat (S (length b))) with (8 + 8 * Z.of_nat (length b)) by lia.
    rewrite Z.pow_add_r by lia. ring.
Qed.

Lemma of_bytes_app a b : of_bytes (a ++ b) = of_bytes a * 2 ^ (8 * Z.of_nat (length b)) + of_bytes b.
Proof. unfold of_bytes at 1, pack. rewrite map_app, fold_left_app. apply fold_pack_bytes. Qed.

Lemma firstn_add {A} (a b : nat) (l : list A) : firstn (a + b) l = firstn a l ++ firstn b (skipn a l).
Proof.
  revert l. induction a as [|a IH]; intros l; [reflexivity|]. destruct l as [|x l]; [cbn; rewrite firstn_nil; reflexivity|].
  cbn [plus firstn skipn app]. rewrite IH. reflexivity.
Qed.

Lemma skipn_add {A} (a b : nat) (l : list A) : skipn (a + b) l = skipn b (skipn a l).
Proof.
  revert l. induction a as [|a IH]; intros l; [reflexivity|]. destruct l as [|x l]; [cbn; rewrite skipn_nil; reflexivity|].
  cbn [plus skipn]. apply IH.
Qed.

Definition gbc_tuple (r : list Z) :=
  (arg 0 r, arg 1 r, lpv_tuple (firstn 9 (skipn 2 r)), arg 11 r, arg 12 r, arg 13 r, arg 14 r, arg 15 r, arg 16 r).

Lemma chunk_bound l n : wf_bytes l = true -> (n <= length l)%nat -> 0 <= of_bytes (firstn n l) < 2 ^ (8 * Z.of_nat n).
Proof.
  intros Hw Hl. pose proof (of_bytes_bound (firstn n l) (wf_bytes_firstn n l Hw)) as H.
  rewrite firstn_length_le in H by exact Hl. exact H.
Qed.

(* the six area fields of a GBC / GAC extended header *)
Lemma area_fields l : wf_bytes l = true -> (16 <= length l)%nat ->
  view_area (unpack area_ws (of_bytes (firstn 16 l)))
  = [to_signed 32 (of_bytes (firstn 4 l)); to_signed 32 (of_bytes (firstn 4 (skipn 4 l))); of_bytes (firstn 2 (skipn 8 l));
     of_bytes (firstn 2 (skipn 10 l)); of_bytes (firstn 2 (skipn 12 l)); of_bytes (firstn 2 (skipn 14 l))].
Proof.
  intros Hw Hl.
  change 16%nat with (4 + (4 + (2 + (2 + (2 + 2)))))%nat at 1.
  rewrite !firstn_add, !of_bytes_app. rewrite <- !skipn_add. cbn [plus].
  pose proof (chunk_bound l 4 Hw ltac:(lia)) as B0.
  pose proof (chunk_bound (skipn 4 l) 4 (wf_bytes_skipn 4 l Hw) ltac:(rewrite skipn_length; lia)) as B1.
  pose proof (chunk_bound (skipn 8 l) 2 (wf_bytes_skipn 8 l Hw) ltac:(rewrite skipn_length; lia)) as B2.
  pose proof (chunk_bound (skipn 10 l) 2 (wf_bytes_skipn 10 l Hw) ltac:(rewrite skipn_length; lia)) as B3.
  pose proof (chunk_bound (skipn 12 l) 2 (wf_bytes_skipn 12 l Hw) ltac:(rewrite skipn_length; lia)) as B4.
  pose proof (chunk_bound (skipn 14 l) 2 (wf_bytes_skipn 14 l Hw) ltac:(rewrite skipn_length; lia)) as B5.
  rewrite !app_length, !firstn_length_le by (rewrite ?skipn_length; lia).
  generalize dependent (of_bytes (firstn 4 l)). generalize dependent (of_bytes (firstn 4 (skipn 4 l))).
  generalize dependent (of_bytes (firstn 2 (skipn 8 l))). generalize dependent (of_bytes (firstn 2 (skipn 10 l))).
  generalize dependent (of_bytes (firstn 2 (skipn 12 l))). generalize dependent (of_bytes (firstn 2 (skipn 14 l))).
  intros f B5 e B4 d B3 c B2 b B1 a B0.
  unfold view_area, unpack, area_ws. cbn [rev app unpack_rev arg nth plus].
  repeat match goal with |- _ :: _ = _ :: _ => apply f_equal2 end; try reflexivity; try (f_equal); p8; pow2; lia.
Qed.

Lemma src_gbc_decode header : wf_bytes header = true ->
  GBC_decode header = option_map gbc_tuple (dec_gbc header).
Proof.
  intros Hw. unfold GBC_decode, dec_gbc.
  destruct (Nat.ltb_spec (length header) 44) as [Hlt | Hge].
  - replace (Z.of_nat (length header) <? 44) with true by lia. reflexivity.
  - replace (Z.of_nat (length header) <? 44) with false by lia.
    rewrite sn_fields by (auto; lia). cbn [obind].
    assert (Hl4 : (24 <= length (skipn 4 header))%nat) by (rewrite skipn_length; lia).
    rewrite src_lpv_decode by (try apply wf_bytes_firstn; try apply wf_bytes_skipn; auto; rewrite firstn_length_le; lia).
    rewrite dec_lpv_firstn by exact Hl4.
    destruct (dec_lpv (skipn 4 header)) as [p|] eqn:Ep; [|reflexivity]. cbn [option_map obind].
    unfold dec_fields. change (hdr_bytes area_ws) with 16%nat.
    replace (length (skipn 28 header) <? 16)%nat with false by (symmetry; apply Nat.ltb_ge; rewrite skipn_length; lia).
    cbn [obind option_map].
    rewrite (area_fields (skipn 28 header)) by (try apply wf_bytes_skipn; auto; rewrite skipn_length; lia).
    rewrite <- !skipn_add. cbn [plus].
    rewrite !firstn_length_le by (rewrite skipn_length; lia). change (8 * Z.of_nat 4) with 32.
    pose proof (dec_lpv_length _ _ Ep) as Lp.
    unfold gbc_tuple. cbn [app skipn arg nth].
    destruct p as [|p0 [|p1 [|p2 [|p3 [|p4 [|p5 [|p6 [|p7 [|p8 [|p9 pr]]]]]]]]]]; cbn [length] in Lp; try lia.
    reflexivity.
Qed.

Lemma src_btp_decode bs : wf_bytes bs = true -> (4 <= length bs)%nat ->
  dec_btp bs = Some [fst (BTPA_decode bs); snd (BTPA_decode bs)] /\ BTPB_decode bs = BTPA_decode bs.
Proof. intros Hw Hl. split; [|reflexivity]. exact (sn_fields bs Hw Hl). Qed.
