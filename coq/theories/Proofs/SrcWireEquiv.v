(* The header encoders / decoders regenerated from the source (Gen/SrcGeonet.v, translator tools/pyz.py) put exactly the
   layout tables of Model/Wire.v on the wire, for ALL field values within their widths. *)
From FlexVerif Require Import Base.Prelude Base.Bits Base.BitsFacts Model.Lifetime Model.Wire Gen.SrcGeonet Proofs.WireProofs Proofs.SrcLifetimeEquiv.
From Coq Require Import ZifyBool.
Ltac Zify.zify_post_hook ::= Z.to_euclidean_division_equations.

(* ---- or of disjoint bit ranges is addition -------------------------------------------------------------------------- *)
Lemma lor_disjoint m x y : 0 <= m -> x mod 2 ^ m = 0 -> 0 <= y < 2 ^ m -> Z.lor x y = x + y.
Proof.
  intros Hm Hx Hy.
  assert (Hl : Z.land x y = 0).
  { apply Z.bits_inj'. intros n Hn. rewrite Z.land_spec, Z.bits_0.
    destruct (Z.lt_ge_cases n m) as [Hlt | Hge].
    - assert (Z.testbit x n = false) as ->; [|reflexivity].
      rewrite <- (Z.mod_pow2_bits_low x m n) by exact Hlt. rewrite Hx. apply Z.bits_0.
    - assert (Z.testbit y n = false) as ->; [|apply andb_false_r].
      destruct (Z.eq_dec y 0) as [->|Hy0]; [apply Z.bits_0|].
      apply Z.bits_above_log2; [apply Hy|]. apply Z.log2_lt_pow2; [destruct Hy; apply Z.le_neq; split; [assumption|congruence]|]. eapply Z.lt_le_trans; [apply Hy|]. apply Z.pow_le_mono_r; [reflexivity|exact Hge]. }
  rewrite <- Z.lxor_lor by exact Hl. symmetry. apply Z.add_nocarry_lxor. exact Hl.
Qed.

Lemma land_mask w a : 0 <= w -> Z.land a (2 ^ w - 1) = a mod 2 ^ w.
Proof. intros Hw. replace (2 ^ w - 1) with (Z.ones w) by (rewrite Z.ones_equiv; unfold Z.pred; ring). apply Z.land_ones; exact Hw. Qed.

(* normalise shifts, masks and powers of two with literal exponents *)
Ltac pow2 :=
  repeat match goal with
         | |- context [2 ^ ?k] => let v := eval vm_compute in (2 ^ k) in progress change (2 ^ k) with v
         | H : context [2 ^ ?k] |- _ => let v := eval vm_compute in (2 ^ k) in progress change (2 ^ k) with v in H
         end.
Ltac shifts := rewrite ?Z.shiftl_mul_pow2, ?Z.shiftr_div_pow2 by lia.
(* Z.lor x y -> x + y where y < 2^m and x is a multiple of 2^m *)
Ltac lor_at m :=
  match goal with
  | |- context [Z.lor ?x ?y] =>
    lazymatch x with context [Z.lor] => fail | _ => idtac end;
    lazymatch y with context [Z.lor] => fail | _ => idtac end;
    first [ rewrite (lor_disjoint m x y) by lia | rewrite (Z.lor_comm x y), (lor_disjoint m y x) by lia ]
  end.

Ltac lor_auto :=
  first [ lor_at 1 | lor_at 2 | lor_at 6 | lor_at 7 | lor_at 8 | lor_at 15 | lor_at 16 | lor_at 24 | lor_at 28
        | lor_at 31 | lor_at 32 | lor_at 40 | lor_at 48 | lor_at 52 | lor_at 56 | lor_at 60 | lor_at 63 | lor_at 64
        | lor_at 96 | lor_at 128 | lor_at 160 ].

(* ---- Basic Header ----------------------------------------------------------------------------------------------- *)
Lemma src_basic_layout ver nh res m b rhl :
  all_fit basic_ws [ver; nh; res; m; b; rhl] = true ->
  BasicHeader_encode_to_int ver nh res m b rhl = pack (combine basic_ws [ver; nh; res; m; b; rhl]).
Proof.
  unfold all_fit, basic_ws. rewrite !andb_true_iff, !fits_spec. intros H.
  unfold BasicHeader_encode_to_int, LT_encode_to_int, pack. cbn [combine fold_left]. unfold pack_step. cbn [fst snd].
  shifts. pow2.
  lor_at 2. lor_at 28. lor_at 24. lor_at 16. lor_at 8. lia.
Qed.

(* ---- Traffic class, Common Header ------------------------------------------------------------------------------ *)
Lemma src_tc_layout scf off tcid : 0 <= scf < 2 -> 0 <= off < 2 -> 0 <= tcid < 64 ->
  TrafficClass_encode_to_int scf off tcid = pack [(1, scf); (1, off); (6, tcid)].
Proof.
  intros. unfold TrafficClass_encode_to_int, pack. cbn [fold_left]. unfold pack_step. cbn [fst snd].
  shifts. pow2. lor_at 7. lor_at 6. lia.
Qed.

(* view [nh; ht; hst; scf; offload; tcid; flags; pl; mhl; reserved] with reserved = 0 as wf_common demands *)
Lemma src_common_layout nh ht hst scf off tcid flags pl mhl :
  0 <= nh < 16 -> 0 <= ht < 16 -> 0 <= hst < 16 -> 0 <= scf < 2 -> 0 <= off < 2 -> 0 <= tcid < 64 ->
  0 <= flags < 256 -> 0 <= pl < 65536 -> 0 <= mhl < 256 ->
  CommonHeader_encode_to_int nh ht hst scf off tcid flags pl mhl 0
  = pack (combine common_ws (raw_common [nh; ht; hst; scf; off; tcid; flags; pl; mhl; 0])).
Proof.
  intros. unfold CommonHeader_encode_to_int, TrafficClass_encode_to_int, raw_common, common_ws, arg, pack.
  cbn [nth combine fold_left]. unfold pack_step. cbn [fst snd].
  change (0 / 16) with 0. change (0 mod 16) with 0. rewrite !Z.lor_0_r.
  shifts. pow2.
  repeat lor_auto. lia.
Qed.

(* ---- GN address, position vectors ------------------------------------------------------------------------------- *)
Lemma of_bytes_cons0 l : of_bytes (0 :: l) = of_bytes l.
Proof. reflexivity. Qed.

Lemma src_gnaddr_layout m st mid : 0 <= m < 2 -> 0 <= st < 32 -> wf_bytes mid = true -> length mid = 6%nat ->
  GNAddress_encode_to_int m st mid = pack (combine gnaddr_ws (raw_gnaddr [m; st; of_bytes mid])).
Proof.
  intros Hm Hst Hw Hl. pose proof (of_bytes_bound mid Hw) as Hb. rewrite Hl in Hb. change (8 * Z.of_nat 6) with 48 in Hb.
  unfold GNAddress_encode_to_int, M_encode_to_address, ST_encode_to_address, MID_encode_to_address.
  cbn [app]. rewrite !of_bytes_cons0. generalize dependent (of_bytes mid). intros x Hb.
  unfold raw_gnaddr, gnaddr_ws, arg, pack. cbn [nth combine fold_left]. unfold pack_step. cbn [fst snd].
  shifts. pow2. repeat lor_auto. lia.
Qed.

Lemma gnaddr_range m st x : 0 <= m < 2 -> 0 <= st < 32 -> 0 <= x < 2 ^ 48 ->
  0 <= pack (combine gnaddr_ws (raw_gnaddr [m; st; x])) < 2 ^ 64.
Proof.
  intros. unfold raw_gnaddr, gnaddr_ws, arg, pack. cbn [nth combine fold_left]. unfold pack_step. cbn [fst snd]. pow2. lia.
Qed.

(* view [m; st; mid; tst; lat; lon; pai; s; h] as in Model/Wire.v, the MID as the integer of its six octets *)
Lemma src_lpv_layout m st mid tst lat lon pai s h :
  0 <= m < 2 -> 0 <= st < 32 -> wf_bytes mid = true -> length mid = 6%nat ->
  0 <= pai < 2 -> 0 <= h < 65536 ->
  LPV_encode_to_int m st mid tst lat lon pai s h
  = pack (combine lpv_ws (raw_lpv [m; st; of_bytes mid; tst; lat; lon; pai; s; h])).
Proof.
  intros Hm Hst Hw Hl Hp Hh. pose proof (of_bytes_bound mid Hw) as Hb. rewrite Hl in Hb. change (8 * Z.of_nat 6) with 48 in Hb.
  unfold LPV_encode_to_int, GNAddress_encode_to_int, M_encode_to_address, ST_encode_to_address,
    MID_encode_to_address. rewrite ?src_tst_encode.
  cbn [app]. rewrite !of_bytes_cons0. generalize dependent (of_bytes mid). intros x Hb.
  unfold raw_lpv, raw_gnaddr, lpv_ws, gnaddr_ws, to_unsigned, arg, pack. cbn [firstn nth app combine fold_left].
  unfold pack_step. cbn [fst snd].
  change 4294967295 with (2 ^ 32 - 1). change 32767 with (2 ^ 15 - 1). rewrite !land_mask by lia.
  change 4294967296 with (2 ^ 32).
  pose proof (Z.mod_pos_bound tst (2 ^ 32) ltac:(lia)). pose proof (Z.mod_pos_bound lat (2 ^ 32) ltac:(lia)).
  pose proof (Z.mod_pos_bound lon (2 ^ 32) ltac:(lia)). pose proof (Z.mod_pos_bound s (2 ^ 15) ltac:(lia)).
  generalize dependent (tst mod 2 ^ 32). generalize dependent (lat mod 2 ^ 32).
  generalize dependent (lon mod 2 ^ 32). generalize dependent (s mod 2 ^ 15). intros.
  shifts. pow2. repeat lor_auto. lia.
Qed.

Lemma src_spv_layout m st mid tst lat lon :
  0 <= m < 2 -> 0 <= st < 32 -> wf_bytes mid = true -> length mid = 6%nat ->
  SPV_encode_to_int m st mid tst lat lon
  = pack (combine spv_ws (raw_spv [m; st; of_bytes mid; tst; lat; lon])).
Proof.
  intros Hm Hst Hw Hl. pose proof (of_bytes_bound mid Hw) as Hb. rewrite Hl in Hb. change (8 * Z.of_nat 6) with 48 in Hb.
  unfold SPV_encode_to_int, GNAddress_encode_to_int, M_encode_to_address, ST_encode_to_address,
    MID_encode_to_address. rewrite ?src_tst_encode.
  cbn [app]. rewrite !of_bytes_cons0. generalize dependent (of_bytes mid). intros x Hb.
  unfold raw_spv, raw_gnaddr, spv_ws, gnaddr_ws, to_unsigned, arg, pack. cbn [firstn nth app combine fold_left].
  unfold pack_step. cbn [fst snd].
  change 4294967295 with (2 ^ 32 - 1). rewrite !land_mask by lia. change 4294967296 with (2 ^ 32).
  pose proof (Z.mod_pos_bound tst (2 ^ 32) ltac:(lia)). pose proof (Z.mod_pos_bound lat (2 ^ 32) ltac:(lia)).
  pose proof (Z.mod_pos_bound lon (2 ^ 32) ltac:(lia)).
  generalize dependent (tst mod 2 ^ 32). generalize dependent (lat mod 2 ^ 32).
  generalize dependent (lon mod 2 ^ 32). intros.
  shifts. pow2. repeat lor_auto. lia.
Qed.

(* ---- the octets: x.to_bytes(n, 'big') of the layout word is the model's encoder ------------------------------------ *)
Lemma raw_lpv_fits m st x tst lat lon pai s h :
  0 <= m < 2 -> 0 <= st < 32 -> 0 <= x < 2 ^ 48 -> 0 <= pai < 2 -> 0 <= h < 65536 ->
  all_fit lpv_ws (raw_lpv [m; st; x; tst; lat; lon; pai; s; h]) = true.
Proof.
  intros. unfold raw_lpv, raw_gnaddr, lpv_ws, gnaddr_ws, to_unsigned, arg. cbn [firstn nth app all_fit].
  pose proof (Z.mod_pos_bound tst (2 ^ 32) ltac:(lia)). pose proof (Z.mod_pos_bound lat (2 ^ 32) ltac:(lia)).
  pose proof (Z.mod_pos_bound lon (2 ^ 32) ltac:(lia)). pose proof (Z.mod_pos_bound s (2 ^ 15) ltac:(lia)).
  rewrite !andb_true_iff, !fits_spec. pow2. lia.
Qed.

Lemma raw_spv_fits m st x tst lat lon :
  0 <= m < 2 -> 0 <= st < 32 -> 0 <= x < 2 ^ 48 ->
  all_fit spv_ws (raw_spv [m; st; x; tst; lat; lon]) = true.
Proof.
  intros. unfold raw_spv, raw_gnaddr, spv_ws, gnaddr_ws, to_unsigned, arg. cbn [firstn nth app all_fit].
  pose proof (Z.mod_pos_bound tst (2 ^ 32) ltac:(lia)). pose proof (Z.mod_pos_bound lat (2 ^ 32) ltac:(lia)).
  pose proof (Z.mod_pos_bound lon (2 ^ 32) ltac:(lia)).
  rewrite !andb_true_iff, !fits_spec. pow2. lia.
Qed.

Lemma widths_nonneg_lpv : Forall (fun w => 0 <= w) lpv_ws.
Proof. unfold lpv_ws, gnaddr_ws. cbn [app]. repeat constructor; lia. Qed.
Lemma widths_nonneg_spv : Forall (fun w => 0 <= w) spv_ws.
Proof. unfold spv_ws, gnaddr_ws. cbn [app]. repeat constructor; lia. Qed.

(* LongPositionVector.encode never raises on in-range fields and returns the model's octets - whatever the sign of the
   coordinates and of the speed *)
Lemma src_lpv_encode m st mid tst lat lon pai s h :
  0 <= m < 2 -> 0 <= st < 32 -> wf_bytes mid = true -> length mid = 6%nat ->
  0 <= pai < 2 -> 0 <= h < 65536 ->
  LPV_encode m st mid tst lat lon pai s h = Some (enc_lpv [m; st; of_bytes mid; tst; lat; lon; pai; s; h]).
Proof.
  intros Hm Hst Hw Hl Hp Hh. pose proof (of_bytes_bound mid Hw) as Hb. rewrite Hl in Hb. change (8 * Z.of_nat 6) with 48 in Hb.
  unfold LPV_encode. fold (LPV_encode_to_int m st mid tst lat lon pai s h).
  rewrite src_lpv_layout by assumption.
  pose proof (pack_bound lpv_ws _ widths_nonneg_lpv (raw_lpv_fits m st (of_bytes mid) tst lat lon pai s h Hm Hst Hb Hp Hh)) as Hpb.
  change (total_width lpv_ws) with 192 in Hpb.
  destruct ((0 <=? _) && (_ <? 2 ^ 192)) eqn:E; [reflexivity | lia].
Qed.

Lemma src_spv_encode m st mid tst lat lon :
  0 <= m < 2 -> 0 <= st < 32 -> wf_bytes mid = true -> length mid = 6%nat ->
  SPV_encode m st mid tst lat lon = Some (enc_spv [m; st; of_bytes mid; tst; lat; lon]).
Proof.
  intros Hm Hst Hw Hl. pose proof (of_bytes_bound mid Hw) as Hb. rewrite Hl in Hb. change (8 * Z.of_nat 6) with 48 in Hb.
  unfold SPV_encode. fold (SPV_encode_to_int m st mid tst lat lon).
  rewrite src_spv_layout by assumption.
  pose proof (pack_bound spv_ws _ widths_nonneg_spv (raw_spv_fits m st (of_bytes mid) tst lat lon Hm Hst Hb)) as Hpb.
  change (total_width spv_ws) with 160 in Hpb.
  destruct ((0 <=? _) && (_ <? 2 ^ 160)) eqn:E; [reflexivity | lia].
Qed.

(* ---- BTP ----------------------------------------------------------------------------------------------------------- *)
Lemma src_btpa_encode p1 p2 : 0 <= p1 < 65536 -> 0 <= p2 < 65536 -> BTPA_encode p1 p2 = Some (enc_btp [p1; p2]).
Proof.
  intros H1 H2. unfold BTPA_encode, BTPA_encode_to_int, enc_btp, enc_fields, btp_ws, pack.
  cbn [combine fold_left]. unfold pack_step. cbn [fst snd]. shifts. pow2. repeat lor_auto.
  destruct ((0 <=? _) && (_ <? 4294967296)) eqn:E; [|lia].
  change (hdr_bytes [16; 16]) with 4%nat. repeat f_equal; try lia.
Qed.

Lemma src_btpb_encode p1 p2 : 0 <= p1 < 65536 -> 0 <= p2 < 65536 -> BTPB_encode p1 p2 = Some (enc_btp [p1; p2]).
Proof. exact (src_btpa_encode p1 p2). Qed.

(* a port outside 16 bits cannot be put on the wire: the encoder raises *)
Lemma src_btp_port_overflow p1 p2 : 0 <= p2 < 65536 -> ~ (0 <= p1 < 65536) -> BTPA_encode p1 p2 = None.
Proof.
  intros H2 H1. unfold BTPA_encode, BTPA_encode_to_int. shifts. pow2.
  destruct (Z.lt_ge_cases p1 0) as [Hn | Hp].
  - assert (Hneg : Z.lor (p1 * 65536) p2 < 0) by (apply Z.lor_neg; lia).
    destruct ((0 <=? _) && (_ <? 4294967296)) eqn:E; [lia | reflexivity].
  - rewrite (lor_disjoint 16) by lia.
    destruct ((0 <=? _) && (_ <? 4294967296)) eqn:E; [lia | reflexivity].
Qed.

(* ---- concatenation of big-endian chunks ------------------------------------------------------------------------------- *)
Lemma rev_repeat8 n : rev (repeat 8 n) = repeat 8 n.
Proof.
  induction n as [|n IH]; [reflexivity|]. cbn [repeat rev]. rewrite IH. clear IH.
  induction n as [|n IH]; [reflexivity|]. cbn [repeat app]. rewrite IH. reflexivity.
Qed.

Lemma bytes_rev_app (b a : nat) x y : 0 <= y < 2 ^ (8 * Z.of_nat b) ->
  unpack_rev (repeat 8 (b + a)) (x * 2 ^ (8 * Z.of_nat b) + y) = unpack_rev (repeat 8 b) y ++ unpack_rev (repeat 8 a) x.
Proof.
  revert y. induction b as [|b IH]; intros y Hy.
  - change (8 * Z.of_nat 0) with 0 in *. change (2 ^ 0) with 1 in *. cbn [plus repeat unpack_rev app].
    replace (x * 1 + y) with x by lia. reflexivity.
  - cbn [plus repeat unpack_rev app].
    replace (8 * Z.of_nat (S b)) with (8 * Z.of_nat b + 8) in * by lia.
    rewrite Z.pow_add_r in * by lia. change (2 ^ 8) with 256 in *.
    assert (Hp : 0 < 2 ^ (8 * Z.of_nat b)) by (apply Z.pow_pos_nonneg; lia).
    set (P := 2 ^ (8 * Z.of_nat b)) in *.
    replace (x * (P * 256) + y) with ((x * P) * 256 + y) by ring.
    f_equal.
    + rewrite Z.add_comm, Z.mod_add by lia. reflexivity.
    + rewrite Z.add_comm, Z.div_add by lia. rewrite Z.add_comm. apply IH.
      split; [apply Z.div_pos; lia|]. apply Z.div_lt_upper_bound; lia.
Qed.

Lemma to_bytes_app (a b : nat) x y : 0 <= y < 2 ^ (8 * Z.of_nat b) ->
  to_bytes a x ++ to_bytes b y = to_bytes (a + b) (x * 2 ^ (8 * Z.of_nat b) + y).
Proof.
  intros Hy. unfold to_bytes, unpack. rewrite !rev_repeat8. rewrite (Nat.add_comm a b).
  rewrite bytes_rev_app by exact Hy. rewrite rev_app_distr. reflexivity.
Qed.

Ltac p8 :=
  repeat match goal with
         | |- context [2 ^ (8 * Z.of_nat ?n)] =>
           let v := eval vm_compute in (2 ^ (8 * Z.of_nat n)) in change (2 ^ (8 * Z.of_nat n)) with v
         end.

(* ---- extended headers: sequence number, reserved, [position vectors as their octets], area ---------------------------- *)
Lemma sn_octets sn res : 0 <= sn < 65536 -> 0 <= res < 65536 ->
  to_bytes 2 sn ++ to_bytes 2 res = enc_fields sn_ws [sn; res].
Proof.
  intros H1 H2. rewrite (to_bytes_app 2 2) by (p8; lia).
  unfold enc_fields, sn_ws, pack. change (hdr_bytes [16; 16]) with 4%nat. cbn [combine fold_left]. unfold pack_step.
  cbn [fst snd plus]. f_equal; try (p8; pow2; lia).
Qed.

Ltac range_guard := match goal with |- context [if ?c then _ else _] => destruct c eqn:?; [| exfalso; lia] end.

Lemma src_tsb_encode sn res so : 0 <= sn < 65536 -> 0 <= res < 65536 ->
  TSB_encode sn res so = Some (enc_fields sn_ws [sn; res] ++ so).
Proof. intros H1 H2. unfold TSB_encode. pow2. repeat range_guard. rewrite sn_octets by assumption. reflexivity. Qed.

Lemma src_guc_encode sn res so de : 0 <= sn < 65536 -> 0 <= res < 65536 ->
  GUC_encode sn res so de = Some (enc_fields sn_ws [sn; res] ++ so ++ de) /\ LSRep_encode sn res so de = GUC_encode sn res so de.
Proof.
  intros H1 H2. split; [|reflexivity]. unfold GUC_encode. pow2. repeat range_guard.
  rewrite sn_octets by assumption. rewrite <- app_assoc. reflexivity.
Qed.

Lemma src_lsreq_encode sn res so m st x : 0 <= sn < 65536 -> 0 <= res < 65536 ->
  0 <= m < 2 -> 0 <= st < 32 -> 0 <= x < 2 ^ 48 ->
  LSReq_encode sn res so (pack (combine gnaddr_ws (raw_gnaddr [m; st; x])))
  = Some (enc_fields sn_ws [sn; res] ++ so ++ enc_gnaddr [m; st; x]).
Proof.
  intros H1 H2 Hm Hst Hx. pose proof (gnaddr_range m st x Hm Hst Hx) as Hg. unfold LSReq_encode.
  repeat range_guard. rewrite sn_octets by assumption. rewrite <- app_assoc. reflexivity.
Qed.

Lemma area_octets lat lon a b angle res2 :
  - 2 ^ 31 <= lat < 2 ^ 31 -> - 2 ^ 31 <= lon < 2 ^ 31 -> 0 <= a < 65536 -> 0 <= b < 65536 -> 0 <= angle < 65536 ->
  0 <= res2 < 65536 ->
  to_bytes 4 (to_unsigned 32 lat) ++ to_bytes 4 (to_unsigned 32 lon) ++ to_bytes 2 a ++ to_bytes 2 b ++ to_bytes 2 angle
    ++ to_bytes 2 res2 = enc_fields area_ws (raw_area [lat; lon; a; b; angle; res2]).
Proof.
  intros. unfold to_unsigned.
  pose proof (Z.mod_pos_bound lat (2 ^ 32) ltac:(lia)). pose proof (Z.mod_pos_bound lon (2 ^ 32) ltac:(lia)).
  rewrite (to_bytes_app 2 2 angle res2) by (p8; lia).
  rewrite (to_bytes_app 2 4 b) by (p8; lia).
  rewrite (to_bytes_app 2 6 a) by (p8; lia).
  rewrite (to_bytes_app 4 8) by (p8; pow2; lia).
  rewrite (to_bytes_app 4 12) by (p8; pow2; lia).
  unfold enc_fields, area_ws, raw_area, to_unsigned, arg, pack. change (hdr_bytes [32; 32; 16; 16; 16; 16]) with 16%nat.
  cbn [nth combine fold_left plus]. unfold pack_step. cbn [fst snd]. f_equal.
  p8. pow2. generalize dependent (lat mod 4294967296). generalize dependent (lon mod 4294967296). intros. lia.
Qed.

Lemma src_gbc_encode sn res so lat lon a b angle res2 : 0 <= sn < 65536 -> 0 <= res < 65536 ->
  - 2 ^ 31 <= lat < 2 ^ 31 -> - 2 ^ 31 <= lon < 2 ^ 31 -> 0 <= a < 65536 -> 0 <= b < 65536 -> 0 <= angle < 65536 ->
  0 <= res2 < 65536 ->
  GBC_encode sn res so lat lon a b angle res2
  = Some (enc_fields sn_ws [sn; res] ++ so ++ enc_fields area_ws (raw_area [lat; lon; a; b; angle; res2])).
Proof.
  intros. unfold GBC_encode. repeat range_guard.
  rewrite <- area_octets by assumption. rewrite <- sn_octets by assumption.
  rewrite <- !app_assoc. reflexivity.
Qed.

(* a coordinate outside 32-bit two's complement cannot be encoded: the encoder raises *)
Lemma src_gbc_encode_overflow sn res so lat lon a b angle res2 : ~ (- 2 ^ 31 <= lat < 2 ^ 31) ->
  GBC_encode sn res so lat lon a b angle res2 = None.
Proof.
  intros Hl. unfold GBC_encode.
  repeat match goal with |- context [if ?c then _ else _] => destruct c eqn:?; [| reflexivity] end. exfalso. lia.
Qed.

(* ---- sequence number counter ------------------------------------------------------------------------------------------- *)
Lemma src_next_sn sn : Router_get_sequence_number sn = (next_sn sn, next_sn sn).
Proof. reflexivity. Qed.

Lemma src_next_sn_fits sn : let '(r, c) := Router_get_sequence_number sn in r = c /\ 0 <= r < 65535 /\ fits 16 r = true.
Proof.
  unfold Router_get_sequence_number. pose proof (Z.mod_pos_bound (sn + 1) 65535 ltac:(lia)).
  split; [reflexivity|]. split; [lia|]. apply fits_spec. pow2. lia.
Qed.

(* ---- Common Header as built for a request / for a beacon: mobility flag, hop limit, reserved ----------------------------- *)
Lemma src_common_for_request nh ht hst tc mobile pl mhl_req :
  CommonHeader_initialize_with_request nh ht hst tc mobile pl mhl_req
  = (nh, ht, hst, tc, mobile * 128, pl, (if (ht =? 5) && (hst =? 0) then 1 else mhl_req), 0).
Proof.
  unfold CommonHeader_initialize_with_request. rewrite Z.shiftl_mul_pow2 by lia. change (2 ^ 7) with 128.
  destruct ((ht =? 5) && (hst =? 0)); reflexivity.
Qed.

(* the mobility flag of an originated packet is the most significant bit of the flags octet, the other bits are zero *)
Lemma src_mobility_flag_msb nh ht hst tc mobile pl mhl_req : mobile = 0 \/ mobile = 1 ->
  let '(_, _, _, _, flags, _, _, reserved) := CommonHeader_initialize_with_request nh ht hst tc mobile pl mhl_req in
  Z.testbit flags 7 = (mobile =? 1) /\ Z.land flags 127 = 0 /\ 0 <= flags < 256 /\ reserved = 0.
Proof. intros [-> | ->]; vm_compute; repeat split; congruence. Qed.

(* single-hop broadcast carries hop limit 1, every other transport type the requested one *)
Lemma src_common_mhl nh ht hst tc mobile pl mhl_req :
  let '(_, _, _, _, _, pl', mhl, _) := CommonHeader_initialize_with_request nh ht hst tc mobile pl mhl_req in
  pl' = pl /\ mhl = (if (ht =? 5) && (hst =? 0) then 1 else mhl_req).
Proof. rewrite src_common_for_request. split; reflexivity. Qed.

(* KF-C02-1 on the regenerated function: a beacon of a mobile station carries the flag in bit 0, bit 7 is clear *)
Lemma src_beacon_flag_refuted :
  let '(_, _, _, _, flags, _, _, _) := CommonHeader_initialize_beacon 1 in flags = 1 /\ Z.testbit flags 7 = false.
Proof. vm_compute. split; reflexivity. Qed.

Lemma src_beacon_common mobile : CommonHeader_initialize_beacon mobile = (0, 1, 0, 0, mobile, 0, 1, 0).
Proof. reflexivity. Qed.

(* ---- BTP header of a request: destination port first, then source port (BTP-A) / destination port info (BTP-B) ---------- *)
Lemma src_btp_for_request dp x : 0 <= dp < 65536 -> 0 <= x < 65536 ->
  (let '(a, b) := BTPA_initialize_with_request dp x in BTPA_encode a b) = Some (enc_btp [dp; x]) /\
  (let '(a, b) := BTPB_initialize_with_request dp x in BTPB_encode a b) = Some (enc_btp [dp; x]).
Proof. intros H1 H2. split; [exact (src_btpa_encode dp x H1 H2) | exact (src_btpb_encode dp x H1 H2)]. Qed.
