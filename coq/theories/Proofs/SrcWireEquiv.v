(* The header encoders / decoders regenerated from the source (Gen/SrcGeonet.v, translator tools/pyz.py) put exactly the
   layout tables of Model/Wire.v on the wire, for ALL field values within their widths. *)
From FlexVerif Require Import Base.Prelude Base.Bits Base.BitsFacts Model.Lifetime Model.Wire Gen.SrcGeonet Proofs.WireProofs.
From Coq Require Import ZifyBool.
Ltac Zify.zify_post_hook ::= Z.to_euclidean_division_equations.

(* ---- or of disjoint bit ranges is addition -------------------------------------------------------------------------- *)
Lemma lor_disjoint m x y : 0 <= m -> x mod 2 ^ m = 0 -> 0 <= y < 2 ^ m -> Z.lor x y = x + y.
Proof.
  intros Hm Hx Hy.
  assert (Hl : Z.land x y = 0).
  { apply Z.bits_inj'. intros n Hn. rewrite Z.land_spec, Z.bits_0.
    destruct (Z.lt_ge_cases n m) as [Hlt | Hge].
    - assert (Z.testbit x n = false) as ->; [|reflexivity].
      rewrite <- (Z.mod_pow2_bits_low x m n) by exact Hlt. rewrite Hx. apply Z.bits_0.
    - assert (Z.testbit y n = false) as ->; [|apply andb_false_r].
      destruct (Z.eq_dec y 0) as [->|Hy0]; [apply Z.bits_0|].
      apply Z.bits_above_log2; [apply Hy|]. apply Z.log2_lt_pow2; [destruct Hy; apply Z.le_neq; split; [assumption|congruence]|]. eapply Z.lt_le_trans; [apply Hy|]. apply Z.pow_le_mono_r; [reflexivity|exact Hge]. }
  rewrite <- Z.lxor_lor by exact Hl. symmetry. apply Z.add_nocarry_lxor. exact Hl.
Qed.

Lemma land_mask w a : 0 <= w -> Z.land a (2 ^ w - 1) = a mod 2 ^ w.
Proof. intros Hw. replace (2 ^ w - 1) with (Z.ones w) by (rewrite Z.ones_equiv; unfold Z.pred; ring). apply Z.land_ones; exact Hw. Qed.

(* normalise shifts, masks and powers of two with literal exponents *)
Ltac pow2 :=
  repeat match goal with
         | |- context [2 ^ ?k] => let v := eval vm_compute in (2 ^ k) in progress change (2 ^ k) with v
         | H : context [2 ^ ?k] |- _ => let v := eval vm_compute in (2 ^ k) in progress change (2 ^ k) with v in H
         end.
Ltac shifts := rewrite ?Z.shiftl_mul_pow2, ?Z.shiftr_div_pow2 by lia.
(* Z.lor x y -> x + y where y < 2^m and x is a multiple of 2^m *)
Ltac lor_at m :=
  match goal with
  | |- context [Z.lor ?x ?y] =>
    lazymatch x with context [Z.lor] => fail | _ => idtac end;
    lazymatch y with context [Z.lor] => fail | _ => idtac end;
    first [ rewrite (lor_disjoint m x y) by lia | rewrite (Z.lor_comm x y), (lor_disjoint m y x) by lia ]
  end.

Ltac lor_auto :=
  first [ lor_at 1 | lor_at 2 | lor_at 6 | lor_at 7 | lor_at 8 | lor_at 15 | lor_at 16 | lor_at 24 | lor_at 28
        | lor_at 31 | lor_at 32 | lor_at 40 | lor_at 48 | lor_at 52 | lor_at 56 | lor_at 60 | lor_at 63 | lor_at 64
        | lor_at 96 | lor_at 128 | lor_at 160 ].

(* ---- Basic Header ----------------------------------------------------------------------------------------------- *)
Lemma src_basic_layout ver nh res m b rhl :
  all_fit basic_ws [ver; nh; res; m; b; rhl] = true ->
  BasicHeader_encode_to_int ver nh res m b rhl = pack (combine basic_ws [ver; nh; res; m; b; rhl]).
Proof.
  unfold all_fit, basic_ws. rewrite !andb_true_iff, !fits_spec. intros H.
  unfold BasicHeader_encode_to_int, LT_encode_to_int, pack. cbn [combine fold_left]. unfold pack_step. cbn [fst snd].
  shifts. pow2.
  lor_at 2. lor_at 28. lor_at 24. lor_at 16. lor_at 8. lia.
Qed.

(* ---- Traffic class, Common Header ------------------------------------------------------------------------------ *)
Lemma src_tc_layout scf off tcid : 0 <= scf < 2 -> 0 <= off < 2 -> 0 <= tcid < 64 ->
  TrafficClass_encode_to_int scf off tcid = pack [(1, scf); (1, off); (6, tcid)].
Proof.
  intros. unfold TrafficClass_encode_to_int, pack. cbn [fold_left]. unfold pack_step. cbn [fst snd].
  shifts. pow2. lor_at 7. lor_at 6. lia.
Qed.

(* view [nh; ht; hst; scf; offload; tcid; flags; pl; mhl; reserved] with reserved = 0 as wf_common demands *)
Lemma src_common_layout nh ht hst scf off tcid flags pl mhl :
  0 <= nh < 16 -> 0 <= ht < 16 -> 0 <= hst < 16 -> 0 <= scf < 2 -> 0 <= off < 2 -> 0 <= tcid < 64 ->
  0 <= flags < 256 -> 0 <= pl < 65536 -> 0 <= mhl < 256 ->
  CommonHeader_encode_to_int nh ht hst scf off tcid flags pl mhl 0
  = pack (combine common_ws (raw_common [nh; ht; hst; scf; off; tcid; flags; pl; mhl; 0])).
Proof.
  intros. unfold CommonHeader_encode_to_int, TrafficClass_encode_to_int, raw_common, common_ws, arg, pack.
  cbn [nth combine fold_left]. unfold pack_step. cbn [fst snd].
  change (0 / 16) with 0. change (0 mod 16) with 0. rewrite !Z.lor_0_r.
  shifts. pow2.
  repeat lor_auto. lia.
Qed.

(* ---- GN address, position vectors ------------------------------------------------------------------------------- *)
Lemma of_bytes_cons0 l : of_bytes (0 :: l) = of_bytes l.
Proof. reflexivity. Qed.

Lemma src_gnaddr_layout m st mid : 0 <= m < 2 -> 0 <= st < 32 -> wf_bytes mid = true -> length mid = 6%nat ->
  GNAddress_encode_to_int m st mid = pack (combine gnaddr_ws (raw_gnaddr [m; st; of_bytes mid])).
Proof.
  intros Hm Hst Hw Hl. pose proof (of_bytes_bound mid Hw) as Hb. rewrite Hl in Hb. change (8 * Z.of_nat 6) with 48 in Hb.
  unfold GNAddress_encode_to_int, M_encode_to_address, ST_encode_to_address, MID_encode_to_address.
  cbn [app]. rewrite !of_bytes_cons0. generalize dependent (of_bytes mid). intros x Hb.
  unfold raw_gnaddr, gnaddr_ws, arg, pack. cbn [nth combine fold_left]. unfold pack_step. cbn [fst snd].
  shifts. pow2. repeat lor_auto. lia.
Qed.

Lemma gnaddr_range m st x : 0 <= m < 2 -> 0 <= st < 32 -> 0 <= x < 2 ^ 48 ->
  0 <= pack (combine gnaddr_ws (raw_gnaddr [m; st; x])) < 2 ^ 64.
Proof.
  intros. unfold raw_gnaddr, gnaddr_ws, arg, pack. cbn [nth combine fold_left]. unfold pack_step. cbn [fst snd]. pow2. lia.
Qed.

(* view [m; st; mid; tst; lat; lon; pai; s; h] as in Model/Wire.v, the MID as the integer of its six octets *)
Lemma src_lpv_layout m st mid tst lat lon pai s h :
  0 <= m < 2 -> 0 <= st < 32 -> wf_bytes mid = true -> length mid = 6%nat ->
  0 <= pai < 2 -> 0 <= h < 65536 ->
  LPV_encode_to_int m st mid tst lat lon pai s h
  = pack (combine lpv_ws (raw_lpv [m; st; of_bytes mid; tst; lat; lon; pai; s; h])).
Proof.
  intros Hm Hst Hw Hl Hp Hh. pose proof (of_bytes_bound mid Hw) as Hb. rewrite Hl in Hb. change (8 * Z.of_nat 6) with 48 in Hb.
  unfold LPV_encode_to_int, TST_encode, GNAddress_encode_to_int, M_encode_to_address, ST_encode_to_address,
    MID_encode_to_address.
  cbn [app]. rewrite !of_bytes_cons0. generalize dependent (of_bytes mid). intros x Hb.
  unfold raw_lpv, raw_gnaddr, lpv_ws, gnaddr_ws, to_unsigned, arg, pack. cbn [firstn nth app combine fold_left].
  unfold pack_step. cbn [fst snd].
  change 4294967295 with (2 ^ 32 - 1). change 32767 with (2 ^ 15 - 1). rewrite !land_mask by lia.
  change 4294967296 with (2 ^ 32).
  pose proof (Z.mod_pos_bound tst (2 ^ 32) ltac:(lia)). pose proof (Z.mod_pos_bound lat (2 ^ 32) ltac:(lia)).
  pose proof (Z.mod_pos_bound lon (2 ^ 32) ltac:(lia)). pose proof (Z.mod_pos_bound s (2 ^ 15) ltac:(lia)).
  generalize dependent (tst mod 2 ^ 32). generalize dependent (lat mod 2 ^ 32).
  generalize dependent (lon mod 2 ^ 32). generalize dependent (s mod 2 ^ 15). intros.
  shifts. pow2. repeat lor_auto. lia.
Qed.

Lemma src_spv_layout m st mid tst lat lon :
  0 <= m < 2 -> 0 <= st < 32 -> wf_bytes mid = true -> length mid = 6%nat ->
  SPV_encode_to_int m st mid tst lat lon
  = pack (combine spv_ws (raw_spv [m; st; of_bytes mid; tst; lat; lon])).
Proof.
  intros Hm Hst Hw Hl. pose proof (of_bytes_bound mid Hw) as Hb. rewrite Hl in Hb. change (8 * Z.of_nat 6) with 48 in Hb.
  unfold SPV_encode_to_int, TST_encode, GNAddress_encode_to_int, M_encode_to_address, ST_encode_to_address,
    MID_encode_to_address.
  cbn [app]. rewrite !of_bytes_cons0. generalize dependent (of_bytes mid). intros x Hb.
  unfold raw_spv, raw_gnaddr, spv_ws, gnaddr_ws, to_unsigned, arg, pack. cbn [firstn nth app combine fold_left].
  unfold pack_step. cbn [fst snd].
  change 4294967295 with (2 ^ 32 - 1). rewrite !land_mask by lia. change 4294967296 with (2 ^ 32).
  pose proof (Z.mod_pos_bound tst (2 ^ 32) ltac:(lia)). pose proof (Z.mod_pos_bound lat (2 ^ 32) ltac:(lia)).
  pose proof (Z.mod_pos_bound lon (2 ^ 32) ltac:(lia)).
  generalize dependent (tst mod 2 ^ 32). generalize dependent (lat mod 2 ^ 32).
  generalize dependent (lon mod 2 ^ 32). intros.
  shifts. pow2. repeat lor_auto. lia.
Qed.

(* ---- the octets: x.to_bytes(n, 'big') of the layout word is the model's encoder ------------------------------------ *)
Lemma raw_lpv_fits m st x tst lat lon pai s h :
  0 <= m < 2 -> 0 <= st < 32 -> 0 <= x < 2 ^ 48 -> 0 <= pai < 2 -> 0 <= h < 65536 ->
  all_fit lpv_ws (raw_lpv [m; st; x; tst; lat; lon; pai; s; h]) = true.
Proof.
  intros. unfold raw_lpv, raw_gnaddr, lpv_ws, gnaddr_ws, to_unsigned, arg. cbn [firstn nth app all_fit].
  pose proof (Z.mod_pos_bound tst (2 ^ 32) ltac:(lia)). pose proof (Z.mod_pos_bound lat (2 ^ 32) ltac:(lia)).
  pose proof (Z.mod_pos_bound lon (2 ^ 32) ltac:(lia)). pose proof (Z.mod_pos_bound s (2 ^ 15) ltac:(lia)).
  rewrite !andb_true_iff, !fits_spec. pow2. lia.
Qed.

Lemma raw_spv_fits m st x tst lat lon :
  0 <= m < 2 -> 0 <= st < 32 -> 0 <= x < 2 ^ 48 ->
  all_fit spv_ws (raw_spv [m; st; x; tst; lat; lon]) = true.
Proof.
  intros. unfold raw_spv, raw_gnaddr, spv_ws, gnaddr_ws, to_unsigned, arg. cbn [firstn nth app all_fit].
  pose proof (Z.mod_pos_bound tst (2 ^ 32) ltac:(lia)). pose proof (Z.mod_pos_bound lat (2 ^ 32) ltac:(lia)).
  pose proof (Z.mod_pos_bound lon (2 ^ 32) ltac:(lia)).
  rewrite !andb_true_iff, !fits_spec. pow2. lia.
Qed.

Lemma widths_nonneg_lpv : Forall (fun w => 0 <= w) lpv_ws.
Proof. unfold lpv_ws, gnaddr_ws. cbn [app]. repeat constructor; lia. Qed.
Lemma widths_nonneg_spv : Forall (fun w => 0 <= w) spv_ws.
Proof. unfold spv_ws, gnaddr_ws. cbn [app]. repeat constructor; lia. Qed.

(* LongPositionVector.encode never raises on in-range fields and returns the model's octets - whatever the sign of the
   coordinates and of the speed *)
Lemma src_lpv_encode m st mid tst lat lon pai s h :
  0 <= m < 2 -> 0 <= st < 32 -> wf_bytes mid = true -> length mid = 6%nat ->
  0 <= pai < 2 -> 0 <= h < 65536 ->
  LPV_encode m st mid tst lat lon pai s h = Some (enc_lpv [m; st; of_bytes mid; tst; lat; lon; pai; s; h]).
Proof.
  intros Hm Hst Hw Hl Hp Hh. pose proof (of_bytes_bound mid Hw) as Hb. rewrite Hl in Hb. change (8 * Z.of_nat 6) with 48 in Hb.
  unfold LPV_encode. fold (LPV_encode_to_int m st mid tst lat lon pai s h).
  rewrite src_lpv_layout by assumption.
  pose proof (pack_bound lpv_ws _ widths_nonneg_lpv (raw_lpv_fits m st (of_bytes mid) tst lat lon pai s h Hm Hst Hb Hp Hh)) as Hpb.
  change (total_width lpv_ws) with 192 in Hpb.
  destruct ((0 <=? _) && (_ <? 2 ^ 192)) eqn:E; [reflexivity | lia].
Qed.

Lemma src_spv_encode m st mid tst lat lon :
  0 <= m < 2 -> 0 <= st < 32 -> wf_bytes mid = true -> length mid = 6%nat ->
  SPV_encode m st mid tst lat lon = Some (enc_spv [m; st; of_bytes mid; tst; lat; lon]).
Proof.
  intros Hm Hst Hw Hl. pose proof (of_bytes_bound mid Hw) as Hb. rewrite Hl in Hb. change (8 * Z.of_nat 6) with 48 in Hb.
  unfold SPV_encode. fold (SPV_encode_to_int m st mid tst lat lon).
  rewrite src_spv_layout by assumption.
  pose proof (pack_bound spv_ws _ widths_nonneg_spv (raw_spv_fits m st (of_bytes mid) tst lat lon Hm Hst Hb)) as Hpb.
  change (total_width spv_ws) with 160 in Hpb.
  destruct ((0 <=? _) && (_ <? 2 ^ 160)) eqn:E; [reflexivity | lia].
Qed.

(* ---- BTP ----------------------------------------------------------------------------------------------------------- *)
Lemma src_btpa_encode p1 p2 : 0 <= p1 < 65536 -> 0 <= p2 < 65536 -> BTPA_encode p1 p2 = Some (enc_btp [p1; p2]).
Proof.
  intros H1 H2. unfold BTPA_encode, BTPA_encode_to_int, enc_btp, enc_fields, btp_ws, pack.
  cbn [combine fold_left]. unfold pack_step. cbn [fst snd]. shifts. pow2. repeat lor_auto.
  destruct ((0 <=? _) && (_ <? 4294967296)) eqn:E; [|lia].
  change (hdr_bytes [16; 16]) with 4%nat. repeat f_equal; try lia.
Qed.

Lemma src_btpb_encode p1 p2 : 0 <= p1 < 65536 -> 0 <= p2 < 65536 -> BTPB_encode p1 p2 = Some (enc_btp [p1; p2]).
Proof. exact (src_btpa_encode p1 p2). Qed.

(* a port outside 16 bits cannot be put on the wire: the encoder raises *)
Lemma src_btp_port_overflow p1 p2 : 0 <= p2 < 65536 -> ~ (0 <= p1 < 65536) -> BTPA_encode p1 p2 = None.
Proof.
  intros H2 H1. unfold BTPA_encode, BTPA_encode_to_int. shifts. pow2.
  destruct (Z.lt_ge_cases p1 0) as [Hn | Hp].
  - assert (Hneg : Z.lor (p1 * 65536) p2 < 0) by (apply Z.lor_neg; lia).
    destruct ((0 <=? _) && (_ <? 4294967296)) eqn:E; [lia | reflexivity].
  - rewrite (lor_disjoint 16) by lia.
    destruct ((0 <=? _) && (_ <? 4294967296)) eqn:E; [lia | reflexivity].
Qed.

(* ---- concatenation of big-endian chunks ------------------------------------------------------------------------------- *)
Lemma rev_repeat8 n : rev (repeat 8 n) = repeat 8 n.
Proof.
  induction n as [|n IH]; [reflexivity|]. cbn [repeat rev]. rewrite IH. clear IH.
  induction n as [|n IH]; [reflexivity|]. cbn [repeat app]. rewrite IH. reflexivity.
Qed.

Lemma bytes_rev_app (b a : nat) x y : 0 <= y < 2 ^ (8 * Z.of_nat b) ->
  unpack_rev (repeat 8 (b + a)) (x * 2 ^ (8 * Z.of_nat b) + y) = unpack_rev (repeat 8 b) y ++ unpack_rev (repeat 8 a) x.
Proof.
  revert y. induction b as [|b IH]; intros y Hy.
  - change (8 * Z.of_nat 0) with 0 in *. change (2 ^ 0) with 1 in *. cbn [plus repeat unpack_rev app].
    replace (x * 1 + y) with x by lia. reflexivity.
  - cbn [plus repeat unpack_rev app].
    replace (8 * Z.of_nat (S b)) with (8 * Z.of_nat b + 8) in * by lia.
    rewrite Z.pow_add_r in * by lia. change (2 ^ 8) with 256 in *.
    assert (Hp : 0 < 2 ^ (8 * Z.of_nat b)) by (apply Z.pow_pos_nonneg; lia).
    set (P := 2 ^ (8 * Z.of_nat b)) in *.
    replace (x * (P * 256) + y) with ((x * P) * 256 + y) by ring.
    f_equal.
    + rewrite Z.add_comm, Z.mod_add by lia. reflexivity.
    + rewrite Z.add_comm, Z.div_add by lia. rewrite Z.add_comm. apply IH.
      split; [apply Z.div_pos; lia|]. apply Z.div_lt_upper_bound; lia.
Qed.

Lemma to_bytes_app (a b : nat) x y : 0 <= y < 2 ^ (8 * Z.of_nat b) ->
  to_bytes a x ++ to_bytes b y = to_bytes (a + b) (x * 2 ^ (8 * Z.of_nat b) + y).
Proof.
  intros Hy. unfold to_bytes, unpack. rewrite !rev_repeat8. rewrite (Nat.add_comm a b).
  rewrite bytes_rev_app by exact Hy. rewrite rev_app_distr. reflexivity.
Qed.

Ltac p8 :=
  repeat match goal with
         | |- context [2 ^ (8 * Z.of_nat ?n)] =>
           let v := eval vm_compute in (2 ^ (8 * Z.of_nat n)) in change (2 ^ (8 * Z.of_nat n)) with v
         end.

(* ---- extended headers: sequence number, reserved, [position vectors as their octets], area ---------------------------- *)
Lemma sn_octets sn res : 0 <= sn < 65536 -> 0 <= res < 65536 ->
  to_bytes 2 sn ++ to_bytes 2 res = enc_fields sn_ws [sn; res].
Proof.
  intros H1 H2. rewrite (to_bytes_app 2 2) by (p8; lia).
  unfold enc_fields, sn_ws, pack. change (hdr_bytes [16; 16]) with 4%nat. cbn [combine fold_left]. unfold pack_step.
  cbn [fst snd plus]. f_equal; try (p8; pow2; lia).
Qed.

Ltac range_guard := match goal with |- context [if ?c then _ else _] => destruct c eqn:?; [| exfalso; lia] end.

Lemma src_tsb_encode sn res so : 0 <= sn < 65536 -> 0 <= res < 65536 ->
  TSB_encode sn res so = Some (enc_fields sn_ws [sn; res] ++ so).
Proof. intros H1 H2. unfold TSB_encode. pow2. repeat range_guard. rewrite sn_octets by assumption. reflexivity. Qed.

Lemma src_guc_encode sn res so de : 0 <= sn < 65536 -> 0 <= res < 65536 ->
  GUC_encode sn res so de = Some (enc_fields sn_ws [sn; res] ++ so ++ de) /\ LSRep_encode sn res so de = GUC_encode sn res so de.
Proof.
  intros H1 H2. split; [|reflexivity]. unfold GUC_encode. pow2. repeat range_guard.
  rewrite sn_octets by assumption. rewrite <- app_assoc. reflexivity.
Qed.

Lemma src_lsreq_encode sn res so m st x : 0 <= sn < 65536 -> 0 <= res < 65536 ->
  0 <= m < 2 -> 0 <= st < 32 -> 0 <= x < 2 ^ 48 ->
  LSReq_encode sn res so (pack (combine gnaddr_ws (raw_gnaddr [m; st; x])))
  = Some (enc_fields sn_ws [sn; res] ++ so ++ enc_gnaddr [m; st; x]).
Proof.
  intros H1 H2 Hm Hst Hx. pose proof (gnaddr_range m st x Hm Hst Hx) as Hg. unfold LSReq_encode.
  repeat range_guard. rewrite sn_octets by assumption. rewrite <- app_assoc. reflexivity.
Qed.

Lemma area_octets lat lon a b angle res2 :
  - 2 ^ 31 <= lat < 2 ^ 31 -> - 2 ^ 31 <= lon < 2 ^ 31 -> 0 <= a < 65536 -> 0 <= b < 65536 -> 0 <= angle < 65536 ->
  0 <= res2 < 65536 ->
  to_bytes 4 (to_unsigned 32 lat) ++ to_bytes 4 (to_unsigned 32 lon) ++ to_bytes 2 a ++ to_bytes 2 b ++ to_bytes 2 angle
    ++ to_bytes 2 res2 = enc_fields area_ws (raw_area [lat; lon; a; b; angle; res2]).
Proof.
  intros. unfold to_unsigned.
  pose proof (Z.mod_pos_bound lat (2 ^ 32) ltac:(lia)). pose proof (Z.mod_pos_bound lon (2 ^ 32) ltac:(lia)).
  rewrite (to_bytes_app 2 2 angle res2) by (p8; lia).
  rewrite (to_bytes_app 2 4 b) by (p8; lia).
  rewrite (to_bytes_app 2 6 a) by (p8; lia).
  rewrite (to_bytes_app 4 8) by (p8; pow2; lia).
  rewrite (to_bytes_app 4 12) by (p8; pow2; lia).
  unfold enc_fields, area_ws, raw_area, to_unsigned, arg, pack. change (hdr_bytes [32; 32; 16; 16; 16; 16]) with 16%nat.
  cbn [nth combine fold_left plus]. unfold pack_step. cbn [fst snd]. f_equal.
  p8. pow2. generalize dependent (lat mod 4294967296). generalize dependent (lon mod 4294967296). intros. lia.
Qed.

Lemma src_gbc_encode sn res so lat lon a b angle res2 : 0 <= sn < 65536 -> 0 <= res < 65536 ->
  - 2 ^ 31 <= lat < 2 ^ 31 -> - 2 ^ 31 <= lon < 2 ^ 31 -> 0 <= a < 65536 -> 0 <= b < 65536 -> 0 <= angle < 65536 ->
  0 <= res2 < 65536 ->
  GBC_encode sn res so lat lon a b angle res2
  = Some (enc_fields sn_ws [sn; res] ++ so ++ enc_fields area_ws (raw_area [lat; lon; a; b; angle; res2])).
Proof.
  intros. unfold GBC_encode. repeat range_guard.
  rewrite <- area_octets by assumption. rewrite <- sn_octets by assumption.
  rewrite <- !app_assoc. reflexivity.
Qed.

(* a coordinate outside 32-bit two's complement cannot be encoded: the encoder raises *)
Lemma src_gbc_encode_overflow sn res so lat lon a b angle res2 : ~ (- 2 ^ 31 <= lat < 2 ^ 31) ->
  GBC_encode sn res so lat lon a b angle res2 = None.
Proof.
  intros Hl. unfold GBC_encode.
  repeat match goal with |- context [if ?c then _ else _] => destruct c eqn:?; [| reflexivity] end. exfalso. lia.
Qed.

(* ---- decoders (integer level): the fields the source extracts are the model's unpack of the layout table --------------- *)
Ltac masks :=
  change 15 with (2 ^ 4 - 1); change 255 with (2 ^ 8 - 1); change 63 with (2 ^ 6 - 1); change 3 with (2 ^ 2 - 1);
  change 65535 with (2 ^ 16 - 1); rewrite ?land_mask by lia.

Lemma src_basic_decode x : 0 <= x < 2 ^ 32 ->
  BasicHeader_decode_from_int x
  = option_map (fun r => (arg 0 r, arg 1 r, arg 2 r, (arg 3 r, arg 4 r), arg 5 r)) (view_basic (unpack basic_ws x)).
Proof.
  intros Hx. unfold BasicHeader_decode_from_int, view_basic, unpack, basic_ws, enum_mem_BasicNH, enum_mem_LTbase.
  cbn [rev app unpack_rev arg nth].
  rewrite !Z.shiftr_div_pow2 by lia.
  replace (Z.land (x / 2 ^ 28) 15) with (x / 2 ^ 8 / 2 ^ 2 / 2 ^ 6 / 2 ^ 8 / 2 ^ 4 mod 2 ^ 4)
    by (change 15 with (2 ^ 4 - 1); rewrite land_mask by lia; pow2; lia).
  replace (Z.land (x / 2 ^ 24) 15) with (x / 2 ^ 8 / 2 ^ 2 / 2 ^ 6 / 2 ^ 8 mod 2 ^ 4)
    by (change 15 with (2 ^ 4 - 1); rewrite land_mask by lia; pow2; lia).
  replace (Z.land (x / 2 ^ 16) 255) with (x / 2 ^ 8 / 2 ^ 2 / 2 ^ 6 mod 2 ^ 8)
    by (change 255 with (2 ^ 8 - 1); rewrite land_mask by lia; pow2; lia).
  replace (Z.land (x / 2 ^ 10) 63) with (x / 2 ^ 8 / 2 ^ 2 mod 2 ^ 6)
    by (change 63 with (2 ^ 6 - 1); rewrite land_mask by lia; pow2; lia).
  replace (Z.land (x / 2 ^ 8) 3) with (x / 2 ^ 8 mod 2 ^ 2)
    by (change 3 with (2 ^ 2 - 1); rewrite land_mask by lia; pow2; lia).
  replace (Z.land x 255) with (x mod 2 ^ 8) by (change 255 with (2 ^ 8 - 1); rewrite land_mask by lia; reflexivity).
  set (nh := x / 2 ^ 8 / 2 ^ 2 / 2 ^ 6 / 2 ^ 8 mod 2 ^ 4). set (b := x / 2 ^ 8 mod 2 ^ 2).
  assert (Hnh : 0 <= nh < 16) by (subst nh; apply Z.mod_pos_bound; lia).
  assert (Hb : 0 <= b < 4) by (subst b; apply Z.mod_pos_bound; lia).
  destruct (nh <=? 2) eqn:E1.
  - replace ((nh =? 0) || (nh =? 1) || (nh =? 2)) with true by lia.
    replace ((b =? 0) || (b =? 1) || (b =? 2) || (b =? 3)) with true by lia. reflexivity.
  - replace ((nh =? 0) || (nh =? 1) || (nh =? 2)) with false by lia. reflexivity.
Qed.

Definition common_tuple (r : list Z) :=
  (arg 0 r, arg 1 r, arg 2 r, (negb (arg 3 r =? 0), negb (arg 4 r =? 0), arg 5 r), arg 6 r, arg 7 r, arg 8 r, arg 9 r).

Lemma src_common_decode x : 0 <= x < 2 ^ 64 ->
  CommonHeader_decode_from_int x = option_map common_tuple (view_common (unpack common_ws x)).
Proof.
  intros Hx. unfold CommonHeader_decode_from_int, TrafficClass_decode_from_int, view_common, unpack, common_ws, common_tuple.
  cbn [rev app unpack_rev arg nth].
  rewrite !Z.shiftr_div_pow2 by lia.
  set (nh := x / 2 ^ 8 / 2 ^ 8 / 2 ^ 16 / 2 ^ 8 / 2 ^ 6 / 2 ^ 1 / 2 ^ 1 / 2 ^ 4 / 2 ^ 4 / 2 ^ 4 mod 2 ^ 4).
  set (ht := x / 2 ^ 8 / 2 ^ 8 / 2 ^ 16 / 2 ^ 8 / 2 ^ 6 / 2 ^ 1 / 2 ^ 1 / 2 ^ 4 mod 2 ^ 4).
  set (hst := x / 2 ^ 8 / 2 ^ 8 / 2 ^ 16 / 2 ^ 8 / 2 ^ 6 / 2 ^ 1 / 2 ^ 1 mod 2 ^ 4).
  set (scf := x / 2 ^ 8 / 2 ^ 8 / 2 ^ 16 / 2 ^ 8 / 2 ^ 6 / 2 ^ 1 mod 2 ^ 1).
  set (off := x / 2 ^ 8 / 2 ^ 8 / 2 ^ 16 / 2 ^ 8 / 2 ^ 6 mod 2 ^ 1).
  set (tcid := x / 2 ^ 8 / 2 ^ 8 / 2 ^ 16 / 2 ^ 8 mod 2 ^ 6).
  set (fl := x / 2 ^ 8 / 2 ^ 8 / 2 ^ 16 mod 2 ^ 8).
  set (pl := x / 2 ^ 8 / 2 ^ 8 mod 2 ^ 16).
  set (mhl := x / 2 ^ 8 mod 2 ^ 8).
  set (rs := x mod 2 ^ 8).
  replace (Z.land (x / 2 ^ 60) 15) with nh by (subst nh; change 15 with (2 ^ 4 - 1); rewrite land_mask by lia; pow2; lia).
  replace (Z.land (x / 2 ^ 52) 15) with ht by (subst ht; change 15 with (2 ^ 4 - 1); rewrite land_mask by lia; pow2; lia).
  replace (Z.land (x / 2 ^ 48) 15) with hst by (subst hst; change 15 with (2 ^ 4 - 1); rewrite land_mask by lia; pow2; lia).
  replace (Z.land (x / 2 ^ 16) 65535) with pl by (subst pl; change 65535 with (2 ^ 16 - 1); rewrite land_mask by lia; pow2; lia).
  replace (Z.land (x / 2 ^ 8) 255) with mhl by (subst mhl; change 255 with (2 ^ 8 - 1); rewrite land_mask by lia; pow2; lia).
  replace (Z.land x 255) with rs by (subst rs; change 255 with (2 ^ 8 - 1); rewrite land_mask by lia; pow2; lia).
  replace (Z.land (x / 2 ^ 32) 128) with (Z.land fl 128).
  2:{ subst fl. apply Z.bits_inj'. intros n Hn. rewrite !Z.land_spec.
      destruct (Z.eq_dec n 7) as [->|Hn7].
      - rewrite andb_true_r. change (Z.testbit 128 7) with true. rewrite andb_true_r.
        rewrite Z.mod_pow2_bits_low by lia. f_equal. pow2. lia.
      - assert (Z.testbit 128 n = false) as ->; [|rewrite !andb_false_r; reflexivity].
        change 128 with (2 ^ 7). apply Z.pow2_bits_false. lia. }
  set (tcb := Z.land (x / 2 ^ 40) 255).
  assert (Etc : tcb = scf * 128 + off * 64 + tcid).
  { subst tcb scf off tcid. change 255 with (2 ^ 8 - 1). rewrite land_mask by lia. pow2. lia. }
  assert (Hscf : 0 <= scf < 2) by (subst scf; apply Z.mod_pos_bound; lia).
  assert (Hoff : 0 <= off < 2) by (subst off; apply Z.mod_pos_bound; lia).
  assert (Htc : 0 <= tcid < 64) by (subst tcid; apply Z.mod_pos_bound; lia).
  assert (E7 : Z.land (tcb / 2 ^ 7) 1 = scf) by (replace 1 with (2 ^ 1 - 1) by reflexivity; rewrite (land_mask 1 (tcb / 2 ^ 7)) by lia; pow2; lia).
  assert (E6 : Z.land (tcb / 2 ^ 6) 1 = off) by (replace 1 with (2 ^ 1 - 1) by reflexivity; rewrite (land_mask 1 (tcb / 2 ^ 6)) by lia; pow2; lia).
  assert (E0 : Z.land tcb 63 = tcid) by (change 63 with (2 ^ 6 - 1); rewrite (land_mask 6 tcb) by lia; pow2; lia).
  rewrite E7, E6, E0.
  assert (Hnh : 0 <= nh < 16) by (subst nh; apply Z.mod_pos_bound; lia).
  assert (Hht : 0 <= ht < 16) by (subst ht; apply Z.mod_pos_bound; lia).
  assert (Hhst : 0 <= hst < 16) by (subst hst; apply Z.mod_pos_bound; lia).
  clearbody nh ht hst scf off tcid fl pl mhl rs tcb.
  unfold enum_mem_CommonNH, enum_mem_HeaderType, enum_mem_GeoBroadcastHST, enum_mem_TopoBroadcastHST, enum_mem_GeoAnycastHST,
    enum_mem_LocationServiceHST, enum_mem_HeaderSubType, hst_ok.
  destruct (nh <=? 3) eqn:E1; cbn [andb].
  2:{ replace ((nh =? 0) || (nh =? 1) || (nh =? 2) || (nh =? 3)) with false by lia. reflexivity. }
  replace ((nh =? 0) || (nh =? 1) || (nh =? 2) || (nh =? 3)) with true by lia.
  destruct (ht <=? 6) eqn:E2; cbn [andb].
  2:{ replace ((ht =? 0) || (ht =? 1) || (ht =? 2) || (ht =? 3) || (ht =? 4) || (ht =? 5) || (ht =? 6)) with false by lia.
      reflexivity. }
  replace ((ht =? 0) || (ht =? 1) || (ht =? 2) || (ht =? 3) || (ht =? 4) || (ht =? 5) || (ht =? 6)) with true by lia.
  destruct (ht =? 4) eqn:H4; [|destruct (ht =? 5) eqn:H5; [|destruct (ht =? 3) eqn:H3; [|destruct (ht =? 6) eqn:H6]]];
    cbn [orb];
    repeat match goal with |- context [if ?c then _ else _] => destruct c eqn:? end;
    repeat match goal with H : context [if ?c then _ else _] |- _ => destruct c eqn:? end;
    first [reflexivity | exfalso; lia].
Qed.

(* ---- GN address and Long Position Vector decoders; decode (encode fields) = fields ------------------------------------ *)
(* finite sweeps over one octet, lifted by forallb_forall *)
Lemma octet_sweep (P : Z -> bool) : forallb P (zrange 0 256) = true -> forall b, 0 <= b < 256 -> P b = true.
Proof.
  intros H b Hb. rewrite forallb_forall in H. apply H.
  assert (G : forall n lo x, lo <= x < lo + Z.of_nat n -> In x (zrange lo n)).
  { induction n as [|n IH]; intros lo x Hx; [lia|]. cbn [zrange]. destruct (Z.eq_dec x lo) as [->|Hne]; [left; reflexivity|].
    right. apply IH. lia. }
  apply G. lia.
Qed.

Lemma octet_m b : 0 <= b < 256 -> Z.shiftr (Z.land b 128) 7 = b / 128.
Proof. intros Hb. apply Z.eqb_eq. revert b Hb. apply octet_sweep. vm_compute. reflexivity. Qed.
Lemma octet_st b : 0 <= b < 256 -> Z.shiftr (Z.land b 124) 2 = (b / 4) mod 32.
Proof. intros Hb. apply Z.eqb_eq. revert b Hb. apply octet_sweep. vm_compute. reflexivity. Qed.

Lemma to_signed_src_model v bits : 0 < bits -> to_signed_src v bits = Some (to_signed bits v).
Proof.
  intros Hb. unfold to_signed_src, to_signed. rewrite !Z.shiftl_1_l.
  replace (0 <=? bits - 1) with true by lia. replace (0 <=? bits) with true by lia.
  rewrite Z.geb_leb. destruct (Z.leb_spec (2 ^ (bits - 1)) v); destruct (Z.ltb_spec v (2 ^ (bits - 1))); try lia; reflexivity.
Qed.

Lemma byte_low t w k : 0 <= k -> k + 8 <= w -> (t mod 2 ^ w) / 2 ^ k mod 2 ^ 8 = t / 2 ^ k mod 2 ^ 8.
Proof.
  intros Hk Hw. apply Z.bits_inj'. intros n Hn. destruct (Z.lt_ge_cases n 8).
  - rewrite !Z.mod_pow2_bits_low by lia. rewrite !Z.div_pow2_bits by lia. rewrite Z.mod_pow2_bits_low by lia. reflexivity.
  - rewrite !Z.mod_pow2_bits_high by lia. reflexivity.
Qed.

(* t / 2^a / 2^b ... -> t / 2^(a+b+...) with the exponent computed *)
Ltac flat_div :=
  rewrite ?Z.div_div by lia; rewrite <- ?Z.pow_add_r by lia;
  repeat match goal with
         | |- context [2 ^ (?a + ?b)] => let v := eval vm_compute in (a + b) in change (a + b) with v
         end.

Definition gnaddr_tuple (r : list Z) := (arg 0 r, arg 1 r, to_bytes 6 (arg 2 r)).

(* GNAddress.decode of the eight octets of a 64-bit word = the model's view of the unpacked layout *)
Lemma src_gnaddr_decode_word t : 0 <= t < 2 ^ 64 ->
  GNAddress_decode (to_bytes 8 t) = option_map gnaddr_tuple (view_gnaddr (unpack gnaddr_ws t)).
Proof.
  intros Ht. unfold GNAddress_decode. rewrite to_bytes_length. cbn [Z.of_nat Pos.of_succ_nat Pos.succ Z.ltb Z.compare Pos.compare Pos.compare_cont].
  change (Z.of_nat 8 <? 8) with false. cbn match. change (0 <? Z.of_nat 8) with true. cbn match.
  unfold to_bytes, unpack, gnaddr_ws, view_gnaddr, gnaddr_tuple. cbn [repeat rev app unpack_rev nth firstn skipn arg length].
  set (b0 := t / 2 ^ 8 / 2 ^ 8 / 2 ^ 8 / 2 ^ 8 / 2 ^ 8 / 2 ^ 8 / 2 ^ 8 mod 2 ^ 8).
  assert (Hb0 : 0 <= b0 < 256) by (subst b0; apply Z.mod_pos_bound; lia).
  rewrite (octet_m b0 Hb0), (octet_st b0 Hb0).
  assert (E0 : t / 2 ^ 8 / 2 ^ 8 / 2 ^ 8 / 2 ^ 8 / 2 ^ 8 / 2 ^ 8 / 2 ^ 8 = t / 2 ^ 56)
    by (rewrite !Z.div_div by lia; f_equal).
  assert (E1 : t / 2 ^ 48 / 2 ^ 10 = t / 2 ^ 56 / 4) by (rewrite !Z.div_div by lia; f_equal).
  assert (E2 : t / 2 ^ 48 / 2 ^ 10 / 2 ^ 5 = t / 2 ^ 56 / 128) by (rewrite !Z.div_div by lia; f_equal).
  assert (Hq : 0 <= t / 2 ^ 56 < 256).
  { split; [apply Z.div_pos; lia|]. apply Z.div_lt_upper_bound; [lia|]. change (2 ^ 56 * 256) with (2 ^ 64). lia. }
  assert (Em : b0 / 128 = t / 2 ^ 48 / 2 ^ 10 / 2 ^ 5 mod 2 ^ 1).
  { subst b0. rewrite E0, E2. generalize dependent (t / 2 ^ 56). intros q _ _ _ Hq. pow2. lia. }
  assert (Est : (b0 / 4) mod 32 = t / 2 ^ 48 / 2 ^ 10 mod 2 ^ 5).
  { subst b0. rewrite E0, E1. generalize dependent (t / 2 ^ 56). intros q _ _ _ Hq. pow2. lia. }
  rewrite Em, Est. clear Em Est.
  set (m := t / 2 ^ 48 / 2 ^ 10 / 2 ^ 5 mod 2 ^ 1). set (st := t / 2 ^ 48 / 2 ^ 10 mod 2 ^ 5).
  assert (Hm : 0 <= m < 2) by (subst m; apply Z.mod_pos_bound; lia).
  assert (Hst : 0 <= st < 32) by (subst st; apply Z.mod_pos_bound; lia).
  unfold enum_mem_M, enum_mem_ST.
  replace ((m =? 0) || (m =? 1)) with true by lia.
  change (Z.of_nat 6 =? 6) with true. cbn match.
  destruct (st <=? 12) eqn:E.
  - replace ((st =? 0) || (st =? 1) || (st =? 2) || (st =? 3) || (st =? 4) || (st =? 5) || (st =? 6) || (st =? 7) || (st =? 8)
             || (st =? 9) || (st =? 10) || (st =? 11) || (st =? 12)) with true by lia.
    cbn [option_map]. do 2 f_equal. clearbody b0 m st. clear.
    unfold to_bytes, unpack, arg. cbn [nth repeat rev app unpack_rev].
    repeat match goal with |- _ :: _ = _ :: _ => apply f_equal2 end; try reflexivity; flat_div;
      first [ symmetry; apply byte_low; lia
            | replace ((t mod 2 ^ 48) mod 2 ^ 8) with ((t mod 2 ^ 48) / 2 ^ 0 mod 2 ^ 8)
                by (change (2 ^ 0) with 1; rewrite Z.div_1_r; reflexivity);
              rewrite byte_low by lia; change (2 ^ 0) with 1; rewrite Z.div_1_r; reflexivity ].
  - replace ((st =? 0) || (st =? 1) || (st =? 2) || (st =? 3) || (st =? 4) || (st =? 5) || (st =? 6) || (st =? 7) || (st =? 8)
             || (st =? 9) || (st =? 10) || (st =? 11) || (st =? 12)) with false by lia.
    reflexivity.
Qed.

Definition lpv_tuple (r : list Z) :=
  ((arg 0 r, arg 1 r, to_bytes 6 (arg 2 r)), arg 3 r, arg 4 r, arg 5 r, negb (arg 6 r =? 0), arg 7 r, arg 8 r).

Lemma wf_bytes_firstn n bs : wf_bytes bs = true -> wf_bytes (firstn n bs) = true.
Proof. unfold wf_bytes. rewrite !forallb_forall. intros H x Hx. apply H. eapply in_firstn; eassumption. Qed.

Lemma src_lpv_decode data : wf_bytes data = true -> (24 <= length data)%nat ->
  LPV_decode data = option_map lpv_tuple (dec_lpv data).
Proof.
  intros Hw Hl. unfold LPV_decode, dec_lpv, dec_fields. change (hdr_bytes lpv_ws) with 24%nat.
  replace (Z.of_nat (length data) <? 24) with false by lia.
  replace (length data <? 24)%nat with false by (symmetry; apply Nat.ltb_ge; exact Hl).
  cbn [skipn obind].
  pose proof (of_bytes_bound (firstn 24 data) (wf_bytes_firstn 24 data Hw)) as HX.
  rewrite firstn_length_le in HX by exact Hl. change (8 * Z.of_nat 24) with 192 in HX.
  set (X := of_bytes (firstn 24 data)) in *. clearbody X. clear data Hw Hl.
  rewrite !Z.shiftr_div_pow2 by lia.
  assert (Ht1 : 0 <= X / 2 ^ 128 < 2 ^ 64).
  { split; [apply Z.div_pos; lia|]. apply Z.div_lt_upper_bound; [lia|]. change (2 ^ 128 * 2 ^ 64) with (2 ^ 192). lia. }
  replace ((0 <=? X / 2 ^ 128) && (X / 2 ^ 128 <? 2 ^ 64)) with true by lia.
  rewrite (src_gnaddr_decode_word _ Ht1).
  assert (Eg : unpack gnaddr_ws (X / 2 ^ 128) = firstn 4 (unpack lpv_ws X)).
  { unfold unpack, lpv_ws, gnaddr_ws. cbn [rev app unpack_rev firstn].
    repeat match goal with |- _ :: _ = _ :: _ => apply f_equal2 end; try reflexivity; flat_div; reflexivity. }
  unfold view_lpv. rewrite <- Eg. destruct (view_gnaddr (unpack gnaddr_ws (X / 2 ^ 128))) as [a|] eqn:Ea; [|reflexivity].
  cbn [option_map].
  unfold view_gnaddr in Ea. destruct (arg 1 (unpack gnaddr_ws (X / 2 ^ 128)) <=? 12); [|discriminate].
  injection Ea as <-.
  unfold TST_decode. rewrite !to_signed_src_model by lia.
  unfold lpv_tuple, gnaddr_tuple. cbn [app arg nth].
  unfold unpack, lpv_ws, gnaddr_ws. cbn [rev app unpack_rev arg nth].
  change 4294967295 with (2 ^ 32 - 1). change 32767 with (2 ^ 15 - 1). change 65535 with (2 ^ 16 - 1).
  rewrite !land_mask by lia.
  replace (Z.land (X / 2 ^ 31) 1) with ((X / 2 ^ 31) mod 2 ^ 1) by (symmetry; apply (land_mask 1); lia).
  change 4294967296 with (2 ^ 32).
  f_equal. repeat match goal with |- (_, _) = (_, _) => apply f_equal2 end; try reflexivity; flat_div; reflexivity.
Qed.

(* decode (encode fields) = fields, on the functions regenerated from the source *)
Lemma src_lpv_roundtrip m st mid tst lat lon pai s h :
  0 <= m < 2 -> 0 <= st <= 12 -> wf_bytes mid = true -> length mid = 6%nat -> 0 <= tst < 2 ^ 32 ->
  - 2 ^ 31 <= lat < 2 ^ 31 -> - 2 ^ 31 <= lon < 2 ^ 31 -> 0 <= pai < 2 -> - 2 ^ 14 <= s < 2 ^ 14 -> 0 <= h < 65536 ->
  exists octets, LPV_encode m st mid tst lat lon pai s h = Some octets /\ length octets = 24%nat /\
    LPV_decode octets = Some ((m, st, mid), tst, lat, lon, negb (pai =? 0), s, h).
Proof.
  intros Hm Hst Hw Hl Ht Hlat Hlon Hp Hs Hh.
  pose proof (of_bytes_bound mid Hw) as Hb. rewrite Hl in Hb. change (8 * Z.of_nat 6) with 48 in Hb.
  set (v := [m; st; of_bytes mid; tst; lat; lon; pai; s; h]).
  assert (Hwf : wf_lpv v = true).
  { unfold wf_lpv, wf_gnaddr, in_s, v. cbn [length firstn arg nth Nat.eqb]. rewrite !andb_true_iff, !fits_spec. pow2. lia. }
  exists (enc_lpv v). split; [apply src_lpv_encode; (assumption || lia)|]. split; [apply enc_lpv_length|].
  assert (Hwb : wf_bytes (enc_lpv v) = true).
  { unfold enc_lpv, enc_fields. apply to_bytes_wf.
    pose proof (pack_bound lpv_ws _ widths_nonneg_lpv (raw_lpv_fits m st (of_bytes mid) tst lat lon pai s h ltac:(lia) ltac:(lia) Hb Hp Hh)) as Hpb.
    change (total_width lpv_ws) with 192 in Hpb. change (8 * Z.of_nat (hdr_bytes lpv_ws)) with 192. exact Hpb. }
  rewrite src_lpv_decode by (rewrite ?enc_lpv_length; auto).
  rewrite <- (app_nil_r (enc_lpv v)). rewrite dec_enc_lpv by exact Hwf.
  cbn [option_map]. unfold lpv_tuple, v. cbn [arg nth].
  rewrite <- Hl at 1. rewrite to_of_bytes by exact Hw. reflexivity.
Qed.

(* ---- Short Position Vector and extended-header decoders ---------------------------------------------------------- *)
Definition spv_tuple (r : list Z) := ((arg 0 r, arg 1 r, to_bytes 6 (arg 2 r)), arg 3 r, arg 4 r, arg 5 r).

(* ShortPositionVector.decode reads the whole byte string it is given (no length check): stated for exactly 20 octets,
   which is what the GUC / LS-reply decoders pass *)
Lemma src_spv_decode data : wf_bytes data = true -> length data = 20%nat ->
  SPV_decode data = option_map spv_tuple (dec_spv data).
Proof.
  intros Hw Hl. unfold SPV_decode, dec_spv, dec_fields. change (hdr_bytes spv_ws) with 20%nat.
  replace (firstn 20 data) with data by (rewrite <- Hl, firstn_all; reflexivity).
  rewrite Hl. change (20 <? 20)%nat with false. cbn [obind].
  pose proof (of_bytes_bound data Hw) as HX. rewrite Hl in HX. change (8 * Z.of_nat 20) with 160 in HX.
  set (X := of_bytes data) in *. clearbody X. clear data Hw Hl.
  rewrite !Z.shiftr_div_pow2 by lia.
  assert (Ht1 : 0 <= X / 2 ^ 96 < 2 ^ 64).
  { split; [apply Z.div_pos; lia|]. apply Z.div_lt_upper_bound; [lia|]. change (2 ^ 96 * 2 ^ 64) with (2 ^ 160). lia. }
  replace ((0 <=? X / 2 ^ 96) && (X / 2 ^ 96 <? 2 ^ 64)) with true by lia.
  rewrite (src_gnaddr_decode_word _ Ht1).
  assert (Eg : unpack gnaddr_ws (X / 2 ^ 96) = firstn 4 (unpack spv_ws X)).
  { unfold unpack, spv_ws, gnaddr_ws. cbn [rev app unpack_rev firstn].
    repeat match goal with |- _ :: _ = _ :: _ => apply f_equal2 end; try reflexivity; flat_div; reflexivity. }
  unfold view_spv. rewrite <- Eg. destruct (view_gnaddr (unpack gnaddr_ws (X / 2 ^ 96))) as [a|] eqn:Ea; [|reflexivity].
  cbn [option_map].
  unfold view_gnaddr in Ea. destruct (arg 1 (unpack gnaddr_ws (X / 2 ^ 96)) <=? 12); [|discriminate].
  injection Ea as <-.
  unfold TST_decode. rewrite !to_signed_src_model by lia.
  unfold spv_tuple, gnaddr_tuple. cbn [app arg nth].
  unfold unpack, spv_ws, gnaddr_ws. cbn [rev app unpack_rev arg nth].
  change 4294967295 with (2 ^ 32 - 1). rewrite !land_mask by lia. change 4294967296 with (2 ^ 32).
  f_equal. repeat match goal with |- (_, _) = (_, _) => apply f_equal2 end; try reflexivity; flat_div; reflexivity.
Qed.

Lemma src_spv_roundtrip m st mid tst lat lon :
  0 <= m < 2 -> 0 <= st <= 12 -> wf_bytes mid = true -> length mid = 6%nat -> 0 <= tst < 2 ^ 32 ->
  - 2 ^ 31 <= lat < 2 ^ 31 -> - 2 ^ 31 <= lon < 2 ^ 31 ->
  exists octets, SPV_encode m st mid tst lat lon = Some octets /\ length octets = 20%nat /\
    SPV_decode octets = Some ((m, st, mid), tst, lat, lon).
Proof.
  intros Hm Hst Hw Hl Ht Hlat Hlon.
  pose proof (of_bytes_bound mid Hw) as Hb. rewrite Hl in Hb. change (8 * Z.of_nat 6) with 48 in Hb.
  set (v := [m; st; of_bytes mid; tst; lat; lon]).
  assert (Hwf : wf_spv v = true).
  { unfold wf_spv, wf_gnaddr, in_s, v. cbn [length firstn arg nth Nat.eqb]. rewrite !andb_true_iff, !fits_spec. pow2. lia. }
  assert (Hlen : length (enc_spv v) = 20%nat) by (unfold enc_spv; rewrite enc_fields_length; reflexivity).
  exists (enc_spv v). split; [apply src_spv_encode; (assumption || lia)|]. split; [exact Hlen|].
  assert (Hwb : wf_bytes (enc_spv v) = true).
  { unfold enc_spv, enc_fields. apply to_bytes_wf.
    pose proof (pack_bound spv_ws _ widths_nonneg_spv (raw_spv_fits m st (of_bytes mid) tst lat lon ltac:(lia) ltac:(lia) Hb)) as Hpb.
    change (total_width spv_ws) with 160 in Hpb. change (8 * Z.of_nat (hdr_bytes spv_ws)) with 160. exact Hpb. }
  rewrite src_spv_decode by auto.
  rewrite <- (app_nil_r (enc_spv v)). rewrite dec_enc_spv by exact Hwf.
  cbn [option_map]. unfold spv_tuple, v. cbn [arg nth].
  rewrite <- Hl at 1. rewrite to_of_bytes by exact Hw. reflexivity.
Qed.

(* ---- extended header decoders ---------------------------------------------------------------------------------------- *)
Lemma wf_bytes_skipn n bs : wf_bytes bs = true -> wf_bytes (skipn n bs) = true.
Proof.
  unfold wf_bytes. rewrite !forallb_forall. intros H x Hx. apply H.
  rewrite <- (firstn_skipn n bs). apply in_or_app. right. exact Hx.
Qed.

Lemma dec_lpv_firstn l : (24 <= length l)%nat -> dec_lpv (firstn 24 l) = dec_lpv l.
Proof.
  intros Hl. unfold dec_lpv, dec_fields. change (hdr_bytes lpv_ws) with 24%nat.
  rewrite firstn_length_le by exact Hl. rewrite firstn_firstn. change (Nat.min 24 24) with 24%nat.
  replace (length l <? 24)%nat with false by (symmetry; apply Nat.ltb_ge; exact Hl). reflexivity.
Qed.

(* sequence number and reserved field of every extended header *)
Lemma sn_fields bs : wf_bytes bs = true -> (4 <= length bs)%nat ->
  dec_fields sn_ws bs = Some [of_bytes (firstn 2 (skipn 0 bs)); of_bytes (firstn 2 (skipn 2 bs))].
Proof.
  intros Hw Hl. destruct bs as [|b0 [|b1 [|b2 [|b3 rest]]]]; cbn [length] in Hl; try lia.
  unfold dec_fields, sn_ws. change (hdr_bytes [16; 16]) with 4%nat.
  replace (length (b0 :: b1 :: b2 :: b3 :: rest) <? 4)%nat with false by (symmetry; apply Nat.ltb_ge; cbn [length]; lia).
  cbn [firstn skipn]. unfold unpack, of_bytes, pack. cbn [rev app unpack_rev map fold_left]. unfold pack_step. cbn [fst snd].
  unfold wf_bytes in Hw. cbn [forallb] in Hw. unfold is_byte in Hw.
  f_equal. repeat match goal with |- _ :: _ = _ :: _ => apply f_equal2 end; try reflexivity; pow2; lia.
Qed.

Definition tsb_tuple (r : list Z) := (arg 0 r, arg 1 r, lpv_tuple (skipn 2 r)).

Lemma src_tsb_decode header : wf_bytes header = true ->
  TSB_decode header = option_map tsb_tuple (dec_tsb header).
Proof.
  intros Hw. unfold TSB_decode, dec_tsb.
  destruct (Nat.ltb_spec (length header) 28) as [Hlt | Hge].
  - replace (Z.of_nat (length header) <? 28) with true by lia. reflexivity.
  - replace (Z.of_nat (length header) <? 28) with false by lia.
    rewrite sn_fields by (auto; lia). cbn [obind].
    assert (Hl4 : (24 <= length (skipn 4 header))%nat) by (rewrite skipn_length; lia).
    rewrite src_lpv_decode by (try apply wf_bytes_firstn; try apply wf_bytes_skipn; auto; rewrite firstn_length_le; lia).
    rewrite dec_lpv_firstn by exact Hl4.
    destruct (dec_lpv (skipn 4 header)) as [p|]; reflexivity.
Qed.

Lemma dec_lpv_length l p : dec_lpv l = Some p -> length p = 9%nat.
Proof.
  unfold dec_lpv, dec_fields. destruct (length l <? hdr_bytes lpv_ws)%nat; [discriminate|]. cbn [obind].
  unfold view_lpv, view_gnaddr. destruct (arg 1 _ <=? 12); [|discriminate]. intros H. injection H as <-. reflexivity.
Qed.

Definition guc_tuple (r : list Z) := (arg 0 r, arg 1 r, lpv_tuple (firstn 9 (skipn 2 r)), spv_tuple (skipn 11 r)).

Lemma src_guc_decode header : wf_bytes header = true ->
  GUC_decode header = option_map guc_tuple (dec_guc header) /\ LSRep_decode header = GUC_decode header.
Proof.
  intros Hw. split; [|reflexivity]. unfold GUC_decode, dec_guc.
  destruct (Nat.ltb_spec (length header) 48) as [Hlt | Hge].
  - replace (Z.of_nat (length header) <? 48) with true by lia. reflexivity.
  - replace (Z.of_nat (length header) <? 48) with false by lia.
    rewrite sn_fields by (auto; lia). cbn [obind].
    assert (Hl4 : (24 <= length (skipn 4 header))%nat) by (rewrite skipn_length; lia).
    rewrite src_lpv_decode by (try apply wf_bytes_firstn; try apply wf_bytes_skipn; auto; rewrite firstn_length_le; lia).
    rewrite dec_lpv_firstn by exact Hl4.
    destruct (dec_lpv (skipn 4 header)) as [p|] eqn:Ep; [|reflexivity]. cbn [option_map obind].
    assert (Hw28 : wf_bytes (firstn 20 (skipn 28 header)) = true) by (apply wf_bytes_firstn, wf_bytes_skipn; exact Hw).
    assert (Hl28 : length (firstn 20 (skipn 28 header)) = 20%nat) by (rewrite firstn_length_le; [reflexivity | rewrite skipn_length; lia]).
    rewrite (src_spv_decode _ Hw28 Hl28).
    destruct (dec_spv (firstn 20 (skipn 28 header))) as [d|]; [|reflexivity]. cbn [option_map obind].
    pose proof (dec_lpv_length _ _ Ep) as Lp.
    unfold guc_tuple. cbn [app skipn arg nth].
    destruct p as [|p0 [|p1 [|p2 [|p3 [|p4 [|p5 [|p6 [|p7 [|p8 [|p9 pr]]]]]]]]]]; cbn [length] in Lp; try lia.
    reflexivity.
Qed.

Lemma src_gnaddr_decode bs : wf_bytes bs = true -> length bs = 8%nat ->
  GNAddress_decode bs = option_map gnaddr_tuple (dec_gnaddr bs).
Proof.
  intros Hw Hl. pose proof (of_bytes_bound bs Hw) as Hb. rewrite Hl in Hb. change (8 * Z.of_nat 8) with 64 in Hb.
  rewrite <- (to_of_bytes bs Hw) at 1. rewrite Hl. rewrite (src_gnaddr_decode_word _ Hb).
  unfold dec_gnaddr, dec_fields. change (hdr_bytes gnaddr_ws) with 8%nat. rewrite Hl. change (8 <? 8)%nat with false.
  replace (firstn 8 bs) with bs by (rewrite <- Hl, firstn_all; reflexivity). reflexivity.
Qed.

Lemma dec_gnaddr_firstn l : (8 <= length l)%nat -> dec_gnaddr (firstn 8 l) = dec_gnaddr l.
Proof.
  intros Hl. unfold dec_gnaddr, dec_fields. change (hdr_bytes gnaddr_ws) with 8%nat.
  rewrite firstn_length_le by exact Hl. rewrite firstn_firstn. change (Nat.min 8 8) with 8%nat.
  replace (length l <? 8)%nat with false by (symmetry; apply Nat.ltb_ge; exact Hl). reflexivity.
Qed.

Definition lsreq_tuple (r : list Z) := (arg 0 r, arg 1 r, lpv_tuple (firstn 9 (skipn 2 r)), gnaddr_tuple (skipn 11 r)).

Lemma src_lsreq_decode header : wf_bytes header = true ->
  LSReq_decode header = option_map lsreq_tuple (dec_lsreq header).
Proof.
  intros Hw. unfold LSReq_decode, dec_lsreq.
  destruct (Nat.ltb_spec (length header) 36) as [Hlt | Hge].
  - replace (Z.of_nat (length header) <? 36) with true by lia. reflexivity.
  - replace (Z.of_nat (length header) <? 36) with false by lia.
    rewrite sn_fields by (auto; lia). cbn [obind].
    assert (Hl4 : (24 <= length (skipn 4 header))%nat) by (rewrite skipn_length; lia).
    rewrite src_lpv_decode by (try apply wf_bytes_firstn; try apply wf_bytes_skipn; auto; rewrite firstn_length_le; lia).
    rewrite dec_lpv_firstn by exact Hl4.
    destruct (dec_lpv (skipn 4 header)) as [p|] eqn:Ep; [|reflexivity]. cbn [option_map obind].
    assert (Hw28 : wf_bytes (firstn 8 (skipn 28 header)) = true) by (apply wf_bytes_firstn, wf_bytes_skipn; exact Hw).
    assert (Hl28 : length (firstn 8 (skipn 28 header)) = 8%nat) by (rewrite firstn_length_le; [reflexivity | rewrite skipn_length; lia]).
    rewrite (src_gnaddr_decode _ Hw28 Hl28). rewrite dec_gnaddr_firstn by (rewrite skipn_length; lia).
    destruct (dec_gnaddr (skipn 28 header)) as [d|]; [|reflexivity]. cbn [option_map obind].
    pose proof (dec_lpv_length _ _ Ep) as Lp.
    unfold lsreq_tuple. cbn [app skipn arg nth].
    destruct p as [|p0 [|p1 [|p2 [|p3 [|p4 [|p5 [|p6 [|p7 [|p8 [|p9 pr]]]]]]]]]]; cbn [length] in Lp; try lia.
    reflexivity.
Qed.
