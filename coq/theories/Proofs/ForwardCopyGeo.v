(* C06 / C02: a forwarded GeoBroadcast / GeoAnycast packet is, octet for octet, the received packet with the RHL octet
   decremented - for every conformant received packet (reserved bits of the common header and of the GN address zero).
   The same holds for the copy a contention-based forwarder stores in its CBF buffer. *)
From FlexVerif Require Import Base.Prelude Base.Bits Base.BitsFacts Model.Lifetime Model.Wire Model.LocT Model.Router
  Proofs.WireProofs Proofs.LocTProofs Proofs.RouterProofs Proofs.ForwardCopy.
From Coq Require Import ZifyBool.

Lemma area_reencode bs a : wf_bytes bs = true -> dec_fields area_ws bs = Some a ->
  enc_fields area_ws (raw_area (view_area a)) = firstn 16 bs.
Proof.
  intros W D.
  destruct (enc_dec_fields area_ws bs a ltac:(repeat constructor; lia) eq_refl W D) as [E F].
  change (hdr_bytes area_ws) with 16%nat in E. rewrite <- E. f_equal.
  assert (L : length a = 6%nat) by (apply all_fit_length in F; cbn in F; lia).
  destruct a as [|a0 [|a1 [|a2 [|a3 [|a4 [|a5 [|? ?]]]]]]]; try discriminate.
  unfold area_ws in F. cbn [all_fit] in F.
  repeat match type of F with _ && _ = true => apply andb_true_iff in F as [? F] end.
  unfold raw_area, view_area, arg. cbn [nth].
  repeat match goal with H : fits _ _ = true |- _ => apply fits_elim in H end.
  rewrite !unsigned_signed by lia. reflexivity.
Qed.

Lemma gbc_reencode body h : wf_bytes body = true -> lpv_conformant (skipn 4 body) -> dec_gbc body = Some h ->
  enc_gbc h = firstn 44 body.
Proof.
  intros W C. unfold dec_gbc. destruct (Nat.ltb_spec (length body) 44) as [?|Hl]; [discriminate|]. unfold obind.
  destruct (dec_fields sn_ws body) as [hd|] eqn:D; [|discriminate].
  destruct (dec_lpv (skipn 4 body)) as [pv|] eqn:P; [|discriminate].
  destruct (dec_fields area_ws (skipn 28 body)) as [a|] eqn:A; [|discriminate]. intros E. injection E as <-.
  destruct (enc_dec_fields sn_ws body hd ltac:(repeat constructor; lia) eq_refl W D) as [E1 F1].
  assert (L2 : length hd = 2%nat) by (apply all_fit_length in F1; cbn in F1; lia).
  assert (W4 : wf_bytes (skipn 4 body) = true) by (apply wf_bytes_skipn; exact W).
  assert (W28 : wf_bytes (skipn 28 body) = true) by (apply wf_bytes_skipn; exact W).
  pose proof (lpv_reencode _ _ W4 C P) as E2.
  pose proof (area_reencode _ _ W28 A) as E3.
  assert (L9 : length pv = 9%nat).
  { destruct C as (r & Dr & _). unfold dec_lpv, obind in P. rewrite Dr in P. unfold view_lpv in P.
    destruct (view_gnaddr _) as [ga|] eqn:G; [|discriminate].
    unfold view_gnaddr in G. destruct (arg 1 (firstn 4 r) <=? 12); [|discriminate]. injection G as <-.
    injection P as <-. reflexivity. }
  unfold enc_gbc.
  rewrite firstn_app_exact by exact L2.
  rewrite skipn_app_exact by exact L2.
  rewrite firstn_app_exact by exact L9.
  replace (skipn 11 (hd ++ pv ++ view_area a)) with (view_area a).
  2:{ rewrite app_assoc. rewrite skipn_app_exact; [reflexivity | rewrite app_length; lia]. }
  rewrite E1, E2, E3. change (hdr_bytes sn_ws) with 4%nat.
  (* firstn 4 body ++ firstn 24 (skipn 4 body) ++ firstn 16 (skipn 28 body) = firstn 44 body *)
  clear - Hl. revert Hl. generalize body. clear body. intros body Hl.
  assert (G : forall (n k : nat) (l : list Z), firstn n l ++ firstn k (skipn n l) = firstn (n + k) l).
  { induction n as [|n IH]; intros k l; cbn [firstn skipn app plus]; [reflexivity|].
    destruct l as [|x l]; [destruct k; reflexivity|]. cbn [firstn skipn app]. f_equal. apply IH. }
  replace (skipn 28 body) with (skipn 24 (skipn 4 body)) by (rewrite skipn_skipn_nat; reflexivity).
  rewrite (G 24%nat 16%nat (skipn 4 body)). change (24 + 16)%nat with 40%nat. rewrite (G 4%nat 40%nat body). reflexivity.
Qed.

(* every packet the GBC / GAC forwarders hand to the link layer is the re-assembly of the decoded headers with RHL - 1 *)
Lemma gbc_fwd_shape m s now g bv cv body p : In (OFwd p) (snd (rx_gbc m s now g bv cv body)) ->
  exists h, dec_gbc body = Some h /\ p = gbc_packet bv cv h (skipn 44 body) (arg 5 bv - 1).
Proof.
  unfold rx_gbc. cbv zeta. destruct (dec_gbc body) as [h|] eqn:Dh; [|intros [H|[]]; discriminate].
  intros H. exists h. split; [reflexivity|].
  repeat match type of H with
         | context [match ?x with _ => _ end] => destruct x eqn:?
         end; cbn [snd] in H; in_cases H; try discriminate;
  try (injection H as <-; reflexivity).
Qed.

Lemma gac_fwd_shape m s now g bv cv body p : In (OFwd p) (snd (rx_gac m s now g bv cv body)) ->
  exists h, dec_gbc body = Some h /\ p = gbc_packet bv cv h (skipn 44 body) (arg 5 bv - 1).
Proof.
  unfold rx_gac. cbv zeta. destruct (dec_gbc body) as [h|] eqn:Dh; [|intros [H|[]]; discriminate].
  intros H. exists h. split; [reflexivity|].
  repeat match type of H with
         | context [match ?x with _ => _ end] => destruct x eqn:?
         end; cbn [snd] in H; in_cases H; try discriminate;
  try (injection H as <-; reflexivity).
Qed.

(* the copy a contention-based forwarder buffers is the same re-assembly *)
Lemma gbc_cbf_shape m s now g bv cv body k p : In (k, p) (s_cbf (fst (rx_gbc m s now g bv cv body))) ->
  In (k, p) (s_cbf s) \/ exists h, dec_gbc body = Some h /\ p = gbc_packet bv cv h (skipn 44 body) (arg 5 bv - 1).
Proof.
  unfold rx_gbc. cbv zeta. destruct (dec_gbc body) as [h|] eqn:Dh; [|cbn [fst]; auto].
  intros H.
  repeat match type of H with
         | context [match ?x with _ => _ end] => destruct x eqn:?
         end; cbn [fst s_cbf set_cbf set_loct] in H; auto;
  try (unfold cbf_remove in H; apply filter_In in H as [H _]; auto).
  apply in_app_or in H as [H|H]; [auto|]. in_cases H. injection H as _ <-. right. exists h. split; reflexivity.
Qed.

(* re-assembly = copy with the RHL octet replaced, for a conformant received packet *)
Lemma gbc_packet_is_copy pkt bv cv h :
  wf_bytes pkt = true -> dec_basic pkt = Some bv -> dec_common (skipn 4 pkt) = Some cv -> dec_gbc (skipn 12 pkt) = Some h ->
  common_conformant (skipn 4 pkt) -> lpv_conformant (skipn 16 pkt) -> 1 <= arg 5 bv ->
  gbc_packet bv cv h (skipn 44 (skipn 12 pkt)) (arg 5 bv - 1) = firstn 3 pkt ++ [arg 5 bv - 1] ++ skipn 4 pkt.
Proof.
  intros W Db Dc Dg Cc Cl Hr.
  assert (Wsk : forall n, wf_bytes (skipn n pkt) = true) by (intros n; apply wf_bytes_skipn; exact W).
  destruct (dec_basic_fits pkt bv W Db) as [Fb _].
  assert (L6 : length bv = 6%nat) by (apply all_fit_length in Fb; cbn in Fb; lia).
  assert (Hr8 : fits 8 (arg 5 bv - 1) = true).
  { destruct bv as [|v [|n [|s0 [|m0 [|b [|r [|? ?]]]]]]]; try discriminate. unfold basic_ws in Fb. cbn [all_fit] in Fb.
    repeat match type of Fb with _ && _ = true => apply andb_true_iff in Fb as [? Fb] end.
    unfold arg in *. cbn [nth] in *. apply fits_true. match goal with H : fits 8 r = true |- _ => apply fits_elim in H; cbn in H |- * end. lia. }
  unfold gbc_packet.
  rewrite (basic_header_rhl_only pkt bv _ W Db Hr8).
  rewrite (common_reencode _ _ (Wsk 4%nat) Cc Dc).
  assert (Cl' : lpv_conformant (skipn 4 (skipn 12 pkt))) by (rewrite skipn_skipn_nat; exact Cl).
  rewrite (gbc_reencode _ _ (Wsk 12%nat) Cl' Dg).
  rewrite <- app_assoc. f_equal. f_equal.
  rewrite (firstn_skipn 44 (skipn 12 pkt)).
  replace (skipn 12 pkt) with (skipn 8 (skipn 4 pkt)) by (rewrite skipn_skipn_nat; reflexivity).
  apply firstn_skipn.
Qed.

(* THE THEOREM: whatever a station forwards for a received GeoBroadcast or GeoAnycast packet is that packet with the RHL
   octet decremented, octet for octet *)
Theorem geo_forward_is_copy m s now g pkt bv cv p :
  wf_bytes pkt = true -> dec_basic pkt = Some bv -> dec_common (skipn 4 pkt) = Some cv -> (arg 1 cv = 4 \/ arg 1 cv = 3) ->
  common_conformant (skipn 4 pkt) -> lpv_conformant (skipn 16 pkt) ->
  In (OFwd p) (snd (rx m s now g pkt)) ->
  p = firstn 3 pkt ++ [arg 5 bv - 1] ++ skipn 4 pkt.
Proof.
  intros W Db Dc Ht Cc Cl Hin.
  destruct (forwarded_copy_has_rhl_minus_1 m s now g pkt bv p Db Hin) as [Hr _].
  unfold rx in Hin. cbv zeta in Hin. rewrite Db in Hin.
  destruct (negb (arg 0 bv =? 1)); [cbn [snd] in Hin; in_cases Hin; discriminate|].
  destruct (arg 1 bv =? 2); [cbn [snd] in Hin; in_cases Hin; discriminate|].
  destruct (negb (arg 1 bv =? 1)); [cbn [snd] in Hin; in_cases Hin; discriminate|].
  rewrite Dc in Hin. destruct (arg 8 cv <? arg 5 bv); [cbn [snd] in Hin; in_cases Hin; discriminate|].
  destruct Ht as [Ht|Ht]; rewrite Ht in Hin; cbn [Z.eqb Pos.eqb] in Hin.
  - destruct (gbc_fwd_shape _ _ _ _ _ _ _ _ Hin) as (h & Dg & ->).
    apply gbc_packet_is_copy; auto. lia.
  - destruct (gac_fwd_shape _ _ _ _ _ _ _ _ Hin) as (h & Dg & ->).
    apply gbc_packet_is_copy; auto. lia.
Qed.

(* ---- GeoUnicast: copy with RHL - 1, except that the DE position vector is the one [refresh_de] chooses ---- *)
Definition spv_conformant (bs : list Z) : Prop := exists r, dec_fields spv_ws bs = Some r /\ arg 2 r = 0.

Lemma spv_reencode bs de : wf_bytes bs = true -> spv_conformant bs -> dec_spv bs = Some de -> enc_spv de = firstn 20 bs.
Proof.
  intros W (r & D & R2).
  destruct (enc_dec_fields spv_ws bs r ltac:(repeat constructor; lia) eq_refl W D) as [E F].
  change (hdr_bytes spv_ws) with 20%nat in E. set (target := firstn 20 bs) in *.
  unfold dec_spv, obind. rewrite D.
  assert (L : length r = 7%nat) by (apply all_fit_length in F; cbn in F; lia).
  destruct r as [|r0 [|r1 [|r2 [|r3 [|r4 [|r5 [|r6 [|? ?]]]]]]]]; try discriminate.
  unfold arg in R2. cbn [nth] in R2. subst r2.
  unfold view_spv, view_gnaddr, arg. cbn [nth firstn app].
  destruct (r1 <=? 12); [|discriminate]. intros X. injection X as <-.
  unfold spv_ws, gnaddr_ws in F. cbn [app all_fit] in F.
  repeat match type of F with _ && _ = true => apply andb_true_iff in F as [? F] end.
  unfold enc_spv, raw_spv, raw_gnaddr, arg. cbn [nth firstn app]. rewrite <- E. f_equal.
  repeat match goal with H : fits _ _ = true |- _ => apply fits_elim in H end.
  rewrite !unsigned_signed by lia. rewrite (Z.mod_small r4) by lia. reflexivity.
Qed.

Lemma guc_fwd_shape m s now g bv cv body p : In (OFwd p) (snd (rx_guc m s now g bv cv body)) ->
  exists h t, dec_guc body = Some h /\
    rx_mh (s_loct s) (firstn 9 (skipn 2 h)) (arg 0 h) now (m_life_ms m) (m_dpl_len m) = Some t /\
    p = guc_packet bv cv (firstn 2 h) (firstn 9 (skipn 2 h)) (refresh_de t (skipn 11 h)) (skipn 48 body) (arg 5 bv - 1).
Proof.
  unfold rx_guc. cbv zeta. destruct (dec_guc body) as [h|] eqn:Dh; [|intros [H|[]]; discriminate].
  destruct (mid_eqb _ _); [intros [H|[]]; discriminate|].
  destruct (rx_mh _ _ _ _ _ _) as [t|] eqn:Rm; [|intros [H|[]]; discriminate].
  intros H. exists h, t. split; [reflexivity|]. split; [exact Rm|].
  repeat match type of H with
         | context [match ?x with _ => _ end] => destruct x eqn:?
         end; cbn [snd] in H; in_cases H; try discriminate;
  try (injection H as <-; reflexivity).
Qed.

Lemma guc_head_reencode body h : wf_bytes body = true -> lpv_conformant (skipn 4 body) -> dec_guc body = Some h ->
  enc_fields sn_ws (firstn 2 h) ++ enc_lpv (firstn 9 (skipn 2 h)) = firstn 28 body /\
  dec_spv (firstn 20 (skipn 28 body)) = Some (skipn 11 h) /\ length (firstn 2 h) = 2%nat /\ length (firstn 9 (skipn 2 h)) = 9%nat.
Proof.
  intros W C. unfold dec_guc. destruct (Nat.ltb_spec (length body) 48) as [?|Hl]; [discriminate|]. unfold obind.
  destruct (dec_fields sn_ws body) as [hd|] eqn:D; [|discriminate].
  destruct (dec_lpv (skipn 4 body)) as [pv|] eqn:P; [|discriminate].
  destruct (dec_spv (firstn 20 (skipn 28 body))) as [de|] eqn:S; [|discriminate]. intros E. injection E as <-.
  destruct (enc_dec_fields sn_ws body hd ltac:(repeat constructor; lia) eq_refl W D) as [E1 F1].
  assert (L2 : length hd = 2%nat) by (apply all_fit_length in F1; cbn in F1; lia).
  assert (W4 : wf_bytes (skipn 4 body) = true) by (apply wf_bytes_skipn; exact W).
  pose proof (lpv_reencode _ _ W4 C P) as E2.
  assert (L9 : length pv = 9%nat).
  { destruct C as (r & Dr & _). unfold dec_lpv, obind in P. rewrite Dr in P. unfold view_lpv in P.
    destruct (view_gnaddr _) as [ga|] eqn:G; [|discriminate].
    unfold view_gnaddr in G. destruct (arg 1 (firstn 4 r) <=? 12); [|discriminate]. injection G as <-.
    injection P as <-. reflexivity. }
  rewrite firstn_app_exact by exact L2. rewrite skipn_app_exact by exact L2. rewrite firstn_app_exact by exact L9.
  replace (skipn 11 (hd ++ pv ++ de)) with de.
  2:{ rewrite app_assoc. rewrite skipn_app_exact; [reflexivity | rewrite app_length; lia]. }
  repeat split; auto.
  rewrite E1, E2. change (hdr_bytes sn_ws) with 4%nat.
  assert (G : forall (n k : nat) (l : list Z), firstn n l ++ firstn k (skipn n l) = firstn (n + k) l).
  { induction n as [|n IH]; intros k l; cbn [firstn skipn app plus]; [reflexivity|].
    destruct l as [|x l]; [destruct k; reflexivity|]. cbn [firstn skipn app]. f_equal. apply IH. }
  apply (G 4%nat 24%nat body).
Qed.

(* THE THEOREM for GeoUnicast: the forwarded packet is the received one with RHL - 1 and with the 20 octets of the
   destination position vector written from [refresh_de] (the packet's own DE PV, or the strictly newer one of the location
   table when the destination is a neighbour); every other octet is copied *)
Theorem guc_forward_octets m s now g pkt bv cv p :
  wf_bytes pkt = true -> dec_basic pkt = Some bv -> dec_common (skipn 4 pkt) = Some cv -> arg 1 cv = 2 ->
  common_conformant (skipn 4 pkt) -> lpv_conformant (skipn 16 pkt) ->
  In (OFwd p) (snd (rx m s now g pkt)) ->
  exists h t, dec_guc (skipn 12 pkt) = Some h /\
    rx_mh (s_loct s) (firstn 9 (skipn 2 h)) (arg 0 h) now (m_life_ms m) (m_dpl_len m) = Some t /\
    p = firstn 3 pkt ++ [arg 5 bv - 1] ++ firstn 36 (skipn 4 pkt) ++ enc_spv (refresh_de t (skipn 11 h)) ++ skipn 60 pkt.
Proof.
  intros W Db Dc Ht Cc Cl Hin.
  assert (Wsk : forall n, wf_bytes (skipn n pkt) = true) by (intros n; apply wf_bytes_skipn; exact W).
  destruct (forwarded_copy_has_rhl_minus_1 m s now g pkt bv p Db Hin) as [Hr _].
  destruct (dec_basic_fits pkt bv W Db) as [Fb _].
  assert (L6 : length bv = 6%nat) by (apply all_fit_length in Fb; cbn in Fb; lia).
  assert (Hr8 : fits 8 (arg 5 bv - 1) = true).
  { destruct bv as [|v [|n [|s0 [|m0 [|b [|r [|? ?]]]]]]]; try discriminate. unfold basic_ws in Fb. cbn [all_fit] in Fb.
    repeat match type of Fb with _ && _ = true => apply andb_true_iff in Fb as [? Fb] end.
    unfold arg in *. cbn [nth] in *. apply fits_true. match goal with H : fits 8 r = true |- _ => apply fits_elim in H; cbn in H |- * end. lia. }
  unfold rx in Hin. cbv zeta in Hin. rewrite Db in Hin.
  destruct (negb (arg 0 bv =? 1)); [cbn [snd] in Hin; in_cases Hin; discriminate|].
  destruct (arg 1 bv =? 2); [cbn [snd] in Hin; in_cases Hin; discriminate|].
  destruct (negb (arg 1 bv =? 1)); [cbn [snd] in Hin; in_cases Hin; discriminate|].
  rewrite Dc in Hin. destruct (arg 8 cv <? arg 5 bv); [cbn [snd] in Hin; in_cases Hin; discriminate|].
  rewrite Ht in Hin. cbn [Z.eqb Pos.eqb] in Hin.
  destruct (guc_fwd_shape _ _ _ _ _ _ _ _ Hin) as (h & t & Dg & Rm & ->).
  exists h, t. split; [exact Dg|]. split; [exact Rm|].
  assert (Cl' : lpv_conformant (skipn 4 (skipn 12 pkt))) by (rewrite skipn_skipn_nat; exact Cl).
  destruct (guc_head_reencode _ _ (Wsk 12%nat) Cl' Dg) as (Eh & _ & L2 & L9).
  unfold guc_packet, enc_guc.
  rewrite firstn_app_exact by exact L2. rewrite skipn_app_exact by exact L2. rewrite firstn_app_exact by exact L9.
  replace (skipn 11 (firstn 2 h ++ firstn 9 (skipn 2 h) ++ refresh_de t (skipn 11 h))) with (refresh_de t (skipn 11 h)).
  2:{ rewrite app_assoc. rewrite skipn_app_exact; [reflexivity | rewrite app_length; lia]. }
  rewrite (basic_header_rhl_only pkt bv _ W Db Hr8).
  rewrite (common_reencode _ _ (Wsk 4%nat) Cc Dc).
  rewrite <- !app_assoc. f_equal. f_equal.
  rewrite (app_assoc (enc_fields sn_ws (firstn 2 h))). rewrite Eh.
  rewrite !app_assoc. f_equal; [f_equal|].
  - (* firstn 8 (skipn 4 pkt) ++ firstn 28 (skipn 12 pkt) = firstn 36 (skipn 4 pkt) *)
    assert (G : forall (n k : nat) (l : list Z), firstn n l ++ firstn k (skipn n l) = firstn (n + k) l).
    { induction n as [|n IH]; intros k l; cbn [firstn skipn app plus]; [reflexivity|].
      destruct l as [|x l]; [destruct k; reflexivity|]. cbn [firstn skipn app]. f_equal. apply IH. }
    replace (skipn 12 pkt) with (skipn 8 (skipn 4 pkt)) by (rewrite skipn_skipn_nat; reflexivity).
    apply (G 8%nat 28%nat (skipn 4 pkt)).
  - rewrite skipn_skipn_nat. reflexivity.
Qed.

(* when the destination position vector is not refreshed, the forwarded GeoUnicast packet is the plain copy *)
Corollary guc_forward_is_copy m s now g pkt bv cv p h t :
  wf_bytes pkt = true -> (60 <= length pkt)%nat -> dec_basic pkt = Some bv -> dec_common (skipn 4 pkt) = Some cv -> arg 1 cv = 2 ->
  common_conformant (skipn 4 pkt) -> lpv_conformant (skipn 16 pkt) -> spv_conformant (firstn 20 (skipn 40 pkt)) ->
  In (OFwd p) (snd (rx m s now g pkt)) ->
  dec_guc (skipn 12 pkt) = Some h ->
  rx_mh (s_loct s) (firstn 9 (skipn 2 h)) (arg 0 h) now (m_life_ms m) (m_dpl_len m) = Some t ->
  refresh_de t (skipn 11 h) = skipn 11 h ->
  p = firstn 3 pkt ++ [arg 5 bv - 1] ++ skipn 4 pkt.
Proof.
  intros W Len Db Dc Ht Cc Cl Cs Hin Dg Rm Rf.
  assert (Wsk : forall n, wf_bytes (skipn n pkt) = true) by (intros n; apply wf_bytes_skipn; exact W).
  destruct (guc_forward_octets m s now g pkt bv cv p W Db Dc Ht Cc Cl Hin) as (h' & t' & Dg' & Rm' & ->).
  rewrite Dg in Dg'. injection Dg' as <-. rewrite Rm in Rm'. injection Rm' as <-. rewrite Rf.
  assert (Cl' : lpv_conformant (skipn 4 (skipn 12 pkt))) by (rewrite skipn_skipn_nat; exact Cl).
  destruct (guc_head_reencode _ _ (Wsk 12%nat) Cl' Dg) as (_ & Ds & _ & _).
  replace (skipn 28 (skipn 12 pkt)) with (skipn 40 pkt) in Ds by (rewrite skipn_skipn_nat; reflexivity).
  assert (W20 : wf_bytes (firstn 20 (skipn 40 pkt)) = true).
  { specialize (Wsk 40%nat). unfold wf_bytes in *. rewrite forallb_forall in *. intros x Hx. apply Wsk.
    clear - Hx. revert Hx. generalize (skipn 40 pkt) as l. generalize 20%nat as n.
    induction n as [|n IH]; intros l H; [destruct H|]. destruct l as [|y l]; [destruct H|].
    cbn [firstn] in H. destruct H as [H|H]; [left; exact H | right; apply (IH l H)]. }
  rewrite (spv_reencode _ _ W20 Cs Ds).
  rewrite firstn_firstn. change (Nat.min 20 20) with 20%nat.
  f_equal. f_equal.
  assert (G : forall (n k : nat) (l : list Z), firstn n l ++ firstn k (skipn n l) = firstn (n + k) l).
  { induction n as [|n IH]; intros k l; cbn [firstn skipn app plus]; [reflexivity|].
    destruct l as [|x l]; [destruct k; reflexivity|]. cbn [firstn skipn app]. f_equal. apply IH. }
  replace (skipn 40 pkt) with (skipn 36 (skipn 4 pkt)) by (rewrite skipn_skipn_nat; reflexivity).
  replace (skipn 60 pkt) with (skipn 56 (skipn 4 pkt)) by (rewrite skipn_skipn_nat; reflexivity).
  rewrite app_assoc. rewrite (G 36%nat 20%nat (skipn 4 pkt)). apply firstn_skipn.
Qed.
