From FlexVerif Require Import Base.Prelude Base.Interleave Model.Wire Model.LocT Model.Conc Gen.LockSummary Proofs.LocTProofs.
From Coq Require Import ZifyBool.

(* ============ obligations on the regenerated lock summary ========================================= *)
Lemma names_agree :
  (L_sequence_number_lock, L_cbf_lock, L_ls_lock, L_ego_position_vector_lock, L_loc_t_lock,
   L_position_vector_lock, L_tst_lock, L_pdr_lock, L_dpl_lock) = (0, 1, 2, 3, 4, 5, 6, 7, 8) /\
  (F_sequence_number, F_cbf_buffer, F_ls_timers, F_ls_retransmit_counters, F_ls_packet_buffers,
   F_ego_position_vector, F_loc_t, F_position_vector, F_tst, F_pdr, F_dpl_set, F_dpl_deque)
  = (0, 1, 2, 3, 4, 5, 6, 7, 8, 9, 10, 11) /\ TOP_LOCK = L_loc_t_lock.
Proof. repeat split. Qed.

(* every access to a tracked field of every analysed method is inside the critical section of its lock,
   brackets are balanced, nothing is held at the end *)
Lemma summary_well_locked : forallb (wl router_policy []) summary = true.
Proof. vm_compute. reflexivity. Qed.

(* while one lock is held only loc_t_lock is ever acquired *)
Lemma summary_lock_order : forallb (ord TOP_LOCK []) summary = true.
Proof. vm_compute. reflexivity. Qed.

(* read-modify-write of the sequence number is one critical section *)
Lemma sn_section : M_Router_get_sequence_number = [Acq 0; Rd 0; Wr 0; Rd 0; Rel 0].
Proof. reflexivity. Qed.

(* check-and-remove of the CBF buffer on timer expiry, and the discard on a duplicate, are one critical section each *)
Lemma cbf_sections :
  M_Router_cbf_timeout = [Acq 1; Rd 1; Wr 1; Rel 1] /\ M_Router_cbf_discard = [Acq 1; Rd 1; Wr 1; Rel 1].
Proof. split; reflexivity. Qed.

(* ---- threads made of analysed methods ------------------------------------------------------------ *)
Definition from_summary (progs : list (list action)) : Prop :=
  Forall (fun p => exists ms, Forall (fun m => In m summary) ms /\ p = concat ms) progs.

Lemma ord_app top a : forall held b p, wl p held a = true -> ord top held a = true -> ord top [] b = true ->
  ord top held (a ++ b) = true.
Proof.
  induction a as [|x a IH]; intros held b p Hw Ho Hb; cbn [app].
  - cbn in Hw. destruct held; [exact Hb | discriminate].
  - destruct x; cbn [wl ord] in *.
    + apply andb_true_iff in Ho as [E Ho]. rewrite E. cbn. eapply IH; eauto.
    + destruct held as [|h hs]; [discriminate|]. apply andb_true_iff in Hw as [E Hw].
      cbn [remove_one] in *. rewrite E in *. eapply IH; eauto.
    + apply andb_true_iff in Hw as [_ Hw]. eapply IH; eauto.
    + apply andb_true_iff in Hw as [_ Hw]. eapply IH; eauto.
Qed.

Lemma from_summary_checks progs : from_summary progs ->
  forallb (wl router_policy []) progs = true /\ forallb (ord TOP_LOCK []) progs = true.
Proof.
  intros H. pose proof summary_well_locked as W. pose proof summary_lock_order as O.
  rewrite forallb_forall in W, O. unfold from_summary in H. rewrite Forall_forall in H. split.
  - apply forallb_forall. intros p Hp. destruct (H p Hp) as (ms & Hms & ->). rewrite Forall_forall in Hms.
    apply wl_concat. apply forallb_forall. intros m Hm. apply W, Hms, Hm.
  - apply forallb_forall. intros p Hp. destruct (H p Hp) as (ms & Hms & ->). rewrite Forall_forall in Hms.
    clear Hp. induction ms as [|m ms IH]; [reflexivity|]. cbn [concat].
    apply (ord_app TOP_LOCK m [] (concat ms) router_policy).
    + apply W, Hms. left. reflexivity.
    + apply O, Hms. left. reflexivity.
    + apply IH. intros x Hx. apply Hms. right. exact Hx.
Qed.

(* For every pool of threads that call the analysed router / location-table methods in any order and any
   number, in every reachable interleaving: *)
Theorem router_mutual_exclusion progs c : reachable (initial progs) c -> mutex c.
Proof. apply mutex_reachable. Qed.

Theorem router_no_conflicting_access progs c i j ti tj f ri rj l : from_summary progs ->
  reachable (initial progs) c -> nth_error c i = Some ti -> nth_error c j = Some tj -> i <> j ->
  router_write f = Some l -> t_prog ti = Wr f :: ri ->
  (t_prog tj = Wr f :: rj \/ (t_prog tj = Rd f :: rj /\ router_read f = Some l)) -> False.
Proof.
  intros H. destruct (from_summary_checks progs H) as [W _].
  apply (no_conflicting_access router_policy progs c i j ti tj f ri rj l W).
Qed.

Theorem router_deadlock_free progs c : from_summary progs -> reachable (initial progs) c ->
  (exists i t, nth_error c i = Some t /\ t_prog t <> []) -> exists k, enabled c k = true.
Proof.
  intros H. destruct (from_summary_checks progs H) as [W O]. apply (deadlock_free router_policy TOP_LOCK progs c W O).
Qed.

(* ============ sequence numbers ====================================================================== *)
Lemma sn_after_closed k sn : 0 <= sn < 65535 -> sn_after k sn = (sn + Z.of_nat k) mod 65535.
Proof.
  intros Hs. induction k as [|k IH]; cbn [sn_after].
  - rewrite Z.add_0_r. symmetry. apply Z.mod_small. exact Hs.
  - rewrite IH. unfold next_sn. rewrite Z.add_mod_idemp_l by lia. f_equal. lia.
Qed.

Theorem sn_pairwise_distinct sn0 i j : 0 <= sn0 < 65535 -> (i < j)%nat -> Z.of_nat j - Z.of_nat i < 65535 ->
  sn_after i sn0 <> sn_after j sn0.
Proof.
  intros Hs Hij Hd. rewrite !sn_after_closed by exact Hs. intros E.
  assert (D : ((sn0 + Z.of_nat j) - (sn0 + Z.of_nat i)) mod 65535 = 0).
  { rewrite Zminus_mod, E, Z.sub_diag. reflexivity. }
  replace (sn0 + Z.of_nat j - (sn0 + Z.of_nat i)) with (Z.of_nat j - Z.of_nat i) in D by lia.
  rewrite Z.mod_small in D by lia. lia.
Qed.

Theorem sn_returned_nodup n sn0 : 0 <= sn0 < 65535 -> Z.of_nat n <= 65535 -> NoDup (sn_returned n sn0).
Proof.
  intros Hs Hn. unfold sn_returned. apply NoDup_nth with (d := 0). intros i j Hi Hj E.
  rewrite map_length, seq_length in Hi, Hj.
  rewrite !(nth_indep _ 0 (sn_after 0 sn0)) in E by (rewrite map_length, seq_length; assumption).
  rewrite !(map_nth (fun k => sn_after k sn0)) in E. rewrite !seq_nth in E by assumption.
  destruct (Nat.lt_trichotomy i j) as [L|[L|L]]; [|exact L|]; exfalso.
  - apply (sn_pairwise_distinct sn0 (1 + i) (1 + j) Hs); [lia | lia | exact E].
  - apply (sn_pairwise_distinct sn0 (1 + j) (1 + i) Hs); [lia | lia | symmetry; exact E].
Qed.

Lemma sn_in_range k sn : 0 <= sn_after (S k) sn < 65535.
Proof. cbn [sn_after]. unfold next_sn. apply Z.mod_pos_bound. lia. Qed.

(* ============ CBF buffer ============================================================================ *)
Lemma buf_find_remove b k : buf_find (buf_remove b k) k = None.
Proof.
  unfold buf_remove. induction b as [|[k' p] b IH]; cbn; [reflexivity|].
  destruct (list_eqb k' k) eqn:E; cbn; [exact IH|]. rewrite E. exact IH.
Qed.

Lemma buf_find_remove_other b k k' : list_eqb k' k = false -> buf_find (buf_remove b k) k' = buf_find b k'.
Proof.
  intros Hn. unfold buf_remove. induction b as [|[k0 p] b IH]; cbn; [reflexivity|].
  destruct (list_eqb k0 k) eqn:E; cbn.
  - apply list_eqb_eq in E. subst k0.
    assert (X : list_eqb k k' = false).
    { destruct (list_eqb k k') eqn:Y; [|reflexivity]. apply list_eqb_eq in Y. subst. rewrite list_eqb_refl in Hn. discriminate. }
    rewrite X. exact IH.
  - destruct (list_eqb k0 k'); [reflexivity | exact IH].
Qed.

(* the packet sent at a timer expiry is the buffered one, and the key is gone afterwards *)
Theorem cbf_timeout_sends_buffered b k p : snd (cbf_step b (CTimeout k)) = Some p ->
  buf_find b k = Some p /\ buf_find (fst (cbf_step b (CTimeout k))) k = None.
Proof.
  unfold cbf_step. destruct (buf_find b k) as [q|] eqn:F; cbn; [|discriminate].
  intros H. injection H as <-. split; [reflexivity | apply buf_find_remove].
Qed.

(* after a completed cancellation (or a completed timeout) of k nothing is sent for k until k is buffered anew:
   for EVERY sequence of further operations that does not buffer k again *)
Definition rebuffers (k : list Z) (o : cbf_op) : bool := match o with CBuf k' _ => list_eqb k' k | _ => false end.
Definition sends_for (b : list (list Z * list Z)) (k : list Z) (o : cbf_op) : bool :=
  match o with CTimeout k' => list_eqb k' k && match buf_find b k with Some _ => true | None => false end | _ => false end.

Lemma cbf_absent_stays b k ops : buf_find b k = None -> forallb (fun o => negb (rebuffers k o)) ops = true ->
  buf_find (fst (cbf_run b ops)) k = None /\
  Forall (fun x => x = None) (map (fun po => match po with (CTimeout k', Some p) => if list_eqb k' k then Some p else None | _ => None end)
                                (combine ops (snd (cbf_run b ops)))).
Proof.
  revert b. induction ops as [|o ops IH]; intros b Hb Hops; cbn [cbf_run]; [split; [exact Hb | constructor]|].
  cbn [forallb] in Hops. apply andb_true_iff in Hops as [Ho Hops].
  assert (Hb1 : buf_find (fst (cbf_step b o)) k = None /\ (forall k' p, o = CTimeout k' -> snd (cbf_step b o) = Some p -> list_eqb k' k = false)).
  { destruct o as [k' p'|k'|k']; cbn [cbf_step rebuffers] in *.
    - apply negb_true_iff in Ho. destruct (buf_find b k') eqn:F; cbn [fst snd].
      + split; [|intros; discriminate]. rewrite buf_find_remove_other by (destruct (list_eqb k k') eqn:Y; [apply list_eqb_eq in Y; subst; rewrite list_eqb_refl in Ho; discriminate | reflexivity]). exact Hb.
      + split; [|intros; discriminate]. clear IH Hops F. induction b as [|[k0 p0] b IHb]; cbn in *.
        * rewrite Ho. reflexivity.
        * destruct (list_eqb k0 k); [discriminate|]. apply IHb. exact Hb.
    - cbn [fst snd]. split; [|intros; discriminate].
      destruct (list_eqb k k') eqn:Y.
      + apply list_eqb_eq in Y. subst. apply buf_find_remove.
      + rewrite buf_find_remove_other by exact Y. exact Hb.
    - destruct (buf_find b k') as [q|] eqn:F; cbn [fst snd].
      + split.
        * destruct (list_eqb k k') eqn:Y; [apply list_eqb_eq in Y; subst; apply buf_find_remove | rewrite buf_find_remove_other by exact Y; exact Hb].
        * intros k2 p E _. injection E as <-. destruct (list_eqb k' k) eqn:Y; [|reflexivity].
          apply list_eqb_eq in Y. subst. congruence.
      + split; [exact Hb | intros; discriminate]. }
  destruct Hb1 as [Hb1 Hsend].
  destruct (cbf_step b o) as [b1 out] eqn:S. cbn [fst snd] in *.
  destruct (IH b1 Hb1 Hops) as [IH1 IH2]. destruct (cbf_run b1 ops) as [b2 outs]. cbn [fst snd combine map] in *.
  split; [exact IH1|]. constructor; [|exact IH2].
  destruct o as [k' p'|k'|k']; try reflexivity. destruct out as [p|]; [|reflexivity].
  rewrite (Hsend k' p eq_refl eq_refl). reflexivity.
Qed.

Theorem cbf_never_after_cancel b k ops : forallb (fun o => negb (rebuffers k o)) ops = true ->
  let b' := fst (cbf_step b (CCancel k)) in
  Forall (fun x => x = None) (map (fun po => match po with (CTimeout k', Some p) => if list_eqb k' k then Some p else None | _ => None end)
                                (combine ops (snd (cbf_run b' ops)))).
Proof. intros H b'. apply cbf_absent_stays; [apply buf_find_remove | exact H]. Qed.

Theorem cbf_at_most_once b k ops p : snd (cbf_step b (CTimeout k)) = Some p ->
  forallb (fun o => negb (rebuffers k o)) ops = true ->
  let b' := fst (cbf_step b (CTimeout k)) in
  Forall (fun x => x = None) (map (fun po => match po with (CTimeout k', Some p) => if list_eqb k' k then Some p else None | _ => None end)
                                (combine ops (snd (cbf_run b' ops)))).
Proof. intros S H b'. apply cbf_absent_stays; [apply (cbf_timeout_sends_buffered b k p S) | exact H]. Qed.

(* the SECOND cancellation path: a copy of k reaches gn_area_cbf_forwarding while k is still buffered (duplicate packet
   detection did not know it any more: the sequence number had left the ring, or the entry of the source had expired).
   That step hands nothing to the link layer, removes k, and nothing is sent for k afterwards until k is buffered anew *)
Theorem cbf_duplicate_cancels b k p q ops : buf_find b k = Some q ->
  forallb (fun o => negb (rebuffers k o)) ops = true ->
  snd (cbf_step b (CBuf k p)) = None /\
  let b' := fst (cbf_step b (CBuf k p)) in
  buf_find b' k = None /\
  Forall (fun x => x = None) (map (fun po => match po with (CTimeout k', Some p) => if list_eqb k' k then Some p else None | _ => None end)
                                (combine ops (snd (cbf_run b' ops)))).
Proof.
  intros F H. cbn [cbf_step]. rewrite F. cbn [fst snd]. split; [reflexivity|].
  split; [apply buf_find_remove|]. apply cbf_absent_stays; [apply buf_find_remove | exact H].
Qed.

(* in every run a packet reaches the link layer only at a timer expiry, and it is the packet buffered under that key at that
   moment: receptions (first copy or duplicate, whichever cancellation path) and cancellations never transmit *)
Theorem cbf_only_timeout_sends ops : forall b i o p, nth_error ops i = Some o ->
  nth_error (snd (cbf_run b ops)) i = Some (Some p) ->
  exists k, o = CTimeout k /\ buf_find (fst (cbf_run b (firstn i ops))) k = Some p.
Proof.
  induction ops as [|o0 ops IH]; intros b i o p Ho Hp; [destruct i; discriminate|].
  cbn [cbf_run] in Hp. destruct (cbf_step b o0) as [b1 out] eqn:S. destruct (cbf_run b1 ops) as [b2 outs] eqn:R.
  cbn [snd] in Hp. destruct i as [|i]; cbn [nth_error firstn] in *.
  - injection Ho as <-. injection Hp as ->. cbn [cbf_run fst].
    destruct o0 as [k' p'|k'|k']; cbn [cbf_step] in S.
    + destruct (buf_find b k'); injection S as _ X; discriminate.
    + injection S as _ X; discriminate.
    + exists k'. split; [reflexivity|]. destruct (buf_find b k') as [q|]; injection S as _ X; [congruence | discriminate].
  - cbn [cbf_run]. rewrite S. specialize (IH b1 i o p Ho). rewrite R in IH. cbn [snd] in IH.
    destruct (IH Hp) as [k [E Fk]]. exists k. split; [exact E|].
    destruct (cbf_run b1 (firstn i ops)) as [b3 o3]. exact Fk.
Qed.

(* ============ ego position vector ================================================================== *)
(* every value read is the initial vector or one that some write stored *)
Theorem ego_read_was_current ops : forall cur v, In v (ego_run cur ops) ->
  v = cur \/ exists pv, In (EWrite pv) ops /\ v = pv.
Proof.
  induction ops as [|o ops IH]; intros cur v H; cbn in H; [destruct H|].
  destruct o as [pv|].
  - destruct (IH pv v H) as [->|(pv' & Hin & ->)]; right; [exists pv | exists pv']; split; cbn; auto.
  - destruct H as [<-|H]; [left; reflexivity|]. destruct (IH cur v H) as [->|(pv' & Hin & ->)]; [left; reflexivity|].
    right. exists pv'. split; [right; exact Hin | reflexivity].
Qed.

(* more precisely: a read returns the latest write that completed before it *)
Theorem ego_read_returns_latest pre post cur pv :
  ego_run cur (pre ++ EWrite pv :: ERead :: post) = ego_run cur (pre ++ [EWrite pv]) ++ pv :: ego_run pv post.
Proof.
  revert cur. induction pre as [|o pre IH]; intros cur; cbn [app ego_run].
  - reflexivity.
  - destruct o; [apply IH | rewrite IH; reflexivity].
Qed.

(* ============ location service buffer ================================================================= *)
(* every request is in exactly one batch (flushed after the reply, dropped after the final retry, or
   overwritten by a restarted lookup) or still waiting - in request order, for EVERY order of operations *)
Theorem ls_conservation ops : forall s,
  buffered s ++ issued ops = flat_map batch (snd (ls_run1 s ops)) ++ buffered (fst (ls_run1 s ops)).
Proof.
  induction ops as [|o ops IH]; intros s; cbn [ls_run1 issued flat_map].
  - cbn. rewrite app_nil_r. reflexivity.
  - destruct (ls_step1 s o) as [s1 out] eqn:S. specialize (IH s1).
    destruct (ls_run1 s1 ops) as [s2 outs]. cbn [fst snd flat_map] in *.
    assert (K : buffered s ++ match o with LReq r => [r] | _ => [] end = batch out ++ buffered s1).
    { destruct s as [[[p c] b]|]; destruct o as [r| |mx|]; cbn in S;
        repeat match type of S with
               | context [if ?x then _ else _] => destruct x
               | context [match ?x with _ => _ end] => destruct x
               end;
        injection S as <- <-; cbn; rewrite ?app_nil_r; reflexivity. }
    unfold issued in IH. rewrite app_assoc, K, <- app_assoc, IH, app_assoc. reflexivity.
Qed.

(* without a vanished placeholder nothing is ever overwritten: sent exactly once after the reply or dropped
   after the final retry *)
Theorem ls_no_overwrite ops : forall s, forallb (fun o => match o with LForget => false | _ => true end) ops = true ->
  match s with Some (false, _, _) => False | _ => True end ->
  Forall (fun o => match o with LOverwritten _ => False | _ => True end) (snd (ls_run1 s ops)).
Proof.
  induction ops as [|o ops IH]; intros s H Hs; cbn [ls_run1]; [constructor|].
  cbn [forallb] in H. apply andb_true_iff in H as [Ho H].
  destruct (ls_step1 s o) as [s1 out] eqn:S.
  assert (K : match s1 with Some (false, _, _) => False | _ => True end /\ match out with LOverwritten _ => False | _ => True end).
  { destruct s as [[[p c] b]|]; destruct o as [r| |mx|]; cbn in S; try discriminate;
      try (destruct p; [|contradiction]);
      repeat match type of S with
             | context [if ?x then _ else _] => destruct x
             end;
      injection S as <- <-; cbn; auto. }
  destruct K as [K1 K2]. specialize (IH s1 H K1). destruct (ls_run1 s1 ops) as [s2 outs]. cbn [snd] in *.
  constructor; assumption.
Qed.
