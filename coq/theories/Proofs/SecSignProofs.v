(* C05: honestly signed messages are accepted; signing profiles; the peer-to-peer
   certificate request brings a late joiner in within two further exchanges.
   Builds on Proofs/SecProofs.v. The only assumption is completeness of the signature
   oracle for the sign oracle (Section hypotheses sign_verifies / sign_nonzero). *)
From FlexVerif Require Import Base.Prelude Model.Sec Model.SecSpec Proofs.SecProofs.

Set Default Proof Using "Type".
Section SecSignProofs.
Variable hash8 : cert -> Z.
Variable sig_ok : Z -> Z -> Z -> bool.
Variable sign : Z -> Z -> Z.
Variable enc_tbs : tbsdata -> Z.

Hypothesis sign_verifies : forall k t, sig_ok k t (sign k t) = true.
Hypothesis sign_nonzero : forall k t, sign k t <> 0.

Notation cert_verify := (Sec.cert_verify hash8 sig_ok).
Notation get_issuer := (Sec.get_issuer hash8).
Notation find_key := (Sec.find_key hash8).
Notation key_of := (Sec.key_of hash8).
Notation add_aa := (Sec.add_aa hash8 sig_ok).
Notation add_at := (Sec.add_at hash8 sig_ok).
Notation verify_chain1 := (Sec.verify_chain1 hash8 sig_ok).
Notation verify_with_ticket := (Sec.verify_with_ticket hash8 sig_ok).
Notation after_success := (Sec.after_success hash8 sig_ok).
Notation notify_received := (Sec.notify_received hash8 sig_ok).
Notation notify_inline := (Sec.notify_inline hash8).
Notation header_checks := (Sec.header_checks hash8).
Notation verify_msg := (Sec.verify_msg hash8 sig_ok).
Notation sign_cam := (Sec.sign_cam hash8 sign enc_tbs).
Notation sign_denm := (Sec.sign_denm sign enc_tbs).
Notation sign_other := (Sec.sign_other hash8 sign enc_tbs).
Notation mk_signed := (Sec.mk_signed sign enc_tbs).
Notation ca_by_h3 := (Sec.ca_by_h3 hash8).
Notation step := (Sec.step hash8 sig_ok sign enc_tbs).
Notation net_step := (Sec.net_step hash8 sig_ok sign enc_tbs).
Notation knows := (SecSpec.knows hash8 sig_ok).
Notation can_learn := (SecSpec.can_learn hash8 sig_ok).
Notation receiver_ready := (SecSpec.receiver_ready hash8 sig_ok).

(* ---------- acceptance of an honestly signed message ----------------------- *)
Lemma cert_verify_none_issuer c : cert_verify c None <> None.
Proof.
  unfold Sec.cert_verify. destruct (negb (ctype_ok c)); [discriminate|].
  destruct (cissuer c); discriminate.
Qed.

Lemma add_aa_no_crash st c : not_other c -> snd (add_aa st c None) = false.
Proof.
  intros Hn. unfold Sec.add_aa. destruct (Sec.mem_key hash8 (hash8 c) (aas st)); [reflexivity|].
  unfold Sec.get_issuer. destruct (cissuer c) as [| |d|d] eqn:Ei; try reflexivity.
  - destruct (find_key d (roots st)); [|destruct (find_key d (aas st)); [|reflexivity]];
    (pose proof (cert_verify_none_issuer c) as Hc; destruct (cert_verify c None) as [[|]|]; [reflexivity|reflexivity|contradiction]).
  - exfalso. exact (Hn d Ei).
Qed.

Lemma after_success_code sn c t :
  (forall rc, t_reqcert t = Some rc -> not_other rc) ->
  snd (after_success sn c t) = RVerify R_SUCCESS (hash8 c) (t_payload t).
Proof.
  intros Hrc. unfold Sec.after_success.
  set (sn1 := match t_inline t with Some l => _ | None => sn end).
  destruct (t_reqcert t) as [rc|] eqn:E; [|reflexivity].
  unfold Sec.notify_received.
  pose proof (add_aa_no_crash (st_store sn1) rc (Hrc rc eq_refl)) as H.
  destruct (add_aa (st_store sn1) rc None) as [st' cr]. cbn in H. subst cr. reflexivity.
Qed.

Lemma after_success_no_reqcert sn c t :
  t_reqcert t = None ->
  after_success sn c t =
  (match t_inline t with
   | Some l => mkStation (st_store sn) (notify_inline (st_store sn) (st_sign sn) l)
   | None => sn
   end, RVerify R_SUCCESS (hash8 c) (t_payload t)).
Proof. intros H. unfold Sec.after_success. rewrite H. reflexivity. Qed.

Lemma verify_with_ticket_honest sn e c sg t :
  e_cert e = c -> cert_verify c (e_iss e) = Some true -> usable c ->
  header_checks c t = None -> t_payload t <> 0 ->
  verify_with_ticket sn e (mk_signed c sg t) = after_success sn c t.
Proof using sign_verifies sign_nonzero.
  intros He Hv (Hat & Hk) Hh Hp. unfold Sec.verify_with_ticket. rewrite He, Hv, Hat. cbn [negb].
  unfold Sec.mk_signed. cbn [m_tbsd m_sig m_tbs]. rewrite Hh.
  destruct (sign (ckey c) (enc_tbs t) =? 0) eqn:E1; [apply Z.eqb_eq in E1; exfalso; exact (sign_nonzero _ _ E1)|].
  destruct (ckey c =? 0) eqn:E2; [apply Z.eqb_eq in E2; contradiction|]. cbn [orb].
  rewrite sign_verifies.
  destruct (t_payload t =? 0) eqn:E3; [apply Z.eqb_eq in E3; contradiction|]. reflexivity.
Qed.

(* digest-signed, ticket known *)
Lemma verify_digest_known sn c t :
  knows (st_store sn) c -> usable c -> header_checks c t = None -> t_payload t <> 0 -> t_psid t <> 37 ->
  verify_msg sn (mk_signed c (SDigest (hash8 c)) t) = after_success sn c t.
Proof using sign_verifies sign_nonzero.
  intros (e & Hf & He & Hv) Hu Hh Hp H37. unfold Sec.verify_msg. cbn [Sec.mk_signed m_ok m_signer m_tbsd negb].
  destruct (t_psid t =? 37) eqn:E; [apply Z.eqb_eq in E; contradiction|].
  rewrite Hf. apply verify_with_ticket_honest; assumption.
Qed.

(* certificate-signed: ticket known, or learnt from the message *)
Definition store_after_learning (st : store) (c : cert) (ie : entry) : store :=
  set_ats st (ats st ++ [mkEntry c (Some (e_cert ie))]).

Lemma verify_cert_known sn c t :
  knows (st_store sn) c -> usable c -> header_checks c t = None -> t_payload t <> 0 ->
  verify_msg sn (mk_signed c (SCerts [c]) t) =
  after_success (mkStation (st_store sn) (notify_known (st_sign sn) (hash8 c))) c t.
Proof using sign_verifies sign_nonzero.
  intros (e & Hf & He & Hv) Hu Hh Hp. unfold Sec.verify_msg. cbn [Sec.mk_signed m_ok m_signer m_tbsd negb Sec.verify_chain].
  unfold Sec.verify_chain1. rewrite Hf.
  replace (Sec.key_of hash8 e) with (hash8 c) by (unfold Sec.key_of; rewrite He; reflexivity).
  apply verify_with_ticket_honest; assumption.
Qed.

Lemma verify_cert_learn sn c t :
  can_learn (st_store sn) c -> usable c -> header_checks c t = None -> t_payload t <> 0 ->
  exists ie, get_issuer (st_store sn) c = LFound ie /\
  verify_msg sn (mk_signed c (SCerts [c]) t) =
  after_success (mkStation (store_after_learning (st_store sn) c ie) (notify_known (st_sign sn) (hash8 c))) c t.
Proof using sign_verifies sign_nonzero.
  intros (Hf & ie & Hg & Hv) Hu Hh Hp. exists ie. split; [exact Hg|].
  unfold Sec.verify_msg. cbn [Sec.mk_signed m_ok m_signer m_tbsd negb Sec.verify_chain].
  unfold Sec.verify_chain1. rewrite Hf, Hg, Hv. unfold Sec.add_at.
  rewrite (find_key_none hash8 _ _ Hf), Hg, Hv. cbn [Sec.key_of e_cert].
  apply verify_with_ticket_honest; try assumption; reflexivity.
Qed.

(* the common consequence: SUCCESS with the payload unchanged *)
Lemma accepted_cert sn c t :
  knows (st_store sn) c \/ can_learn (st_store sn) c -> usable c ->
  header_checks c t = None -> t_payload t <> 0 ->
  (forall rc, t_reqcert t = Some rc -> not_other rc) ->
  snd (verify_msg sn (mk_signed c (SCerts [c]) t)) = RVerify R_SUCCESS (hash8 c) (t_payload t).
Proof using sign_verifies sign_nonzero.
  intros [Hk|Hl] Hu Hh Hp Hrc.
  - rewrite verify_cert_known by assumption. apply after_success_code. exact Hrc.
  - destruct (verify_cert_learn sn c t Hl Hu Hh Hp) as (ie & _ & ->). apply after_success_code. exact Hrc.
Qed.

Lemma accepted_digest sn c t :
  knows (st_store sn) c -> usable c -> header_checks c t = None -> t_payload t <> 0 -> t_psid t <> 37 ->
  (forall rc, t_reqcert t = Some rc -> not_other rc) ->
  snd (verify_msg sn (mk_signed c (SDigest (hash8 c)) t)) = RVerify R_SUCCESS (hash8 c) (t_payload t).
Proof using sign_verifies sign_nonzero.
  intros Hk Hu Hh Hp H37 Hrc. rewrite verify_digest_known by assumption. apply after_success_code. exact Hrc.
Qed.

(* header tests pass for the three profiles *)
Lemma header_ok_plain c psid gen payload inl rc :
  authorizes c psid = true -> valid_at c gen = true -> psid <> 37 ->
  header_checks c (tbs_plain psid gen payload false inl rc) = None.
Proof.
  intros Ha Hv Hp. unfold Sec.header_checks, tbs_plain. cbn.
  destruct (psid =? 37) eqn:E; [apply Z.eqb_eq in E; contradiction|]. cbn. rewrite Ha, Hv. reflexivity.
Qed.

Lemma header_ok_denm c psid gen payload :
  authorizes c psid = true -> valid_at c gen = true ->
  header_checks c (tbs_plain psid gen payload true None None) = None.
Proof.
  intros Ha Hv. unfold Sec.header_checks, tbs_plain, denm_forbidden. cbn.
  rewrite andb_false_r. rewrite Ha, Hv. reflexivity.
Qed.

Lemma present_at_spec st psid e : present_at st psid = Some e -> In e (owns st) /\ authorizes (e_cert e) psid = true.
Proof. unfold present_at. intros H. apply find_some in H. exact H. Qed.

(* ---------- what sign_cam / sign_denm / sign_other produce ------------------ *)
(* pending CA certificate request served by this CAM: (rest of the queue, certificate) *)
Definition served (st : store) (ss : sstate) (req' : list Z) (rc : option cert) : Prop :=
  (requested ss = [] /\ req' = [] /\ rc = None) \/
  (exists h x, requested ss = h :: req' /\ ca_by_h3 st h = Some x /\ rc = Some (e_cert x)).

Lemma sign_cam_spec sn now psid gen payload sn' m :
  sign_cam sn now psid gen payload = (sn', RMsg m) ->
  exists e req' rc,
    present_at (st_store sn) psid = Some e /\ served (st_store sn) (st_sign sn) req' rc /\
    let c := e_cert e in
    let t := tbs_plain psid gen payload false (inline_of (st_sign sn)) rc in
    (full_cert_due (st_sign sn) now = true /\ m = mk_signed c (SCerts [c]) t /\
     sn' = mkStation (st_store sn) (mkSS (unknown (st_sign sn)) req' now false))
    \/
    (full_cert_due (st_sign sn) now = false /\ m = mk_signed c (SDigest (hash8 c)) t /\
     sn' = mkStation (st_store sn) (mkSS (unknown (st_sign sn)) req' (last_full (st_sign sn)) (req_own (st_sign sn)))).
Proof.
  unfold Sec.sign_cam, served, inline_of, tbs_plain.
  destruct (requested (st_sign sn)) as [|h r] eqn:Rq.
  - destruct (present_at (st_store sn) psid) as [e|] eqn:Pa; [|discriminate].
    destruct (full_cert_due (st_sign sn) now) eqn:Fd; intros H; injection H as <- <-.
    + exists e, (@nil Z), (@None cert). split. { reflexivity. }
      split. { left. split. { reflexivity. } split; reflexivity. }
      left. split. { reflexivity. } split; reflexivity.
    + exists e, (@nil Z), (@None cert). split. { reflexivity. }
      split. { left. split. { reflexivity. } split; reflexivity. }
      right. split. { reflexivity. } split; reflexivity.
  - destruct (ca_by_h3 (st_store sn) h) as [x|] eqn:Ca; [|discriminate].
    destruct (present_at (st_store sn) psid) as [e|] eqn:Pa; [|discriminate].
    destruct (full_cert_due (st_sign sn) now) eqn:Fd; intros H; injection H as <- <-.
    + exists e, r, (Some (e_cert x)). split. { reflexivity. }
      split. { right. exists h, x. split. { reflexivity. } split. { exact Ca. } reflexivity. }
      left. split. { reflexivity. } split; reflexivity.
    + exists e, r, (Some (e_cert x)). split. { reflexivity. }
      split. { right. exists h, x. split. { reflexivity. } split. { exact Ca. } reflexivity. }
      right. split. { reflexivity. } split; reflexivity.
Qed.

(* C05: the CAM / VAM signer rule of TS 103 097 clause 7.1.1 *)
Lemma cam_signer_rule sn now psid gen payload sn' m :
  sign_cam sn now psid gen payload = (sn', RMsg m) ->
  exists c, (exists e, present_at (st_store sn) psid = Some e /\ e_cert e = c) /\
  ((one_second < now - last_full (st_sign sn) \/ req_own (st_sign sn) = true) ->
     m_signer m = SCerts [c] /\ last_full (st_sign sn') = now /\ req_own (st_sign sn') = false) /\
  (~ (one_second < now - last_full (st_sign sn) \/ req_own (st_sign sn) = true) ->
     m_signer m = SDigest (hash8 c) /\ last_full (st_sign sn') = last_full (st_sign sn) /\
     req_own (st_sign sn') = req_own (st_sign sn)).
Proof.
  intros H. apply sign_cam_spec in H. destruct H as (e & req' & rc & Pa & _ & H).
  exists (e_cert e). split; [exists e; split; [exact Pa|reflexivity]|].
  assert (D : full_cert_due (st_sign sn) now = true <->
              (one_second < now - last_full (st_sign sn) \/ req_own (st_sign sn) = true)).
  { unfold full_cert_due. rewrite orb_true_iff, Z.ltb_lt. reflexivity. }
  destruct H as [(Fd & -> & ->)|(Fd & -> & ->)]; cbn.
  - split; [intros _; repeat split; reflexivity|]. intros N. exfalso. apply N. apply D. exact Fd.
  - split; [|intros _; repeat split; reflexivity]. intros Y. apply D in Y. congruence.
Qed.

(* C05: header fields of the three profiles *)
Lemma cam_header_profile sn now psid gen payload sn' m :
  sign_cam sn now psid gen payload = (sn', RMsg m) ->
  let t := m_tbsd m in
  t_psid t = psid /\ t_gen t = Some gen /\ t_payload t = payload /\
  t_genloc t = false /\ t_learn t = false /\ t_crl t = false /\ t_expiry t = false /\ t_enckey t = false /\
  t_inline t = inline_of (st_sign sn) /\
  (requested (st_sign sn) = [] -> t_reqcert t = None) /\
  (forall h r, requested (st_sign sn) = h :: r ->
     exists x, ca_by_h3 (st_store sn) h = Some x /\ t_reqcert t = Some (e_cert x) /\ requested (st_sign sn') = r).
Proof.
  intros H. apply sign_cam_spec in H. destruct H as (e & req' & rc & _ & Sv & H).
  assert (E : m_tbsd m = tbs_plain psid gen payload false (inline_of (st_sign sn)) rc /\
              requested (st_sign sn') = req').
  { destruct H as [(_ & -> & ->)|(_ & -> & ->)]; split; reflexivity. }
  destruct E as [E1 E2]. cbv zeta. rewrite E1. unfold tbs_plain. cbn.
  repeat split; try reflexivity.
  - intros Rq. destruct Sv as [(_ & _ & ->)|(h & x & Rq' & _)]; [reflexivity|congruence].
  - intros h r Rq. destruct Sv as [(Rq' & _)|(h' & x & Rq' & Ca & ->)]; [congruence|].
    rewrite Rq in Rq'. injection Rq' as <- <-. exists x. repeat split; assumption.
Qed.

Lemma denm_always_certificate sn psid gen payload sn' m :
  sign_denm sn psid gen payload = (sn', RMsg m) ->
  sn' = sn /\
  exists e, present_at (st_store sn) psid = Some e /\
    m = mk_signed (e_cert e) (SCerts [e_cert e]) (tbs_plain psid gen payload true None None).
Proof.
  unfold Sec.sign_denm. destruct (present_at (st_store sn) psid) as [e|]; [|discriminate].
  intros H. injection H as <- <-. split; [reflexivity|]. exists e. split; reflexivity.
Qed.

Lemma other_profile sn psid gen payload sn' m :
  sign_other sn psid gen payload = (sn', RMsg m) ->
  sn' = sn /\
  exists e, present_at (st_store sn) psid = Some e /\
    m = mk_signed (e_cert e) (SDigest (hash8 (e_cert e))) (tbs_plain psid gen payload false None None).
Proof.
  unfold Sec.sign_other. destruct (present_at (st_store sn) psid) as [e|]; [|discriminate].
  intros H. injection H as <- <-. split; [reflexivity|]. exists e. split; reflexivity.
Qed.

(* ---------- C05: sign then verify ------------------------------------------ *)
Lemma served_not_other st ss req' rc : ca_wf st -> served st ss req' rc -> forall x, rc = Some x -> not_other x.
Proof.
  intros Hw [(_ & _ & ->)|(h & e & _ & Ca & ->)] x E; [discriminate|]. injection E as <-.
  apply Hw. unfold Sec.ca_by_h3 in Ca.
  destruct (find (fun e0 => h3 (Sec.key_of hash8 e0) =? h) (aas st)) eqn:F.
  - injection Ca as <-. left. apply find_some in F. tauto.
  - right. apply find_some in Ca. tauto.
Qed.

Lemma sign_then_verify_cam S R now psid gen payload S' m :
  sign_cam S now psid gen payload = (S', RMsg m) ->
  ca_wf (st_store S) -> psid <> 37 -> payload <> 0 ->
  forall c, (exists e, present_at (st_store S) psid = Some e /\ e_cert e = c) ->
  usable c -> valid_at c gen = true -> receiver_ready (st_store R) c (m_signer m) ->
  snd (verify_msg R m) = RVerify R_SUCCESS (hash8 c) payload.
Proof using sign_verifies sign_nonzero.
  intros H Hw H37 Hp c (e0 & Pa0 & Ec) Hu Hv Hr.
  apply sign_cam_spec in H. destruct H as (e & req' & rc & Pa & Sv & H).
  rewrite Pa0 in Pa. injection Pa as <-. rewrite Ec in H. cbv zeta in H.
  pose proof (present_at_spec _ _ _ Pa0) as [_ Hau]. rewrite Ec in Hau.
  pose proof (header_ok_plain c psid gen payload (inline_of (st_sign S)) rc Hau Hv H37) as Hh.
  pose proof (served_not_other _ _ _ _ Hw Sv) as Hrc.
  assert (Hrc' : forall x, t_reqcert (tbs_plain psid gen payload false (inline_of (st_sign S)) rc) = Some x -> not_other x)
    by (intros x Hx; apply Hrc; exact Hx).
  destruct H as [(_ & -> & _)|(_ & -> & _)]; cbn [Sec.mk_signed m_signer] in Hr.
  - replace payload with (t_payload (tbs_plain psid gen payload false (inline_of (st_sign S)) rc)) at 2 by reflexivity.
    apply accepted_cert; try assumption. destruct Hr as [Hk|[Hl _]]; [left|right]; assumption.
  - replace payload with (t_payload (tbs_plain psid gen payload false (inline_of (st_sign S)) rc)) at 2 by reflexivity.
    apply accepted_digest; try assumption. destruct Hr as [Hk|[_ Hs]]; [exact Hk|discriminate].
Qed.

Lemma sign_then_verify_denm S R psid gen payload S' m :
  sign_denm S psid gen payload = (S', RMsg m) -> payload <> 0 ->
  forall c, (exists e, present_at (st_store S) psid = Some e /\ e_cert e = c) ->
  usable c -> valid_at c gen = true -> knows (st_store R) c \/ can_learn (st_store R) c ->
  snd (verify_msg R m) = RVerify R_SUCCESS (hash8 c) payload.
Proof using sign_verifies sign_nonzero.
  intros H Hp c (e0 & Pa0 & Ec) Hu Hv Hr.
  apply denm_always_certificate in H. destruct H as (_ & e & Pa & ->).
  rewrite Pa0 in Pa. injection Pa as <-. rewrite Ec.
  pose proof (present_at_spec _ _ _ Pa0) as [_ Hau]. rewrite Ec in Hau.
  replace payload with (t_payload (tbs_plain psid gen payload true None None)) at 2 by reflexivity.
  apply accepted_cert; try assumption.
  - apply header_ok_denm; assumption.
  - intros rc Hrc. discriminate.
Qed.

Lemma sign_then_verify_other S R psid gen payload S' m :
  sign_other S psid gen payload = (S', RMsg m) -> psid <> 37 -> payload <> 0 ->
  forall c, (exists e, present_at (st_store S) psid = Some e /\ e_cert e = c) ->
  usable c -> valid_at c gen = true -> knows (st_store R) c ->
  snd (verify_msg R m) = RVerify R_SUCCESS (hash8 c) payload.
Proof using sign_verifies sign_nonzero.
  intros H H37 Hp c (e0 & Pa0 & Ec) Hu Hv Hr.
  apply other_profile in H. destruct H as (_ & e & Pa & ->).
  rewrite Pa0 in Pa. injection Pa as <-. rewrite Ec.
  pose proof (present_at_spec _ _ _ Pa0) as [_ Hau]. rewrite Ec in Hau.
  replace payload with (t_payload (tbs_plain psid gen payload false None None)) at 2 by reflexivity.
  apply accepted_digest; try assumption.
  - apply header_ok_plain; assumption.
  - intros rc Hrc. discriminate.
Qed.

(* the generic profile signs with the digest: a receiver that does not know the ticket
   reports SIGNER_CERTIFICATE_NOT_FOUND and notes the ticket for its next P2PCD request *)
Lemma other_unknown_not_found S R psid gen payload S' m :
  sign_other S psid gen payload = (S', RMsg m) -> psid <> 37 ->
  forall c, (exists e, present_at (st_store S) psid = Some e /\ e_cert e = c) ->
  find_key (hash8 c) (ats (st_store R)) = None ->
  verify_msg R m = (mkStation (st_store R) (notify_unknown (st_sign R) (hash8 c)), RVerify R_SIGNER_NOT_FOUND 0 0).
Proof.
  intros H H37 c (e0 & Pa0 & Ec) Hf.
  apply other_profile in H. destruct H as (_ & e & Pa & ->).
  rewrite Pa0 in Pa. injection Pa as <-. rewrite Ec.
  unfold Sec.verify_msg. cbn. destruct (psid =? 37) eqn:E; [apply Z.eqb_eq in E; contradiction|].
  rewrite Hf. reflexivity.
Qed.

(* ---------- C05: late joiner ------------------------------------------------ *)
Lemma sign_cam_simple sn now psid gen payload e :
  requested (st_sign sn) = [] -> present_at (st_store sn) psid = Some e ->
  sign_cam sn now psid gen payload =
  if full_cert_due (st_sign sn) now
  then (mkStation (st_store sn) (mkSS (unknown (st_sign sn)) [] now false),
        RMsg (mk_signed (e_cert e) (SCerts [e_cert e])
                (tbs_plain psid gen payload false (inline_of (st_sign sn)) None)))
  else (mkStation (st_store sn) (mkSS (unknown (st_sign sn)) [] (last_full (st_sign sn)) (req_own (st_sign sn))),
        RMsg (mk_signed (e_cert e) (SDigest (hash8 (e_cert e)))
                (tbs_plain psid gen payload false (inline_of (st_sign sn)) None))).
Proof.
  intros Rq Pa. unfold Sec.sign_cam. rewrite Rq, Pa.
  destruct (full_cert_due (st_sign sn) now); reflexivity.
Qed.

Definition resolvable (st : store) (l : list Z) : Prop := forall h, In h l -> ca_by_h3 st h <> None.

Lemma sign_cam_due sn now psid gen payload e :
  resolvable (st_store sn) (requested (st_sign sn)) ->
  present_at (st_store sn) psid = Some e -> full_cert_due (st_sign sn) now = true ->
  exists rc sn',
    sign_cam sn now psid gen payload =
      (sn', RMsg (mk_signed (e_cert e) (SCerts [e_cert e])
                    (tbs_plain psid gen payload false (inline_of (st_sign sn)) rc))) /\
    st_store sn' = st_store sn /\
    (forall x, rc = Some x -> exists en, (In en (aas (st_store sn)) \/ In en (roots (st_store sn))) /\ x = e_cert en).
Proof.
  intros Hres Pa Fd. unfold Sec.sign_cam.
  destruct (requested (st_sign sn)) as [|h r] eqn:Rq.
  - rewrite Pa, Fd. exists None. eexists. split; [reflexivity|]. split; [reflexivity|]. intros x Hx. discriminate.
  - destruct (ca_by_h3 (st_store sn) h) as [en|] eqn:Ca.
    + rewrite Pa, Fd. exists (Some (e_cert en)). eexists. split; [reflexivity|]. split; [reflexivity|].
      intros x Hx. injection Hx as <-. exists en. split; [|reflexivity].
      unfold Sec.ca_by_h3 in Ca.
      destruct (find (fun e0 => h3 (Sec.key_of hash8 e0) =? h) (aas (st_store sn))) eqn:F.
      * injection Ca as <-. left. apply find_some in F. destruct F as [F _]. exact F.
      * right. apply find_some in Ca. destruct Ca as [Ca _]. exact Ca.
    + exfalso. apply (Hres h); [left; reflexivity|exact Ca].
Qed.

Lemma notify_inline_resolvable st ss l :
  resolvable st (requested ss) -> resolvable st (requested (notify_inline st ss l)).
Proof.
  unfold Sec.notify_inline. cbn [requested]. generalize (requested ss) as acc.
  induction l as [|h r IH]; intros acc Hacc; cbn [fold_left]; [exact Hacc|].
  apply IH. destruct (ca_by_h3 st h) eqn:Ca; [|exact Hacc].
  destruct (zmem h acc); [exact Hacc|].
  intros x Hx. apply in_app_or in Hx. destruct Hx as [Hx|[<-|[]]]; [auto|]. rewrite Ca. discriminate.
Qed.

Lemma notify_inline_own_asked st ss l e :
  In e (owns st) -> zmem (h3 (key_of e)) l = true -> req_own (notify_inline st ss l) = true.
Proof.
  intros Hin Hz. unfold Sec.notify_inline. cbn [req_own]. apply orb_true_iff. right.
  apply existsb_exists. exists e. split; assumption.
Qed.

Lemma zmem_after_notify_unknown ss d : zmem (h3 d) (unknown (notify_unknown ss d)) = true.
Proof.
  unfold notify_unknown. cbn [unknown]. destruct (zmem (h3 d) (unknown ss)) eqn:E; [exact E|].
  apply (zmem_In (h3 d)). apply in_or_app. right. left. reflexivity.
Qed.

Lemma inline_of_after_notify_unknown ss d :
  exists l, inline_of (notify_unknown ss d) = Some l /\ l = unknown (notify_unknown ss d).
Proof.
  unfold inline_of. pose proof (zmem_after_notify_unknown ss d) as H.
  destruct (unknown (notify_unknown ss d)) as [|z l] eqn:E; [discriminate|]. exists (z :: l). split; reflexivity.
Qed.

Lemma knows_or_learn_store st c :
  knows st c \/ can_learn st c ->
  forall sn, st_store sn = st -> usable c ->
  forall t, header_checks c t = None -> t_payload t <> 0 -> t_reqcert t = None ->
  exists stx,
    owns stx = owns st /\ aas stx = aas st /\ roots stx = roots st /\
    verify_msg sn (mk_signed c (SCerts [c]) t) =
      (match t_inline t with
       | Some l => mkStation stx (notify_inline stx (notify_known (st_sign sn) (hash8 c)) l)
       | None => mkStation stx (notify_known (st_sign sn) (hash8 c))
       end, RVerify R_SUCCESS (hash8 c) (t_payload t)).
Proof using sign_verifies sign_nonzero.
  intros [Hk|Hl] sn <- Hu t Hh Hp Hrc.
  - exists (st_store sn). repeat split; try reflexivity.
    rewrite verify_cert_known by assumption. rewrite after_success_no_reqcert by exact Hrc. reflexivity.
  - destruct (verify_cert_learn sn c t Hl Hu Hh Hp) as (ie & _ & ->).
    exists (store_after_learning (st_store sn) c ie). repeat split; try reflexivity.
    rewrite after_success_no_reqcert by exact Hrc. reflexivity.
Qed.

(* Two stations S (sender, any state of its certificate-inclusion timer and request flag)
   and J (late joiner: knows root and AA so that it can learn S's ticket, but not the ticket).
   S sends a CAM; J sends its next CAM; S sends its next CAM. Either J accepts S's first CAM
   at once (it carried the certificate), or it reports SIGNER_CERTIFICATE_NOT_FOUND, S accepts
   J's CAM (first further exchange) and J accepts S's next CAM (second further exchange). *)
Lemma late_joiner_two_exchanges S J eS eJ t1 t2 t3 g1 g2 g3 p1 p2 p3 :
  present_at (st_store S) 36 = Some eS -> usable (e_cert eS) ->
  present_at (st_store J) 36 = Some eJ -> usable (e_cert eJ) ->
  can_learn (st_store J) (e_cert eS) ->
  knows (st_store S) (e_cert eJ) \/ can_learn (st_store S) (e_cert eJ) ->
  requested (st_sign S) = [] -> requested (st_sign J) = [] -> ca_wf (st_store S) ->
  valid_at (e_cert eS) g1 = true -> valid_at (e_cert eJ) g2 = true -> valid_at (e_cert eS) g3 = true ->
  p1 <> 0 -> p2 <> 0 -> p3 <> 0 ->
  forall net1 r1 rs1 net2 r2 rs2 net3 r3 rs3,
    net_step [S; J] 0 (OSignCam t1 36 g1 p1) [1%nat] = (net1, (r1, rs1)) ->
    net_step net1 1 (OSignCam t2 36 g2 p2) [0%nat] = (net2, (r2, rs2)) ->
    net_step net2 0 (OSignCam t3 36 g3 p3) [1%nat] = (net3, (r3, rs3)) ->
    rs1 = [RVerify R_SUCCESS (hash8 (e_cert eS)) p1] \/
    (rs1 = [RVerify R_SIGNER_NOT_FOUND 0 0] /\
     rs2 = [RVerify R_SUCCESS (hash8 (e_cert eJ)) p2] /\
     rs3 = [RVerify R_SUCCESS (hash8 (e_cert eS)) p3]).
Proof using sign_verifies sign_nonzero.
  intros PaS UsS PaJ UsJ LearnJ ReadyS RqS RqJ Wf V1 V2 V3 P1 P2 P3 net1 r1 rs1 net2 r2 rs2 net3 r3 rs3 H1 H2 H3.
  set (cS := e_cert eS) in *. set (cJ := e_cert eJ) in *.
  pose proof (present_at_spec _ _ _ PaS) as [InS AuS]. pose proof (present_at_spec _ _ _ PaJ) as [InJ AuJ].
  fold cS in AuS. fold cJ in AuJ.
  assert (N37 : 36 <> 37) by discriminate.
  (* ---- S's first CAM *)
  unfold Sec.net_step in H1. cbn [nth_error Sec.step] in H1.
  rewrite (sign_cam_simple S t1 36 g1 p1 eS RqS PaS) in H1. fold cS in H1.
  destruct (full_cert_due (st_sign S) t1) eqn:Fd1.
  - (* it carried the certificate: accepted at once *)
    left. cbn [Sec.update Sec.deliver_all Sec.deliver_to nth_error] in H1.
    set (t := tbs_plain 36 g1 p1 false (inline_of (st_sign S)) None) in *.
    pose proof (accepted_cert J cS t (or_intror LearnJ) UsS
                  (header_ok_plain cS 36 g1 p1 _ None AuS V1 N37) P1 (fun rc Hrc => ltac:(discriminate))) as A.
    destruct (verify_msg J (mk_signed cS (SCerts [cS]) t)) as [J' x]. cbn in A. subst x.
    injection H1 as _ _ <-. reflexivity.
  - (* digest: J does not know the ticket *)
    right. cbn [Sec.update Sec.deliver_all Sec.deliver_to nth_error] in H1.
    destruct LearnJ as [FindJ LearnJ'].
    assert (E1 : verify_msg J (mk_signed cS (SDigest (hash8 cS)) (tbs_plain 36 g1 p1 false (inline_of (st_sign S)) None))
                 = (mkStation (st_store J) (notify_unknown (st_sign J) (hash8 cS)), RVerify R_SIGNER_NOT_FOUND 0 0)).
    { unfold Sec.verify_msg. cbn. rewrite FindJ. reflexivity. }
    rewrite E1 in H1. cbn [Sec.update] in H1. injection H1 as <- _ <-. split; [reflexivity|].
    (* ---- J's next CAM: carries its certificate and the request *)
    set (S1 := mkStation (st_store S) (mkSS (unknown (st_sign S)) [] (last_full (st_sign S)) (req_own (st_sign S)))) in *.
    set (J1 := mkStation (st_store J) (notify_unknown (st_sign J) (hash8 cS))) in *.
    unfold Sec.net_step in H2. cbn [nth_error Sec.step] in H2.
    assert (RqJ1 : requested (st_sign J1) = []) by exact RqJ.
    rewrite (sign_cam_simple J1 t2 36 g2 p2 eJ RqJ1 PaJ) in H2. fold cJ in H2.
    assert (Fd2 : full_cert_due (st_sign J1) t2 = true) by (unfold full_cert_due; cbn; apply orb_true_r).
    rewrite Fd2 in H2. cbn [Sec.update Sec.deliver_all Sec.deliver_to nth_error] in H2.
    destruct (inline_of_after_notify_unknown (st_sign J) (hash8 cS)) as (l & Hl & El).
    change (st_sign J1) with (notify_unknown (st_sign J) (hash8 cS)) in H2. rewrite Hl in H2.
    set (tJ := tbs_plain 36 g2 p2 false (Some l) None) in *.
    destruct (knows_or_learn_store (st_store S) cJ ReadyS S1 eq_refl UsJ tJ
                (header_ok_plain cJ 36 g2 p2 _ None AuJ V2 N37) P2 eq_refl) as (stx & Ow & Aa & Ro & E2).
    assert (Ei : t_inline tJ = Some l) by reflexivity. assert (Ep : t_payload tJ = p2) by reflexivity.
    rewrite Ei, Ep in E2.
    rewrite E2 in H2. cbn [Sec.update] in H2. injection H2 as <- _ <-.
    split; [reflexivity|].
    (* ---- S's next CAM: the request makes it carry the certificate *)
    set (ssx := notify_known (st_sign S1) (hash8 cJ)) in *.
    set (S2 := mkStation stx (notify_inline stx ssx l)) in *.
    unfold Sec.net_step in H3. cbn [nth_error Sec.step] in H3.
    assert (PaS2 : present_at (st_store S2) 36 = Some eS) by (unfold present_at in *; cbn; rewrite Ow; exact PaS).
    assert (Res : resolvable (st_store S2) (requested (st_sign S2))).
    { change (resolvable stx (requested (notify_inline stx ssx l))). apply notify_inline_resolvable.
      intros h Hh. exfalso. exact Hh. }
    assert (Fd3 : full_cert_due (st_sign S2) t3 = true).
    { unfold full_cert_due. apply orb_true_iff. right.
      change (req_own (notify_inline stx ssx l) = true).
      apply (notify_inline_own_asked stx ssx l eS); [rewrite Ow; exact InS|].
      rewrite El. apply zmem_after_notify_unknown. }
    destruct (sign_cam_due S2 t3 36 g3 p3 eS Res PaS2 Fd3) as (rc & S3 & E3 & St3 & Hrc).
    match type of H3 with context [Sec.sign_cam hash8 sign enc_tbs ?x t3 36 g3 p3] => change x with S2 in H3 end.
    rewrite E3 in H3. fold cS in H3.
    cbn [Sec.update Sec.deliver_all Sec.deliver_to nth_error] in H3.
    set (J2 := mkStation (st_store J1) (mkSS (unknown (st_sign J1)) [] t2 false)) in *.
    set (t3' := tbs_plain 36 g3 p3 false (inline_of (st_sign S2)) rc) in *.
    assert (A3 : snd (verify_msg J2 (mk_signed cS (SCerts [cS]) t3')) = RVerify R_SUCCESS (hash8 cS) p3).
    { apply (accepted_cert J2 cS t3'); try assumption.
      - right. split; [exact FindJ|exact LearnJ'].
      - apply header_ok_plain; assumption.
      - intros x Hx. cbn in Hx. destruct (Hrc x Hx) as (en & Hen & ->). apply Wf.
        cbn in Hen. rewrite Aa, Ro in Hen. exact Hen. }
    match type of H3 with context [Sec.verify_msg hash8 sig_ok ?x _] => change x with J2 in H3 end.
    destruct (verify_msg J2 (mk_signed cS (SCerts [cS]) t3')) as [J3 x]. cbn in A3. subst x.
    injection H3 as _ _ <-. reflexivity.
Qed.

(* ca_wf is not a restriction: it holds after every history *)
Lemma verified_not_other c io : cert_verify c io = Some true -> not_other c.
Proof.
  unfold Sec.cert_verify. intros H d Hd. rewrite Hd in H.
  destruct (negb (ctype_ok c)); [discriminate|]. destruct io; discriminate.
Qed.

Lemma ca_wf_history ops : ca_wf (st_store (Sec.final hash8 sig_ok sign enc_tbs init_station ops)).
Proof.
  intros e [Ha|Hr].
  - pose proof (store_closed hash8 sig_ok sign enc_tbs ops e (or_introl Ha)) as _.
    destruct (history_inv hash8 sig_ok sign enc_tbs ops) as (_ & Haa & _).
    destruct (Haa e Ha) as (i & j & _ & (Hi & _) & _). intros d Hd. rewrite Hd in Hi. discriminate.
  - apply (roots_configured hash8 sig_ok sign enc_tbs) in Hr.
    unfold SecSpec.configured_roots in Hr. apply in_flat_map in Hr. destruct Hr as (o & _ & Ho).
    destruct o; try (exfalso; exact Ho). cbn in Ho.
    destruct (cert_verify c io) as [[|]|] eqn:V; [|exfalso; exact Ho|exfalso; exact Ho].
    destruct Ho as [<-|[]]. eapply verified_not_other. exact V.
Qed.

End SecSignProofs.
