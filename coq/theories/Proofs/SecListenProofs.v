(* C05: receivers configured without a sign service (Model/SecListen.v).
   Whatever SN-VERIFY.confirm a full station gives for a message, a station with the same
   certificate library and no sign service gives the same one; its sign state is never touched and
   it learns the same tickets. Hence every acceptance theorem of Proofs/SecSignProofs.v holds at
   listen-only receivers too. *)
From FlexVerif Require Import Base.Prelude Model.Sec Model.SecSpec Model.SecListen Proofs.SecProofs Proofs.SecSignProofs.

Set Default Proof Using "Type".
Section SecListenProofs.
Variable hash8 : cert -> Z.
Variable sig_ok : Z -> Z -> Z -> bool.
Variable sign : Z -> Z -> Z.
Variable enc_tbs : tbsdata -> Z.

Notation verify_msg := (Sec.verify_msg hash8 sig_ok).
Notation verify_with_ticket := (Sec.verify_with_ticket hash8 sig_ok).
Notation after_success := (Sec.after_success hash8 sig_ok).
Notation verify_msg_lo := (SecListen.verify_msg_lo hash8 sig_ok).
Notation verify_with_ticket_lo := (SecListen.verify_with_ticket_lo hash8 sig_ok).
Notation net_step := (Sec.net_step hash8 sig_ok sign enc_tbs).
Notation net_step_cfg := (SecListen.net_step_cfg hash8 sig_ok sign enc_tbs).
Notation deliver_all := (Sec.deliver_all hash8 sig_ok).
Notation deliver_all_cfg := (SecListen.deliver_all_cfg hash8 sig_ok).

Lemma after_success_shape sn c t :
  snd (after_success sn c t) = RVerify R_SUCCESS (hash8 c) (t_payload t) \/ snd (after_success sn c t) = RCrash.
Proof.
  unfold Sec.after_success.
  set (sn1 := match t_inline t with Some l => _ | None => sn end).
  destruct (t_reqcert t) as [rc|]; [|left; reflexivity].
  destruct (Sec.notify_received hash8 sig_ok sn1 rc) as [sn2 [|]]; [right|left]; reflexivity.
Qed.

Lemma with_ticket_lo_report sn sn' e m code h p :
  snd (verify_with_ticket sn e m) = RVerify code h p ->
  snd (verify_with_ticket_lo sn' e m) = RVerify code h p.
Proof.
  unfold Sec.verify_with_ticket, SecListen.verify_with_ticket_lo.
  destruct (Sec.cert_verify hash8 sig_ok (e_cert e) (e_iss e)) as [[|]|]; try (cbn [snd]; intros H; exact H).
  destruct (negb (is_at (e_cert e))); try (cbn [snd]; intros H; exact H).
  destruct (Sec.header_checks hash8 (e_cert e) (m_tbsd m)); try (cbn [snd]; intros H; exact H).
  destruct ((m_sig m =? 0) || (ckey (e_cert e) =? 0)); try (cbn [snd]; intros H; exact H).
  destruct (sig_ok (ckey (e_cert e)) (m_tbs m) (m_sig m)); try (cbn [snd]; intros H; exact H).
  destruct (t_payload (m_tbsd m) =? 0); try (cbn [snd]; intros H; exact H).
  cbn [snd]. intros H.
  destruct (after_success_shape sn (e_cert e) (m_tbsd m)) as [E|E]; rewrite E in H; [exact H|discriminate].
Qed.

Lemma with_ticket_lo_station sn e m : fst (verify_with_ticket_lo sn e m) = sn.
Proof.
  unfold SecListen.verify_with_ticket_lo.
  destruct (Sec.cert_verify hash8 sig_ok (e_cert e) (e_iss e)) as [[|]|]; try reflexivity.
  destruct (negb (is_at (e_cert e))); try reflexivity.
  destruct (Sec.header_checks hash8 (e_cert e) (m_tbsd m)); try reflexivity.
  destruct ((m_sig m =? 0) || (ckey (e_cert e) =? 0)); try reflexivity.
  destruct (sig_ok (ckey (e_cert e)) (m_tbs m) (m_sig m)); try reflexivity.
  destruct (t_payload (m_tbsd m) =? 0); reflexivity.
Qed.

Lemma with_ticket_store sn e m :
  t_reqcert (m_tbsd m) = None -> st_store (fst (verify_with_ticket sn e m)) = st_store sn.
Proof.
  intros Hrc. unfold Sec.verify_with_ticket.
  destruct (Sec.cert_verify hash8 sig_ok (e_cert e) (e_iss e)) as [[|]|]; try reflexivity.
  destruct (negb (is_at (e_cert e))); try reflexivity.
  destruct (Sec.header_checks hash8 (e_cert e) (m_tbsd m)); try reflexivity.
  destruct ((m_sig m =? 0) || (ckey (e_cert e) =? 0)); try reflexivity.
  destruct (sig_ok (ckey (e_cert e)) (m_tbs m) (m_sig m)); try reflexivity.
  destruct (t_payload (m_tbsd m) =? 0); try reflexivity.
  rewrite (after_success_no_reqcert hash8 sig_ok _ _ _ Hrc). cbn [fst].
  destruct (t_inline (m_tbsd m)); reflexivity.
Qed.

(* the report of a full station is the report of a listen-only station with the same library *)
Lemma listen_only_report sn m code h p :
  snd (verify_msg sn m) = RVerify code h p -> snd (verify_msg_lo sn m) = RVerify code h p.
Proof.
  unfold Sec.verify_msg, SecListen.verify_msg_lo.
  destruct (negb (m_ok m)); [cbn [snd]; intros H; exact H|].
  destruct (m_signer m) as [d|cs|].
  - destruct (t_psid (m_tbsd m) =? 37); [cbn [snd]; intros H; exact H|].
    destruct (Sec.find_key hash8 d (ats (st_store sn))) as [e|]; [|cbn [snd]; intros H; exact H].
    apply with_ticket_lo_report.
  - destruct cs as [|c0 [|c1 r]]; try (cbn [snd]; intros H; exact H).
    destruct (Sec.verify_chain hash8 sig_ok (st_store sn) [c0]) as [st1 [| |e]]; try (cbn [snd]; intros H; exact H).
    apply with_ticket_lo_report.
  - destruct (t_psid (m_tbsd m) =? 37); cbn [snd]; intros H; exact H.
Qed.

(* the sign state of a listen-only station is never touched *)
Lemma listen_only_sign_state sn m : st_sign (fst (verify_msg_lo sn m)) = st_sign sn.
Proof.
  unfold SecListen.verify_msg_lo.
  destruct (negb (m_ok m)); [reflexivity|].
  destruct (m_signer m) as [d|cs|].
  - destruct (t_psid (m_tbsd m) =? 37); [reflexivity|].
    destruct (Sec.find_key hash8 d (ats (st_store sn))) as [e|]; [|reflexivity].
    rewrite with_ticket_lo_station. reflexivity.
  - destruct cs as [|c0 [|c1 r]]; try reflexivity.
    destruct (Sec.verify_chain hash8 sig_ok (st_store sn) [c0]) as [st1 [| |e]]; try reflexivity.
    rewrite with_ticket_lo_station. reflexivity.
  - destruct (t_psid (m_tbsd m) =? 37); reflexivity.
Qed.

(* it learns what a full station learns (a message that does not deliver a CA certificate) *)
Lemma listen_only_store sn m :
  t_reqcert (m_tbsd m) = None -> st_store (fst (verify_msg_lo sn m)) = st_store (fst (verify_msg sn m)).
Proof.
  intros Hrc. unfold Sec.verify_msg, SecListen.verify_msg_lo.
  destruct (negb (m_ok m)); [reflexivity|].
  destruct (m_signer m) as [d|cs|].
  - destruct (t_psid (m_tbsd m) =? 37); [reflexivity|].
    destruct (Sec.find_key hash8 d (ats (st_store sn))) as [e|]; [|reflexivity].
    rewrite with_ticket_lo_station, with_ticket_store by exact Hrc. reflexivity.
  - destruct cs as [|c0 [|c1 r]]; try reflexivity.
    destruct (Sec.verify_chain hash8 sig_ok (st_store sn) [c0]) as [st1 [| |e]]; try reflexivity.
    rewrite with_ticket_lo_station, with_ticket_store by exact Hrc. reflexivity.
  - destruct (t_psid (m_tbsd m) =? 37); reflexivity.
Qed.

Lemma listen_only_state sn m :
  st_sign (fst (verify_msg_lo sn m)) = st_sign sn /\
  (t_reqcert (m_tbsd m) = None -> st_store (fst (verify_msg_lo sn m)) = st_store (fst (verify_msg sn m))).
Proof. split; [apply listen_only_sign_state|apply listen_only_store]. Qed.

(* a network without listen-only stations is the network of Model/Sec.v *)
Lemma deliver_all_cfg_nil net m rcv : deliver_all_cfg [] net m rcv = deliver_all net m rcv.
Proof.
  revert net. induction rcv as [|j r IH]; intros net; [reflexivity|].
  cbn [SecListen.deliver_all_cfg Sec.deliver_all].
  assert (E : SecListen.deliver_to_cfg hash8 sig_ok [] net m j = Sec.deliver_to hash8 sig_ok net m j).
  { unfold SecListen.deliver_to_cfg, Sec.deliver_to, SecListen.verify_at, SecListen.listen_only.
    destruct j; reflexivity. }
  rewrite E. destruct (Sec.deliver_to hash8 sig_ok net m j) as [net1 x]. rewrite IH. reflexivity.
Qed.

Lemma net_step_cfg_nil net i o rcv : net_step_cfg [] net i o rcv = net_step net i o rcv.
Proof.
  unfold SecListen.net_step_cfg, Sec.net_step.
  destruct (nth_error net i) as [si|]; [|reflexivity].
  destruct (Sec.step hash8 sig_ok sign enc_tbs si o) as [si' r].
  destruct r; try reflexivity. rewrite deliver_all_cfg_nil. reflexivity.
Qed.

(* ---- the acceptance theorems at a listen-only receiver ---- *)
Hypothesis sign_verifies : forall k t, sig_ok k t (sign k t) = true.
Hypothesis sign_nonzero : forall k t, sign k t <> 0.

Lemma listen_only_accepts_cam S R now psid gen payload S' m :
  Sec.sign_cam hash8 sign enc_tbs S now psid gen payload = (S', RMsg m) ->
  ca_wf (st_store S) -> psid <> 37 -> payload <> 0 ->
  forall c : cert,
    (exists e, present_at (st_store S) psid = Some e /\ e_cert e = c) ->
    usable c -> valid_at c gen = true ->
    SecSpec.receiver_ready hash8 sig_ok (st_store R) c (m_signer m) ->
    verify_msg_lo R m = (mkStation (st_store (fst (verify_msg_lo R m))) (st_sign R), RVerify R_SUCCESS (hash8 c) payload).
Proof using sign_verifies sign_nonzero.
  intros Hs Hw H37 Hp c Hc Hu Hv Hr.
  pose proof (sign_then_verify_cam hash8 sig_ok sign enc_tbs sign_verifies sign_nonzero S R now psid gen payload S' m
                Hs Hw H37 Hp c Hc Hu Hv Hr) as H.
  apply listen_only_report in H. pose proof (listen_only_sign_state R m) as Hss.
  destruct (verify_msg_lo R m) as [R' r]. cbn [fst snd] in *. subst r. destruct R' as [st ss]. cbn in Hss. subst ss. reflexivity.
Qed.

Lemma listen_only_accepts_denm S R psid gen payload S' m :
  Sec.sign_denm sign enc_tbs S psid gen payload = (S', RMsg m) -> payload <> 0 ->
  forall c : cert,
    (exists e, present_at (st_store S) psid = Some e /\ e_cert e = c) ->
    usable c -> valid_at c gen = true ->
    SecSpec.knows hash8 sig_ok (st_store R) c \/ SecSpec.can_learn hash8 sig_ok (st_store R) c ->
    snd (verify_msg_lo R m) = RVerify R_SUCCESS (hash8 c) payload.
Proof using sign_verifies sign_nonzero.
  intros Hs Hp c Hc Hu Hv Hr. apply listen_only_report.
  exact (sign_then_verify_denm hash8 sig_ok sign enc_tbs sign_verifies sign_nonzero S R psid gen payload S' m Hs Hp c Hc Hu Hv Hr).
Qed.

Lemma listen_only_accepts_other S R psid gen payload S' m :
  Sec.sign_other hash8 sign enc_tbs S psid gen payload = (S', RMsg m) -> psid <> 37 -> payload <> 0 ->
  forall c : cert,
    (exists e, present_at (st_store S) psid = Some e /\ e_cert e = c) ->
    usable c -> valid_at c gen = true ->
    SecSpec.knows hash8 sig_ok (st_store R) c ->
    snd (verify_msg_lo R m) = RVerify R_SUCCESS (hash8 c) payload.
Proof using sign_verifies sign_nonzero.
  intros Hs H37 Hp c Hc Hu Hv Hr. apply listen_only_report.
  exact (sign_then_verify_other hash8 sig_ok sign enc_tbs sign_verifies sign_nonzero S R psid gen payload S' m Hs H37 Hp c Hc Hu Hv Hr).
Qed.

End SecListenProofs.
