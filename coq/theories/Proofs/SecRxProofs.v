(* C03: the security branch of the router's receive path (Sec.rx) delivers only
   authentic, untampered secured packets. Builds on Proofs/SecProofs.v. *)
From FlexVerif Require Import Base.Prelude Model.Sec Model.SecSpec Proofs.SecProofs.

Set Default Proof Using "Type".
Section SecRxProofs.
Variable hash8 : cert -> Z.
Variable sig_ok : Z -> Z -> Z -> bool.
Variable sign : Z -> Z -> Z.
Variable enc_tbs : tbsdata -> Z.

Notation verify_msg := (Sec.verify_msg hash8 sig_ok).
Notation rx := (Sec.rx hash8 sig_ok).
Notation step := (Sec.step hash8 sig_ok sign enc_tbs).
Notation run := (Sec.run hash8 sig_ok sign enc_tbs).
Notation final := (Sec.final hash8 sig_ok sign enc_tbs).
Notation anchored := (SecSpec.anchored hash8 sig_ok).
Notation configured_roots := (SecSpec.configured_roots hash8 sig_ok).
Notation accepted_root := (SecSpec.accepted_root hash8 sig_ok).
Notation signer_names := (SecSpec.signer_names hash8).
Notation accepted_under := (SecSpec.accepted_under sig_ok).
Notation store_inv := (SecProofs.store_inv hash8 sig_ok).
Notation find_key := (Sec.find_key hash8).

(* an operation that is a received frame / received secured message *)
Definition is_rx (o : op) : Prop :=
  match o with ORx _ _ _ _ _ _ | OVerify _ => True | _ => False end.

Lemma rx_deliver sn vs vo nh body m sn' p :
  rx sn true vs vo nh body m = (sn', RDeliver p) ->
  nh = 2 /\ vs = true /\ vo = true /\ exists certid, verify_msg sn m = (sn', RVerify R_SUCCESS certid p).
Proof.
  unfold Sec.rx. destruct vo; cbn [negb]; [|discriminate].
  destruct (nh =? 1) eqn:E1; [discriminate|].
  destruct (nh =? 2) eqn:E2; [|discriminate]. apply Z.eqb_eq in E2.
  destruct vs; cbn [negb]; [|discriminate].
  destruct (verify_msg sn m) as [sn1 r]. destruct r; try discriminate.
  destruct (code =? R_SUCCESS) eqn:Ec; [|discriminate]. apply Z.eqb_eq in Ec. subst code.
  intros H. injection H as <- <-. repeat split; try assumption; try reflexivity. exists certid. reflexivity.
Qed.

(* C03 main clause *)
Lemma delivery_implies_authentic R sn vs vo nh body m sn' p :
  store_inv R (st_store sn) ->
  rx sn true vs vo nh body m = (sn', RDeliver p) ->
  nh = 2 /\
  exists e, In e (ats (st_store sn')) /\ signer_names (m_signer m) (e_cert e) /\
            anchored R (e_cert e) /\ is_at (e_cert e) = true /\ accepted_under (e_cert e) m p.
Proof.
  intros Hinv H. apply rx_deliver in H. destruct H as (-> & _ & _ & certid & H).
  split; [reflexivity|].
  destruct (verify_authorised hash8 sig_ok R sn m sn' certid p Hinv H) as (e & H1 & H2 & H3 & H4 & H5 & _).
  exists e. repeat split; assumption.
Qed.

Lemma delivery_implies_authentic_history ops vs vo nh body m sn' p :
  rx (final init_station ops) true vs vo nh body m = (sn', RDeliver p) ->
  nh = 2 /\
  exists e, In e (ats (st_store sn')) /\ signer_names (m_signer m) (e_cert e) /\
            anchored (configured_roots ops) (e_cert e) /\ is_at (e_cert e) = true /\
            accepted_under (e_cert e) m p.
Proof. apply delivery_implies_authentic. apply history_inv. Qed.

Lemma unsecured_dropped sn vs body m : rx sn true vs true 1 body m = (sn, RDrop).
Proof. reflexivity. Qed.

Lemma not_secured_never_delivered sn vs vo nh body m sn' p :
  nh <> 2 -> rx sn true vs vo nh body m <> (sn', RDeliver p).
Proof. intros Hn H. apply rx_deliver in H. destruct H as [H _]. contradiction. Qed.

Lemma unknown_digest_dropped sn se vs vo body m d :
  m_signer m = SDigest d -> find_key d (ats (st_store sn)) = None ->
  (forall p, snd (rx sn se vs vo 2 body m) <> RDeliver p) /\
  st_store (fst (rx sn se vs vo 2 body m)) = st_store sn.
Proof.
  intros Hs Hf. unfold Sec.rx. destruct (negb vo); [split; [intros p; discriminate|reflexivity]|].
  cbn [Z.eqb Pos.eqb]. destruct (negb vs); [split; [intros p; discriminate|reflexivity]|].
  unfold Sec.verify_msg. destruct (negb (m_ok m)); [split; [intros p; discriminate|reflexivity]|].
  rewrite Hs. destruct (t_psid (m_tbsd m) =? 37); [split; [intros p; discriminate|reflexivity]|].
  rewrite Hf. cbn. split; [intros p; discriminate|reflexivity].
Qed.

(* a chain that does not lead to a configured root is worthless *)
Lemma self_made_chain_dropped ops vs vo nh body m :
  (forall c, signer_names (m_signer m) c -> ~ anchored (configured_roots ops) c) ->
  forall p, snd (rx (final init_station ops) true vs vo nh body m) <> RDeliver p.
Proof.
  intros Hno p H.
  destruct (rx (final init_station ops) true vs vo nh body m) as [sn' r] eqn:E. cbn in H. subst r.
  apply delivery_implies_authentic_history in E. destruct E as (_ & e & _ & Hn & Ha & _).
  exact (Hno _ Hn Ha).
Qed.

(* received frames never change the set of trusted roots ... *)
Lemma add_aa_roots st c io : roots (fst (Sec.add_aa hash8 sig_ok st c io)) = roots st.
Proof.
  unfold Sec.add_aa. destruct (Sec.mem_key hash8 (hash8 c) (aas st)); [reflexivity|].
  destruct (Sec.get_issuer hash8 st c); try reflexivity.
  destruct (Sec.cert_verify hash8 sig_ok c io) as [[|]|]; reflexivity.
Qed.

Lemma add_at_roots st c io : roots (fst (Sec.add_at hash8 sig_ok st c io)) = roots st.
Proof.
  unfold Sec.add_at. destruct (Sec.mem_key hash8 (hash8 c) (ats st)); [reflexivity|].
  destruct (Sec.get_issuer hash8 st c); try reflexivity.
  destruct (Sec.cert_verify hash8 sig_ok c io) as [[|]|]; reflexivity.
Qed.

Lemma verify_chain1_roots st c : roots (fst (Sec.verify_chain1 hash8 sig_ok st c)) = roots st.
Proof.
  unfold Sec.verify_chain1. destruct (find_key (hash8 c) (ats st)); [reflexivity|].
  destruct (Sec.get_issuer hash8 st c) as [| |ie]; try reflexivity.
  destruct (Sec.cert_verify hash8 sig_ok c (Some (e_cert ie))) as [[|]|]; try reflexivity.
  pose proof (add_at_roots st c (Some (e_cert ie))) as H.
  destruct (Sec.add_at hash8 sig_ok st c (Some (e_cert ie))) as [st1 cr]. destruct cr; exact H.
Qed.

Lemma verify_with_ticket_roots sn e m :
  roots (st_store (fst (Sec.verify_with_ticket hash8 sig_ok sn e m))) = roots (st_store sn).
Proof.
  unfold Sec.verify_with_ticket.
  destruct (Sec.cert_verify hash8 sig_ok (e_cert e) (e_iss e)) as [[|]|]; try reflexivity.
  destruct (negb (is_at (e_cert e))); [reflexivity|].
  destruct (Sec.header_checks hash8 (e_cert e) (m_tbsd m)); [reflexivity|].
  destruct ((m_sig m =? 0) || (ckey (e_cert e) =? 0)); [reflexivity|].
  destruct (sig_ok (ckey (e_cert e)) (m_tbs m) (m_sig m)); [|reflexivity].
  destruct (t_payload (m_tbsd m) =? 0); [reflexivity|].
  unfold Sec.after_success.
  set (sn1 := match t_inline (m_tbsd m) with Some l => _ | None => sn end).
  assert (H1 : roots (st_store sn1) = roots (st_store sn)) by (subst sn1; destruct (t_inline (m_tbsd m)); reflexivity).
  destruct (t_reqcert (m_tbsd m)) as [rc|]; [|exact H1].
  unfold Sec.notify_received.
  pose proof (add_aa_roots (st_store sn1) rc None) as H2.
  destruct (Sec.add_aa hash8 sig_ok (st_store sn1) rc None) as [st' cr]. cbn [fst] in H2.
  destruct cr; cbn; congruence.
Qed.

Lemma verify_msg_roots sn m : roots (st_store (fst (verify_msg sn m))) = roots (st_store sn).
Proof.
  unfold Sec.verify_msg. destruct (negb (m_ok m)); [reflexivity|].
  destruct (m_signer m) as [d|cs|].
  - destruct (t_psid (m_tbsd m) =? 37); [reflexivity|].
    destruct (find_key d (ats (st_store sn))); [|reflexivity]. apply verify_with_ticket_roots.
  - destruct cs as [|c0 [|c1 l]]; try reflexivity. cbn [Sec.verify_chain].
    pose proof (verify_chain1_roots (st_store sn) c0) as H.
    destruct (Sec.verify_chain1 hash8 sig_ok (st_store sn) c0) as [st1 cr]. cbn [fst] in H.
    destruct cr as [| |e]; try exact H.
    rewrite verify_with_ticket_roots. exact H.
  - destruct (t_psid (m_tbsd m) =? 37); reflexivity.
Qed.

Lemma rx_roots sn se vs vo nh body m : roots (st_store (fst (rx sn se vs vo nh body m))) = roots (st_store sn).
Proof.
  unfold Sec.rx. destruct (negb vo); [reflexivity|].
  destruct (nh =? 1); [destruct se; reflexivity|].
  destruct (nh =? 2); [|reflexivity].
  destruct (negb vs); [reflexivity|].
  pose proof (verify_msg_roots sn m) as H.
  destruct (verify_msg sn m) as [sn' r]. cbn [fst] in H.
  destruct r; try exact H. destruct (code =? R_SUCCESS); exact H.
Qed.

Lemma frames_keep_roots fs : Forall is_rx fs -> forall sn,
  roots (st_store (final sn fs)) = roots (st_store sn).
Proof.
  unfold Sec.final. induction 1 as [|o r Ho _ IH]; intros sn; cbn [Sec.run]; [reflexivity|].
  assert (H1 : roots (st_store (fst (step sn o))) = roots (st_store sn)).
  { destruct o; try contradiction; cbn [Sec.step]; [apply verify_msg_roots|apply rx_roots]. }
  destruct (step sn o) as [sn1 x]. cbn [fst] in H1. specialize (IH sn1).
  destruct (run sn1 r) as [sn2 xs]. cbn [fst] in *. congruence.
Qed.

(* ... nor the set of certificates configured as trusted *)
Lemma frames_configure_nothing ops fs :
  Forall is_rx fs -> configured_roots (ops ++ fs) = configured_roots ops.
Proof.
  intros H. unfold SecSpec.configured_roots. rewrite flat_map_app.
  assert (E : flat_map accepted_root fs = []).
  { induction H as [|o r Ho _ IH]; [reflexivity|]. cbn [flat_map]. rewrite IH.
    destruct o; try contradiction; reflexivity. }
  rewrite E. apply app_nil_r.
Qed.

(* whatever genuine or forged frames were received before: acceptance still needs a chain to
   the roots the operator configured, and the oracle's acceptance of this very message *)
Lemma history_independent ops fs vs vo nh body m sn' p :
  Forall is_rx fs ->
  rx (final init_station (ops ++ fs)) true vs vo nh body m = (sn', RDeliver p) ->
  nh = 2 /\
  exists e, signer_names (m_signer m) (e_cert e) /\
            anchored (configured_roots ops) (e_cert e) /\ is_at (e_cert e) = true /\
            accepted_under (e_cert e) m p.
Proof.
  intros Hf H. apply delivery_implies_authentic_history in H.
  rewrite (frames_configure_nothing ops fs Hf) in H.
  destruct H as (Hn & e & _ & H1 & H2 & H3 & H4). split; [exact Hn|]. exists e. repeat split; assumption.
Qed.

(* the issuer designation of a certificate is outside its signed bytes. Whatever was received
   before - in particular the same to-be-signed bytes and signature under another designation,
   under which they may well verify (self-signed, or issued in another PKI) - a frame is not
   delivered when every certificate c its signer field can designate is not itself a configured
   root and the oracle rejects c's signature under the key of every certificate that c's issuer
   field designates. No oracle fact under any other key (the certificate's own included) helps. *)
Lemma relabelled_issuer_dropped ops fs vs vo nh body m :
  Forall is_rx fs ->
  (forall c, signer_names (m_signer m) c ->
             ~ In c (configured_roots ops) /\
             forall i, cissuer c = IssDigest (hash8 i) -> sig_ok (ckey i) (ctbs c) (csig c) = false) ->
  forall p, snd (rx (final init_station (ops ++ fs)) true vs vo nh body m) <> RDeliver p.
Proof.
  intros Hf Hno p H.
  destruct (rx (final init_station (ops ++ fs)) true vs vo nh body m) as [sn' r] eqn:E. cbn in H. subst r.
  apply (history_independent ops fs) in E; [|exact Hf].
  destruct E as (_ & e & Hn & Ha & _).
  destruct (Hno _ Hn) as [Hr Hs].
  inversion Ha as [c Hin|c i j Hok _ _]; subst.
  - exact (Hr Hin).
  - destruct Hok as (Hi & _ & Hsig). rewrite (Hs _ Hi) in Hsig. discriminate.
Qed.

(* "altered in any bit => rejected" is the reduction above plus an assumption about ECDSA,
   made explicit here: if the oracle accepts (k, t, s) only when the holder of k signed t,
   then a delivered payload was signed, byte for byte, by the holder of the ticket's key *)
Section Unforgeable.
Variable signed_by_holder : Z -> Z -> Prop.
Hypothesis unforgeable : forall k t s, sig_ok k t s = true -> signed_by_holder k t.

Lemma altered_rejected ops fs vs vo nh body m :
  Forall is_rx fs ->
  (forall c, signer_names (m_signer m) c -> anchored (configured_roots ops) c ->
             ~ signed_by_holder (ckey c) (m_tbs m)) ->
  forall p, snd (rx (final init_station (ops ++ fs)) true vs vo nh body m) <> RDeliver p.
Proof using unforgeable.
  intros Hf Hno p H.
  destruct (rx (final init_station (ops ++ fs)) true vs vo nh body m) as [sn' r] eqn:E. cbn in H. subst r.
  apply (history_independent ops fs) in E; [|exact Hf].
  destruct E as (_ & e & Hn & Ha & _ & (g & a & _ & _ & _ & _ & Hs & _)).
  exact (Hno _ Hn Ha (unforgeable _ _ _ Hs)).
Qed.
End Unforgeable.

End SecRxProofs.
