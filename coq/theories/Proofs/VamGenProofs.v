(* Lemmas about Model/VamGen.v (VAM generation timing). *)
From FlexVerif Require Import Base.Prelude Gen.C10Consts Model.VamGen.
From Coq Require Import QArith Qabs ZifyBool.
Ltac Zify.zify_post_hook ::= Z.to_euclidean_division_equations.
Open Scope Z_scope.

Definition vparams_ok (p : vparams) : Prop :=
  0 < v_min p /\ v_min p <= v_tgen0 p /\ v_tgen0 p <= v_max p /\ 0 < v_lf p.

Lemma gen_vparams_ok : vparams_ok gen_vparams.
Proof. unfold vparams_ok; cbn. repeat split; vm_compute; congruence. Qed.

Definition vam_lf (c : vout) : bool := match c with Vam _ lf _ => lf end.
Definition vam_ts (c : vout) : Z := match c with Vam ts _ _ => ts end.
Definition vam_gdt (c : vout) : Z := match c with Vam _ _ g => g end.

(* ---- one report --------------------------------------------------------------- *)

Lemma vstep_cases p s r :
  (vcause p s r = 0 /\ vstep p s r = (s, [])) \/
  (vcause p s r <> 0 /\
   snd (vstep p s r) = [Vam (vr_ts r) (vinclude_lf p s r) (vgdt (vr_ts r))] /\
   let s' := fst (vstep p s r) in
   vlast_gdt s' = Some (vgdt (vr_ts r)) /\ vt_gen s' = vt_gen s /\ vfirst s' = false /\
   vlast_lf s' = (if vinclude_lf p s r then Some (vr_now r) else vlast_lf s)).
Proof.
  unfold vstep. destruct (vcause p s r =? 0) eqn:E.
  - left. split; [lia|reflexivity].
  - right. split; [lia|]. unfold vsend. cbn. repeat split; reflexivity.
Qed.

Lemma vcause_range p s r : 0 <= vcause p s r <= 3.
Proof.
  unfold vcause. destruct (negb (vr_gate r)); [lia|]. destruct (vlast_gdt s); [|lia].
  destruct (vt_gen s <=? _); [lia|]. destruct (vdynamics p s r); lia.
Qed.

Lemma vrun_cons p s r rest :
  vrun p s (r :: rest) =
  (fst (vrun p (fst (vstep p s r)) rest), snd (vstep p s r) ++ snd (vrun p (fst (vstep p s r)) rest)).
Proof.
  cbn [vrun]. destruct (vstep p s r) as [s1 o1]. cbn [fst snd]. destruct (vrun p s1 rest) as [s2 o2]. reflexivity.
Qed.

Lemma vrun_tgen p s rs : vt_gen (fst (vrun p s rs)) = vt_gen s.
Proof.
  revert s. induction rs as [|r rs IH]; intros s; [reflexivity|].
  rewrite vrun_cons. cbn [fst]. rewrite IH.
  destruct (vstep_cases p s r) as [[_ E]|(_ & _ & _ & E & _)]; [rewrite E; reflexivity|exact E].
Qed.

(* a run that emits nothing does not change the state *)
Lemma vrun_silent p s rs : snd (vrun p s rs) = [] -> fst (vrun p s rs) = s.
Proof.
  revert s. induction rs as [|r rs IH]; intros s H; [reflexivity|].
  rewrite vrun_cons in *. cbn [fst snd] in *. apply app_eq_nil in H. destruct H as [H1 H2].
  destruct (vstep_cases p s r) as [[_ E]|(_ & E & _)].
  - rewrite E in *. cbn [fst] in *. apply IH. exact H2.
  - rewrite E in H1. discriminate.
Qed.

(* ---- first VAM ---------------------------------------------------------------------- *)

Definition all_closed (rs : list vreport) : Prop := forallb (fun r => negb (vr_gate r)) rs = true.

Lemma closed_silent p s rs : all_closed rs -> vrun p s rs = (s, []).
Proof.
  revert s. induction rs as [|r rs IH]; intros s H; [reflexivity|].
  unfold all_closed in H. cbn [forallb] in H. apply andb_true_iff in H. destruct H as [H1 H2].
  rewrite vrun_cons.
  assert (E : vstep p s r = (s, [])).
  { unfold vstep, vcause. rewrite H1. reflexivity. }
  rewrite E. cbn [fst snd]. rewrite (IH s H2). reflexivity.
Qed.

Lemma first_immediately p rs r :
  all_closed rs -> vr_gate r = true ->
  snd (vrun p (vinit p) (rs ++ [r])) = [Vam (vr_ts r) true (vr_ts r mod 65536)].
Proof.
  intros Hc Hg. induction rs as [|r0 rs IH].
  - cbn [app]. rewrite vrun_cons. cbn [vrun snd fst]. rewrite app_nil_r.
    unfold vstep, vcause. rewrite Hg. cbn. reflexivity.
  - unfold all_closed in Hc. cbn [forallb] in Hc. apply andb_true_iff in Hc. destruct Hc as [H1 H2].
    rewrite <- app_comm_cons, vrun_cons.
    assert (E : vstep p (vinit p) r0 = (vinit p, [])).
    { unfold vstep, vcause. rewrite H1. reflexivity. }
    rewrite E. cbn [fst snd app]. apply IH. exact H2.
Qed.

(* ---- gdt arithmetic --------------------------------------------------------------------- *)

Lemma gdt_sub_mod a b : gdt_sub (a mod 65536) (b mod 65536) = (a - b) mod 65536.
Proof. unfold gdt_sub. destruct (a mod 65536 - b mod 65536 <? 0) eqn:E; lia. Qed.

(* ---- minimum gap --------------------------------------------------------------------------- *)

(* state right after a VAM built from r1, reached from the initial state *)
Lemma min_gap_partial p pre r1 mid r2 c1 c2 :
  vparams_ok p ->
  let s := fst (vrun p (vinit p) pre) in
  snd (vstep p s r1) = [c1] ->
  let s1 := fst (vstep p s r1) in
  snd (vrun p s1 mid) = [] ->
  let s2 := fst (vrun p s1 mid) in
  snd (vstep p s2 r2) = [c2] ->
  0 <= vr_ts r2 - vr_ts r1 ->
  vdynamics p s2 r2 = false ->
  vam_ts c1 = vr_ts r1 /\ vam_ts c2 = vr_ts r2 /\ v_min p <= vr_ts r2 - vr_ts r1.
Proof.
  intros Hp s E1 s1 Hm s2 E2 Hord Hdyn.
  destruct (vstep_cases p s r1) as [[_ E]|(_ & Eo & Hg & Ht & _)]; [rewrite E in E1; discriminate|].
  rewrite Eo in E1. injection E1 as <-.
  assert (Es2 : s2 = s1) by (apply vrun_silent; exact Hm).
  destruct (vstep_cases p s2 r2) as [[_ E]|(Hc & Eo2 & _)]; [rewrite E in E2; discriminate|].
  rewrite Eo2 in E2. injection E2 as <-. cbn [vam_ts]. split; [reflexivity|]. split; [reflexivity|].
  fold s1 in Hg, Ht. rewrite Es2 in *.
  unfold vcause in Hc. destruct (negb (vr_gate r2)); [congruence|]. rewrite Hg in Hc.
  assert (Htg : vt_gen s1 = v_tgen0 p).
  { rewrite Ht. unfold s. rewrite vrun_tgen. reflexivity. }
  destruct (vt_gen s1 <=? gdt_sub (vgdt (vr_ts r2)) (vgdt (vr_ts r1))) eqn:E.
  - unfold vgdt in E. rewrite gdt_sub_mod in E. unfold vparams_ok in Hp. lia.
  - rewrite Hdyn in Hc. congruence.
Qed.

(* ---- maximum gap ----------------------------------------------------------------------------- *)

Fixpoint vdense (P prev : Z) (rs : list vreport) : Prop :=
  match rs with
  | [] => True
  | r :: rest => vr_gate r = true /\ prev <= vr_ts r <= prev + P /\ vdense P (vr_ts r) rest
  end.

Fixpoint vlast_ts (prev : Z) (rs : list vreport) : Z :=
  match rs with [] => prev | r :: rest => vlast_ts (vr_ts r) rest end.

Lemma vdense_app P prev a b : vdense P prev (a ++ b) <-> vdense P prev a /\ vdense P (vlast_ts prev a) b.
Proof.
  revert prev. induction a as [|r a IH]; intros prev; cbn [app vdense vlast_ts]; [tauto|].
  rewrite IH. tauto.
Qed.

Lemma vquiet_early p s ts1 mid P c0 :
  vparams_ok p -> 0 <= P -> P + v_max p < 65536 ->
  vlast_gdt s = Some (vgdt ts1) -> vt_gen s <= v_max p ->
  snd (vrun p s mid) = [] -> vdense P c0 mid ->
  0 <= c0 - ts1 < v_max p -> 0 <= vlast_ts c0 mid - ts1 < v_max p.
Proof.
  intros Hp HP HPm Hg Ht. revert c0. induction mid as [|r mid IH]; intros c0 Hm Hd Hc; [exact Hc|].
  rewrite vrun_cons in Hm. cbn [snd] in Hm. apply app_eq_nil in Hm. destruct Hm as [Hm1 Hm2].
  cbn [vdense vlast_ts] in *. destruct Hd as (Hgate & Hord & Hd).
  destruct (vstep_cases p s r) as [[Hc0 E]|(_ & Eo & _)]; [|rewrite Eo in Hm1; discriminate].
  rewrite E in Hm2. cbn [fst] in Hm2.
  apply IH; auto.
  unfold vcause in Hc0. rewrite Hgate, Hg in Hc0. cbn [negb] in Hc0.
  destruct (vt_gen s <=? gdt_sub (vgdt (vr_ts r)) (vgdt ts1)) eqn:Ecmp; [lia|].
  unfold vgdt in Ecmp. rewrite gdt_sub_mod in Ecmp. unfold vparams_ok in Hp. lia.
Qed.

Lemma max_gap p pre r1 c1 mid r2 P :
  vparams_ok p -> 0 <= P -> P + v_max p < 65536 ->
  let s := fst (vrun p (vinit p) pre) in
  snd (vstep p s r1) = [c1] ->
  let s1 := fst (vstep p s r1) in
  snd (vrun p s1 mid) = [] ->
  vdense P (vr_ts r1) (mid ++ [r2]) ->
  vr_ts r2 - vr_ts r1 <= v_max p + P.
Proof.
  intros Hp HP HPm s E1 s1 Hm Hd.
  destruct (vstep_cases p s r1) as [[_ E]|(_ & Eo & Hg & Ht & _)]; [rewrite E in E1; discriminate|].
  fold s1 in Hg, Ht.
  assert (Htg : vt_gen s1 <= v_max p).
  { rewrite Ht. unfold s. rewrite vrun_tgen. cbn. unfold vparams_ok in Hp. lia. }
  apply vdense_app in Hd. destruct Hd as [Hd1 Hd2]. cbn [vdense] in Hd2.
  assert (H := vquiet_early p s1 (vr_ts r1) mid P (vr_ts r1) Hp HP HPm Hg Htg Hm Hd1).
  unfold vparams_ok in Hp. lia.
Qed.

Lemma deadline p pre r1 c1 mid r2 P :
  vparams_ok p -> 0 <= P -> P + v_max p < 65536 ->
  let s := fst (vrun p (vinit p) pre) in
  snd (vstep p s r1) = [c1] ->
  let s1 := fst (vstep p s r1) in
  snd (vrun p s1 mid) = [] ->
  vdense P (vr_ts r1) (mid ++ [r2]) ->
  v_max p <= vr_ts r2 - vr_ts r1 ->
  exists c2, snd (vstep p (fst (vrun p s1 mid)) r2) = [c2] /\ vam_ts c2 = vr_ts r2.
Proof.
  intros Hp HP HPm s E1 s1 Hm Hd Hle.
  assert (Hgap := max_gap p pre r1 c1 mid r2 P Hp HP HPm E1 Hm Hd). cbn zeta in Hgap.
  destruct (vstep_cases p s r1) as [[_ E]|(_ & Eo & Hg & Ht & _)]; [rewrite E in E1; discriminate|].
  fold s1 in Hg, Ht.
  rewrite (vrun_silent p s1 mid Hm).
  apply vdense_app in Hd. destruct Hd as [_ Hd2]. cbn [vdense] in Hd2. destruct Hd2 as (Hgate & _ & _).
  destruct (vstep_cases p s1 r2) as [[Hc0 E]|(_ & Eo2 & _)].
  - exfalso. unfold vcause in Hc0. rewrite Hgate, Hg in Hc0. cbn [negb] in Hc0.
    assert (Htg : vt_gen s1 <= v_max p).
    { rewrite Ht. unfold s. rewrite vrun_tgen. cbn. unfold vparams_ok in Hp. lia. }
    destruct (vt_gen s1 <=? gdt_sub (vgdt (vr_ts r2)) (vgdt (vr_ts r1))) eqn:Ecmp; [lia|].
    unfold vgdt in Ecmp. rewrite gdt_sub_mod in Ecmp. unfold vparams_ok in Hp. lia.
  - rewrite Eo2. eexists; split; reflexivity.
Qed.

(* ---- low-frequency container -------------------------------------------------------------------- *)

Definition vall_hf (outs : list vout) : Prop := forallb (fun c => negb (vam_lf c)) outs = true.

Lemma vrun_keeps_lf p s rs tl :
  vfirst s = false -> vlast_lf s = Some tl -> vall_hf (snd (vrun p s rs)) ->
  let s' := fst (vrun p s rs) in vfirst s' = false /\ vlast_lf s' = Some tl.
Proof.
  revert s. induction rs as [|r rs IH]; intros s Hf Hl Hh; [split; assumption|].
  rewrite vrun_cons in *. cbn [fst snd] in *.
  unfold vall_hf in Hh. rewrite forallb_app in Hh. apply andb_true_iff in Hh. destruct Hh as [Hh1 Hh2].
  destruct (vstep_cases p s r) as [[_ E]|(_ & Eo & _ & _ & Hf' & Hl')].
  - rewrite E in *. cbn [fst] in *. apply IH; assumption.
  - rewrite Eo in Hh1. cbn [forallb vam_lf] in Hh1. rewrite andb_true_r in Hh1. apply negb_true_iff in Hh1.
    rewrite Hh1 in Hl'. apply IH; auto. congruence.
Qed.

Lemma lf_rule p s rl cl mid r2 c2 :
  snd (vstep p s rl) = [cl] -> vam_lf cl = true ->
  let s1 := fst (vstep p s rl) in
  vall_hf (snd (vrun p s1 mid)) ->
  let s2 := fst (vrun p s1 mid) in
  snd (vstep p s2 r2) = [c2] ->
  (v_lf p <= vr_now r2 - vr_now rl -> vam_lf c2 = true) /\
  (vam_lf c2 = true -> v_lf p <= vr_now r2 - vr_now rl \/ vr_clop r2 = true).
Proof.
  intros E1 Hlf1 s1 Hh s2 E2.
  destruct (vstep_cases p s rl) as [[_ E]|(_ & Eo & _ & _ & Hf & Hl)]; [rewrite E in E1; discriminate|].
  rewrite Eo in E1. injection E1 as <-. cbn [vam_lf] in Hlf1. rewrite Hlf1 in Hl. fold s1 in Hf, Hl.
  destruct (vrun_keeps_lf p s1 mid (vr_now rl) Hf Hl Hh) as [Hf2 Hl2]. fold s2 in Hf2, Hl2.
  destruct (vstep_cases p s2 r2) as [[_ E]|(_ & Eo2 & _)]; [rewrite E in E2; discriminate|].
  rewrite Eo2 in E2. injection E2 as <-. cbn [vam_lf]. unfold vinclude_lf. rewrite Hf2, Hl2. cbn [orb].
  split; intros H.
  - assert (E : (v_lf p <=? vr_now r2 - vr_now rl) = true) by lia. rewrite E. reflexivity.
  - apply orb_true_iff in H. destruct H as [H|H]; [left; lia|right; exact H].
Qed.

(* ---- witnesses ------------------------------------------------------------------------------------ *)

Definition vrep (ts : Z) (speed : Q) (spc : Z) : vreport :=
  {| vr_ts := ts; vr_now := ts; vr_gate := true; vr_clop := false;
     vr_pos := Some (41 # 1, 2 # 1)%Q; vr_latcode := 410000000; vr_loncode := 20000000;
     vr_speed := Some speed; vr_speedcode := spc; vr_track := Some (0 # 1)%Q; vr_trackcode := 0 |}.

(* 50 Hz reports; the speed jumps by 2 m/s in the second one: two VAMs 20 ms apart *)
Lemma min_gap_witness :
  snd (vrun gen_vparams (vinit gen_vparams) [vrep 630000000000 0 0; vrep 630000000020 (2 # 1) 200])
  = [Vam 630000000000 true 7168; Vam 630000000020 false 7188].
Proof. vm_compute. reflexivity. Qed.

Lemma example_vrun :
  snd (vrun gen_vparams (vinit gen_vparams)
         [vrep 630000000000 0 0; vrep 630000000050 0 0; vrep 630000000100 0 0; vrep 630000002100 0 0])
  = [Vam 630000000000 true 7168; Vam 630000000100 false 7268; Vam 630000002100 true 9268].
Proof. vm_compute. reflexivity. Qed.

(* ==== trace-level statements for the parameters of the working tree ==================== *)

Definition vreach (rs : list vreport) : vst := fst (vrun gen_vparams (vinit gen_vparams) rs).
Definition vouts (rs : list vreport) : list vout := snd (vrun gen_vparams (vinit gen_vparams) rs).

Lemma vrun_app p s a b :
  vrun p s (a ++ b) =
  (fst (vrun p (fst (vrun p s a)) b), snd (vrun p s a) ++ snd (vrun p (fst (vrun p s a)) b)).
Proof.
  revert s. induction a as [|r a IH]; intros s.
  - cbn [app vrun fst snd]. destruct (vrun p s b); reflexivity.
  - rewrite <- app_comm_cons, !vrun_cons, IH. cbn [fst snd]. rewrite app_assoc. reflexivity.
Qed.

Lemma vrun_single p s r : vrun p s [r] = (fst (vstep p s r), snd (vstep p s r)).
Proof. rewrite vrun_cons. cbn [vrun fst snd]. rewrite app_nil_r. reflexivity. Qed.

Definition vafter1 (pre : list vreport) (r1 : vreport) : vst := fst (vstep gen_vparams (vreach pre) r1).

Lemma vouts_snoc pre r : vouts (pre ++ [r]) = vouts pre ++ snd (vstep gen_vparams (vreach pre) r).
Proof. unfold vouts, vreach. rewrite vrun_app, vrun_single. reflexivity. Qed.

Lemma vreach2 pre r1 mid : vreach (pre ++ [r1] ++ mid) = fst (vrun gen_vparams (vafter1 pre r1) mid).
Proof.
  unfold vreach, vafter1, vreach. rewrite (app_assoc pre [r1] mid), (vrun_app _ _ (pre ++ [r1]) mid).
  cbn [fst]. rewrite (vrun_app _ _ pre [r1]), vrun_single. reflexivity.
Qed.

Lemma vouts2 pre r1 mid :
  vouts (pre ++ [r1] ++ mid) =
  vouts pre ++ snd (vstep gen_vparams (vreach pre) r1) ++ snd (vrun gen_vparams (vafter1 pre r1) mid).
Proof.
  unfold vouts, vafter1, vreach. rewrite (app_assoc pre [r1] mid), (vrun_app _ _ (pre ++ [r1]) mid).
  cbn [snd]. rewrite (vrun_app _ _ pre [r1]), vrun_single. cbn [fst snd]. rewrite <- app_assoc. reflexivity.
Qed.

Lemma vouts3 pre r1 mid r2 :
  vouts (pre ++ [r1] ++ mid ++ [r2]) =
  vouts pre ++ snd (vstep gen_vparams (vreach pre) r1) ++ snd (vrun gen_vparams (vafter1 pre r1) mid)
  ++ snd (vstep gen_vparams (fst (vrun gen_vparams (vafter1 pre r1) mid)) r2).
Proof.
  rewrite (app_assoc pre [r1] (mid ++ [r2])), (app_assoc (pre ++ [r1]) mid [r2]).
  rewrite (vouts_snoc ((pre ++ [r1]) ++ mid) r2), <- (app_assoc pre [r1] mid), vouts2, vreach2.
  rewrite <- !app_assoc. reflexivity.
Qed.

Lemma vapp_same_nil {A} (l x : list A) : l ++ x = l -> x = [].
Proof. intros H. apply (app_inv_head l). rewrite app_nil_r. exact H. Qed.

Lemma vone_then_quiet pre r1 c1 mid :
  vouts (pre ++ [r1]) = vouts pre ++ [c1] ->
  vouts (pre ++ [r1] ++ mid) = vouts pre ++ [c1] ->
  snd (vstep gen_vparams (vreach pre) r1) = [c1] /\ snd (vrun gen_vparams (vafter1 pre r1) mid) = [].
Proof.
  intros H1 H2. rewrite vouts_snoc in H1. apply app_inv_head in H1. split; [exact H1|].
  rewrite vouts2, H1, app_assoc in H2. apply vapp_same_nil in H2. exact H2.
Qed.

Lemma vtwo pre r1 c1 mid r2 c2 :
  vouts (pre ++ [r1]) = vouts pre ++ [c1] ->
  vouts (pre ++ [r1] ++ mid) = vouts pre ++ [c1] ->
  vouts (pre ++ [r1] ++ mid ++ [r2]) = vouts pre ++ [c1; c2] ->
  snd (vstep gen_vparams (vreach pre) r1) = [c1] /\
  snd (vrun gen_vparams (vafter1 pre r1) mid) = [] /\
  snd (vstep gen_vparams (fst (vrun gen_vparams (vafter1 pre r1) mid)) r2) = [c2].
Proof.
  intros H1 H2 H3. destruct (vone_then_quiet pre r1 c1 mid H1 H2) as [E1 Em].
  split; [exact E1|]. split; [exact Em|].
  rewrite vouts3, E1, Em in H3. cbn [app] in H3. apply app_inv_head in H3.
  injection H3 as H3. exact H3.
Qed.

(* the dynamics triggers of report r2 evaluated against the content of the VAM built from r1 *)
Definition vdyn_wrt (r1 r2 : vreport) : bool :=
  vdynamics gen_vparams (fst (vsend gen_vparams (vinit gen_vparams) r1)) r2.

Lemma vdynamics_after p s r1 r2 c1 :
  snd (vstep p s r1) = [c1] ->
  vdynamics p (fst (vstep p s r1)) r2 = vdynamics p (fst (vsend p (vinit p) r1)) r2.
Proof.
  intros E. unfold vstep in *. destruct (vcause p s r1 =? 0); [discriminate|]. reflexivity.
Qed.

Lemma tv_first rs r :
  all_closed rs -> vr_gate r = true ->
  vouts (rs ++ [r]) = [Vam (vr_ts r) true (vr_ts r mod 65536)].
Proof. apply first_immediately. Qed.

Lemma tv_min_gap_partial pre r1 c1 mid r2 c2 :
  vouts (pre ++ [r1]) = vouts pre ++ [c1] ->
  vouts (pre ++ [r1] ++ mid) = vouts pre ++ [c1] ->
  vouts (pre ++ [r1] ++ mid ++ [r2]) = vouts pre ++ [c1; c2] ->
  0 <= vr_ts r2 - vr_ts r1 ->
  vdyn_wrt r1 r2 = false ->
  vam_ts c1 = vr_ts r1 /\ vam_ts c2 = vr_ts r2 /\ T_GENVAMMIN <= vr_ts r2 - vr_ts r1.
Proof.
  intros H1 H2 H3 Hord Hdyn. destruct (vtwo _ _ _ _ _ _ H1 H2 H3) as (E1 & Em & E2).
  apply (min_gap_partial gen_vparams pre r1 mid r2 c1 c2 gen_vparams_ok E1 Em E2 Hord).
  fold (vreach pre). fold (vafter1 pre r1). rewrite (vrun_silent _ _ _ Em).
  unfold vafter1. rewrite (vdynamics_after _ _ _ _ _ E1). exact Hdyn.
Qed.

Definition vam_min_gap_full : Prop :=
  forall pre r1 c1 mid r2 c2,
  vouts (pre ++ [r1]) = vouts pre ++ [c1] ->
  vouts (pre ++ [r1] ++ mid) = vouts pre ++ [c1] ->
  vouts (pre ++ [r1] ++ mid ++ [r2]) = vouts pre ++ [c1; c2] ->
  0 <= vr_ts r2 - vr_ts r1 ->
  T_GENVAMMIN <= vr_ts r2 - vr_ts r1.

Lemma tv_min_gap_refuted : ~ vam_min_gap_full.
Proof.
  intros H.
  specialize (H [] (vrep 630000000000 0 0) (Vam 630000000000 true 7168) []
                (vrep 630000000020 (2 # 1) 200) (Vam 630000000020 false 7188) eq_refl eq_refl eq_refl).
  vm_compute in H. apply H; [discriminate|reflexivity].
Qed.

Lemma tv_max_gap pre r1 c1 mid r2 P :
  0 <= P -> P + T_GENVAMMAX < 65536 ->
  vouts (pre ++ [r1]) = vouts pre ++ [c1] ->
  vouts (pre ++ [r1] ++ mid) = vouts pre ++ [c1] ->
  vdense P (vr_ts r1) (mid ++ [r2]) ->
  vr_ts r2 - vr_ts r1 <= T_GENVAMMAX + P.
Proof.
  intros HP HPm H1 H2 Hd. destruct (vone_then_quiet _ _ _ _ H1 H2) as (E1 & Em).
  exact (max_gap gen_vparams pre r1 c1 mid r2 P gen_vparams_ok HP HPm E1 Em Hd).
Qed.

Lemma tv_deadline pre r1 c1 mid r2 P :
  0 <= P -> P + T_GENVAMMAX < 65536 ->
  vouts (pre ++ [r1]) = vouts pre ++ [c1] ->
  vouts (pre ++ [r1] ++ mid) = vouts pre ++ [c1] ->
  vdense P (vr_ts r1) (mid ++ [r2]) ->
  T_GENVAMMAX <= vr_ts r2 - vr_ts r1 ->
  exists c2, vouts (pre ++ [r1] ++ mid ++ [r2]) = vouts pre ++ [c1; c2] /\ vam_ts c2 = vr_ts r2.
Proof.
  intros HP HPm H1 H2 Hd Hle. destruct (vone_then_quiet _ _ _ _ H1 H2) as (E1 & Em).
  destruct (deadline gen_vparams pre r1 c1 mid r2 P gen_vparams_ok HP HPm E1 Em Hd Hle) as (c2 & E2 & Ht).
  exists c2. split; [|exact Ht].
  rewrite vouts3, E1, Em. unfold vafter1, vreach. rewrite E2. reflexivity.
Qed.

Lemma tv_lf_rule pre rl cl mid r2 c2 :
  vouts (pre ++ [rl]) = vouts pre ++ [cl] -> vam_lf cl = true ->
  (forall c, In c (snd (vrun gen_vparams (vreach (pre ++ [rl])) mid)) -> vam_lf c = false) ->
  vouts (pre ++ [rl] ++ mid ++ [r2]) = vouts (pre ++ [rl] ++ mid) ++ [c2] ->
  (T_GENVAM_LFMIN <= vr_now r2 - vr_now rl -> vam_lf c2 = true) /\
  (vam_lf c2 = true -> T_GENVAM_LFMIN <= vr_now r2 - vr_now rl \/ vr_clop r2 = true).
Proof.
  intros H1 Hlf Hh H2.
  rewrite vouts_snoc in H1. apply app_inv_head in H1.
  rewrite vouts3, vouts2, !app_assoc in H2. apply app_inv_head in H2.
  assert (Er : vreach (pre ++ [rl]) = vafter1 pre rl).
  { unfold vreach, vafter1, vreach. rewrite vrun_app, vrun_single. reflexivity. }
  rewrite Er in Hh.
  apply (lf_rule gen_vparams (vreach pre) rl cl mid r2 c2 H1 Hlf); [|exact H2].
  unfold vall_hf. apply forallb_forall. intros c Hc. rewrite (Hh c Hc). reflexivity.
Qed.

(* ---- failed hand-overs --------------------------------------------------------------------- *)

(* A report from which no VAM could be handed over leaves no trace: no VAM, the state (last VAM
   time, dynamics references, time of the last low-frequency container, first-VAM flag) is the
   one before the report, and every later VAM is the one the history without it produces. *)
Lemma tv_failed_no_trace pre r post :
  vreach (pre ++ [vfailed r]) = vreach pre /\
  vouts (pre ++ [vfailed r] ++ post) = vouts (pre ++ post).
Proof.
  assert (E : forall s, vstep gen_vparams s (vfailed r) = (s, [])).
  { intros s. reflexivity. }
  split.
  - unfold vreach. rewrite vrun_app, vrun_single. cbn [fst]. rewrite E. reflexivity.
  - unfold vouts. rewrite (vrun_app _ _ pre ([vfailed r] ++ post)), (vrun_app _ _ pre post). cbn [snd]. f_equal.
    cbn [app]. rewrite vrun_cons, E. reflexivity.
Qed.

(* concrete run: the VAM due at +2100 ms with the low-frequency container fails (twice); the VAM
   at +2300 carries the container *)
Lemma example_vrun_failed :
  snd (vrun gen_vparams (vinit gen_vparams)
         [vrep 630000000000 0 0; vrep 630000000100 0 0; vfailed (vrep 630000002100 0 0);
          vfailed (vrep 630000002200 0 0); vrep 630000002300 0 0; vrep 630000002400 0 0])
  = [Vam 630000000000 true 7168; Vam 630000000100 false 7268; Vam 630000002300 true 9468;
     Vam 630000002400 false 9568].
Proof. vm_compute. reflexivity. Qed.

Lemma vam_constants :
  T_GENVAMMIN = 100 /\ T_GENVAMMAX = 5000 /\ T_GENVAM_LFMIN = 2000 /\
  T_GENVAMMIN <= T_GENVAM_INITIAL <= T_GENVAMMAX /\
  (MINREFERENCEPOINTPOSITIONCHANGETHRESHOLD == 4)%Q /\ (MINGROUNDSPEEDCHANGETHRESHOLD == 1 # 2)%Q /\
  (MINGROUNDVELOCITYORIENTATIONCHANGETHRESHOLD == 4)%Q.
Proof. repeat split; vm_compute; congruence. Qed.
