(* C19 - lemmas about the gate keeper model (Annex B). *)
From Coq Require Import ZArith QArith Qabs Qminmax List Bool Lia Lqa.
From FlexVerif Require Import Gen.C19Consts Model.Dcc Model.DccSpec Proofs.DccProofs.
Import ListNotations.
Open Scope Q_scope.
#[local] Opaque Qred.

(* ---- the clamp of B.1 / B.2 ------------------------------------------------- *)
Lemma clamp_is_minmax x : clamp_interval x == Qmin (Qmax x gmin) gmax.
Proof.
  unfold clamp_interval. rewrite pymin_Qmin.
  apply Q.min_compat; [apply pymax_Qmax | reflexivity].
Qed.

Lemma clamp_range x : gmin <= clamp_interval x <= gmax.
Proof.
  pose proof gmin_le_gmax.
  unfold clamp_interval, pymin, pymax.
  destruct (Qltb x gmin) eqn:E1; destruct (Qltb gmax _) eqn:E2; qhyps; lra.
Qed.

(* ---- invariant of reachable states -------------------------------------------- *)
Definition ginv (st : gstate) : Prop :=
  0 < g_delta st /\
  match g_sched st with
  | None => True
  | Some (pg, go) => pg + gmin <= go /\ go <= pg + gmax
  end.

Lemma ginv_init d : 0 < d -> ginv (gate_init d).
Proof. intros H. split; [exact H | exact I]. Qed.

Lemma ginv_step st op : ginv st -> ginv (fst (gate_step st op)).
Proof.
  intros [Hd Hs]. destruct op as [t | t ton | t dnew]; cbn [gate_step].
  - split; assumption.
  - destruct (Qleb ton 0); [split; assumption|].
    destruct (is_open st t); cbn [negb fst]; [|split; assumption].
    split; cbn [g_delta g_sched]; [exact Hd|].
    rewrite Qred_correct. pose proof (clamp_range (ton / g_delta st)). lra.
  - destruct (Qleb dnew 0) eqn:E; [split; assumption|]. qhyps.
    destruct (g_sched st) as [[pg go]|] eqn:S; cbn [fst].
    + destruct (is_open st t); cbn [fst]; split; cbn [g_delta g_sched]; try exact E; try exact Hs.
      rewrite Qred_correct. pose proof (clamp_range (g_delta st / dnew * (go - pg))). lra.
    + split; cbn [g_delta g_sched]; [exact E | exact I].
Qed.

Lemma ginv_final : forall ops st, ginv st -> ginv (gate_final st ops).
Proof.
  induction ops as [|op r IH]; intros st H; cbn [gate_final]; [exact H|].
  apply IH, ginv_step, H.
Qed.

(* ---- opening times ------------------------------------------------------------------ *)
Lemma is_open_none st t : g_sched st = None -> is_open st t = true.
Proof. intros H. unfold is_open. rewrite H. reflexivity. Qed.

Lemma is_open_iff st t pg go : g_sched st = Some (pg, go) -> (is_open st t = true <-> go - geps <= t).
Proof. intros H. unfold is_open. rewrite H. apply Qleb_true. Qed.

Lemma is_open_false_iff st t pg go : g_sched st = Some (pg, go) -> (is_open st t = false <-> t < go - geps).
Proof. intros H. unfold is_open. rewrite H. apply Qleb_false. Qed.

(* admit_packet: B.1 *)
Lemma gate_admit_open st t ton : 0 < ton -> is_open st t = true ->
  exists go, gate_step st (GAdmit t ton) = ({| g_delta := g_delta st; g_sched := Some (t, go) |}, 1%Z) /\
             go == B1 gmin gmax t ton (g_delta st).
Proof.
  intros Hton Ho. cbn [gate_step].
  replace (Qleb ton 0) with false by (symmetry; apply Qleb_false; exact Hton).
  rewrite Ho. cbn [negb]. eexists. split; [reflexivity|].
  rewrite Qred_correct. unfold B1. rewrite clamp_is_minmax. reflexivity.
Qed.

Lemma gate_admit_closed st t ton : 0 < ton -> is_open st t = false ->
  gate_step st (GAdmit t ton) = (st, 0%Z).
Proof.
  intros Hton Ho. cbn [gate_step].
  replace (Qleb ton 0) with false by (symmetry; apply Qleb_false; exact Hton).
  rewrite Ho. reflexivity.
Qed.

Lemma gate_admit_bad_ton st t ton : ton <= 0 -> gate_step st (GAdmit t ton) = (st, 2%Z).
Proof. intros H. cbn [gate_step]. apply Qleb_true in H. rewrite H. reflexivity. Qed.

(* update_delta: B.2 while the gate is closed, delta only otherwise *)
Lemma gate_update_closed st t dnew pg go : 0 < dnew -> g_sched st = Some (pg, go) -> is_open st t = false ->
  exists go', gate_step st (GUpdate t dnew) = ({| g_delta := dnew; g_sched := Some (pg, go') |}, 0%Z) /\
              go' == B2 gmin gmax pg go (g_delta st) dnew.
Proof.
  intros Hd Hs Ho. cbn [gate_step].
  replace (Qleb dnew 0) with false by (symmetry; apply Qleb_false; exact Hd).
  rewrite Hs, Ho. eexists. split; [reflexivity|].
  rewrite Qred_correct. unfold B2. rewrite clamp_is_minmax. reflexivity.
Qed.

Lemma gate_update_open st t dnew : 0 < dnew -> is_open st t = true ->
  gate_step st (GUpdate t dnew) = ({| g_delta := dnew; g_sched := g_sched st |}, 0%Z).
Proof.
  intros Hd Ho. cbn [gate_step].
  replace (Qleb dnew 0) with false by (symmetry; apply Qleb_false; exact Hd).
  destruct (g_sched st) as [[pg go]|] eqn:S; [rewrite Ho|]; reflexivity.
Qed.

Lemma gate_update_bad_delta st t dnew : dnew <= 0 -> gate_step st (GUpdate t dnew) = (st, 2%Z).
Proof. intros H. cbn [gate_step]. apply Qleb_true in H. rewrite H. reflexivity. Qed.

(* ---- admissions ---------------------------------------------------------------------- *)
(* shape of a step: either nothing but delta / t_go changed (same t_pg), or an admission at t *)
Lemma gate_step_cases st op :
  let st' := fst (gate_step st op) in
  (snd (gate_step st op) = 1%Z /\ exists t ton go, op = GAdmit t ton /\ is_open st t = true /\
                                     g_sched st' = Some (t, go))
  \/ ((forall t ton, op = GAdmit t ton -> snd (gate_step st op) <> 1%Z) /\
      match g_sched st, g_sched st' with
      | None, None => True
      | Some (pg, _), Some (pg', _) => pg' = pg
      | _, _ => False
      end).
Proof.
  destruct op as [t | t ton | t dnew]; cbn [gate_step].
  - right. split; [discriminate|]. cbn [fst]. destruct (g_sched st) as [[? ?]|]; auto.
  - destruct (Qleb ton 0).
    { right. cbn [fst snd]. split; [intros; discriminate|]. destruct (g_sched st) as [[? ?]|]; auto. }
    destruct (is_open st t) eqn:Ho; cbn [negb fst snd].
    + left. split; [reflexivity|]. do 3 eexists. repeat split. exact Ho.
    + right. split; [intros; discriminate|]. destruct (g_sched st) as [[? ?]|]; auto.
  - right. split; [discriminate|].
    destruct (Qleb dnew 0); cbn [fst]; [destruct (g_sched st) as [[? ?]|]; auto|].
    destruct (g_sched st) as [[pg go]|]; cbn [fst g_sched]; [|exact I].
    destruct (is_open st t); cbn [fst g_sched]; reflexivity.
Qed.

Definition sched_pg (st : gstate) : option Q := option_map fst (g_sched st).

Lemma admitted_chain : forall ops st, ginv st ->
  chain (gmin - geps) (sched_pg st) (admitted st ops).
Proof.
  induction ops as [|op r IH]; intros st Hinv; cbn [admitted]; [exact I|].
  pose proof (ginv_step st op Hinv) as Hinv'.
  pose proof (gate_step_cases st op) as Hc. cbv zeta in Hc.
  destruct (gate_step st op) as [st' res] eqn:Est. cbn [fst snd] in *.
  destruct Hc as [[Hres (t & ton & go & -> & Ho & Hs')] | [Hno Hsame]].
  - subst res. cbn [Z.eqb Pos.eqb]. cbn [chain]. split.
    + unfold sched_pg. destruct (g_sched st) as [[pg go0]|] eqn:S; cbn [option_map fst]; [|exact I].
      destruct Hinv as [_ Hs]. rewrite S in Hs.
      apply (is_open_iff st t pg go0 S) in Ho. lra.
    + specialize (IH st' Hinv'). unfold sched_pg in IH. rewrite Hs' in IH. exact IH.
  - assert (Hpg : sched_pg st' = sched_pg st).
    { unfold sched_pg. destruct (g_sched st) as [[pg ?]|], (g_sched st') as [[pg' ?]|]; try contradiction;
        [subst; reflexivity | reflexivity]. }
    specialize (IH st' Hinv'). rewrite Hpg in IH.
    destruct op as [t | t ton | t dnew]; try exact IH.
    destruct (res =? 1)%Z eqn:E; [|exact IH].
    apply Z.eqb_eq in E. exfalso. exact (Hno t ton eq_refl E).
Qed.

(* chain with a larger distance implies chain with a smaller one *)
Lemma chain_weaken d d' : d' <= d -> forall l lo, chain d lo l -> chain d' lo l.
Proof.
  intros Hd. induction l as [|t r IH]; intros lo H; cbn [chain] in *; [exact I|].
  destruct H as [H1 H2]. split; [|apply IH; exact H2].
  destruct lo; [lra | exact I].
Qed.

(* all pairs, not only neighbours *)
Lemma chain_all_pairs d : 0 <= d -> forall l lo, chain d lo l ->
  forall i j, (i < j < length l)%nat -> nth i l 0 + d <= nth j l 0.
Proof.
  intros Hd. induction l as [|t r IH]; intros lo H i j Hij; cbn [length] in Hij; [lia|].
  cbn [chain] in H. destruct H as [_ H].
  destruct j as [|j]; [lia|]. destruct i as [|i].
  - cbn [nth]. clear IH. revert t H j Hij. induction r as [|u r IHr]; intros t H j Hij; cbn [length] in Hij; [lia|].
    cbn [chain] in H. destruct H as [Hu H]. destruct j as [|j]; cbn [nth]; [lra|].
    assert (Hj : (0 < S j < S (length r))%nat) by lia.
    specialize (IHr u H j Hj). cbn [nth] in IHr. lra.
  - cbn [nth]. apply (IH (Some t) H). lia.
Qed.

Lemma chain_lower d : 0 <= d -> forall l p, chain d (Some p) l -> Forall (fun t => p + d <= t) l.
Proof.
  intros Hd. induction l as [|t r IH]; intros p H; [constructor|].
  cbn [chain] in H. destruct H as [H1 H2]. constructor; [exact H1|].
  specialize (IH t H2). eapply Forall_impl; [|exact IH]. cbn. intros a Ha. lra.
Qed.

(* B.1/B.2 keep the gate closed for less than a second: in every reachable state the gate is open
   from t_pg + gmax on *)
Lemma open_after_gmax st pg go t : ginv st -> g_sched st = Some (pg, go) -> pg + gmax <= t ->
  is_open st t = true.
Proof.
  intros [_ Hs] S Ht. rewrite S in Hs. apply (is_open_iff st t pg go S).
  pose proof geps_pos. lra.
Qed.

(* t_pg of the final state is the time of the last admission *)
Lemma final_pg_is_last_admission : forall ops st pg go,
  g_sched (gate_final st ops) = Some (pg, go) ->
  (admitted st ops = [] /\ exists go0, g_sched st = Some (pg, go0)) \/
  (exists l, admitted st ops = l ++ [pg]).
Proof.
  induction ops as [|op r IH]; intros st pg go H; cbn [gate_final admitted] in *.
  - left. split; [reflexivity | eexists; exact H].
  - pose proof (gate_step_cases st op) as Hc. cbv zeta in Hc.
    destruct (gate_step st op) as [st' res] eqn:Est. cbn [fst snd] in *.
    specialize (IH st' pg go H).
    destruct Hc as [[Hres (t & ton & go1 & -> & Ho & Hs')] | [Hno Hsame]].
    + subst res. cbn [Z.eqb Pos.eqb]. right.
      destruct IH as [[E (go0 & S)] | [l E]].
      * rewrite E. exists []. rewrite Hs' in S. injection S as -> _. reflexivity.
      * rewrite E. exists (t :: l). reflexivity.
    + assert (Hadm : match op with
                      | GAdmit t _ => if (res =? 1)%Z then t :: admitted st' r else admitted st' r
                      | _ => admitted st' r end = admitted st' r).
      { destruct op as [t | t ton | t dnew]; try reflexivity.
        destruct (res =? 1)%Z eqn:E; [|reflexivity].
        apply Z.eqb_eq in E. exfalso. exact (Hno t ton eq_refl E). }
      rewrite Hadm. destruct IH as [[E (go0 & S)] | [l E]].
      * left. split; [exact E|]. rewrite S in Hsame.
        destruct (g_sched st) as [[pg0 go00]|]; [|contradiction]. subst pg0. eexists; reflexivity.
      * right. exists l. exact E.
Qed.

(* ---- the witness against exact 25 ms spacing ------------------------------------------ *)
(* second arrival: the double 0.025 - 0.9e-9 = 0.0249999991 (exact value below), i.e. 0.9 ns early *)
Definition early_t2 : Q := 7205759144385455 # 288230376151711744.
Definition early_ops : list gop := [GAdmit 0 (1 # 1000); GAdmit early_t2 (1 # 1000)].

Lemma early_admitted : admitted (gate_init 1) early_ops = [0; early_t2] /\ early_t2 < 0 + ms25.
Proof. split; vm_compute; reflexivity. Qed.

(* a state in which the gate is open although t_go has not been reached *)
Lemma early_open :
  let st := fst (gate_step (gate_init 1) (GAdmit 0 (1 # 1000))) in
  exists pg go, g_sched st = Some (pg, go) /\ is_open st early_t2 = true /\ early_t2 < go.
Proof. cbv zeta. do 2 eexists. split; [reflexivity|]. split; vm_compute; reflexivity. Qed.

(* ---- statements about reachable states (any history from the constructor) ------------ *)
Lemma ginv_reachable d0 ops : 0 < d0 -> ginv (gate_final (gate_init d0) ops).
Proof. intros H. apply ginv_final, ginv_init, H. Qed.

Lemma gate_one_per_opening d0 ops0 t ton st' ops : 0 < d0 ->
  gate_step (gate_final (gate_init d0) ops0) (GAdmit t ton) = (st', 1%Z) ->
  is_open st' t = false /\ Forall (fun t' => t + (gmin - geps) <= t') (admitted st' ops).
Proof.
  intros Hd Hst. set (st := gate_final (gate_init d0) ops0) in *.
  pose proof (ginv_reachable d0 ops0 Hd) as Hinv. fold st in Hinv.
  pose proof (ginv_step st (GAdmit t ton) Hinv) as Hinv'.
  pose proof (gate_step_cases st (GAdmit t ton)) as Hc. cbv zeta in Hc.
  rewrite Hst in *. cbn [fst snd] in *.
  destruct Hc as [[_ (t1 & ton1 & go & E & Ho & Hs')] | [Hno _]];
    [|exfalso; exact (Hno t ton eq_refl eq_refl)].
  injection E as <- <-.
  pose proof geps_lt_gmin as Hlt. pose proof geps_pos as Hpos.
  split.
  - apply (is_open_false_iff st' t t go Hs'). destruct Hinv' as [_ Hs]. rewrite Hs' in Hs. lra.
  - pose proof (admitted_chain ops st' Hinv') as Hch. unfold sched_pg in Hch. rewrite Hs' in Hch.
    cbn [option_map fst] in Hch. apply chain_lower; [lra | exact Hch].
Qed.

Lemma gate_closed_at_most_1s d0 ops pg go t : 0 < d0 ->
  g_sched (gate_final (gate_init d0) ops) = Some (pg, go) -> pg + 1 <= t ->
  is_open (gate_final (gate_init d0) ops) t = true.
Proof.
  intros Hd S Ht. apply (open_after_gmax _ pg go t (ginv_reachable d0 ops Hd) S).
  destruct gate_constants as (_ & _ & Hmax & _). unfold s1 in Hmax. rewrite Hmax. exact Ht.
Qed.

Lemma gate_tgo_within_bounds d0 ops pg go : 0 < d0 ->
  g_sched (gate_final (gate_init d0) ops) = Some (pg, go) -> pg + ms25 <= go /\ go <= pg + 1.
Proof.
  intros Hd S. destruct (ginv_reachable d0 ops Hd) as [_ Hs]. rewrite S in Hs.
  destruct gate_constants as (Hmin & _ & Hmax & _). unfold s1 in Hmax. rewrite Hmax in Hs. lra.
Qed.

Lemma gate_last_admission d0 ops pg go :
  g_sched (gate_final (gate_init d0) ops) = Some (pg, go) ->
  exists l, admitted (gate_init d0) ops = l ++ [pg].
Proof.
  intros S. destruct (final_pg_is_last_admission ops (gate_init d0) pg go S) as [[_ (go0 & C)] | H].
  - discriminate C.
  - exact H.
Qed.

Lemma gate_spacing d0 ops i j : 0 < d0 ->
  (i < j < length (admitted (gate_init d0) ops))%nat ->
  nth i (admitted (gate_init d0) ops) 0 + (ms25 - geps) <= nth j (admitted (gate_init d0) ops) 0.
Proof.
  intros Hd Hij.
  pose proof (admitted_chain ops (gate_init d0) (ginv_init d0 Hd)) as Hch.
  destruct gate_constants as (Hmin & _). pose proof geps_lt_ms25.
  apply (chain_all_pairs (ms25 - geps)) with (lo := sched_pg (gate_init d0)); [lra | | exact Hij].
  apply (chain_weaken (gmin - geps)); [lra | exact Hch].
Qed.

(* the clauses that the early opening falsifies *)
Definition gate_spacing_full : Prop :=
  forall d0 ops i j, 0 < d0 -> (i < j < length (admitted (gate_init d0) ops))%nat ->
  nth i (admitted (gate_init d0) ops) 0 + ms25 <= nth j (admitted (gate_init d0) ops) 0.

Definition gate_opens_exactly_full : Prop :=
  forall d0 ops pg go t, 0 < d0 -> g_sched (gate_final (gate_init d0) ops) = Some (pg, go) ->
  (is_open (gate_final (gate_init d0) ops) t = true <-> go <= t).

Lemma gate_spacing_refuted : ~ gate_spacing_full.
Proof.
  intros H. specialize (H 1 early_ops 0%nat 1%nat).
  destruct early_admitted as [E L]. rewrite E in H. cbn [nth length] in H.
  assert (0 + ms25 <= early_t2) by (apply H; [reflexivity | lia]). lra.
Qed.

Lemma gate_opens_exactly_refuted : ~ gate_opens_exactly_full.
Proof.
  intros H. destruct early_open as (pg & go & S & Ho & Hlt).
  specialize (H 1 [GAdmit 0 (1 # 1000)] pg go early_t2 ltac:(reflexivity) S).
  cbn [gate_final] in H. apply H in Ho. lra.
Qed.

Lemma gate_opens_exactly_partial d0 ops pg go t :
  g_sched (gate_final (gate_init d0) ops) = Some (pg, go) ->
  (is_open (gate_final (gate_init d0) ops) t = true <-> go - geps <= t).
Proof. apply is_open_iff. Qed.

Lemma gate_open_before_first_admission d0 ops t :
  g_sched (gate_final (gate_init d0) ops) = None -> is_open (gate_final (gate_init d0) ops) t = true.
Proof. apply is_open_none. Qed.

(* non-vacuity: a run with three admissions, one rejection and a B.2 rescheduling *)
Lemma gate_example :
  let ops := [GAdmit 0 (1 # 1000); GAdmit (1 # 100) (1 # 1000); GUpdate (2 # 100) (2 # 100);
              GAdmit (5 # 100) (1 # 1000); GAdmit (1 # 1) (1 # 1000)] in
  admitted (gate_init (1 # 100)) ops = [0; 5 # 100; 1 # 1] /\
  map fst (gate_run (gate_init (1 # 100)) ops) = [1; 0; 0; 1; 1]%Z.
Proof. cbv zeta. split; vm_compute; reflexivity. Qed.
