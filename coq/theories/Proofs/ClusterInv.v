(* Invariant of the clustering state machine (Model/Cluster.v) and its preservation by every
   method; proved for every well-formed event and hence for every reachable state. *)
From FlexVerif Require Import Base.Prelude Gen.C18Consts Model.Cluster.
From Coq Require Import ZifyBool.
Ltac Zify.zify_post_hook ::= Z.to_euclidean_division_equations.

(* ---- facts about the generated constants (re-checked whenever Gen/C18Consts.v changes) ---- *)
Lemma consts_facts :
  0 < time_cluster_join_notification /\ 0 < time_cluster_join_success /\
  0 < time_cluster_leave_notification /\ 0 < time_cluster_breakup_warning /\
  0 < time_cluster_continuity /\ 1 <= min_cluster_size /\ 0 < quarter_second /\ 1 <= delta_time_cap.
Proof. cbv. repeat split; congruence. Qed.

(* the values of ETSI TS 103 300-3 V2.3.1 Table 15, in ticks *)
Lemma consts_standard :
  time_cluster_uniqueness_threshold = 30 * ticks_per_second /\
  time_cluster_breakup_warning = 3 * ticks_per_second /\
  time_cluster_join_notification = 3 * ticks_per_second /\
  2 * time_cluster_join_success = ticks_per_second /\
  time_cluster_continuity = 2 * ticks_per_second /\
  time_cluster_leave_notification = ticks_per_second /\
  4 * quarter_second = ticks_per_second.
Proof. cbv. repeat split. Qed.

Global Opaque time_cluster_join_notification time_cluster_join_success time_cluster_leave_notification
  time_cluster_breakup_warning time_cluster_continuity time_cluster_uniqueness_threshold nearby_max_age
  num_create_cluster min_cluster_size max_cluster_distance quarter_second delta_time_cap cluster_id_attempts.

(* ---- the invariant, by state ------------------------------------------- *)
Definition wf_cluster (c : cluster_t) : Prop := 1 <= c_id c <= 255 /\ 1 <= c_card c.

Definition no_membership (s : state) : Prop := joined s = None /\ leader s = None /\ last_leader s = None.

(* what the asserts in _update_standalone / _update_passive need, and which phases exclude each other *)
Definition join_ok (s : state) : Prop :=
  match js s with
  | JNone => True
  | JNotify | JWaiting => j_started s <> None /\ j_target s <> None /\ ls s = LNone
  | JCancelled | JFailed => jl_started s <> None /\ ls s = LNone
  | JJoined => False
  end.

Definition leave_ok (s : state) : Prop :=
  match ls s with LNone => True | LNotify => l_started s <> None /\ js s = JNone end.

Definition inv (s : state) : Prop :=
  match vst s with
  | Idle => cluster s = None /\ no_membership s /\ js s = JNone /\ ls s = LNone
  | Standalone => cluster s = None /\ no_membership s /\ join_ok s /\ leave_ok s
  | Leader => (exists c, cluster s = Some c /\ wf_cluster c) /\ no_membership s /\ js s = JNone /\ ls s = LNone
  | Passive => cluster s = None /\ joined s <> None /\ leader s <> None /\ last_leader s <> None
               /\ js s = JJoined /\ ls s = LNone
  end.

Ltac destr_state s :=
  destruct s as [own prof nw st cl jn ld ll j jt jst jlr jls l lr lc lst vr nc sn].

Ltac break_if :=
  match goal with
  | |- context [if ?b then _ else _] => destruct b eqn:?
  | |- context [match ?x with _ => _ end] =>
      match type of x with
      | option _ => destruct x eqn:?
      | prod _ _ => destruct x eqn:?
      | vbs => destruct x eqn:?
      | jsub => destruct x eqn:?
      | lsub => destruct x eqn:?
      end
  end.

Ltac inv_auto :=
  unfold inv, no_membership, join_ok, leave_ok in *; cbn in *;
  repeat match goal with
         | H : _ /\ _ |- _ => destruct H
         | H : exists _, _ |- _ => destruct H
         end;
  subst; cbn in *;
  try solve [ intuition (try congruence; try discriminate; eauto) ].

Lemma inv_init : forall own prof t0, inv (init own prof t0).
Proof. intros. inv_auto. Qed.

Lemma inv_set_now : forall s t, inv s -> inv (set_now t s).
Proof. intros s t H. destr_state s. destruct st; inv_auto. Qed.

Lemma inv_role_on : forall s, inv s -> inv (role_on s).
Proof. intros s H. destr_state s. unfold role_on. destruct st; inv_auto. Qed.

Lemma inv_role_off : forall s, inv s -> inv (role_off s).
Proof. intros s H. destr_state s. unfold role_off. destruct st; inv_auto. Qed.

(* the identifier picked by _generate_unique_cluster_id is one of the draws *)
Lemma pick_id_in : forall recent draws cid, pick_id recent draws = Some cid -> In cid draws.
Proof.
  unfold pick_id. intros recent draws cid H. apply find_some in H. destruct H as [H _].
  revert H. generalize cluster_id_attempts. intros n. revert draws.
  induction n; destruct draws; cbn; intros; try contradiction.
  destruct H; auto.
Qed.

Lemma inv_try_create : forall ds s, Forall (fun d => 1 <= d <= 255) ds -> inv s -> inv (fst (try_create ds s)).
Proof.
  intros ds s Hd H. destr_state s. unfold try_create. cbn.
  destruct st; cbn; try assumption.
  repeat (break_if; cbn; try assumption); try solve [inv_auto].
  - (* a cluster is created *)
    apply pick_id_in in Heqo. rewrite Forall_forall in Hd. specialize (Hd _ Heqo).
    pose proof consts_facts as C.
    destruct j; destruct l; cbn in *; try discriminate.
    unfold inv, no_membership, wf_cluster in *; cbn in *.
    intuition (try congruence). eexists; split; [reflexivity|]. cbn. lia.
Qed.

Lemma inv_initiate_join : forall c s, inv s -> inv (fst (initiate_join c s)).
Proof.
  intros c s H. destr_state s. unfold initiate_join. cbn.
  destruct st; cbn; try assumption.
  destruct j; destruct l; cbn; try assumption. inv_auto.
Qed.

Lemma inv_cancel_join : forall s, inv s -> inv (cancel_join s).
Proof.
  intros s H. destr_state s. unfold cancel_join. cbn.
  destruct j; cbn; try assumption; destruct st; inv_auto.
Qed.

Lemma inv_confirm_join_failed : forall s, inv s -> inv (confirm_join_failed s).
Proof.
  intros s H. destr_state s. unfold confirm_join_failed. cbn.
  destruct j; cbn; try assumption; destruct st; inv_auto.
Qed.

Lemma inv_do_leave : forall r s, inv s -> vst s = Passive -> inv (do_leave r s).
Proof.
  intros r s H P. destr_state s. cbn in P. subst. unfold do_leave. inv_auto.
Qed.

Lemma inv_leave : forall r s, inv s -> inv (leave r s).
Proof.
  intros r s H. unfold leave. destruct (vst s) eqn:E; try assumption.
  - destruct (js s); try assumption. now apply inv_cancel_join.
  - now apply inv_do_leave.
Qed.

Lemma inv_breakup : forall r s, inv s -> inv (fst (breakup r s)).
Proof.
  intros r s H. destr_state s. unfold breakup. cbn.
  destruct st; cbn; try assumption. destruct cl as [c|]; cbn; try assumption.
  destruct (c_bk_started c); cbn; try assumption.
  unfold inv, no_membership, wf_cluster in *; cbn in *.
  destruct H as [[c' [E W]] R]. inversion E; subst c'. split; [|exact R].
  eexists; split; [reflexivity|]. cbn. exact W.
Qed.

Lemma inv_expire_tables : forall s, inv s -> inv (expire_tables s).
Proof. intros s H. destr_state s. unfold expire_tables. destruct st; inv_auto. Qed.

Lemma vst_expire_tables : forall s, vst (expire_tables s) = vst s.
Proof. intros s. destr_state s. reflexivity. Qed.

Lemma inv_leave_timeout : forall s, inv s -> inv (leave_timeout s).
Proof.
  intros s H. destr_state s. unfold leave_timeout. cbn.
  destruct l; cbn; try assumption. destruct lst; cbn; try assumption.
  break_if; try assumption. destruct st; inv_auto.
Qed.

Lemma inv_update_standalone : forall s, inv s -> vst s = Standalone -> inv (update_standalone s).
Proof.
  intros s H P. unfold update_standalone. apply inv_leave_timeout.
  destr_state s. cbn in P. subst st. cbn.
  destruct j; cbn; try assumption.
  - destruct jst; cbn; try assumption. break_if; try assumption. inv_auto.
  - destruct jst; cbn; try assumption. break_if; try assumption.
    apply (inv_confirm_join_failed _ H).
  - destruct jls; cbn; try assumption. break_if; try assumption. inv_auto.
  - destruct jls; cbn; try assumption. break_if; try assumption. inv_auto.
Qed.

Lemma inv_update_leader : forall s, inv s -> vst s = Leader -> inv (update_leader s).
Proof.
  intros s H P. destr_state s. cbn in P. subst st. unfold update_leader. cbn.
  destruct cl as [c|]; cbn; try assumption.
  destruct (c_bk_started c); cbn; try assumption. break_if; try assumption. inv_auto.
Qed.

Lemma inv_update_passive : forall s, inv s -> vst s = Passive -> inv (update_passive s).
Proof.
  intros s H P. unfold update_passive.
  destruct (last_leader s).
  - break_if. + now apply inv_do_leave. + now apply inv_leave_timeout.
  - now apply inv_leave_timeout.
Qed.

Lemma inv_update : forall s, inv s -> inv (update s).
Proof.
  intros s H. unfold update. pose proof (inv_expire_tables s H) as H1.
  destruct (vst (expire_tables s)) eqn:E; try assumption.
  - now apply inv_update_standalone.
  - now apply inv_update_leader.
  - now apply inv_update_passive.
Qed.

Lemma inv_rx_tables : forall v s, inv s -> inv (rx_tables v s).
Proof. intros v s H. destr_state s. unfold rx_tables. destruct st; inv_auto. Qed.

Lemma inv_set_ncls : forall x s, inv s -> inv (set_ncls x s).
Proof. intros x s H. destr_state s. destruct st; inv_auto. Qed.

Lemma inv_set_seen : forall x s, inv s -> inv (set_seen x s).
Proof. intros x s H. destr_state s. destruct st; inv_auto. Qed.

Lemma inv_complete_join : forall sid s, inv s -> vst s = Standalone -> js s = JWaiting -> inv (complete_join sid s).
Proof.
  intros sid s H P W. destr_state s. cbn in P, W. subst. unfold complete_join. inv_auto.
Qed.

Lemma inv_rx_info : forall v s, inv s -> inv (rx_info v s).
Proof.
  intros v s H. unfold rx_info. destruct (info v) as [[ocid card]|]; try assumption.
  set (s1 := set_ncls _ s).
  assert (H1 : inv s1) by (apply inv_set_ncls; exact H).
  set (s2 := if has_key (or0 ocid) (seen s1) then s1 else set_seen _ s1).
  assert (H2 : inv s2) by (unfold s2; destruct (has_key _ _); [exact H1 | apply inv_set_seen; exact H1]).
  clearbody s2. clear H1. clearbody s1.
  destruct (vst s2) eqn:E1; try assumption.
  destruct (js s2) eqn:E2; try assumption.
  destruct (j_target s2); try assumption.
  break_if; try assumption. now apply inv_complete_join.
Qed.

Lemma card_of_ge1 : forall p, 1 <= card_of p.
Proof. intros p. unfold card_of. lia. Qed.

Lemma inv_rx_members : forall v s, inv s -> inv (rx_members v s).
Proof.
  intros v s H. destr_state s. unfold rx_members. cbn.
  destruct st; cbn; try assumption. destruct cl as [c|]; cbn; try assumption.
  unfold inv, no_membership, wf_cluster in *; cbn in *.
  destruct H as [[c' [E [Wi Wc]]] R]. inversion E; subst c'. split; [|exact R].
  eexists; split; [reflexivity|].
  pose proof (card_of_ge1 (pending_add (sender v) (c_pending c))).
  destruct (opt_eqb (op_join v) (c_id c)); cbn;
    match goal with |- context [opt_eqb (op_leave v) ?x] => destruct (opt_eqb (op_leave v) x) end; cbn;
    split; try assumption; try apply card_of_ge1.
Qed.

Lemma inv_rx_breakup : forall v s, inv s -> inv (rx_breakup v s).
Proof.
  intros v s H. unfold rx_breakup. destruct (op_breakup v); try assumption.
  destruct (vst s) eqn:E; try assumption.
  break_if; try assumption. break_if; try assumption. now apply inv_do_leave.
Qed.

Lemma inv_rx_heartbeat : forall v s, inv s -> inv (rx_heartbeat v s).
Proof.
  intros v s H. destr_state s. unfold rx_heartbeat. cbn.
  destruct st; cbn; try assumption. break_if; try assumption. inv_auto.
Qed.

Lemma inv_rx : forall v s, inv s -> inv (rx v s).
Proof.
  intros v s H. unfold rx.
  apply inv_rx_heartbeat, inv_rx_breakup, inv_rx_members, inv_rx_info, inv_rx_tables, H.
Qed.

Lemma inv_step : forall s e, wf_event e -> inv s -> inv (step s e).
Proof.
  intros s e W H. unfold step, step_ret. destruct e; cbn.
  - now apply inv_set_now.
  - now apply inv_role_on.
  - now apply inv_role_off.
  - pose proof (inv_try_create draws s W H). destruct (try_create draws s). exact H0.
  - pose proof (inv_initiate_join cid s H). destruct (initiate_join cid s). exact H0.
  - now apply inv_cancel_join.
  - now apply inv_confirm_join_failed.
  - now apply inv_leave.
  - pose proof (inv_breakup reason s H). destruct (breakup reason s). exact H0.
  - now apply inv_update.
  - now apply inv_rx.
Qed.

Lemma inv_run : forall evs s, Forall wf_event evs -> inv s -> inv (run s evs).
Proof.
  induction evs; intros s W H; cbn; [exact H|].
  inversion W; subst. apply IHevs; [assumption|]. now apply inv_step.
Qed.

Lemma reachable_inv : forall s, reachable s -> inv s.
Proof.
  intros s (own & prof & t0 & evs & W & E). subst. apply inv_run; [exact W|]. apply inv_init.
Qed.

Lemma reachable_step : forall s e, reachable s -> wf_event e -> reachable (step s e).
Proof.
  intros s e (own & prof & t0 & evs & W & E) We. exists own, prof, t0, (evs ++ [e]). split.
  - apply Forall_app. split; [exact W|]. constructor; [exact We|constructor].
  - subst. unfold run. rewrite fold_left_app. reflexivity.
Qed.

Lemma reachable_run : forall evs s, reachable s -> Forall wf_event evs -> reachable (run s evs).
Proof.
  induction evs; intros s R W; cbn; [exact R|].
  inversion W; subst. apply IHevs; [|assumption]. now apply reachable_step.
Qed.

Lemma reachable_init : forall own prof t0, reachable (init own prof t0).
Proof. intros. exists own, prof, t0, []. split; [constructor|reflexivity]. Qed.
