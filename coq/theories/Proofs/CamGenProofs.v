(* Lemmas about Model/CamGen.v (CAM generation timing). *)
From FlexVerif Require Import Base.Prelude Gen.C10Consts Model.CamGen.
From Coq Require Import QArith Qabs Qminmax Lqa ZifyBool.
Ltac Zify.zify_post_hook ::= Z.to_euclidean_division_equations.
Open Scope Z_scope.

(* ---- parameters and well-formed states --------------------------------- *)

Definition params_ok (p : params) : Prop :=
  0 <= p_check p /\ p_check p <= p_min p /\ 0 < p_min p /\ p_min p <= p_dcc p /\ p_dcc p <= p_max p.

Definition wf (p : params) (s : st) : Prop :=
  p_min p <= t_gen s <= p_max p /\ 0 <= cam_count s.

Lemma gen_params_ok : params_ok gen_params.
Proof. unfold params_ok; cbn. repeat split; vm_compute; congruence. Qed.

Lemma gen_dcc_is_min : p_dcc gen_params = p_min gen_params.
Proof. reflexivity. Qed.

Lemma init_wf p : params_ok p -> wf p (init p).
Proof. unfold params_ok, wf; cbn; lia. Qed.

(* ---- op list predicates ------------------------------------------------- *)

Definition is_start (o : op) : bool := match o with Start => true | _ => false end.
Definition is_stop (o : op) : bool := match o with Stop => true | _ => false end.
Definition is_rep (o : op) : bool := match o with Rep _ => true | _ => false end.

Definition no_start (ops : list op) : Prop := forallb (fun o => negb (is_start o)) ops = true.
Definition no_startstop (ops : list op) : Prop :=
  forallb (fun o => negb (is_start o) && negb (is_stop o)) ops = true.
Definition no_rep (ops : list op) : Prop := forallb (fun o => negb (is_rep o)) ops = true.

(* timer checks follow each other (and the time `prev`) by at most P, clock non-decreasing *)
Fixpoint dense (P prev : Z) (ops : list op) : Prop :=
  match ops with
  | [] => True
  | Check now _ :: rest => prev <= now <= prev + P /\ dense P now rest
  | _ :: rest => dense P prev rest
  end.

Definition cam_lf (c : out) : bool := match c with Cam _ lf _ _ => lf end.
Definition cam_time (c : out) : Z := match c with Cam t _ _ _ => t end.

(* ---- Qltb --------------------------------------------------------------- *)

Lemma Qltb_lt a b : Qltb a b = true <-> (a < b)%Q.
Proof.
  unfold Qltb. rewrite negb_true_iff. split; intros H.
  - destruct (Qlt_le_dec a b) as [L|L]; [exact L|].
    apply Qle_bool_iff in L. congruence.
  - destruct (Qle_bool b a) eqn:E; [|reflexivity].
    apply Qle_bool_iff in E. exfalso. apply (Qlt_not_le _ _ H E).
Qed.

(* ---- one step ----------------------------------------------------------- *)

Lemma send_spec p s r now cond :
  exists lf, lf = include_lf p s now /\
  snd (send p s r now cond) = [Cam now lf (gdt_of (r_ts r)) (r_id r)] /\
  let s' := fst (send p s r now cond) in
  active s' = active s /\ tpv s' = tpv s /\ last_time s' = Some now /\
  cam_count s' = cam_count s + 1 /\
  last_lf s' = (if lf then Some now else last_lf s) /\
  last_heading s' = opt_or (r_track r) (last_heading s) /\
  last_pos s' = (if r_haspos r then Some (r_id r) else last_pos s) /\
  last_speed s' = opt_or (r_speed r) (last_speed s).
Proof.
  exists (include_lf p s now). unfold send.
  destruct (if cond =? 1 then _ else _) as [tg n]. cbn. repeat split; reflexivity.
Qed.

Lemma send_wf p s r now cond : params_ok p -> wf p s -> wf p (fst (send p s r now cond)).
Proof.
  unfold params_ok, wf, send. intros Hp [Ht Hc].
  destruct (cond =? 1) eqn:Ec.
  - destruct (p_n p <=? n_cnt s + 1) eqn:En; cbn; lia.
  - cbn; lia.
Qed.

(* Every step either emits nothing or is an emitting timer check. *)
Definition emits (p : params) (s : st) (o : op) (s' : st) (c : out) : Prop :=
  exists now d r,
    o = Check now d /\ active s = true /\ tpv s = Some r /\
    c = Cam now (include_lf p s now) (gdt_of (r_ts r)) (r_id r) /\
    (last_time s = None \/ exists t, last_time s = Some t /\ p_dcc p <= now - t) /\
    active s' = true /\ tpv s' = tpv s /\ last_time s' = Some now /\
    cam_count s' = cam_count s + 1 /\
    last_lf s' = (if include_lf p s now then Some now else last_lf s) /\
    last_heading s' = opt_or (r_track r) (last_heading s) /\
    last_pos s' = (if r_haspos r then Some (r_id r) else last_pos s) /\
    last_speed s' = opt_or (r_speed r) (last_speed s).

Lemma step_cases p s o :
  snd (step p s o) = [] \/ exists c, snd (step p s o) = [c] /\ emits p s o (fst (step p s o)) c.
Proof.
  destruct o as [| |r|now d|nowf]; cbn [step snd fst]; try (left; reflexivity).
  destruct (active s) eqn:Ea; [|left; reflexivity].
  unfold evaluate. destruct (tpv s) as [r|] eqn:Et; [|left; reflexivity].
  assert (Hsend : forall cond,
    (last_time s = None \/ exists t, last_time s = Some t /\ p_dcc p <= now - t) ->
    exists c, snd (send p s r now cond) = [c] /\
              emits p s (Check now d) (fst (send p s r now cond)) c).
  { intros cond Hl. destruct (send_spec p s r now cond) as (lf & Elf & Eo & Ha & Htp & Hlt & Hcc & Hlf & Hh & Hpp & Hsp).
    subst lf. eexists; split; [exact Eo|].
    exists now, d, r. repeat split; try assumption; try reflexivity; try congruence. }
  destruct (last_time s) as [t|] eqn:El.
  - destruct ((p_dcc p <=? now - t) && dynamics p s r d) eqn:E1.
    + right. apply Hsend. right. exists t. split; [reflexivity|lia].
    + destruct ((t_gen s <=? now - t) && (p_dcc p <=? now - t)) eqn:E2.
      * right. apply Hsend. right. exists t. split; [reflexivity|lia].
      * left. reflexivity.
  - right. apply Hsend. left. reflexivity.
Qed.

Lemma step_wf p s o : params_ok p -> wf p s -> wf p (fst (step p s o)).
Proof.
  intros Hp Hw. destruct o as [| |r|now d|nowf]; cbn [step fst].
  - unfold start. destruct (active s); [exact Hw|]. unfold wf, params_ok in *; cbn; lia.
  - exact Hw.
  - exact Hw.
  - destruct (active s); [|exact Hw]. unfold evaluate.
    destruct (tpv s) as [r|]; [|exact Hw].
    destruct (last_time s) as [t|].
    + destruct ((p_dcc p <=? now - t) && dynamics p s r d); [apply send_wf; assumption|].
      destruct ((t_gen s <=? now - t) && (p_dcc p <=? now - t)); [apply send_wf; assumption|exact Hw].
    + apply send_wf; assumption.
  - exact Hw.
Qed.

(* A step that emits nothing and is not Start leaves the CAM bookkeeping alone. *)
Lemma step_silent p s o :
  snd (step p s o) = [] -> is_start o = false ->
  let s' := fst (step p s o) in
  last_time s' = last_time s /\ cam_count s' = cam_count s /\ last_lf s' = last_lf s /\
  t_gen s' = t_gen s /\ last_heading s' = last_heading s /\ last_pos s' = last_pos s /\
  last_speed s' = last_speed s /\
  (is_stop o = false -> active s' = active s) /\
  (active s = false -> active s' = false) /\
  (is_rep o = false -> tpv s' = tpv s) /\
  (tpv s <> None -> tpv s' <> None).
Proof.
  intros Ho Hs. destruct (step_cases p s o) as [_|(c & Ec & _)]; [|rewrite Ho in Ec; discriminate].
  destruct o as [| |r|now d|nowf]; try discriminate; cbn [step fst] in *;
    [| | |repeat split; auto; intros; congruence].
  - cbn. repeat split; auto; try discriminate.
  - cbn. repeat split; auto; try discriminate.
  - destruct (active s) eqn:Ea.
    + unfold evaluate in *. destruct (tpv s) as [r|] eqn:Et.
      * destruct (last_time s) as [t|] eqn:El.
        -- destruct ((p_dcc p <=? now - t) && dynamics p s r d).
           { destruct (send_spec p s r now 1) as (lf & _ & Eo & _). rewrite Eo in Ho. discriminate. }
           destruct ((t_gen s <=? now - t) && (p_dcc p <=? now - t)).
           { destruct (send_spec p s r now 2) as (lf & _ & Eo & _). rewrite Eo in Ho. discriminate. }
           cbn. rewrite Et, El. repeat split; auto; intros; congruence.
        -- destruct (send_spec p s r now 1) as (lf & _ & Eo & _). rewrite Eo in Ho. discriminate.
      * cbn. rewrite Et. repeat split; auto; intros; congruence.
    + cbn. repeat split; auto; intros; congruence.
Qed.

(* ---- runs ---------------------------------------------------------------- *)

Lemma run_cons p s o rest :
  run p s (o :: rest) =
  (fst (run p (fst (step p s o)) rest), snd (step p s o) ++ snd (run p (fst (step p s o)) rest)).
Proof.
  cbn [run]. destruct (step p s o) as [s1 o1]. cbn [fst snd]. destruct (run p s1 rest) as [s2 o2]. reflexivity.
Qed.

Lemma run_app p s a b :
  run p s (a ++ b) =
  (fst (run p (fst (run p s a)) b), snd (run p s a) ++ snd (run p (fst (run p s a)) b)).
Proof.
  revert s. induction a as [|o a IH]; intros s.
  - cbn [app run fst snd]. destruct (run p s b); reflexivity.
  - rewrite <- app_comm_cons, !run_cons, IH. cbn [fst snd]. rewrite app_assoc. reflexivity.
Qed.

Lemma run_wf p s ops : params_ok p -> wf p s -> wf p (fst (run p s ops)).
Proof.
  intros Hp. revert s. induction ops as [|o ops IH]; intros s Hw; [exact Hw|].
  rewrite run_cons. cbn [fst]. apply IH. apply step_wf; assumption.
Qed.

(* A run without Start that emits nothing. *)
Lemma run_silent p s ops :
  snd (run p s ops) = [] -> no_start ops ->
  let s' := fst (run p s ops) in
  last_time s' = last_time s /\ cam_count s' = cam_count s /\ last_lf s' = last_lf s /\
  t_gen s' = t_gen s /\ last_heading s' = last_heading s /\ last_pos s' = last_pos s /\
  last_speed s' = last_speed s /\
  (no_startstop ops -> active s' = active s) /\
  (active s = false -> active s' = false) /\
  (no_rep ops -> tpv s' = tpv s) /\
  (tpv s <> None -> tpv s' <> None).
Proof.
  revert s. induction ops as [|o ops IH]; intros s Ho Hn.
  - cbn. repeat split; auto.
  - rewrite run_cons in *. cbn [fst snd] in *.
    apply app_eq_nil in Ho. destruct Ho as [Ho1 Ho2].
    unfold no_start in Hn. cbn [forallb] in Hn. apply andb_true_iff in Hn. destruct Hn as [Hn1 Hn2].
    apply negb_true_iff in Hn1.
    destruct (step_silent p s o Ho1 Hn1) as (A1 & A2 & A3 & A4 & A5 & A6 & A7 & A8 & A9 & A10 & A11).
    destruct (IH _ Ho2 Hn2) as (B1 & B2 & B3 & B4 & B5 & B6 & B7 & B8 & B9 & B10 & B11).
    repeat split; try congruence.
    + intros H. unfold no_startstop in H. cbn [forallb] in H. apply andb_true_iff in H.
      destruct H as [H1 H2]. apply andb_true_iff in H1. destruct H1 as [_ H1]. apply negb_true_iff in H1.
      rewrite (B8 H2). apply A8. exact H1.
    + intros H. apply B9. apply A9. exact H.
    + intros H. unfold no_rep in H. cbn [forallb] in H. apply andb_true_iff in H. destruct H as [H1 H2].
      apply negb_true_iff in H1. rewrite (B10 H2). apply A10. exact H1.
    + intros H. apply B11. apply A11. exact H.
Qed.

(* ---- invariant: T_GenCamMin <= T_GenCam <= T_GenCamMax -------------------- *)

Lemma t_gen_invariant p ops : params_ok p ->
  p_min p <= t_gen (fst (run p (init p) ops)) <= p_max p.
Proof. intros Hp. apply (run_wf p (init p) ops Hp (init_wf p Hp)). Qed.

(* ---- silence outside activity --------------------------------------------- *)

Lemma inactive_silent p s ops : active s = false -> no_start ops -> snd (run p s ops) = [].
Proof.
  revert s. induction ops as [|o ops IH]; intros s Ha Hn; [reflexivity|].
  unfold no_start in Hn. cbn [forallb] in Hn. apply andb_true_iff in Hn. destruct Hn as [Hn1 Hn2].
  rewrite run_cons. cbn [snd].
  assert (E : snd (step p s o) = [] /\ active (fst (step p s o)) = false).
  { destruct o as [| |r|now d|nowf]; try discriminate; cbn [step fst snd].
    - split; [reflexivity|reflexivity].
    - split; [reflexivity|exact Ha].
    - rewrite Ha. split; [reflexivity|exact Ha].
    - split; [reflexivity|exact Ha]. }
  destruct E as [E1 E2]. rewrite E1. cbn [app]. apply IH; assumption.
Qed.

(* ---- minimum gap ------------------------------------------------------------ *)

Lemma min_gap p s t1 d1 c1 mid t2 d2 c2 :
  params_ok p ->
  snd (step p s (Check t1 d1)) = [c1] ->
  let s1 := fst (step p s (Check t1 d1)) in
  no_start mid -> snd (run p s1 mid) = [] ->
  let s2 := fst (run p s1 mid) in
  snd (step p s2 (Check t2 d2)) = [c2] ->
  cam_time c1 = t1 /\ cam_time c2 = t2 /\ p_min p <= t2 - t1.
Proof.
  intros Hp E1 s1 Hn Hm s2 E2.
  destruct (step_cases p s (Check t1 d1)) as [H|(c & Ec & He)]; [rewrite H in E1; discriminate|].
  rewrite E1 in Ec. injection Ec as <-.
  destruct He as (now & d & r & Eo & _ & _ & Ecam & _ & _ & _ & Hlt & _).
  injection Eo as <- <-.
  destruct (run_silent p s1 mid Hm Hn) as (B1 & _).
  destruct (step_cases p s2 (Check t2 d2)) as [H|(c & Ec & He)]; [rewrite H in E2; discriminate|].
  rewrite E2 in Ec. injection Ec as <-.
  destruct He as (now2 & d2' & r2 & Eo2 & _ & _ & Ecam2 & Hl2 & _).
  injection Eo2 as <- <-.
  subst c1 c2. cbn [cam_time]. split; [reflexivity|]. split; [reflexivity|].
  fold s1 in Hlt. fold s2 in B1. rewrite Hlt in B1.
  destruct Hl2 as [Hl2|(t & Hl2 & Hd)]; [congruence|].
  rewrite B1 in Hl2. injection Hl2 as <-. unfold params_ok in Hp. lia.
Qed.

(* ---- maximum gap and deadline ------------------------------------------------ *)

Fixpoint last_check (prev : Z) (ops : list op) : Z :=
  match ops with
  | [] => prev
  | Check now _ :: rest => last_check now rest
  | _ :: rest => last_check prev rest
  end.

Lemma dense_app P prev a b : dense P prev (a ++ b) <-> dense P prev a /\ dense P (last_check prev a) b.
Proof.
  revert prev. induction a as [|o a IH]; intros prev; cbn [app dense last_check]; [tauto|].
  destruct o; rewrite ?IH; tauto.
Qed.

(* While the service stays active with position data and emits nothing, every
   timer check lies less than T_GenCamMax after the last CAM. *)
Lemma quiet_checks_early p s t1 mid P c0 :
  params_ok p -> wf p s -> active s = true -> tpv s <> None -> last_time s = Some t1 ->
  no_startstop mid -> snd (run p s mid) = [] -> dense P c0 mid ->
  c0 - t1 < p_max p -> last_check c0 mid - t1 < p_max p.
Proof.
  intros Hp. revert s c0. induction mid as [|o mid IH]; intros s c0 Hw Ha Ht Hl Hn Hm Hd Hc; [exact Hc|].
  rewrite run_cons in Hm. cbn [snd] in Hm. apply app_eq_nil in Hm. destruct Hm as [Hm1 Hm2].
  unfold no_startstop in Hn. cbn [forallb] in Hn. apply andb_true_iff in Hn. destruct Hn as [Hn1 Hn2].
  apply andb_true_iff in Hn1. destruct Hn1 as [Hs1 Hs2]. apply negb_true_iff in Hs1, Hs2.
  destruct (step_silent p s o Hm1 Hs1) as (A1 & A2 & A3 & A4 & A5 & A6 & A7 & A8 & A9 & A10 & A11).
  assert (Hw' : wf p (fst (step p s o))) by (apply step_wf; assumption).
  destruct o as [| |r|now d|nowf]; try discriminate; cbn [dense last_check] in *;
    [| |apply (IH (fst (step p s (CheckFail nowf))) c0); auto; try congruence; try (rewrite A8; auto)].
  - apply (IH (fst (step p s (Rep r))) c0); auto; try congruence; try (rewrite A8; auto).
  - destruct Hd as [Hd1 Hd2].
    apply (IH (fst (step p s (Check now d))) now); auto; try congruence; try (rewrite A8; auto; fail).
    (* the silent check at `now` happened before T_GenCam elapsed *)
    { cbn [step snd] in Hm1. rewrite Ha in Hm1. unfold evaluate in Hm1.
      destruct (tpv s) as [r|] eqn:Et; [|congruence]. rewrite Hl in Hm1.
      destruct ((p_dcc p <=? now - t1) && dynamics p s r d) eqn:E1.
      { destruct (send_spec p s r now 1) as (lf & _ & Eo & _). rewrite Eo in Hm1. discriminate. }
      destruct ((t_gen s <=? now - t1) && (p_dcc p <=? now - t1)) eqn:E2.
      { destruct (send_spec p s r now 2) as (lf & _ & Eo & _). rewrite Eo in Hm1. discriminate. }
      unfold wf, params_ok in *. lia. }
Qed.

Lemma after_cam_state p s t1 d1 c1 :
  params_ok p -> wf p s ->
  snd (step p s (Check t1 d1)) = [c1] ->
  let s1 := fst (step p s (Check t1 d1)) in
  wf p s1 /\ active s1 = true /\ tpv s1 <> None /\ last_time s1 = Some t1 /\ cam_time c1 = t1.
Proof.
  intros Hp Hw E1 s1.
  destruct (step_cases p s (Check t1 d1)) as [H|(c & Ec & He)]; [rewrite H in E1; discriminate|].
  rewrite E1 in Ec. injection Ec as <-.
  destruct He as (now & d & r & Eo & _ & Et & Ecam & _ & Ha' & Et' & Hlt & _).
  injection Eo as <- <-. subst c1.
  split; [apply step_wf; assumption|]. split; [exact Ha'|]. split; [fold s1 in Et'; congruence|].
  split; [exact Hlt|reflexivity].
Qed.

Lemma max_gap p s t1 d1 c1 mid t2 d2 P :
  params_ok p -> wf p s -> 0 <= P ->
  snd (step p s (Check t1 d1)) = [c1] ->
  let s1 := fst (step p s (Check t1 d1)) in
  no_startstop mid -> snd (run p s1 mid) = [] ->
  dense P t1 (mid ++ [Check t2 d2]) ->
  t2 - t1 <= p_max p + P.
Proof.
  intros Hp Hw HP E1 s1 Hn Hm Hd.
  destruct (after_cam_state p s t1 d1 c1 Hp Hw E1) as (Hw1 & Ha1 & Ht1 & Hl1 & _). fold s1 in Hw1, Ha1, Ht1, Hl1.
  apply dense_app in Hd. destruct Hd as [Hd1 Hd2]. cbn [dense] in Hd2.
  assert (H := quiet_checks_early p s1 t1 mid P t1 Hp Hw1 Ha1 Ht1 Hl1 Hn Hm Hd1).
  unfold params_ok in Hp. lia.
Qed.

Lemma deadline p s t1 d1 c1 mid t2 d2 :
  params_ok p -> wf p s ->
  snd (step p s (Check t1 d1)) = [c1] ->
  let s1 := fst (step p s (Check t1 d1)) in
  no_startstop mid -> snd (run p s1 mid) = [] ->
  let s2 := fst (run p s1 mid) in
  p_max p <= t2 - t1 ->
  exists c2, snd (step p s2 (Check t2 d2)) = [c2] /\ cam_time c2 = t2.
Proof.
  intros Hp Hw E1 s1 Hn Hm s2 Hle.
  destruct (after_cam_state p s t1 d1 c1 Hp Hw E1) as (Hw1 & Ha1 & Ht1 & Hl1 & _). fold s1 in Hw1, Ha1, Ht1, Hl1.
  assert (Hns : no_start mid).
  { unfold no_start, no_startstop in *. rewrite forallb_forall in *. intros x Hx.
    specialize (Hn x Hx). apply andb_true_iff in Hn. tauto. }
  destruct (run_silent p s1 mid Hm Hns) as (B1 & B2 & B3 & B4 & B5 & B6 & B7 & B8 & B9 & B10 & B11).
  fold s2 in B1, B4, B8, B11.
  specialize (B8 Hn). specialize (B11 Ht1).
  cbn [step]. rewrite B8, Ha1. unfold evaluate.
  destruct (tpv s2) as [r|] eqn:Et; [|congruence]. rewrite B1, Hl1.
  destruct ((p_dcc p <=? t2 - t1) && dynamics p s2 r d2) eqn:E.
  - destruct (send_spec p s2 r t2 1) as (lf & _ & Eo & _). rewrite Eo. eexists; split; reflexivity.
  - assert (E2 : (t_gen s2 <=? t2 - t1) && (p_dcc p <=? t2 - t1) = true).
    { unfold wf, params_ok in *. rewrite B4. lia. }
    rewrite E2. destruct (send_spec p s2 r t2 2) as (lf & _ & Eo & _). rewrite Eo. eexists; split; reflexivity.
Qed.

(* ---- responsiveness to dynamics ------------------------------------------------ *)

Definition exceeded (p : params) (r1 r2 : report) (dist : Q) : Prop :=
  (exists a b, r_track r2 = Some a /\ r_track r1 = Some b /\ (p_thr_h p < hdiff p a b)%Q) \/
  (r_haspos r2 = true /\ r_haspos r1 = true /\ (p_thr_d p < dist)%Q) \/
  (exists a b, r_speed r2 = Some a /\ r_speed r1 = Some b /\ (p_thr_s p < Qabs (a - b))%Q).

Lemma responsive p s r1 t1 d1 c1 mid r2 t2 d2 :
  params_ok p -> p_dcc p = p_min p ->
  tpv s = Some r1 ->
  snd (step p s (Check t1 d1)) = [c1] ->
  let s1 := fst (step p s (Check t1 d1)) in
  no_startstop mid -> snd (run p s1 mid) = [] ->
  let s2 := fst (run p s1 mid) in
  tpv s2 = Some r2 ->
  p_min p <= t2 - t1 -> exceeded p r1 r2 d2 ->
  exists c2, snd (step p s2 (Check t2 d2)) = [c2] /\ cam_time c2 = t2.
Proof.
  intros Hp Hdcc Hr1 E1 s1 Hn Hm s2 Hr2 Hle Hex.
  destruct (step_cases p s (Check t1 d1)) as [H|(c & Ec & He)]; [rewrite H in E1; discriminate|].
  rewrite E1 in Ec. injection Ec as <-.
  destruct He as (now & d & r & Eo & _ & Et & _ & _ & Ha1 & _ & Hl1 & _ & _ & Hh1 & Hp1 & Hs1).
  injection Eo as <- <-. rewrite Hr1 in Et. injection Et as <-.
  fold s1 in Ha1, Hl1, Hh1, Hp1, Hs1.
  assert (Hns : no_start mid).
  { unfold no_start, no_startstop in *. rewrite forallb_forall in *. intros x Hx.
    specialize (Hn x Hx). apply andb_true_iff in Hn. tauto. }
  destruct (run_silent p s1 mid Hm Hns) as (B1 & B2 & B3 & B4 & B5 & B6 & B7 & B8 & B9 & B10 & B11).
  fold s2 in B1, B5, B6, B7, B8.
  specialize (B8 Hn).
  cbn [step]. rewrite B8, Ha1. unfold evaluate. rewrite Hr2, B1, Hl1.
  assert (Hdyn : dynamics p s2 r2 d2 = true).
  { unfold dynamics. destruct (last_heading s2) as [h|] eqn:Eh; [|reflexivity].
    destruct Hex as [(a & b & Ha & Hb & Hlt)|[(Hp2 & Hp1' & Hlt)|(a & b & Ha & Hb & Hlt)]].
    - unfold heading_exceeds. rewrite Ha, Eh.
      rewrite Hh1, Hb in B5. cbn [opt_or] in B5. injection B5 as ->.
      apply Qltb_lt in Hlt. rewrite Hlt. reflexivity.
    - unfold pos_exceeds. rewrite B6, Hp1, Hp1'. cbv iota beta. rewrite Hp2. apply Qltb_lt in Hlt. rewrite Hlt.
      cbn [andb]. rewrite orb_true_r. reflexivity.
    - unfold speed_exceeds. rewrite Ha, B7, Hs1, Hb. cbn [opt_or]. apply Qltb_lt in Hlt. rewrite Hlt.
      rewrite !orb_true_r. reflexivity. }
  rewrite Hdyn. assert (E : (p_dcc p <=? t2 - t1) = true) by lia. rewrite E. cbn [andb].
  destruct (send_spec p s2 r2 t2 1) as (lf & _ & Eo & _). rewrite Eo. eexists; split; reflexivity.
Qed.

(* The folded heading difference is the distance on the circle. *)
Lemma hdiff_circular a b :
  (0 <= a <= 360)%Q -> (0 <= b <= 360)%Q ->
  let d := Qabs (a - b) in
  (hdiff gen_params a b == Qmin d (360 - d))%Q.
Proof.
  intros Ha Hb d. unfold hdiff. fold d.
  assert (Hd : (0 <= d)%Q) by apply Qabs_nonneg.
  change (p_half gen_params) with (180 # 1)%Q. change (p_full gen_params) with (360 # 1)%Q.
  destruct (Qltb (180 # 1) d) eqn:E.
  - apply Qltb_lt in E. rewrite Q.min_r; [reflexivity|]. lra.
  - assert (L : (d <= 180 # 1)%Q).
    { destruct (Qlt_le_dec (180 # 1) d) as [L|L]; [|exact L]. apply Qltb_lt in L. congruence. }
    rewrite Q.min_l; [reflexivity|]. lra.
Qed.

(* ---- low-frequency container -------------------------------------------------------- *)

Lemma lf_first p s mid t d c :
  active s = false ->
  let s0 := fst (step p s Start) in
  no_start mid -> snd (run p s0 mid) = [] ->
  snd (step p (fst (run p s0 mid)) (Check t d)) = [c] ->
  cam_lf c = true.
Proof.
  intros Ha s0 Hn Hm E.
  assert (Hc0 : cam_count s0 = 0). { unfold s0. cbn [step fst]. unfold start. rewrite Ha. reflexivity. }
  destruct (run_silent p s0 mid Hm Hn) as (_ & B2 & _).
  destruct (step_cases p (fst (run p s0 mid)) (Check t d)) as [H|(c' & Ec & He)]; [rewrite H in E; discriminate|].
  rewrite E in Ec. injection Ec as <-.
  destruct He as (now & d' & r & _ & _ & _ & Ecam & _). subst c. cbn [cam_lf].
  unfold include_lf. rewrite B2, Hc0. reflexivity.
Qed.

(* all CAMs of a run carry no low-frequency container *)
Definition all_hf (outs : list out) : Prop := forallb (fun c => negb (cam_lf c)) outs = true.

Lemma run_keeps_lf p s ops tl :
  params_ok p -> wf p s -> 0 < cam_count s -> last_lf s = Some tl ->
  no_start ops -> all_hf (snd (run p s ops)) ->
  let s' := fst (run p s ops) in 0 < cam_count s' /\ last_lf s' = Some tl.
Proof.
  intros Hp. revert s. induction ops as [|o ops IH]; intros s Hw Hc Hl Hn Hh; [split; assumption|].
  rewrite run_cons in *. cbn [fst snd] in *.
  unfold no_start in Hn. cbn [forallb] in Hn. apply andb_true_iff in Hn. destruct Hn as [Hn1 Hn2].
  apply negb_true_iff in Hn1.
  unfold all_hf in Hh. rewrite forallb_app in Hh. apply andb_true_iff in Hh. destruct Hh as [Hh1 Hh2].
  assert (Hw' : wf p (fst (step p s o))) by (apply step_wf; assumption).
  destruct (step_cases p s o) as [H|(c & Ec & He)].
  - destruct (step_silent p s o H Hn1) as (_ & A2 & A3 & _). apply IH; auto; congruence.
  - destruct He as (now & d & r & _ & _ & _ & Ecam & _ & _ & _ & _ & Hcc & Hlf & _).
    rewrite Ec in Hh1. cbn [forallb] in Hh1. rewrite andb_true_r in Hh1. apply negb_true_iff in Hh1.
    subst c. cbn [cam_lf] in Hh1. rewrite Hh1 in Hlf. apply IH; auto; [lia|congruence].
Qed.

Lemma lf_rule p s tl dl cl mid t2 d2 c2 :
  params_ok p -> wf p s ->
  snd (step p s (Check tl dl)) = [cl] -> cam_lf cl = true ->
  let s1 := fst (step p s (Check tl dl)) in
  no_start mid -> all_hf (snd (run p s1 mid)) ->
  let s2 := fst (run p s1 mid) in
  snd (step p s2 (Check t2 d2)) = [c2] ->
  cam_lf c2 = (p_lf p <=? t2 - tl).
Proof.
  intros Hp Hw E1 Hlf1 s1 Hn Hh s2 E2.
  destruct (step_cases p s (Check tl dl)) as [H|(c & Ec & He)]; [rewrite H in E1; discriminate|].
  rewrite E1 in Ec. injection Ec as <-.
  destruct He as (now & d & r & Eo & _ & _ & Ecam & _ & _ & _ & _ & Hcc & Hlf & _).
  injection Eo as <- <-. subst cl. cbn [cam_lf] in Hlf1. rewrite Hlf1 in Hlf. fold s1 in Hcc, Hlf.
  assert (Hw1 : wf p s1) by (apply step_wf; assumption).
  assert (Hc1 : 0 < cam_count s1) by (unfold wf in Hw; lia).
  destruct (run_keeps_lf p s1 mid tl Hp Hw1 Hc1 Hlf Hn Hh) as [Hc2 Hl2]. fold s2 in Hc2, Hl2.
  destruct (step_cases p s2 (Check t2 d2)) as [H|(c & Ec & He)]; [rewrite H in E2; discriminate|].
  rewrite E2 in Ec. injection Ec as <-.
  destruct He as (now2 & d2' & r2 & Eo2 & _ & _ & Ecam2 & _). injection Eo2 as <- <-.
  subst c2. cbn [cam_lf]. unfold include_lf. rewrite Hl2.
  destruct (cam_count s2 =? 0) eqn:E0; [lia|reflexivity].
Qed.

(* ---- generationDeltaTime and the report a CAM reflects -------------------------------- *)

Lemma run_keeps_tpv p s ops : no_rep ops -> tpv (fst (run p s ops)) = tpv s.
Proof.
  revert s. induction ops as [|o ops IH]; intros s Hn; [reflexivity|].
  unfold no_rep in Hn. cbn [forallb] in Hn. apply andb_true_iff in Hn. destruct Hn as [Hn1 Hn2].
  rewrite run_cons. cbn [fst]. rewrite (IH _ Hn2).
  destruct (step_cases p s o) as [H|(c & Ec & He)].
  - destruct o as [| |r|now d|nowf]; try discriminate; cbn [step fst].
    + unfold start. destruct (active s); reflexivity.
    + reflexivity.
    + destruct (step_cases p s (Check now d)) as [H'|(c & Ec & He)].
      * assert (S := step_silent p s (Check now d) H' eq_refl). cbn zeta in S.
        destruct S as (_ & _ & _ & _ & _ & _ & _ & _ & _ & S & _). apply S. reflexivity.
      * rewrite H in Ec. discriminate.
    + reflexivity.
  - destruct He as (now & d & r & _ & _ & _ & _ & _ & _ & Et & _). exact Et.
Qed.

Lemma gdt_latest p s r mid t d c :
  no_rep mid ->
  let s1 := fst (step p s (Rep r)) in
  snd (step p (fst (run p s1 mid)) (Check t d)) = [c] ->
  c = Cam t (cam_lf c) (r_ts r mod 65536) (r_id r) /\ 0 <= r_ts r mod 65536 < 65536.
Proof.
  intros Hn s1 E.
  assert (Ht : tpv (fst (run p s1 mid)) = Some r).
  { rewrite (run_keeps_tpv p s1 mid Hn). reflexivity. }
  destruct (step_cases p (fst (run p s1 mid)) (Check t d)) as [H|(c' & Ec & He)]; [rewrite H in E; discriminate|].
  rewrite E in Ec. injection Ec as <-.
  destruct He as (now & d' & r' & Eo & _ & Et & Ecam & _). injection Eo as <- <-.
  rewrite Ht in Et. injection Et as <-. subst c. cbn [cam_lf]. unfold gdt_of.
  split; [reflexivity|]. apply Z.mod_pos_bound. lia.
Qed.

(* ---- concrete runs (non-vacuity, and the witness that the minimum gap does not
        extend across a stop/start) ---------------------------------------------------- *)

Definition rep0 : report := {| r_id := 0; r_ts := 630000000000; r_track := Some (90 # 1)%Q; r_haspos := true;
                               r_speed := Some (10 # 1)%Q |}.
Definition rep1 : report := {| r_id := 1; r_ts := 630000000400; r_track := Some (95 # 1)%Q; r_haspos := true;
                               r_speed := Some (10 # 1)%Q |}.

Lemma example_run :
  snd (run gen_params (init gen_params)
         [Rep rep0; Start; Check 1000 0; Check 1100 0; Rep rep1; Check 1200 (1 # 2); Check 1300 (1 # 2);
          Check 2200 0; Check 2300 0; Stop; Check 2400 0])
  = [Cam 1000 true 7168 0; Cam 1100 false 7168 0; Cam 1200 false 7568 1; Cam 1300 false 7568 1;
     Cam 2300 true 7568 1].
Proof. vm_compute. reflexivity. Qed.

Lemma restart_run :
  snd (run gen_params (init gen_params) [Rep rep0; Start; Check 1000 0; Stop; Start; Check 1030 0])
  = [Cam 1000 true 7168 0; Cam 1030 true 7168 0].
Proof. vm_compute. reflexivity. Qed.

(* ==== trace-level statements for the parameters of the working tree ==================== *)
(* outs ops = the CAMs produced by the service, started from its initial state, on the
   operation sequence ops; reach ops = its state afterwards. *)

Definition reach (ops : list op) : st := fst (run gen_params (init gen_params) ops).
Definition outs (ops : list op) : list out := snd (run gen_params (init gen_params) ops).
Definition cur_report (ops : list op) : option report := tpv (reach ops).
Definition is_active (ops : list op) : bool := active (reach ops).

Lemma reach_wf ops : wf gen_params (reach ops).
Proof. apply run_wf; [apply gen_params_ok|apply init_wf; apply gen_params_ok]. Qed.

Lemma outs_app a b : outs (a ++ b) = outs a ++ snd (run gen_params (reach a) b).
Proof. unfold outs, reach. rewrite run_app. reflexivity. Qed.

Lemma reach_app a b : reach (a ++ b) = fst (run gen_params (reach a) b).
Proof. unfold reach. rewrite run_app. reflexivity. Qed.

Lemma run_single p s o : run p s [o] = (fst (step p s o), snd (step p s o)).
Proof. rewrite run_cons. cbn [run fst snd]. rewrite app_nil_r. reflexivity. Qed.

Lemma outs_snoc a o : outs (a ++ [o]) = outs a ++ snd (step gen_params (reach a) o).
Proof. rewrite outs_app, run_single. reflexivity. Qed.

Lemma reach_snoc a o : reach (a ++ [o]) = fst (step gen_params (reach a) o).
Proof. rewrite reach_app, run_single. reflexivity. Qed.

Lemma app_same_nil {A} (l x : list A) : l ++ x = l -> x = [].
Proof. intros H. apply (app_inv_head l). rewrite app_nil_r. exact H. Qed.

Definition after1 (pre : list op) (o1 : op) : st := fst (step gen_params (reach pre) o1).

Lemma reach2 pre o1 mid : reach (pre ++ [o1] ++ mid) = fst (run gen_params (after1 pre o1) mid).
Proof. rewrite (app_assoc pre [o1] mid), (reach_app (pre ++ [o1]) mid), (reach_snoc pre o1). reflexivity. Qed.

Lemma outs2 pre o1 mid :
  outs (pre ++ [o1] ++ mid) =
  outs pre ++ snd (step gen_params (reach pre) o1) ++ snd (run gen_params (after1 pre o1) mid).
Proof.
  rewrite (app_assoc pre [o1] mid), (outs_app (pre ++ [o1]) mid), (outs_snoc pre o1), (reach_snoc pre o1).
  rewrite <- app_assoc. reflexivity.
Qed.

Lemma outs3 pre o1 mid o2 :
  outs (pre ++ [o1] ++ mid ++ [o2]) =
  outs pre ++ snd (step gen_params (reach pre) o1) ++ snd (run gen_params (after1 pre o1) mid)
  ++ snd (step gen_params (fst (run gen_params (after1 pre o1) mid)) o2).
Proof.
  rewrite (app_assoc pre [o1] (mid ++ [o2])), (app_assoc (pre ++ [o1]) mid [o2]).
  rewrite (outs_snoc ((pre ++ [o1]) ++ mid) o2), <- (app_assoc pre [o1] mid), outs2, reach2.
  rewrite <- !app_assoc. reflexivity.
Qed.

(* decomposition of a trace  pre ++ [Check t1] ++ mid ++ [Check t2]  whose CAM output is
   outs pre ++ [c1] after the first check, unchanged by mid, and ++ [c2] at the end *)
Lemma one_cam_then_quiet pre o1 c1 mid :
  outs (pre ++ [o1]) = outs pre ++ [c1] ->
  outs (pre ++ [o1] ++ mid) = outs pre ++ [c1] ->
  snd (step gen_params (reach pre) o1) = [c1] /\ snd (run gen_params (after1 pre o1) mid) = [].
Proof.
  intros H1 H2. rewrite outs_snoc in H1. apply app_inv_head in H1. split; [exact H1|].
  rewrite outs2, H1, app_assoc in H2. apply app_same_nil in H2. exact H2.
Qed.

Lemma two_cams pre o1 c1 mid o2 c2 :
  outs (pre ++ [o1]) = outs pre ++ [c1] ->
  outs (pre ++ [o1] ++ mid) = outs pre ++ [c1] ->
  outs (pre ++ [o1] ++ mid ++ [o2]) = outs pre ++ [c1; c2] ->
  snd (step gen_params (reach pre) o1) = [c1] /\
  snd (run gen_params (after1 pre o1) mid) = [] /\
  snd (step gen_params (fst (run gen_params (after1 pre o1) mid)) o2) = [c2].
Proof.
  intros H1 H2 H3. destruct (one_cam_then_quiet pre o1 c1 mid H1 H2) as [E1 Em].
  split; [exact E1|]. split; [exact Em|].
  rewrite outs3, E1, Em in H3. cbn [app] in H3. apply app_inv_head in H3.
  injection H3 as H3. exact H3.
Qed.

Lemma tr_min_gap pre t1 d1 c1 mid t2 d2 c2 :
  outs (pre ++ [Check t1 d1]) = outs pre ++ [c1] ->
  outs (pre ++ [Check t1 d1] ++ mid) = outs pre ++ [c1] ->
  outs (pre ++ [Check t1 d1] ++ mid ++ [Check t2 d2]) = outs pre ++ [c1; c2] ->
  no_start mid ->
  cam_time c1 = t1 /\ cam_time c2 = t2 /\ T_GEN_CAM_MIN <= t2 - t1.
Proof.
  intros H1 H2 H3 Hn. destruct (two_cams _ _ _ _ _ _ H1 H2 H3) as (E1 & Em & E2).
  exact (min_gap gen_params _ _ _ _ _ _ _ _ gen_params_ok E1 Hn Em E2).
Qed.

Lemma tr_max_gap pre t1 d1 c1 mid t2 d2 P :
  0 <= P ->
  outs (pre ++ [Check t1 d1]) = outs pre ++ [c1] ->
  outs (pre ++ [Check t1 d1] ++ mid) = outs pre ++ [c1] ->
  no_startstop mid -> dense P t1 (mid ++ [Check t2 d2]) ->
  t2 - t1 <= T_GEN_CAM_MAX + P.
Proof.
  intros HP H1 H2 Hn Hd. destruct (one_cam_then_quiet _ _ _ _ H1 H2) as (E1 & Em).
  exact (max_gap gen_params _ _ _ _ _ _ _ P gen_params_ok (reach_wf pre) HP E1 Hn Em Hd).
Qed.

Lemma tr_deadline pre t1 d1 c1 mid t2 d2 :
  outs (pre ++ [Check t1 d1]) = outs pre ++ [c1] ->
  outs (pre ++ [Check t1 d1] ++ mid) = outs pre ++ [c1] ->
  no_startstop mid -> T_GEN_CAM_MAX <= t2 - t1 ->
  exists c2, outs (pre ++ [Check t1 d1] ++ mid ++ [Check t2 d2]) = outs pre ++ [c1; c2] /\ cam_time c2 = t2.
Proof.
  intros H1 H2 Hn Hle. destruct (one_cam_then_quiet _ _ _ _ H1 H2) as (E1 & Em).
  destruct (deadline gen_params _ _ _ _ _ t2 d2 gen_params_ok (reach_wf pre) E1 Hn Em Hle) as (c2 & E2 & Ht).
  exists c2. split; [|exact Ht].
  rewrite outs3, E1, Em. unfold after1. rewrite E2. reflexivity.
Qed.

Lemma tr_responsive pre r1 t1 d1 c1 mid r2 t2 d2 :
  cur_report pre = Some r1 ->
  outs (pre ++ [Check t1 d1]) = outs pre ++ [c1] ->
  outs (pre ++ [Check t1 d1] ++ mid) = outs pre ++ [c1] ->
  no_startstop mid ->
  cur_report (pre ++ [Check t1 d1] ++ mid) = Some r2 ->
  T_GEN_CAM_MIN <= t2 - t1 -> exceeded gen_params r1 r2 d2 ->
  exists c2, outs (pre ++ [Check t1 d1] ++ mid ++ [Check t2 d2]) = outs pre ++ [c1; c2] /\ cam_time c2 = t2.
Proof.
  intros Hr1 H1 H2 Hn Hr2 Hle Hex. destruct (one_cam_then_quiet _ _ _ _ H1 H2) as (E1 & Em).
  unfold cur_report in Hr2. rewrite reach2 in Hr2.
  destruct (responsive gen_params _ _ _ _ _ _ _ t2 d2 gen_params_ok gen_dcc_is_min Hr1 E1 Hn Em Hr2 Hle Hex)
    as (c2 & E2 & Ht).
  exists c2. split; [|exact Ht].
  rewrite outs3, E1, Em. unfold after1. rewrite E2. reflexivity.
Qed.

Lemma tr_lf_first pre mid t d c :
  is_active pre = false ->
  outs (pre ++ [Start] ++ mid) = outs pre -> no_start mid ->
  outs (pre ++ [Start] ++ mid ++ [Check t d]) = outs pre ++ [c] ->
  cam_lf c = true.
Proof.
  intros Ha Hm Hn H.
  rewrite outs2 in Hm. cbn [step snd app] in Hm. apply app_same_nil in Hm.
  rewrite outs3 in H. cbn [step snd app] in H. rewrite Hm in H. cbn [app] in H. apply app_inv_head in H.
  exact (lf_first gen_params (reach pre) mid t d c Ha Hn Hm H).
Qed.

Lemma tr_lf_rule pre tl dl cl mid t2 d2 c2 :
  outs (pre ++ [Check tl dl]) = outs pre ++ [cl] -> cam_lf cl = true ->
  no_start mid ->
  (forall c, In c (snd (run gen_params (reach (pre ++ [Check tl dl])) mid)) -> cam_lf c = false) ->
  outs (pre ++ [Check tl dl] ++ mid ++ [Check t2 d2]) = outs (pre ++ [Check tl dl] ++ mid) ++ [c2] ->
  cam_lf c2 = (T_GEN_CAM_LF_MS <=? t2 - tl).
Proof.
  intros H1 Hlf Hn Hh H2.
  rewrite outs_snoc in H1. apply app_inv_head in H1.
  rewrite outs3, outs2, !app_assoc in H2. apply app_inv_head in H2.
  rewrite reach_snoc in Hh.
  apply (lf_rule gen_params (reach pre) tl dl cl mid t2 d2 c2 gen_params_ok (reach_wf pre) H1 Hlf Hn); [|exact H2].
  unfold all_hf. apply forallb_forall. intros c Hc. rewrite (Hh c Hc). reflexivity.
Qed.

Lemma tr_silent_before_start ops : no_start ops -> outs ops = [].
Proof. intros H. apply inactive_silent; [reflexivity|exact H]. Qed.

Lemma tr_silent_after_stop pre ops : no_start ops -> outs (pre ++ [Stop] ++ ops) = outs pre.
Proof.
  intros H. rewrite outs2. cbn [step snd app].
  rewrite inactive_silent; [apply app_nil_r|reflexivity|exact H].
Qed.

Lemma tr_gdt pre r mid t d c :
  no_rep mid ->
  outs (pre ++ [Rep r] ++ mid ++ [Check t d]) = outs (pre ++ [Rep r] ++ mid) ++ [c] ->
  c = Cam t (cam_lf c) (r_ts r mod 65536) (r_id r) /\ 0 <= r_ts r mod 65536 < 65536.
Proof.
  intros Hn H. rewrite outs3, outs2, !app_assoc in H. apply app_inv_head in H.
  exact (gdt_latest gen_params (reach pre) r mid t d c Hn H).
Qed.

Lemma tr_t_gen ops : T_GEN_CAM_MIN <= t_gen (reach ops) <= T_GEN_CAM_MAX.
Proof. apply (t_gen_invariant gen_params ops gen_params_ok). Qed.

Lemma tr_cur_report pre r mid : no_rep mid -> cur_report (pre ++ [Rep r] ++ mid) = Some r.
Proof.
  intros Hn. unfold cur_report. rewrite reach2, run_keeps_tpv; [reflexivity|exact Hn].
Qed.

Lemma tr_inactive_initially : is_active [] = false.
Proof. reflexivity. Qed.

Lemma tr_inactive_after_stop pre mid : no_start mid -> is_active (pre ++ [Stop] ++ mid) = false.
Proof.
  intros Hn. unfold is_active. rewrite reach2.
  assert (Hs : snd (run gen_params (after1 pre Stop) mid) = [])
    by (apply inactive_silent; [reflexivity|exact Hn]).
  destruct (run_silent gen_params _ mid Hs Hn) as (_ & _ & _ & _ & _ & _ & _ & _ & B9 & _).
  apply B9. reflexivity.
Qed.

(* the values named in the property text *)
(* ---- failed hand-overs (Annex B.2.5) ------------------------------------------------------ *)

(* A timer check at which the CAM cannot be handed over leaves no trace: the state is the one
   before the check, and every later CAM (time, low-frequency container, content) is the one
   the history without that check produces. *)
Lemma tr_failed_check_no_trace pre t post :
  reach (pre ++ [CheckFail t]) = reach pre /\
  outs (pre ++ [CheckFail t] ++ post) = outs (pre ++ post).
Proof.
  split.
  - rewrite reach_snoc. reflexivity.
  - rewrite !outs_app. f_equal. cbn [app]. rewrite run_cons. cbn [step fst snd app]. reflexivity.
Qed.

(* concrete run: a vehicle moving 5 m per check sends a CAM every 100 ms; the one due at 1500 with
   the low-frequency container (last one at 1000) fails; the CAM at 1600 carries the container
   (the failed one did not restart the interval) and the one at 1700 does not *)
Lemma failed_run :
  snd (run gen_params (init gen_params)
         [Rep rep0; Start; Check 1000 0; Check 1100 (5 # 1); Check 1200 (5 # 1); Check 1300 (5 # 1);
          Check 1400 (5 # 1); CheckFail 1500; Check 1600 (5 # 1); Check 1700 (5 # 1)])
  = [Cam 1000 true 7168 0; Cam 1100 false 7168 0; Cam 1200 false 7168 0; Cam 1300 false 7168 0;
     Cam 1400 false 7168 0; Cam 1600 true 7168 0; Cam 1700 false 7168 0].
Proof. vm_compute. reflexivity. Qed.

Lemma cam_constants :
  T_GEN_CAM_MIN = 100 /\ T_GEN_CAM_MAX = 1000 /\ T_CHECK_CAM_GEN <= T_GEN_CAM_MIN /\ 0 <= T_CHECK_CAM_GEN /\
  T_GEN_CAM_MIN <= T_GEN_CAM_DCC <= T_GEN_CAM_MAX /\ T_GEN_CAM_LF_MS = 500 /\
  (CAM_THR_HEADING == 4)%Q /\ (CAM_THR_POSITION == 4)%Q /\ (CAM_THR_SPEED == 1 # 2)%Q.
Proof. repeat split; vm_compute; congruence. Qed.

(* the minimum gap is a property of one activation: across stop/start the first CAM is immediate *)
Definition min_gap_any_two_consecutive_cams : Prop :=
  forall pre t1 d1 c1 mid t2 d2 c2,
  outs (pre ++ [Check t1 d1]) = outs pre ++ [c1] ->
  outs (pre ++ [Check t1 d1] ++ mid) = outs pre ++ [c1] ->
  outs (pre ++ [Check t1 d1] ++ mid ++ [Check t2 d2]) = outs pre ++ [c1; c2] ->
  T_GEN_CAM_MIN <= t2 - t1.

Lemma min_gap_across_restart_refuted : ~ min_gap_any_two_consecutive_cams.
Proof.
  intros H.
  specialize (H [Rep rep0; Start] 1000 0%Q (Cam 1000 true 7168 0) [Stop; Start] 1030 0%Q (Cam 1030 true 7168 0)
                eq_refl eq_refl eq_refl).
  vm_compute in H. apply H. reflexivity.
Qed.
